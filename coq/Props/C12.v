(* C12 — Raw Write reaches every appender of the named logger verbatim. Statements only. *)
From LogV Require Import Base.Bytes Model.Level Model.Deliver Model.RawWrite Proofs.RawWriteProofs.
From Coq Require Import Permutation.
Open Scope nat_scope.

(* synchronous (and the async worker's []byte case): every appender reference of the logger receives the
   bytes exactly once, for every level setting of the references and any declaration order *)
Theorem c12_every_appender_once : forall refs, Permutation (map ar_id refs) (write_raw_refs refs).
Proof. exact raw_reaches_every_ref. Qed.
Print Assumptions c12_every_appender_once.

(* asynchronous: for every history of buffer overwrites, writes and worker steps, each appender ends up
   with the contents present at call time, once each, in call order; each call reports the full length *)
Theorem c12_async_snapshot : forall ops,
  r_out (drain_all (rrun QCopy ops)) = writes_of [] ops /\ r_ret (rrun QCopy ops) = map (@length N) (writes_of [] ops).
Proof. exact async_snapshot. Qed.
Print Assumptions c12_async_snapshot.

(* the aliasing shape (before fix db5a184) is refuted by a 3-step history *)
Theorem c12_alias_refuted : exists ops, r_out (fold_left (rstep QAlias) [RDeliver] (rrun QAlias ops)) <> writes_of [] ops.
Proof. exact alias_refuted. Qed.
Print Assumptions c12_alias_refuted.

(* Refresh fails iff a requested handle name is not configured *)
Theorem c12_unconfigured_name_is_error : forall handles loggers,
  (exists b, bind_handles handles loggers = Some b) <-> forall h, In h handles -> In h loggers.
Proof. exact bind_handles_iff. Qed.
Print Assumptions c12_unconfigured_name_is_error.

Example c12_ex :
  r_out (drain_all (rrun QCopy [RSet [1]%N; RWrite; RSet [2;3]%N; RWrite; RDeliver; RSet []; RWrite])) = [[1]%N; [2;3]%N; []] /\
  write_raw_refs [ {| ar_id := 7; ar_min := 500; ar_max := 600 |}; {| ar_id := 8; ar_min := 300; ar_max := lvl_max |} ] = [8%N; 7%N].
Proof. vm_compute. split; reflexivity. Qed.
