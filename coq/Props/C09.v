(* C09 — String escaping is total, exact, and never leaks raw control bytes.
   Statements only; proofs are in Proofs/EscapeProofs.v. All theorems quantify over every
   list of N (every byte string, and trivially every non-byte value too). *)
From LogV Require Import Base.Bytes Base.Utf8 Base.JsonStr Model.Escape Proofs.EscapeProofs.

(* the escaped text, read as the body of a JSON string literal, decodes to the input with
   each invalid UTF-8 byte replaced by one U+FFFD; in particular decoding succeeds, so there
   is no unescaped quote, no raw control byte and no dangling backslash (unescape rejects those) *)
Theorem c09_roundtrip : forall s : bytes, unescape (escape s) = Some (sanitize s).
Proof. exact escape_roundtrip. Qed.
Print Assumptions c09_roundtrip.

Theorem c09_no_raw_control : forall (s : bytes) (x : N), In x (escape s) -> 32 <= x.
Proof. exact escape_no_control. Qed.
Print Assumptions c09_no_raw_control.

Theorem c09_output_is_utf8 : forall s : bytes, Utf8 (escape s).
Proof. exact escape_utf8. Qed.
Print Assumptions c09_output_is_utf8.

(* the model of utf8.DecodeRuneInString (first[]/acceptRanges[]) agrees with Unicode Table 3-7 *)
Theorem c09_go_decoder_matches_table : forall s0 r,
  go_decode_size (s0 :: r) = match wf_len (s0 :: r) with O => 1%nat | n => n end.
Proof. exact decode_agree. Qed.
Print Assumptions c09_go_decoder_matches_table.

(* non-vacuity: a string mixing ASCII, controls, a quote, valid 2/3/4-byte sequences,
   a surrogate encoding (invalid), a truncated sequence and the valid encoding of U+FFFD *)
Example c09_ex :
  let s := [97; 10; 34; 92; 1; 195; 169; 226; 130; 172; 240; 159; 152; 128; 237; 160; 128; 226; 130; 239; 191; 189; 255] in
  unescape (escape s) = Some (sanitize s) /\
  sanitize s = [97; 10; 34; 92; 1; 195; 169; 226; 130; 172; 240; 159; 152; 128] ++
               replacement ++ replacement ++ replacement ++ replacement ++ replacement ++ [239; 191; 189] ++ replacement.
Proof. vm_compute. split; reflexivity. Qed.
