(* C16 — Logging never panics in any lifecycle state; Refresh/Destroy cycle is sane. Statements only.
   Outcomes of the model are values: there is no "panic" or "blocks" outcome for logging at all, so the
   content of these theorems is WHERE each call lands in every reachable state; that the real code
   produces the same outcomes (and no panic / block) for all operation sequences is the correspondence. *)
From LogV Require Import Base.Bytes Model.Lifecycle Proofs.LifecycleProofs.
Open Scope nat_scope.

Theorem c16_inv_reachable : forall ops, linv (fst (lrun l_start ops)).
Proof. exact linv_reachable. Qed.
Print Assumptions c16_inv_reachable.

(* hi = the level is WARN or above; CfgW's logger takes only those. With no live configuration every level goes to the console:
   nothing a former configuration decided (a level range, a binding) outlives it *)
Theorem c16_log_goes_somewhere : forall ops hi,
  let s := fst (lrun l_start ops) in
  snd (lstep s (OLog hi)) = match l_running s with Some c => if accepts c hi then ToConfig c else Filtered | None => ToConsole end /\
  snd (lstep s OWrite) = match l_running s with Some c => ToConfig c | None => ToConsole end /\
  (l_init s = false -> snd (lstep s (OLog hi)) = ToConsole /\ snd (lstep s OWrite) = ToConsole).
Proof. exact log_goes_somewhere. Qed.
Print Assumptions c16_log_goes_somewhere.

Theorem c16_second_refresh_rejected_and_harmless : forall ops c, let s := fst (lrun l_start ops) in
  l_init s = true -> lstep s (ORefresh c) = (s, RefreshErr).
Proof. exact second_refresh_rejected. Qed.
Print Assumptions c16_second_refresh_rejected_and_harmless.

Theorem c16_destroy_idempotent : forall s, fst (lstep (fst (lstep s ODestroy)) ODestroy) = fst (lstep s ODestroy).
Proof. exact destroy_idempotent. Qed.
Print Assumptions c16_destroy_idempotent.

Theorem c16_registration_guard : forall ops o, o = ORegisterTag \/ o = OGetLogger ->
  let s := fst (lrun l_start ops) in
  snd (lstep s o) = (if l_init s then Refused else Registered) /\ snd (lstep (fst (lstep s ODestroy)) o) = Registered.
Proof. exact registration_guard. Qed.
Print Assumptions c16_registration_guard.

Theorem c16_destroy_then_refresh_routes : forall s c,
  let s1 := fst (lstep s ODestroy) in
  lstep s1 (ORefresh c) = ({| l_init := true; l_tag := Some c; l_handle := Some c; l_running := Some c |}, RefreshOk) /\
  snd (lstep (fst (lstep s1 (ORefresh c))) (OLog true)) = ToConfig c /\ snd (lstep (fst (lstep s1 (ORefresh c))) OWrite) = ToConfig c.
Proof. exact destroy_then_refresh_routes. Qed.
Print Assumptions c16_destroy_then_refresh_routes.

Theorem c16_failed_refresh_leaves_no_configuration : forall ops o, o = ORefreshEarly \/ o = ORefreshLate ->
  let s := fst (lrun l_start ops) in
  snd (lstep s o) = RefreshErr /\ (l_init s = false -> fst (lstep s o) = s) /\ (l_init s = true -> fst (lstep s o) = s).
Proof. exact failed_refresh_leaves_no_configuration. Qed.
Print Assumptions c16_failed_refresh_leaves_no_configuration.

Example c16_ex :
  snd (lrun l_start [OWrite; ORefreshLate; OLog false; ORegisterTag; ORefresh CfgB; ORefresh CfgA; OLog false; OGetLogger; ODestroy; ODestroy; OWrite; ORefresh CfgA; OWrite;
                     ODestroy; ORefresh CfgW; OLog false; OLog true; OWrite; ODestroy; OLog false]) =
    [ToConsole; RefreshErr; ToConsole; Registered; RefreshOk; RefreshErr; ToConfig CfgB; Refused; Done; Done; ToConsole; RefreshOk; ToConfig CfgA;
     Done; RefreshOk; Filtered; ToConfig CfgW; ToConfig CfgW; Done; ToConsole].
Proof. vm_compute. reflexivity. Qed.
