(* C18 — Tag names: exactly the documented language is accepted; idempotent registry.
   This file contains only statements; every proof is `exact <lemma>`. *)
From LogV Require Import Base.Bytes Model.Tag Proofs.BytesLemmas Proofs.TagProofs.
From Coq Require Import Sorting.Sorted.

(* every byte string: accepted iff in the documented language *)
Theorem c18_accept_iff : forall s : bytes, is_valid_tag s = true <-> tag_lang s.
Proof. exact valid_tag_iff. Qed.
Print Assumptions c18_accept_iff.

(* names built by the app/biz/rpc helpers from valid parts are accepted *)
Theorem c18_helpers_accepted : forall main sub action t,
  is_seg main -> is_seg sub -> (action = [] \/ is_seg action) ->
  build_tag main sub action = Some t -> (length t <= 36)%nat -> is_valid_tag t = true.
Proof. exact build_tag_accepted. Qed.
Print Assumptions c18_helpers_accepted.

(* every history of RegisterTag calls (before Refresh): the i-th call panics iff its
   name is invalid and then registers nothing; otherwise it returns the tag of that
   name (the same one every time); all_tags is sorted, duplicate-free and contains
   exactly the accepted names registered. *)
Theorem c18_registry_histories : forall ops st' outs,
  run_registry init_registry ops = (st', outs) ->
  reg_init st' = false /\ StronglySorted blt (all_tags st') /\
  (forall x, In x (all_tags st') <-> (In x ops /\ is_valid_tag x = true)) /\
  length outs = length ops /\
  (forall i t, nth_error ops i = Some t ->
     nth_error outs i = Some (if is_valid_tag t then RegOk t else RegPanicInvalid)).
Proof.
  intros ops st' outs H.
  destruct (run_registry_spec ops init_registry st' outs eq_refl (SSorted_nil _) H)
    as [H1 [H2 [H3 [H4 H5]]]].
  split; [exact H1|]. split; [exact H2|]. split; [|split; [exact H4|exact H5]].
  intro x. rewrite H3. simpl. tauto.
Qed.
Print Assumptions c18_registry_histories.

Theorem c18_all_tags_nodup : forall ops st' outs,
  run_registry init_registry ops = (st', outs) -> NoDup (all_tags st').
Proof.
  intros ops st' outs H. apply sorted_nodup.
  exact (proj1 (proj2 (run_registry_spec ops init_registry st' outs eq_refl (SSorted_nil _) H))).
Qed.
Print Assumptions c18_all_tags_nodup.

(* non-vacuity: concrete members / non-members, and a concrete history *)
Example c18_ex_accept : is_valid_tag [95;97;112;112;95;100;101;102] = true. (* "_app_def" *)
Proof. vm_compute. reflexivity. Qed.
Example c18_ex_lang : tag_lang [97;95;98;95;99;95;100]. (* "a_b_c_d" *)
Proof. apply valid_tag_iff. vm_compute. reflexivity. Qed.
Example c18_ex_reject5 : is_valid_tag [97;95;98;95;99;95;100;95;101] = false. (* five segments *)
Proof. vm_compute. reflexivity. Qed.
Example c18_ex_history :
  let a := [97;98;99] in let b := [95;97;95;98] in
  fst (run_registry init_registry [b; a; [65;66;67]; b]) = {| reg_init := false; reg_tags := [b; a] |}.
Proof. vm_compute. reflexivity. Qed.
