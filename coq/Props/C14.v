(* C14 — Retention cleanup deletes only this appender's own expired files. Statements only. *)
From LogV Require Import Base.Bytes Model.Retention Proofs.RetentionProofs.
Open Scope Z_scope.

(* for every directory population, file name, maximum age and clock: an entry survives iff it is
   NOT (a regular file, named "<name>." + 14 digits, older than the cut-off) - both inclusions.
   must_delete also carries `representable age`: the age in hours must fit the time.Duration the code computes with
   (|age| <= 2562047 h, about 292 years); beyond that nothing is deleted (c14_unrepresentable_age_deletes_nothing) *)
Theorem c14_deletes_exactly : forall fn age now dir e,
  In e (clear_expired fn age now dir) <-> In e dir /\ ~ must_delete fn age now e.
Proof. exact clear_expired_exact. Qed.
Print Assumptions c14_deletes_exactly.

Theorem c14_must_delete_for_representable_ages : forall fn age now e, representable age ->
  (must_delete fn age now e <-> de_kind e = 0%N /\ own_file fn (de_name e) /\ expired age now e).
Proof. exact must_delete_representable. Qed.
Print Assumptions c14_must_delete_for_representable_ages.

Theorem c14_unrepresentable_age_deletes_nothing : forall fn age now dir, max_age_fit < Z.abs age -> clear_expired fn age now dir = dir.
Proof. exact unrepresentable_age_deletes_nothing. Qed.
Print Assumptions c14_unrepresentable_age_deletes_nothing.

Theorem c14_order_and_multiplicity_kept : forall fn age now dir,
  exists keep : dirent -> bool,
    (forall e, keep e = false <-> must_delete fn age now e) /\ clear_expired fn age now dir = filter keep dir.
Proof. exact clear_expired_is_filter. Qed.
Print Assumptions c14_order_and_multiplicity_kept.

Theorem c14_keeps_young : forall fn age now dir e,
  In e dir -> now - age * 3600 <= de_mtime e -> In e (clear_expired fn age now dir).
Proof. exact keeps_young. Qed.
Print Assumptions c14_keeps_young.

Theorem c14_keeps_dirs_and_non_regular : forall fn age now dir e,
  In e dir -> de_kind e <> 0%N -> In e (clear_expired fn age now dir).
Proof. exact keeps_non_regular. Qed.
Print Assumptions c14_keeps_dirs_and_non_regular.

Theorem c14_keeps_foreign : forall fn age now dir e,
  In e dir -> ~ own_file fn (de_name e) -> In e (clear_expired fn age now dir).
Proof. exact keeps_foreign. Qed.
Print Assumptions c14_keeps_foreign.

Theorem c14_keeps_current : forall fn age now dir e,
  In e dir -> 1 <= age -> now - 3600 <= de_mtime e -> In e (clear_expired fn age now dir).
Proof. exact keeps_current. Qed.
Print Assumptions c14_keeps_current.

(* name.wf.<ts>, name.audit.<ts>: an extra component before the timestamp is never an own file *)
Theorem c14_prefix_sharing_is_foreign : forall fn mid d,
  mid <> [] -> length d = 14%nat -> ~ own_file fn (fn ++ [dot] ++ mid ++ d).
Proof. exact foreign_extra_suffix. Qed.
Print Assumptions c14_prefix_sharing_is_foreign.

Theorem c14_siblings_disjoint : forall fn ext name,
  ext <> [] -> ~ (own_file fn name /\ own_file (fn ++ [dot] ++ ext) name).
Proof. exact siblings_disjoint. Qed.
Print Assumptions c14_siblings_disjoint.

Theorem c14_own_file_length : forall fn name, own_file fn name -> length name = (length fn + 15)%nat.
Proof. exact own_file_shape. Qed.
Print Assumptions c14_own_file_length.

(* ---- histories: several passes of one appender, the world changing entries in between ---- *)
(* each pass judges every entry by what it is at that pass *)
Theorem c14_pass_judges_current_state : forall fn age dir p e,
  In e (pass fn age dir p) <-> In e (apply_updates dir (ph_set p)) /\ ~ must_delete fn age (ph_now p) e.
Proof. exact pass_exact. Qed.
Print Assumptions c14_pass_judges_current_state.

Theorem c14_history_touched_young_survives : forall fn age dir ps p e,
  In e (ph_set p) -> ph_now p - age * 3600 <= de_mtime e -> In e (run_phases fn age dir (ps ++ [p])).
Proof. exact history_touched_young_survives. Qed.
Print Assumptions c14_history_touched_young_survives.

Theorem c14_history_untouched_kept : forall fn age ps dir e,
  In e dir ->
  (forall p, In p ps -> named (de_name e) (ph_set p) = false /\ ~ must_delete fn age (ph_now p) e) ->
  In e (run_phases fn age dir ps).
Proof. exact history_untouched_kept. Qed.
Print Assumptions c14_history_untouched_kept.

Theorem c14_history_no_invention : forall fn age ps dir e,
  In e (run_phases fn age dir ps) -> In e dir \/ exists p, In p ps /\ In e (ph_set p).
Proof. exact history_no_invention. Qed.
Print Assumptions c14_history_no_invention.

(* non-vacuity: a file young at the first pass, touched, and past its FIRST mtime's expiry at the second pass - it stays *)
Example c14_history_ex :
  let fn := [97;112;112]%N in
  let ts := [50;48;50;53;48;49;48;49;48;48;48;48;48;48]%N in
  let f0 := {| de_name := fn ++ [dot] ++ ts; de_kind := 0; de_mtime := -3598 |} in
  let f1 := {| de_name := fn ++ [dot] ++ ts; de_kind := 0; de_mtime := 1 |} in
  run_phases fn 1 [f0] [ {| ph_now := 0; ph_set := [] |}; {| ph_now := 5; ph_set := [f1] |} ] = [f1]
  /\ run_phases fn 1 [f0] [ {| ph_now := 0; ph_set := [] |}; {| ph_now := 5; ph_set := [] |} ] = [].
Proof. vm_compute. split; reflexivity. Qed.

(* non-vacuity: app.log with an old own file, a young own file, app.log.bak, app.log.wf.<ts>, a directory *)
Example c14_ex :
  let fn := [97;112;112]%N in
  let ts := [50;48;50;53;48;49;48;49;48;48;48;48;48;48]%N in
  let old := {| de_name := fn ++ [dot] ++ ts; de_kind := 0; de_mtime := -1000000 |} in
  let young := {| de_name := fn ++ [dot] ++ ts; de_kind := 0; de_mtime := -10 |} in
  let bak := {| de_name := fn ++ [dot] ++ [98;97;107]%N; de_kind := 0; de_mtime := -1000000 |} in
  let wf := {| de_name := fn ++ [dot] ++ [119;102;46]%N ++ ts; de_kind := 0; de_mtime := -1000000 |} in
  let d := {| de_name := fn ++ [dot] ++ ts; de_kind := 1; de_mtime := -1000000 |} in
  clear_expired fn 168 0 [old; young; bak; wf; d] = [young; bak; wf; d].
Proof. vm_compute. reflexivity. Qed.
