(* C10 — Context hooks and lazy generators run exactly once iff the event is emitted. Statements only.
   These theorems are a reading of straight-line code; the weight of this property is in the
   correspondence (counting hooks and generators on the real entry points). *)
From LogV Require Import Base.Bytes Model.Level Model.Entry Proofs.EntryProofs.
Open Scope Z_scope.

Theorem c10_enabled_once : forall lr hs e, enable lr (entry_level e) = true ->
  snd (log_call lr hs e) = true /\
  times CTime (fst (log_call lr hs e)) = b2n (hk_time hs) /\
  times CCtxString (fst (log_call lr hs e)) = b2n (hk_string hs) /\
  times CCtxFields (fst (log_call lr hs e)) = b2n (hk_fields hs) /\
  times CGen (fst (log_call lr hs e)) = b2n (is_lazy e).
Proof. exact enabled_once. Qed.
Print Assumptions c10_enabled_once.

Theorem c10_disabled_nothing : forall lr hs e, enable lr (entry_level e) = false -> log_call lr hs e = ([], false).
Proof. exact disabled_nothing. Qed.
Print Assumptions c10_disabled_nothing.

Theorem c10_order : forall lr hs e, increasing (map rank (fst (log_call lr hs e))) = true.
Proof. exact callbacks_in_order. Qed.
Print Assumptions c10_order.

Example c10_ex :
  log_call (lvl_trace, lvl_debug) {| hk_time := true; hk_string := false; hk_fields := true |} ETrace = ([CGen; CTime; CCtxFields], true) /\
  log_call (lvl_trace, lvl_debug) {| hk_time := true; hk_string := true; hk_fields := true |} EDebug = ([], false) /\
  log_call (lvl_info, lvl_max) {| hk_time := false; hk_string := true; hk_fields := false |} (ERecord 999) = ([], false).
Proof. vm_compute. repeat split; reflexivity. Qed.
