(* C17 — Config-expression parser is total and flattens well-formed input exactly. Statements only.
   The model is a reference implementation of Expr.g4 (lexer with ANTLR's longest-match / first-rule
   tie-breaking, recursive-descent parser, flattening listener), not of the ANTLR runtime. *)
From LogV Require Import Base.Bytes Base.Utf8 Model.Expr Proofs.ExprProofs Proofs.LexProofs.
Open Scope N_scope.

(* the reference parser accepts every token sequence the grammar derives, and returns exactly the
   derived tree: nesting unbounded, optional trailing comma, dotted / indexed paths *)
Theorem c17_parser_complete : forall ts t, ExprD ts t -> parse_expr (S (length ts)) ts = Some (t, []).
Proof. exact parse_expr_complete. Qed.
Print Assumptions c17_parser_complete.

Theorem c17_parser_complete_in_context :
  (forall ts t, ExprD ts t -> forall fuel rest, (length ts < fuel)%nat -> parse_expr fuel (ts ++ rest) = Some (t, rest)).
Proof. exact (proj1 (proj2 parser_complete)). Qed.
Print Assumptions c17_parser_complete_in_context.

(* the reference lexer is total: every token consumes at least one byte, so its result never depends
   on the fuel it is run with (the model never answers "out of fuel") *)
Theorem c17_lexer_progress : forall s t r, lex_one s = Some (t, r) -> (length r < length s)%nat.
Proof. exact lex_one_progress. Qed.
Print Assumptions c17_lexer_progress.

Theorem c17_lexer_fuel_irrelevant : forall f1 f2 s, (length s < f1)%nat -> (length s < f2)%nat -> lex f1 s = lex f2 s.
Proof. exact lex_fuel_irrelevant. Qed.
Print Assumptions c17_lexer_fuel_irrelevant.

(* maximal munch never needs what follows a token except to stop: a token recognised at the head of any input is
   recognised again, alone, when the input is cut right after it (all token classes: punctuation, IDENT, STRING with its
   escapes, INTEGER incl. 0x.., FLOAT with fraction and exponent, and the INTEGER/FLOAT tie-breaking) *)
Theorem c17_token_relexes : forall s t r0 r, lex_one s = Some (t, r0) -> lex_one (tok_text t ++ 32 :: r) = Some (t, 32 :: r).
Proof. exact relex_one. Qed.
Print Assumptions c17_token_relexes.

(* hence the lexer ignores the whitespace layout: whatever an input lexes to, its token texts written one after the other
   with single spaces lex to the same token sequence *)
Theorem c17_lexer_layout_insensitive : forall f s ts, lex f s = Some ts -> lex (S (length (render ts))) (render ts) = Some ts.
Proof. exact lex_normalise. Qed.
Print Assumptions c17_lexer_layout_insensitive.

Theorem c17_lexer_any_layout : forall l, Forall (fun tw => lexable (fst tw) /\ forallb is_gws (snd tw) = true) l ->
  lex (S (length (render_with l))) (render_with l) = Some (map fst l).
Proof. exact lex_any_layout. Qed.
Print Assumptions c17_lexer_any_layout.

(* the result is a map: one entry per key, and a later assignment to the same key wins *)
Theorem c17_later_assignment_wins : forall l k, lookup_kv (to_map l) k = last_assigned l k None.
Proof. exact to_map_last_wins. Qed.
Print Assumptions c17_later_assignment_wins.

Theorem c17_map_keys_unique : forall l, NoDup (map fst (to_map l)).
Proof. exact to_map_keys_unique. Qed.
Print Assumptions c17_map_keys_unique.

(* non-vacuity and lexer tie-breaking, end to end through `parse` (vm_compute):
   spacing and trailing comma insignificant, nested type keys prefixed, later assignment wins,
   every admitted escape unquoted, INTEGER wins ties against FLOAT, 0x.. is one token *)
Definition s2b (l : list nat) : bytes := map N.of_nat l.
Example c17_ex_flatten :
  (* A { b . c [0x1F] = "x\/y\n" , d = B { e = +.5e-3 } , b.c[0x1F] = z , } *)
  parse [65;32;123;32;98;32;46;32;99;32;91;48;120;49;70;93;32;61;32;34;120;92;47;121;92;110;34;32;44;32;100;32;61;32;66;32;123;32;101;32;61;32;43;46;53;101;45;51;32;125;32;44;32;98;46;99;91;48;120;49;70;93;32;61;32;122;32;44;32;125]
  = POk [ ([116;121;112;101], [65]);                                   (* type = A *)
          ([98;46;99;91;48;120;49;70;93], [122]);                      (* b.c[0x1F] = z  (later wins) *)
          ([100;46;116;121;112;101], [66]);                            (* d.type = B *)
          ([100;46;101], [43;46;53;101;45;51]) ].                      (* d.e = +.5e-3 *)
Proof. vm_compute. reflexivity. Qed.
Example c17_ex_same_without_spaces :
  parse [65;123;98;46;99;91;48;120;49;70;93;61;34;120;92;47;121;92;110;34;44;100;61;66;123;101;61;43;46;53;101;45;51;125;44;98;46;99;91;48;120;49;70;93;61;122;125]
  = parse [65;32;123;32;98;32;46;32;99;32;91;48;120;49;70;93;32;61;32;34;120;92;47;121;92;110;34;32;44;32;100;32;61;32;66;32;123;32;101;32;61;32;43;46;53;101;45;51;32;125;32;44;32;98;46;99;91;48;120;49;70;93;32;61;32;122;32;44;32;125].
Proof. vm_compute. reflexivity. Qed.
Example c17_ex_lexer :
  lex 20 [49;32;49;46;53;32;49;46;32;48;120;32;49;101;53] =            (* 1 1.5 1. 0x 1e5 *)
    Some [TInt [49]; TFloat [49;46;53]; TInt [49]; TDot; TInt [48]; TIdent [120]; TFloat [49;101;53]] /\
  parse [65;123;97;61;49;44;44;125] = PErr /\ parse [32;10] = PNil /\ parse [65;123;97;61;34;120] = PErr.
Proof. vm_compute. repeat split; reflexivity. Qed.
