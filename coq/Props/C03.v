(* C03 — Concurrent logging yields whole, unmixed lines - one per event. Statements only.
   The model quantifies over every schedule, any number of goroutines and every buffer the pool may hand
   out; the sink reads the bytes at the moment of its Write, however much later that is. What the model
   cannot exhibit (sync.Pool's real policy, goroutine scheduling, write(2)/O_APPEND atomicity) is sampled
   by the harness: level partial. *)
From LogV Require Import Base.Bytes Model.Pool Proofs.PoolProofs.
Open Scope nat_scope.

(* with ToBytes returning its own copy: every Write hands the sink exactly the line its event produces
   when formatted alone - never bytes of another event *)
Theorem c03_lines_whole_and_unmixed : forall line cap_ok events s,
  preach line RetCopy cap_ok (p_start events) s -> forall e x, In (e, x) (p_sink s) -> x = line e.
Proof. exact sink_lines_whole. Qed.
Print Assumptions c03_lines_whole_and_unmixed.

(* exactly one Write per finished event and none for the others (any return mode): the multiset of lines
   equals the multiset of events logged *)
Theorem c03_one_line_per_event : forall line mode cap_ok events,
  (forall t1 t2 e, events t1 = Some e -> events t2 = Some e -> t1 = t2) ->
  forall s, preach line mode cap_ok (p_start events) s -> cinv events s.
Proof. exact one_line_per_finished_event. Qed.
Print Assumptions c03_one_line_per_event.

(* the ownership invariant behind it *)
Theorem c03_ownership_invariant : forall line cap_ok s s', pstep line RetCopy cap_ok s s' -> pinv line s -> pinv line s'.
Proof. exact step_pinv. Qed.
Print Assumptions c03_ownership_invariant.

(* the shape before fix d59291c (ToBytes returns a slice of a buffer that is already back in the pool):
   a 6-step schedule of two goroutines puts event 1's bytes into event 0's line *)
Theorem c03_alias_refuted : exists s, preach demo_line RetAlias (fun _ => true) (p_start two_events) s /\ In (0, demo_line 1) (p_sink s).
Proof. exact alias_refuted. Qed.
Print Assumptions c03_alias_refuted.
