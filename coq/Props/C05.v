(* C05 — Stop/Destroy terminates and flushes everything accepted before it. Statements only
   (the queue part; logger kinds, Destroy order and descriptors are exercised by the harness). *)
From LogV Require Import Base.Bytes Model.Async Proofs.AsyncProofs.
Open Scope nat_scope.

(* Stop called with no log call in progress, at any buffer occupancy, worker idle or holding an item:
   EVERY execution that reaches "Stop returned" has handed to the appenders exactly what was delivered,
   held or buffered at the call, in order; the buffer is empty and the worker holds nothing *)
Theorem c05_stop_flushes : forall s0 s, stage_inv s0 -> c_stop s0 <> SNo -> reach_from s0 s -> c_stop s = SDone ->
  c_delivered s = pending s0 /\ c_buf s = [] /\ c_held s = None.
Proof. exact stop_flushes. Qed.
Print Assumptions c05_stop_flushes.

(* bounded time on every schedule (each appender call returns): a measure that every step decreases,
   bounded by 2*cap+5 when Stop is called, and ... *)
Theorem c05_stop_measure : forall s s', astep s s' -> quiet_inv s -> c_stop s <> SNo -> mu s' < mu s.
Proof. exact stop_step_decreases. Qed.
Print Assumptions c05_stop_measure.
Theorem c05_stop_bound : forall s, c_stop s = SSend -> length (c_buf s) <= c_cap s -> mu s <= 2 * c_cap s + 5.
Proof. exact stop_bound. Qed.
Print Assumptions c05_stop_bound.

(* ... no deadlock: until Stop has returned some step is enabled *)
Theorem c05_stop_progress : forall s, stage_inv s -> 0 < c_cap s -> c_stop s = SSend \/ c_stop s = SWait -> exists s', astep s s'.
Proof. exact stop_progress. Qed.
Print Assumptions c05_stop_progress.

(* the invariants hold in every reachable state, so the premises above are met whenever Stop is called *)
Theorem c05_reachable_states_ok : forall cap pol s, reach (c_init cap pol) s -> stage_inv s.
Proof. intros cap pol s H. destruct (reach_all cap pol s H) as [_ [_ [_ Hs]]]. exact Hs. Qed.
Print Assumptions c05_reachable_states_ok.

Example c05_ex :
  (* capacity 2, full buffer, worker holding an item: Stop delivers all three in order *)
  let q0 := fold_left aseq_step [OSubmit (0,0); OReceive; OSubmit (0,1); OSubmit (0,2)] (q_init 2 PBlock) in
  q_held q0 = Some (0,0) /\ length (q_buf q0) = 2 /\
  q_delivered (aseq_step q0 OStop) = [(0,0); (0,1); (0,2)] /\ q_buf (aseq_step q0 OStop) = [] /\ q_stopped (aseq_step q0 OStop) = true.
Proof. vm_compute. repeat split; reflexivity. Qed.
