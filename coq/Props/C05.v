(* C05 — Stop/Destroy terminates and flushes everything accepted before it. Statements only
   (the queue part; logger kinds, Destroy order and descriptors are exercised by the harness). *)
From LogV Require Import Base.Bytes Model.Async Proofs.AsyncProofs Model.RollingConc Proofs.RollingConcProofs Proofs.RollingSerialProofs.
Open Scope nat_scope.

(* Stop called with no log call in progress, at any buffer occupancy, worker idle or holding an item:
   EVERY execution that reaches "Stop returned" has handed to the appenders exactly what was delivered,
   held or buffered at the call, in order; the buffer is empty and the worker holds nothing *)
Theorem c05_stop_flushes : forall s0 s, stage_inv s0 -> c_stop s0 <> SNo -> reach_from s0 s -> c_stop s = SDone ->
  c_delivered s = pending s0 /\ c_buf s = [] /\ c_held s = None.
Proof. exact stop_flushes. Qed.
Print Assumptions c05_stop_flushes.

(* bounded time on every schedule (each appender call returns): a measure that every step decreases,
   bounded by 2*cap+5 when Stop is called, and ... *)
Theorem c05_stop_measure : forall s s', astep s s' -> quiet_inv s -> c_stop s <> SNo -> mu s' < mu s.
Proof. exact stop_step_decreases. Qed.
Print Assumptions c05_stop_measure.
Theorem c05_stop_bound : forall s, c_stop s = SSend -> length (c_buf s) <= c_cap s -> mu s <= 2 * c_cap s + 5.
Proof. exact stop_bound. Qed.
Print Assumptions c05_stop_bound.

(* ... no deadlock: until Stop has returned some step is enabled *)
Theorem c05_stop_progress : forall s, stage_inv s -> 0 < c_cap s -> c_stop s = SSend \/ c_stop s = SWait -> exists s', astep s s'.
Proof. exact stop_progress. Qed.
Print Assumptions c05_stop_progress.

(* the invariants hold in every reachable state, so the premises above are met whenever Stop is called *)
Theorem c05_reachable_states_ok : forall cap pol s, reach (c_init cap pol) s -> stage_inv s.
Proof. intros cap pol s H. destruct (reach_all cap pol s H) as [_ [_ [_ Hs]]]. exact Hs. Qed.
Print Assumptions c05_reachable_states_ok.

(* ---------------- "a running rolling file appender does not accumulate descriptors" on the interleaving model of
   Write/rotate (any number of goroutines, any schedule, createFile failing anywhere), for executions whose rotations do not
   overlap each other (sreach: a CAS is won only while no rotation is in flight) ---------------- *)

(* at every moment every open descriptor is the current file, the retired one, or the one the rotation in flight has created *)
Theorem c05_conc_descriptors_accounted : forall t0 s f, sreach (c_start t0) s -> c_fopen s f = true ->
  f = c_file s \/ c_old s = Some f \/ exists t, fresh_of (c_thr s t) = Some f.
Proof. exact serial_open_accounted. Qed.
Print Assumptions c05_conc_descriptors_accounted.

(* at most two whenever no call is inside rotate() *)
Theorem c05_conc_two_descriptors_when_quiet : forall t0 s f, sreach (c_start t0) s -> (forall t, rot_of (c_thr s t) = None) ->
  c_fopen s f = true -> f = c_file s \/ c_old s = Some f.
Proof. exact serial_two_descriptors_when_quiet. Qed.
Print Assumptions c05_conc_two_descriptors_when_quiet.

(* the restriction to serial rotations is necessary: two overlapping rotations orphan a descriptor (open for good, neither current
   nor retired, every goroutine back outside Write) - the named timing hypothesis of C13/C19 (a goroutine suspended between two
   adjacent atomic operations of rotate() for a whole interval) *)
Theorem c05_conc_overlap_can_leak :
  exists s, creach (c_start 0) s /\ c_thr s 0 = RIdle /\ c_thr s 1 = RIdle /\ c_file s = 1 /\ c_old s = Some 0 /\ c_fopen s 2 = true /\ c_lost s = [].
Proof. exact descriptor_can_leak. Qed.
Print Assumptions c05_conc_overlap_can_leak.

Example c05_conc_ex :
  exists s, sreach (c_start 0) s /\ c_file s = 1 /\ c_old s = Some 0 /\ (forall t, rot_of (c_thr s t) = None) /\ c_fopen s 0 = true /\ c_fopen s 1 = true.
Proof. exact serial_execution_exists. Qed.

Example c05_ex :
  (* capacity 2, full buffer, worker holding an item: Stop delivers all three in order *)
  let q0 := fold_left aseq_step [OSubmit (0,0); OReceive; OSubmit (0,1); OSubmit (0,2)] (q_init 2 PBlock) in
  q_held q0 = Some (0,0) /\ length (q_buf q0) = 2 /\
  q_delivered (aseq_step q0 OStop) = [(0,0); (0,1); (0,2)] /\ q_buf (aseq_step q0 OStop) = [] /\ q_stopped (aseq_step q0 OStop) = true.
Proof. vm_compute. repeat split; reflexivity. Qed.
