(* C08 — Text layout: one line, fixed header, key=value tokens identical to JSON tokens. Statements only. *)
From LogV Require Import Base.Bytes Base.Dec Base.Utf8 Base.JsonStr Base.Json Model.Escape Model.Field Model.Encoder Model.Layout
  Proofs.DecProofs Proofs.JsonProofs Proofs.EncoderProofs Proofs.LayoutProofs Proofs.TextProofs Props.C07.
Open Scope N_scope.

(* '[LEVEL][time][file:line] tag||' [escaped ctx||] then the key=value tokens of the context fields followed by
   the call's fields, joined by '||' (map-sourced entries expanded in place), then the line feed.
   Holds for every event, no hypothesis. *)
Theorem c08_text_layout_spec : forall w e,
  text_layout w e = text_header w e ++ joinb sep2 (flat_map text_chunks (ev_ctx_fields e ++ ev_fields e)) ++ [10].
Proof. exact text_layout_spec. Qed.
Print Assumptions c08_text_layout_spec.

(* each value carries the same text as the JSON layout's token: strings, error texts and non-finite
   floats without the quotes, everything else (numbers, nested arrays/objects, reflected values) identical *)
Theorem c08_same_token_as_json : forall v, wf_value v = true -> tv v = unquoted (to_json v).
Proof. exact tv_same_token. Qed.
Print Assumptions c08_same_token_as_json.

Theorem c08_same_token_map_entries : forall g, gval_b g = true ->
  entry_text (any_value g) = unquoted (to_json_flat (any_value g)).
Proof. exact entry_same_token. Qed.
Print Assumptions c08_same_token_map_entries.

(* no field key or value can introduce a byte below 0x20 (hence no line break) *)
Theorem c08_no_break : forall kx c, wf_field kx = true ->
  forallb (fun kv : bytes * json => json_clean (snd kv)) (field_members kx) = true ->
  In c (text_chunks kx) -> forallb ge32 c = true.
Proof. exact text_chunk_clean. Qed.
Print Assumptions c08_no_break.

(* EXACTLY ONE LINE. Level name, file name and tag free of control bytes (they come from the level registry, the Go runtime and
   the validated tag language); context string, field keys and field values ARBITRARY byte strings: the output is a body
   without any byte below 0x20 followed by one line feed *)
Theorem c08_exactly_one_line : forall w e,
  forallb ge32 (ev_level e) = true -> forallb ge32 (ev_file e) = true -> forallb ge32 (ev_tag e) = true ->
  wf_event e = true ->
  (forall kx, In kx (ev_ctx_fields e ++ ev_fields e) -> forallb (fun kv : bytes * json => json_clean (snd kv)) (field_members kx) = true) ->
  exists body, text_layout w e = body ++ [10] /\ forallb ge32 body = true.
Proof. exact text_layout_one_line. Qed.
Print Assumptions c08_exactly_one_line.

(* file:line : in full when it fits, otherwise "..." plus its last max(W-3,0) bytes; total for every W *)
Theorem c08_file_line : forall (w : Z) file line,
  let fl := file ++ [58] ++ fmt_int line in
  get_file_line w file line =
    if (w <? Z.of_nat (length fl))%Z then [46; 46; 46] ++ lastn (Z.to_nat (Z.max (w - 3) 0)) fl else fl.
Proof. reflexivity. Qed.
Print Assumptions c08_file_line.

Theorem c08_file_line_length : forall (w : Z) file line,
  (Z.of_nat (length (get_file_line w file line)) <= Z.max w 3)%Z \/
  get_file_line w file line = file ++ [58] ++ fmt_int line.
Proof.
  intros w file line. unfold get_file_line. set (fl := file ++ [58] ++ fmt_int line).
  destruct (w <? Z.of_nat (length fl))%Z eqn:E; [left|right; reflexivity].
  apply Z.ltb_lt in E. rewrite app_length. unfold lastn. rewrite skipn_length. simpl length. lia.
Qed.
Print Assumptions c08_file_line_length.

Example c08_ex :
  text_layout 48 c07_example =
    text_header 48 c07_example ++ joinb sep2 (flat_map text_chunks (ev_ctx_fields c07_example ++ ev_fields c07_example)) ++ [10] /\
  get_file_line 2 [97;98;99;100] 12 = [46;46;46] /\ get_file_line 5 [97;98;99;100] 12 = [46;46;46;49;50] /\
  get_file_line (-5) [97] 1 = [46;46;46] /\ get_file_line 7 [97;98;99;100] 12 = [97;98;99;100;58;49;50].
Proof. vm_compute. repeat split; reflexivity. Qed.
