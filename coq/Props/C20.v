(* C20 — Synchronous file logging is write-through: returned calls survive a crash. Statements only.
   The property IS the absence of a user-space buffer; the theorems are near-immediate on the two-level
   sink model, and the weight is the correspondence (SIGKILL / os.Exit at generated crash points). *)
From LogV Require Import Base.Bytes Model.Sink Proofs.SinkProofs.
Open Scope nat_scope.

Theorem c20_no_user_buffer : forall ops, sinv (fold_left sstep ops sink_init).
Proof. exact write_through. Qed.
Print Assumptions c20_no_user_buffer.

Theorem c20_write_through : forall ops l,
  In l (acked (fold_left sstep ops sink_init)) -> In l (crash (fold_left sstep ops sink_init)).
Proof. exact acked_survive_crash. Qed.
Print Assumptions c20_write_through.

Example c20_ex : crash (fold_left sstep [SWriteBegin 1; SWriteBegin 2; SReturn 2; SReturn 1; SReturn 3] sink_init) = [1; 2]%N /\
                 acked (fold_left sstep [SWriteBegin 1; SWriteBegin 2; SReturn 2; SReturn 1; SReturn 3] sink_init) = [2; 1]%N.
Proof. vm_compute. split; reflexivity. Qed.
