(* C20 — Synchronous file logging is write-through: returned calls survive a crash. Statements only.
   The property IS the absence of a user-space buffer; the theorems are near-immediate on the two-level
   sink model, and the weight is the correspondence (SIGKILL / os.Exit at generated crash points). *)
From LogV Require Import Base.Bytes Model.Sink Proofs.SinkProofs Model.RollingConc Proofs.RollingConcProofs.
Open Scope nat_scope.

Theorem c20_no_user_buffer : forall ops, sinv (fold_left sstep ops sink_init).
Proof. exact write_through. Qed.
Print Assumptions c20_no_user_buffer.

Theorem c20_write_through : forall ops l,
  In l (acked (fold_left sstep ops sink_init)) -> In l (crash (fold_left sstep ops sink_init)).
Proof. exact acked_survive_crash. Qed.
Print Assumptions c20_write_through.

(* the rolling file appender, on the interleaving model of Write/rotate (any number of goroutines, rotations and failed file
   creations at any moment): a call that has returned without hitting a closed descriptor (which needs two overlapping
   rotations, C13/C19) has its line in a file's kernel-side data, and every later state - in particular the one the process
   is killed in - still has it there *)
Theorem c20_rolling_returned_write_is_in_a_file : forall t0 s t n, creach (c_start t0) s ->
  n < c_seq s t -> ~ In (t, n) (c_lost s) -> exists f, f < c_nfiles s /\ In (t, n) (map fst (c_fdata s f)).
Proof. exact returned_write_is_in_a_file. Qed.
Print Assumptions c20_rolling_returned_write_is_in_a_file.

Theorem c20_rolling_returned_write_stays : forall s s' f p, creach s s' -> In p (map fst (c_fdata s f)) -> In p (map fst (c_fdata s' f)).
Proof. exact returned_write_stays. Qed.
Print Assumptions c20_rolling_returned_write_stays.

Example c20_ex : crash (fold_left sstep [SWriteBegin 1; SWriteBegin 2; SReturn 2; SReturn 1; SReturn 3] sink_init) = [1; 2]%N /\
                 acked (fold_left sstep [SWriteBegin 1; SWriteBegin 2; SReturn 2; SReturn 1; SReturn 3] sink_init) = [2; 1]%N.
Proof. vm_compute. split; reflexivity. Qed.
