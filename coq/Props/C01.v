(* C01 — An event reaches an appender iff its level is enabled on the whole path. Statements only. *)
From LogV Require Import Base.Bytes Model.Level Model.Deliver Proofs.DeliverProofs Proofs.LevelProofs.
From Coq Require Import Permutation.
Open Scope Z_scope.

(* Logger / AsyncLogger built by Refresh, with or without a logger-level layout, any number of
   references in any order, every level code in Z: reference r's appender receives the event exactly
   once iff the logger's range and r's EFFECTIVE range contain the level, never in the other form
   (event vs. formatted bytes), and ... *)
Theorem c01_deliver_iff : forall refs lr has_layout l r,
  NoDup (map ar_id refs) -> In r refs ->
  count_occ dec (deliver_refs refs lr has_layout l) (ar_id r, has_layout) =
    b2n (enable lr l && enable (eff_range refs r) l) /\
  count_occ dec (deliver_refs refs lr has_layout l) (ar_id r, negb has_layout) = 0%nat.
Proof. exact deliver_refs_spec. Qed.
Print Assumptions c01_deliver_iff.

(* ... no other appender receives anything *)
Theorem c01_no_other_appender : forall refs lr has_layout l id tag,
  In (id, tag) (deliver_refs refs lr has_layout l) -> exists r, In r refs /\ ar_id r = id.
Proof. exact deliver_refs_only_refs. Qed.
Print Assumptions c01_no_other_appender.

(* the sorting-and-chaining algorithm computes exactly the declarative effective ranges *)
Theorem c01_sort_by_level_spec : forall refs,
  Permutation (map (fun r => set_max r (eff_max refs r)) refs) (sort_by_level refs).
Proof. exact sort_by_level_spec. Qed.
Print Assumptions c01_sort_by_level_spec.

Theorem c01_declaration_order_irrelevant : forall refs refs' lr has_layout l x,
  Permutation refs refs' ->
  count_occ dec (deliver_refs refs lr has_layout l) x = count_occ dec (deliver_refs refs' lr has_layout l) x.
Proof. exact deliver_refs_order_irrelevant. Qed.
Print Assumptions c01_declaration_order_irrelevant.

Theorem c01_rolling : forall lr separate has_layout l,
  deliver_rolling lr separate has_layout l =
    if enable lr l
    then (if separate
          then (if l <? lvl_warn then [(0%N, has_layout)] else [(1%N, has_layout)])
          else (if l <? lvl_max then [(0%N, has_layout)] else []))
    else [].
Proof. exact deliver_rolling_spec. Qed.
Print Assumptions c01_rolling.

(* every entry point emits at exactly its own level, and only if the serving logger enables it *)
Theorem c01_entry_points : forall e lr deliver,
  log_via e lr deliver = if enable lr (entry_level e) then deliver (entry_level e) else [].
Proof. exact log_via_spec. Qed.
Print Assumptions c01_entry_points.

(* range strings *)
Theorem c01_parse_case_insensitive : forall reg s, parse_range reg (map to_upper s) = parse_range reg s.
Proof. exact parse_range_case_insensitive. Qed.
Print Assumptions c01_parse_case_insensitive.

Theorem c01_parse_empty : forall reg s, trim_space s = [] -> parse_range reg s = Some (lvl_none, lvl_max).
Proof. exact parse_range_empty. Qed.
Print Assumptions c01_parse_empty.

Theorem c01_parse_single : forall reg s, trim_space s <> [] -> ~ In tilde (trim_space s) ->
  parse_range reg s = match lookup_level reg (map to_upper (trim_space s)) with Some mn => Some (mn, lvl_max) | None => None end.
Proof. exact parse_range_single. Qed.
Print Assumptions c01_parse_single.

Theorem c01_parse_pair : forall reg s a b, trim_space s = a ++ tilde :: b -> ~ In tilde a -> ~ In tilde b ->
  parse_range reg s = match lookup_level reg (map to_upper a), lookup_level reg (map to_upper b) with
                      | Some mn, Some mx => Some (mn, mx) | _, _ => None end.
Proof. exact parse_range_pair. Qed.
Print Assumptions c01_parse_pair.

(* "A~B~C...": the code takes the two-part branch only for exactly two parts, so anything after a
   second "~" is ignored, B included - the range is [A, MAX) *)
Theorem c01_parse_many : forall reg s a b c, trim_space s = a ++ tilde :: b ++ tilde :: c -> ~ In tilde a -> ~ In tilde b ->
  parse_range reg s = match lookup_level reg (map to_upper a) with Some mn => Some (mn, lvl_max) | None => None end.
Proof. exact parse_range_many. Qed.
Print Assumptions c01_parse_many.

(* non-vacuity: "info~warn~error" on the generated level table is [INFO, MAX), and so is "info~bogus~" *)
Example c01_parse_many_ex :
  parse_range builtin_levels [105;110;102;111;126;119;97;114;110;126;101;114;114;111;114]%N = Some (lvl_info, lvl_max) /\
  parse_range builtin_levels [105;110;102;111;126;98;111;103;117;115;126]%N = Some (lvl_info, lvl_max).
Proof. split; vm_compute; reflexivity. Qed.

(* ... and these four cases are all there is: every trimmed range string falls under c01_parse_empty,
   c01_parse_single, c01_parse_pair or c01_parse_many *)
Theorem c01_parse_cases_exhaustive : forall t : bytes,
  t = [] \/ (t <> [] /\ ~ In tilde t) \/
  (exists a b, t = a ++ tilde :: b /\ ~ In tilde a /\ ~ In tilde b) \/
  (exists a b c, t = a ++ tilde :: b ++ tilde :: c /\ ~ In tilde a /\ ~ In tilde b).
Proof. exact range_string_cases. Qed.
Print Assumptions c01_parse_cases_exhaustive.

(* the level table regenerated from the source on this run is well formed *)
Theorem c01_generated_table_wf : table_wf_b = true.
Proof. exact table_wf. Qed.
Print Assumptions c01_generated_table_wf.

(* non-vacuity: INFO, INFO, ERROR plus a custom level between WARN and ERROR *)
Example c01_ex :
  let refs := [ {| ar_id := 1; ar_min := 300; ar_max := lvl_max |}; {| ar_id := 2; ar_min := 300; ar_max := lvl_max |};
                {| ar_id := 3; ar_min := 500; ar_max := lvl_max |}; {| ar_id := 4; ar_min := 450; ar_max := 600 |} ] in
  NoDup (map ar_id refs) /\
  map (fun r => (ar_id r, eff_range refs r)) refs = [(1%N, (300, 450)); (2%N, (300, 450)); (3%N, (500, lvl_max)); (4%N, (450, 600))] /\
  deliver_refs refs (0, lvl_max) false 300 = [(2%N, false); (1%N, false)] /\
  deliver_refs refs (0, lvl_max) true 500 = [(4%N, true); (3%N, true)].
Proof. split; [repeat constructor; simpl; intuition congruence|]. vm_compute. repeat split; reflexivity. Qed.
