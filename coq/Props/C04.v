(* C04 — Async logger: delivered + discarded = submitted, nothing twice. Statements only.
   The system (Proofs/AsyncProofs.v): any number of producers, the worker and Stop as an interleaving
   transition system with one rule per atomic channel operation; `reach` = every schedule. *)
From LogV Require Import Base.Bytes Model.Async Proofs.AsyncProofs.
Open Scope nat_scope.

(* every reachable state, every policy, every capacity: each enabled submission is in exactly one place -
   delivered, in the buffer, held by the worker, in the hands of its producer, or counted as discarded *)
Theorem c04_conservation_inv : forall cap pol s, reach (c_init cap pol) s ->
  forall x, cnt x (c_started s) =
            cnt x (c_delivered s) + cntb x (c_buf s) + cnt_held x (c_held s) + cnt_pc x s + cnt x (c_dropped s).
Proof. intros cap pol s H. exact (proj1 (reach_conserved cap pol s H)). Qed.
Print Assumptions c04_conservation_inv.

(* once Stop has returned: delivered + discarded = submitted, nothing delivered twice, nothing both
   delivered and counted, nothing delivered that was not submitted *)
Theorem c04_final : forall cap pol s, reach (c_init cap pol) s -> c_stop s = SDone ->
  (forall x, cnt x (c_started s) = cnt x (c_delivered s) + cnt x (c_dropped s)) /\
  NoDup (c_delivered s) /\ NoDup (c_dropped s) /\
  (forall x, In x (c_delivered s) -> In x (c_started s) /\ ~ In x (c_dropped s)) /\
  (forall x, In x (c_started s) -> In x (c_delivered s) \/ In x (c_dropped s)) /\
  length (c_delivered s) + length (c_dropped s) = length (c_started s).
Proof. exact final_accounting. Qed.
Print Assumptions c04_final.

(* Block: the counter stays 0 (so, with c04_final, everything is delivered) *)
Theorem c04_block : forall cap s, reach (c_init cap PBlock) s -> c_dropped s = [] /\ c_pol s = PBlock.
Proof. exact block_never_discards. Qed.
Print Assumptions c04_block.

(* events below the logger's level never enter the system: a_start is the only rule that adds to
   c_started, and the model applies it to enabled submissions only (Model/Deliver.v gates by level) *)
Theorem c04_submissions_distinct : forall cap pol s, reach (c_init cap pol) s -> NoDup (c_started s).
Proof. intros cap pol s H. destruct (reach_all cap pol s H) as [_ [_ [[Hn _] _]]]. exact Hn. Qed.
Print Assumptions c04_submissions_distinct.

(* non-vacuity: a concrete 2-producer schedule under DiscardOldest with capacity 1 reaches SDone *)
Example c04_ex_sequential :
  let q := fold_left aseq_step [OSubmit (0,0); OSubmit (1,0); OSubmit (0,1); OReceive; ODeliver; OSubmit (1,1); OStop] (q_init 1 PDiscardOldest) in
  q_delivered q = [(0,1); (1,1)] /\ q_discard q = 2 /\ q_buf q = [] /\ q_stopped q = true.
Proof. vm_compute. repeat split; reflexivity. Qed.
