(* C07 — JSON layout: one valid JSON object per event that decodes to the logged data. Statements only.
   Hypothesis wf_event is executable (extracted, checked on every generated case at run time): every finite
   float token is a valid JSON number token, every non-finite one is NaN/+Inf/-Inf, every json.Marshal text
   passes check_raw (parses as one JSON value), no FieldsFromMap in array-element position. *)
From LogV Require Import Base.Bytes Base.Dec Base.Utf8 Base.JsonStr Base.Json Model.Escape Model.Field Model.Encoder Model.Layout
  Proofs.DecProofs Proofs.JsonProofs Proofs.EncoderProofs Proofs.LayoutProofs Proofs.TextProofs.
From Coq Require Import Sorting.Sorted Permutation.
Open Scope N_scope.

(* the separator state machine puts a comma exactly between siblings: the line is the compact
   rendering of ONE object whose members are level, time, fileLine, tag, [ctxString], the context
   fields, then the call's fields in order (map-sourced entries expanded in place) *)
Theorem c07_encoder_is_printer : forall w e, wf_event e = true ->
  json_layout w e = print_json (JObj (event_members w e)) ++ [10].
Proof. exact json_layout_is_printer. Qed.
Print Assumptions c07_encoder_is_printer.

(* every well-formed JSON AST printed compactly parses back (RFC 8259 parser) to its decoded form,
   in any delimited context *)
Theorem c07_parse_print : forall j, wf_json j -> tok_ok (print_json j) (decode_json j).
Proof. exact print_parse. Qed.
Print Assumptions c07_parse_print.

(* hence: the emitted line is a single RFC 8259 object that decodes to the logged data: strings with
   invalid bytes replaced by U+FFFD (decode_json sanitises), numbers as their exact tokens, reflected
   values as the meaning of their json.Marshal text, non-finite floats / marshal errors as strings *)
Theorem c07_decodes : forall w e, wf_event e = true ->
  parse_json (json_layout w e) = Some (decode_json (JObj (event_members w e))).
Proof. exact json_layout_decodes. Qed.
Print Assumptions c07_decodes.

(* the run-time check on a json.Marshal text establishes the hypothesis the theorems need *)
Theorem c07_raw_check_sound : forall tok j, check_raw tok = Some j -> tok_ok tok j.
Proof. exact check_raw_tok_ok. Qed.
Print Assumptions c07_raw_check_sound.

(* integers are exact over the full int64 / uint64 range *)
Theorem c07_int_roundtrip : forall z, parse_int (fmt_int z) = z.
Proof. exact parse_fmt_int. Qed.
Print Assumptions c07_int_roundtrip.
Theorem c07_uint_roundtrip : forall n, parse_digits (fmt_uint n) = n.
Proof. exact parse_fmt_uint. Qed.
Print Assumptions c07_uint_roundtrip.
Theorem c07_int64_payload : forall z, (- two63 <= z < two63)%Z -> int_of_num (num_of_int z) = z.
Proof. exact int_of_num_of_int. Qed.
Print Assumptions c07_int64_payload.

(* map-sourced fields: a permutation of the map's entries in ascending key order *)
Theorem c07_map_sorted : forall m, Permutation m (sort_entries m) /\ StronglySorted key_le (sort_entries m).
Proof. intro m. split; [apply sort_entries_perm|apply sort_entries_sorted]. Qed.
Print Assumptions c07_map_sorted.

(* Any(k, v) is the typed constructor for v's dynamic type *)
Theorem c07_any_dispatch : forall k w z n b s f,
  f_any k (GInt w z) = f_int k z /\ f_any k (GUint w n) = f_uint k n /\ f_any k (GBool b) = f_bool k b /\
  f_any k (GString s) = f_string k s /\ f_any k (GFloat w f) = f_float k f /\ f_any k GNil = f_nil k /\
  f_any k (GIntPtr w None) = f_nil k /\ f_any k (GIntPtr w (Some z)) = f_int k z /\
  f_any k (GStringPtr (Some s)) = f_string k s /\ f_any k (GStringPtr None) = f_nil k.
Proof. intros. repeat split; reflexivity. Qed.
Print Assumptions c07_any_dispatch.

(* exactly one line: no byte below 0x20 precedes the final line feed *)
Theorem c07_single_line : forall w e, json_clean (JObj (event_members w e)) = true ->
  forallb ge32 (print_json (JObj (event_members w e))) = true.
Proof. exact json_line_clean. Qed.
Print Assumptions c07_single_line.

(* non-vacuity: an event with strings containing invalid bytes, int64/uint64 extremes, NaN, a nil pointer,
   a nested object directly after a scalar, an empty array, a map and a reflected value *)
Definition c07_example : event :=
  {| ev_level := [73;78;70;79]; ev_time := {| t_year := 2025; t_month := 6; t_day := 1; t_hour := 0; t_min := 0; t_sec := 0; t_ms := 7 |};
     ev_file := [102;46;103;111]; ev_line := 42; ev_tag := [95;97;98]; ev_ctx_string := [116;114];
     ev_ctx_fields := [f_string [107] [255; 34; 10]];
     ev_fields := [ f_int [105] (-9223372036854775808); f_uint [117] 18446744073709551615;
                    f_float [102] (FNonFinite [78;97;78]); f_any [112] (GIntPtr 0 None);
                    f_object [111] [f_bool [98] true; f_object [110] []; f_array [97] []];
                    f_from_map [([122], GString [49]); ([97], GInts 8 [1; -2]%Z)];
                    f_reflect [114] (RJson [123;34;120;34;58;91;49;44;110;117;108;108;93;125]) ] |}.
Example c07_ex : wf_event c07_example = true /\
  parse_json (json_layout 48 c07_example) = Some (decode_json (JObj (event_members 48 c07_example))) /\
  json_clean (JObj (event_members 48 c07_example)) = true.
Proof. vm_compute. repeat split; reflexivity. Qed.
