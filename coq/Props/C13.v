(* C13 — Rolling file appender loses nothing across rotations and never truncates. Statements only.
   Two models. (1) The sequential projection (one call at a time; any clock advances, idle intervals, stop/start cycles,
   pre-existing files, create faults): Model/Rolling.v, compared with the real appender on every run. (2) The interleaving
   model (Model/RollingConc.v): any number of goroutines inside Write/rotate, every atomic load/store/CAS/swap its own
   step, the clock advancing at any moment; file creation may fail at any rotation (C19). The two agree on sequential executions
   (c13_conc_solo_*, c13_conc_sequential_runs_agree). *)
From LogV Require Import Base.Bytes Model.Rolling Proofs.RollingProofs Model.RollingConc Proofs.RollingConcProofs.
From Coq Require Import Permutation.
Open Scope Z_scope.

(* every history from any well-formed state: the payloads in the directory plus those written while no
   file was held are exactly (as a multiset) what was there plus what was written - nothing lost, nothing
   twice, nothing in two files - and every file only ever grows by appends (never truncated or replaced) *)
Theorem c13_seq_exactly_once_and_never_truncates : forall ops s, finv s ->
  Permutation (all_payloads (r_fs (frun s ops)) ++ r_lost (frun s ops)) (all_payloads (r_fs s) ++ r_lost s ++ writes ops) /\
  grows (r_fs s) (r_fs (frun s ops)).
Proof. exact frun_accounting. Qed.
Print Assumptions c13_seq_exactly_once_and_never_truncates.

(* while the appender holds a file (started, not stopped) a write is never lost *)
Theorem c13_write_lands : forall s p, finv s -> r_file (rotate s) <> None -> r_lost (fstep s (FWrite p)) = r_lost s.
Proof. exact write_lands. Qed.
Print Assumptions c13_write_lands.

(* a write issued after an interval boundary goes to a file created in the new interval *)
Theorem c13_seq_new_interval : forall s, 0 < r_iv s -> r_curr s < interval_of (r_iv s) (r_now s) -> r_create_ok s = true ->
  r_file (rotate s) = Some (r_now s) /\ interval_of (r_iv s) (r_now s) <= r_now s /\ r_curr (rotate s) = interval_of (r_iv s) (r_now s).
Proof. exact write_after_boundary. Qed.
Print Assumptions c13_seq_new_interval.

(* a file never receives a write issued before the time in its name *)
Theorem c13_not_before_name : forall s n, finv s -> r_file (rotate s) = Some n -> n <= r_now s.
Proof. exact write_target_not_in_future. Qed.
Print Assumptions c13_not_before_name.

Theorem c13_invariant_reachable : forall ops s, finv s -> finv (frun s ops).
Proof. exact frun_inv. Qed.
Print Assumptions c13_invariant_reachable.

(* non-vacuity: a pre-existing file with the current second in its name is appended to, two rotations, a stop/start cycle *)
Example c13_ex :
  let s0 := f_init 100 2 [{| f_name := 100; f_content := [77%N] |}] in
  finv s0 /\
  r_fs (frun s0 [FStart; FWrite 1; FTick 1; FWrite 2; FTick 1; FWrite 3; FStop; FStart; FWrite 4; FTick 5; FWrite 5]) =
    [ {| f_name := 100; f_content := [77; 1; 2]%N |}; {| f_name := 102; f_content := [3; 4]%N |}; {| f_name := 107; f_content := [5]%N |} ].
Proof. split; [apply init_inv; [repeat constructor; cbn; tauto|lia]|vm_compute; reflexivity]. Qed.

(* ---------------- all interleavings (Model/RollingConc.v) ---------------- *)
Open Scope nat_scope.

(* exactly once: in every reachable state every completed Write call (t, n) is, once, in exactly one descriptor's data or
   in the list of writes that hit a closed descriptor; calls not yet completed are nowhere *)
Theorem c13_conc_every_write_exactly_once : forall t0 s t n, creach (c_start t0) s ->
  data_count (c_fdata s) (t, n) (c_nfiles s) + cnt (c_lost s) (t, n) = if n <? c_seq s t then 1 else 0.
Proof. exact every_write_exactly_once. Qed.
Print Assumptions c13_conc_every_write_exactly_once.

(* lands: a write can only hit a closed descriptor if TWO different rotations overlapped the window between loading the
   descriptor and writing through it (the deferred close); with at most one, it lands. ("overlaps" = started by the time of
   the write and not successfully complete at the load; a rotation whose createFile failed never completes: see C19) *)
Theorem c13_conc_closed_needs_two_rotations : forall t0 s t f d0,
  creach (c_start t0) s -> c_thr s t = RHolding f d0 -> c_fopen s f = false ->
  exists j k, j <> k /\ overlaps s d0 j /\ overlaps s d0 k.
Proof. exact closed_under_writer_needs_two_rotations. Qed.
Print Assumptions c13_conc_closed_needs_two_rotations.

Theorem c13_conc_write_lands : forall t0 s t f d0,
  creach (c_start t0) s -> c_thr s t = RHolding f d0 ->
  (forall j k, overlaps s d0 j -> overlaps s d0 k -> j = k) -> c_fopen s f = true.
Proof. exact write_lands_unless_two_rotations. Qed.
Print Assumptions c13_conc_write_lands.

(* the hypothesis is necessary: the property as stated (whatever the interleaving) is false of the algorithm; a concrete
   schedule of three goroutines crossing two boundaries loses a write. It needs a goroutine suspended between two atomic
   operations for a whole rotation interval (>= 1 s in the property's quantifier, >= 10 min with the registered rotations):
   recorded as the named timing hypothesis of C13, see DESIGN.md *)
Theorem c13_conc_unconditional_refuted : exists s, creach (c_start 0) s /\ c_lost s = [(2, 0)].
Proof. exact write_can_be_lost. Qed.
Print Assumptions c13_conc_unconditional_refuted.

(* whatever the interleaving: a file never contains a write made before the time in its name, and is never truncated *)
Theorem c13_conc_never_before_name : forall t0 s f p tw,
  creach (c_start t0) s -> f < c_nfiles s -> In (p, tw) (c_fdata s f) -> (c_fname s f <= tw)%Z.
Proof. exact never_before_name. Qed.
Print Assumptions c13_conc_never_before_name.

Theorem c13_conc_never_truncated : forall s0 s f, creach s0 s -> exists l, c_fdata s f = c_fdata s0 f ++ l.
Proof. exact never_truncated. Qed.
Print Assumptions c13_conc_never_truncated.

Theorem c13_conc_invariant : forall s s', cstep s s' -> cinv s -> cinv s'.
Proof. exact cstep_cinv. Qed.
Print Assumptions c13_conc_invariant.

(* sequential executions of the interleaving model are the sequential model's rotate-then-write *)
Theorem c13_conc_solo_rotates : forall s t, c_thr s t = RIdle -> (c_curr s < c_clk s)%Z ->
  exists s', run s (steps t 11) = Some s' /\
    c_file s' = c_nfiles s /\ c_fname s' (c_nfiles s) = c_clk s /\ c_old s' = Some (c_file s) /\ c_curr s' = c_clk s /\
    c_nfiles s' = S (c_nfiles s) /\ c_thr s' t = RIdle /\ c_seq s' t = S (c_seq s t) /\ c_clk s' = c_clk s /\
    c_fdata s' (c_nfiles s) = c_fdata s (c_nfiles s) ++ [((t, c_seq s t), c_clk s)] /\ c_lost s' = c_lost s /\
    (forall o, c_old s = Some o -> o <> c_nfiles s -> c_fopen s' o = false) /\
    (forall g, c_old s <> Some g -> g <> c_nfiles s -> c_fopen s' g = c_fopen s g).
Proof. exact solo_write_rotates. Qed.
Print Assumptions c13_conc_solo_rotates.

Theorem c13_conc_solo_plain : forall s t, c_thr s t = RIdle -> (c_clk s <= c_curr s)%Z -> c_fopen s (c_file s) = true ->
  exists s', run s (steps t 4) = Some s' /\
    c_file s' = c_file s /\ c_old s' = c_old s /\ c_curr s' = c_curr s /\ c_nfiles s' = c_nfiles s /\ c_fopen s' = c_fopen s /\
    c_thr s' t = RIdle /\ c_seq s' t = S (c_seq s t) /\ c_lost s' = c_lost s /\
    c_fdata s' (c_file s) = c_fdata s (c_file s) ++ [((t, c_seq s t), c_clk s)] /\
    (forall g, g <> c_file s -> c_fdata s' g = c_fdata s g).
Proof. exact solo_write_plain. Qed.
Print Assumptions c13_conc_solo_plain.

Example c13_conc_sequential_runs_agree :
  option_map conc_view (run (c_start 100) (steps 0 4 ++ [ATick 1] ++ steps 0 11 ++ steps 0 4 ++ [ATick 2] ++ steps 0 11 ++ steps 0 4))
  = Some (seq_view (frun (f_init 100 1 []) [FStart; FWrite 0; FTick 1; FWrite 1; FWrite 2; FTick 2; FWrite 3; FWrite 4])).
Proof. exact sequential_runs_agree. Qed.
