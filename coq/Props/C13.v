(* C13 — Rolling file appender loses nothing across rotations and never truncates. Statements only.
   Proved for the sequential projection (one call at a time; any clock advances, idle intervals,
   stop/start cycles, pre-existing files). The concurrent clauses (all interleavings of writers with
   interval boundaries) are decided by the harness against the conclusions below: see DESIGN.md. *)
From LogV Require Import Base.Bytes Model.Rolling Proofs.RollingProofs.
From Coq Require Import Permutation.
Open Scope Z_scope.

(* every history from any well-formed state: the payloads in the directory plus those written while no
   file was held are exactly (as a multiset) what was there plus what was written - nothing lost, nothing
   twice, nothing in two files - and every file only ever grows by appends (never truncated or replaced) *)
Theorem c13_seq_exactly_once_and_never_truncates : forall ops s, finv s ->
  Permutation (all_payloads (r_fs (frun s ops)) ++ r_lost (frun s ops)) (all_payloads (r_fs s) ++ r_lost s ++ writes ops) /\
  grows (r_fs s) (r_fs (frun s ops)).
Proof. exact frun_accounting. Qed.
Print Assumptions c13_seq_exactly_once_and_never_truncates.

(* while the appender holds a file (started, not stopped) a write is never lost *)
Theorem c13_write_lands : forall s p, finv s -> r_file (rotate s) <> None -> r_lost (fstep s (FWrite p)) = r_lost s.
Proof. exact write_lands. Qed.
Print Assumptions c13_write_lands.

(* a write issued after an interval boundary goes to a file created in the new interval *)
Theorem c13_seq_new_interval : forall s, 0 < r_iv s -> r_curr s < interval_of (r_iv s) (r_now s) -> r_create_ok s = true ->
  r_file (rotate s) = Some (r_now s) /\ interval_of (r_iv s) (r_now s) <= r_now s /\ r_curr (rotate s) = interval_of (r_iv s) (r_now s).
Proof. exact write_after_boundary. Qed.
Print Assumptions c13_seq_new_interval.

(* a file never receives a write issued before the time in its name *)
Theorem c13_not_before_name : forall s n, finv s -> r_file (rotate s) = Some n -> n <= r_now s.
Proof. exact write_target_not_in_future. Qed.
Print Assumptions c13_not_before_name.

Theorem c13_invariant_reachable : forall ops s, finv s -> finv (frun s ops).
Proof. exact frun_inv. Qed.
Print Assumptions c13_invariant_reachable.

(* non-vacuity: a pre-existing file with the current second in its name is appended to, two rotations, a stop/start cycle *)
Example c13_ex :
  let s0 := f_init 100 2 [{| f_name := 100; f_content := [77%N] |}] in
  finv s0 /\
  r_fs (frun s0 [FStart; FWrite 1; FTick 1; FWrite 2; FTick 1; FWrite 3; FStop; FStart; FWrite 4; FTick 5; FWrite 5]) =
    [ {| f_name := 100; f_content := [77; 1; 2]%N |}; {| f_name := 102; f_content := [3; 4]%N |}; {| f_name := 107; f_content := [5]%N |} ].
Proof. split; [apply init_inv; [repeat constructor; cbn; tauto|lia]|vm_compute; reflexivity]. Qed.
