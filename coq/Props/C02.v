(* C02 — Each tag is served by the most specific configured logger, else root. Statements only. *)
From LogV Require Import Base.Bytes Model.Level Model.Route Model.Tag Proofs.RouteProofs Proofs.RouteBindProofs.
Open Scope N_scope.

(* registered tags are clean inputs of the routing function *)
Theorem c02_valid_tags_clean : forall t, is_valid_tag t = true -> ~ In star t /\ no_dd t.
Proof. exact valid_tag_clean. Qed.
Print Assumptions c02_valid_tags_clean.

(* findLoggerForTag = literal listing, else the longest listed wildcard prefix, else root (None) *)
Theorem c02_route_function : forall m tag, ~ In star tag -> no_dd tag -> route m tag = spec_route m tag.
Proof. exact route_spec. Qed.
Print Assumptions c02_route_function.

(* the candidate prefixes are exactly the proper underscore-delimited prefixes, longest first *)
Theorem c02_prefixes_exact : forall t P, In P (proper_prefixes t) <-> delim_prefix P t.
Proof. exact pp_in. Qed.
Print Assumptions c02_prefixes_exact.

(* the statement, relationally: literal; else longest proper underscore-delimited prefix P with P_* listed; else root *)
Theorem c02_route : forall m tag, ~ In star tag -> no_dd tag ->
  (forall l, lookup_tag m tag = Some l -> route m tag = Some l) /\
  (lookup_tag m tag = None ->
     forall l, route m tag = Some l <->
       exists P, delim_prefix P tag /\ lookup_tag m (P ++ [Route.us; star]) = Some l /\
                 forall P', delim_prefix P' tag -> (length P < length P')%nat -> lookup_tag m (P' ++ [Route.us; star]) = None) /\
  (lookup_tag m tag = None ->
     (route m tag = None <-> forall P, delim_prefix P tag -> lookup_tag m (P ++ [Route.us; star]) = None)).
Proof. exact route_relational. Qed.
Print Assumptions c02_route.

(* a successful Refresh: every logger is well formed, the tag map is exactly the union of the
   listings (so a literal or wildcard string is served by exactly one logger id), no string is listed twice *)
Theorem c02_bind_ok : forall ls m' root',
  refresh_tags ls [] None = inr (m', root') ->
  (forall lg, In lg ls -> ~ lg_bad lg) /\
  (forall t id, lookup_tag m' t = Some id <-> exists lg, In lg ls /\ listed lg t /\ lg_id lg = id) /\
  (forall lg1 lg2 t, In lg1 ls -> In lg2 ls -> listed lg1 t -> listed lg2 t -> lg_id lg1 = lg_id lg2).
Proof.
  intros ls m' root' H. destruct (refresh_tags_ok ls [] None m' root' H) as [H1 [H2 [_ H4]]].
  split; [exact H1|]. split; [|exact H4]. intros t id. rewrite H2. split.
  - intros [Hx|[_ Hx]]; [exact Hx|discriminate].
  - intro Hx. now left.
Qed.
Print Assumptions c02_bind_ok.

(* Refresh returns an error instead of choosing iff: the root lists tags, a non-root logger lists none,
   a wildcard is not of the form ..._*, or two different loggers list the same tag string.
   The condition is symmetric in the loggers, hence independent of key order / map iteration order. *)
Theorem c02_error_iff : forall ls, (exists e, refresh_tags ls [] None = inl e) <-> spec_error ls [].
Proof. exact refresh_tags_err_iff. Qed.
Print Assumptions c02_error_iff.

Theorem c02_tag_list : forall items,
  match parse_tag_items items with
  | inl e => e = ErrBadWildcard /\ exists it, In it items /\ trim_space it <> [] /\
             mem_byte star (trim_space it) = true /\ has_suffix [Route.us; star] (trim_space it) = false
  | inr ts => ts = filter (fun t => negb (is_nil t)) (map trim_space items) /\
              forall t, In t ts -> mem_byte star t = true -> has_suffix [Route.us; star] t = true
  end.
Proof. exact parse_tag_items_spec. Qed.
Print Assumptions c02_tag_list.

(* non-vacuity: tags _a_b_c and a_b with loggers listing "_a_*", "_a_b_*", "a_b" *)
Example c02_ex :
  let m := [([95;97;95;42], 1); ([95;97;95;98;95;42], 2); ([97;95;98], 3)] in
  route m [95;97;95;98;95;99] = Some 2 /\ route m [95;97;95;120] = Some 1 /\ route m [97;95;98] = Some 3 /\
  route m [97;95;99] = None /\ route m [95;120;95;121] = None /\ proper_prefixes [95;97;95;98;95;99] = [[95;97;95;98]; [95;97]].
Proof. vm_compute. repeat split; reflexivity. Qed.
