(* C15 - Configuration resolves as declared; bad configuration is an error, not a panic. Statements only.
   Model: log_reader.go (toCamelKey, toStorage), the operations of flatten.Storage that Refresh/inject use, plugin.go
   (PluginTag, injectAttribute, injectElement, inject, NewPlugin), the configuration half of Refresh. The plugin
   registry (every registered type with its flattened struct fields, tags and attribute kinds), the rotation table, the
   level table and the property names are regenerated from the running code on every run (Gen/Schema.v, Gen/Params.v).
   A configuration map is a list of key/value pairs; Go's map iteration order is irrelevant as long as no two keys have
   the same normalised form (such maps are ambiguous and outside the property). *)
From LogV Require Import Base.Bytes Base.Schema Model.Expr Model.Config Model.ConfigEnv Gen.Params Gen.Schema Proofs.ConfigProofs Proofs.ConfigEnvProofs.
Open Scope N_scope.

(* --- keys written in camelCase, kebab-case, snake_case (or any mixture, with either initial) are equivalent --- *)
Theorem c15_key_spellings : forall ss, Forall seg_ok ss -> ss <> [] -> to_camel_key (render_key ss) = canon_key ss.
Proof. exact camel_key_spellings. Qed.
Print Assumptions c15_key_spellings.

Theorem c15_spelling_equivalence : forall E hs m1 m2, Forall2 same_cfg m1 m2 -> refresh E hs m1 = refresh E hs m2.
Proof. exact refresh_spelling. Qed.
Print Assumptions c15_spelling_equivalence.

(* --- a sub-tree written inline as `name!` = expression is equivalent to the same sub-tree written as flat keys --- *)
Theorem c15_inline_equivalence : forall E hs ss v m pre post,
  Forall seg_ok ss -> ss <> [] -> ~ In 33 (render_key ss) ->
  parse v = POk m -> Forall (fun kv => sub_key_ok (fst kv)) m ->
  refresh E hs (pre ++ (render_key ss ++ [33], v) :: post) = refresh E hs (pre ++ inline_flat (render_key ss) m ++ post).
Proof. exact inline_equiv_refresh. Qed.
Print Assumptions c15_inline_equivalence.

(* --- a configuration is a Go map: the iteration order toStorage happens to see is irrelevant (for maps without two keys of
       one normalised form): same success/failure, same stored entries, and the observers read a storage as a set --- *)
From Coq Require Import Permutation.
Theorem c15_map_order_irrelevant : forall m1 m2 kvs1 st1, Permutation m1 m2 ->
  expand_all m1 = Some kvs1 -> NoDup (map fst kvs1) -> to_storage m1 = Some st1 ->
  exists st2, to_storage m2 = Some st2 /\ Permutation st1 st2.
Proof. exact to_storage_order_irrelevant. Qed.
Print Assumptions c15_map_order_irrelevant.

Theorem c15_map_order_irrelevant_failure : forall m1 m2 kvs1, Permutation m1 m2 ->
  expand_all m1 = Some kvs1 -> NoDup (map fst kvs1) -> to_storage m1 = None -> to_storage m2 = None.
Proof. exact to_storage_failure_order_irrelevant. Qed.
Print Assumptions c15_map_order_irrelevant_failure.

Theorem c15_storage_is_a_set : forall s1 s2 k, Permutation s1 s2 -> NoDup (map e_key s1) ->
  st_raw s1 k = st_raw s2 k /\ st_has s1 k = st_has s2 k.
Proof. exact storage_is_a_set. Qed.
Print Assumptions c15_storage_is_a_set.

(* the declarative reading of toStorage: success iff every key parses as a path and all paths are pairwise compatible *)
Theorem c15_to_storage_spec : forall kvs st, NoDup (map fst kvs) ->
  (set_all [] kvs = Some st <-> st = entries_of kvs /\ all_split kvs /\ pairwise_compat kvs).
Proof. exact to_storage_spec. Qed.
Print Assumptions c15_to_storage_spec.

(* --- an attribute takes the configured value, else its declared default, else creation fails; ${key} is replaced by the
       top-level property (failing if absent) --- *)
Theorem c15_attribute_law : forall E m st kvs tag k prefix,
  expand_all m = Some kvs -> to_storage m = Some st ->
  tag_first tag <> [] -> tag_first tag <> k_name ->
  inject_attribute E tag k prefix st =
    match last_value kvs (dot_join prefix (to_camel_key (tag_first tag))) with
    | Some v => resolve_value E kvs k v
    | None => match tag_lookup tag k_default with Some d => resolve_value E kvs k d | None => CErr end
    end.
Proof. exact attribute_law. Qed.
Print Assumptions c15_attribute_law.

Theorem c15_reference_missing_is_error : forall E kvs k v,
  is_ref (go_trim_space v) = true -> last_value kvs (ref_key (go_trim_space v)) = None -> resolve_value E kvs k v = CErr.
Proof. exact reference_missing. Qed.
Print Assumptions c15_reference_missing_is_error.

(* --- values that do not convert are errors, and integers that do convert fit the field (nothing is truncated) --- *)
Theorem c15_int_fits : forall E b v z, convert E (KInt b) v = COk (PVInt z) -> (- Z.of_N (2 ^ (b - 1)) <= z < Z.of_N (2 ^ (b - 1)))%Z.
Proof. exact convert_int_fits. Qed.
Print Assumptions c15_int_fits.
Theorem c15_uint_fits : forall E b v z, convert E (KUint b) v = COk (PVInt z) -> (0 <= z < Z.of_N (2 ^ b))%Z.
Proof. exact convert_uint_fits. Qed.
Print Assumptions c15_uint_fits.

(* every attribute of an instantiated plugin was resolved successfully: an ill-typed value cannot be swallowed *)
Theorem c15_attributes_resolved : forall fuel E p prefix st st1 v,
  new_plugin fuel E p prefix st = COk (st1, v) ->
  exists fs, v = PVPlugin (pl_gotype p) fs /\
    forall fname tag k, In (FAttr fname tag k) (pl_schema p) -> exists st0 x, inject_attribute E tag k prefix st0 = COk x /\ In (fname, x) fs.
Proof. exact plugin_attributes_resolved. Qed.
Print Assumptions c15_attributes_resolved.

(* --- unknown plugin types, missing required elements, dangling references make Refresh fail --- *)
Theorem c15_plugins_registered : forall E hs m o, refresh E hs m = COk o ->
  (forall a, In a (o_appenders o) -> exists p st0 st1, In p (env_plugins E) /\ pl_type p = s_appender /\
      new_plugin (plugin_fuel E) E p (dot_join s_appender (fst a)) st0 = COk (st1, snd a)) /\
  (forall l, In l (o_loggers o) -> exists p st0 st1, In p (env_plugins E) /\ pl_type p = s_logger /\
      new_plugin (plugin_fuel E) E p (dot_join s_logger (fst l)) st0 = COk (st1, snd l)).
Proof. exact refresh_plugins_registered. Qed.
Print Assumptions c15_plugins_registered.

Theorem c15_missing_element_is_error : forall E np tag prefix st,
  tag_first tag <> [] ->
  st_has st (dot_join prefix (to_camel_key (trim_suffix [63] (tag_first tag)))) = false ->
  tag_lookup tag k_default = None -> has_suffix [63] (tag_first tag) = false ->
  inject_iface E np tag prefix st = CErr.
Proof. exact iface_missing_is_error. Qed.
Print Assumptions c15_missing_element_is_error.

Theorem c15_missing_slice_element_is_error : forall E np tag prefix st,
  tag_first tag <> [] ->
  st_has st (dot_join prefix (to_camel_key (trim_suffix [63] (tag_first tag)))) = false ->
  st_has st (idx_key (dot_join prefix (to_camel_key (trim_suffix [63] (tag_first tag)))) 0) = false ->
  tag_lookup tag k_default = None -> has_suffix [63] (tag_first tag) = false ->
  inject_slice E np tag prefix st = CErr.
Proof. exact slice_missing_is_error. Qed.
Print Assumptions c15_missing_slice_element_is_error.

Theorem c15_unknown_element_type_is_error : forall E np tag prefix st ty,
  tag_first tag <> [] ->
  st_has st (dot_join prefix (to_camel_key (trim_suffix [63] (tag_first tag)))) = true ->
  st_raw st (dot_join prefix (to_camel_key (trim_suffix [63] (tag_first tag))) ++ k_type_suffix) = Some ty ->
  find_plugin (env_plugins E) (to_camel_key (trim_suffix [63] (tag_first tag))) ty = None ->
  inject_iface E np tag prefix st = CErr.
Proof. exact iface_unknown_type_is_error. Qed.
Print Assumptions c15_unknown_element_type_is_error.

Theorem c15_dangling_reference_is_error : forall E hs m o, refresh E hs m = COk o ->
  forall l, In l (o_loggers o) -> forall r, In r (refs_of (snd l)) -> exists a, In a (o_appenders o) /\ fst a = r.
Proof. exact refresh_refs_resolve. Qed.
Print Assumptions c15_dangling_reference_is_error.

Theorem c15_async_buffer_window : forall E hs m o, refresh E hs m = COk o ->
  forall l z, In l (o_loggers o) -> pgotype (snd l) = s_async_logger -> field_of (pfields (snd l)) s_buffer_size = Some (PVInt z) ->
  (100 <= z <= max_async_buffer)%Z.
Proof. exact refresh_async_buffer_window. Qed.
Print Assumptions c15_async_buffer_window.

(* --- for every configuration map the model of Refresh reaches none of its panic sites (the ${} slice, SetString on a
       non-string `name` field), with the registry generated from the running code --- *)
Theorem c15_refresh_never_panics : forall hs m, refresh gen_env hs m <> CPanic.
Proof. exact gen_refresh_never_panics. Qed.
Print Assumptions c15_refresh_never_panics.

Theorem c15_new_plugin_never_panics : forall pt n pre m, new_plugin_from_map gen_env pt n pre m <> CPanic.
Proof. exact gen_new_plugin_never_panics. Qed.
Print Assumptions c15_new_plugin_never_panics.

(* --- every registered logger and appender type can be instantiated from configuration (finite: the registry of this run) --- *)
Theorem c15_all_types_instantiable : forall p, In p top_level_plugins -> exists o, refresh gen_env [] (minimal_cfg p) = COk o.
Proof. exact gen_all_types_instantiable. Qed.
Print Assumptions c15_all_types_instantiable.

(* the properties Refresh injects are exactly the modelled ones *)
Example c15_properties_modelled : properties = modelled_properties.
Proof. exact gen_properties_modelled. Qed.

(* non-vacuity: `file-dir`, `file_dir`, `FileDir` and `fileDir` under appender `myApp` written four ways *)
Definition w_file : bytes := [102; 105; 108; 101].
Definition w_dir : bytes := [100; 105; 114].
Definition w_my : bytes := [109; 121].
Definition w_app : bytes := [97; 112; 112].
Definition key_of (style : wform) (pascal : bool) : list seg :=
  [(pascal, s_appender, []); (false, w_my, [(style, w_app)]); (pascal, w_file, [(style, w_dir)])].
Example c15_spellings_premises : Forall seg_ok (key_of (WSep true false) true) /\ key_of (WSep true false) true <> [].
Proof. split; [|discriminate]. repeat constructor; discriminate. Qed.
Example c15_spellings_example :
  map (fun ss => to_camel_key (render_key ss)) [key_of WCamel false; key_of (WSep true false) false; key_of (WSep false false) true; key_of (WSep false true) true]
  = let k := s_appender ++ [46] ++ w_my ++ [65; 112; 112] ++ [46] ++ w_file ++ [68; 105; 114] in [k; k; k; k].
Proof. vm_compute. reflexivity. Qed.
