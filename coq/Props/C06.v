(* C06 — Async logger keeps per-producer order and honours its overflow policy. Statements only. *)
From LogV Require Import Base.Bytes Model.Async Proofs.AsyncProofs.
From Coq Require Import Sorting.Sorted.
Open Scope nat_scope.

(* on EVERY schedule of any number of producers: what has been delivered from one producer carries
   strictly increasing sequence numbers, i.e. is in submission order (events and raw writes alike) *)
Theorem c06_fifo_per_producer : forall cap pol s p, reach (c_init cap pol) s -> StronglySorted lt (seqs p (c_delivered s)).
Proof. exact fifo_per_producer. Qed.
Print Assumptions c06_fifo_per_producer.

(* stronger: delivered ++ held ++ buffered is ordered per producer and below anything still to come *)
Theorem c06_line_ordered : forall cap pol s, reach (c_init cap pol) s -> order_inv s.
Proof. exact reach_order. Qed.
Print Assumptions c06_line_ordered.

(* the overflow rules of the run-to-completion machine the harness drives *)
Theorem c06_overflow_rules : forall q x, q_cap q <= length (q_buf q) -> 0 < length (q_buf q) ->
  match q_pol q with
  | PDiscard => q_buf (fst (submit q x)) = q_buf q /\ q_discard (fst (submit q x)) = S (q_discard q) /\ snd (submit q x) = Dropped
  | PDiscardOldest => q_buf (fst (submit q x)) = tl (q_buf q) ++ [Data x] /\ q_discard (fst (submit q x)) = S (q_discard q)
  | PBlock => q_buf (fst (submit q x)) = q_buf q /\ q_discard (fst (submit q x)) = q_discard q /\ snd (submit q x) = Blocks /\
              q_blocked (fst (submit q x)) = q_blocked q ++ [x]
  end.
Proof. exact submit_policy. Qed.
Print Assumptions c06_overflow_rules.

Theorem c06_room : forall q x, length (q_buf q) < q_cap q ->
  q_buf (fst (submit q x)) = q_buf q ++ [Data x] /\ q_discard (fst (submit q x)) = q_discard q /\ snd (submit q x) = Enqueued.
Proof. exact submit_room. Qed.
Print Assumptions c06_room.

(* the run-to-completion machine is a schedule of the interleaving system, so the all-schedule
   theorems apply to what the deterministic harness exercises *)
Theorem c06_seq_refines_submit : forall q c p, R q c -> 0 < c_cap c ->
  let x := (p, c_next c p) in
  snd (submit q x) <> Blocks ->
  exists c', reach_from c c' /\ R (fst (submit q x)) c' /\ c_started c' = c_started c ++ [x].
Proof. exact submit_refines. Qed.
Print Assumptions c06_seq_refines_submit.

Theorem c06_seq_refines_worker : forall q c,
  R q c ->
  (q_held q = None -> q_stopped q = false -> q_buf q <> [] -> exists c', astep c c' /\ R (worker_receive q) c') /\
  (forall y, q_held q = Some y -> exists c', astep c c' /\ R (worker_deliver q) c').
Proof. intros q c H. split; [intros; now apply receive_refines|intros y Hy; now apply (deliver_refines q c y)]. Qed.
Print Assumptions c06_seq_refines_worker.

(* under the two discard policies a log call never waits for the worker / appender *)
Theorem c06_no_wait_on_worker : forall s p pc, stage_inv s -> c_pol s <> PBlock -> c_pcs s p = Some pc ->
  exists s', astep s s' /\ c_pcs s' p <> Some pc /\ c_held s' = c_held s /\ c_delivered s' = c_delivered s.
Proof. exact producer_never_waits. Qed.
Print Assumptions c06_no_wait_on_worker.

Example c06_ex : R (q_init 100 PDiscard) (c_init 100 PDiscard) /\
  q_buf (fold_left aseq_step [OSubmit (0,0); OSubmit (0,1); OSubmit (0,2)] (q_init 2 PDiscardOldest)) = [Data (0,1); Data (0,2)] /\
  q_buf (fold_left aseq_step [OSubmit (0,0); OSubmit (0,1); OSubmit (0,2)] (q_init 2 PDiscard)) = [Data (0,0); Data (0,1)] /\
  q_blocked (fold_left aseq_step [OSubmit (0,0); OSubmit (0,1); OSubmit (0,2)] (q_init 2 PBlock)) = [(0,2)].
Proof. split; [apply R_init|]. vm_compute. repeat split; reflexivity. Qed.
