(* C11 — Reported file:line is the caller's statement, in both caller-lookup modes. Statements only.
   The model carries the skip arithmetic; that a real Go stack has the assumed shape (inlining,
   pc->line tables, wrapper frames) is exercised by the harness over the enumerated call shapes. *)
From LogV Require Import Base.Bytes Model.Caller Proofs.CallerProofs.
Open Scope nat_scope.

(* stack at record(): record :: entry point :: user :: ...; the 15 entry points pass skip = 1, so the
   reported frame is the user's statement; Record(skip = k) reports the k-th frame above Record *)
Theorem c11_default_is_caller : forall record entry user rest c skip fc cf,
  fst (record_location true false fc cf (record :: entry :: user :: rest) c skip) = nth_error (entry :: user :: rest) skip.
Proof. exact default_is_caller. Qed.
Print Assumptions c11_default_is_caller.

Theorem c11_fast_is_caller : forall record entry user rest c skip fc cf, cache_ok c ->
  fst (record_location true true fc cf (record :: entry :: user :: rest) c skip) = nth_error (entry :: user :: rest) skip /\
  cache_ok (snd (record_location true true fc cf (record :: entry :: user :: rest) c skip)).
Proof. exact fast_is_caller. Qed.
Print Assumptions c11_fast_is_caller.

Theorem c11_modes_agree : forall stack c skip fc cf, cache_ok c -> (2 <= length stack) ->
  fst (record_location true true fc cf stack c skip) = fst (record_location true false fc cf stack c skip).
Proof. exact modes_agree. Qed.
Print Assumptions c11_modes_agree.

Theorem c11_cache_transparent : forall fc cf calls c, cache_ok c ->
  run_lookups fc cf c calls = map (fun sk => nth_error (fst sk) (snd sk + 1)) calls.
Proof. exact cache_transparent. Qed.
Print Assumptions c11_cache_transparent.

Theorem c11_disabled_empty : forall fast stack c skip fc cf, record_location false fast fc cf stack c skip = (None, c).
Proof. exact disabled_is_empty. Qed.
Print Assumptions c11_disabled_empty.

Example c11_ex :
  (* record=1, Info=2, user=3, main=4; FastCaller=90, runtime.Callers=91 *)
  fst (record_location true true 90%N 91%N [1;2;3;4]%N [] 1) = Some 3%N /\
  fst (record_location true false 90%N 91%N [1;2;3;4]%N [] 1) = Some 3%N /\
  run_lookups 90%N 91%N [] [([1;2;3;4]%N, 1); ([1;2;3;4]%N, 1); ([1;5;6;3;4]%N, 3)] = [Some 3%N; Some 3%N; Some 4%N].
Proof. vm_compute. repeat split; reflexivity. Qed.
