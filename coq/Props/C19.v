(* C19 — A failed rotation or unwritable target never loses the log call path. Statements only. *)
From LogV Require Import Base.Bytes Model.Rolling Proofs.RollingProofs.
From Coq Require Import Permutation.
Open Scope Z_scope.

(* if the next file cannot be created at a boundary the appender keeps the file it has; the directory is untouched *)
Theorem c19_keeps_current_file : forall s, r_curr s < interval_of (r_iv s) (r_now s) -> r_create_ok s = false ->
  r_file (rotate s) = r_file s /\ r_fs (rotate s) = r_fs s /\ r_curr (rotate s) = interval_of (r_iv s) (r_now s).
Proof. exact failed_rotation_keeps_file. Qed.
Print Assumptions c19_keeps_current_file.

(* nothing accepted is lost, for every sequence of ticks, writes and outage begin/end (same accounting as C13) *)
Theorem c19_nothing_lost : forall ops s, finv s ->
  Permutation (all_payloads (r_fs (frun s ops)) ++ r_lost (frun s ops)) (all_payloads (r_fs s) ++ r_lost s ++ writes ops) /\
  grows (r_fs s) (r_fs (frun s ops)).
Proof. exact frun_accounting. Qed.
Print Assumptions c19_nothing_lost.

Theorem c19_write_during_outage_lands : forall s p, finv s -> r_file (rotate s) <> None -> r_lost (fstep s (FWrite p)) = r_lost s.
Proof. exact write_lands. Qed.
Print Assumptions c19_write_during_outage_lands.

(* no retry inside the failed interval; at the first boundary after the outage a new file is created *)
Theorem c19_no_retry_within_interval : forall s, interval_of (r_iv s) (r_now s) <= r_curr s -> rotate s = s.
Proof. exact no_retry_within_interval. Qed.
Print Assumptions c19_no_retry_within_interval.
Theorem c19_retry_next_boundary : forall s, 0 < r_iv s -> r_curr s < interval_of (r_iv s) (r_now s) -> r_create_ok s = true ->
  r_file (rotate s) = Some (r_now s) /\ interval_of (r_iv s) (r_now s) <= r_now s /\ r_curr (rotate s) = interval_of (r_iv s) (r_now s).
Proof. exact write_after_boundary. Qed.
Print Assumptions c19_retry_next_boundary.

(* the model has no panic / block outcome for a write: every operation is a total function of the state;
   descriptors stay bounded *)
Theorem c19_fds_bounded : forall s, (open_fds s <= 2)%nat.
Proof. exact fds_bounded. Qed.
Print Assumptions c19_fds_bounded.

Example c19_ex :
  let s0 := f_init 100 2 [] in
  let s := frun s0 [FStart; FWrite 1; FSetCreate false; FTick 2; FWrite 2; FWrite 3; FTick 2; FWrite 4; FSetCreate true; FTick 1; FWrite 5; FTick 1; FWrite 6] in
  r_fs s = [ {| f_name := 100; f_content := [1; 2; 3; 4; 5]%N |}; {| f_name := 106; f_content := [6]%N |} ] /\ r_lost s = [].
Proof. vm_compute. split; reflexivity. Qed.
