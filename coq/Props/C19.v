(* C19 — A failed rotation or unwritable target never loses the log call path. Statements only. *)
From LogV Require Import Base.Bytes Model.Rolling Proofs.RollingProofs Model.RollingConc Proofs.RollingConcProofs.
From Coq Require Import Permutation.
Open Scope Z_scope.

(* if the next file cannot be created at a boundary the appender keeps the file it has; the directory is untouched *)
Theorem c19_keeps_current_file : forall s, r_curr s < interval_of (r_iv s) (r_now s) -> r_create_ok s = false ->
  r_file (rotate s) = r_file s /\ r_fs (rotate s) = r_fs s /\ r_curr (rotate s) = interval_of (r_iv s) (r_now s).
Proof. exact failed_rotation_keeps_file. Qed.
Print Assumptions c19_keeps_current_file.

(* nothing accepted is lost, for every sequence of ticks, writes and outage begin/end (same accounting as C13) *)
Theorem c19_nothing_lost : forall ops s, finv s ->
  Permutation (all_payloads (r_fs (frun s ops)) ++ r_lost (frun s ops)) (all_payloads (r_fs s) ++ r_lost s ++ writes ops) /\
  grows (r_fs s) (r_fs (frun s ops)).
Proof. exact frun_accounting. Qed.
Print Assumptions c19_nothing_lost.

Theorem c19_write_during_outage_lands : forall s p, finv s -> r_file (rotate s) <> None -> r_lost (fstep s (FWrite p)) = r_lost s.
Proof. exact write_lands. Qed.
Print Assumptions c19_write_during_outage_lands.

(* no retry inside the failed interval; at the first boundary after the outage a new file is created *)
Theorem c19_no_retry_within_interval : forall s, interval_of (r_iv s) (r_now s) <= r_curr s -> rotate s = s.
Proof. exact no_retry_within_interval. Qed.
Print Assumptions c19_no_retry_within_interval.
Theorem c19_retry_next_boundary : forall s, 0 < r_iv s -> r_curr s < interval_of (r_iv s) (r_now s) -> r_create_ok s = true ->
  r_file (rotate s) = Some (r_now s) /\ interval_of (r_iv s) (r_now s) <= r_now s /\ r_curr (rotate s) = interval_of (r_iv s) (r_now s).
Proof. exact write_after_boundary. Qed.
Print Assumptions c19_retry_next_boundary.

(* the model has no panic / block outcome for a write: every operation is a total function of the state;
   descriptors stay bounded *)
Theorem c19_fds_bounded : forall s, (open_fds s <= 2)%nat.
Proof. exact fds_bounded. Qed.
Print Assumptions c19_fds_bounded.

(* ---------------- create faults under concurrency (Model/RollingConc.v: createFile may fail at ANY rotation,
   any number of goroutines, every atomic operation its own step, the clock advancing at any moment) ---------------- *)

(* the failing step itself: only the goroutine's program counter moves; the current file, oldFile, every descriptor and
   everything written stay as they are *)
Theorem c19_conc_failed_create_touches_nothing : forall s t id now, c_thr s t = RClosedOld id now ->
  cstep s (set_thr s t RToWrite) /\
  c_file (set_thr s t RToWrite) = c_file s /\ c_old (set_thr s t RToWrite) = c_old s /\ c_fopen (set_thr s t RToWrite) = c_fopen s /\
  c_fdata (set_thr s t RToWrite) = c_fdata s /\ c_lost (set_thr s t RToWrite) = c_lost s /\ c_curr (set_thr s t RToWrite) = c_curr s.
Proof. intros s t id now H. split; [eapply cs_create_fail; eassumption|]. repeat split; reflexivity. Qed.
Print Assumptions c19_conc_failed_create_touches_nothing.

(* nothing accepted is lost or duplicated, whatever fails and whatever the interleaving: every completed call is exactly once
   in a descriptor's data or in the list of writes that hit a closed descriptor; files only grow by appends *)
Theorem c19_conc_every_write_exactly_once : forall t0 s t n, creach (c_start t0) s ->
  (data_count (c_fdata s) (t, n) (c_nfiles s) + cnt (c_lost s) (t, n) = if (n <? c_seq s t)%nat then 1 else 0)%nat.
Proof. exact every_write_exactly_once. Qed.
Print Assumptions c19_conc_every_write_exactly_once.

Theorem c19_conc_never_truncated : forall s0 s f, creach s0 s -> exists l, c_fdata s f = c_fdata s0 f ++ l.
Proof. exact never_truncated. Qed.
Print Assumptions c19_conc_never_truncated.

(* keeps writing to the file it has: whenever no goroutine is inside a rotation - whatever failed before - the current
   descriptor is open and is not the one parked in oldFile *)
Theorem c19_conc_current_open_when_no_rotation_in_flight : forall t0 s,
  creach (c_start t0) s -> (forall t, rot_of (c_thr s t) = None) -> c_fopen s (c_file s) = true /\ c_old s <> Some (c_file s).
Proof.
  intros t0 s Hr Hq. split; [eapply current_open_when_no_rotation_in_flight|eapply old_not_current_when_no_rotation_in_flight]; eassumption.
Qed.
Print Assumptions c19_conc_current_open_when_no_rotation_in_flight.

(* a write can hit a closed descriptor only if a rotation j that had created its file and retired this descriptor was still
   incomplete when the descriptor was loaded, and a different rotation k closed it *)
Theorem c19_conc_loss_needs_an_unfinished_successful_rotation : forall t0 s t f d0,
  creach (c_start t0) s -> c_thr s t = RHolding f d0 -> c_fopen s f = false ->
  exists j k, j <> k /\ c_storers s f j = true /\ c_closer s f = Some k /\ overlaps s d0 j /\ overlaps s d0 k.
Proof. exact closed_under_writer_storer_and_closer. Qed.
Print Assumptions c19_conc_loss_needs_an_unfinished_successful_rotation.

(* the call at a boundary whose createFile fails, executed without interference: returns, its line is in the file the
   appender already had, nothing is lost, currTime has moved on *)
Theorem c19_conc_solo_create_fails : forall s t, c_thr s t = RIdle -> (c_curr s < c_clk s)%Z ->
  c_fopen s (c_file s) = true -> c_old s <> Some (c_file s) ->
  exists s', run s (steps t 4 ++ [AFail t] ++ steps t 2) = Some s' /\
    c_file s' = c_file s /\ c_curr s' = c_clk s /\ c_clk s' = c_clk s /\ c_old s' = None /\ c_nfiles s' = c_nfiles s /\
    c_thr s' t = RIdle /\ c_seq s' t = S (c_seq s t) /\ c_lost s' = c_lost s /\ c_fopen s' (c_file s) = true /\
    c_fdata s' (c_file s) = c_fdata s (c_file s) ++ [((t, c_seq s t), c_clk s)] /\
    (forall g, g <> c_file s -> c_fdata s' g = c_fdata s g).
Proof. exact solo_write_create_fails. Qed.
Print Assumptions c19_conc_solo_create_fails.

(* no second attempt within the interval; the first call after the next boundary attempts the creation again *)
Theorem c19_conc_plain_then_retry : forall s t d, c_thr s t = RIdle -> (c_curr s < c_clk s)%Z ->
  c_fopen s (c_file s) = true -> c_old s <> Some (c_file s) -> (0 < d)%Z ->
  exists s1, run s (steps t 4 ++ [AFail t] ++ steps t 2) = Some s1 /\
    (exists s2, run s1 (steps t 4) = Some s2 /\ c_file s2 = c_file s /\ c_nfiles s2 = c_nfiles s /\ c_lost s2 = c_lost s /\
        c_fdata s2 (c_file s) = c_fdata s (c_file s) ++ [((t, c_seq s t), c_clk s)] ++ [((t, S (c_seq s t)), c_clk s)]) /\
    (exists s3, run s1 (ATick d :: steps t 11) = Some s3 /\ c_file s3 = c_nfiles s /\ c_fname s3 (c_nfiles s) = (c_clk s + d)%Z /\
        c_old s3 = Some (c_file s) /\ c_lost s3 = c_lost s /\ c_curr s3 = (c_clk s + d)%Z).
Proof. exact failed_create_then_plain_then_retry. Qed.
Print Assumptions c19_conc_plain_then_retry.

(* "keeps writing to the file it already has" is NOT unconditional under concurrency: with one rotation stalled between
   oldFile.Store and file.Store across a whole interval, a failing createFile at the next boundary leaves the current
   descriptor closed, and writes are dropped (EBADF, ignored) although that stalled rotation is the only one in flight.
   Same named timing hypothesis as C13 (a goroutine suspended between two atomic operations for a whole interval). *)
Theorem c19_conc_unconditional_refuted :
  exists s, creach (c_start 0) s /\ c_lost s = [(1, 0); (2, 0)]%nat /\ c_thr s 0%nat = RStoredOld 0%nat 1%Z 1%nat /\
            c_thr s 1%nat = RIdle /\ c_thr s 2%nat = RIdle /\ c_fopen s (c_file s) = false.
Proof. exact fault_loses_write_with_one_rotation_in_flight. Qed.
Print Assumptions c19_conc_unconditional_refuted.

(* non-vacuity: the state right after Start meets the hypotheses of the solo theorems once the clock has passed a boundary *)
Example c19_conc_ex :
  let s := {| c_clk := 1; c_curr := c_curr (c_start 0); c_file := c_file (c_start 0); c_old := c_old (c_start 0); c_nfiles := c_nfiles (c_start 0);
              c_fname := c_fname (c_start 0); c_fopen := c_fopen (c_start 0); c_fdata := c_fdata (c_start 0); c_thr := c_thr (c_start 0);
              c_seq := c_seq (c_start 0); c_lost := c_lost (c_start 0); c_started := 0; c_done := c_done (c_start 0); c_movers := c_movers (c_start 0);
              c_storers := c_storers (c_start 0); c_closer := c_closer (c_start 0); c_old_by := None |} in
  c_thr s 0%nat = RIdle /\ (c_curr s < c_clk s)%Z /\ c_fopen s (c_file s) = true /\ c_old s <> Some (c_file s) /\
  option_map (fun s' => (c_file s', c_nfiles s', c_lost s', map (fun x => snd (fst x)) (c_fdata s' 0%nat)))
    (run s (steps 0 4 ++ [AFail 0%nat] ++ steps 0 2 ++ steps 0 4 ++ [ATick 1] ++ steps 0 11))
  = Some (1%nat, 2%nat, [], [0; 1]%nat).
Proof. vm_compute. repeat split; try reflexivity. discriminate. Qed.

Example c19_ex :
  let s0 := f_init 100 2 [] in
  let s := frun s0 [FStart; FWrite 1; FSetCreate false; FTick 2; FWrite 2; FWrite 3; FTick 2; FWrite 4; FSetCreate true; FTick 1; FWrite 5; FTick 1; FWrite 6] in
  r_fs s = [ {| f_name := 100; f_content := [1; 2; 3; 4; 5]%N |}; {| f_name := 106; f_content := [6]%N |} ] /\ r_lost s = [].
Proof. vm_compute. split; reflexivity. Qed.
