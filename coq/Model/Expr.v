(* Reference implementation of the semantics of expr/Expr.g4 + expr/parse.go (NOT of the ANTLR runtime):
   maximal-munch lexer with ANTLR's tie-breaking, recursive-descent parser, flattening listener, unquote. *)
From LogV Require Export Base.Bytes Base.Utf8.
Open Scope N_scope.

Inductive token :=
| TLBrace | TRBrace | TComma | TEq | TDot | TLBrack | TRBrack
| TIdent (s : bytes) | TString (raw : bytes) (* including both quotes *) | TInt (s : bytes) | TFloat (s : bytes).

Definition is_letter (c : N) : bool := is_lower c || is_upper c.
Definition is_ident_start (c : N) : bool := is_letter c || (c =? 95).
Definition is_ident_char (c : N) : bool := is_letter c || is_digit c || (c =? 95).
Definition is_hex (c : N) : bool := is_digit c || ((65 <=? c) && (c <=? 70)) || ((97 <=? c) && (c <=? 102)).
Definition is_gws (c : N) : bool := (c =? 32) || (c =? 9) || (c =? 13) || (c =? 10).   (* WS : [ \t\r\n]+ *)
Definition is_sign (c : N) : bool := (c =? 43) || (c =? 45).
Definition is_exp (c : N) : bool := (c =? 69) || (c =? 101).

Fixpoint take_while (p : N -> bool) (s : bytes) : bytes :=
  match s with c :: r => if p c then c :: take_while p r else [] | [] => [] end.
Fixpoint drop_while (p : N -> bool) (s : bytes) : bytes :=
  match s with c :: r => if p c then drop_while p r else s | [] => [] end.

(* length of the longest INTEGER match at the head of s (0 = none):  ('+'|'-')? DIGIT+ | '0x' HEX_DIGIT+ *)
Definition int_len (s : bytes) : nat :=
  let a := match s with
           | c :: r => if is_sign c then (match length (take_while is_digit r) with O => O | n => S n end)
                       else length (take_while is_digit s)
           | [] => O
           end in
  let b := match s with
           | 48 :: 120 :: r => match length (take_while is_hex r) with O => O | n => S (S n) end
           | _ => O
           end in
  Nat.max a b.

(* exponent part: (('E'|'e') ('+'|'-')? DIGIT+)? *)
Definition exp_len (s : bytes) : nat :=
  match s with
  | e :: r => if is_exp e then
                let '(sg, r') := match r with c :: t => if is_sign c then (1%nat, t) else (O, r) | [] => (O, r) end in
                match length (take_while is_digit r') with O => O | n => S (sg + n) end
              else O
  | [] => O
  end.

(* longest FLOAT match: ('+'|'-')? ( DIGIT+ ('.' DIGIT+)? | '.' DIGIT+ ) exponent? *)
Definition float_len (s : bytes) : nat :=
  let '(sg, r) := match s with c :: t => if is_sign c then (1%nat, t) else (O, s) | [] => (O, s) end in
  let d1 := length (take_while is_digit r) in
  let r1 := drop_while is_digit r in
  let mant :=
    match d1 with
    | O => match r1 with
           | 46 :: t => match length (take_while is_digit t) with O => O | n => S n end
           | _ => O
           end
    | _ => match r1 with
           | 46 :: t => match length (take_while is_digit t) with O => d1 | n => (d1 + S n)%nat end
           | _ => d1
           end
    end in
  match mant with
  | O => O
  | _ => (sg + mant + exp_len (skipn mant r))%nat
  end.

(* STRING : dquote ( any char except dquote and backslash | backslash followed by one of dquote backslash / b f n r t )* dquote ;
   returns the length of the body + closing quote *)
Definition is_esc_char (c : N) : bool :=
  (c =? 34) || (c =? 92) || (c =? 47) || (c =? 98) || (c =? 102) || (c =? 110) || (c =? 114) || (c =? 116).
Fixpoint string_len (s : bytes) : option nat :=
  match s with
  | [] => None
  | c :: r =>
      if c =? 34 then Some 1%nat
      else if c =? 92 then
        match r with
        | x :: r' => if is_esc_char x then option_map (fun n => S (S n)) (string_len r') else None
        | [] => None
        end
      else option_map S (string_len r)
  end.

(* one token at the head of s (s does not start with whitespace); None = token recognition error *)
Definition lex_one (s : bytes) : option (token * bytes) :=
  match s with
  | [] => None
  | c :: r =>
      if c =? 123 then Some (TLBrace, r) else if c =? 125 then Some (TRBrace, r)
      else if c =? 44 then Some (TComma, r) else if c =? 61 then Some (TEq, r)
      else if c =? 91 then Some (TLBrack, r) else if c =? 93 then Some (TRBrack, r)
      else if is_ident_start c then Some (TIdent (take_while is_ident_char s), drop_while is_ident_char s)
      else if c =? 34 then
        match string_len r with
        | Some n => Some (TString (c :: firstn n r), skipn n r)
        | None => None
        end
      else
        let li := int_len s in let lf := float_len s in
        if (c =? 46) && (lf <=? 1)%nat then Some (TDot, r)
        else if (li =? 0)%nat && (lf =? 0)%nat then None
        else if (lf <=? li)%nat then Some (TInt (firstn li s), skipn li s)   (* tie: INTEGER is declared first *)
        else Some (TFloat (firstn lf s), skipn lf s)
  end.

Fixpoint lex (fuel : nat) (s : bytes) : option (list token) :=
  match fuel with
  | O => None
  | S f =>
      match drop_while is_gws s with
      | [] => Some []
      | s' => match lex_one s' with
              | Some (t, r) => option_map (cons t) (lex f r)
              | None => None
              end
      end
  end.

(* ---------------- parser ---------------- *)
Inductive evalue := EVIdent (s : bytes) | EVString (raw : bytes) | EVInt (s : bytes) | EVFloat (s : bytes) | EVExpr (t : etree)
with etree := Expr (ty : bytes) (fields : list (bytes * evalue)).

(* fieldAccess : IDENT ('.' IDENT | '[' INTEGER ']')*  -> its text (token texts concatenated) *)
Fixpoint parse_path (fuel : nat) (acc : bytes) (ts : list token) : bytes * list token :=
  match fuel with
  | O => (acc, ts)
  | S f =>
      match ts with
      | TDot :: TIdent s :: r => parse_path f (acc ++ 46 :: s) r
      | TLBrack :: TInt s :: TRBrack :: r => parse_path f (acc ++ 91 :: s ++ [93]) r
      | _ => (acc, ts)
      end
  end.

(* value : IDENT | STRING | INTEGER | FLOAT | expr   (an IDENT followed by '{' starts a nested expr) *)
Definition value_of (pe : list token -> option (etree * list token)) (r2 : list token) : option (evalue * list token) :=
  match r2 with
  | TIdent s :: TLBrace :: _ => match pe r2 with Some (t, r3) => Some (EVExpr t, r3) | None => None end
  | TIdent s :: r3 => Some (EVIdent s, r3)
  | TString s :: r3 => Some (EVString s, r3)
  | TInt s :: r3 => Some (EVInt s, r3)
  | TFloat s :: r3 => Some (EVFloat s, r3)
  | _ => None
  end.

Fixpoint parse_expr (fuel : nat) (ts : list token) : option (etree * list token) :=
  match fuel with
  | O => None
  | S f =>
      match ts with
      | TIdent ty :: TLBrace :: r =>
          match r with
          | TRBrace :: r' => Some (Expr ty [], r')
          | _ => match parse_fields f f r [] with
                 | Some (fs, r') => Some (Expr ty fs, r')
                 | None => None
                 end
          end
      | _ => None
      end
  end
(* innerExprList : innerExpr (',' innerExpr)* ','?  followed by '}' *)
with parse_fields (fuel cnt : nat) (ts : list token) (acc : list (bytes * evalue)) : option (list (bytes * evalue) * list token) :=
  match fuel with
  | O => None
  | S f =>
      match ts with
      | TIdent k :: r0 =>
          let '(path, r1) := parse_path (length r0) k r0 in
          match r1 with
          | TEq :: r2 =>
              let v := value_of (parse_expr f) r2 in
              match v with
              | Some (val, r3) =>
                  match r3 with
                  | TRBrace :: r4 => Some (rev ((path, val) :: acc), r4)
                  | TComma :: TRBrace :: r4 => Some (rev ((path, val) :: acc), r4)
                  | TComma :: r4 => parse_fields f cnt r4 ((path, val) :: acc)
                  | _ => None
                  end
              | None => None
              end
          | _ => None
          end
      | _ => None
      end
  end.

(* ---------------- the flattening listener ---------------- *)
(* unquote: strip the quotes, resolve the eight escapes *)
Fixpoint unq (s : bytes) : bytes :=
  match s with
  | [] => []
  | c :: r =>
      if c =? 92 then
        match r with
        | x :: r' => (if x =? 98 then 8 else if x =? 102 then 12 else if x =? 110 then 10
                      else if x =? 114 then 13 else if x =? 116 then 9 else x) :: unq r'
        | [] => [c]
        end
      else c :: unq r
  end.
Definition unquote_tok (raw : bytes) : bytes := unq (removelast (tl raw)).

Definition dotted (prefix key : bytes) : bytes := if is_nil prefix then key else prefix ++ 46 :: key.
Definition k_type : bytes := [116; 121; 112; 101].

(* assignments in listener order *)
Fixpoint flatten (fuel : nat) (prefix : bytes) (t : etree) : list (bytes * bytes) :=
  match fuel with
  | O => []
  | S f =>
      match t with
      | Expr ty fields =>
          (dotted prefix k_type, ty) ::
          flat_map (fun kv =>
            let key := dotted prefix (fst kv) in
            match snd kv with
            | EVExpr t' => flatten f key t'
            | EVString raw => [(key, unquote_tok raw)]
            | EVIdent s | EVInt s | EVFloat s => [(key, s)]
            end) fields
      end
  end.

Fixpoint tree_depth (t : etree) : nat :=
  match t with Expr _ fs => S (fold_right (fun kv a => Nat.max (match snd kv with EVExpr t' => tree_depth t' | _ => O end) a) O fs) end.

(* a Go map: later assignment to the same key wins *)
Fixpoint assign (m : list (bytes * bytes)) (k v : bytes) : list (bytes * bytes) :=
  match m with
  | [] => [(k, v)]
  | (k', v') :: r => if bytes_eqb k' k then (k, v) :: r else (k', v') :: assign r k v
  end.
Definition to_map (l : list (bytes * bytes)) : list (bytes * bytes) := fold_left (fun m kv => assign m (fst kv) (snd kv)) l [].

(* strings.TrimSpace: Unicode White_Space as UTF-8 *)
Definition uni_spaces : list bytes :=
  [[9]; [10]; [11]; [12]; [13]; [32]; [194; 133]; [194; 160]; [225; 154; 128];
   [226; 128; 128]; [226; 128; 129]; [226; 128; 130]; [226; 128; 131]; [226; 128; 132]; [226; 128; 133]; [226; 128; 134];
   [226; 128; 135]; [226; 128; 136]; [226; 128; 137]; [226; 128; 138]; [226; 128; 168]; [226; 128; 169]; [226; 128; 175];
   [226; 129; 159]; [227; 128; 128]].
Fixpoint first_prefix (ps : list bytes) (s : bytes) : option bytes :=
  match ps with [] => None | p :: r => match drop_prefix p s with Some t => Some t | None => first_prefix r s end end.
Fixpoint go_trim_left (ps : list bytes) (fuel : nat) (s : bytes) : bytes :=
  match fuel with O => s | S f => match first_prefix ps s with Some t => go_trim_left ps f t | None => s end end.
Definition go_trim_space (s : bytes) : bytes :=
  let l := go_trim_left uni_spaces (length s) s in
  rev (go_trim_left (map (@rev N) uni_spaces) (length l) (rev l)).

Inductive presult := POk (m : list (bytes * bytes)) | PNil | PErr.

(* expr.Parse: the input is converted to runes first (invalid bytes become U+FFFD) *)
Definition parse (data : bytes) : presult :=
  let s := sanitize (go_trim_space data) in
  if is_nil s then PNil
  else match lex (S (length s)) s with
       | None => PErr
       | Some ts =>
           match parse_expr (S (length ts)) ts with
           | Some (t, []) => POk (to_map (flatten (tree_depth t) [] t))
           | _ => PErr
           end
       end.
