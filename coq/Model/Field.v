(* Model of field.go: the values a Field can carry, the typed constructors and Any's dispatch. *)
From LogV Require Export Base.Bytes Base.Dec.
Open Scope N_scope.

(* strconv.FormatFloat(v,'f',-1,64): the token is an oracle input computed outside the model;
   non-finite values print as NaN, +Inf, -Inf *)
Inductive ftok := FFinite (tok : bytes) | FNonFinite (tok : bytes).

(* encoding/json.Marshal(v): its text, or the error message *)
Inductive rtok := RJson (tok : bytes) | RErr (msg : bytes).
Definition null_tok : rtok := RJson [110; 117; 108; 108]. (* json.Marshal(nil) *)

(* dynamic Go values handed to Any / stored in a FieldsFromMap map; the width only matters for dispatch *)
Inductive gval :=
| GNil
| GBool (b : bool) | GBoolPtr (o : option bool) | GBools (l : list bool)
| GInt (w : N) (z : Z) | GIntPtr (w : N) (o : option Z) | GInts (w : N) (l : list Z)
| GUint (w : N) (n : N) | GUintPtr (w : N) (o : option N) | GUints (w : N) (l : list N)
| GFloat (w : N) (f : ftok) | GFloatPtr (w : N) (o : option ftok) | GFloats (w : N) (l : list ftok)
| GString (s : bytes) | GStringPtr (o : option bytes) | GStrings (l : list bytes)
| GOther (r : rtok).   (* every other dynamic type falls through to Reflect *)

(* what a Field holds once constructed; Num is the uint64 payload *)
Inductive value :=
| VBool (b : bool)
| VInt (num : N)        (* Int: Num = uint64(val); Encode reads int64(Num) *)
| VUint (num : N)
| VFloat (f : ftok)
| VStr (s : bytes)
| VReflect (r : rtok)
| VArr (l : list value)                 (* the calls an ArrayValue makes, each a complete value *)
| VObj (l : list (bytes * value))
| VSplice (m : list (bytes * gval)).    (* FieldsFromMap: expands in place, its own key is ignored *)

Definition field := (bytes * value)%type.

Definition any_value (g : gval) : value :=
  match g with
  | GNil => VReflect null_tok
  | GBool b => VBool b
  | GBoolPtr None | GIntPtr _ None | GUintPtr _ None | GFloatPtr _ None | GStringPtr None => VReflect null_tok
  | GBoolPtr (Some b) => VBool b
  | GBools l => VArr (map VBool l)
  | GInt _ z => VInt (num_of_int z)
  | GIntPtr _ (Some z) => VInt (num_of_int z)
  | GInts _ l => VArr (map (fun z => VInt (num_of_int z)) l)
  | GUint _ n => VUint n
  | GUintPtr _ (Some n) => VUint n
  | GUints _ l => VArr (map VUint l)
  | GFloat _ f => VFloat f
  | GFloatPtr _ (Some f) => VFloat f
  | GFloats _ l => VArr (map VFloat l)
  | GString s => VStr s
  | GStringPtr (Some s) => VStr s
  | GStrings l => VArr (map VStr l)
  | GOther r => VReflect r
  end.

(* typed constructors *)
Definition f_bool (k : bytes) (b : bool) : field := (k, VBool b).
Definition f_int (k : bytes) (z : Z) : field := (k, VInt (num_of_int z)).
Definition f_uint (k : bytes) (n : N) : field := (k, VUint n).
Definition f_float (k : bytes) (f : ftok) : field := (k, VFloat f).
Definition f_string (k : bytes) (s : bytes) : field := (k, VStr s).
Definition f_nil (k : bytes) : field := (k, VReflect null_tok).
Definition f_reflect (k : bytes) (r : rtok) : field := (k, VReflect r).
Definition f_any (k : bytes) (g : gval) : field := (k, any_value g).
Definition f_object (k : bytes) (fs : list field) : field := (k, VObj fs).
Definition f_array (k : bytes) (elems : list value) : field := (k, VArr elems).
Definition f_from_map (m : list (bytes * gval)) : field := ([], VSplice m).

(* ordered.MapKeys: keys in ascending byte order *)
Fixpoint insert_entry (e : bytes * gval) (l : list (bytes * gval)) : list (bytes * gval) :=
  match l with
  | [] => [e]
  | x :: t => if bytes_ltb (fst e) (fst x) then e :: l else x :: insert_entry e t
  end.
Definition sort_entries (m : list (bytes * gval)) : list (bytes * gval) := fold_right insert_entry [] m.
