(* Model of WriteLogString / tryAddRuneSelf / tryAddRuneError (field_encoder.go) and of
   utf8.DecodeRuneInString as far as the escaper depends on it (size, and error-with-size-1). *)
From LogV Require Export Base.Bytes.

(* utf8.first[] / acceptRanges[]: for a lead byte, (sequence size, accepted range of the 2nd byte);
   None = ASCII or invalid (xx). Laid out like the Go table. *)
Definition first_info (s0 : N) : option (nat * N * N) :=
  if s0 <? 194 then None                                   (* 00..7F as, 80..C1 xx *)
  else if s0 <=? 223 then Some (2%nat, 128, 191)           (* C2..DF s1 *)
  else if s0 =? 224 then Some (3%nat, 160, 191)            (* E0 s2 *)
  else if s0 <=? 236 then Some (3%nat, 128, 191)           (* E1..EC s3 *)
  else if s0 =? 237 then Some (3%nat, 128, 159)            (* ED s4 *)
  else if s0 <=? 239 then Some (3%nat, 128, 191)           (* EE..EF s3 *)
  else if s0 =? 240 then Some (4%nat, 144, 191)            (* F0 s5 *)
  else if s0 <=? 243 then Some (4%nat, 128, 191)           (* F1..F3 s6 *)
  else if s0 =? 244 then Some (4%nat, 128, 143)            (* F4 s7 *)
  else None.                                               (* F5..FF xx *)

Definition is_cont (b : N) : bool := (128 <=? b) && (b <=? 191). (* locb..hicb *)

(* size returned by DecodeRuneInString for a non-ASCII head; 1 means (RuneError, 1) *)
Definition go_decode_size (s : bytes) : nat :=
  match s with
  | [] => O
  | s0 :: r =>
      match first_info s0 with
      | None => 1%nat
      | Some (sz, lo, hi) =>
          if (length s <? sz)%nat then 1%nat
          else match r with
               | [] => 1%nat
               | s1 :: r1 =>
                   if (s1 <? lo) || (hi <? s1) then 1%nat
                   else if (sz <=? 2)%nat then 2%nat
                   else match r1 with
                        | [] => 1%nat
                        | s2 :: r2 =>
                            if negb (is_cont s2) then 1%nat
                            else if (sz <=? 3)%nat then 3%nat
                            else match r2 with
                                 | [] => 1%nat
                                 | s3 :: _ => if negb (is_cont s3) then 1%nat else 4%nat
                                 end
                        end
               end
      end
  end.

Definition hex_digit (n : N) : N := if n <? 10 then 48 + n else 87 + n. (* "0123456789abcdef"[n] *)

(* tryAddRuneSelf for b < 0x80 *)
Definition escape_ascii (b : N) : bytes :=
  if (32 <=? b) && negb (b =? 92) && negb (b =? 34) then [b]
  else if (b =? 92) || (b =? 34) then [92; b]
  else if b =? 10 then [92; 110]
  else if b =? 13 then [92; 114]
  else if b =? 9 then [92; 116]
  else [92; 117; 48; 48; hex_digit (b / 16); hex_digit (b mod 16)].

Definition ufffd_escape : bytes := [92; 117; 102; 102; 102; 100]. (* � *)

(* The WriteLogString loop. [k] = bytes of the current valid multi-byte rune still to be
   copied raw (the Go loop writes s[i:i+size] and advances by size). *)
Fixpoint esc (k : nat) (s : bytes) : bytes :=
  match s with
  | [] => []
  | b :: r =>
      match k with
      | S k' => b :: esc k' r
      | O => if b <? 128 then escape_ascii b ++ esc 0 r
             else match go_decode_size s with
                  | 2%nat => b :: esc 1 r
                  | 3%nat => b :: esc 2 r
                  | 4%nat => b :: esc 3 r
                  | _ => ufffd_escape ++ esc 0 r
                  end
      end
  end.

Definition escape (s : bytes) : bytes := esc 0 s.
