(* Model of what a synchronous appender does with a formatted line (ConsoleAppender / FileAppender /
   RollingFileAppender .Write): one write(2) on the descriptor per line, on the caller's goroutine;
   there is no user-space buffer in front of the descriptor. *)
From LogV Require Export Base.Bytes.
Open Scope nat_scope.

Record sink := {
  user_space : list N;     (* lines accepted but still held in a user-space buffer (none in this code base) *)
  os_file : list N;        (* lines handed to the kernel: they survive the death of the process *)
  acked : list N }.        (* log calls that have returned to their caller *)

Definition sink_init : sink := {| user_space := []; os_file := []; acked := [] |}.

Inductive sop :=
| SWriteBegin (line : N)   (* the appender's Write: file.Write(b) returns after the kernel has the bytes *)
| SReturn (line : N).      (* the log call returns to the caller *)

(* a line may be acknowledged only after its Write; calls of different goroutines interleave freely *)
Definition sstep (s : sink) (o : sop) : sink :=
  match o with
  | SWriteBegin l => {| user_space := user_space s; os_file := os_file s ++ [l]; acked := acked s |}
  | SReturn l => if existsb (N.eqb l) (os_file s ++ user_space s)
                 then {| user_space := user_space s; os_file := os_file s; acked := acked s ++ [l] |}
                 else s   (* a call cannot return before its appenders' Write calls have returned *)
  end.

(* SIGKILL / os.Exit: user-space memory is gone *)
Definition crash (s : sink) : list N := os_file s.
