(* Model of AsyncLogger (plugin_logger.go): the buffered channel, the three overflow policies, the
   worker and Stop.  This file holds the EXECUTABLE sequential machine (every API call runs to
   completion while the worker is parked, or the worker takes exactly one item) that the gated
   harness drives; the interleaving transition system and the proofs are in Proofs/AsyncProofs.v. *)
From LogV Require Export Base.Bytes.
Open Scope nat_scope.

Inductive policy := PBlock | PDiscard | PDiscardOldest.

(* a submitted event or raw write, identified by (producer, sequence number) *)
Definition item := (nat * nat)%type.
Inductive entry := Data (x : item) | Marker.   (* channel element: an item or the stop marker *)

Record qstate := {
  q_cap : nat;                 (* BufferSize *)
  q_pol : policy;
  q_buf : list entry;          (* channel contents, oldest first *)
  q_held : option item;        (* item the worker has received but not yet handed to the appenders *)
  q_delivered : list item;     (* handed to the appenders, in order *)
  q_discard : nat;             (* discardCounter *)
  q_blocked : list item;       (* producers parked in a blocking send (Block policy), in arrival order *)
  q_stopped : bool             (* worker has seen the marker and exited *)
}.

Definition q_init (cap : nat) (pol : policy) : qstate :=
  {| q_cap := cap; q_pol := pol; q_buf := []; q_held := None; q_delivered := []; q_discard := 0; q_blocked := []; q_stopped := false |}.

Definition set_buf (s : qstate) (b : list entry) : qstate :=
  {| q_cap := q_cap s; q_pol := q_pol s; q_buf := b; q_held := q_held s; q_delivered := q_delivered s;
     q_discard := q_discard s; q_blocked := q_blocked s; q_stopped := q_stopped s |}.

Inductive sub_out := Enqueued | Dropped | DroppedOldest (n : nat) | Blocks.

(* Append / Write of one enabled item, run to completion with the worker not moving:
   non-blocking send, else onBufferFull *)
Definition submit (s : qstate) (x : item) : qstate * sub_out :=
  if length (q_buf s) <? q_cap s then (set_buf s (q_buf s ++ [Data x]), Enqueued)
  else match q_pol s with
       | PDiscard =>
           ({| q_cap := q_cap s; q_pol := q_pol s; q_buf := q_buf s; q_held := q_held s; q_delivered := q_delivered s;
               q_discard := S (q_discard s); q_blocked := q_blocked s; q_stopped := q_stopped s |}, Dropped)
       | PDiscardOldest =>
           (* the two-select loop: remove the head, count it, then the send succeeds *)
           match q_buf s with
           | _ :: rest =>
               ({| q_cap := q_cap s; q_pol := q_pol s; q_buf := rest ++ [Data x]; q_held := q_held s; q_delivered := q_delivered s;
                   q_discard := S (q_discard s); q_blocked := q_blocked s; q_stopped := q_stopped s |}, DroppedOldest 1)
           | [] => (s, Blocks)   (* capacity 0: cannot happen, Start requires BufferSize >= 100 *)
           end
       | PBlock =>
           ({| q_cap := q_cap s; q_pol := q_pol s; q_buf := q_buf s; q_held := q_held s; q_delivered := q_delivered s;
               q_discard := q_discard s; q_blocked := q_blocked s ++ [x]; q_stopped := q_stopped s |}, Blocks)
       end.

(* the worker receives one element (a parked sender, if any, then completes its send) ... *)
Definition worker_receive (s : qstate) : qstate :=
  match q_held s, q_buf s with
  | None, e :: rest =>
      let '(buf', blocked') := match q_blocked s with
                               | b :: bs => (rest ++ [Data b], bs)
                               | [] => (rest, [])
                               end in
      match e with
      | Data x => {| q_cap := q_cap s; q_pol := q_pol s; q_buf := buf'; q_held := Some x; q_delivered := q_delivered s;
                     q_discard := q_discard s; q_blocked := blocked'; q_stopped := q_stopped s |}
      | Marker => {| q_cap := q_cap s; q_pol := q_pol s; q_buf := buf'; q_held := None; q_delivered := q_delivered s;
                     q_discard := q_discard s; q_blocked := blocked'; q_stopped := true |}
      end
  | _, _ => s
  end.

(* ... and hands the held item to the appenders *)
Definition worker_deliver (s : qstate) : qstate :=
  match q_held s with
  | Some x => {| q_cap := q_cap s; q_pol := q_pol s; q_buf := q_buf s; q_held := None; q_delivered := q_delivered s ++ [x];
                 q_discard := q_discard s; q_blocked := q_blocked s; q_stopped := q_stopped s |}
  | None => s
  end.

(* Stop with no log call in progress: the marker goes behind everything pending; the worker drains *)
Fixpoint drain (fuel : nat) (s : qstate) : qstate :=
  match fuel with
  | O => s
  | S f => if q_stopped s then s
           else match q_held s with
                | Some _ => drain f (worker_deliver s)
                | None => drain f (worker_receive s)
                end
  end.
Definition stop (s : qstate) : qstate :=
  (* the blocking send of the marker may itself have to wait for room: the worker makes room *)
  let s1 := if length (q_buf s) <? q_cap s then s else drain 2 s in
  drain (2 * (length (q_buf s1) + 2) + 2) (set_buf s1 (q_buf s1 ++ [Marker])).

Inductive aop := OSubmit (x : item) | OReceive | ODeliver | OStop.

Definition aseq_step (s : qstate) (o : aop) : qstate :=
  match o with
  | OSubmit x => fst (submit s x)
  | OReceive => worker_receive s
  | ODeliver => worker_deliver s
  | OStop => stop s
  end.
