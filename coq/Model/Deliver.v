(* Model of the delivery path of plugin_logger.go: AppenderRefs.sortByLevel, sendToAppenders,
   writeToAppenders, AppenderRef.Append, the logger kinds, and the rolling-file logger's split. *)
From LogV Require Export Model.Level.
Open Scope Z_scope.

Record aref := { ar_id : N; ar_min : Z; ar_max : Z }.
Definition ar_range (r : aref) : lrange := (ar_min r, ar_max r).
Definition set_max (r : aref) (m : Z) : aref := {| ar_id := ar_id r; ar_min := ar_min r; ar_max := m |}.

(* sort.Slice by MinLevel.code; the model sorts stably by insertion. The theorems show that the
   delivery outcome does not depend on how ties are ordered, which Go's unstable sort may change. *)
Fixpoint insert_ref (r : aref) (l : list aref) : list aref :=
  match l with
  | [] => [r]
  | x :: t => if ar_min r <? ar_min x then r :: l else x :: insert_ref r t
  end.
Definition sort_refs (l : list aref) : list aref := fold_right insert_ref [] l.

(* the chaining loop: an open-ended reference (max = MAX) ends at the first later reference
   whose lower bound is strictly greater *)
Fixpoint next_greater (m : Z) (rest : list aref) : option Z :=
  match rest with
  | [] => None
  | x :: t => if m <? ar_min x then Some (ar_min x) else next_greater m t
  end.

Fixpoint chain (l : list aref) : list aref :=
  match l with
  | [] => []
  | r :: rest =>
      (if ar_max r =? lvl_max
       then match next_greater (ar_min r) rest with Some m => set_max r m | None => r end
       else r) :: chain rest
  end.

Definition sort_by_level (refs : list aref) : list aref := chain (sort_refs refs).

(* what one event of level l causes: (appender id, delivered as raw bytes?) per delivery *)
Definition send_to_appenders (refs : list aref) (l : Z) : list (N * bool) :=
  flat_map (fun r => if enable (ar_range r) l            (* sendToAppenders *)
                     then (if enable (ar_range r) l      (* AppenderRef.Append *)
                           then [(ar_id r, false)] else [])
                     else []) refs.

Definition write_to_appenders (refs : list aref) (l : Z) : list (N * bool) :=
  flat_map (fun r => if enable (ar_range r) l then [(ar_id r, true)] else []) refs.

(* SyncLogger.Append, and what the AsyncLogger worker does with a dequeued event *)
Definition logger_append (lr : lrange) (has_layout : bool) (prepared : list aref) (l : Z) : list (N * bool) :=
  if enable lr l
  then (if has_layout then write_to_appenders prepared l else send_to_appenders prepared l)
  else [].

(* a Refresh-built Logger/AsyncLogger: references are sorted and chained once *)
Definition deliver_refs (refs : list aref) (lr : lrange) (has_layout : bool) (l : Z) : list (N * bool) :=
  logger_append lr has_layout (sort_by_level refs) l.

(* ConsoleLogger / FileLogger: own range, own sink (id 0) *)
Definition deliver_simple (lr : lrange) (l : Z) : list (N * bool) :=
  if enable lr l then [(0%N, false)] else [].

(* RollingFileLogger: file 0 = "<name>", file 1 = "<name>.wf" *)
Definition rolling_refs (lr : lrange) (separate : bool) : list aref :=
  {| ar_id := 0; ar_min := fst lr; ar_max := if separate then lvl_warn else lvl_max |} ::
  (if separate then [{| ar_id := 1; ar_min := lvl_warn; ar_max := snd lr |}] else []).

Definition deliver_rolling (lr : lrange) (separate has_layout : bool) (l : Z) : list (N * bool) :=
  logger_append lr has_layout (rolling_refs lr separate) l.

(* an entry point: gate at the entry, gate in record(), then the logger *)
Definition log_via (e : entry) (lr : lrange) (deliver : Z -> list (N * bool)) : list (N * bool) :=
  let l := entry_level e in
  if enable lr l then (if enable lr l then deliver l else []) else [].
