(* Model of the entry points and record() of log.go with respect to the context hooks and lazy
   field generators: which callbacks run, how often, in which order. *)
From LogV Require Export Model.Level.
Open Scope Z_scope.

Inductive callback := CGen | CTime | CCtxString | CCtxFields.
Record hookset := { hk_time : bool; hk_string : bool; hk_fields : bool }.

(* Trace and Debug take a lazy generator; its result is an argument of record(), so it is evaluated
   after the entry point's own level check and before record()'s *)
Definition is_lazy (e : entry) : bool := match e with ETrace | EDebug => true | _ => false end.

(* (callbacks invoked in order, event emitted?) *)
Definition log_call (lr : lrange) (hs : hookset) (e : entry) : list callback * bool :=
  let l := entry_level e in
  if enable lr l then                                   (* entry point: l.GetLevel().Enable(level) *)
    let t0 := if is_lazy e then [CGen] else [] in       (* fn()... *)
    if enable lr l then                                 (* record(): Step 1 *)
      (t0 ++ (if hk_time hs then [CTime] else [])       (* Step 3: TimeNow(ctx), else time.Now() *)
          ++ (if hk_string hs then [CCtxString] else [])   (* Step 4 *)
          ++ (if hk_fields hs then [CCtxFields] else []), true)
    else (t0, false)
  else ([], false).
