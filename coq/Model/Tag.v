(* Model of log_tag.go: isValidTag, BuildTag, the tag registry. Definitions only. *)
From LogV Require Export Base.Bytes.

Definition us : N := 95. (* '_' *)

Definition is_tag_char (c : N) : bool := is_lower c || is_digit c || (c =? us).

(* isValidTag, step by step as in the Go source *)
Definition is_valid_tag (tag : bytes) : bool :=
  if (length tag <? 3)%nat || (36 <? length tag)%nat then false
  else if negb (forallb is_tag_char tag) then false
  else
    let ss := split_on us (trim_prefix [us] tag) in
    if (length ss <? 1)%nat || (4 <? length ss)%nat then false
    else negb (existsb is_nil ss).

(* BuildTag(mainType, subType, action); None = panic("subType cannot be empty") *)
Definition build_tag (main sub action : bytes) : option bytes :=
  if is_nil sub then None
  else if is_nil action then Some (us :: main ++ us :: sub)
  else Some (us :: main ++ us :: sub ++ us :: action).

(* Registry: the set of registered names kept sorted (GetAllTags sorts the map keys);
   tag identity is the name itself (one *Tag per map key). *)
Record registry := { reg_init : bool; reg_tags : list bytes }.

Fixpoint insert_sorted (t : bytes) (l : list bytes) : list bytes :=
  match l with
  | [] => [t]
  | x :: r => if bytes_eqb t x then l
              else if bytes_ltb t x then t :: l
              else x :: insert_sorted t r
  end.

Inductive reg_out := RegOk (t : bytes) | RegPanicInit | RegPanicInvalid.

Definition register_tag (st : registry) (t : bytes) : registry * reg_out :=
  if reg_init st then (st, RegPanicInit)
  else if negb (is_valid_tag t) then (st, RegPanicInvalid)
  else ({| reg_init := false; reg_tags := insert_sorted t (reg_tags st) |}, RegOk t).

Definition all_tags (st : registry) : list bytes := reg_tags st.
