(* Model of raw writes: LoggerWrapper.Write, SyncLogger.Write / AsyncLogger.Write, the worker's []byte case,
   the handle registry (GetLogger) and the handle binding step of Refresh. *)
From LogV Require Export Model.Deliver.
Open Scope nat_scope.

(* writeRawToAppenders: every reference of the logger, whatever its level range *)
Definition deliver_raw (prepared : list aref) : list N := map ar_id prepared.
Definition write_raw_refs (refs : list aref) : list N := deliver_raw (sort_by_level refs).

(* a caller that recycles one buffer across writes, and an asynchronous logger *)
Inductive rop :=
| RSet (content : bytes)   (* the caller overwrites its buffer *)
| RWrite                   (* handle.Write(buf) *)
| RDeliver.                (* the worker hands one queued write to the appenders *)

Inductive qmode := QCopy | QAlias.   (* AsyncLogger.Write enqueues a copy / the caller's slice itself *)

Record rstate := {
  r_buf : bytes;               (* current content of the caller's buffer *)
  r_queue : list (option bytes);   (* Some snapshot (copy) or None = a reference to the caller's buffer *)
  r_out : list bytes;          (* what each appender has received, in order *)
  r_ret : list nat }.          (* the lengths reported to the caller *)

Definition r_init : rstate := {| r_buf := []; r_queue := []; r_out := []; r_ret := [] |}.

Definition rstep (m : qmode) (s : rstate) (o : rop) : rstate :=
  match o with
  | RSet c => {| r_buf := c; r_queue := r_queue s; r_out := r_out s; r_ret := r_ret s |}
  | RWrite => {| r_buf := r_buf s;
                 r_queue := r_queue s ++ [match m with QCopy => Some (r_buf s) | QAlias => None end];
                 r_out := r_out s; r_ret := r_ret s ++ [length (r_buf s)] |}
  | RDeliver => match r_queue s with
                | [] => s
                | e :: rest => {| r_buf := r_buf s; r_queue := rest;
                                  r_out := r_out s ++ [match e with Some b => b | None => r_buf s end]; r_ret := r_ret s |}
                end
  end.

Definition rrun (m : qmode) (ops : list rop) : rstate := fold_left (rstep m) ops r_init.
Definition drain_all (s : rstate) : rstate := fold_left (rstep QCopy) (map (fun _ => RDeliver) (r_queue s)) s.

(* handles: GetLogger is get-or-create; Refresh binds every registered handle to the logger of that name *)
Fixpoint bind_handles (handles : list bytes) (loggers : list bytes) : option (list bytes) :=
  match handles with
  | [] => Some []
  | h :: r => if contains_bytes h loggers
              then match bind_handles r loggers with Some b => Some (h :: b) | None => None end
              else None     (* "logger %s not found" *)
  end.
