(* Model of the caller lookup of record() (log.go) and FastCaller (caller.go): the skip arithmetic
   over the call stack, with the documented semantics of runtime.Caller / runtime.Callers. *)
From LogV Require Export Base.Bytes.
Open Scope nat_scope.

Definition frame := N.   (* an opaque program location (function + statement) *)

(* runtime.Caller(k), called from the function whose frame is the head of [stack]:
   0 = that function itself (the statement calling runtime.Caller), 1 = its caller, ... *)
Definition runtime_caller (stack : list frame) (k : nat) : option frame := nth_error stack k.

(* runtime.Callers(k, pc[:1]): 0 = Callers itself, 1 = the function calling Callers, ... *)
Definition runtime_callers (callers_frame : frame) (stack : list frame) (k : nat) : option frame :=
  nth_error (callers_frame :: stack) k.

(* the pc-keyed frame cache of FastCaller: a finite map from location to the frame recorded for it *)
Definition cache := list (frame * frame).
Fixpoint cache_get (c : cache) (pc : frame) : option frame :=
  match c with [] => None | (k, v) :: r => if N.eqb k pc then Some v else cache_get r pc end.

(* FastCaller(skip), called from [stack] (head = FastCaller's caller); returns the frame and the new cache *)
Definition fast_caller (fc_frame callers_frame : frame) (stack : list frame) (c : cache) (skip : nat) : option frame * cache :=
  match runtime_callers callers_frame (fc_frame :: stack) (skip + 2) with
  | None => (None, c)
  | Some pc => match cache_get c pc with
               | Some f => (Some f, c)
               | None => (Some pc, (pc, pc) :: c)      (* CallersFrames(pc).Next(): the frame of that pc *)
               end
  end.

(* record(ctx, level, tag, logger, skip, ...): Step 2.  [stack] = record :: entry point :: user :: ... *)
Definition record_location (enable_caller fast : bool) (fc_frame callers_frame : frame)
           (stack : list frame) (c : cache) (skip : nat) : option frame * cache :=
  if enable_caller then
    if fast then fast_caller fc_frame callers_frame stack c (skip + 1)
    else (runtime_caller stack (skip + 1), c)
  else (None, c).
