(* C15 - configuration resolution: log_reader.go (toCamelKey, toStorage), the operations of stdlib/flatten.Storage
   that Refresh and inject use (SplitPath, Set, Has, Get, RawData, SubKeys), plugin.go (PluginTag, injectAttribute,
   injectElement, inject, NewPlugin) and the configuration half of log_refresh.go (Refresh up to the point where
   the plugins are started). Byte strings, errors and panics are values. *)
From LogV Require Import Base.Bytes Base.Dec Base.Schema Model.Level Model.Expr Model.Tag Model.Route Gen.Params.
Open Scope N_scope.

(* ---------- toCamelKey ---------- *)
Fixpoint camel_loop (lowerNext upperNext : bool) (s : bytes) : bytes :=
  match s with
  | [] => []
  | c :: r =>
      if c =? 46 then c :: camel_loop true upperNext r
      else if (c =? 45) || (c =? 95) then camel_loop lowerNext true r
      else if lowerNext then to_lower c :: camel_loop false upperNext r
      else if upperNext then to_upper c :: camel_loop false false r
      else c :: camel_loop false false r
  end.
Definition to_camel_key (s : bytes) : bytes :=
  match s with [] => [] | c :: r => to_lower c :: camel_loop false false r end.

(* ---------- flatten.SplitPath ---------- *)
Inductive pelem := PKey (s : bytes) | PIdx (s : bytes).
Definition pelem_eqb (a b : pelem) : bool :=
  match a, b with PKey x, PKey y => bytes_eqb x y | PIdx x, PIdx y => bytes_eqb x y | _, _ => false end.
Definition same_type (a b : pelem) : bool :=
  match a, b with PKey _, PKey _ => true | PIdx _, PIdx _ => true | _, _ => false end.
Definition elem_bytes (a : pelem) : bytes := match a with PKey s => s | PIdx s => s end.

Definition two64N : N := 18446744073709551616.
(* strconv.ParseUint(s, 10, 64) succeeds *)
Definition is_uint64_dec (s : bytes) : bool := negb (is_nil s) && forallb is_digit s && (parse_digits s <? two64N).

(* seg is the current segment, reversed *)
Definition append_key (acc : list pelem) (seg : bytes) : option (list pelem) :=
  if is_nil seg then None else Some (PKey (rev seg) :: acc).
Definition append_index (acc : list pelem) (seg : bytes) : option (list pelem) :=
  if is_uint64_dec (rev seg) then Some (PIdx (rev seg) :: acc) else None.

(* acc reversed; last = the previous character (46 '.', 91 '[', 93 ']', anything else); first = at position 0 *)
Fixpoint split_loop (s : bytes) (acc : list pelem) (seg : bytes) (last : N) (opened first : bool) : option (list pelem) :=
  match s with
  | [] =>
      if opened then None
      else if last =? 46 then None
      else if last =? 93 then Some (rev acc)
      else match append_key acc seg with Some a => Some (rev a) | None => None end
  | c :: r =>
      if c =? 32 then None
      else if c =? 46 then
        if opened then None
        else if last =? 46 then None
        else if last =? 93 then split_loop r acc [] 46 false false
        else match append_key acc seg with Some a => split_loop r a [] 46 false false | None => None end
      else if c =? 91 then
        if opened then None
        else if last =? 46 then None
        else if negb first && negb (last =? 93) then
          match append_key acc seg with Some a => split_loop r a [] 91 true false | None => None end
        else split_loop r acc [] 91 true false
      else if c =? 93 then
        if negb opened then None
        else if is_nil seg then None
        else match append_index acc seg with Some a => split_loop r a [] 93 false false | None => None end
      else
        if last =? 93 then None
        else split_loop r acc (c :: seg) (if (c =? 46) || (c =? 91) || (c =? 93) then 0 else c) opened false
  end.
(* the initial lastChar is rune 0, which is none of the three special characters *)
Definition split_path (key : bytes) : option (list pelem) :=
  if is_nil key then None else split_loop key [] [] 0 false true.

(* ---------- flatten.Storage ---------- *)
Record sentry := { e_key : bytes; e_path : list pelem; e_val : bytes }.
Definition storage := list sentry.

(* two stored paths can coexist in the tree: neither is a proper prefix of the other, and where they part the
   two elements have the same type (all children of a node - and of the root - share one type) *)
Fixpoint compat (p q : list pelem) : bool :=
  match p, q with
  | [], [] => true
  | [], _ :: _ => false
  | _ :: _, [] => false
  | a :: p', b :: q' => if pelem_eqb a b then compat p' q' else same_type a b
  end.

Fixpoint upsert (st : storage) (k : bytes) (p : list pelem) (v : bytes) : storage :=
  match st with
  | [] => [{| e_key := k; e_path := p; e_val := v |}]
  | e :: r => if bytes_eqb (e_key e) k then {| e_key := k; e_path := p; e_val := v |} :: r else e :: upsert r k p v
  end.

Definition st_set (st : storage) (k v : bytes) : option storage :=
  match split_path k with
  | None => None
  | Some p => if forallb (fun e => compat p (e_path e)) st then Some (upsert st k p v) else None
  end.

Fixpoint st_raw (st : storage) (k : bytes) : option bytes :=
  match st with [] => None | e :: r => if bytes_eqb (e_key e) k then Some (e_val e) else st_raw r k end.

(* values that Set files under `empty` instead of `data`: "[]", "{}", "<nil>" *)
Definition is_marker (v : bytes) : bool :=
  bytes_eqb v [91; 93] || bytes_eqb v [123; 125] || bytes_eqb v [60; 110; 105; 108; 62].

(* Get(key, def): only `data` is consulted *)
Definition st_get (st : storage) (k def : bytes) : bytes :=
  match st_raw st k with Some v => if is_marker v then def else v | None => def end.

Fixpoint is_prefix (p q : list pelem) : bool :=
  match p, q with
  | [], _ => true
  | a :: p', b :: q' => pelem_eqb a b && is_prefix p' q'
  | _ :: _, [] => false
  end.

Definition st_has (st : storage) (k : bytes) : bool :=
  match split_path k with
  | Some p => existsb (fun e => is_prefix p (e_path e)) st
  | None => false
  end.

(* SubKeys(name) for a one-segment key, as Refresh calls it: None = error *)
Definition children_of (st : storage) (name : bytes) : list bytes :=
  fold_right (fun e acc => match e_path e with
                           | PKey n :: x :: _ => if bytes_eqb n name then insert_sorted (elem_bytes x) acc else acc
                           | _ => acc end) [] st.
Definition sub_keys1 (st : storage) (name : bytes) : option (list bytes) :=
  match st with
  | [] => Some []
  | e0 :: _ =>
      match st_raw st name with
      | Some v => if is_marker v then Some [] else None
      | None => match e_path e0 with
                | PIdx _ :: _ => None
                | _ => Some (children_of st name)
                end
      end
  end.

(* ---------- toStorage ---------- *)
Definition expand_entry (kv : bytes * bytes) : option (list (bytes * bytes)) :=
  let ck := to_camel_key (fst kv) in
  match drop_suffix [33] ck with
  | Some k' =>
      match parse (snd kv) with
      | POk m => Some (map (fun kv2 => (k' ++ 46 :: to_camel_key (fst kv2), snd kv2)) m)
      | PNil => Some []
      | PErr => None
      end
  | None => Some [(ck, snd kv)]
  end.
Fixpoint expand_all (m : list (bytes * bytes)) : option (list (bytes * bytes)) :=
  match m with
  | [] => Some []
  | kv :: r => match expand_entry kv, expand_all r with Some a, Some b => Some (a ++ b) | _, _ => None end
  end.
Fixpoint set_all (st : storage) (kvs : list (bytes * bytes)) : option storage :=
  match kvs with
  | [] => Some st
  | (k, v) :: r => match st_set st k v with Some st' => set_all st' r | None => None end
  end.
Definition to_storage (m : list (bytes * bytes)) : option storage :=
  match expand_all m with Some kvs => set_all [] kvs | None => None end.

(* ---------- PluginTag ---------- *)
Definition tag_first (tag : bytes) : bytes := hd [] (split_on 44 tag).
Fixpoint tag_lookup_in (kvs : list bytes) (key : bytes) : option bytes :=
  match kvs with
  | [] => None
  | kv :: r => match split_on 61 kv with
               | [a; b] => if bytes_eqb a key then Some b else tag_lookup_in r key
               | _ => None
               end
  end.
Definition tag_lookup (tag key : bytes) : option bytes := tag_lookup_in (tl (split_on 44 tag)) key.
Definition k_default : bytes := [100; 101; 102; 97; 117; 108; 116].
Definition k_name : bytes := [110; 97; 109; 101].

(* ---------- strconv ---------- *)
Definition lower (c : N) : N := N.lor c 32.
Definition digit_val (c : N) : option N :=
  if is_digit c then Some (c - 48)
  else if (97 <=? lower c) && (lower c <=? 122) then Some (lower c - 97 + 10)
  else None.
(* the digit loop of ParseUint: None = syntax error; underscores are skipped when base0 *)
Fixpoint digits_val (base : N) (base0 : bool) (s : bytes) (n : N) : option N :=
  match s with
  | [] => Some n
  | c :: r =>
      if (c =? 95) && base0 then digits_val base base0 r n
      else match digit_val c with
           | Some d => if d <? base then digits_val base base0 r (n * base + d) else None
           | None => None
           end
  end.
(* underscoreOK *)
Fixpoint us_loop (hex : bool) (s : bytes) (saw : N) : bool :=
  match s with
  | [] => negb (saw =? 95)
  | c :: r =>
      if is_digit c || (hex && (97 <=? lower c) && (lower c <=? 102)) then us_loop hex r 48
      else if c =? 95 then (saw =? 48) && us_loop hex r 95
      else if saw =? 95 then false
      else us_loop hex r 33
  end.
Definition is_base_letter (c : N) : bool := (lower c =? 98) || (lower c =? 111) || (lower c =? 120).
Definition underscore_ok (s : bytes) : bool :=
  let s := match s with c :: r => if (c =? 45) || (c =? 43) then r else s | [] => s end in
  match s with
  | 48 :: c :: r => if is_base_letter c then us_loop (lower c =? 120) r 48 else us_loop false s 94
  | _ => us_loop false s 94
  end.
Definition has_underscore (s : bytes) : bool := existsb (fun c => c =? 95) s.
(* ParseUint(s, 0, bits): the numeral's value, None on syntax or range error *)
Definition parse_uint0 (s : bytes) (bits : N) : option N :=
  if is_nil s then None
  else
    let '(base, body) :=
      match s with
      | 48 :: c1 :: c2 :: r =>
          if lower c1 =? 98 then (2, c2 :: r) else if lower c1 =? 111 then (8, c2 :: r)
          else if lower c1 =? 120 then (16, c2 :: r) else (8, c1 :: c2 :: r)
      | 48 :: r => (8, r)
      | _ => (10, s)
      end in
    match digits_val base true body 0 with
    | None => None
    | Some n => if has_underscore body && negb (underscore_ok s) then None
                else if n <? 2 ^ bits then Some n else None
    end.
(* ParseInt(s, 0, bits) *)
Definition parse_int0 (s : bytes) (bits : N) : option Z :=
  match s with
  | [] => None
  | c :: r =>
      let neg := c =? 45 in
      let body := if (c =? 45) || (c =? 43) then r else s in
      match parse_uint0 body 64 with
      | None => None
      | Some n =>
          let cutoff := 2 ^ (bits - 1) in
          if neg then (if n <=? cutoff then Some (- Z.of_N n)%Z else None)
          else (if n <? cutoff then Some (Z.of_N n) else None)
      end
  end.
Definition str_true : list bytes := [[49]; [116]; [84]; [84; 82; 85; 69]; [116; 114; 117; 101]; [84; 114; 117; 101]].
Definition str_false : list bytes := [[48]; [102]; [70]; [70; 65; 76; 83; 69]; [102; 97; 108; 115; 101]; [70; 97; 108; 115; 101]].
Definition parse_bool (s : bytes) : option bool :=
  if contains_bytes s str_true then Some true else if contains_bytes s str_false then Some false else None.

(* ---------- values ---------- *)
Inductive pval :=
| PVStr (s : bytes) | PVBool (b : bool) | PVInt (z : Z) | PVRange (lo hi : Z) | PVPolicy (n : Z) | PVRot (interval : Z)
| PVPlugin (gotype : bytes) (fields : list (bytes * pval)) | PVSlice (l : list pval) | PVNil.

Inductive res (A : Type) := COk (a : A) | CErr | CPanic | CFuel.
Arguments COk {A}. Arguments CErr {A}. Arguments CPanic {A}. Arguments CFuel {A}.
Definition bind {A B} (r : res A) (f : A -> res B) : res B :=
  match r with COk a => f a | CErr => CErr | CPanic => CPanic | CFuel => CFuel end.
Definition of_opt {A} (o : option A) : res A := match o with Some a => COk a | None => CErr end.

(* the registries the conversion consults *)
Record env := { env_levels : list (bytes * Z); env_rotations : list (bytes * Z); env_plugins : list plugin }.

Fixpoint lookup_rot (l : list (bytes * Z)) (s : bytes) : option Z :=
  match l with [] => None | (n, i) :: r => if bytes_eqb n s then Some i else lookup_rot r s end.
Definition s_block : bytes := [66; 108; 111; 99; 107].
Definition s_discard : bytes := [68; 105; 115; 99; 97; 114; 100].
Definition s_discard_oldest : bytes := s_discard ++ [79; 108; 100; 101; 115; 116].
Definition parse_policy (s : bytes) : option Z :=
  if bytes_eqb s s_block then Some 0%Z else if bytes_eqb s s_discard then Some 1%Z else if bytes_eqb s s_discard_oldest then Some 2%Z else None.

Definition convert (E : env) (k : akind) (v : bytes) : res pval :=
  match k with
  | KRange => match parse_range (env_levels E) v with Some (lo, hi) => COk (PVRange lo hi) | None => CErr end
  | KPolicy => match parse_policy v with Some p => COk (PVPolicy p) | None => CErr end
  | KRotation => match lookup_rot (env_rotations E) v with Some i => COk (PVRot i) | None => CErr end
  | KUint b => match parse_uint0 v b with Some n => COk (PVInt (Z.of_N n)) | None => CErr end
  | KInt b => match parse_int0 v b with Some z => COk (PVInt z) | None => CErr end
  | KBool => match parse_bool v with Some b => COk (PVBool b) | None => CErr end
  | KString => COk (PVStr v)
  | KOther => CErr
  end.

(* ---------- injectAttribute ---------- *)
Definition dot_join (a b : bytes) : bytes := a ++ 46 :: b.
Definition last_segment (prefix : bytes) : bytes := last (split_on 46 prefix) [].

(* ${key}: the slice val[2:len-1] is an explicit panic site *)
Definition substitute (st : storage) (val : bytes) : res bytes :=
  let v := go_trim_space val in
  if has_prefix [36; 123] v && has_suffix [125] v then
    if (length v <? 3)%nat then CPanic
    else of_opt (st_raw st (to_camel_key (removelast (skipn 2 v))))
  else COk v.

Definition inject_attribute (E : env) (tag : bytes) (k : akind) (prefix : bytes) (st : storage) : res pval :=
  let name := tag_first tag in
  if is_nil name then CErr
  else if bytes_eqb name k_name then
    match k with KString => COk (PVStr (last_segment prefix)) | _ => CPanic end
  else
    let key := dot_join prefix (to_camel_key name) in
    match (match st_raw st key with Some v => Some v | None => tag_lookup tag k_default end) with
    | None => CErr
    | Some v => bind (substitute st v) (convert E k)
    end.

(* ---------- injectElement / inject / NewPlugin ---------- *)
Fixpoint find_plugin (ps : list plugin) (ptype name : bytes) : option plugin :=
  match ps with
  | [] => None
  | p :: r => if bytes_eqb (pl_type p) ptype && bytes_eqb (pl_name p) name then Some p else find_plugin r ptype name
  end.

Definition k_type_suffix : bytes := [46; 116; 121; 112; 101].      (* ".type" *)
Definition def_marker : bytes := [58; 100; 101; 102; 58].          (* ":def:" *)
Definition idx_key (elemKey : bytes) (i : nat) : bytes := elemKey ++ 91 :: fmt_uint (N.of_nat i) ++ [93].

(* the default list of a slice element: "A;B" sets elemKey[0].type = A, elemKey[1].type = B; returns the count *)
Fixpoint set_defaults (st : storage) (elemKey : bytes) (items : list bytes) (idx : nat) : res (storage * nat) :=
  match items with
  | [] => COk (st, idx)
  | it :: r =>
      let tc := go_trim_space it in
      if is_nil tc then set_defaults st elemKey r idx
      else match st_set st (idx_key elemKey idx ++ k_type_suffix) tc with
           | Some st' => set_defaults st' elemKey r (S idx)
           | None => CErr
           end
  end.

Section Inject.
  Context (E : env).
  (* NewPlugin for a schema, one level of fuel below *)
  Context (new_plugin : plugin -> bytes -> storage -> res (storage * pval)).

  Definition elem_plugin (elemType : bytes) (st : storage) (key : bytes) : res plugin :=
    let strType := st_get st (key ++ k_type_suffix) def_marker in
    of_opt (find_plugin (env_plugins E) (to_camel_key elemType) (if bytes_eqb strType def_marker then elemType else strType)).

  Fixpoint slice_loop (n : nat) (i : nat) (elemType elemKey : bytes) (st : storage) (acc : list pval) : res (storage * list pval) :=
    match n with
    | O => CFuel
    | S n' =>
        let subKey := idx_key elemKey i in
        if negb (st_has st subKey) then COk (st, rev acc)
        else bind (elem_plugin elemType st subKey) (fun p =>
             bind (new_plugin p subKey st) (fun r =>
             slice_loop n' (S i) elemType elemKey (fst r) (snd r :: acc)))
    end.

  Definition inject_slice (tag prefix : bytes) (st : storage) : res (storage * pval) :=
    let first := tag_first tag in
    if is_nil first then CErr
    else
      let elemType := trim_suffix [63] first in
      let nullable := has_suffix [63] first in
      let elemKey := dot_join prefix (to_camel_key elemType) in
      let prepared : res (option storage) :=
        if negb (st_has st elemKey) && negb (st_has st (idx_key elemKey 0)) then
          match tag_lookup tag k_default with
          | None => if nullable then COk None else CErr
          | Some d => bind (set_defaults st elemKey (split_on 59 d) 0) (fun r => if Nat.eqb (snd r) 0 then CErr else COk (Some (fst r)))
          end
        else COk (Some st) in
      bind prepared (fun o =>
        match o with
        | None => COk (st, PVNil)
        | Some st1 =>
            if st_has st1 (idx_key elemKey 0) then
              bind (slice_loop (S (length st1)) 0 elemType elemKey st1 []) (fun r => COk (fst r, PVSlice (snd r)))
            else if st_has st1 elemKey then
              bind (elem_plugin elemType st1 elemKey) (fun p =>
              bind (new_plugin p elemKey st1) (fun r => COk (fst r, PVSlice [snd r])))
            else COk (st1, PVSlice [])
        end).

  Definition inject_iface (tag prefix : bytes) (st : storage) : res (storage * pval) :=
    let first := tag_first tag in
    if is_nil first then CErr
    else
      let elemType := trim_suffix [63] first in
      let nullable := has_suffix [63] first in
      let elemKey := dot_join prefix (to_camel_key elemType) in
      let strType : res (option bytes) :=
        if st_has st elemKey then
          match st_raw st (elemKey ++ k_type_suffix) with Some v => COk (Some v) | None => CErr end
        else match tag_lookup tag k_default with
             | None => if nullable then COk None else CErr
             | Some l => COk (Some l)
             end in
      bind strType (fun o =>
        match o with
        | None => COk (st, PVNil)
        | Some ty =>
            bind (of_opt (find_plugin (env_plugins E) (to_camel_key elemType) ty)) (fun p =>
            new_plugin p elemKey st)
        end).

  Fixpoint inject_fields (fs : schema) (prefix : bytes) (st : storage) (acc : list (bytes * pval)) : res (storage * list (bytes * pval)) :=
    match fs with
    | [] => COk (st, rev acc)
    | FAttr fname tag k :: r =>
        bind (inject_attribute E tag k prefix st) (fun v => inject_fields r prefix st ((fname, v) :: acc))
    | FElemIface fname tag :: r =>
        bind (inject_iface tag prefix st) (fun x => inject_fields r prefix (fst x) ((fname, snd x) :: acc))
    | FElemSlice fname tag :: r =>
        bind (inject_slice tag prefix st) (fun x => inject_fields r prefix (fst x) ((fname, snd x) :: acc))
    | FElemOther fname tag :: r =>
        CErr
    end.
End Inject.

Fixpoint new_plugin (fuel : nat) (E : env) (p : plugin) (prefix : bytes) (st : storage) : res (storage * pval) :=
  match fuel with
  | O => CFuel
  | S f => bind (inject_fields E (new_plugin f E) (pl_schema p) prefix st [])
                (fun r => COk (fst r, PVPlugin (pl_gotype p) (snd r)))
  end.

(* nesting is bounded by the number of registered plugins unless a plugin (transitively) contains itself *)
Definition plugin_fuel (E : env) : nat := S (length (env_plugins E)).

(* VerifNewPlugin: toStorage, registry lookup, NewPlugin *)
Definition new_plugin_from_map (E : env) (ptype name prefix : bytes) (m : list (bytes * bytes)) : res pval :=
  match to_storage m with
  | None => CErr
  | Some st => bind (of_opt (find_plugin (env_plugins E) ptype name)) (fun p =>
               bind (new_plugin (plugin_fuel E) E p prefix st) (fun r => COk (snd r)))
  end.

(* ---------- Refresh (configuration half) ---------- *)
Definition s_appender : bytes := [97; 112; 112; 101; 110; 100; 101; 114].
Definition s_logger : bytes := [108; 111; 103; 103; 101; 114].
Definition s_tags : bytes := [84; 97; 103; 115].                       (* field Tags *)
Definition s_refs : bytes := [65; 112; 112; 101; 110; 100; 101; 114; 82; 101; 102; 115].  (* field AppenderRefs *)
Definition s_ref : bytes := [82; 101; 102].                           (* field Ref *)
Definition s_buffer_size : bytes := [66; 117; 102; 102; 101; 114; 83; 105; 122; 101]. (* field BufferSize *)
Definition s_async_write : bytes := [65; 115; 121; 110; 99; 87; 114; 105; 116; 101]. (* field AsyncWrite *)
Definition s_async_logger : bytes := [65; 115; 121; 110; 99; 76; 111; 103; 103; 101; 114]. (* Go type AsyncLogger *)
Definition s_rolling_logger : bytes := [82; 111; 108; 108; 105; 110; 103; 70; 105; 108; 101; 76; 111; 103; 103; 101; 114]. (* RollingFileLogger *)

Fixpoint field_of (fs : list (bytes * pval)) (n : bytes) : option pval :=
  match fs with [] => None | (k, v) :: r => if bytes_eqb k n then Some v else field_of r n end.
Definition pfields (v : pval) : list (bytes * pval) := match v with PVPlugin _ fs => fs | _ => [] end.
Definition pgotype (v : pval) : bytes := match v with PVPlugin t _ => t | _ => [] end.

(* newPlugin(typ, typeKey) of Refresh *)
Definition top_plugin (E : env) (ptype section name : bytes) (st : storage) : res (storage * pval) :=
  let prefix := dot_join section name in
  let typeKey := prefix ++ k_type_suffix in
  if negb (st_has st typeKey) then CErr
  else bind (of_opt (find_plugin (env_plugins E) ptype (st_get st typeKey []))) (fun p =>
       new_plugin (plugin_fuel E) E p prefix st).

Fixpoint create_all (E : env) (ptype section : bytes) (names : list bytes) (st : storage) (acc : list (bytes * pval))
  : res (storage * list (bytes * pval)) :=
  match names with
  | [] => COk (st, rev acc)
  | n :: r => bind (top_plugin E ptype section n st) (fun x => create_all E ptype section r (fst x) ((n, snd x) :: acc))
  end.

(* initAppenderRefs: every reference of a logger that has an AppenderRefs field names a configured appender *)
Definition refs_of (lg : pval) : list bytes :=
  match field_of (pfields lg) s_refs with
  | Some (PVSlice l) => map (fun r => match field_of (pfields r) s_ref with Some (PVStr s) => s | _ => [] end) l
  | _ => []
  end.
Definition refs_resolve (apps : list (bytes * pval)) (lg : pval) : bool :=
  forallb (fun r => existsb (fun a => bytes_eqb (fst a) r) apps) (refs_of lg).

Definition tags_of (lg : pval) : bytes := match field_of (pfields lg) s_tags with Some (PVStr s) => s | _ => [] end.

(* the tag rules of Refresh, through the C02 model: logger ids are positions in the list *)
Fixpoint logger_cfgs (ls : list (bytes * pval)) (i : N) : list logger_cfg :=
  match ls with
  | [] => []
  | (n, v) :: r => {| lg_id := i; lg_is_root := bytes_eqb n root_logger_name; lg_tags := tags_of v |} :: logger_cfgs r (i + 1)
  end.

Definition max_async_buffer : Z := 16777216.   (* maxAsyncBufferSize = 1 << 24 *)
(* Start: the only start-up failure that is pure logic is the async buffer-size window [100, 1<<24]; opening files is the OS *)
Definition start_ok (lg : pval) : bool :=
  let fs := pfields lg in
  let small := match field_of fs s_buffer_size with Some (PVInt z) => (z <? 100)%Z || (max_async_buffer <? z)%Z | _ => false end in
  if bytes_eqb (pgotype lg) s_async_logger then negb small
  else if bytes_eqb (pgotype lg) s_rolling_logger then
    match field_of fs s_async_write with Some (PVBool true) => negb small | _ => true end
  else true.

(* property injection: enableCaller, fastCaller (ParseBool), bufferCap (ParseHumanizeBytes); empty values are skipped *)
Definition p_enable_caller : bytes := [101; 110; 97; 98; 108; 101; 67; 97; 108; 108; 101; 114].
Definition p_fast_caller : bytes := [102; 97; 115; 116; 67; 97; 108; 108; 101; 114].
Definition p_buffer_cap : bytes := [98; 117; 102; 102; 101; 114; 67; 97; 112].
Definition two63N : N := 9223372036854775808.
Definition humanize_ok (s : bytes) : bool :=
  let num := take_while is_digit s in
  let rest := map to_upper (go_trim_space (drop_while is_digit s)) in
  negb (is_nil num) && (parse_digits num <? two63N)
  && (bytes_eqb rest [66] || bytes_eqb rest [75; 66] || bytes_eqb rest [77; 66]).
Definition bool_prop_ok (st : storage) (k : bytes) : bool :=
  let v := st_get st (to_camel_key k) [] in
  is_nil v || match parse_bool v with Some _ => true | None => false end.
Definition props_ok (st : storage) : bool :=
  bool_prop_ok st p_enable_caller && bool_prop_ok st p_fast_caller
  && (let v := st_get st (to_camel_key p_buffer_cap) [] in is_nil v || humanize_ok v).
Definition modelled_properties : list bytes := [p_buffer_cap; p_enable_caller; p_fast_caller].

Record outcome := { o_appenders : list (bytes * pval); o_loggers : list (bytes * pval) }.

(* handles = the names GetLogger has been called with; files_ok = the OS lets every configured file be opened *)
Definition refresh (E : env) (handles : list bytes) (m : list (bytes * bytes)) : res outcome :=
  match to_storage m with
  | None => CErr
  | Some st =>
  match sub_keys1 st s_appender with
  | None => CErr
  | Some [] => CErr
  | Some anames =>
  match sub_keys1 st s_logger with
  | None => CErr
  | Some lnames =>
      bind (create_all E s_appender s_appender anames st []) (fun ra =>
      let apps := snd ra in
      bind (create_all E s_logger s_logger lnames (fst ra) []) (fun rl =>
      let logs := snd rl in
      if negb (forallb (fun l => refs_resolve apps (snd l)) logs) then CErr
      else match refresh_tags (logger_cfgs logs 0) [] None with
           | inl _ => CErr
           | inr _ =>
               if negb (forallb (fun l => start_ok (snd l)) logs) then CErr
               else if negb (forallb (fun h => bytes_eqb h root_logger_name || existsb (fun l => bytes_eqb (fst l) h) logs) handles) then CErr
               else if negb (props_ok (fst rl)) then CErr
               else COk {| o_appenders := apps; o_loggers := logs |}
           end))
  end end end.
