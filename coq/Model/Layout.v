(* Model of plugin_layout.go: GetFileLine, TextLayout.ToBytes, JSONLayout.ToBytes. *)
From LogV Require Export Model.Encoder.
Open Scope N_scope.

(* civil time fields as time.Format("2006-01-02T15:04:05.000") prints them *)
Record ctime := { t_year : N; t_month : N; t_day : N; t_hour : N; t_min : N; t_sec : N; t_ms : N }.

Definition pad2 (n : N) : bytes := [48 + (n / 10) mod 10; 48 + n mod 10].
Definition pad3 (n : N) : bytes := [48 + (n / 100) mod 10; 48 + (n / 10) mod 10; 48 + n mod 10].
Definition pad4 (n : N) : bytes := [48 + (n / 1000) mod 10; 48 + (n / 100) mod 10; 48 + (n / 10) mod 10; 48 + n mod 10].

Definition time_str (t : ctime) : bytes :=
  pad4 (t_year t) ++ [45] ++ pad2 (t_month t) ++ [45] ++ pad2 (t_day t) ++ [84] ++
  pad2 (t_hour t) ++ [58] ++ pad2 (t_min t) ++ [58] ++ pad2 (t_sec t) ++ [46] ++ pad3 (t_ms t).

Record event := {
  ev_level : bytes;          (* Level.Name() *)
  ev_time : ctime;
  ev_file : bytes;
  ev_line : Z;
  ev_tag : bytes;
  ev_ctx_string : bytes;
  ev_ctx_fields : list field;
  ev_fields : list field }.

Definition lastn (n : nat) (s : bytes) : bytes := skipn (length s - n) s.

(* GetFileLine: file:line, shown as "..." + its last max(W-3,0) bytes when longer than W *)
Definition get_file_line (w : Z) (file : bytes) (line : Z) : bytes :=
  let fl := file ++ [58] ++ fmt_int line in
  if (w <? Z.of_nat (length fl))%Z
  then [46; 46; 46] ++ lastn (Z.to_nat (Z.max (w - 3) 0)) fl
  else fl.

Definition k_level : bytes := [108; 101; 118; 101; 108].
Definition k_time : bytes := [116; 105; 109; 101].
Definition k_file_line : bytes := [102; 105; 108; 101; 76; 105; 110; 101].
Definition k_tag : bytes := [116; 97; 103].
Definition k_ctx_string : bytes := [99; 116; 120; 83; 116; 114; 105; 110; 103].

Definition json_headers (w : Z) (e : event) : list field :=
  [ (k_level, VStr (map to_lower (ev_level e)));
    (k_time, VStr (time_str (ev_time e)));
    (k_file_line, VStr (get_file_line w (ev_file e) (ev_line e)));
    (k_tag, VStr (ev_tag e)) ] ++
  (if is_nil (ev_ctx_string e) then [] else [(k_ctx_string, VStr (ev_ctx_string e))]).

(* JSONLayout.ToBytes *)
Definition json_layout (w : Z) (e : event) : bytes :=
  let l0 := TObjBegin in                                  (* AppendEncoderBegin: '{' from TUnknown *)
  let '(o1, l1) := jfields l0 (json_headers w e) in
  let '(o2, l2) := jfields l1 (ev_ctx_fields e) in
  let '(o3, _) := jfields l2 (ev_fields e) in
  123 :: o1 ++ o2 ++ o3 ++ [125; 10].

(* TextLayout.ToBytes *)
Definition text_header (w : Z) (e : event) : bytes :=
  [91] ++ map to_upper (ev_level e) ++ [93; 91] ++ time_str (ev_time e) ++ [93; 91] ++
  get_file_line w (ev_file e) (ev_line e) ++ [93; 32] ++ ev_tag e ++ sep2 ++
  (if is_nil (ev_ctx_string e) then [] else escape (ev_ctx_string e) ++ sep2).   (* escaped like every other caller-supplied text *)

Definition text_layout (w : Z) (e : event) : bytes :=
  let '(o1, h1) := tfields false (ev_ctx_fields e) in
  let '(o2, _) := tfields h1 (ev_fields e) in
  text_header w e ++ o1 ++ o2 ++ [10].
