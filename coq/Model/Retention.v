(* Model of RollingFileAppender.clearExpiredFiles (plugin_appender.go). *)
From LogV Require Export Base.Bytes.
Open Scope Z_scope.

Record dirent := { de_name : bytes; de_kind : N  (* 0 regular file, 1 directory, 2 anything else (symlink, ...) *);
                   de_mtime : Z  (* seconds *) }.

Definition dot : N := 46%N.

(* isRotationSuffix: 14 bytes, all decimal digits ("20060102150405") *)
Definition is_rotation_suffix (s : bytes) : bool := (length s =? 14)%nat && forallb is_digit s.

(* MaxAge hours as a time.Duration (int64 nanoseconds): beyond this many hours the product overflows, and the scan
   returns without deleting anything (about 292 years: no file is that old) *)
Definition max_age_fit : Z := 2562047.
Definition age_fits (max_age : Z) : bool := Z.abs max_age <=? max_age_fit.

(* the test applied to one directory entry: true = os.Remove *)
Definition deletes (file_name : bytes) (max_age now : Z) (e : dirent) : bool :=
  age_fits max_age &&
  (de_kind e =? 0)%N &&
  match drop_prefix (file_name ++ [dot]) (de_name e) with
  | Some suffix => is_rotation_suffix suffix
  | None => false
  end &&
  (de_mtime e <? now - max_age * 3600).

(* survivors, in directory order *)
Definition clear_expired (file_name : bytes) (max_age now : Z) (dir : list dirent) : list dirent :=
  filter (fun e => negb (deletes file_name max_age now e)) dir.

(* ---- histories: between cleanup passes of ONE appender the world writes to, touches, creates entries ---- *)
Record phase := { ph_now : Z  (* the clock at the pass *);
                  ph_set : list dirent  (* entries written / touched / created since the previous pass (name -> new state) *) }.

Definition named (n : bytes) (l : list dirent) : bool := existsb (fun e => bytes_eqb (de_name e) n) l.

(* the directory as the pass finds it: what is left of the old listing, overridden by the changes *)
Definition apply_updates (dir upd : list dirent) : list dirent :=
  filter (fun e => negb (named (de_name e) upd)) dir ++ upd.

Definition pass (file_name : bytes) (max_age : Z) (dir : list dirent) (p : phase) : list dirent :=
  clear_expired file_name max_age (ph_now p) (apply_updates dir (ph_set p)).

Definition run_phases (file_name : bytes) (max_age : Z) (dir : list dirent) (ps : list phase) : list dirent :=
  fold_left (pass file_name max_age) ps dir.
