(* Model of the tag-routing part of Refresh (log_refresh.go): tag-list parsing and validation,
   the first-come tag map with its conflict rule, and findLoggerForTag. *)
From LogV Require Export Base.Bytes Model.Level.
Open Scope N_scope.

Definition us : N := 95.     (* '_' *)
Definition star : N := 42.   (* '*' *)
Definition comma : N := 44.  (* ',' *)

Fixpoint mem_byte (c : N) (s : bytes) : bool := match s with [] => false | x :: r => (x =? c) || mem_byte c r end.

Inductive tag_err := ErrBadWildcard | ErrNoTags | ErrRootTags | ErrConflict.

(* the loop over strings.SplitSeq(tags, ","): trim, drop empties, a tag containing '*' must end in "_*" *)
Fixpoint parse_tag_items (items : list bytes) : tag_err + list bytes :=
  match items with
  | [] => inr []
  | it :: rest =>
      let t := trim_space it in
      if is_nil t then parse_tag_items rest
      else if mem_byte star t && negb (has_suffix [us; star] t) then inl ErrBadWildcard
      else match parse_tag_items rest with
           | inl e => inl e
           | inr ts => inr (t :: ts)
           end
  end.
Definition parse_tags (s : bytes) : tag_err + list bytes := parse_tag_items (split_on comma s).

Fixpoint lookup_tag (m : list (bytes * N)) (t : bytes) : option N :=
  match m with
  | [] => None
  | (k, v) :: r => if bytes_eqb k t then Some v else lookup_tag r t
  end.

(* cTags[strTag] = logger, refusing a tag already mapped to a different logger *)
Fixpoint bind_tags (lg : N) (ts : list bytes) (m : list (bytes * N)) : tag_err + list (bytes * N) :=
  match ts with
  | [] => inr m
  | t :: rest =>
      match lookup_tag m t with
      | Some l => if l =? lg then bind_tags lg rest m else inl ErrConflict
      | None => bind_tags lg rest ((t, lg) :: m)
      end
  end.

Record logger_cfg := { lg_id : N; lg_is_root : bool; lg_tags : bytes }.

(* the logger loop of Refresh as far as tags are concerned; returns the tag map and the root logger
   (None = the built-in default logger) *)
Fixpoint refresh_tags (ls : list logger_cfg) (m : list (bytes * N)) (root : option N)
  : tag_err + (list (bytes * N) * option N) :=
  match ls with
  | [] => inr (m, root)
  | lg :: rest =>
      if lg_is_root lg then
        if negb (is_nil (lg_tags lg)) then inl ErrRootTags
        else refresh_tags rest m (Some (lg_id lg))
      else match parse_tags (lg_tags lg) with
           | inl e => inl e
           | inr [] => inl ErrNoTags
           | inr ts => match bind_tags (lg_id lg) ts m with
                       | inl e => inl e
                       | inr m' => refresh_tags rest m' root
                       end
           end
  end.

(* strings.LastIndex(s, "_") : position of the last '_' *)
Fixpoint last_index (c : N) (s : bytes) : option nat :=
  match s with
  | [] => None
  | x :: r => match last_index c r with
              | Some i => Some (S i)
              | None => if x =? c then Some O else None
              end
  end.

(* findLoggerForTag; None = the root logger (configured root or built-in default) *)
Fixpoint find_logger (fuel : nat) (m : list (bytes * N)) (tag : bytes) : option N :=
  match fuel with
  | O => None
  | S f =>
      match lookup_tag m tag with
      | Some l => Some l
      | None =>
          let t := trim_suffix [us; star] tag in          (* CutSuffix(tag, "_*") *)
          match last_index us t with
          | None => None                                  (* i = -1 *)
          | Some O => None                                (* i = 0 *)
          | Some i => find_logger f m (trim_suffix [us] (firstn i t) ++ [us; star])
          end
      end
  end.

Definition route (m : list (bytes * N)) (tag : bytes) : option N := find_logger (S (length tag)) m tag.
