(* Model of log_level.go: LevelRange.Enable, ParseLevelRange. *)
From LogV Require Export Base.Bytes Gen.Params.
Open Scope Z_scope.

Definition lrange := (Z * Z)%type. (* [min, max) over level codes *)

Definition enable (r : lrange) (l : Z) : bool := (fst r <=? l) && (l <? snd r).

Definition is_space (c : N) : bool := ((9 <=? c) && (c <=? 13))%N || (c =? 32)%N.

Fixpoint trim_left (s : bytes) : bytes :=
  match s with c :: r => if is_space c then trim_left r else s | [] => [] end.
Definition trim_space (s : bytes) : bytes := rev (trim_left (rev (trim_left s))).

Fixpoint lookup_level (reg : list (bytes * Z)) (name : bytes) : option Z :=
  match reg with
  | [] => None
  | (n, c) :: r => if bytes_eqb n name then Some c else lookup_level r name
  end.

Definition tilde : N := 126%N.

(* ParseLevelRange: outer TrimSpace only, split on "~", names upper-cased, third and later parts ignored *)
Definition parse_range (reg : list (bytes * Z)) (s : bytes) : option lrange :=
  let s := trim_space s in
  if is_nil s then Some (lvl_none, lvl_max)
  else match split_on tilde s with
       | [] => None
       | a :: rest =>
           match lookup_level reg (map to_upper a) with
           | None => None
           | Some mn =>
               match rest with
               | [b] => match lookup_level reg (map to_upper b) with
                        | Some mx => Some (mn, mx)
                        | None => None
                        end
               | _ => Some (mn, lvl_max)
               end
           end
       end.

(* the 15 entry points and the level each one emits at *)
Inductive entry :=
| ETrace | ETracef | EDebug | EDebugf | EInfo | EInfof | EWarn | EWarnf
| EError | EErrorf | EPanic | EPanicf | EFatal | EFatalf | ERecord (l : Z).

Definition entry_level (e : entry) : Z :=
  match e with
  | ETrace | ETracef => lvl_trace
  | EDebug | EDebugf => lvl_debug
  | EInfo | EInfof => lvl_info
  | EWarn | EWarnf => lvl_warn
  | EError | EErrorf => lvl_error
  | EPanic | EPanicf => lvl_panic
  | EFatal | EFatalf => lvl_fatal
  | ERecord l => l
  end.
