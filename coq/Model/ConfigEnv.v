(* C15 - the environment regenerated from the running code, and a minimal configuration for each registered
   logger and appender type. *)
From LogV Require Import Base.Bytes Base.Schema Model.Config Gen.Params Gen.Schema.
Open Scope N_scope.

Definition gen_env : env := {| env_levels := builtin_levels; env_rotations := rotations; env_plugins := plugins |}.

Definition s_x : bytes := [120].
Definition sample_value (k : akind) : bytes :=
  match k with
  | KString => s_x
  | KBool => [116; 114; 117; 101]
  | KInt _ | KUint _ => [49]
  | KRange => []
  | KPolicy => s_block
  | KRotation => match rotations with (n, _) :: _ => n | [] => s_x end
  | KOther => s_x
  end.

(* the keys a plugin needs under `prefix` to be instantiable: attributes without default, elements without default *)
Fixpoint required (fuel : nat) (p : plugin) (prefix : bytes) : list (bytes * bytes) :=
  match fuel with
  | O => []
  | S f =>
      flat_map (fun d =>
        match d with
        | FAttr _ tag k =>
            if bytes_eqb (tag_first tag) k_name then []
            else match tag_lookup tag k_default with
                 | Some _ => []
                 | None => [(dot_join prefix (tag_first tag), sample_value k)]
                 end
        | FElemIface _ tag | FElemSlice _ tag =>
            let first := tag_first tag in
            if has_suffix [63] first then []
            else match tag_lookup tag k_default with
                 | Some _ => []
                 | None =>
                     let key := dot_join prefix first in
                     (key ++ k_type_suffix, first) ::
                     match find_plugin plugins (to_camel_key first) first with
                     | Some q => required f q key
                     | None => []
                     end
                 end
        | FElemOther _ _ => []
        end) (pl_schema p)
  end.

Definition s_a : bytes := [97].
Definition s_l : bytes := [108].
Definition s_console : bytes := [67; 111; 110; 115; 111; 108; 101].
Definition s_tags_key : bytes := [116; 97; 103; 115].
Definition s_tag_t : bytes := [95; 116; 116].    (* _tt *)

(* reference attributes must name the configured appender `a` *)
Definition fix_ref (kv : bytes * bytes) : bytes * bytes :=
  if has_suffix [46; 114; 101; 102] (fst kv) then (fst kv, s_a) else kv.

Definition minimal_cfg (p : plugin) : list (bytes * bytes) :=
  if bytes_eqb (pl_type p) s_appender then
    (dot_join (dot_join s_appender s_a) [116; 121; 112; 101], pl_name p) :: required 3 p (dot_join s_appender s_a)
  else
    (dot_join (dot_join s_appender s_a) [116; 121; 112; 101], s_console) ::
    (dot_join (dot_join s_logger s_l) [116; 121; 112; 101], pl_name p) ::
    (dot_join (dot_join s_logger s_l) s_tags_key, s_tag_t) ::
    map fix_ref (required 3 p (dot_join s_logger s_l)).

Definition top_level_plugins : list plugin :=
  filter (fun p => bytes_eqb (pl_type p) s_appender || bytes_eqb (pl_type p) s_logger) plugins.

Definition is_ok {A} (r : res A) : bool := match r with COk _ => true | _ => false end.
Definition all_instantiable : bool := forallb (fun p => is_ok (refresh gen_env [] (minimal_cfg p))) top_level_plugins.
