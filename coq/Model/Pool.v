(* Model of the layout buffer pool (plugin_layout.go: GetBuffer / PutBuffer / ToBytes) and of what a
   synchronous appender hands to its sink, for any number of goroutines. sync.Pool promises nothing about
   which buffer Get returns: the model lets Get return ANY pooled buffer or a fresh one. *)
From LogV Require Export Base.Bytes.
Open Scope nat_scope.

Inductive outref :=
| Private (b : bytes)     (* ToBytes returned its own copy of the bytes (the code after fix d59291c) *)
| Alias (buf : nat).      (* ToBytes returned buf.Bytes() of a buffer that is already back in the pool *)

(* where a goroutine is while logging event e (whose line, formatted alone, is line e) *)
Inductive tpc :=
| TGet (e : nat)                   (* about to call GetBuffer *)
| TFill (e : nat) (buf : nat)      (* owns buf (reset), about to format into it *)
| THave (e : nat) (buf : nat)      (* buf holds the formatted line; about to return from ToBytes *)
| TOut (e : nat) (o : outref)      (* ToBytes has returned (deferred PutBuffer done); about to Write to the sink *)
| TDone.

Inductive retmode := RetCopy | RetAlias.

Record pstate := {
  p_heap : nat -> bytes;       (* contents of every buffer *)
  p_pool : list nat;           (* buffers in the pool *)
  p_next : nat;                (* next fresh buffer id *)
  p_thr : nat -> tpc;          (* goroutines *)
  p_sink : list (nat * bytes)  (* what the sink received: (event, bytes), one entry per Write call *)
}.

Definition updf {A} (f : nat -> A) (k : nat) (v : A) : nat -> A := fun q => if Nat.eqb q k then v else f q.

Section Steps.
  Variable line : nat -> bytes.      (* the line an event produces when formatted alone *)
  Variable mode : retmode.
  Variable cap_ok : nat -> bool.     (* PutBuffer only pools buffers whose capacity is within BufferCap *)

  Definition read (s : pstate) (o : outref) : bytes := match o with Private b => b | Alias buf => p_heap s buf end.

  Inductive pstep : pstate -> pstate -> Prop :=
  | ps_get_pooled s t e b l1 l2 : p_thr s t = TGet e -> p_pool s = l1 ++ b :: l2 ->
      pstep s {| p_heap := updf (p_heap s) b []; p_pool := l1 ++ l2; p_next := p_next s; p_thr := updf (p_thr s) t (TFill e b); p_sink := p_sink s |}
  | ps_get_fresh s t e : p_thr s t = TGet e ->
      pstep s {| p_heap := updf (p_heap s) (p_next s) []; p_pool := p_pool s; p_next := S (p_next s);
                 p_thr := updf (p_thr s) t (TFill e (p_next s)); p_sink := p_sink s |}
  | ps_fill s t e b : p_thr s t = TFill e b ->
      pstep s {| p_heap := updf (p_heap s) b (line e); p_pool := p_pool s; p_next := p_next s; p_thr := updf (p_thr s) t (THave e b); p_sink := p_sink s |}
  | ps_return s t e b : p_thr s t = THave e b ->
      pstep s {| p_heap := p_heap s; p_pool := if cap_ok b then b :: p_pool s else p_pool s; p_next := p_next s;
                 p_thr := updf (p_thr s) t (TOut e (match mode with RetCopy => Private (p_heap s b) | RetAlias => Alias b end));
                 p_sink := p_sink s |}
  | ps_sink s t e o : p_thr s t = TOut e o ->    (* however much later: the sink reads the bytes now *)
      pstep s {| p_heap := p_heap s; p_pool := p_pool s; p_next := p_next s; p_thr := updf (p_thr s) t TDone;
                 p_sink := p_sink s ++ [(e, read s o)] |}.

  Inductive preach (s0 : pstate) : pstate -> Prop :=
  | pr_refl : preach s0 s0
  | pr_step s s' : preach s0 s -> pstep s s' -> preach s0 s'.
End Steps.

Definition p_start (events : nat -> option nat) : pstate :=
  {| p_heap := fun _ => []; p_pool := []; p_next := 0;
     p_thr := fun t => match events t with Some e => TGet e | None => TDone end; p_sink := [] |}.
