(* Model of the lifecycle: Refresh / Destroy / logging through tags and named handles / registration
   (log_refresh.go, log_logger.go, log_tag.go, getLogger in log.go). *)
From LogV Require Export Base.Bytes.
Open Scope nat_scope.

Inductive cfg := CfgA | CfgB | CfgW.    (* valid configurations; in CfgW the logger serving the tag is restricted to levels WARN and above *)
Definition accepts (c : cfg) (hi : bool) : bool := match c with CfgW => hi | _ => true end.
Inductive lop :=
| ORefresh (c : cfg)        (* a valid configuration *)
| ORefreshEarly             (* invalid: fails before the once-guard (e.g. no appenders section) *)
| ORefreshLate              (* invalid: fails after plugins were started (e.g. a handle name is not configured) *)
| ODestroy
| OLog (hi : bool)          (* log through a registered tag; hi = the level is WARN or above *)
| OWrite                    (* write through a named handle *)
| OWriteRoot                (* write through the handle named root, none of the configurations defines a root logger *)
| ORegisterTag
| OGetLogger.

Inductive lout :=
| RefreshOk | RefreshErr
| Done
| ToConfig (c : cfg)        (* the event / bytes reached the sink of the live configuration *)
| ToConsole                 (* ... the built-in console logger *)
| Filtered                  (* dropped by the level range of the live configuration's logger *)
| Registered | Refused.     (* registration succeeded / was refused (panic "log refresh already done") *)

Record lstate := {
  l_init : bool;               (* global.init *)
  l_tag : option cfg;          (* what the tag is bound to (None = default logger) *)
  l_handle : option cfg;       (* what the handle is bound to *)
  l_running : option cfg }.    (* whose loggers / appenders are started *)

Definition l_start : lstate := {| l_init := false; l_tag := None; l_handle := None; l_running := None |}.

Definition lstep (s : lstate) (o : lop) : lstate * lout :=
  match o with
  | ORefresh c =>
      if l_init s then (s, RefreshErr)             (* "log refresh already done": nothing is touched *)
      else ({| l_init := true; l_tag := Some c; l_handle := Some c; l_running := Some c |}, RefreshOk)
  | ORefreshEarly => (s, RefreshErr)               (* returns before global.init is set (also when already initialised) *)
  | ORefreshLate =>
      if l_init s then (s, RefreshErr)
      else (* plugins were started and some bindings made, then everything is rolled back *)
        ({| l_init := false; l_tag := None; l_handle := None; l_running := None |}, RefreshErr)
  | ODestroy =>
      if l_init s then ({| l_init := false; l_tag := None; l_handle := None; l_running := None |}, Done)
      else (s, Done)
  | OLog hi => (s, match l_tag s with Some c => if accepts c hi then ToConfig c else Filtered | None => ToConsole end)
  | OWrite => (s, match l_handle s with Some c => ToConfig c | None => ToConsole end)
  | OWriteRoot => (s, ToConsole)                   (* bound to the root logger = the built-in console logger, or unbound: console either way *)
  | ORegisterTag => (s, if l_init s then Refused else Registered)
  | OGetLogger => (s, if l_init s then Refused else Registered)
  end.

Fixpoint lrun (s : lstate) (ops : list lop) : lstate * list lout :=
  match ops with
  | [] => (s, [])
  | o :: r => let '(s1, x) := lstep s o in let '(s2, xs) := lrun s1 r in (s2, x :: xs)
  end.
