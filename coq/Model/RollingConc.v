(* C13 - the rolling file appender as an interleaving transition system: any number of goroutines inside
   RollingFileAppender.Write / rotate (plugin_appender.go), every atomic load / store / CAS / swap a separate step, the
   clock advancing at any moment. File creation may fail at any rotation (cs_create_fail: C19's fault, under every interleaving).
   Time is counted in rotation intervals (Rotation.Time): nowTime = the clock value read.
   Ghost state (not in the code) names rotations: a rotation is identified by the order of its successful CAS; it is
   `complete` once it has stored the new current file. *)
From LogV Require Export Base.Bytes.
From Coq Require Import ZArith.
Open Scope nat_scope.

Definition payload := (nat * nat)%type.            (* (goroutine, sequence number of its Write call) *)

Inductive rpc :=
| RIdle                                             (* outside Write *)
| RGotTime (now : Z)                                (* now := time.Now() read *)
| RLoadedCurr (now oldt : Z)                        (* oldTime := currTime.Load(); nowTime > oldTime *)
| RWon (id : nat) (now : Z)                         (* CompareAndSwap succeeded: this goroutine performs rotation id *)
| RClosedOld (id : nat) (now : Z)                   (* oldFile.Swap(nil) done, that file synced and closed *)
| RCreated (id : nat) (now : Z) (f : nat)           (* createFile returned descriptor f *)
| RLoadedFile (id : nat) (now : Z) (f o : nat)      (* oldFile := c.file.Load() *)
| RStoredOld (id : nat) (now : Z) (f : nat)         (* c.oldFile.Store(oldFile) *)
| RStoredFile (id : nat) (now : Z)                  (* c.file.Store(file): the rotation is complete *)
| RToWrite                                          (* rotate() returned *)
| RHolding (f : nat) (d0 : nat -> bool).            (* file := c.file.Load(); d0 = the rotations complete at that moment (ghost) *)

Record cst := {
  c_clk : Z;                        (* the clock, in intervals *)
  c_curr : Z;                       (* currTime *)
  c_file : nat;                     (* c.file (never nil between Start and Stop) *)
  c_old : option nat;               (* c.oldFile *)
  c_nfiles : nat;                   (* descriptors handed out so far *)
  c_fname : nat -> Z;               (* the time in the name of the file a descriptor refers to *)
  c_fopen : nat -> bool;            (* descriptor not yet closed *)
  c_fdata : nat -> list (payload * Z);   (* what was written through the descriptor, with the clock at the write *)
  c_thr : nat -> rpc;
  c_seq : nat -> nat;               (* Write calls completed per goroutine *)
  c_lost : list payload;            (* writes that hit a closed descriptor (EBADF, ignored by the code) *)
  (* ghost *)
  c_started : nat;                  (* rotations started (successful CAS) *)
  c_done : nat -> bool;             (* rotations that have stored their new current file *)
  c_movers : nat -> nat -> bool;    (* movers f j: rotation j loaded f as the file to retire *)
  c_storers : nat -> nat -> bool;   (* storers f j: rotation j stored f into oldFile *)
  c_closer : nat -> option nat;     (* the rotation that closed f *)
  c_old_by : option nat             (* the rotation that stored the present value of oldFile *)
}.

Definition updf {A} (f : nat -> A) (k : nat) (v : A) : nat -> A := fun q => if Nat.eqb q k then v else f q.
Definition updf2 (f : nat -> nat -> bool) (k j : nat) : nat -> nat -> bool :=
  fun q r => if Nat.eqb q k && Nat.eqb r j then true else f q r.

Definition set_thr (s : cst) (t : nat) (p : rpc) : cst :=
  {| c_clk := c_clk s; c_curr := c_curr s; c_file := c_file s; c_old := c_old s; c_nfiles := c_nfiles s; c_fname := c_fname s;
     c_fopen := c_fopen s; c_fdata := c_fdata s; c_thr := updf (c_thr s) t p; c_seq := c_seq s; c_lost := c_lost s;
     c_started := c_started s; c_done := c_done s; c_movers := c_movers s; c_storers := c_storers s; c_closer := c_closer s; c_old_by := c_old_by s |}.

Inductive cstep : cst -> cst -> Prop :=
| cs_tick s d : (0 < d)%Z ->
    cstep s {| c_clk := c_clk s + d; c_curr := c_curr s; c_file := c_file s; c_old := c_old s; c_nfiles := c_nfiles s; c_fname := c_fname s;
               c_fopen := c_fopen s; c_fdata := c_fdata s; c_thr := c_thr s; c_seq := c_seq s; c_lost := c_lost s;
               c_started := c_started s; c_done := c_done s; c_movers := c_movers s; c_storers := c_storers s; c_closer := c_closer s; c_old_by := c_old_by s |}
| cs_begin s t : c_thr s t = RIdle -> cstep s (set_thr s t (RGotTime (c_clk s)))
| cs_load_curr_skip s t now : c_thr s t = RGotTime now -> (now <= c_curr s)%Z -> cstep s (set_thr s t RToWrite)
| cs_load_curr s t now : c_thr s t = RGotTime now -> (c_curr s < now)%Z -> cstep s (set_thr s t (RLoadedCurr now (c_curr s)))
| cs_cas_fail s t now oldt : c_thr s t = RLoadedCurr now oldt -> c_curr s <> oldt -> cstep s (set_thr s t RToWrite)
| cs_cas s t now oldt : c_thr s t = RLoadedCurr now oldt -> c_curr s = oldt ->
    cstep s {| c_clk := c_clk s; c_curr := now; c_file := c_file s; c_old := c_old s; c_nfiles := c_nfiles s; c_fname := c_fname s;
               c_fopen := c_fopen s; c_fdata := c_fdata s; c_thr := updf (c_thr s) t (RWon (c_started s) now); c_seq := c_seq s; c_lost := c_lost s;
               c_started := S (c_started s); c_done := c_done s; c_movers := c_movers s; c_storers := c_storers s; c_closer := c_closer s; c_old_by := c_old_by s |}
| cs_swap_none s t id now : c_thr s t = RWon id now -> c_old s = None -> cstep s (set_thr s t (RClosedOld id now))
| cs_swap_close s t id now o : c_thr s t = RWon id now -> c_old s = Some o ->
    cstep s {| c_clk := c_clk s; c_curr := c_curr s; c_file := c_file s; c_old := None; c_nfiles := c_nfiles s; c_fname := c_fname s;
               c_fopen := updf (c_fopen s) o false; c_fdata := c_fdata s; c_thr := updf (c_thr s) t (RClosedOld id now); c_seq := c_seq s; c_lost := c_lost s;
               c_started := c_started s; c_done := c_done s; c_movers := c_movers s; c_storers := c_storers s;
               c_closer := (if c_fopen s o then updf (c_closer s) o (Some id) else c_closer s); c_old_by := None |}
| cs_create s t id now : c_thr s t = RClosedOld id now ->
    cstep s {| c_clk := c_clk s; c_curr := c_curr s; c_file := c_file s; c_old := c_old s; c_nfiles := S (c_nfiles s); c_fname := updf (c_fname s) (c_nfiles s) now;
               c_fopen := updf (c_fopen s) (c_nfiles s) true; c_fdata := c_fdata s; c_thr := updf (c_thr s) t (RCreated id now (c_nfiles s)); c_seq := c_seq s; c_lost := c_lost s;
               c_started := c_started s; c_done := c_done s; c_movers := c_movers s; c_storers := c_storers s; c_closer := c_closer s; c_old_by := c_old_by s |}
| cs_create_fail s t id now : c_thr s t = RClosedOld id now ->      (* createFile returned an error: rotate() reports it and returns *)
    cstep s (set_thr s t RToWrite)
| cs_load_file s t id now f : c_thr s t = RCreated id now f ->
    cstep s {| c_clk := c_clk s; c_curr := c_curr s; c_file := c_file s; c_old := c_old s; c_nfiles := c_nfiles s; c_fname := c_fname s;
               c_fopen := c_fopen s; c_fdata := c_fdata s; c_thr := updf (c_thr s) t (RLoadedFile id now f (c_file s)); c_seq := c_seq s; c_lost := c_lost s;
               c_started := c_started s; c_done := c_done s; c_movers := updf2 (c_movers s) (c_file s) id; c_storers := c_storers s; c_closer := c_closer s; c_old_by := c_old_by s |}
| cs_store_old s t id now f o : c_thr s t = RLoadedFile id now f o ->
    cstep s {| c_clk := c_clk s; c_curr := c_curr s; c_file := c_file s; c_old := Some o; c_nfiles := c_nfiles s; c_fname := c_fname s;
               c_fopen := c_fopen s; c_fdata := c_fdata s; c_thr := updf (c_thr s) t (RStoredOld id now f); c_seq := c_seq s; c_lost := c_lost s;
               c_started := c_started s; c_done := c_done s; c_movers := c_movers s; c_storers := updf2 (c_storers s) o id; c_closer := c_closer s; c_old_by := Some id |}
| cs_store_file s t id now f : c_thr s t = RStoredOld id now f ->
    cstep s {| c_clk := c_clk s; c_curr := c_curr s; c_file := f; c_old := c_old s; c_nfiles := c_nfiles s; c_fname := c_fname s;
               c_fopen := c_fopen s; c_fdata := c_fdata s; c_thr := updf (c_thr s) t (RStoredFile id now); c_seq := c_seq s; c_lost := c_lost s;
               c_started := c_started s; c_done := updf (c_done s) id true; c_movers := c_movers s; c_storers := c_storers s; c_closer := c_closer s; c_old_by := c_old_by s |}
| cs_store_curr s t id now : c_thr s t = RStoredFile id now ->
    cstep s {| c_clk := c_clk s; c_curr := now; c_file := c_file s; c_old := c_old s; c_nfiles := c_nfiles s; c_fname := c_fname s;
               c_fopen := c_fopen s; c_fdata := c_fdata s; c_thr := updf (c_thr s) t RToWrite; c_seq := c_seq s; c_lost := c_lost s;
               c_started := c_started s; c_done := c_done s; c_movers := c_movers s; c_storers := c_storers s; c_closer := c_closer s; c_old_by := c_old_by s |}
| cs_load s t : c_thr s t = RToWrite -> cstep s (set_thr s t (RHolding (c_file s) (c_done s)))
| cs_write_ok s t f d0 : c_thr s t = RHolding f d0 -> c_fopen s f = true ->
    cstep s {| c_clk := c_clk s; c_curr := c_curr s; c_file := c_file s; c_old := c_old s; c_nfiles := c_nfiles s; c_fname := c_fname s;
               c_fopen := c_fopen s; c_fdata := updf (c_fdata s) f (c_fdata s f ++ [((t, c_seq s t), c_clk s)]); c_thr := updf (c_thr s) t RIdle;
               c_seq := updf (c_seq s) t (S (c_seq s t)); c_lost := c_lost s;
               c_started := c_started s; c_done := c_done s; c_movers := c_movers s; c_storers := c_storers s; c_closer := c_closer s; c_old_by := c_old_by s |}
| cs_write_lost s t f d0 : c_thr s t = RHolding f d0 -> c_fopen s f = false ->
    cstep s {| c_clk := c_clk s; c_curr := c_curr s; c_file := c_file s; c_old := c_old s; c_nfiles := c_nfiles s; c_fname := c_fname s;
               c_fopen := c_fopen s; c_fdata := c_fdata s; c_thr := updf (c_thr s) t RIdle;
               c_seq := updf (c_seq s) t (S (c_seq s t)); c_lost := c_lost s ++ [(t, c_seq s t)];
               c_started := c_started s; c_done := c_done s; c_movers := c_movers s; c_storers := c_storers s; c_closer := c_closer s; c_old_by := c_old_by s |}.

Inductive creach (s0 : cst) : cst -> Prop :=
| cr_refl : creach s0 s0
| cr_step s s' : creach s0 s -> cstep s s' -> creach s0 s'.

(* right after Start at clock value t0: one open file named t0, every goroutine outside Write *)
Definition c_start (t0 : Z) : cst :=
  {| c_clk := t0; c_curr := t0; c_file := 0; c_old := None; c_nfiles := 1; c_fname := fun _ => t0; c_fopen := fun f => Nat.eqb f 0;
     c_fdata := fun _ => []; c_thr := fun _ => RIdle; c_seq := fun _ => 0; c_lost := [];
     c_started := 0; c_done := fun _ => false; c_movers := fun _ _ => false; c_storers := fun _ _ => false; c_closer := fun _ => None; c_old_by := None |}.

(* the rotation carried by a program counter, if it has not yet stored the new current file *)
Definition rot_of (p : rpc) : option nat :=
  match p with
  | RWon id _ | RClosedOld id _ | RCreated id _ _ | RLoadedFile id _ _ _ | RStoredOld id _ _ => Some id
  | _ => None
  end.
(* the descriptor a rotating goroutine has created and not yet published *)
Definition fresh_of (p : rpc) : option nat :=
  match p with RCreated _ _ f | RLoadedFile _ _ f _ | RStoredOld _ _ f => Some f | _ => None end.

(* ---- the same steps as a function: what goroutine t does next is determined by the state ---- *)
Inductive act := ATick (d : Z) | AStep (t : nat) | AFail (t : nat)  (* goroutine t is at createFile and the call fails *).

Definition with_thr_curr (s : cst) (t : nat) (p : rpc) (curr : Z) : cst :=
  {| c_clk := c_clk s; c_curr := curr; c_file := c_file s; c_old := c_old s; c_nfiles := c_nfiles s; c_fname := c_fname s;
     c_fopen := c_fopen s; c_fdata := c_fdata s; c_thr := updf (c_thr s) t p; c_seq := c_seq s; c_lost := c_lost s;
     c_started := c_started s; c_done := c_done s; c_movers := c_movers s; c_storers := c_storers s; c_closer := c_closer s; c_old_by := c_old_by s |}.

Definition exec (s : cst) (a : act) : option cst :=
  match a with
  | ATick d =>
      if (0 <? d)%Z then
        Some {| c_clk := c_clk s + d; c_curr := c_curr s; c_file := c_file s; c_old := c_old s; c_nfiles := c_nfiles s; c_fname := c_fname s;
                c_fopen := c_fopen s; c_fdata := c_fdata s; c_thr := c_thr s; c_seq := c_seq s; c_lost := c_lost s;
                c_started := c_started s; c_done := c_done s; c_movers := c_movers s; c_storers := c_storers s; c_closer := c_closer s; c_old_by := c_old_by s |}
      else None
  | AStep t =>
      match c_thr s t with
      | RIdle => Some (set_thr s t (RGotTime (c_clk s)))
      | RGotTime now => if (now <=? c_curr s)%Z then Some (set_thr s t RToWrite) else Some (set_thr s t (RLoadedCurr now (c_curr s)))
      | RLoadedCurr now oldt =>
          if (c_curr s =? oldt)%Z then
            Some {| c_clk := c_clk s; c_curr := now; c_file := c_file s; c_old := c_old s; c_nfiles := c_nfiles s; c_fname := c_fname s;
                    c_fopen := c_fopen s; c_fdata := c_fdata s; c_thr := updf (c_thr s) t (RWon (c_started s) now); c_seq := c_seq s; c_lost := c_lost s;
                    c_started := S (c_started s); c_done := c_done s; c_movers := c_movers s; c_storers := c_storers s; c_closer := c_closer s; c_old_by := c_old_by s |}
          else Some (set_thr s t RToWrite)
      | RWon id now =>
          match c_old s with
          | None => Some (set_thr s t (RClosedOld id now))
          | Some o =>
              Some {| c_clk := c_clk s; c_curr := c_curr s; c_file := c_file s; c_old := None; c_nfiles := c_nfiles s; c_fname := c_fname s;
                      c_fopen := updf (c_fopen s) o false; c_fdata := c_fdata s; c_thr := updf (c_thr s) t (RClosedOld id now); c_seq := c_seq s; c_lost := c_lost s;
                      c_started := c_started s; c_done := c_done s; c_movers := c_movers s; c_storers := c_storers s;
                      c_closer := (if c_fopen s o then updf (c_closer s) o (Some id) else c_closer s); c_old_by := None |}
          end
      | RClosedOld id now =>
          Some {| c_clk := c_clk s; c_curr := c_curr s; c_file := c_file s; c_old := c_old s; c_nfiles := S (c_nfiles s); c_fname := updf (c_fname s) (c_nfiles s) now;
                  c_fopen := updf (c_fopen s) (c_nfiles s) true; c_fdata := c_fdata s; c_thr := updf (c_thr s) t (RCreated id now (c_nfiles s)); c_seq := c_seq s; c_lost := c_lost s;
                  c_started := c_started s; c_done := c_done s; c_movers := c_movers s; c_storers := c_storers s; c_closer := c_closer s; c_old_by := c_old_by s |}
      | RCreated id now f =>
          Some {| c_clk := c_clk s; c_curr := c_curr s; c_file := c_file s; c_old := c_old s; c_nfiles := c_nfiles s; c_fname := c_fname s;
                  c_fopen := c_fopen s; c_fdata := c_fdata s; c_thr := updf (c_thr s) t (RLoadedFile id now f (c_file s)); c_seq := c_seq s; c_lost := c_lost s;
                  c_started := c_started s; c_done := c_done s; c_movers := updf2 (c_movers s) (c_file s) id; c_storers := c_storers s; c_closer := c_closer s; c_old_by := c_old_by s |}
      | RLoadedFile id now f o =>
          Some {| c_clk := c_clk s; c_curr := c_curr s; c_file := c_file s; c_old := Some o; c_nfiles := c_nfiles s; c_fname := c_fname s;
                  c_fopen := c_fopen s; c_fdata := c_fdata s; c_thr := updf (c_thr s) t (RStoredOld id now f); c_seq := c_seq s; c_lost := c_lost s;
                  c_started := c_started s; c_done := c_done s; c_movers := c_movers s; c_storers := updf2 (c_storers s) o id; c_closer := c_closer s; c_old_by := Some id |}
      | RStoredOld id now f =>
          Some {| c_clk := c_clk s; c_curr := c_curr s; c_file := f; c_old := c_old s; c_nfiles := c_nfiles s; c_fname := c_fname s;
                  c_fopen := c_fopen s; c_fdata := c_fdata s; c_thr := updf (c_thr s) t (RStoredFile id now); c_seq := c_seq s; c_lost := c_lost s;
                  c_started := c_started s; c_done := updf (c_done s) id true; c_movers := c_movers s; c_storers := c_storers s; c_closer := c_closer s; c_old_by := c_old_by s |}
      | RStoredFile id now => Some (with_thr_curr s t RToWrite now)
      | RToWrite => Some (set_thr s t (RHolding (c_file s) (c_done s)))
      | RHolding f d0 =>
          if c_fopen s f then
            Some {| c_clk := c_clk s; c_curr := c_curr s; c_file := c_file s; c_old := c_old s; c_nfiles := c_nfiles s; c_fname := c_fname s;
                    c_fopen := c_fopen s; c_fdata := updf (c_fdata s) f (c_fdata s f ++ [((t, c_seq s t), c_clk s)]); c_thr := updf (c_thr s) t RIdle;
                    c_seq := updf (c_seq s) t (S (c_seq s t)); c_lost := c_lost s;
                    c_started := c_started s; c_done := c_done s; c_movers := c_movers s; c_storers := c_storers s; c_closer := c_closer s; c_old_by := c_old_by s |}
          else
            Some {| c_clk := c_clk s; c_curr := c_curr s; c_file := c_file s; c_old := c_old s; c_nfiles := c_nfiles s; c_fname := c_fname s;
                    c_fopen := c_fopen s; c_fdata := c_fdata s; c_thr := updf (c_thr s) t RIdle;
                    c_seq := updf (c_seq s) t (S (c_seq s t)); c_lost := c_lost s ++ [(t, c_seq s t)];
                    c_started := c_started s; c_done := c_done s; c_movers := c_movers s; c_storers := c_storers s; c_closer := c_closer s; c_old_by := c_old_by s |}
      end
  | AFail t =>
      match c_thr s t with
      | RClosedOld _ _ => Some (set_thr s t RToWrite)
      | _ => None
      end
  end.

Fixpoint run (s : cst) (l : list act) : option cst :=
  match l with [] => Some s | a :: r => match exec s a with Some s' => run s' r | None => None end end.

(* one complete Write call of goroutine t, executed without interference (at most 11 steps) *)
Definition steps (t n : nat) : list act := repeat (AStep t) n.
