(* Model of field_encoder.go: the JSON encoder's separator state machine, the text encoder,
   Field.Encode / EncodeFields. Encoders are writers: (bytes emitted, new state). *)
From LogV Require Export Model.Field Model.Escape.
Open Scope N_scope.

Inductive jtoken := TUnknown | TObjBegin | TObjEnd | TArrBegin | TArrEnd | TKey | TValue.

(* appendSeparator *)
Definition sep (last : jtoken) : bytes :=
  match last with TObjEnd | TArrEnd | TValue => [44] | _ => [] end.

Definition dq (s : bytes) : bytes := 34 :: escape s ++ [34].
Definition bool_tok (b : bool) : bytes := if b then [116; 114; 117; 101] else [102; 97; 108; 115; 101].

Definition float_json (f : ftok) : bytes :=
  match f with FFinite t => t | FNonFinite t => 34 :: t ++ [34] end.
Definition reflect_json (r : rtok) : bytes :=
  match r with RJson t => t | RErr m => dq m end.

(* one scalar Append* call of the JSON encoder *)
Definition j_scalar (last : jtoken) (tok : bytes) : bytes * jtoken := (sep last ++ tok, TValue).
Definition j_key (last : jtoken) (k : bytes) : bytes * jtoken := (sep last ++ dq k ++ [58], TKey).

(* running a list of encoder actions, threading the last-token state *)
Section Thread.
  Context {A : Type} (f : jtoken -> A -> bytes * jtoken).
  Fixpoint thread (last : jtoken) (l : list A) : bytes * jtoken :=
    match l with
    | [] => ([], last)
    | x :: r => let '(o1, l1) := f last x in let '(o2, l2) := thread l1 r in (o1 ++ o2, l2)
    end.
End Thread.

Definition scalar_tok (v : value) : option bytes :=
  match v with
  | VBool b => Some (bool_tok b)
  | VInt num => Some (fmt_int (int_of_num num))
  | VUint num => Some (fmt_uint num)
  | VFloat f => Some (float_json f)
  | VStr s => Some (dq s)
  | VReflect r => Some (reflect_json r)
  | _ => None
  end.

(* values built by Any are flat: a scalar, or an array of scalars (the built-in slice encoders) *)
Definition jflat_scalar (last : jtoken) (v : value) : bytes * jtoken :=
  match scalar_tok v with Some t => j_scalar last t | None => ([], last) end.
Definition jflat (last : jtoken) (v : value) : bytes * jtoken :=
  match v with
  | VArr l => let '(o, _) := thread jflat_scalar TArrBegin l in (sep last ++ 91 :: o ++ [93], TArrEnd)
  | _ => jflat_scalar last v
  end.

(* one FieldsFromMap entry: Any(k, m[k]).Encode(enc) *)
Definition j_entry (last : jtoken) (e : bytes * gval) : bytes * jtoken :=
  let '(a1, b1) := j_key last (fst e) in
  let '(a2, b2) := jflat b1 (any_value (snd e)) in (a1 ++ a2, b2).

(* Field.Encode on the JSON encoder: jv = a value in value position *)
Fixpoint jv (last : jtoken) (v : value) {struct v} : bytes * jtoken :=
  match v with
  | VArr l => let '(o, _) := thread jv TArrBegin l in (sep last ++ 91 :: o ++ [93], TArrEnd)
  | VObj l =>
      let '(o, _) := thread (fun last kx =>
                       match snd kx with
                       | VSplice m => thread j_entry last (sort_entries m)
                       | _ => let '(a1, b1) := j_key last (fst kx) in let '(a2, b2) := jv b1 (snd kx) in (a1 ++ a2, b2)
                       end) TObjBegin l in
      (sep last ++ 123 :: o ++ [125], TObjEnd)
  | VSplice _ => ([], last)   (* never in value position *)
  | _ => jflat_scalar last v
  end.

(* a field at member level (EncodeFields on the JSON encoder) *)
Definition jfield (last : jtoken) (kx : field) : bytes * jtoken :=
  match snd kx with
  | VSplice m => thread j_entry last (sort_entries m)
  | _ => let '(a1, b1) := j_key last (fst kx) in let '(a2, b2) := jv b1 (snd kx) in (a1 ++ a2, b2)
  end.
Definition jfields (last : jtoken) (fs : list field) : bytes * jtoken := thread jfield last fs.

(* ---------------- text encoder ---------------- *)
Definition float_text (f : ftok) : bytes := match f with FFinite t => t | FNonFinite t => t end.
Definition reflect_text (r : rtok) : bytes := match r with RJson t => t | RErr m => escape m end.

(* a top-level value (jsonDepth = 0); arrays and objects go through the embedded JSON encoder,
   which starts from TUnknown (it is Reset whenever the depth returns to 0) *)
Definition tv (v : value) : bytes :=
  match v with
  | VBool b => bool_tok b
  | VInt num => fmt_int (int_of_num num)
  | VUint num => fmt_uint num
  | VFloat f => float_text f
  | VStr s => escape s
  | VReflect r => reflect_text r
  | VArr _ | VObj _ => fst (jv TUnknown v)
  | VSplice _ => []
  end.

Definition sep2 : bytes := [124; 124]. (* "||" *)

(* AppendKey at top level: separator unless first, escaped key, '=' *)
Definition t_key (has_written : bool) (k : bytes) : bytes := (if has_written then sep2 else []) ++ escape k ++ [61].

Definition t_entry (hw : bool) (e : bytes * gval) : bytes * bool :=
  let v := any_value (snd e) in
  (t_key hw (fst e) ++ (match v with VArr _ => fst (jflat TUnknown v) | _ => tv v end), true).

Section ThreadB.
  Context {A : Type} (f : bool -> A -> bytes * bool).
  Fixpoint thread_b (hw : bool) (l : list A) : bytes * bool :=
    match l with
    | [] => ([], hw)
    | x :: r => let '(o1, h1) := f hw x in let '(o2, h2) := thread_b h1 r in (o1 ++ o2, h2)
    end.
End ThreadB.

Definition tfield (hw : bool) (kx : field) : bytes * bool :=
  match snd kx with
  | VSplice m => thread_b t_entry hw (sort_entries m)
  | _ => (t_key hw (fst kx) ++ tv (snd kx), true)
  end.
Definition tfields (hw : bool) (fs : list field) : bytes * bool := thread_b tfield hw fs.
