(* Model of RollingFileAppender (plugin_appender.go): Start / Write / rotate / createFile / Stop, one call at
   a time (the sequential projection), with a clock and a create-fault oracle (a log directory that is
   temporarily unavailable). Times are seconds; a file is identified by the second in its name. *)
From LogV Require Export Base.Bytes.
Open Scope Z_scope.

Record rfile := { f_name : Z; f_content : list N }.      (* "<name>.<yyyyMMddHHmmss of f_name>", payload ids in file order *)

Record fstate := {
  r_now : Z;                (* wall clock, seconds *)
  r_iv : Z;                 (* rotation interval, seconds *)
  r_curr : Z;               (* currTime: start of the interval of the last rotation *)
  r_file : option Z;        (* descriptor of the file being written (by name) *)
  r_old : option Z;         (* previous file, closed at the next rotation *)
  r_fs : list rfile;        (* the directory *)
  r_create_ok : bool;       (* can files be created right now? *)
  r_lost : list N }.        (* payloads written while no file was held (before Start / after Stop / failed Start) *)

Definition interval_of (iv t : Z) : Z := (t / iv) * iv.       (* Rotation.Time: t.Truncate(Interval).Unix() *)

Fixpoint has_file (fs : list rfile) (n : Z) : bool :=
  match fs with [] => false | f :: r => (f_name f =? n) || has_file r n end.

(* os.OpenFile(O_CREATE|O_WRONLY|O_APPEND): creates the file if needed, never truncates *)
Definition create_file (fs : list rfile) (n : Z) : list rfile :=
  if has_file fs n then fs else fs ++ [{| f_name := n; f_content := [] |}].

Fixpoint append_to (fs : list rfile) (n : Z) (p : N) : list rfile :=
  match fs with
  | [] => []
  | f :: r => if f_name f =? n then {| f_name := n; f_content := f_content f ++ [p] |} :: r else f :: append_to r n p
  end.

Inductive fop :=
| FTick (d : Z)          (* the clock advances by d >= 0 seconds *)
| FStart
| FWrite (p : N)
| FStop
| FSetCreate (ok : bool). (* the directory becomes unavailable / available again *)

Definition set_fs s fs := {| r_now := r_now s; r_iv := r_iv s; r_curr := r_curr s; r_file := r_file s; r_old := r_old s;
                             r_fs := fs; r_create_ok := r_create_ok s; r_lost := r_lost s |}.

(* rotate(): compare, CAS currTime, close the previous file, create "<name>.<now>", shift file -> oldFile *)
Definition rotate (s : fstate) : fstate :=
  let t := interval_of (r_iv s) (r_now s) in
  if t <=? r_curr s then s
  else if r_create_ok s
       then {| r_now := r_now s; r_iv := r_iv s; r_curr := t; r_file := Some (r_now s); r_old := r_file s;
               r_fs := create_file (r_fs s) (r_now s); r_create_ok := true; r_lost := r_lost s |}
       else (* createFile failed: reported on stderr; currTime was already advanced by the CAS *)
            {| r_now := r_now s; r_iv := r_iv s; r_curr := t; r_file := r_file s; r_old := None;
               r_fs := r_fs s; r_create_ok := false; r_lost := r_lost s |}.

Definition fstep (s : fstate) (o : fop) : fstate :=
  match o with
  | FTick d => {| r_now := r_now s + Z.max d 0; r_iv := r_iv s; r_curr := r_curr s; r_file := r_file s; r_old := r_old s;
                  r_fs := r_fs s; r_create_ok := r_create_ok s; r_lost := r_lost s |}
  | FSetCreate ok => {| r_now := r_now s; r_iv := r_iv s; r_curr := r_curr s; r_file := r_file s; r_old := r_old s;
                        r_fs := r_fs s; r_create_ok := ok; r_lost := r_lost s |}
  | FStart =>
      if r_create_ok s
      then {| r_now := r_now s; r_iv := r_iv s; r_curr := interval_of (r_iv s) (r_now s); r_file := Some (r_now s); r_old := r_old s;
              r_fs := create_file (r_fs s) (r_now s); r_create_ok := true; r_lost := r_lost s |}
      else s      (* Start returns the error; nothing changes *)
  | FWrite p =>
      let s1 := rotate s in
      match r_file s1 with
      | Some n => set_fs s1 (append_to (r_fs s1) n p)
      | None => {| r_now := r_now s1; r_iv := r_iv s1; r_curr := r_curr s1; r_file := None; r_old := r_old s1;
                   r_fs := r_fs s1; r_create_ok := r_create_ok s1; r_lost := r_lost s1 ++ [p] |}
      end
  | FStop => {| r_now := r_now s; r_iv := r_iv s; r_curr := r_curr s; r_file := None; r_old := None;
                r_fs := r_fs s; r_create_ok := r_create_ok s; r_lost := r_lost s |}
  end.

Definition f_init (now iv : Z) (fs : list rfile) : fstate :=
  {| r_now := now; r_iv := iv; r_curr := 0; r_file := None; r_old := None; r_fs := fs; r_create_ok := true; r_lost := [] |}.

Definition frun (s : fstate) (ops : list fop) : fstate := fold_left fstep ops s.

(* descriptors held between operations *)
Definition open_fds (s : fstate) : nat :=
  (match r_file s with Some _ => 1 | None => 0 end + match r_old s with Some _ => 1 | None => 0 end)%nat.
