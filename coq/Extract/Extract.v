(* Extraction of the executable models and spec-side functions to OCaml.
   Only ExtrOcamlBasic is used: nat, positive, N, Z stay the extracted inductives. *)
Require Extraction.
Require Import ExtrOcamlBasic.
From LogV Require Import Base.Bytes Base.Utf8 Base.JsonStr Model.Tag Model.Escape Model.Retention Model.Level Model.Deliver Model.Route Model.Field Model.Encoder Model.Layout Model.Expr Model.Async Model.Entry Model.RawWrite Model.Lifecycle Model.Rolling Model.Sink Model.Config Model.ConfigEnv Gen.Schema Base.Dec Base.Json Proofs.JsonProofs Proofs.EncoderProofs Proofs.LayoutProofs Proofs.TextProofs.
Extraction Language OCaml.
Extraction "model.ml" Z.add Z.mul Z.opp Z.of_N Z.to_N N.add N.of_nat N.to_nat
  is_valid_tag build_tag register_tag all_tags
  bytes_eqb escape sanitize unescape
  clear_expired run_phases
  builtin_levels parse_range deliver_refs deliver_simple deliver_rolling log_via entry_level
  refresh_tags route trim_space
  num_of_int f_bool f_int f_uint f_float f_string f_nil f_reflect f_any f_object f_array f_from_map msg_key
  json_layout text_layout wf_event event_members decode_json parse_json json_clean check_raw
  parse
  q_init aseq_step submit
  log_call enable
  rrun drain_all write_raw_refs
  lrun l_start
  f_init fstep frun
  to_camel_key to_storage expand_all is_marker new_plugin_from_map refresh gen_env minimal_cfg top_level_plugins field_of s_ref fmt_int.
