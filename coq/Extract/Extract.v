(* Extraction of the executable models and spec-side functions to OCaml.
   Only ExtrOcamlBasic is used: nat, positive, N, Z stay the extracted inductives. *)
Require Extraction.
Require Import ExtrOcamlBasic.
From LogV Require Import Base.Bytes Base.Utf8 Base.JsonStr Model.Tag Model.Escape Model.Retention Model.Level Model.Deliver Model.Route.
Extraction Language OCaml.
Extraction "model.ml" Z.add Z.mul Z.opp Z.of_N Z.to_N N.add N.of_nat N.to_nat
  is_valid_tag build_tag register_tag all_tags
  bytes_eqb escape sanitize unescape
  clear_expired
  builtin_levels parse_range deliver_refs deliver_simple deliver_rolling log_via entry_level
  refresh_tags route trim_space.
