(* Byte strings as lists of N (values < 256 when they come from Go). *)
From Coq Require Export List NArith ZArith Bool Lia.
Export ListNotations.
Open Scope N_scope.

Definition bytes := list N.

Definition is_nil {A} (l : list A) : bool := match l with [] => true | _ => false end.

Fixpoint bytes_eqb (a b : bytes) : bool :=
  match a, b with
  | [], [] => true
  | x :: a', y :: b' => (x =? y) && bytes_eqb a' b'
  | _, _ => false
  end.

(* strings.Split(s, sep) for a one-byte separator: always n+1 parts. *)
Fixpoint split_on (sep : N) (s : bytes) : list bytes :=
  match s with
  | [] => [[]]
  | c :: r =>
      if c =? sep then [] :: split_on sep r
      else match split_on sep r with
           | p :: ps => (c :: p) :: ps
           | [] => [[c]]
           end
  end.

Fixpoint join (sep : N) (parts : list bytes) : bytes :=
  match parts with
  | [] => []
  | [p] => p
  | p :: ps => p ++ sep :: join sep ps
  end.

(* strings.HasPrefix / TrimPrefix / HasSuffix / TrimSuffix *)
Fixpoint has_prefix (p s : bytes) : bool :=
  match p, s with
  | [], _ => true
  | x :: p', y :: s' => (x =? y) && has_prefix p' s'
  | _ :: _, [] => false
  end.

Fixpoint drop_prefix (p s : bytes) : option bytes :=
  match p, s with
  | [], _ => Some s
  | x :: p', y :: s' => if x =? y then drop_prefix p' s' else None
  | _ :: _, [] => None
  end.

Definition trim_prefix (p s : bytes) : bytes :=
  match drop_prefix p s with Some r => r | None => s end.

Definition has_suffix (p s : bytes) : bool := has_prefix (rev p) (rev s).
Definition drop_suffix (p s : bytes) : option bytes :=
  match drop_prefix (rev p) (rev s) with Some r => Some (rev r) | None => None end.
Definition trim_suffix (p s : bytes) : bytes :=
  match drop_suffix p s with Some r => r | None => s end.

Definition is_lower (c : N) : bool := (97 <=? c) && (c <=? 122).
Definition is_upper (c : N) : bool := (65 <=? c) && (c <=? 90).
Definition is_digit (c : N) : bool := (48 <=? c) && (c <=? 57).
Definition to_upper (c : N) : N := if is_lower c then c - 32 else c.
Definition to_lower (c : N) : N := if is_upper c then c + 32 else c.

(* lexicographic order on byte strings (Go string comparison) *)
Fixpoint bytes_ltb (a b : bytes) : bool :=
  match a, b with
  | [], [] => false
  | [], _ :: _ => true
  | _ :: _, [] => false
  | x :: a', y :: b' => if x <? y then true else if y <? x then false else bytes_ltb a' b'
  end.

Fixpoint contains_bytes (x : bytes) (l : list bytes) : bool :=
  match l with [] => false | y :: r => bytes_eqb x y || contains_bytes x r end.
