(* JSON: AST, compact printer (strings printed with the log escaper), and an RFC 8259 parser
   (fuelled recursive descent: whitespace, all escapes incl. \uXXXX and surrogate pairs, number grammar). *)
From LogV Require Export Base.Bytes Base.Utf8 Base.JsonStr Model.Escape.
Open Scope N_scope.

Inductive json :=
| JNull
| JBool (b : bool)
| JNum (tok : bytes)                 (* the number token as text *)
| JStr (s : bytes)
| JArr (l : list json)
| JObj (l : list (bytes * json))     (* ordered members, duplicates allowed *)
| JRaw (tok : bytes) (j : json).     (* pre-rendered JSON text (e.g. json.Marshal output) that decodes to j *)

Definition quote (s : bytes) : bytes := 34 :: escape s ++ [34].
Definition lit_null : bytes := [110; 117; 108; 108].
Definition lit_true : bytes := [116; 114; 117; 101].
Definition lit_false : bytes := [102; 97; 108; 115; 101].

Fixpoint print_json (j : json) : bytes :=
  match j with
  | JNull => lit_null
  | JBool b => if b then lit_true else lit_false
  | JNum tok => tok
  | JStr s => quote s
  | JArr l => 91 :: join 44 (map print_json l) ++ [93]
  | JObj l => 123 :: join 44 (map (fun kv => quote (fst kv) ++ 58 :: print_json (snd kv)) l) ++ [125]
  | JRaw tok _ => tok
  end.

(* what a decoder yields for the printed text: strings sanitised, raw text replaced by its meaning *)
Fixpoint decode_json (j : json) : json :=
  match j with
  | JStr s => JStr (sanitize s)
  | JArr l => JArr (map decode_json l)
  | JObj l => JObj (map (fun kv => (sanitize (fst kv), decode_json (snd kv))) l)
  | JRaw _ j' => j'
  | _ => j
  end.

(* ---------------- parser ---------------- *)
Definition is_ws (c : N) : bool := (c =? 32) || (c =? 9) || (c =? 10) || (c =? 13).
Fixpoint skip_ws (s : bytes) : bytes := match s with c :: r => if is_ws c then skip_ws r else s | [] => [] end.

Definition is_numchar (c : N) : bool := is_digit c || (c =? 43) || (c =? 45) || (c =? 46) || (c =? 69) || (c =? 101).

Fixpoint span (p : N -> bool) (s : bytes) : bytes * bytes :=
  match s with
  | c :: r => if p c then let '(a, b) := span p r in (c :: a, b) else ([], s)
  | [] => ([], [])
  end.

(* number = [ "-" ] int [ frac ] [ exp ] *)
Definition exp_ok (r : bytes) : bool :=
  match r with
  | [] => true
  | e :: r' => if (e =? 69) || (e =? 101) then
                 let r'' := match r' with c :: t => if (c =? 43) || (c =? 45) then t else r' | [] => r' end in
                 let '(ep, r3) := span is_digit r'' in negb (is_nil ep) && is_nil r3
               else false
  end.
Definition frac_exp_ok (r : bytes) : bool :=
  match r with
  | [] => true
  | c :: r' => if c =? 46 then let '(fp, r2) := span is_digit r' in negb (is_nil fp) && exp_ok r2 else exp_ok r
  end.
Definition valid_number (s : bytes) : bool :=
  let s1 := match s with c :: t => if c =? 45 then t else s | [] => s end in
  let '(ip, r1) := span is_digit s1 in
  match ip with
  | [] => false
  | d :: ds => (is_nil ds || negb (d =? 48)) && frac_exp_ok r1
  end.

(* body of a string literal up to the closing quote *)
Fixpoint scan_string (s : bytes) : option (bytes * bytes) :=
  match s with
  | [] => None
  | c :: r =>
      if c =? 34 then Some ([], r)
      else if c =? 92 then
        match r with
        | x :: r' => match scan_string r' with Some (b, rest) => Some (c :: x :: b, rest) | None => None end
        | [] => None
        end
      else match scan_string r with Some (b, rest) => Some (c :: b, rest) | None => None end
  end.

Definition parse_string (s : bytes) : option (bytes * bytes) :=
  match scan_string s with
  | Some (body, rest) => match unescape body with Some d => Some (d, rest) | None => None end
  | None => None
  end.

Definition expect (lit : bytes) (s : bytes) : option bytes := drop_prefix lit s.

Fixpoint parse_elems (pv : bytes -> option (json * bytes)) (fuel : nat) (s : bytes) (acc : list json)
  : option (list json * bytes) :=
  match fuel with
  | O => None
  | S f =>
      match pv s with
      | None => None
      | Some (j, r) =>
          match skip_ws r with
          | c :: r' => if c =? 44 then parse_elems pv f r' (j :: acc)
                       else if c =? 93 then Some (rev (j :: acc), r') else None
          | [] => None
          end
      end
  end.

Fixpoint parse_members (pv : bytes -> option (json * bytes)) (fuel : nat) (s : bytes) (acc : list (bytes * json))
  : option (list (bytes * json) * bytes) :=
  match fuel with
  | O => None
  | S f =>
      match skip_ws s with
      | q :: r0 =>
          if q =? 34 then
            match parse_string r0 with
            | None => None
            | Some (k, r1) =>
                match skip_ws r1 with
                | c :: r2 =>
                    if c =? 58 then
                      match pv r2 with
                      | None => None
                      | Some (v, r3) =>
                          match skip_ws r3 with
                          | d :: r4 => if d =? 44 then parse_members pv f r4 ((k, v) :: acc)
                                       else if d =? 125 then Some (rev ((k, v) :: acc), r4) else None
                          | [] => None
                          end
                      end
                    else None
                | [] => None
                end
            end
          else None
      | [] => None
      end
  end.

Fixpoint parse_value (fuel : nat) (s : bytes) : option (json * bytes) :=
  match fuel with
  | O => None
  | S f =>
      match skip_ws s with
      | [] => None
      | c :: r =>
          if c =? 123 then
            match skip_ws r with
            | d :: r' => if d =? 125 then Some (JObj [], r')
                         else match parse_members (parse_value f) (S (length r)) r [] with
                              | Some (ms, rest) => Some (JObj ms, rest) | None => None end
            | [] => None
            end
          else if c =? 91 then
            match skip_ws r with
            | d :: r' => if d =? 93 then Some (JArr [], r')
                         else match parse_elems (parse_value f) (S (length r)) r [] with
                              | Some (es, rest) => Some (JArr es, rest) | None => None end
            | [] => None
            end
          else if c =? 34 then
            match parse_string r with Some (d, rest) => Some (JStr d, rest) | None => None end
          else if c =? 110 then match expect lit_null (c :: r) with Some rest => Some (JNull, rest) | None => None end
          else if c =? 116 then match expect lit_true (c :: r) with Some rest => Some (JBool true, rest) | None => None end
          else if c =? 102 then match expect lit_false (c :: r) with Some rest => Some (JBool false, rest) | None => None end
          else if is_numchar c then
            let '(tok, rest) := span is_numchar (c :: r) in
            if valid_number tok then Some (JNum tok, rest) else None
          else None
      end
  end.

(* whole-text parse: one value, optional trailing whitespace *)
Definition parse_json (s : bytes) : option json :=
  match parse_value (S (length s)) s with
  | Some (j, rest) => if is_nil (skip_ws rest) then Some j else None
  | None => None
  end.
