(* Types of the plugin schema table that `implrun gen` regenerates from the running code (Gen/Schema.v). *)
From LogV Require Export Base.Bytes.
Open Scope N_scope.

(* what injectAttribute does with the (substituted) string: a registered converter for the field's type, else the kind switch *)
Inductive akind :=
| KString | KBool
| KInt (bits : N) | KUint (bits : N)
| KRange        (* converter: ParseLevelRange *)
| KPolicy       (* converter: ParseBufferFullPolicy *)
| KRotation     (* converter: ParseTimeRotation *)
| KOther.       (* a kind injectAttribute does not support *)

(* a struct field as inject sees it, embedded structs flattened in declaration order *)
Inductive fdecl :=
| FAttr (fname tag : bytes) (k : akind)     (* `PluginAttribute:"tag"` *)
| FElemIface (fname tag : bytes)            (* `PluginElement:"tag"` on an interface-typed field *)
| FElemSlice (fname tag : bytes)            (* `PluginElement:"tag"` on a slice-typed field *)
| FElemOther (fname tag : bytes).           (* `PluginElement:"tag"` on any other kind *)

Definition schema := list fdecl.

(* one registered plugin: plugin type, registered name, Go struct name, fields *)
Record plugin := { pl_type : bytes; pl_name : bytes; pl_gotype : bytes; pl_schema : schema }.
