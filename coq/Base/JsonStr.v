(* Decoder for the body of an RFC 8259 string literal (between the quotes). *)
From LogV Require Export Base.Utf8.

Definition hexval (c : N) : option N :=
  if is_digit c then Some (c - 48)
  else if (97 <=? c) && (c <=? 102) then Some (c - 87)
  else if (65 <=? c) && (c <=? 70) then Some (c - 55)
  else None.

Definition hex4 (a b c d : N) : option N :=
  match hexval a, hexval b, hexval c, hexval d with
  | Some x, Some y, Some z, Some w => Some (((x * 16 + y) * 16 + z) * 16 + w)
  | _, _, _, _ => None
  end.

Definition simple_escape (e : N) : option N :=
  if e =? 34 then Some 34        (* quote *)
  else if e =? 92 then Some 92   (* backslash *)
  else if e =? 47 then Some 47   (* \/ *)
  else if e =? 98 then Some 8    (* \b *)
  else if e =? 102 then Some 12  (* \f *)
  else if e =? 110 then Some 10  (* \n *)
  else if e =? 114 then Some 13  (* \r *)
  else if e =? 116 then Some 9   (* \t *)
  else None.

Definition is_high_surrogate (cp : N) : bool := (55296 <=? cp) && (cp <=? 56319).
Definition is_low_surrogate (cp : N) : bool := (56320 <=? cp) && (cp <=? 57343).
Definition combine_surrogates (hi lo : N) : N := 65536 + (hi - 55296) * 1024 + (lo - 56320).

Definition omap_app (p : bytes) (o : option bytes) : option bytes :=
  match o with Some r => Some (p ++ r) | None => None end.

(* None = not a valid string body (raw control byte, raw quote, bad or dangling escape) *)
Fixpoint unescape (s : bytes) : option bytes :=
  match s with
  | [] => Some []
  | c :: r =>
      if c =? 92 then
        match r with
        | [] => None
        | e :: r1 =>
            if e =? 117 then
              match r1 with
              | h1 :: h2 :: h3 :: h4 :: r2 =>
                  match hex4 h1 h2 h3 h4 with
                  | None => None
                  | Some cp =>
                      if is_high_surrogate cp then
                        match r2 with
                        | b1 :: b2 :: g1 :: g2 :: g3 :: g4 :: r3 =>
                            if (b1 =? 92) && (b2 =? 117) then
                              match hex4 g1 g2 g3 g4 with
                              | Some lo => if is_low_surrogate lo
                                           then omap_app (utf8_encode (combine_surrogates cp lo)) (unescape r3)
                                           else omap_app replacement (unescape r2)
                              | None => None
                              end
                            else omap_app replacement (unescape r2)
                        | _ => omap_app replacement (unescape r2)
                        end
                      else omap_app (utf8_encode cp) (unescape r2)
                  end
              | _ => None
              end
            else match simple_escape e with
                 | Some b => omap_app [b] (unescape r1)
                 | None => None
                 end
        end
      else if (c <? 32) || (c =? 34) then None
      else omap_app [c] (unescape r)
  end.
