(* Decimal printing of integers (strconv.FormatInt/FormatUint base 10) and its inverse. *)
From LogV Require Export Base.Bytes.
Open Scope N_scope.

(* digits of n, most significant first, prepended to acc; fuel = an upper bound on the number of digits *)
Fixpoint digits_fuel (fuel : nat) (n : N) (acc : bytes) : bytes :=
  match fuel with
  | O => acc
  | S f => let acc' := (48 + n mod 10) :: acc in
           if n <? 10 then acc' else digits_fuel f (n / 10) acc'
  end.

Definition fmt_uint (n : N) : bytes := digits_fuel (S (N.to_nat (N.size n))) n [].

Definition fmt_int (z : Z) : bytes :=
  match z with
  | Z0 => [48]
  | Zpos p => fmt_uint (Npos p)
  | Zneg p => 45 :: fmt_uint (Npos p)
  end.

(* inverse: value of a digit string *)
Definition parse_digits (s : bytes) : N := fold_left (fun acc d => acc * 10 + (d - 48)) s 0.

Definition parse_int (s : bytes) : Z :=
  match s with
  | 45 :: r => - Z.of_N (parse_digits r)
  | _ => Z.of_N (parse_digits s)
  end.

(* Field.Num holds the two's-complement uint64 image of an int64 *)
Definition two64 : Z := 18446744073709551616.
Definition two63 : Z := 9223372036854775808.
Definition num_of_int (z : Z) : N := Z.to_N (z mod two64).                 (* uint64(val) *)
Definition int_of_num (n : N) : Z := if (Z.of_N n <? two63)%Z then Z.of_N n else (Z.of_N n - two64)%Z. (* int64(f.Num) *)
