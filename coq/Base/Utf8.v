(* UTF-8 well-formedness, independent of the Go decoder: Unicode Table 3-7
   (multi-byte rows; the ASCII row 00..7F is handled separately). *)
From LogV Require Export Base.Bytes.

Definition in_range (lo hi b : N) : bool := (lo <=? b) && (b <=? hi).

(* Table 3-7, Well-Formed UTF-8 Byte Sequences, rows with more than one byte *)
Definition utf8_table : list (list (N * N)) :=
  [ [(194,223); (128,191)];                         (* C2..DF 80..BF *)
    [(224,224); (160,191); (128,191)];              (* E0 A0..BF 80..BF *)
    [(225,236); (128,191); (128,191)];              (* E1..EC *)
    [(237,237); (128,159); (128,191)];              (* ED 80..9F *)
    [(238,239); (128,191); (128,191)];              (* EE..EF *)
    [(240,240); (144,191); (128,191); (128,191)];   (* F0 90..BF *)
    [(241,243); (128,191); (128,191); (128,191)];   (* F1..F3 *)
    [(244,244); (128,143); (128,191); (128,191)] ]. (* F4 80..8F *)

Fixpoint matches_row (row : list (N * N)) (s : bytes) : bool :=
  match row, s with
  | [], _ => true
  | (lo, hi) :: row', b :: s' => in_range lo hi b && matches_row row' s'
  | _ :: _, [] => false
  end.

Definition row_for (s0 : N) : option (list (N * N)) :=
  find (fun row => match row with (lo, hi) :: _ => in_range lo hi s0 | [] => false end) utf8_table.

(* length of the well-formed multi-byte sequence starting at the head of s, 0 if none *)
Definition wf_len (s : bytes) : nat :=
  match s with
  | [] => O
  | s0 :: r => match row_for s0 with
               | Some (_ :: rest) => if matches_row rest r then S (length rest) else O
               | _ => O
               end
  end.

(* well-formed UTF-8 text *)
Inductive Utf8 : bytes -> Prop :=
| Utf8_nil : Utf8 []
| Utf8_ascii b r : b < 128 -> Utf8 r -> Utf8 (b :: r)
| Utf8_multi row q r : In row utf8_table -> length q = length row -> matches_row row q = true ->
                       Utf8 r -> Utf8 (q ++ r).

Definition replacement : bytes := [239; 191; 189]. (* U+FFFD *)

(* The statement's sanitisation: scan left to right; copy an ASCII byte or a maximal
   well-formed sequence; otherwise emit U+FFFD and skip ONE byte.
   [k] = number of bytes of the current well-formed sequence still to copy. *)
Fixpoint san (k : nat) (s : bytes) : bytes :=
  match s with
  | [] => []
  | b :: r =>
      match k with
      | S k' => b :: san k' r
      | O => if b <? 128 then b :: san 0 r
             else match wf_len s with
                  | O => replacement ++ san 0 r
                  | S n => b :: san n r
                  end
      end
  end.
Definition sanitize (s : bytes) : bytes := san 0 s.

(* UTF-8 encoding of a code point (surrogates and out-of-range become U+FFFD) *)
Definition utf8_encode (cp : N) : bytes :=
  if cp <? 128 then [cp]
  else if cp <? 2048 then [192 + cp / 64; 128 + cp mod 64]
  else if (55296 <=? cp) && (cp <=? 57343) then replacement
  else if cp <? 65536 then [224 + cp / 4096; 128 + (cp / 64) mod 64; 128 + cp mod 64]
  else if cp <? 1114112 then [240 + cp / 262144; 128 + (cp / 4096) mod 64; 128 + (cp / 64) mod 64; 128 + cp mod 64]
  else replacement.
