From LogV Require Import Base.Bytes Model.Level Model.Route Proofs.BytesLemmas Proofs.RetentionProofs.
From Coq Require Import Sorting.Sorted.
Open Scope N_scope.

(* ---------- Spec ---------- *)
(* P is a proper underscore-delimited prefix of tag: tag = P _ rest, P non-empty *)
Definition delim_prefix (P tag : bytes) : Prop := P <> [] /\ exists rest, tag = P ++ us :: rest.

(* proper prefixes, longest first (executable spec-side function) *)
Fixpoint pp (fuel : nat) (t : bytes) : list bytes :=
  match fuel with
  | O => []
  | S f => match last_index us t with
           | None => []
           | Some O => []
           | Some i => firstn i t :: pp f (firstn i t)
           end
  end.
Definition proper_prefixes (t : bytes) : list bytes := pp (length t) t.

Fixpoint first_wild (m : list (bytes * N)) (ps : list bytes) : option N :=
  match ps with
  | [] => None
  | P :: r => match lookup_tag m (P ++ [us; star]) with Some l => Some l | None => first_wild m r end
  end.

(* the literal listing wins; else the longest listed wildcard prefix; else root (None) *)
Definition spec_route (m : list (bytes * N)) (tag : bytes) : option N :=
  match lookup_tag m tag with Some l => Some l | None => first_wild m (proper_prefixes tag) end.

Definition no_dd (s : bytes) : Prop := forall A r, s <> A ++ us :: us :: r.

(* ---------- list facts ---------- *)
Lemma last_index_split c s i : last_index c s = Some i ->
  s = firstn i s ++ c :: skipn (S i) s /\ ~ In c (skipn (S i) s) /\ (i < length s)%nat.
Proof.
  revert i; induction s as [|x r IH]; intros i H; simpl in H; [discriminate|].
  destruct (last_index c r) as [j|] eqn:E.
  - inversion H; subst i. destruct (IH j eq_refl) as [H1 [H2 H3]]. cbn [firstn skipn app length].
    split; [f_equal; exact H1|]. split; [exact H2|lia].
  - destruct (x =? c) eqn:Ex; [|discriminate]. inversion H; subst i. apply N.eqb_eq in Ex; subst x.
    cbn [firstn skipn app length]. split; [reflexivity|]. split; [|lia].
    clear -E. induction r as [|y r IH]; [intros []|]. simpl in E. destruct (last_index c r); [discriminate|].
    destruct (y =? c) eqn:Ey; [discriminate|]. intros [->|H]; [now rewrite N.eqb_refl in Ey|now apply IH].
Qed.

Lemma last_index_none c s : last_index c s = None -> ~ In c s.
Proof.
  induction s as [|x r IH]; simpl; [intros _ []|]. destruct (last_index c r); [discriminate|].
  destruct (x =? c) eqn:E; [discriminate|]. intros _ [->|H]; [now rewrite N.eqb_refl in E|now apply IH].
Qed.

Lemma drop_suffix_some p s r : drop_suffix p s = Some r -> s = r ++ p.
Proof.
  unfold drop_suffix. destruct (drop_prefix (rev p) (rev s)) as [q|] eqn:E; [|discriminate].
  intro H. inversion H; subst r. apply drop_prefix_some in E.
  rewrite <- (rev_involutive s), E, rev_app_distr, rev_involutive. reflexivity.
Qed.

Lemma trim_suffix_app p s : trim_suffix s (p ++ s) = p.
Proof.
  unfold trim_suffix, drop_suffix. rewrite rev_app_distr, drop_prefix_app, rev_involutive. reflexivity.
Qed.

Lemma trim_suffix_noop p s : (forall r, s <> r ++ p) -> trim_suffix p s = s.
Proof.
  intro H. unfold trim_suffix. destruct (drop_suffix p s) as [r|] eqn:E; [|reflexivity].
  apply drop_suffix_some in E. exfalso. now apply (H r).
Qed.

Lemma no_star_trim tag : ~ In star tag -> trim_suffix [us; star] tag = tag.
Proof.
  intro H. apply trim_suffix_noop. intros r E. apply H. rewrite E. apply in_or_app. right. right. now left.
Qed.

(* ---------- findLoggerForTag computes the spec ---------- *)
Lemma pp_fuel : forall k1 k2 t, (length t <= k1)%nat -> (length t <= k2)%nat -> pp k1 t = pp k2 t.
Proof.
  induction k1 as [|k1 IHk]; intros k2 t H1 H2.
  - destruct t; [|simpl in H1; lia]. destruct k2; reflexivity.
  - destruct k2 as [|k2].
    + destruct t; [reflexivity|simpl in H2; lia].
    + cbn [pp]. destruct (last_index us t) as [[|j]|] eqn:E; try reflexivity.
      destruct (last_index_split _ _ _ E) as [_ [_ Hlt]].
      f_equal. apply IHk; rewrite firstn_length; lia.
Qed.

Lemma pp_unfold t :
  proper_prefixes t = match last_index us t with
                      | None => [] | Some O => []
                      | Some i => firstn i t :: proper_prefixes (firstn i t)
                      end.
Proof.
  unfold proper_prefixes. destruct t as [|c t']; [reflexivity|]. cbn [length pp].
  destruct (last_index us (c :: t')) as [[|i]|] eqn:E; try reflexivity.
  destruct (last_index_split _ _ _ E) as [_ [_ Hlt]]. f_equal. apply pp_fuel; rewrite firstn_length; simpl in *; lia.
Qed.

Lemma cut_facts P i : ~ In star P -> no_dd P -> last_index us P = Some (S i) ->
  let A := firstn (S i) P in
  trim_suffix [us] A = A /\ (length A < length P)%nat /\ ~ In star A /\ no_dd A.
Proof.
  intros Hs Hd Ei A. destruct (last_index_split _ _ _ Ei) as [Hsplit [_ Hlt]]. fold A in Hsplit.
  split; [|split; [|split]].
  - apply trim_suffix_noop. intros r E. apply (Hd r (skipn (S (S i)) P)). rewrite Hsplit at 1. rewrite E, <- app_assoc. reflexivity.
  - unfold A. rewrite firstn_length. lia.
  - intro Hx. apply Hs. rewrite Hsplit. apply in_or_app. now left.
  - intros A0 r E. apply (Hd A0 (r ++ us :: skipn (S (S i)) P)). rewrite Hsplit at 1. rewrite E, <- app_assoc. reflexivity.
Qed.

Lemma find_wild fuel m : forall P, ~ In star P -> no_dd P -> (length P < fuel)%nat ->
  find_logger fuel m (P ++ [us; star]) =
    match lookup_tag m (P ++ [us; star]) with Some l => Some l | None => first_wild m (proper_prefixes P) end.
Proof.
  induction fuel as [|f IH]; intros P Hs Hd Hl; [lia|].
  cbn [find_logger]. destruct (lookup_tag m (P ++ [us; star])) as [l|]; [reflexivity|].
  rewrite trim_suffix_app. rewrite pp_unfold.
  destruct (last_index us P) as [[|i]|] eqn:Ei; try reflexivity.
  destruct (cut_facts P i Hs Hd Ei) as [HA [Hlen [HsA HdA]]].
  rewrite HA. rewrite IH by (try assumption; lia). reflexivity.
Qed.

Theorem route_spec m tag : ~ In star tag -> no_dd tag -> route m tag = spec_route m tag.
Proof.
  intros Hs Hd. unfold route, spec_route. cbn [find_logger].
  destruct (lookup_tag m tag) as [l|]; [reflexivity|].
  rewrite no_star_trim by assumption. rewrite pp_unfold.
  destruct (last_index us tag) as [[|i]|] eqn:Ei; try reflexivity.
  destruct (cut_facts tag i Hs Hd Ei) as [HA [Hlen [HsA HdA]]].
  rewrite HA. rewrite find_wild by (try assumption; lia). reflexivity.
Qed.

(* ---------- proper_prefixes is exactly the set of underscore-delimited proper prefixes, longest first ---------- *)
Lemma len_ind' (P : bytes -> Prop) :
  (forall s, (forall t, (length t < length s)%nat -> P t) -> P s) -> forall s, P s.
Proof.
  intros H s. remember (length s) as n eqn:E. revert s E.
  induction n as [n IH] using lt_wf_ind. intros s E. apply H. intros t Ht. apply (IH (length t)); [lia|reflexivity].
Qed.

Lemma pp_in t : forall P, In P (proper_prefixes t) <-> delim_prefix P t.
Proof.
  induction t as [t IH] using len_ind'. intro P. rewrite pp_unfold.
  destruct (last_index us t) as [[|i]|] eqn:Ei.
  - (* the only underscore is at position 0 *)
    destruct (last_index_split _ _ _ Ei) as [Hsplit [Hno _]]. cbn [firstn app] in Hsplit.
    split; [intros []|]. intros [Hne [rest E]]. destruct P as [|c P']; [contradiction|].
    rewrite Hsplit in E. inversion E. apply Hno. cbn [skipn]. rewrite H1. apply in_or_app. right. now left.
  - destruct (last_index_split _ _ _ Ei) as [Hsplit [Hno Hlt]]. set (A := firstn (S i) t) in *. set (r := skipn (S (S i)) t) in *.
    assert (HlenA : length A = S i) by (unfold A; rewrite firstn_length; lia).
    cbn [In]. rewrite IH by lia. split.
    + intros [<-|[Hne [rest' E]]].
      * split; [destruct A; [discriminate|discriminate]|]. now exists r.
      * split; [assumption|]. exists (rest' ++ us :: r). rewrite Hsplit at 1. rewrite E, <- app_assoc. reflexivity.
    + intros [Hne [rest E]]. rewrite Hsplit in E. apply app_eq_app in E as [l [[E1 E2]|[E1 E2]]].
      * destruct l as [|x l'].
        -- left. now rewrite app_nil_r in E1.
        -- right. inversion E2; subst x. split; [assumption|]. exists l'. exact E1.
      * destruct l as [|x l'].
        -- left. now rewrite app_nil_r in E1.
        -- exfalso. inversion E2; subst x. apply Hno. rewrite H1. apply in_or_app. right. now left.
  - split; [intros []|]. intros [_ [rest E]]. apply last_index_none in Ei. exfalso. apply Ei. rewrite E. apply in_or_app. right. now left.
Qed.

Lemma delim_prefix_shorter P t : delim_prefix P t -> (length P < length t)%nat.
Proof. intros [_ [rest ->]]. rewrite app_length. simpl. lia. Qed.

Lemma pp_sorted t : StronglySorted (fun a b : bytes => (length b < length a)%nat) (proper_prefixes t).
Proof.
  induction t as [t IH] using len_ind'. rewrite pp_unfold.
  destruct (last_index us t) as [[|i]|] eqn:Ei; try constructor.
  - destruct (last_index_split _ _ _ Ei) as [_ [_ Hlt]]. apply IH. rewrite firstn_length. lia.
  - apply Forall_forall. intros P HP. apply pp_in in HP. now apply delim_prefix_shorter.
Qed.

Lemma first_wild_some m ps l : StronglySorted (fun a b : bytes => (length b < length a)%nat) ps ->
  first_wild m ps = Some l ->
  exists P, In P ps /\ lookup_tag m (P ++ [us; star]) = Some l /\
            forall P', In P' ps -> (length P < length P')%nat -> lookup_tag m (P' ++ [us; star]) = None.
Proof.
  induction 1 as [|a r Hs IH Ha]; simpl; [discriminate|].
  destruct (lookup_tag m (a ++ [us; star])) as [x|] eqn:E.
  - intro H; inversion H; subst x. exists a. split; [now left|]. split; [assumption|].
    intros P' [<-|HP'] Hl; [lia|]. rewrite Forall_forall in Ha. specialize (Ha P' HP'). lia.
  - intro H. destruct (IH H) as [P [HP [HlP Hmax]]]. exists P. split; [now right|]. split; [assumption|].
    intros P' [<-|HP'] Hl; [assumption|now apply Hmax].
Qed.

Lemma first_wild_none m ps : first_wild m ps = None -> forall P, In P ps -> lookup_tag m (P ++ [us; star]) = None.
Proof.
  induction ps as [|a r IH]; simpl; [intros _ P []|].
  destruct (lookup_tag m (a ++ [us; star])) eqn:E; [discriminate|]. intros H P [<-|HP]; [assumption|now apply IH].
Qed.

(* The statement of C02 for one tag, relationally *)
Theorem route_relational m tag : ~ In star tag -> no_dd tag ->
  (forall l, lookup_tag m tag = Some l -> route m tag = Some l) /\
  (lookup_tag m tag = None ->
     forall l, route m tag = Some l <->
       exists P, delim_prefix P tag /\ lookup_tag m (P ++ [us; star]) = Some l /\
                 forall P', delim_prefix P' tag -> (length P < length P')%nat -> lookup_tag m (P' ++ [us; star]) = None) /\
  (lookup_tag m tag = None ->
     (route m tag = None <-> forall P, delim_prefix P tag -> lookup_tag m (P ++ [us; star]) = None)).
Proof.
  intros Hs Hd. rewrite route_spec by assumption. unfold spec_route. split; [|split].
  - intros l E. now rewrite E.
  - intros E l. rewrite E. split.
    + intro H. destruct (first_wild_some _ _ _ (pp_sorted tag) H) as [P [HP [Hl Hmax]]].
      exists P. split; [now apply pp_in|]. split; [assumption|]. intros P' HP' Hlen. apply Hmax; [now apply pp_in|assumption].
    + intros [P [HP [Hl Hmax]]].
      destruct (first_wild m (proper_prefixes tag)) as [l'|] eqn:F.
      * destruct (first_wild_some _ _ _ (pp_sorted tag) F) as [Q [HQ [HlQ HmaxQ]]].
        apply pp_in in HP. apply pp_in in HQ as HQd.
        destruct (Nat.lt_trichotomy (length P) (length Q)) as [Hlt|[Heq|Hgt]].
        -- rewrite (Hmax Q HQd Hlt) in HlQ. discriminate.
        -- (* same length prefixes of the same string are equal *)
           destruct HQd as [_ [r1 E1]]. apply pp_in in HP. destruct HP as [_ [r2 E2]].
           assert (P = Q). { rewrite E1 in E2. clear -E2 Heq. revert Q E2 Heq. induction P as [|x P IHP]; intros [|y Q] E2 Heq; simpl in *; try lia; [reflexivity|]. inversion E2; subst. f_equal. apply IHP; [assumption|lia]. }
           subst Q. congruence.
        -- rewrite (HmaxQ P HP Hgt) in Hl. discriminate.
      * apply pp_in in HP. rewrite (first_wild_none _ _ F P HP) in Hl. discriminate.
  - intro E. rewrite E. split.
    + intros F P HP. apply (first_wild_none _ _ F). now apply pp_in.
    + intro H. destruct (first_wild m (proper_prefixes tag)) as [l|] eqn:F; [|reflexivity].
      destruct (first_wild_some _ _ _ (pp_sorted tag) F) as [P [HP [Hl _]]]. apply pp_in in HP. rewrite (H P HP) in Hl. discriminate.
Qed.
