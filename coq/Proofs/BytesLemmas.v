From LogV Require Import Base.Bytes.

Lemma bytes_eqb_eq a b : bytes_eqb a b = true <-> a = b.
Proof.
  revert b; induction a as [|x a IH]; intros [|y b]; simpl; split; intro H; try congruence; try reflexivity.
  - apply andb_true_iff in H as [H1 H2]. apply N.eqb_eq in H1. apply IH in H2. congruence.
  - inversion H; subst. rewrite N.eqb_refl. simpl. apply IH. reflexivity.
Qed.

Lemma bytes_eqb_refl a : bytes_eqb a a = true.
Proof. apply bytes_eqb_eq; reflexivity. Qed.

Lemma bytes_eqb_neq a b : bytes_eqb a b = false <-> a <> b.
Proof.
  split; intro H.
  - intro E. apply bytes_eqb_eq in E. congruence.
  - destruct (bytes_eqb a b) eqn:E; [apply bytes_eqb_eq in E; contradiction | reflexivity].
Qed.

Lemma split_on_nonempty sep s : split_on sep s <> [].
Proof.
  induction s as [|c r IH]; simpl; [discriminate|].
  destruct (c =? sep); [discriminate|]. destruct (split_on sep r); [contradiction|discriminate].
Qed.

Lemma join_cons sep p ps : ps <> [] -> join sep (p :: ps) = p ++ sep :: join sep ps.
Proof. destruct ps; [contradiction|reflexivity]. Qed.

Lemma join_split sep s : join sep (split_on sep s) = s.
Proof.
  induction s as [|c r IH]; simpl; [reflexivity|].
  destruct (c =? sep) eqn:E.
  - apply N.eqb_eq in E; subst c. rewrite join_cons by apply split_on_nonempty. simpl. now rewrite IH.
  - pose proof (split_on_nonempty sep r) as Hne.
    destruct (split_on sep r) as [|p ps] eqn:Es; [contradiction|].
    destruct ps as [|q qs]; simpl in *; now rewrite <- IH.
Qed.

Lemma split_on_nosep sep p : ~ In sep p -> split_on sep p = [p].
Proof.
  induction p as [|c r IH]; simpl; intro H; [reflexivity|].
  destruct (c =? sep) eqn:E; [apply N.eqb_eq in E; subst; exfalso; apply H; now left|].
  rewrite IH; [reflexivity|]. intro; apply H; now right.
Qed.

Lemma split_on_app_sep sep p rest :
  ~ In sep p -> split_on sep (p ++ sep :: rest) = p :: split_on sep rest.
Proof.
  induction p as [|c r IH]; simpl; intro H.
  - now rewrite N.eqb_refl.
  - destruct (c =? sep) eqn:E; [apply N.eqb_eq in E; subst; exfalso; apply H; now left|].
    rewrite IH; [reflexivity|]. intro; apply H; now right.
Qed.

Lemma split_join sep segs :
  segs <> [] -> Forall (fun p => ~ In sep p) segs -> split_on sep (join sep segs) = segs.
Proof.
  induction segs as [|p ps IH]; intros Hne Hall; [contradiction|].
  inversion Hall as [|? ? Hp Hps]; subst.
  destruct ps as [|q qs].
  - simpl. now apply split_on_nosep.
  - rewrite join_cons by discriminate. rewrite split_on_app_sep by assumption.
    f_equal. apply IH; [discriminate|assumption].
Qed.

Lemma split_on_parts_nosep sep s : Forall (fun p => ~ In sep p) (split_on sep s).
Proof.
  induction s as [|c r IH]; simpl.
  - constructor; [intros []|constructor].
  - destruct (c =? sep) eqn:E.
    + constructor; [intros []|assumption].
    + destruct (split_on sep r) as [|p ps]; [repeat constructor; intros [H|[]]; subst; now rewrite N.eqb_refl in E|].
      inversion IH; subst. constructor; [|assumption].
      intros [H|H]; [subst; now rewrite N.eqb_refl in E|contradiction].
Qed.

Lemma split_on_parts_in sep s p c : In p (split_on sep s) -> In c p -> In c s.
Proof.
  revert p; induction s as [|x r IH]; simpl; intros p Hp Hc.
  - destruct Hp as [<-|[]]. destruct Hc.
  - destruct (x =? sep).
    + destruct Hp as [<-|Hp]; [destruct Hc|]. right. eapply IH; eauto.
    + destruct (split_on sep r) as [|q qs] eqn:Es.
      * destruct Hp as [<-|[]]. destruct Hc as [<-|[]]. now left.
      * destruct Hp as [<-|Hp].
        -- destruct Hc as [<-|Hc]; [now left|]. right. eapply IH; [left; reflexivity|assumption].
        -- right. eapply IH; [right; eassumption|assumption].
Qed.

Lemma in_join sep segs c : In c (join sep segs) -> c = sep \/ exists p, In p segs /\ In c p.
Proof.
  induction segs as [|p ps IH]; simpl; [intros []|].
  destruct ps as [|q qs].
  - intro H. right. exists p. split; [now left|assumption].
  - intro H. apply in_app_or in H as [H|[H|H]].
    + right. exists p. split; [now left|assumption].
    + now left.
    + destruct (IH H) as [E|[p' [Hp' Hc]]]; [now left|]. right. exists p'. split; [now right|assumption].
Qed.

Lemma forallb_join (f : N -> bool) sep segs :
  f sep = true -> Forall (fun p => forallb f p = true) segs -> forallb f (join sep segs) = true.
Proof.
  intros Hs Hall. apply forallb_forall. intros c Hc.
  apply in_join in Hc as [->|[p [Hp Hc]]]; [assumption|].
  rewrite Forall_forall in Hall. specialize (Hall p Hp). rewrite forallb_forall in Hall. now apply Hall.
Qed.
