From LogV Require Import Base.Bytes Base.Dec.
From Coq Require Import ZifyN ZifyNat.
Open Scope N_scope.
Ltac Zify.zify_post_hook ::= Z.div_mod_to_equations.

Definition all_digits (s : bytes) : Prop := Forall (fun d => 48 <= d <= 57) s.

Lemma parse_digits_app a b : parse_digits (a ++ b) = fold_left (fun acc d => acc * 10 + (d - 48)) b (parse_digits a).
Proof. unfold parse_digits. now rewrite fold_left_app. Qed.

Lemma fold_digits_shift (s : bytes) : forall x, fold_left (fun acc d => acc * 10 + (d - 48)) s x = x * 10 ^ N.of_nat (length s) + parse_digits s.
Proof.
  unfold parse_digits. induction s as [|d s IH]; intro x; cbn [fold_left length].
  - cbn. lia.
  - rewrite IH. rewrite (IH (0 * 10 + (d - 48))). rewrite Nat2N.inj_succ, N.pow_succ_r'. lia.
Qed.

(* shape and value of digits_fuel *)
Lemma digits_fuel_spec f : forall n acc, (0 < f)%nat -> n < 10 ^ N.of_nat f ->
  exists d ds, digits_fuel f n acc = d :: ds ++ acc /\ all_digits (d :: ds) /\
               (0 < n -> d <> 48) /\ (n = 0 -> d = 48 /\ ds = []) /\ parse_digits (d :: ds) = n.
Proof.
  induction f as [|f IH]; intros n acc Hf Hn.
  - lia.
  - cbn [digits_fuel]. destruct (n <? 10) eqn:E.
    + apply N.ltb_lt in E. exists (48 + n mod 10), []. rewrite N.mod_small by lia. cbn [app].
      split; [reflexivity|]. split; [constructor; [lia|constructor]|]. split; [lia|]. split; [intros ->; split; reflexivity|].
      unfold parse_digits. cbn [fold_left]. lia.
    + apply N.ltb_ge in E.
      assert (Hq : n / 10 < 10 ^ N.of_nat f).
      { rewrite Nat2N.inj_succ, N.pow_succ_r' in Hn. apply N.div_lt_upper_bound; lia. }
      assert (Hf' : (0 < f)%nat).
      { destruct f; [|lia]. cbn in Hq. assert (1 <= n / 10) by (apply N.div_le_lower_bound; lia). lia. }
      destruct (IH (n / 10) ((48 + n mod 10) :: acc) Hf' Hq) as [d [ds [E1 [H1 [H2 [H3 H4]]]]]].
      exists d, (ds ++ [48 + n mod 10]). split; [rewrite E1, <- app_assoc; reflexivity|].
      split.
      * inversion H1; subst. constructor; [assumption|]. apply Forall_app. split; [assumption|].
        constructor; [pose proof (N.mod_upper_bound n 10); lia|constructor].
      * split; [intros _; apply H2; apply N.div_str_pos; lia|]. split; [lia|].
        change (d :: ds ++ [48 + n mod 10]) with ((d :: ds) ++ [48 + n mod 10]).
        rewrite parse_digits_app, H4. cbn [fold_left].
        pose proof (N.div_mod n 10). pose proof (N.mod_upper_bound n 10). lia.
Qed.

Lemma size_bound n : n < 10 ^ N.of_nat (S (N.to_nat (N.size n))).
Proof.
  rewrite Nat2N.inj_succ, N2Nat.id.
  destruct n as [|p]; [cbn; lia|].
  pose proof (N.size_gt (N.pos p)) as H. 
  eapply N.lt_le_trans; [exact H|].
  eapply N.le_trans; [apply N.pow_le_mono_l with (b := 10); lia|]. apply N.pow_le_mono_r; lia.
Qed.

Lemma fmt_uint_spec n :
  exists d ds, fmt_uint n = d :: ds /\ all_digits (d :: ds) /\ (0 < n -> d <> 48) /\ (n = 0 -> d = 48 /\ ds = []) /\
               parse_digits (fmt_uint n) = n.
Proof.
  unfold fmt_uint. destruct (digits_fuel_spec _ n [] (Nat.lt_0_succ _) (size_bound n)) as [d [ds [E [H1 [H2 [H3 H4]]]]]].
  rewrite app_nil_r in E. exists d, ds. rewrite E. auto.
Qed.

Theorem parse_fmt_uint n : parse_digits (fmt_uint n) = n.
Proof. destruct (fmt_uint_spec n) as [d [ds [_ [_ [_ [_ H]]]]]]. exact H. Qed.

Theorem parse_fmt_int z : parse_int (fmt_int z) = z.
Proof.
  destruct z as [|p|p]; cbn [fmt_int].
  - reflexivity.
  - destruct (fmt_uint_spec (N.pos p)) as [d [ds [E [H1 [_ [_ H]]]]]]. unfold parse_int. rewrite E in *.
    inversion H1; subst. destruct (N.eq_dec d 45) as [->|Hd]; [lia|].
    replace (match d with 45 => _ | _ => Z.of_N (parse_digits (d :: ds)) end) with (Z.of_N (parse_digits (d :: ds))).
    + rewrite H. reflexivity.
    + destruct d as [|q]; [reflexivity|]. do 6 (destruct q as [q|q|]; try reflexivity); exfalso; apply Hd; reflexivity.
  - unfold parse_int. rewrite parse_fmt_uint. reflexivity.
Qed.

(* int64 <-> uint64 payload of a Field *)
Theorem int_of_num_of_int z : (- two63 <= z < two63)%Z -> int_of_num (num_of_int z) = z.
Proof.
  intro H. unfold int_of_num, num_of_int, two64, two63 in *.
  rewrite Z2N.id by (apply Z.mod_pos_bound; lia).
  destruct (z mod 18446744073709551616 <? 9223372036854775808)%Z eqn:E; [apply Z.ltb_lt in E|apply Z.ltb_ge in E]; lia.
Qed.

Theorem num_of_int_range z : (Z.of_N (num_of_int z) < two64)%Z.
Proof. unfold num_of_int, two64. rewrite Z2N.id by (apply Z.mod_pos_bound; lia). apply Z.mod_pos_bound. lia. Qed.
