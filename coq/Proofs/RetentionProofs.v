From LogV Require Import Base.Bytes Model.Retention Proofs.BytesLemmas.
Open Scope Z_scope.

(* ---- Spec ---- *)
(* a name this appender itself can have produced: "<name>." followed by a 14-digit timestamp *)
Definition own_file (file_name name : bytes) : Prop :=
  exists d, name = file_name ++ [dot] ++ d /\ length d = 14%nat /\ forallb is_digit d = true.

Definition expired (max_age now : Z) (e : dirent) : Prop := de_mtime e < now - max_age * 3600.

(* the maximum age is a number of hours held in a time.Duration; ages beyond what that type can hold (about 292 years) expire nothing *)
Definition representable (max_age : Z) : Prop := Z.abs max_age <= max_age_fit.

Definition must_delete (file_name : bytes) (max_age now : Z) (e : dirent) : Prop :=
  representable max_age /\ de_kind e = 0%N /\ own_file file_name (de_name e) /\ expired max_age now e.

Lemma drop_prefix_app p s : drop_prefix p (p ++ s) = Some s.
Proof. induction p as [|x p IH]; simpl; [reflexivity|]. now rewrite N.eqb_refl. Qed.

Lemma drop_prefix_some p s r : drop_prefix p s = Some r -> s = p ++ r.
Proof.
  revert s; induction p as [|x p IH]; intros s H; simpl in *; [now inversion H|].
  destruct s as [|y s]; [discriminate|]. destruct (x =? y)%N eqn:E; [|discriminate].
  apply N.eqb_eq in E; subst. f_equal. now apply IH.
Qed.

Lemma deletes_iff fn age now e : deletes fn age now e = true <-> must_delete fn age now e.
Proof.
  unfold deletes, must_delete, own_file, expired, representable, age_fits. split.
  - intro H. apply andb_true_iff in H as [H Ht]. apply andb_true_iff in H as [H Hn]. apply andb_true_iff in H as [Hfit Hk].
    apply N.eqb_eq in Hk. apply Z.ltb_lt in Ht. apply Z.leb_le in Hfit.
    destruct (drop_prefix (fn ++ [dot]) (de_name e)) as [suf|] eqn:Hd; [|discriminate].
    apply drop_prefix_some in Hd. unfold is_rotation_suffix in Hn. apply andb_true_iff in Hn as [Hl Hdg].
    apply Nat.eqb_eq in Hl. repeat split; try assumption.
    exists suf. rewrite Hd, <- app_assoc. repeat split; assumption.
  - intros [Hfit [Hk [[d [Hn [Hl Hdg]]] Ht]]].
    replace (Z.abs age <=? max_age_fit) with true by (symmetry; apply Z.leb_le; assumption). cbn [andb].
    rewrite Hk, Hn. replace (fn ++ [dot] ++ d) with ((fn ++ [dot]) ++ d) by now rewrite <- app_assoc.
    rewrite drop_prefix_app. unfold is_rotation_suffix. rewrite Hl, Hdg. simpl.
    apply Z.ltb_lt. assumption.
Qed.

Theorem clear_expired_exact fn age now dir e :
  In e (clear_expired fn age now dir) <-> In e dir /\ ~ must_delete fn age now e.
Proof.
  unfold clear_expired. rewrite filter_In. rewrite <- deletes_iff.
  destruct (deletes fn age now e); simpl; intuition congruence.
Qed.

(* the survivors are the original listing with exactly the must_delete entries removed, order kept *)
Theorem clear_expired_is_filter fn age now dir :
  exists keep : dirent -> bool,
    (forall e, keep e = false <-> must_delete fn age now e) /\ clear_expired fn age now dir = filter keep dir.
Proof.
  exists (fun e => negb (deletes fn age now e)). split; [|reflexivity].
  intro e. rewrite negb_false_iff. apply deletes_iff.
Qed.

Corollary keeps_young fn age now dir e :
  In e dir -> now - age * 3600 <= de_mtime e -> In e (clear_expired fn age now dir).
Proof. intros Hin Hy. apply clear_expired_exact. split; [assumption|]. intros [_ [_ [_ Hx]]]. unfold expired in Hx. lia. Qed.

Corollary keeps_non_regular fn age now dir e :
  In e dir -> de_kind e <> 0%N -> In e (clear_expired fn age now dir).
Proof. intros Hin Hk. apply clear_expired_exact. split; [assumption|]. intros [_ [Hx _]]. contradiction. Qed.

Corollary keeps_foreign fn age now dir e :
  In e dir -> ~ own_file fn (de_name e) -> In e (clear_expired fn age now dir).
Proof. intros Hin Hk. apply clear_expired_exact. split; [assumption|]. intros [_ [_ [Hx _]]]. contradiction. Qed.

(* the file being written was touched during the current interval (<= 1 h ago); max age >= 1 h *)
Corollary keeps_current fn age now dir e :
  In e dir -> 1 <= age -> now - 3600 <= de_mtime e -> In e (clear_expired fn age now dir).
Proof. intros Hin Ha Hm. apply keeps_young; [assumption|]. lia. Qed.

(* names that merely share the prefix are not own files *)
Lemma own_file_suffix_unique fn d1 d2 : fn ++ [dot] ++ d1 = fn ++ [dot] ++ d2 -> d1 = d2.
Proof. intro H. apply app_inv_head in H. now inversion H. Qed.

Lemma foreign_extra_suffix fn mid d :
  mid <> [] -> length d = 14%nat -> ~ own_file fn (fn ++ [dot] ++ mid ++ d).
Proof.
  intros Hm Hl [d' [E [Hl' _]]]. apply own_file_suffix_unique in E. subst d'.
  rewrite app_length in Hl'. destruct mid; [contradiction|]. simpl in Hl'. lia.
Qed.

(* the two appenders of a rolling-file logger ("name" and "name.wf") never own the same file *)
Theorem siblings_disjoint fn ext name :
  ext <> [] -> ~ (own_file fn name /\ own_file (fn ++ [dot] ++ ext) name).
Proof.
  intros Hext [[d1 [E1 [L1 _]]] [d2 [E2 [L2 _]]]]. subst name.
  rewrite <- !app_assoc in E2. apply own_file_suffix_unique in E2. subst d1.
  rewrite !app_length in L1. simpl in L1. lia.
Qed.

Lemma own_file_shape fn name : own_file fn name -> length name = (length fn + 15)%nat.
Proof. intros [d [E [L _]]]. subst. rewrite !app_length. simpl. lia. Qed.

(* an age beyond what a time.Duration holds: the scan deletes nothing at all *)
Theorem unrepresentable_age_deletes_nothing fn age now dir : max_age_fit < Z.abs age -> clear_expired fn age now dir = dir.
Proof.
  intro H. unfold clear_expired. induction dir as [|e r IH]; [reflexivity|]. cbn [filter].
  unfold deletes at 1, age_fits. replace (Z.abs age <=? max_age_fit) with false by (symmetry; apply Z.leb_gt; assumption).
  cbn [andb negb]. rewrite IH. reflexivity.
Qed.

(* for a representable age the deleted entries are exactly: regular file, own name, older than the cut-off *)
Lemma must_delete_representable fn age now e : representable age ->
  (must_delete fn age now e <-> de_kind e = 0%N /\ own_file fn (de_name e) /\ expired age now e).
Proof. unfold must_delete. tauto. Qed.

(* ---- histories of passes ---- *)
Lemma in_apply_updates dir upd e : In e (apply_updates dir upd) <-> (In e dir /\ named (de_name e) upd = false) \/ In e upd.
Proof.
  unfold apply_updates. rewrite in_app_iff, filter_In, negb_true_iff. tauto.
Qed.

(* what a pass does to an entry depends only on the entry as the pass finds it (its current kind, name, mtime) and the clock:
   exactly the must_delete entries of the directory as it is at the pass disappear *)
Theorem pass_exact fn age dir p e :
  In e (pass fn age dir p) <-> In e (apply_updates dir (ph_set p)) /\ ~ must_delete fn age (ph_now p) e.
Proof. unfold pass. apply clear_expired_exact. Qed.

(* an entry written or touched since the previous pass and young at this one survives it, whatever any earlier pass saw under that name *)
Theorem touched_young_survives fn age dir p e :
  In e (ph_set p) -> ph_now p - age * 3600 <= de_mtime e -> In e (pass fn age dir p).
Proof.
  intros Hin Hy. apply pass_exact. split.
  - apply in_apply_updates. right. assumption.
  - intros [_ [_ [_ Hx]]]. unfold expired in Hx. lia.
Qed.

Lemma run_phases_snoc fn age dir ps p : run_phases fn age dir (ps ++ [p]) = pass fn age (run_phases fn age dir ps) p.
Proof. unfold run_phases. rewrite fold_left_app. reflexivity. Qed.

(* over any history: after the last pass, an entry touched before it and young at it is there *)
Theorem history_touched_young_survives fn age dir ps p e :
  In e (ph_set p) -> ph_now p - age * 3600 <= de_mtime e -> In e (run_phases fn age dir (ps ++ [p])).
Proof. intros. rewrite run_phases_snoc. apply touched_young_survives; assumption. Qed.

(* over any history: whatever is in the directory at the end was put there (initially or by a change) and was never
   a must_delete entry at the last pass; nothing appears from nowhere *)
Theorem history_no_invention fn age ps : forall dir e,
  In e (run_phases fn age dir ps) -> In e dir \/ exists p, In p ps /\ In e (ph_set p).
Proof.
  induction ps as [|p ps IH]; intros dir e H; [left; exact H|].
  unfold run_phases in H. cbn [fold_left] in H. apply IH in H. destruct H as [H|[q [Hq He]]].
  - apply pass_exact in H. destruct H as [H _]. apply in_apply_updates in H. destruct H as [[H _]|H].
    + left. exact H.
    + right. exists p. split; [left; reflexivity|exact H].
  - right. exists q. split; [right; exact Hq|exact He].
Qed.

(* over any history: an entry nobody changes and that no pass finds expired stays; with nothing changed at all the
   survivors of a history are the survivors of its individual passes *)
Theorem history_untouched_kept fn age ps : forall dir e,
  In e dir ->
  (forall p, In p ps -> named (de_name e) (ph_set p) = false /\ ~ must_delete fn age (ph_now p) e) ->
  In e (run_phases fn age dir ps).
Proof.
  induction ps as [|p ps IH]; intros dir e Hin Hall; [exact Hin|].
  unfold run_phases. cbn [fold_left]. apply IH.
  - apply pass_exact. destruct (Hall p (or_introl eq_refl)) as [Hn Hd]. split; [|exact Hd].
    apply in_apply_updates. left. split; assumption.
  - intros q Hq. apply Hall. right. exact Hq.
Qed.
