From LogV Require Import Base.Bytes Base.Utf8 Base.JsonStr Model.Escape Proofs.BytesLemmas.

Ltac decide_cmp :=
  repeat match goal with
  | |- context[?a <=? ?b] =>
      first [ replace (a <=? b) with true by (symmetry; apply N.leb_le; lia)
            | replace (a <=? b) with false by (symmetry; apply N.leb_gt; lia) ]
  | |- context[?a <? ?b] =>
      first [ replace (a <? b) with true by (symmetry; apply N.ltb_lt; lia)
            | replace (a <? b) with false by (symmetry; apply N.ltb_ge; lia) ]
  | |- context[?a =? ?b] =>
      first [ replace (a =? b) with true by (symmetry; apply N.eqb_eq; lia)
            | replace (a =? b) with false by (symmetry; apply N.eqb_neq; lia) ]
  end.

(* The Go decoder (first[] / acceptRanges[] transcription) agrees with Unicode Table 3-7. *)
Lemma decode_agree s0 r :
  go_decode_size (s0 :: r) = match wf_len (s0 :: r) with O => 1%nat | n => n end.
Proof.
  assert (H : s0 < 194 \/ (194 <= s0 <= 223) \/ s0 = 224 \/ (225 <= s0 <= 236) \/ s0 = 237 \/
              (238 <= s0 <= 239) \/ s0 = 240 \/ (241 <= s0 <= 243) \/ s0 = 244 \/ 245 <= s0) by lia.
  unfold go_decode_size, wf_len, row_for, first_info, utf8_table.
  cbn [find]. unfold in_range.
  destruct H as [H|[H|[H|[H|[H|[H|[H|[H|[H|H]]]]]]]]]; decide_cmp; cbn [andb orb negb].
  all: try reflexivity.
  all: destruct r as [|s1 [|s2 [|s3 r3]]]; cbn [length Nat.ltb Nat.leb matches_row]; unfold in_range, is_cont; try reflexivity.
  all: repeat match goal with
       | |- context[?a <? ?b] => destruct (N.ltb_spec a b)
       | |- context[?a <=? ?b] => destruct (N.leb_spec a b)
       end; cbn; try reflexivity; try lia.
Qed.

Lemma row_for_in s0 row : row_for s0 = Some row -> In row utf8_table /\
  exists lo hi rest, row = (lo, hi) :: rest /\ in_range lo hi s0 = true.
Proof.
  unfold row_for. intro H. apply find_some in H as [Hin Hm]. split; [assumption|].
  destruct row as [|[lo hi] rest]; [discriminate|]. now exists lo, hi, rest.
Qed.

Definition tail_ok (rest : list (N * N)) : Prop :=
  Forall (fun p => 128 <= fst p) rest /\ (1 <= length rest <= 3)%nat.

Lemma table_tails row lo hi rest : In row utf8_table -> row = (lo, hi) :: rest -> tail_ok rest.
Proof.
  unfold utf8_table. intros Hin E. simpl in Hin.
  repeat (destruct Hin as [Hin|Hin]; [subst row; inversion E; subst; split; [repeat constructor; simpl; lia | simpl; lia]|]).
  destruct Hin.
Qed.

Lemma matches_row_cont rest r :
  Forall (fun p => 128 <= fst p) rest -> matches_row rest r = true ->
  (length rest <= length r)%nat /\ Forall (fun x => 128 <= x) (firstn (length rest) r).
Proof.
  revert r; induction rest as [|[lo hi] rest IH]; intros r Hall Hm; simpl.
  - split; [lia|constructor].
  - destruct r as [|b r']; [discriminate|]. simpl in Hm.
    apply andb_true_iff in Hm as [Hb Hm]. inversion Hall as [|? ? Hlo Hrest]; subst. simpl in Hlo.
    destruct (IH r' Hrest Hm) as [H1 H2]. split; [simpl; lia|].
    constructor; [|assumption]. unfold in_range in Hb. apply andb_true_iff in Hb as [Hb _].
    apply N.leb_le in Hb. lia.
Qed.

Lemma wf_len_S b r n : wf_len (b :: r) = S n ->
  (1 <= n <= 3)%nat /\ (n <= length r)%nat /\ Forall (fun x => 128 <= x) (firstn n r).
Proof.
  unfold wf_len. destruct (row_for b) as [row|] eqn:Hr; [|discriminate].
  destruct (row_for_in _ _ Hr) as [Hin [lo [hi [rest [E _]]]]]. subst row.
  destruct (matches_row rest r) eqn:Hm; [|discriminate].
  intro H. inversion H; subst n. destruct (table_tails _ _ _ _ Hin eq_refl) as [Hall Hlen].
  destruct (matches_row_cont _ _ Hall Hm) as [H1 H2]. repeat split; try lia; assumption.
Qed.

(* ---- unescape on the three shapes the escaper produces ---- *)
Lemma lt128_cases (P : N -> Prop) :
  (forall b, In b (map N.of_nat (seq 0 128)) -> P b) -> forall b, b < 128 -> P b.
Proof.
  intros H b Hb. apply H. apply in_map_iff. exists (N.to_nat b). split; [apply N2Nat.id|].
  apply in_seq. lia.
Qed.

Lemma unescape_ascii b rest : b < 128 ->
  unescape (escape_ascii b ++ rest) = omap_app [b] (unescape rest).
Proof.
  revert b. apply lt128_cases. intros b Hin. cbn in Hin.
  repeat (destruct Hin as [<-|Hin]; [reflexivity|]). destruct Hin.
Qed.

Lemma unescape_ufffd rest : unescape (ufffd_escape ++ rest) = omap_app replacement (unescape rest).
Proof. reflexivity. Qed.

Lemma unescape_raw b rest : 128 <= b -> unescape (b :: rest) = omap_app [b] (unescape rest).
Proof.
  intro H. cbn [unescape]. decide_cmp. reflexivity.
Qed.

(* ---- round trip ---- *)
Lemma roundtrip_gen s : forall k,
  Forall (fun x => 128 <= x) (firstn k s) -> unescape (esc k s) = Some (san k s).
Proof.
  induction s as [|b r IH]; intros k Hk; [destruct k; reflexivity|].
  destruct k as [|k'].
  - cbn [esc san]. destruct (b <? 128) eqn:Hb.
    + apply N.ltb_lt in Hb. rewrite unescape_ascii by assumption.
      rewrite (IH 0%nat) by constructor. reflexivity.
    + apply N.ltb_ge in Hb. rewrite decode_agree.
      destruct (wf_len (b :: r)) as [|n] eqn:Hw.
      * rewrite unescape_ufffd. rewrite (IH 0%nat) by constructor. reflexivity.
      * destruct (wf_len_S _ _ _ Hw) as [Hn [Hlen Hall]].
        assert (E : unescape (b :: esc n r) = Some (b :: san n r)).
        { rewrite unescape_raw by assumption. rewrite (IH n) by assumption. reflexivity. }
        destruct n as [|[|[|[|n]]]]; try lia; exact E.
  - cbn [esc san]. cbn [firstn] in Hk. inversion Hk as [|? ? Hb Hr]; subst.
    rewrite unescape_raw by assumption. rewrite (IH k') by assumption. reflexivity.
Qed.

Theorem escape_roundtrip s : unescape (escape s) = Some (sanitize s).
Proof. apply (roundtrip_gen s 0%nat). constructor. Qed.

(* ---- no raw control byte, no byte of the output is < 0x20 ---- *)
Lemma escape_ascii_ge32 b x : b < 128 -> In x (escape_ascii b) -> 32 <= x.
Proof.
  revert b. apply (lt128_cases (fun b => In x (escape_ascii b) -> 32 <= x)). intros b Hin. cbn in Hin.
  repeat (destruct Hin as [<-|Hin]; [cbn; intros H; repeat (destruct H as [<-|H]; [lia|]); destruct H|]).
  destruct Hin.
Qed.

Lemma esc_ge32 s : forall k x, Forall (fun y => 128 <= y) (firstn k s) -> In x (esc k s) -> 32 <= x.
Proof.
  induction s as [|b r IH]; intros k x Hk Hin; [destruct k; destruct Hin|].
  destruct k as [|k'].
  - cbn [esc] in Hin. destruct (b <? 128) eqn:Hb.
    + apply N.ltb_lt in Hb. apply in_app_or in Hin as [Hin|Hin].
      * eapply escape_ascii_ge32; eauto.
      * apply (IH 0%nat); [constructor|assumption].
    + apply N.ltb_ge in Hb. rewrite decode_agree in Hin.
      destruct (wf_len (b :: r)) as [|n] eqn:Hw.
      * apply in_app_or in Hin as [Hin|Hin]; [cbn in Hin; repeat (destruct Hin as [<-|Hin]; [lia|]); destruct Hin|].
        apply (IH 0%nat); [constructor|assumption].
      * destruct (wf_len_S _ _ _ Hw) as [Hn [Hlen Hall]].
        assert (E : In x (b :: esc n r) -> 32 <= x).
        { intros [<-|H]; [lia|]. now apply (IH n). }
        destruct n as [|[|[|[|n]]]]; try lia; exact (E Hin).
  - cbn [esc] in Hin. cbn [firstn] in Hk. inversion Hk as [|? ? Hb Hr]; subst.
    destruct Hin as [<-|Hin]; [lia|]. now apply (IH k').
Qed.

Theorem escape_no_control s x : In x (escape s) -> 32 <= x.
Proof. apply (esc_ge32 s 0%nat). constructor. Qed.

(* ---- the output is well-formed UTF-8 ---- *)
Lemma esc_skip n r : (n <= length r)%nat -> esc n r = firstn n r ++ esc 0 (skipn n r).
Proof.
  revert r; induction n as [|n IH]; intros r H; [reflexivity|].
  destruct r as [|b r]; [simpl in H; lia|]. cbn [esc firstn skipn app]. f_equal. apply IH. simpl in H. lia.
Qed.

Lemma san_skip n r : (n <= length r)%nat -> san n r = firstn n r ++ san 0 (skipn n r).
Proof.
  revert r; induction n as [|n IH]; intros r H; [reflexivity|].
  destruct r as [|b r]; [simpl in H; lia|]. cbn [san firstn skipn app]. f_equal. apply IH. simpl in H. lia.
Qed.

Lemma matches_row_firstn row r : matches_row row r = true ->
  matches_row row (firstn (length row) r) = true /\ length (firstn (length row) r) = length row.
Proof.
  revert r; induction row as [|[lo hi] row IH]; intros r H; [split; reflexivity|].
  destruct r as [|b r]; [discriminate|]. simpl in *. apply andb_true_iff in H as [H1 H2].
  destruct (IH r H2) as [H3 H4]. rewrite H1, H3, H4. split; reflexivity.
Qed.

Lemma wf_len_seq b r n : wf_len (b :: r) = S n ->
  exists row, In row utf8_table /\ length (b :: firstn n r) = length row /\ matches_row row (b :: firstn n r) = true.
Proof.
  unfold wf_len. destruct (row_for b) as [row|] eqn:Hr; [|discriminate].
  destruct (row_for_in _ _ Hr) as [Hin [lo [hi [rest [E Hb]]]]]. subst row.
  destruct (matches_row rest r) eqn:Hm; [|discriminate].
  intro H. inversion H; subst n. exists ((lo, hi) :: rest). split; [assumption|].
  destruct (matches_row_firstn _ _ Hm) as [H1 H2]. simpl. rewrite H2, Hb, H1. split; reflexivity.
Qed.

Lemma escape_ascii_utf8 b rest : b < 128 -> Utf8 rest -> Utf8 (escape_ascii b ++ rest).
Proof.
  intros Hb Hr. assert (H : Forall (fun x => x < 128) (escape_ascii b)).
  { revert b Hb. apply (lt128_cases (fun b => Forall (fun x => x < 128) (escape_ascii b))). intros b Hin. cbn in Hin.
    repeat (destruct Hin as [<-|Hin]; [cbn; repeat constructor; lia|]). destruct Hin. }
  induction H as [|x l Hx Hl IH]; [assumption|]. simpl. now constructor.
Qed.

Lemma len_ind (P : bytes -> Prop) :
  (forall s, (forall t, (length t < length s)%nat -> P t) -> P s) -> forall s, P s.
Proof.
  intros H s. remember (length s) as n eqn:E. revert s E.
  induction n as [n IH] using lt_wf_ind. intros s E. apply H. intros t Ht. apply (IH (length t)); [lia|reflexivity].
Qed.

Theorem escape_utf8 s : Utf8 (escape s).
Proof.
  unfold escape. induction s as [s IH] using len_ind.
  destruct s as [|b r]; [constructor|]. cbn [esc]. destruct (b <? 128) eqn:Hb.
  - apply N.ltb_lt in Hb. apply escape_ascii_utf8; [assumption|]. apply IH. simpl. lia.
  - rewrite decode_agree. destruct (wf_len (b :: r)) as [|n] eqn:Hw.
    + unfold ufffd_escape. cbn [app]. repeat (apply Utf8_ascii; [lia|]). apply IH. simpl. lia.
    + destruct (wf_len_S _ _ _ Hw) as [Hn [Hlen Hall]].
      destruct (wf_len_seq _ _ _ Hw) as [row [Hin [Hl Hm]]].
      assert (E : Utf8 (b :: esc n r)).
      { rewrite esc_skip by assumption. change (b :: firstn n r ++ esc 0 (skipn n r)) with ((b :: firstn n r) ++ esc 0 (skipn n r)).
        eapply Utf8_multi; eauto. apply IH. simpl. rewrite skipn_length. lia. }
      destruct n as [|[|[|[|n]]]]; try lia; exact E.
Qed.
