From LogV Require Import Base.Bytes Model.Caller.
Open Scope nat_scope.

(* the cache only ever maps a location to its own frame *)
Definition cache_ok (c : cache) : Prop := forall pc f, cache_get c pc = Some f -> f = pc.

Lemma cache_ok_nil : cache_ok [].
Proof. intros pc f H. discriminate. Qed.

Lemma fast_caller_spec fc cf stack c skip : cache_ok c ->
  fst (fast_caller fc cf stack c skip) = nth_error stack skip /\ cache_ok (snd (fast_caller fc cf stack c skip)).
Proof.
  intro Hc. unfold fast_caller, runtime_callers.
  replace (skip + 2) with (S (S skip)) by lia. cbn [nth_error].
  destruct (nth_error stack skip) as [pc|] eqn:E; [|split; [reflexivity|assumption]].
  destruct (cache_get c pc) as [f|] eqn:Eg.
  - split; [cbn; f_equal; now apply Hc|assumption].
  - split; [reflexivity|]. cbn [snd]. intros q f H. cbn [cache_get] in H.
    destruct (N.eqb pc q) eqn:Eq; [inversion H; subst; now apply N.eqb_eq|now apply Hc].
Qed.

(* the entry points pass skip = 1; Record forwards its argument *)
Theorem default_is_caller record entry user rest c skip fc cf :
  fst (record_location true false fc cf (record :: entry :: user :: rest) c skip) = nth_error (entry :: user :: rest) skip.
Proof. unfold record_location, runtime_caller. replace (skip + 1) with (S skip) by lia. reflexivity. Qed.

Theorem fast_is_caller record entry user rest c skip fc cf : cache_ok c ->
  fst (record_location true true fc cf (record :: entry :: user :: rest) c skip) = nth_error (entry :: user :: rest) skip /\
  cache_ok (snd (record_location true true fc cf (record :: entry :: user :: rest) c skip)).
Proof.
  intro Hc. unfold record_location. destruct (fast_caller_spec fc cf (record :: entry :: user :: rest) c (skip + 1) Hc) as [H1 H2].
  split; [|assumption]. rewrite H1. replace (skip + 1) with (S skip) by lia. reflexivity.
Qed.

Theorem modes_agree stack c skip fc cf : cache_ok c -> (2 <= length stack) ->
  fst (record_location true true fc cf stack c skip) = fst (record_location true false fc cf stack c skip).
Proof.
  intros Hc _. unfold record_location. destruct (fast_caller_spec fc cf stack c (skip + 1) Hc) as [H1 _]. rewrite H1. reflexivity.
Qed.

Theorem disabled_is_empty fast stack c skip fc cf : record_location false fast fc cf stack c skip = (None, c).
Proof. reflexivity. Qed.

(* any sequence of lookups (cache fills and hits interleaved) returns what an uncached lookup returns *)
Fixpoint run_lookups (fc cf : frame) (c : cache) (calls : list (list frame * nat)) : list (option frame) :=
  match calls with
  | [] => []
  | (stack, skip) :: r => let '(f, c') := record_location true true fc cf stack c skip in f :: run_lookups fc cf c' r
  end.

Theorem cache_transparent fc cf calls : forall c, cache_ok c ->
  run_lookups fc cf c calls = map (fun sk => nth_error (fst sk) (snd sk + 1)) calls.
Proof.
  induction calls as [|[stack skip] r IH]; intros c Hc; [reflexivity|]. cbn [run_lookups map fst snd].
  unfold record_location. destruct (fast_caller_spec fc cf stack c (skip + 1) Hc) as [H1 H2].
  destruct (fast_caller fc cf stack c (skip + 1)) as [f c'] eqn:E. cbn [fst snd] in *. rewrite H1. f_equal. now apply IH.
Qed.
