(* C05 (descriptors of a running rolling file appender) on the interleaving model: with rotations that do not overlap each other
   - any number of writers, any schedule otherwise, createFile failing anywhere - every open descriptor is the current file, the
   retired one, or the one a rotation in flight has just created; hence at most two whenever no call is inside rotate().
   With overlapping rotations a descriptor can be orphaned for good (descriptor_can_leak). *)
From Coq Require Import Lia ZArith List Bool.
From LogV Require Import Base.Bytes Model.RollingConc Proofs.RollingConcProofs.
Import ListNotations.
Open Scope nat_scope.

(* a step of an execution whose rotations are serial: a CAS is won (c_started grows) only while no rotation is in flight *)
Definition serial_step (s s' : cst) : Prop :=
  cstep s s' /\ (c_started s' <> c_started s -> forall t, rot_of (c_thr s t) = None).

Inductive sreach (s0 : cst) : cst -> Prop :=
| sr_refl : sreach s0 s0
| sr_step s s' : sreach s0 s -> serial_step s s' -> sreach s0 s'.

Lemma sreach_creach s0 s : sreach s0 s -> creach s0 s.
Proof. induction 1 as [|s s' _ IH [Hs _]]; [apply cr_refl|eapply cr_step; eassumption]. Qed.

(* between oldFile.Swap(nil) and oldFile.Store *)
Definition post_swap (p : rpc) : bool :=
  match p with RClosedOld _ _ | RCreated _ _ _ | RLoadedFile _ _ _ _ => true | _ => false end.

Record sinv (s : cst) : Prop := {
  s_one : forall t1 t2, rot_of (c_thr s t1) <> None -> rot_of (c_thr s t2) <> None -> t1 = t2;
  s_open : forall f, c_fopen s f = true -> f = c_file s \/ c_old s = Some f \/ exists t, fresh_of (c_thr s t) = Some f;
  s_loaded : forall t id now f o, c_thr s t = RLoadedFile id now f o -> o = c_file s;
  s_stored : forall t id now f, c_thr s t = RStoredOld id now f -> c_old s = Some (c_file s);
  s_oldnone : forall t, post_swap (c_thr s t) = true -> c_old s = None
}.

Lemma rot_fresh p f : fresh_of p = Some f -> rot_of p <> None.
Proof. destruct p; cbn; intros; congruence. Qed.
Lemma rot_post p : post_swap p = true -> rot_of p <> None.
Proof. destruct p; cbn; intros; congruence. Qed.

Lemma sinv_same s s' :
  c_file s' = c_file s -> c_old s' = c_old s -> c_fopen s' = c_fopen s -> c_thr s' = c_thr s -> sinv s -> sinv s'.
Proof. intros E1 E2 E3 E4 [H1 H2 H3 H4 H5]. constructor; rewrite ?E1, ?E2, ?E3, ?E4; assumption. Qed.

(* goroutine t moves to program counter p; what the invariant needs about p is asked for explicitly *)
Lemma sinv_set_thr s t p : sinv s ->
  (rot_of p <> None -> rot_of (c_thr s t) <> None) ->
  (forall f, fresh_of (c_thr s t) = Some f -> fresh_of p = Some f \/ c_fopen s f = false \/ f = c_file s \/ c_old s = Some f) ->
  (forall f, fresh_of p = Some f -> fresh_of (c_thr s t) = Some f) ->
  (forall id now f o, p = RLoadedFile id now f o -> o = c_file s) ->
  (forall id now f, p = RStoredOld id now f -> c_old s = Some (c_file s)) ->
  (post_swap p = true -> c_old s = None) ->
  sinv (set_thr s t p).
Proof.
  intros [H1 H2 H3 H4 H5] Hr Hf Hf' Hl Hs Hp.
  constructor; cbn [set_thr c_file c_old c_fopen c_thr].
  - intros t1 t2. unfold updf. destruct (Nat.eqb_spec t1 t); destruct (Nat.eqb_spec t2 t); subst; auto.
  - intros f Ho. destruct (H2 f Ho) as [E|[E|(t' & E)]]; auto.
    destruct (Nat.eq_dec t' t) as [->|Hne].
    + destruct (Hf f E) as [E'|[E'|[E'|E']]]; auto; [|congruence].
      right; right. exists t. unfold updf. rewrite Nat.eqb_refl. exact E'.
    + right; right. exists t'. unfold updf. destruct (Nat.eqb_spec t' t); [contradiction|exact E].
  - intros t' id now f o. unfold updf. destruct (Nat.eqb_spec t' t); [intro E; eapply Hl; exact E|apply H3].
  - intros t' id now f. unfold updf. destruct (Nat.eqb_spec t' t); [intro E; eapply Hs; exact E|apply H4].
  - intros t'. unfold updf. destruct (Nat.eqb_spec t' t); [exact Hp|apply H5].
Qed.

Ltac plain := first [ intros; discriminate | intros; congruence | intros ? E; rewrite ?E in *; cbn in *; congruence ].

Lemma sinv_start t0 : sinv (c_start t0).
Proof.
  constructor; unfold c_start; cbn [c_thr c_file c_old c_fopen rot_of fresh_of post_swap]; try (intros; congruence); try (intros; discriminate).
  intros f H. left. destruct (Nat.eqb_spec f 0); [assumption|discriminate].
Qed.

Ltac proj' := cbn [set_thr c_clk c_curr c_file c_old c_nfiles c_fname c_fopen c_fdata c_thr c_seq c_lost c_started c_done c_movers c_storers c_closer c_old_by].

(* the goroutine in rotation is the only one: any other goroutine's program counter carries nothing *)
Lemma only_one s t t' : sinv s -> rot_of (c_thr s t) <> None -> t' <> t -> rot_of (c_thr s t') = None.
Proof.
  intros H Ht Hne. destruct (rot_of (c_thr s t')) eqn:E; [|reflexivity].
  exfalso. apply Hne. apply (s_one s H); [rewrite E; discriminate|exact Ht].
Qed.

Lemma no_fresh_elsewhere s t t' f : sinv s -> rot_of (c_thr s t) <> None -> t' <> t -> fresh_of (c_thr s t') = Some f -> False.
Proof. intros H Ht Hne E. apply (rot_fresh _ _ E). now apply (only_one s t t'). Qed.

Lemma one_preserved s t p : sinv s -> rot_of (c_thr s t) <> None ->
  forall t1 t2, rot_of (updf (c_thr s) t p t1) <> None -> rot_of (updf (c_thr s) t p t2) <> None -> t1 = t2.
Proof.
  intros H Ht t1 t2 A B. destruct (Nat.eq_dec t1 t) as [->|N1]; destruct (Nat.eq_dec t2 t) as [->|N2]; auto.
  - rewrite updf_other in B by assumption. symmetry. apply (s_one s H t2 t); assumption.
  - rewrite updf_other in A by assumption. apply (s_one s H t1 t); assumption.
  - rewrite updf_other in A by assumption. rewrite updf_other in B by assumption. apply (s_one s H); assumption.
Qed.

Theorem serial_step_sinv s s' : serial_step s s' -> sinv s -> sinv s'.
Proof.
  intros [Hs Hser] H. inversion Hs; subst.
  - (* tick *) eapply sinv_same; [..|exact H]; reflexivity.
  - (* begin *) apply sinv_set_thr; [assumption|cbn; congruence|rewrite H0; cbn; discriminate|cbn; discriminate|plain..].
  - (* load_curr_skip *) apply sinv_set_thr; [assumption|cbn; congruence|rewrite H0; cbn; discriminate|cbn; discriminate|plain..].
  - (* load_curr *) apply sinv_set_thr; [assumption|cbn; congruence|rewrite H0; cbn; discriminate|cbn; discriminate|plain..].
  - (* cas_fail *) apply sinv_set_thr; [assumption|cbn; congruence|rewrite H0; cbn; discriminate|cbn; discriminate|plain..].
  - (* cas: nobody was in a rotation *)
    assert (Hq : forall t', rot_of (c_thr s t') = None) by (apply Hser; proj'; lia).
    destruct H as [H1 H2 H3 H4 H5]. constructor; proj'.
    + intros t1 t2 A B. destruct (Nat.eq_dec t1 t) as [->|N1]; destruct (Nat.eq_dec t2 t) as [->|N2]; auto; exfalso.
      * apply B. rewrite updf_other by assumption. apply Hq.
      * apply A. rewrite updf_other by assumption. apply Hq.
      * apply A. rewrite updf_other by assumption. apply Hq.
    + intros f Ho. destruct (H2 f Ho) as [E|[E|(t' & E)]]; auto. exfalso. apply (rot_fresh _ _ E). apply Hq.
    + intros t' id nw f o. unfold updf. destruct (Nat.eqb_spec t' t); [discriminate|apply H3].
    + intros t' id nw f. unfold updf. destruct (Nat.eqb_spec t' t); [discriminate|apply H4].
    + intros t'. unfold updf. destruct (Nat.eqb_spec t' t); [cbn; discriminate|apply H5].
  - (* swap_none *)
    apply sinv_set_thr; [assumption|rewrite H0; cbn; congruence|rewrite H0; cbn; discriminate|cbn; discriminate|plain|plain|intros _; assumption].
  - (* swap_close *)
    assert (Ht : rot_of (c_thr s t) <> None) by (rewrite H0; cbn; discriminate).
    pose proof H as [H2 H3 H4 H5 H6]. constructor; proj'.
    + apply one_preserved; assumption.
    + intros f. unfold updf at 1. destruct (Nat.eqb_spec f o); [discriminate|]. intro Ho.
      destruct (H3 f Ho) as [E|[E|(t' & E)]]; auto; [congruence|].
      exfalso. destruct (Nat.eq_dec t' t) as [->|Hne]; [rewrite H0 in E; discriminate|]. exact (no_fresh_elsewhere s t t' f H Ht Hne E).
    + intros t' id' nw f o'. unfold updf. destruct (Nat.eqb_spec t' t); [discriminate|]. intro E. exfalso.
      assert (Hx : rot_of (c_thr s t') = None) by (apply (only_one s t t'); assumption). rewrite E in Hx. discriminate.
    + intros t' id' nw f. unfold updf. destruct (Nat.eqb_spec t' t); [discriminate|]. intro E. exfalso.
      assert (Hx : rot_of (c_thr s t') = None) by (apply (only_one s t t'); assumption). rewrite E in Hx. discriminate.
    + intros; reflexivity.
  - (* create *)
    assert (Ht : rot_of (c_thr s t) <> None) by (rewrite H0; cbn; discriminate).
    pose proof H as [H2 H3 H4 H5 H6]. constructor; proj'.
    + apply one_preserved; assumption.
    + intros f. unfold updf at 1. destruct (Nat.eqb_spec f (c_nfiles s)).
      * intros _. right; right. exists t. unfold updf. rewrite Nat.eqb_refl. cbn. congruence.
      * intro Ho. destruct (H3 f Ho) as [E|[E|(t' & E)]]; auto.
        exfalso. destruct (Nat.eq_dec t' t) as [->|Hne]; [rewrite H0 in E; discriminate|]. exact (no_fresh_elsewhere s t t' f H Ht Hne E).
    + intros t' id' nw f o'. unfold updf. destruct (Nat.eqb_spec t' t); [discriminate|apply H4].
    + intros t' id' nw f. unfold updf. destruct (Nat.eqb_spec t' t); [discriminate|apply H5].
    + intros t'. unfold updf. destruct (Nat.eqb_spec t' t); [intros _; apply (H6 t); rewrite H0; reflexivity|apply H6].
  - (* create_fail *)
    apply sinv_set_thr; [assumption|cbn; congruence|rewrite H0; cbn; discriminate|cbn; discriminate|plain..].
  - (* load_file *)
    assert (Ht : rot_of (c_thr s t) <> None) by (rewrite H0; cbn; discriminate).
    eapply (sinv_same (set_thr s t (RLoadedFile id now f (c_file s)))); [reflexivity..|].
    apply sinv_set_thr; [assumption|intros _; exact Ht|rewrite H0; cbn; intros g E; left; exact E|rewrite H0; cbn; intros g E; exact E| | |].
    + intros id' nw g o E. inversion E; reflexivity.
    + intros; discriminate.
    + intros _. apply (s_oldnone s H t). rewrite H0. reflexivity.
  - (* store_old *)
    assert (Ht : rot_of (c_thr s t) <> None) by (rewrite H0; cbn; discriminate).
    assert (Eo : o = c_file s) by (eapply (s_loaded s H); eassumption). subst o.
    assert (Eold : c_old s = None) by (apply (s_oldnone s H t); rewrite H0; reflexivity).
    pose proof H as [H2 H3 H4 H5 H6]. constructor; proj'.
    + apply one_preserved; assumption.
    + intros g Ho. destruct (H3 g Ho) as [E|[E|(t' & E)]]; auto; [congruence|].
      right; right. destruct (Nat.eq_dec t' t) as [->|Hne].
      * exists t. unfold updf. rewrite Nat.eqb_refl. rewrite H0 in E. exact E.
      * exfalso. exact (no_fresh_elsewhere s t t' g H Ht Hne E).
    + intros t' id' nw g o'. unfold updf. destruct (Nat.eqb_spec t' t); [discriminate|apply H4].
    + intros t' id' nw g. unfold updf. destruct (Nat.eqb_spec t' t); [reflexivity|]. intro E. exfalso.
      assert (Hx : rot_of (c_thr s t') = None) by (apply (only_one s t t'); assumption). rewrite E in Hx. discriminate.
    + intros t'. unfold updf. destruct (Nat.eqb_spec t' t); [cbn; discriminate|]. intro E. exfalso.
      apply (rot_post _ E). apply (only_one s t t'); assumption.
  - (* store_file *)
    assert (Ht : rot_of (c_thr s t) <> None) by (rewrite H0; cbn; discriminate).
    assert (Eold : c_old s = Some (c_file s)) by (eapply (s_stored s H); eassumption).
    pose proof H as [H2 H3 H4 H5 H6]. constructor; proj'.
    + apply one_preserved; assumption.
    + intros g Ho. destruct (H3 g Ho) as [E|[E|(t' & E)]].
      * right; left. congruence.
      * right; left. exact E.
      * destruct (Nat.eq_dec t' t) as [->|Hne]; [rewrite H0 in E; inversion E; left; reflexivity|].
        exfalso. exact (no_fresh_elsewhere s t t' g H Ht Hne E).
    + intros t' id' nw g o'. unfold updf. destruct (Nat.eqb_spec t' t); [discriminate|]. intro E. exfalso.
      assert (Hx : rot_of (c_thr s t') = None) by (apply (only_one s t t'); assumption). rewrite E in Hx. discriminate.
    + intros t' id' nw g. unfold updf. destruct (Nat.eqb_spec t' t); [discriminate|]. intro E. exfalso.
      assert (Hx : rot_of (c_thr s t') = None) by (apply (only_one s t t'); assumption). rewrite E in Hx. discriminate.
    + intros t'. unfold updf. destruct (Nat.eqb_spec t' t); [cbn; discriminate|]. intro E. exfalso.
      apply (rot_post _ E). apply (only_one s t t'); assumption.
  - (* store_curr *)
    eapply (sinv_same (set_thr s t RToWrite)); [reflexivity..|].
    apply sinv_set_thr; [assumption|cbn; congruence|rewrite H0; cbn; discriminate|cbn; discriminate|plain..].
  - (* load *)
    apply sinv_set_thr; [assumption|cbn; congruence|rewrite H0; cbn; discriminate|cbn; discriminate|plain..].
  - (* write_ok *)
    eapply (sinv_same (set_thr s t RIdle)); [reflexivity..|].
    apply sinv_set_thr; [assumption|cbn; congruence|rewrite H0; cbn; discriminate|cbn; discriminate|plain..].
  - (* write_lost *)
    eapply (sinv_same (set_thr s t RIdle)); [reflexivity..|].
    apply sinv_set_thr; [assumption|cbn; congruence|rewrite H0; cbn; discriminate|cbn; discriminate|plain..].
Qed.

Theorem sreach_sinv t0 s : sreach (c_start t0) s -> sinv s.
Proof. induction 1; [apply sinv_start|eapply serial_step_sinv; eassumption]. Qed.

(* every open descriptor is accounted for at every moment: the current file, the retired one, or the one the (single) rotation in
   flight has created and not yet published - three at most *)
Theorem serial_open_accounted t0 s f : sreach (c_start t0) s -> c_fopen s f = true ->
  f = c_file s \/ c_old s = Some f \/ exists t, fresh_of (c_thr s t) = Some f.
Proof. intros Hr. apply (s_open s (sreach_sinv t0 s Hr)). Qed.

(* ... and two at most whenever no call is inside rotate(): the appender does not accumulate descriptors *)
Theorem serial_two_descriptors_when_quiet t0 s f : sreach (c_start t0) s -> (forall t, rot_of (c_thr s t) = None) ->
  c_fopen s f = true -> f = c_file s \/ c_old s = Some f.
Proof.
  intros Hr Hq Ho. destruct (serial_open_accounted t0 s f Hr Ho) as [E|[E|(t & E)]]; auto.
  exfalso. apply (rot_fresh _ _ E). apply Hq.
Qed.

(* the hypothesis is necessary: with two overlapping rotations a descriptor is orphaned - open, and neither the current file nor
   the retired one, with every goroutine back outside Write. Goroutine 0 rotates at the first boundary and stalls after loading
   the file to retire; goroutine 1 performs a whole rotation at the second boundary; goroutine 0 resumes and publishes ITS file
   over goroutine 1's. Nothing ever closes descriptor 2 again: rotate() only closes what it finds in oldFile. *)
Definition leak_schedule : list act := [ATick 1] ++ steps 0 6 ++ [ATick 1] ++ steps 1 11 ++ steps 0 5.

Theorem descriptor_can_leak :
  exists s, creach (c_start 0) s /\ c_thr s 0 = RIdle /\ c_thr s 1 = RIdle /\ c_file s = 1 /\ c_old s = Some 0 /\ c_fopen s 2 = true /\ c_lost s = [].
Proof.
  destruct (run (c_start 0) leak_schedule) as [s|] eqn:E; [|vm_compute in E; discriminate].
  exists s. split.
  - eapply run_reach; [apply cr_refl|exact E].
  - vm_compute in E. inversion E. cbn. repeat split; reflexivity.
Qed.

(* executable steps are serial steps when a CAS is only won in a state with no rotation in flight *)
Lemma exec_serial s a s' : exec s a = Some s' -> (c_started s' <> c_started s -> forall t, rot_of (c_thr s t) = None) -> serial_step s s'.
Proof. intros E H. split; [eapply exec_sound; exact E|exact H]. Qed.

Lemma quiet_updf (thr : nat -> rpc) t p : (forall t', rot_of (thr t') = None) -> rot_of p = None -> forall t', rot_of (updf thr t p t') = None.
Proof. intros H Hp t'. unfold updf. destruct (Nat.eqb t' t); [exact Hp|apply H]. Qed.

(* non-vacuity: a serial execution that wins a CAS (goroutine 0 at the first boundary) and completes the rotation *)
Example serial_execution_exists :
  exists s, sreach (c_start 0) s /\ c_file s = 1 /\ c_old s = Some 0 /\ (forall t, rot_of (c_thr s t) = None) /\ c_fopen s 0 = true /\ c_fopen s 1 = true.
Proof.
  (* tick, begin, load currTime *)
  destruct (run (c_start 0) ([ATick 1] ++ steps 0 2)) as [s1|] eqn:E1; [|vm_compute in E1; discriminate].
  assert (R1 : sreach (c_start 0) s1).
  { revert E1. cbn [app steps repeat run]. 
    destruct (exec (c_start 0) (ATick 1)) as [a|] eqn:Ea; [|discriminate].
    destruct (exec a (AStep 0)) as [b|] eqn:Eb; [|discriminate].
    destruct (exec b (AStep 0)) as [c|] eqn:Ec; [|discriminate]. intro X; inversion X; subst c.
    eapply sr_step; [eapply sr_step; [eapply sr_step; [apply sr_refl|]|]|]; (eapply exec_serial; [eassumption|]).
    - vm_compute in Ea. inversion Ea; subst a. cbn. congruence.
    - vm_compute in Ea. inversion Ea; subst a. vm_compute in Eb. inversion Eb; subst b. cbn. congruence.
    - vm_compute in Ea. inversion Ea; subst a. vm_compute in Eb. inversion Eb; subst b. vm_compute in Ec. inversion Ec; subst s1. cbn. congruence. }
  assert (Q1 : forall t, rot_of (c_thr s1 t) = None).
  { vm_compute in E1. inversion E1; subst s1. cbn [c_thr]. intro t. destruct t as [|t]; reflexivity. }
  (* the CAS and the rest of the rotation, then the write: 9 more steps of goroutine 0, each serial *)
  assert (G : forall n sa, sreach (c_start 0) sa -> forall sb, run sa (steps 0 n) = Some sb ->
              (forall k sk, k < n -> run sa (steps 0 k) = Some sk -> c_started sk = c_started sa \/ k = 0) -> True) by (intros; exact I).
  clear G.
  destruct (exec s1 (AStep 0)) as [s2|] eqn:E2; [|vm_compute in E1; inversion E1; subst s1; vm_compute in E2; discriminate].
  assert (R2 : sreach (c_start 0) s2) by (eapply sr_step; [exact R1|eapply exec_serial; [exact E2|intros _; exact Q1]]).
  destruct (run s2 (steps 0 8)) as [s|] eqn:E3; [|vm_compute in E1; inversion E1; subst s1; vm_compute in E2; inversion E2; subst s2; vm_compute in E3; discriminate].
  exists s.
  assert (St : forall n sa sb, sreach (c_start 0) sa -> run sa (steps 0 n) = Some sb ->
               (forall k sk sk', k < n -> run sa (steps 0 k) = Some sk -> exec sk (AStep 0) = Some sk' -> c_started sk' = c_started sk) -> sreach (c_start 0) sb).
  { induction n as [|n IH]; intros sa sb Ra Er Hk; [cbn in Er; inversion Er; subst; exact Ra|].
    cbn [steps repeat run] in Er. destruct (exec sa (AStep 0)) as [sm|] eqn:Em; [|discriminate].
    apply (IH sm sb); [eapply sr_step; [exact Ra|eapply exec_serial; [exact Em|]]|exact Er|].
    - intro Hne. exfalso. apply Hne. apply (Hk 0 sa sm); [lia|reflexivity|exact Em].
    - intros k sk sk' Hlt Erk Ex. apply (Hk (S k) sk sk'); [lia| |exact Ex]. cbn [steps repeat run]. rewrite Em. exact Erk. }
  vm_compute in E1. inversion E1; subst s1. vm_compute in E2. inversion E2; subst s2.
  split.
  - eapply (St 8); [exact R2|exact E3|].
    intros k sk sk' Hlt Erk Ex.
    do 8 (destruct k as [|k]; [vm_compute in Erk; inversion Erk; subst sk; vm_compute in Ex; inversion Ex; reflexivity|]). lia.
  - vm_compute in E3. inversion E3. cbn. repeat split; try reflexivity. intro t. destruct t as [|t]; reflexivity.
Qed.
