(* C13 - invariants of the concurrent rolling-appender model over every interleaving. *)
From Coq Require Import Lia ZArith List Bool.
From LogV Require Import Base.Bytes Model.RollingConc.
Import ListNotations.
Open Scope nat_scope.

Definition holding_ok (s : cst) (f : nat) (d0 : nat -> bool) : Prop :=
  f < c_nfiles s /\
  (forall j, d0 j = true -> c_done s j = true) /\
  (forall j, c_movers s f j = true -> d0 j = false) /\
  (forall k, c_closer s f = Some k -> d0 k = false).

Record cinv (s : cst) : Prop := {
  i_file_lt : c_file s < c_nfiles s;
  i_old_lt : forall o, c_old s = Some o -> o < c_nfiles s;
  i_mov_lt : forall f j, c_movers s f j = true -> f < c_nfiles s /\ j < c_started s;
  i_sto_mov : forall f j, c_storers s f j = true -> c_movers s f j = true;
  i_clo_lt : forall f k, c_closer s f = Some k -> f < c_nfiles s /\ k < c_started s;
  i_done_lt : forall j, c_done s j = true -> j < c_started s;
  i_oldby_lt : forall j, c_old_by s = Some j -> j < c_started s;
  i_rot_lt : forall t j, rot_of (c_thr s t) = Some j -> j < c_started s /\ c_done s j = false;
  i_rot_uniq : forall t1 t2 j, rot_of (c_thr s t1) = Some j -> rot_of (c_thr s t2) = Some j -> t1 = t2;
  i_fresh : forall t f, fresh_of (c_thr s t) = Some f ->
      f < c_nfiles s /\ f <> c_file s /\ c_fopen s f = true /\ c_closer s f = None /\ (forall j, c_movers s f j = false) /\ c_old s <> Some f;
  i_fresh_uniq : forall t1 t2 f, fresh_of (c_thr s t1) = Some f -> fresh_of (c_thr s t2) = Some f -> t1 = t2;
  i_loaded : forall t id now f o, c_thr s t = RLoadedFile id now f o -> c_movers s o id = true;
  i_won : forall j, c_old_by s = Some j -> forall t k now, c_thr s t = RWon k now -> k <> j;
  i_old_by : forall o, c_old s = Some o -> exists j, c_old_by s = Some j /\ c_storers s o j = true;
  i_done_mov : forall f j, c_done s j = true -> c_movers s f j = true -> f <> c_file s;
  i_closer_cur : forall k, c_closer s (c_file s) = Some k -> c_done s k = false;
  i_closer_sto : forall f k, c_closer s f = Some k -> exists j, c_storers s f j = true /\ j <> k;
  i_closed : forall f, f < c_nfiles s -> c_fopen s f = false -> exists k, c_closer s f = Some k;
  i_holding : forall t f d0, c_thr s t = RHolding f d0 -> holding_ok s f d0;
  i_sto_flight : forall f j, c_storers s f j = true -> c_done s j = true \/ exists t now g, c_thr s t = RStoredOld j now g
}.

Lemma updf_same {A} (f : nat -> A) k v : updf f k v k = v.
Proof. unfold updf. now rewrite Nat.eqb_refl. Qed.
Lemma updf_other {A} (f : nat -> A) k v q : q <> k -> updf f k v q = f q.
Proof. unfold updf. intro H. destruct (Nat.eqb_spec q k); [contradiction|reflexivity]. Qed.
Lemma updf2_true f k j q r : updf2 f k j q r = true -> (q = k /\ r = j) \/ f q r = true.
Proof.
  unfold updf2. destruct (Nat.eqb_spec q k); destruct (Nat.eqb_spec r j); cbn; intro H; auto.
Qed.
Lemma updf2_mono f k j q r : f q r = true -> updf2 f k j q r = true.
Proof. unfold updf2. intro H. destruct (Nat.eqb q k && Nat.eqb r j); auto. Qed.
Lemma updf2_new f k j : updf2 f k j k j = true.
Proof. unfold updf2. now rewrite !Nat.eqb_refl. Qed.

(* the invariant only reads these components *)
Lemma cinv_same s s' :
  c_file s' = c_file s -> c_old s' = c_old s -> c_nfiles s' = c_nfiles s -> c_fopen s' = c_fopen s -> c_thr s' = c_thr s ->
  c_started s' = c_started s -> c_done s' = c_done s -> c_movers s' = c_movers s -> c_storers s' = c_storers s ->
  c_closer s' = c_closer s -> c_old_by s' = c_old_by s -> cinv s -> cinv s'.
Proof.
  intros E1 E2 E3 E4 E5 E6 E7 E8 E9 E10 E11 H. destruct H.
  constructor; unfold holding_ok in *; rewrite ?E1, ?E2, ?E3, ?E4, ?E5, ?E6, ?E7, ?E8, ?E9, ?E10, ?E11; assumption.
Qed.

(* a goroutine moves to a program counter that carries no new obligations *)
Lemma cinv_set_thr s t p : cinv s ->
  (rot_of p = None \/ rot_of p = rot_of (c_thr s t)) ->
  (fresh_of p = None \/ fresh_of p = fresh_of (c_thr s t)) ->
  (forall id now f o, p = RLoadedFile id now f o -> c_thr s t = RLoadedFile id now f o) ->
  (forall k now, p = RWon k now -> c_thr s t = RWon k now) ->
  (forall j now g, c_thr s t = RStoredOld j now g -> False) ->
  (forall f d0, p = RHolding f d0 -> holding_ok s f d0) ->
  cinv (set_thr s t p).
Proof.
  intros H Hr Hf Hl Hw Hso Hh. destruct H.
  assert (Hrot : forall t' j, rot_of (updf (c_thr s) t p t') = Some j -> rot_of (c_thr s t') = Some j \/ (t' = t /\ rot_of (c_thr s t) = Some j)).
  { intros t' j. unfold updf. destruct (Nat.eqb_spec t' t); [subst|auto]. intro E. destruct Hr as [Hr|Hr]; [congruence|]. right. split; congruence. }
  assert (Hfr : forall t' f, fresh_of (updf (c_thr s) t p t') = Some f -> fresh_of (c_thr s t') = Some f \/ (t' = t /\ fresh_of (c_thr s t) = Some f)).
  { intros t' f. unfold updf. destruct (Nat.eqb_spec t' t); [subst|auto]. intro E. destruct Hf as [Hf|Hf]; [congruence|]. right. split; congruence. }
  constructor; cbn [set_thr c_file c_old c_nfiles c_fopen c_thr c_started c_done c_movers c_storers c_closer c_old_by]; try assumption.
  - intros t' j E. destruct (Hrot _ _ E) as [E'|[_ E']]; eauto.
  - intros t1 t2 j E1 E2.
    destruct (Hrot _ _ E1) as [E1'|[-> E1']]; destruct (Hrot _ _ E2) as [E2'|[-> E2']]; eauto.
  - intros t' f E. destruct (Hfr _ _ E) as [E'|[_ E']]; eauto.
  - intros t1 t2 f E1 E2.
    destruct (Hfr _ _ E1) as [E1'|[-> E1']]; destruct (Hfr _ _ E2) as [E2'|[-> E2']]; eauto.
  - intros t' id now f o. unfold updf. destruct (Nat.eqb_spec t' t); [subst; intro E; eauto|eauto].
  - intros j Hj t' k now. unfold updf. destruct (Nat.eqb_spec t' t); [subst; intro E; eauto|eauto].
  - intros t' f d0. unfold updf. destruct (Nat.eqb_spec t' t); [subst; intro E; unfold holding_ok in *; eauto|eauto].
  - intros f j E. destruct (i_sto_flight0 _ _ E) as [Hd|(t' & nw & g & Et')]; [left; assumption|right].
    exists t', nw, g. rewrite updf_other; [assumption|]. intro; subst t'. exact (Hso _ _ _ Et').
Qed.

Ltac proj := cbn [set_thr c_clk c_curr c_file c_old c_nfiles c_fname c_fopen c_fdata c_thr c_seq c_lost c_started c_done c_movers c_storers c_closer c_old_by].

Lemma cinv_start t0 : cinv (c_start t0).
Proof.
  constructor; unfold c_start; proj; try discriminate; try (intros; discriminate); try lia.
  - intros f Hf Ho. destruct (Nat.eqb_spec f 0); [discriminate|]. lia.
Qed.

Lemma cinv_cas s t now oldt : cinv s -> c_thr s t = RLoadedCurr now oldt ->
  cinv {| c_clk := c_clk s; c_curr := now; c_file := c_file s; c_old := c_old s; c_nfiles := c_nfiles s; c_fname := c_fname s;
          c_fopen := c_fopen s; c_fdata := c_fdata s; c_thr := updf (c_thr s) t (RWon (c_started s) now); c_seq := c_seq s; c_lost := c_lost s;
          c_started := S (c_started s); c_done := c_done s; c_movers := c_movers s; c_storers := c_storers s; c_closer := c_closer s; c_old_by := c_old_by s |}.
Proof.
  intros H Ht. destruct H. constructor; proj; try assumption.
  - intros f j E. destruct (i_mov_lt0 _ _ E). lia.
  - intros f k E. destruct (i_clo_lt0 _ _ E). lia.
  - intros j E. specialize (i_done_lt0 _ E). lia.
  - intros j E. specialize (i_oldby_lt0 _ E). lia.
  - intros t' j. unfold updf. destruct (Nat.eqb_spec t' t).
    + cbn. intro E. inversion E; subst. split; [lia|]. destruct (c_done s (c_started s)) eqn:Ed; [|reflexivity]. specialize (i_done_lt0 _ Ed). lia.
    + intro E. destruct (i_rot_lt0 _ _ E). split; [lia|assumption].
  - intros t1 t2 j. unfold updf. destruct (Nat.eqb_spec t1 t); destruct (Nat.eqb_spec t2 t); subst; auto; cbn; intros E1 E2.
    + inversion E1; subst. destruct (i_rot_lt0 _ _ E2). lia.
    + inversion E2; subst. destruct (i_rot_lt0 _ _ E1). lia.
    + eauto.
  - intros t' f. unfold updf. destruct (Nat.eqb_spec t' t); [cbn; discriminate|eauto].
  - intros t1 t2 f. unfold updf. destruct (Nat.eqb_spec t1 t); destruct (Nat.eqb_spec t2 t); subst; auto; cbn; try discriminate. eauto.
  - intros t' id nw f o. unfold updf. destruct (Nat.eqb_spec t' t); [discriminate|eauto].
  - intros j Hj t' k nw. unfold updf. destruct (Nat.eqb_spec t' t).
    + intro E. inversion E; subst. specialize (i_oldby_lt0 _ Hj). lia.
    + eauto.
  - intros t' f d0. unfold updf. destruct (Nat.eqb_spec t' t); [discriminate|]. intro E. exact (i_holding0 _ _ _ E).
  - intros f0 j0 E0. destruct (i_sto_flight0 _ _ E0) as [Hd0|(t0' & nw0 & g0 & Et0')]; [left; assumption|right].
    exists t0', nw0, g0. rewrite updf_other; [assumption|]. intro; subst t0'. rewrite Ht in Et0'. discriminate.
Qed.

Lemma cinv_swap_close s t id now o : cinv s -> c_thr s t = RWon id now -> c_old s = Some o ->
  cinv {| c_clk := c_clk s; c_curr := c_curr s; c_file := c_file s; c_old := None; c_nfiles := c_nfiles s; c_fname := c_fname s;
          c_fopen := updf (c_fopen s) o false; c_fdata := c_fdata s; c_thr := updf (c_thr s) t (RClosedOld id now); c_seq := c_seq s; c_lost := c_lost s;
          c_started := c_started s; c_done := c_done s; c_movers := c_movers s; c_storers := c_storers s;
          c_closer := (if c_fopen s o then updf (c_closer s) o (Some id) else c_closer s); c_old_by := None |}.
Proof.
  intros H Ht Ho. destruct H.
  assert (Hid : id < c_started s /\ c_done s id = false) by (apply (i_rot_lt0 t); rewrite Ht; reflexivity).
  assert (Hclo : forall f k, (if c_fopen s o then updf (c_closer s) o (Some id) else c_closer s) f = Some k ->
                             c_closer s f = Some k \/ (f = o /\ k = id)).
  { intros f k. destruct (c_fopen s o); [|auto]. unfold updf. destruct (Nat.eqb_spec f o); [|auto]. intro E; inversion E; auto. }
  constructor; proj; try assumption; try discriminate.
  - intros f k E. destruct (Hclo _ _ E) as [E'|[-> ->]]; [eauto|]. split; [eauto|tauto].
  - intros t' j. unfold updf. destruct (Nat.eqb_spec t' t); [cbn; intro E; inversion E; subst; assumption|eauto].
  - intros t1 t2 j. unfold updf. destruct (Nat.eqb_spec t1 t); destruct (Nat.eqb_spec t2 t); subst; auto; cbn; intros E1 E2.
    + inversion E1; subst. apply (i_rot_uniq0 t t2 j); [rewrite Ht; reflexivity|assumption].
    + inversion E2; subst. apply (i_rot_uniq0 t1 t j); [assumption|rewrite Ht; reflexivity].
    + eauto.
  - intros t' f. unfold updf at 1. destruct (Nat.eqb_spec t' t); [cbn; discriminate|]. intro E.
    destruct (i_fresh0 _ _ E) as (H1 & H2 & H3 & H4 & H5 & H6).
    assert (f <> o) by congruence.
    repeat split; auto.
    + rewrite updf_other by assumption. assumption.
    + destruct (c_fopen s o); [rewrite updf_other by assumption|]; assumption.
    + discriminate.
  - intros t1 t2 f. unfold updf. destruct (Nat.eqb_spec t1 t); destruct (Nat.eqb_spec t2 t); subst; auto; cbn; try discriminate. eauto.
  - intros t' id' nw f o'. unfold updf. destruct (Nat.eqb_spec t' t); [discriminate|eauto].
  - intros k E. destruct (Hclo _ _ E) as [E'|[_ ->]]; [eauto|tauto].
  - intros f k E. destruct (Hclo _ _ E) as [E'|[-> ->]]; [eauto|].
    destruct (i_old_by0 _ Ho) as (j & Hj & Hs). exists j. split; [assumption|].
    intro; subst j. exact (i_won0 _ Hj t id now Ht eq_refl).
  - intros f Hf. unfold updf at 1. destruct (Nat.eqb_spec f o).
    + subst f. intros _. destruct (c_fopen s o) eqn:Eo; [rewrite updf_same; eauto|]. apply i_closed0; assumption.
    + intro E. destruct (i_closed0 _ Hf E) as (k & Hk). exists k.
      destruct (c_fopen s o); [rewrite updf_other by assumption|]; assumption.
  - intros t' f d0. unfold updf at 1. destruct (Nat.eqb_spec t' t); [discriminate|]. intro E.
    destruct (i_holding0 _ _ _ E) as (H1 & H2 & H3 & H4). repeat split; auto.
    intros k Ek. destruct (Hclo _ _ Ek) as [E'|[-> ->]]; [eauto|].
    destruct (d0 id) eqn:Ed; [|reflexivity]. specialize (H2 _ Ed). destruct Hid. congruence.
  - intros f0 j0 E0. destruct (i_sto_flight0 _ _ E0) as [Hd0|(t0' & nw0 & g0 & Et0')]; [left; assumption|right].
    exists t0', nw0, g0. rewrite updf_other; [assumption|]. intro; subst t0'. rewrite Ht in Et0'. discriminate.
Qed.

Lemma cinv_create s t id now : cinv s -> c_thr s t = RClosedOld id now ->
  cinv {| c_clk := c_clk s; c_curr := c_curr s; c_file := c_file s; c_old := c_old s; c_nfiles := S (c_nfiles s); c_fname := updf (c_fname s) (c_nfiles s) now;
          c_fopen := updf (c_fopen s) (c_nfiles s) true; c_fdata := c_fdata s; c_thr := updf (c_thr s) t (RCreated id now (c_nfiles s)); c_seq := c_seq s; c_lost := c_lost s;
          c_started := c_started s; c_done := c_done s; c_movers := c_movers s; c_storers := c_storers s; c_closer := c_closer s; c_old_by := c_old_by s |}.
Proof.
  intros H Ht. destruct H.
  assert (Hid : id < c_started s /\ c_done s id = false) by (apply (i_rot_lt0 t); rewrite Ht; reflexivity).
  constructor; proj; try assumption.
  - lia.
  - intros o E. specialize (i_old_lt0 _ E). lia.
  - intros f j E. destruct (i_mov_lt0 _ _ E). lia.
  - intros f k E. destruct (i_clo_lt0 _ _ E). lia.
  - intros t' j. unfold updf. destruct (Nat.eqb_spec t' t); [cbn; intro E; inversion E; subst; assumption|eauto].
  - intros t1 t2 j. unfold updf. destruct (Nat.eqb_spec t1 t); destruct (Nat.eqb_spec t2 t); subst; auto; cbn; intros E1 E2.
    + inversion E1; subst. apply (i_rot_uniq0 t t2 j); [rewrite Ht; reflexivity|assumption].
    + inversion E2; subst. apply (i_rot_uniq0 t1 t j); [assumption|rewrite Ht; reflexivity].
    + eauto.
  - intros t' f. unfold updf at 1. destruct (Nat.eqb_spec t' t).
    + cbn. intro E. inversion E; subst f. repeat split.
      * lia.
      * lia.
      * apply updf_same.
      * destruct (c_closer s (c_nfiles s)) eqn:Ec; [|reflexivity]. destruct (i_clo_lt0 _ _ Ec). lia.
      * intro j. destruct (c_movers s (c_nfiles s) j) eqn:Em; [|reflexivity]. destruct (i_mov_lt0 _ _ Em). lia.
      * intro Eo. specialize (i_old_lt0 _ Eo). lia.
    + intro E. destruct (i_fresh0 _ _ E) as (H1 & H2 & H3 & H4 & H5 & H6). repeat split; auto.
      rewrite updf_other by lia. assumption.
  - intros t1 t2 f. unfold updf. destruct (Nat.eqb_spec t1 t); destruct (Nat.eqb_spec t2 t); subst; auto; cbn; intros E1 E2.
    + inversion E1; subst. destruct (i_fresh0 _ _ E2). lia.
    + inversion E2; subst. destruct (i_fresh0 _ _ E1). lia.
    + eauto.
  - intros t' id' nw f o. unfold updf. destruct (Nat.eqb_spec t' t); [discriminate|eauto].
  - intros j Hj t' k nw. unfold updf. destruct (Nat.eqb_spec t' t); [discriminate|eauto].
  - intros f Hf. unfold updf at 1. destruct (Nat.eqb_spec f (c_nfiles s)); [discriminate|]. intro E. apply i_closed0; [lia|assumption].
  - intros t' f d0. unfold updf at 1. destruct (Nat.eqb_spec t' t); [discriminate|]. intro E.
    destruct (i_holding0 _ _ _ E) as (H1 & H2 & H3 & H4). unfold holding_ok; proj. split; [lia|]. repeat split; auto.
  - intros f0 j0 E0. destruct (i_sto_flight0 _ _ E0) as [Hd0|(t0' & nw0 & g0 & Et0')]; [left; assumption|right].
    exists t0', nw0, g0. rewrite updf_other; [assumption|]. intro; subst t0'. rewrite Ht in Et0'. discriminate.
Qed.

Lemma cinv_load_file s t id now f : cinv s -> c_thr s t = RCreated id now f ->
  cinv {| c_clk := c_clk s; c_curr := c_curr s; c_file := c_file s; c_old := c_old s; c_nfiles := c_nfiles s; c_fname := c_fname s;
          c_fopen := c_fopen s; c_fdata := c_fdata s; c_thr := updf (c_thr s) t (RLoadedFile id now f (c_file s)); c_seq := c_seq s; c_lost := c_lost s;
          c_started := c_started s; c_done := c_done s; c_movers := updf2 (c_movers s) (c_file s) id; c_storers := c_storers s; c_closer := c_closer s; c_old_by := c_old_by s |}.
Proof.
  intros H Ht. destruct H.
  assert (Hid : id < c_started s /\ c_done s id = false) by (apply (i_rot_lt0 t); rewrite Ht; reflexivity).
  assert (Hf : fresh_of (c_thr s t) = Some f) by (rewrite Ht; reflexivity).
  constructor; proj; try assumption.
  - intros g j E. apply updf2_true in E as [[-> ->]|E]; [split; [assumption|tauto]|eauto].
  - intros g j E. apply updf2_mono. eauto.
  - intros t' j. unfold updf. destruct (Nat.eqb_spec t' t); [cbn; intro E; inversion E; subst; assumption|eauto].
  - intros t1 t2 j. unfold updf. destruct (Nat.eqb_spec t1 t); destruct (Nat.eqb_spec t2 t); subst; auto; cbn; intros E1 E2.
    + inversion E1; subst. apply (i_rot_uniq0 t t2 j); [rewrite Ht; reflexivity|assumption].
    + inversion E2; subst. apply (i_rot_uniq0 t1 t j); [assumption|rewrite Ht; reflexivity].
    + eauto.
  - intros t' g E.
    assert (Hg : fresh_of (c_thr s t') = Some g).
    { revert E. unfold updf. destruct (Nat.eqb_spec t' t); [subst; cbn; intro E; inversion E; subst; exact Hf|auto]. }
    destruct (i_fresh0 _ _ Hg) as (H1 & H2 & H3 & H4 & H5 & H6). repeat split; auto.
    intro j. unfold updf2. destruct (Nat.eqb_spec g (c_file s)); [contradiction|]. cbn. apply H5.
  - intros t1 t2 g E1 E2.
    assert (Hg : forall t', fresh_of (updf (c_thr s) t (RLoadedFile id now f (c_file s)) t') = Some g -> fresh_of (c_thr s t') = Some g).
    { intros t'. unfold updf. destruct (Nat.eqb_spec t' t); [subst; cbn; intro E; inversion E; subst; exact Hf|auto]. }
    eauto.
  - intros t' id' nw g o. unfold updf at 1. destruct (Nat.eqb_spec t' t).
    + intro E. inversion E; subst. apply updf2_new.
    + intro E. apply updf2_mono. eauto.
  - intros j Hj t' k nw. unfold updf. destruct (Nat.eqb_spec t' t); [discriminate|eauto].
  - intros g j Hd E. apply updf2_true in E as [[-> ->]|E]; [destruct Hid; congruence|eauto].
  - intros t' g d0. unfold updf at 1. destruct (Nat.eqb_spec t' t); [discriminate|]. intro E.
    destruct (i_holding0 _ _ _ E) as (H1 & H2 & H3 & H4). repeat split; auto.
    intros j Em. apply updf2_true in Em as [[-> ->]|Em]; [|eauto].
    destruct (d0 id) eqn:Ed; [|reflexivity]. specialize (H2 _ Ed). destruct Hid. congruence.
  - intros f0 j0 E0. destruct (i_sto_flight0 _ _ E0) as [Hd0|(t0' & nw0 & g0 & Et0')]; [left; assumption|right].
    exists t0', nw0, g0. rewrite updf_other; [assumption|]. intro; subst t0'. rewrite Ht in Et0'. discriminate.
Qed.

Lemma cinv_store_old s t id now f o : cinv s -> c_thr s t = RLoadedFile id now f o ->
  cinv {| c_clk := c_clk s; c_curr := c_curr s; c_file := c_file s; c_old := Some o; c_nfiles := c_nfiles s; c_fname := c_fname s;
          c_fopen := c_fopen s; c_fdata := c_fdata s; c_thr := updf (c_thr s) t (RStoredOld id now f); c_seq := c_seq s; c_lost := c_lost s;
          c_started := c_started s; c_done := c_done s; c_movers := c_movers s; c_storers := updf2 (c_storers s) o id; c_closer := c_closer s; c_old_by := Some id |}.
Proof.
  intros H Ht. destruct H.
  assert (Hid : id < c_started s /\ c_done s id = false) by (apply (i_rot_lt0 t); rewrite Ht; reflexivity).
  assert (Hf : fresh_of (c_thr s t) = Some f) by (rewrite Ht; reflexivity).
  assert (Hm : c_movers s o id = true) by (eapply i_loaded0; eassumption).
  constructor; proj; try assumption.
  - intros o' E. inversion E; subst. apply (i_mov_lt0 _ _ Hm).
  - intros g j E. apply updf2_true in E as [[-> ->]|E]; [assumption|eauto].
  - intros j E. inversion E; subst. tauto.
  - intros t' j. unfold updf. destruct (Nat.eqb_spec t' t); [cbn; intro E; inversion E; subst; assumption|eauto].
  - intros t1 t2 j. unfold updf. destruct (Nat.eqb_spec t1 t); destruct (Nat.eqb_spec t2 t); subst; auto; cbn; intros E1 E2.
    + inversion E1; subst. apply (i_rot_uniq0 t t2 j); [rewrite Ht; reflexivity|assumption].
    + inversion E2; subst. apply (i_rot_uniq0 t1 t j); [assumption|rewrite Ht; reflexivity].
    + eauto.
  - intros t' g E.
    assert (Hg : fresh_of (c_thr s t') = Some g).
    { revert E. unfold updf. destruct (Nat.eqb_spec t' t); [subst; cbn; intro E; inversion E; subst; exact Hf|auto]. }
    destruct (i_fresh0 _ _ Hg) as (H1 & H2 & H3 & H4 & H5 & H6). repeat split; auto.
    intro Eo. inversion Eo; subst. rewrite H5 in Hm. discriminate.
  - intros t1 t2 g E1 E2.
    assert (Hg : forall t', fresh_of (updf (c_thr s) t (RStoredOld id now f) t') = Some g -> fresh_of (c_thr s t') = Some g).
    { intros t'. unfold updf. destruct (Nat.eqb_spec t' t); [subst; cbn; intro E; inversion E; subst; exact Hf|auto]. }
    eauto.
  - intros t' id' nw g o'. unfold updf. destruct (Nat.eqb_spec t' t); [discriminate|eauto].
  - intros j Hj t' k nw. inversion Hj; subst j. unfold updf. destruct (Nat.eqb_spec t' t); [discriminate|].
    intros E Ek. subst k. apply n. apply (i_rot_uniq0 t' t id); [rewrite E; reflexivity|rewrite Ht; reflexivity].
  - intros o' E. inversion E; subst. exists id. split; [reflexivity|apply updf2_new].
  - intros g k E. destruct (i_closer_sto0 _ _ E) as (j & Hj & Hn). exists j. split; [apply updf2_mono; assumption|assumption].
  - intros t' g d0. unfold updf at 1. destruct (Nat.eqb_spec t' t); [discriminate|]. intro E. exact (i_holding0 _ _ _ E).
  - intros f0 j0 E0. apply updf2_true in E0 as [[-> ->]|E0].
    + right. exists t, now, f. apply updf_same.
    + destruct (i_sto_flight0 _ _ E0) as [Hd0|(t0' & nw0 & g0 & Et0')]; [left; assumption|right].
      exists t0', nw0, g0. rewrite updf_other; [assumption|]. intro; subst t0'. rewrite Ht in Et0'. discriminate.
Qed.

Lemma cinv_store_file s t id now f : cinv s -> c_thr s t = RStoredOld id now f ->
  cinv {| c_clk := c_clk s; c_curr := c_curr s; c_file := f; c_old := c_old s; c_nfiles := c_nfiles s; c_fname := c_fname s;
          c_fopen := c_fopen s; c_fdata := c_fdata s; c_thr := updf (c_thr s) t (RStoredFile id now); c_seq := c_seq s; c_lost := c_lost s;
          c_started := c_started s; c_done := updf (c_done s) id true; c_movers := c_movers s; c_storers := c_storers s; c_closer := c_closer s; c_old_by := c_old_by s |}.
Proof.
  intros H Ht. destruct H.
  assert (Hid : id < c_started s /\ c_done s id = false) by (apply (i_rot_lt0 t); rewrite Ht; reflexivity).
  assert (Hf : fresh_of (c_thr s t) = Some f) by (rewrite Ht; reflexivity).
  destruct (i_fresh0 _ _ Hf) as (F1 & F2 & F3 & F4 & F5 & F6).
  constructor; proj; try assumption.
  - intros j. unfold updf. destruct (Nat.eqb_spec j id); [subst; tauto|eauto].
  - intros t' j. unfold updf at 1. destruct (Nat.eqb_spec t' t); [cbn; discriminate|]. intro E.
    destruct (i_rot_lt0 _ _ E). split; [assumption|]. rewrite updf_other; [assumption|].
    intro; subst j. apply n. apply (i_rot_uniq0 t' t id); [assumption|rewrite Ht; reflexivity].
  - intros t1 t2 j. unfold updf. destruct (Nat.eqb_spec t1 t); destruct (Nat.eqb_spec t2 t); subst; auto; cbn; try discriminate. eauto.
  - intros t' g. unfold updf at 1. destruct (Nat.eqb_spec t' t); [cbn; discriminate|]. intro E.
    destruct (i_fresh0 _ _ E) as (H1 & H2 & H3 & H4 & H5 & H6). repeat split; auto.
    intro; subst g. apply n. apply (i_fresh_uniq0 t' t f); assumption.
  - intros t1 t2 g. unfold updf. destruct (Nat.eqb_spec t1 t); destruct (Nat.eqb_spec t2 t); subst; auto; cbn; try discriminate. eauto.
  - intros t' id' nw g o. unfold updf. destruct (Nat.eqb_spec t' t); [discriminate|eauto].
  - intros j Hj t' k nw. unfold updf. destruct (Nat.eqb_spec t' t); [discriminate|eauto].
  - intros g j _ Em Eg. subst g. rewrite F5 in Em. discriminate.
  - intros k E. rewrite F4 in E. discriminate.
  - intros t' g d0. unfold updf at 1. destruct (Nat.eqb_spec t' t); [discriminate|]. intro E.
    destruct (i_holding0 _ _ _ E) as (H1 & H2 & H3 & H4). unfold holding_ok; proj. repeat split; auto.
    intros j Ed. unfold updf. destruct (Nat.eqb_spec j id); [reflexivity|auto].
  - intros f0 j0 E0. destruct (i_sto_flight0 _ _ E0) as [Hd0|(t0' & nw0 & g0 & Et0')].
    + left. unfold updf. destruct (Nat.eqb_spec j0 id); [reflexivity|assumption].
    + destruct (Nat.eq_dec t0' t) as [->|Hne].
      * rewrite Ht in Et0'. inversion Et0'; subst. left. apply updf_same.
      * right. exists t0', nw0, g0. rewrite updf_other; assumption.
Qed.

Ltac neutral_pc := first [ left; reflexivity | intros; discriminate | intros; congruence ].

Theorem cstep_cinv s s' : cstep s s' -> cinv s -> cinv s'.
Proof.
  intros Hs H. inversion Hs; subst.
  - eapply cinv_same; [..|exact H]; reflexivity.
  - apply cinv_set_thr; [assumption|neutral_pc..].
  - apply cinv_set_thr; [assumption|neutral_pc..].
  - apply cinv_set_thr; [assumption|neutral_pc..].
  - apply cinv_set_thr; [assumption|neutral_pc..].
  - eapply cinv_cas; eassumption.
  - apply cinv_set_thr; [assumption| | neutral_pc..]. right. rewrite H0. reflexivity.
  - eapply cinv_swap_close; eassumption.
  - eapply cinv_create; eassumption.
  - apply cinv_set_thr; [assumption|neutral_pc..].
  - eapply cinv_load_file; eassumption.
  - eapply cinv_store_old; eassumption.
  - eapply cinv_store_file; eassumption.
  - eapply (cinv_same (set_thr s t RToWrite)); [reflexivity..|]. apply cinv_set_thr; [assumption|neutral_pc..].
  - apply cinv_set_thr; [assumption|neutral_pc..|].
    intros f d0 E. inversion E; subst. destruct H. repeat split.
    + assumption.
    + auto.
    + intros j Em. destruct (c_done s j) eqn:Ed; [|reflexivity]. exfalso. exact (i_done_mov0 _ _ Ed Em eq_refl).
    + intros k Ek. exact (i_closer_cur0 _ Ek).
  - eapply (cinv_same (set_thr s t RIdle)); [reflexivity..|]. apply cinv_set_thr; [assumption|neutral_pc..].
  - eapply (cinv_same (set_thr s t RIdle)); [reflexivity..|]. apply cinv_set_thr; [assumption|neutral_pc..].
Qed.

Theorem creach_cinv t0 s : creach (c_start t0) s -> cinv s.
Proof. induction 1; [apply cinv_start|eapply cstep_cinv; eassumption]. Qed.

(* a rotation overlaps the window [load of the descriptor, write through it] if it had started by the time of the write
   and was not complete when the descriptor was loaded *)
Definition overlaps (s : cst) (d0 : nat -> bool) (j : nat) : Prop := j < c_started s /\ d0 j = false.

(* MAIN: in every reachable state, a goroutine about to write through a descriptor that has been closed under it has had
   its load-to-write window overlapped by two different rotations *)
Theorem closed_under_writer_needs_two_rotations t0 s t f d0 :
  creach (c_start t0) s -> c_thr s t = RHolding f d0 -> c_fopen s f = false ->
  exists j k, j <> k /\ overlaps s d0 j /\ overlaps s d0 k.
Proof.
  intros Hr Ht Hc. pose proof (creach_cinv _ _ Hr) as H. destruct H.
  destruct (i_holding0 _ _ _ Ht) as (H1 & H2 & H3 & H4).
  destruct (i_closed0 _ H1 Hc) as (k & Hk).
  destruct (i_closer_sto0 _ _ Hk) as (j & Hj & Hjk).
  exists j, k. split; [assumption|]. split; split.
  - apply (i_mov_lt0 f j). apply i_sto_mov0. assumption.
  - apply H3. apply i_sto_mov0. assumption.
  - apply (i_clo_lt0 f k Hk).
  - apply H4. assumption.
Qed.

(* hence: if at most one rotation overlaps the window, the write lands *)
Corollary write_lands_unless_two_rotations t0 s t f d0 :
  creach (c_start t0) s -> c_thr s t = RHolding f d0 ->
  (forall j k, overlaps s d0 j -> overlaps s d0 k -> j = k) -> c_fopen s f = true.
Proof.
  intros Hr Ht Hone. destruct (c_fopen s f) eqn:E; [reflexivity|].
  destruct (closed_under_writer_needs_two_rotations t0 s t f d0 Hr Ht E) as (j & k & Hjk & Hj & Hk).
  exfalso. apply Hjk. apply Hone; assumption.
Qed.

(* the current file is open whenever no rotation is in flight: a writer that is not overlapped by any rotation at all *)
Corollary current_open_when_quiet t0 s :
  creach (c_start t0) s -> (forall j, j < c_started s -> c_done s j = true) -> c_fopen s (c_file s) = true.
Proof.
  intros Hr Hq. pose proof (creach_cinv _ _ Hr) as H. destruct H.
  destruct (c_fopen s (c_file s)) eqn:E; [reflexivity|]. exfalso.
  destruct (i_closed0 _ i_file_lt0 E) as (k & Hk).
  pose proof (i_closer_cur0 _ Hk) as Hd. destruct (i_clo_lt0 _ _ Hk) as [_ Hlt]. rewrite (Hq _ Hlt) in Hd. discriminate.
Qed.

(* the same with the two rotations named: j retired the descriptor into oldFile (so its createFile had succeeded), k closed it.
   Under create faults (cs_create_fail) "overlaps" reads: started by the time of the write and not SUCCESSFULLY complete when the
   descriptor was loaded - a rotation whose createFile failed never completes (fault_loses_write_with_one_rotation_in_flight). *)
Theorem closed_under_writer_storer_and_closer t0 s t f d0 :
  creach (c_start t0) s -> c_thr s t = RHolding f d0 -> c_fopen s f = false ->
  exists j k, j <> k /\ c_storers s f j = true /\ c_closer s f = Some k /\ overlaps s d0 j /\ overlaps s d0 k.
Proof.
  intros Hr Ht Hc. pose proof (creach_cinv _ _ Hr) as H. destruct H.
  destruct (i_holding0 _ _ _ Ht) as (H1 & H2 & H3 & H4).
  destruct (i_closed0 _ H1 Hc) as (k & Hk).
  destruct (i_closer_sto0 _ _ Hk) as (j & Hj & Hjk).
  exists j, k. split; [assumption|]. split; [assumption|]. split; [assumption|]. split; split.
  - apply (i_mov_lt0 f j). apply i_sto_mov0. assumption.
  - apply H3. apply i_sto_mov0. assumption.
  - apply (i_clo_lt0 f k Hk).
  - apply H4. assumption.
Qed.

(* whatever failed before: while no goroutine is inside a rotation, the current descriptor is open - the appender has a file to write to *)
Theorem current_open_when_no_rotation_in_flight t0 s :
  creach (c_start t0) s -> (forall t, rot_of (c_thr s t) = None) -> c_fopen s (c_file s) = true.
Proof.
  intros Hr Hq. pose proof (creach_cinv _ _ Hr) as H. destruct H.
  destruct (c_fopen s (c_file s)) eqn:E; [reflexivity|]. exfalso.
  destruct (i_closed0 _ i_file_lt0 E) as (k & Hk).
  destruct (i_closer_sto0 _ _ Hk) as (j & Hj & _).
  destruct (i_sto_flight0 _ _ Hj) as [Hd|(t & nw & g & Et)].
  - exact (i_done_mov0 _ _ Hd (i_sto_mov0 _ _ Hj) eq_refl).
  - specialize (Hq t). rewrite Et in Hq. discriminate.
Qed.

(* ... and oldFile is not the current file then *)
Theorem old_not_current_when_no_rotation_in_flight t0 s :
  creach (c_start t0) s -> (forall t, rot_of (c_thr s t) = None) -> c_old s <> Some (c_file s).
Proof.
  intros Hr Hq Ho. pose proof (creach_cinv _ _ Hr) as H. destruct H.
  destruct (i_old_by0 _ Ho) as (j & _ & Hj).
  destruct (i_sto_flight0 _ _ Hj) as [Hd|(t & nw & g & Et)].
  - exact (i_done_mov0 _ _ Hd (i_sto_mov0 _ _ Hj) eq_refl).
  - specialize (Hq t). rewrite Et in Hq. discriminate.
Qed.

(* ===================== the step function is the step relation ===================== *)
Lemma exec_sound s a s' : exec s a = Some s' -> cstep s s'.
Proof.
  destruct a as [d|t|t]; cbn [exec].
  - destruct (0 <? d)%Z eqn:E; [|discriminate]. intro H; inversion H; subst. apply cs_tick. lia.
  - destruct (c_thr s t) eqn:Et.
    + intro H; inversion H; subst. now apply cs_begin.
    + destruct (now <=? c_curr s)%Z eqn:E; intro H; inversion H; subst.
      * eapply cs_load_curr_skip; [eassumption|lia].
      * eapply cs_load_curr; [eassumption|lia].
    + destruct (c_curr s =? oldt)%Z eqn:E; intro H; inversion H; subst.
      * eapply cs_cas; [eassumption|lia].
      * eapply cs_cas_fail; [eassumption|lia].
    + destruct (c_old s) as [o|] eqn:Eo; intro H; inversion H; subst.
      * eapply cs_swap_close; eassumption.
      * eapply cs_swap_none; eassumption.
    + intro H; inversion H; subst. eapply cs_create; eassumption.
    + intro H; inversion H; subst. eapply cs_load_file; eassumption.
    + intro H; inversion H; subst. eapply cs_store_old; eassumption.
    + intro H; inversion H; subst. eapply cs_store_file; eassumption.
    + intro H; inversion H; subst. eapply cs_store_curr; eassumption.
    + intro H; inversion H; subst. now apply cs_load.
    + destruct (c_fopen s f) eqn:Ef; intro H; inversion H; subst.
      * eapply cs_write_ok; eassumption.
      * eapply cs_write_lost; eassumption.
  - destruct (c_thr s t) eqn:Et; try discriminate. intro H; inversion H; subst. eapply cs_create_fail; eassumption.
Qed.

Lemma run_reach s0 l : forall s s', creach s0 s -> run s l = Some s' -> creach s0 s'.
Proof.
  induction l as [|a l IH]; intros s s' Hr H; cbn [run] in H.
  - inversion H; subst. assumption.
  - destruct (exec s a) as [s1|] eqn:E; [|discriminate]. eapply IH; [|eassumption].
    eapply cr_step; [eassumption|]. apply (exec_sound s a s1). assumption.
Qed.

(* the hypothesis of the main theorem is necessary: a schedule of three goroutines on which a write is lost.
   Goroutine 0 rotates at the first boundary and is slow to publish; goroutine 2 loads the (still current) descriptor;
   goroutine 0 finishes; at the second boundary goroutine 1 rotates and closes that descriptor; goroutine 2 writes. *)
Definition losing_schedule : list act :=
  [ATick 1] ++ steps 0 7 ++ steps 2 3 ++ steps 0 2 ++ [ATick 1] ++ steps 1 4 ++ steps 2 1.

Theorem write_can_be_lost : exists s, creach (c_start 0) s /\ c_lost s = [(2, 0)].
Proof.
  destruct (run (c_start 0) losing_schedule) as [s|] eqn:E; [|vm_compute in E; discriminate].
  exists s. split.
  - eapply run_reach; [apply cr_refl|exact E].
  - vm_compute in E. inversion E. reflexivity.
Qed.

(* ===================== accounting: every completed Write is in exactly one place, exactly once ===================== *)
Definition payload_eq_dec : forall a b : payload, {a = b} + {a <> b}.
Proof. decide equality; apply Nat.eq_dec. Defined.

Definition cnt (l : list payload) (p : payload) : nat := count_occ payload_eq_dec l p.
Fixpoint data_count (fd : nat -> list (payload * Z)) (p : payload) (n : nat) : nat :=
  match n with O => 0 | S m => cnt (map fst (fd m)) p + data_count fd p m end.

Record acc (s : cst) : Prop := {
  a_empty : forall f, c_nfiles s <= f -> c_fdata s f = [];
  a_count : forall t n, data_count (c_fdata s) (t, n) (c_nfiles s) + cnt (c_lost s) (t, n) = if n <? c_seq s t then 1 else 0
}.

Lemma cnt_app l1 l2 p : cnt (l1 ++ l2) p = cnt l1 p + cnt l2 p.
Proof. unfold cnt. apply count_occ_app. Qed.

Lemma data_count_ext fd fd' p n : (forall f, f < n -> fd' f = fd f) -> data_count fd' p n = data_count fd p n.
Proof.
  induction n as [|n IH]; intro H; [reflexivity|]. cbn [data_count]. rewrite H by lia. rewrite IH; [reflexivity|]. intros; apply H; lia.
Qed.

Lemma data_count_append fd f x p n : f < n ->
  data_count (updf fd f (fd f ++ [x])) p n = data_count fd p n + cnt [fst x] p.
Proof.
  induction n as [|n IH]; intro H; [lia|]. cbn [data_count].
  destruct (Nat.eq_dec f n) as [->|Hne].
  - rewrite updf_same. rewrite map_app, cnt_app. cbn [map].
    rewrite (data_count_ext fd (updf fd n (fd n ++ [x])) p n); [lia|]. intros g Hg. apply updf_other. lia.
  - rewrite updf_other by lia. rewrite IH by lia. lia.
Qed.

Lemma cnt_single q p : cnt [q] p = if payload_eq_dec q p then 1 else 0.
Proof. unfold cnt. cbn. destruct (payload_eq_dec q p); reflexivity. Qed.

Lemma acc_same s s' : c_nfiles s' = c_nfiles s -> c_fdata s' = c_fdata s -> c_seq s' = c_seq s -> c_lost s' = c_lost s -> acc s -> acc s'.
Proof. intros E1 E2 E3 E4 [H1 H2]. constructor; rewrite ?E1, ?E2, ?E3, ?E4; assumption. Qed.

Theorem cstep_acc s s' : cstep s s' -> cinv s -> acc s -> acc s'.
Proof.
  intros Hs Hi Ha. inversion Hs; subst; try (eapply acc_same; [..|exact Ha]; reflexivity).
  - (* create: one more descriptor, empty *)
    destruct Ha as [H1 H2]. constructor; proj.
    + intros f Hf. apply H1. lia.
    + intros t' n'. cbn [data_count]. rewrite (H1 (c_nfiles s)) by lia. cbn. apply H2.
  - (* write through an open descriptor *)
    destruct Ha as [H1 H2]. destruct Hi. destruct (i_holding0 _ _ _ H) as (Hf & _).
    constructor; proj.
    + intros g Hg. rewrite updf_other by lia. apply H1. assumption.
    + intros t' n'. rewrite data_count_append by assumption. cbn [fst]. rewrite cnt_single.
      specialize (H2 t' n'). unfold updf. destruct (Nat.eqb_spec t' t).
      * subst t'. destruct (payload_eq_dec (t, c_seq s t) (t, n')) as [E|E].
        -- inversion E; subst n'. rewrite Nat.ltb_irrefl in H2.
           replace (c_seq s t <? S (c_seq s t)) with true by (symmetry; apply Nat.ltb_lt; lia). lia.
        -- assert (n' <> c_seq s t) by congruence.
           destruct (Nat.ltb_spec n' (c_seq s t)); destruct (Nat.ltb_spec n' (S (c_seq s t))); lia.
      * destruct (payload_eq_dec (t, c_seq s t) (t', n')) as [E|E]; [inversion E; congruence|]. lia.
  - (* write through a closed descriptor: recorded as lost *)
    destruct Ha as [H1 H2]. constructor; proj; [assumption|].
    intros t' n'. rewrite cnt_app, cnt_single. specialize (H2 t' n'). unfold updf. destruct (Nat.eqb_spec t' t).
    + subst t'. destruct (payload_eq_dec (t, c_seq s t) (t, n')) as [E|E].
      * inversion E; subst n'. rewrite Nat.ltb_irrefl in H2.
        replace (c_seq s t <? S (c_seq s t)) with true by (symmetry; apply Nat.ltb_lt; lia). lia.
      * assert (n' <> c_seq s t) by congruence.
        destruct (Nat.ltb_spec n' (c_seq s t)); destruct (Nat.ltb_spec n' (S (c_seq s t))); lia.
    + destruct (payload_eq_dec (t, c_seq s t) (t', n')) as [E|E]; [inversion E; congruence|]. lia.
Qed.

Lemma acc_start t0 : acc (c_start t0).
Proof. constructor; unfold c_start; proj; [reflexivity|]. intros t n. cbn. reflexivity. Qed.

Theorem creach_acc t0 s : creach (c_start t0) s -> acc s.
Proof.
  induction 1 as [|s s' Hr IH Hs]; [apply acc_start|]. eapply cstep_acc; [eassumption|eapply creach_cinv; eassumption|assumption].
Qed.

(* every completed Write call (t, n) is, exactly once, either in exactly one descriptor's data or in the lost list;
   calls that have not completed are nowhere *)
Theorem every_write_exactly_once t0 s t n : creach (c_start t0) s ->
  data_count (c_fdata s) (t, n) (c_nfiles s) + cnt (c_lost s) (t, n) = if n <? c_seq s t then 1 else 0.
Proof. intro H. apply (a_count s (creach_acc t0 s H)). Qed.

(* ===================== never truncated; never written before the time in the name ===================== *)
Lemma cstep_append_only s s' f : cstep s s' -> exists l, c_fdata s' f = c_fdata s f ++ l.
Proof.
  intro Hs. inversion Hs; subst; proj; try (exists []; rewrite app_nil_r; reflexivity).
  unfold updf. destruct (Nat.eqb_spec f f0); [subst; eexists; reflexivity|exists []; rewrite app_nil_r; reflexivity].
Qed.

Definition now_of (p : rpc) : option Z :=
  match p with
  | RGotTime n | RLoadedCurr n _ | RWon _ n | RClosedOld _ n | RCreated _ n _ | RLoadedFile _ n _ _ | RStoredOld _ n _ | RStoredFile _ n => Some n
  | _ => None
  end.

Record tinv (s : cst) : Prop := {
  t_now : forall t n, now_of (c_thr s t) = Some n -> (n <= c_clk s)%Z;
  t_name : forall f, f < c_nfiles s -> (c_fname s f <= c_clk s)%Z;
  t_data : forall f p tw, f < c_nfiles s -> In (p, tw) (c_fdata s f) -> (c_fname s f <= tw <= c_clk s)%Z
}.

Lemma tinv_set_thr s t p : tinv s -> (forall n, now_of p = Some n -> (n <= c_clk s)%Z) -> tinv (set_thr s t p).
Proof.
  intros [H1 H2 H3] Hp. constructor; proj; try assumption.
  intros t' n. unfold updf. destruct (Nat.eqb_spec t' t); [auto|apply H1].
Qed.

Theorem cstep_tinv s s' : cstep s s' -> cinv s -> acc s -> tinv s -> tinv s'.
Proof.
  intros Hs Hi Ha Ht. pose proof Ht as [H1 H2 H3].
  assert (Hnow : forall t n, now_of (c_thr s t) = Some n -> (n <= c_clk s)%Z) by exact H1.
  inversion Hs; subst.
  - constructor; proj.
    + intros t n E. specialize (H1 _ _ E). lia.
    + intros f Hf. specialize (H2 _ Hf). lia.
    + intros f p tw Hf Hin. specialize (H3 _ _ _ Hf Hin). lia.
  - apply tinv_set_thr; [assumption|]. cbn. intros n E. inversion E. lia.
  - apply tinv_set_thr; [assumption|]. cbn. discriminate.
  - apply tinv_set_thr; [assumption|]. cbn. intros n E. inversion E; subst. apply (Hnow t). rewrite H. reflexivity.
  - apply tinv_set_thr; [assumption|]. cbn. discriminate.
  - constructor; proj; try assumption. intros t' n. unfold updf. destruct (Nat.eqb_spec t' t); [|apply H1].
    cbn. intro E; inversion E; subst. apply (Hnow t). rewrite H. reflexivity.
  - apply tinv_set_thr; [assumption|]. cbn. intros n E. inversion E; subst. apply (Hnow t). rewrite H. reflexivity.
  - constructor; proj; try assumption. intros t' n. unfold updf. destruct (Nat.eqb_spec t' t); [|apply H1].
    cbn. intro E; inversion E; subst. apply (Hnow t). rewrite H. reflexivity.
  - (* create *)
    assert (Hn : (now <= c_clk s)%Z) by (apply (Hnow t); rewrite H; reflexivity).
    constructor; proj.
    + intros t' n. unfold updf. destruct (Nat.eqb_spec t' t); [cbn; intro E; inversion E; subst; assumption|apply H1].
    + intros f Hf. unfold updf. destruct (Nat.eqb_spec f (c_nfiles s)); [assumption|apply H2; lia].
    + intros f p tw Hf Hin. unfold updf. destruct (Nat.eqb_spec f (c_nfiles s)).
      * subst f. destruct Hi. exfalso.
        rewrite (a_empty s Ha (c_nfiles s)) in Hin by lia. contradiction.
      * apply (H3 f p tw); [lia|assumption].
  - apply tinv_set_thr; [assumption|]. cbn. discriminate.
  - constructor; proj; try assumption. intros t' n. unfold updf. destruct (Nat.eqb_spec t' t); [|apply H1].
    cbn. intro E; inversion E; subst. apply (Hnow t). rewrite H. reflexivity.
  - constructor; proj; try assumption. intros t' n. unfold updf. destruct (Nat.eqb_spec t' t); [|apply H1].
    cbn. intro E; inversion E; subst. apply (Hnow t). rewrite H. reflexivity.
  - constructor; proj; try assumption. intros t' n. unfold updf. destruct (Nat.eqb_spec t' t); [|apply H1].
    cbn. intro E; inversion E; subst. apply (Hnow t). rewrite H. reflexivity.
  - constructor; proj; try assumption. intros t' n. unfold updf. destruct (Nat.eqb_spec t' t); [cbn; discriminate|apply H1].
  - apply tinv_set_thr; [assumption|]. cbn. discriminate.
  - (* write *)
    destruct Hi. destruct (i_holding0 _ _ _ H) as (Hf & _).
    constructor; proj; try assumption.
    + intros t' n. unfold updf. destruct (Nat.eqb_spec t' t); [cbn; discriminate|apply H1].
    + intros g p tw Hg. unfold updf. destruct (Nat.eqb_spec g f); [|intro Hin; apply (H3 g p tw); assumption].
      subst g. intro Hin. apply in_app_or in Hin as [Hin|[Hin|[]]]; [apply (H3 f p tw); assumption|].
      inversion Hin; subst. specialize (H2 _ Hf). lia.
  - constructor; proj; try assumption. intros t' n. unfold updf. destruct (Nat.eqb_spec t' t); [cbn; discriminate|apply H1].
Qed.

Lemma tinv_start t0 : tinv (c_start t0).
Proof. constructor; unfold c_start; proj; [intros; discriminate|intros; lia|intros f p tw _ []]. Qed.

Theorem creach_tinv t0 s : creach (c_start t0) s -> tinv s.
Proof.
  induction 1 as [|s s' Hr IH Hs]; [apply tinv_start|].
  eapply cstep_tinv; [eassumption|eapply creach_cinv; eassumption|eapply creach_acc; eassumption|assumption].
Qed.

(* whatever the interleaving: a file never contains a write made before the time in its name *)
Theorem never_before_name t0 s f p tw : creach (c_start t0) s -> f < c_nfiles s -> In (p, tw) (c_fdata s f) -> (c_fname s f <= tw)%Z.
Proof. intros Hr Hf Hin. destruct (t_data s (creach_tinv t0 s Hr) f p tw Hf Hin). assumption. Qed.

(* whatever the interleaving: what is in a file stays there, in place (append-only) *)
Theorem never_truncated s0 s f : creach s0 s -> exists l, c_fdata s f = c_fdata s0 f ++ l.
Proof.
  induction 1 as [|s s' Hr [l IH] Hs]; [exists []; now rewrite app_nil_r|].
  destruct (cstep_append_only s s' f Hs) as [l' Hl']. exists (l ++ l'). rewrite Hl', IH, app_assoc. reflexivity.
Qed.

(* ===================== tie to the sequential model (Model/Rolling.v) that the harness exercises ===================== *)
From LogV Require Import Model.Rolling.

Definition conc_view (s : cst) : list (Z * list nat) :=
  map (fun f => (c_fname s f, map (fun x => snd (fst x)) (c_fdata s f))) (seq 0 (c_nfiles s)).
Definition seq_view (s : fstate) : list (Z * list nat) :=
  map (fun f => (f_name f, map N.to_nat (f_content f))) (r_fs s).

(* one goroutine, calls issued one at a time: Write, boundary, Write, Write, two boundaries, Write, Write *)
Example sequential_runs_agree :
  option_map conc_view (run (c_start 100) (steps 0 4 ++ [ATick 1] ++ steps 0 11 ++ steps 0 4 ++ [ATick 2] ++ steps 0 11 ++ steps 0 4))
  = Some (seq_view (frun (f_init 100 1 []) [FStart; FWrite 0; FTick 1; FWrite 1; FWrite 2; FTick 2; FWrite 3; FWrite 4])).
Proof. vm_compute. reflexivity. Qed.

(* a complete Write call executed alone, in general: the rotating path (11 steps of that goroutine) *)
Ltac ss := cbn [run exec]; cbn [set_thr with_thr_curr c_clk c_curr c_file c_old c_nfiles c_fname c_fopen c_fdata c_thr c_seq c_lost c_started c_done c_movers c_storers c_closer c_old_by]; rewrite ?updf_same.

Theorem solo_write_rotates s t : c_thr s t = RIdle -> (c_curr s < c_clk s)%Z ->
  exists s', run s (steps t 11) = Some s' /\
    c_file s' = c_nfiles s /\ c_fname s' (c_nfiles s) = c_clk s /\ c_old s' = Some (c_file s) /\ c_curr s' = c_clk s /\
    c_nfiles s' = S (c_nfiles s) /\ c_thr s' t = RIdle /\ c_seq s' t = S (c_seq s t) /\ c_clk s' = c_clk s /\
    c_fdata s' (c_nfiles s) = c_fdata s (c_nfiles s) ++ [((t, c_seq s t), c_clk s)] /\ c_lost s' = c_lost s /\
    (forall o, c_old s = Some o -> o <> c_nfiles s -> c_fopen s' o = false) /\
    (forall g, c_old s <> Some g -> g <> c_nfiles s -> c_fopen s' g = c_fopen s g).
Proof.
  intros Ht Hlt. unfold steps. cbn [repeat]. cbn [run exec]. rewrite Ht. ss.
  replace (c_clk s <=? c_curr s)%Z with false by (symmetry; apply Z.leb_gt; assumption).
  ss. rewrite Z.eqb_refl. ss.
  destruct (c_old s) as [o|] eqn:Eo.
  - do 8 ss.
    eexists. split; [reflexivity|]. cbn [c_clk c_curr c_file c_old c_nfiles c_fname c_fopen c_fdata c_thr c_seq c_lost]. rewrite ?updf_same.
    repeat split; try reflexivity.
    + intros o' E Hne. inversion E; subst o'. rewrite updf_other by assumption. apply updf_same.
    + intros g Hg Hne. rewrite updf_other by assumption. rewrite updf_other; [reflexivity|]. intro; subst; apply Hg; reflexivity.
  - do 8 ss.
    eexists. split; [reflexivity|]. cbn [c_clk c_curr c_file c_old c_nfiles c_fname c_fopen c_fdata c_thr c_seq c_lost]. rewrite ?updf_same.
    repeat split; try reflexivity.
    + intros o' E. discriminate.
    + intros g Hg Hne. rewrite updf_other by assumption. reflexivity.
Qed.

(* ... and the plain path: no boundary since the last rotation, the current descriptor open *)
Theorem solo_write_plain s t : c_thr s t = RIdle -> (c_clk s <= c_curr s)%Z -> c_fopen s (c_file s) = true ->
  exists s', run s (steps t 4) = Some s' /\
    c_file s' = c_file s /\ c_old s' = c_old s /\ c_curr s' = c_curr s /\ c_nfiles s' = c_nfiles s /\ c_fopen s' = c_fopen s /\
    c_thr s' t = RIdle /\ c_seq s' t = S (c_seq s t) /\ c_lost s' = c_lost s /\
    c_fdata s' (c_file s) = c_fdata s (c_file s) ++ [((t, c_seq s t), c_clk s)] /\
    (forall g, g <> c_file s -> c_fdata s' g = c_fdata s g).
Proof.
  intros Ht Hle Ho. unfold steps. cbn [repeat]. cbn [run exec]. rewrite Ht. ss.
  replace (c_clk s <=? c_curr s)%Z with true by (symmetry; apply Z.leb_le; assumption).
  ss. ss. rewrite Ho. ss.
  eexists. split; [reflexivity|]. cbn [c_clk c_curr c_file c_old c_nfiles c_fname c_fopen c_fdata c_thr c_seq c_lost]. rewrite ?updf_same.
  repeat split; try reflexivity. intros g Hg. apply updf_other. assumption.
Qed.

(* ===================== create faults (C19) under the interleaving semantics ===================== *)
(* a complete Write call executed alone at a boundary whose createFile fails: the retired descriptor is closed, the current
   file stays what it was, the write lands in it, nothing is lost, and currTime has moved on (no second attempt in this interval) *)
Theorem solo_write_create_fails s t : c_thr s t = RIdle -> (c_curr s < c_clk s)%Z ->
  c_fopen s (c_file s) = true -> c_old s <> Some (c_file s) ->
  exists s', run s (steps t 4 ++ [AFail t] ++ steps t 2) = Some s' /\
    c_file s' = c_file s /\ c_curr s' = c_clk s /\ c_clk s' = c_clk s /\ c_old s' = None /\ c_nfiles s' = c_nfiles s /\
    c_thr s' t = RIdle /\ c_seq s' t = S (c_seq s t) /\ c_lost s' = c_lost s /\ c_fopen s' (c_file s) = true /\
    c_fdata s' (c_file s) = c_fdata s (c_file s) ++ [((t, c_seq s t), c_clk s)] /\
    (forall g, g <> c_file s -> c_fdata s' g = c_fdata s g).
Proof.
  intros Ht Hlt Hop Hold. unfold steps. cbn [repeat app]. cbn [run exec]. rewrite Ht. ss.
  replace (c_clk s <=? c_curr s)%Z with false by (symmetry; apply Z.leb_gt; assumption).
  ss. rewrite Z.eqb_refl. ss.
  destruct (c_old s) as [o|] eqn:Eo.
  - assert (Hne : c_file s <> o) by (intro; subst; apply Hold; reflexivity).
    do 3 ss. rewrite (updf_other (c_fopen s) o false (c_file s)) by assumption. rewrite Hop. ss.
    eexists. split; [reflexivity|]. cbn [c_clk c_curr c_file c_old c_nfiles c_fname c_fopen c_fdata c_thr c_seq c_lost]. rewrite ?updf_same.
    repeat split; try reflexivity.
    + rewrite updf_other by assumption. assumption.
    + intros g Hg. apply updf_other. assumption.
  - do 3 ss. rewrite Hop. ss.
    eexists. split; [reflexivity|]. cbn [c_clk c_curr c_file c_old c_nfiles c_fname c_fopen c_fdata c_thr c_seq c_lost]. rewrite ?updf_same.
    repeat split; try reflexivity.
    + assumption.
    + intros g Hg. apply updf_other. assumption.
Qed.

(* the necessity of reading "overlaps" as "not successfully complete": goroutine 0 rotates at the first boundary and stalls
   between oldFile.Store and file.Store; at the second boundary goroutine 1 wins the CAS, closes oldFile - which is still the
   current file - and its createFile fails; its own write and the next write of goroutine 2 hit the closed descriptor although
   goroutine 0's is the only rotation in flight. *)
Definition fault_schedule : list act :=
  ([ATick 1] ++ steps 0 7 ++ [ATick 1] ++ steps 1 4 ++ [AFail 1] ++ steps 1 2 ++ steps 2 4)%nat.

Theorem fault_loses_write_with_one_rotation_in_flight :
  exists s, creach (c_start 0) s /\ c_lost s = [(1, 0); (2, 0)]%nat /\ c_thr s 0%nat = RStoredOld 0%nat 1%Z 1%nat /\ c_thr s 1%nat = RIdle /\ c_thr s 2%nat = RIdle /\
            c_fopen s (c_file s) = false.
Proof.
  destruct (run (c_start 0) fault_schedule) as [s|] eqn:E; [|vm_compute in E; discriminate].
  exists s. split.
  - eapply run_reach; [apply cr_refl|exact E].
  - vm_compute in E. inversion E. cbn. repeat split; reflexivity.
Qed.

(* after the failed attempt: no second attempt within the interval (the next call takes the plain path into the same file),
   and the first call after the next boundary attempts the creation again - and, succeeding, rotates *)
Theorem failed_create_then_plain_then_retry s t d : c_thr s t = RIdle -> (c_curr s < c_clk s)%Z ->
  c_fopen s (c_file s) = true -> c_old s <> Some (c_file s) -> (0 < d)%Z ->
  exists s1, run s (steps t 4 ++ [AFail t] ++ steps t 2) = Some s1 /\
    (exists s2, run s1 (steps t 4) = Some s2 /\ c_file s2 = c_file s /\ c_nfiles s2 = c_nfiles s /\ c_lost s2 = c_lost s /\
        c_fdata s2 (c_file s) = c_fdata s (c_file s) ++ [((t, c_seq s t), c_clk s)] ++ [((t, S (c_seq s t)), c_clk s)]) /\
    (exists s3, run s1 (ATick d :: steps t 11) = Some s3 /\ c_file s3 = c_nfiles s /\ c_fname s3 (c_nfiles s) = (c_clk s + d)%Z /\
        c_old s3 = Some (c_file s) /\ c_lost s3 = c_lost s /\ c_curr s3 = (c_clk s + d)%Z).
Proof.
  intros Ht Hlt Hop Hold Hd.
  destruct (solo_write_create_fails s t Ht Hlt Hop Hold) as (s1 & Hrun & F1 & F2 & F3 & F4 & F5 & F6 & F7 & F8 & F9 & F10 & F11).
  exists s1. split; [assumption|]. split.
  - destruct (solo_write_plain s1 t F6) as (s2 & Hr2 & G1 & G2 & G3 & G4 & G5 & G6 & G7 & G8 & G9 & G10).
    + rewrite F2, F3. lia.
    + rewrite F1. assumption.
    + exists s2. split; [assumption|]. rewrite G1, G4, G8, F1, F5, F8. repeat split; try reflexivity.
      rewrite F1 in G9. rewrite G9, F10, F7, F3, <- app_assoc. reflexivity.
  - cbn [run exec]. replace (0 <? d)%Z with true by (symmetry; apply Z.ltb_lt; assumption).
    match goal with |- context [run ?x (steps t 11)] => set (s1' := x) end.
    destruct (solo_write_rotates s1' t) as (s3 & Hr3 & G1 & G2 & G3 & G4 & G5 & G6 & G7 & G8 & G9 & G10 & _).
    + exact F6.
    + unfold s1'. cbn [c_curr c_clk]. rewrite F2, F3. lia.
    + exists s3. split; [assumption|]. unfold s1' in *. cbn [c_clk c_curr c_file c_old c_nfiles c_fname c_fopen c_fdata c_thr c_seq c_lost] in *.
      rewrite F5 in G1, G2. rewrite F1 in G3. rewrite F3 in G2, G4. rewrite F8 in G10.
      rewrite G1, G2, G3, G10, G4. repeat split; reflexivity.
Qed.

(* ===================== write-through (C20) on the interleaving model ===================== *)
Open Scope nat_scope.
Lemma data_count_pos fd p n : 0 < data_count fd p n -> exists f, f < n /\ In p (map fst (fd f)).
Proof.
  induction n as [|n IH]; cbn [data_count]; intro H; [lia|].
  destruct (Nat.eq_dec (cnt (map fst (fd n)) p) 0) as [E|E].
  - destruct IH as (f & Hf & Hin); [lia|]. exists f. split; [lia|assumption].
  - exists n. split; [lia|]. unfold cnt in E. apply (count_occ_In payload_eq_dec). lia.
Qed.

(* a Write call that has returned and did not hit a closed descriptor has its payload in a descriptor's data - the kernel's
   copy, which is what survives SIGKILL / os.Exit; there is no state between "returned" and "in the file" *)
Theorem returned_write_is_in_a_file t0 s t n : creach (c_start t0) s ->
  n < c_seq s t -> ~ In (t, n) (c_lost s) -> exists f, f < c_nfiles s /\ In (t, n) (map fst (c_fdata s f)).
Proof.
  intros Hr Hn Hl. pose proof (every_write_exactly_once t0 s t n Hr) as H.
  replace (n <? c_seq s t) with true in H by (symmetry; apply Nat.ltb_lt; assumption).
  assert (cnt (c_lost s) (t, n) = 0) by (unfold cnt; apply count_occ_not_In; assumption).
  apply data_count_pos. lia.
Qed.

(* ... and it stays there whatever happens afterwards (further calls, rotations, failed creations, the crash point) *)
Theorem returned_write_stays s s' f p : creach s s' -> In p (map fst (c_fdata s f)) -> In p (map fst (c_fdata s' f)).
Proof.
  intros Hr Hin. destruct (never_truncated s s' f Hr) as [l Hl]. rewrite Hl, map_app. apply in_or_app. left. assumption.
Qed.
