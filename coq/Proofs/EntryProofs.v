From LogV Require Import Base.Bytes Model.Level Model.Entry.
Open Scope Z_scope.

Definition cb_dec : forall a b : callback, {a = b} + {a <> b}.
Proof. decide equality. Defined.
Definition times (c : callback) (l : list callback) : nat := count_occ cb_dec l c.
Definition b2n (b : bool) : nat := if b then 1%nat else 0%nat.

Theorem enabled_once lr hs e : enable lr (entry_level e) = true ->
  snd (log_call lr hs e) = true /\
  times CTime (fst (log_call lr hs e)) = b2n (hk_time hs) /\
  times CCtxString (fst (log_call lr hs e)) = b2n (hk_string hs) /\
  times CCtxFields (fst (log_call lr hs e)) = b2n (hk_fields hs) /\
  times CGen (fst (log_call lr hs e)) = b2n (is_lazy e).
Proof.
  intro H. unfold log_call. rewrite H. cbn [fst snd]. unfold times.
  destruct (is_lazy e), (hk_time hs), (hk_string hs), (hk_fields hs); cbn; repeat split; reflexivity.
Qed.

Theorem disabled_nothing lr hs e : enable lr (entry_level e) = false -> log_call lr hs e = ([], false).
Proof. intro H. unfold log_call. now rewrite H. Qed.

(* order: generator, then time, then context string, then context fields *)
Definition rank (c : callback) : nat := match c with CGen => 0 | CTime => 1 | CCtxString => 2 | CCtxFields => 3 end.
Fixpoint increasing (l : list nat) : bool := match l with a :: ((b :: _) as t) => (a <? b)%nat && increasing t | _ => true end.
Theorem callbacks_in_order lr hs e : increasing (map rank (fst (log_call lr hs e))) = true.
Proof.
  unfold log_call. destruct (enable lr (entry_level e)); [|reflexivity]. cbn [fst].
  destruct (is_lazy e), (hk_time hs), (hk_string hs), (hk_fields hs); reflexivity.
Qed.
