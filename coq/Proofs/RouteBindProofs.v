From LogV Require Import Base.Bytes Model.Level Model.Route Model.Tag Proofs.BytesLemmas Proofs.RouteProofs.
Open Scope N_scope.

(* ---------- valid tags are clean: no '*', no doubled underscore ---------- *)
Lemma split_on_cons_sep sep r : split_on sep (sep :: r) = [] :: split_on sep r.
Proof. cbn [split_on]. now rewrite N.eqb_refl. Qed.

Lemma split_dd X r : In [] (tl (split_on Route.us (X ++ Route.us :: Route.us :: r))).
Proof.
  induction X as [|x X IH]; cbn [app].
  - rewrite !split_on_cons_sep. cbn [tl]. now left.
  - cbn [split_on]. destruct (x =? Route.us).
    + cbn [tl]. destruct (split_on Route.us (X ++ Route.us :: Route.us :: r)) as [|p ps]; [destruct IH|]. now right.
    + destruct (split_on Route.us (X ++ Route.us :: Route.us :: r)) as [|p ps]; [destruct IH|]. exact IH.
Qed.

Lemma valid_tag_clean t : is_valid_tag t = true -> ~ In star t /\ no_dd t.
Proof.
  unfold is_valid_tag. intro H.
  destruct ((length t <? 3)%nat || (36 <? length t)%nat); [discriminate|].
  destruct (forallb is_tag_char t) eqn:Hc; [|discriminate]. cbn [negb] in H.
  destruct ((length (split_on Tag.us (trim_prefix [Tag.us] t)) <? 1)%nat || (4 <? length (split_on Tag.us (trim_prefix [Tag.us] t)))%nat); [discriminate|].
  apply negb_true_iff in H. split.
  - intro Hs. rewrite forallb_forall in Hc. specialize (Hc _ Hs). vm_compute in Hc. discriminate.
  - intros A r E. rewrite <- not_true_iff_false in H. apply H. apply existsb_exists. exists []. split; [|reflexivity].
    change Tag.us with Route.us. subst t.
    destruct A as [|a A'].
    + cbn [app]. unfold trim_prefix. cbn [drop_prefix]. change (Tag.us =? Route.us) with (Route.us =? Route.us). rewrite N.eqb_refl. rewrite split_on_cons_sep. now left.
    + assert (Hin : forall X, In [] (tl (split_on Route.us X)) -> In [] (split_on Route.us X)).
      { intros X HX. destruct (split_on Route.us X); [destruct HX|now right]. }
      unfold trim_prefix. cbn [app drop_prefix]. change Tag.us with Route.us. destruct (Route.us =? a).
      * apply Hin, split_dd.
      * apply Hin. apply (split_dd (a :: A')).
Qed.

(* ---------- the tag map built by Refresh ---------- *)
Definition listed (lg : logger_cfg) (t : bytes) : Prop :=
  lg_is_root lg = false /\ exists ts, parse_tags (lg_tags lg) = inr ts /\ In t ts.

Definition lg_bad (lg : logger_cfg) : Prop :=
  if lg_is_root lg then lg_tags lg <> []
  else (exists e, parse_tags (lg_tags lg) = inl e) \/ parse_tags (lg_tags lg) = inr [].

Lemma lookup_tag_cons k v m t : lookup_tag ((k, v) :: m) t = if bytes_eqb k t then Some v else lookup_tag m t.
Proof. reflexivity. Qed.

Lemma bind_tags_ok lg ts : forall m m', bind_tags lg ts m = inr m' ->
  (forall t, lookup_tag m' t = if contains_bytes t ts then Some lg else lookup_tag m t) /\
  (forall t l, In t ts -> lookup_tag m t = Some l -> l = lg).
Proof.
  induction ts as [|a ts IH]; intros m m' H; simpl in H.
  - inversion H; subst. split; [reflexivity|intros ? ? []].
  - destruct (lookup_tag m a) as [l|] eqn:El.
    + destruct (l =? lg) eqn:E; [|discriminate]. apply N.eqb_eq in E; subst l.
      destruct (IH _ _ H) as [H1 H2]. split.
      * intro t. rewrite H1. cbn [contains_bytes]. destruct (bytes_eqb t a) eqn:Eta; [|reflexivity].
        apply bytes_eqb_eq in Eta; subst. cbn [orb]. destruct (contains_bytes a ts); [reflexivity|now rewrite El].
      * intros t l [<-|Ht] Hl; [congruence|eauto].
    + destruct (IH _ _ H) as [H1 H2]. split.
      * intro t. rewrite H1. cbn [contains_bytes]. rewrite lookup_tag_cons.
        rewrite (eq_true_iff_eq (bytes_eqb t a) (bytes_eqb a t)) by (rewrite !bytes_eqb_eq; split; congruence).
        destruct (contains_bytes t ts); [now rewrite orb_true_r|]. rewrite orb_false_r. reflexivity.
      * intros t l [<-|Ht] Hl; [congruence|]. apply (H2 t l Ht). rewrite lookup_tag_cons.
        destruct (bytes_eqb a t) eqn:E; [|assumption]. apply bytes_eqb_eq in E; subst. congruence.
Qed.

Lemma bind_tags_err lg ts : forall m e, bind_tags lg ts m = inl e ->
  e = ErrConflict /\ exists t l, In t ts /\ l <> lg /\ (lookup_tag m t = Some l).
Proof.
  induction ts as [|a ts IH]; intros m e H; simpl in H; [discriminate|].
  destruct (lookup_tag m a) as [l|] eqn:El.
  - destruct (l =? lg) eqn:E.
    + destruct (IH _ _ H) as [He [t [l' [Ht [Hn Hl]]]]]. split; [assumption|]. exists t, l'. auto using in_cons.
    + inversion H; subst. split; [reflexivity|]. exists a, l. apply N.eqb_neq in E. auto using in_eq.
  - destruct (IH _ _ H) as [He [t [l' [Ht [Hn Hl]]]]]. split; [assumption|].
    rewrite lookup_tag_cons in Hl. destruct (bytes_eqb a t) eqn:E.
    + inversion Hl; subst. congruence.
    + exists t, l'. auto using in_cons.
Qed.

Lemma contains_bytes_in t ts : contains_bytes t ts = true <-> In t ts.
Proof.
  induction ts as [|a ts IH]; simpl; [split; [discriminate|intros []]|].
  rewrite orb_true_iff, IH, bytes_eqb_eq. split; intros [H|H]; auto.
Qed.

Lemma listed_dec lg t : listed lg t \/ ~ listed lg t.
Proof.
  unfold listed. destruct (lg_is_root lg); [right; intros [H _]; discriminate|].
  destruct (parse_tags (lg_tags lg)) as [e|ts]; [right; intros [_ [x [H _]]]; discriminate|].
  destruct (contains_bytes t ts) eqn:E.
  - left. split; [reflexivity|]. exists ts. split; [reflexivity|now apply contains_bytes_in].
  - right. intros [_ [x [H Hin]]]. inversion H; subst x. apply contains_bytes_in in Hin. congruence.
Qed.

Lemma classic_listed ls t : (exists lg, In lg ls /\ listed lg t) \/ (forall lg, In lg ls -> ~ listed lg t).
Proof.
  induction ls as [|a r IH]; [right; intros ? []|].
  destruct (listed_dec a t) as [H|H]; [left; exists a; split; [now left|assumption]|].
  destruct IH as [[lg [Hin Hl]]|Hn]; [left; exists lg; split; [now right|assumption]|].
  right. intros lg [<-|Hin]; auto.
Qed.

(* success: the map is exactly the union of the listings, and no tag is listed by two loggers *)
Theorem refresh_tags_ok ls : forall m root m' root',
  refresh_tags ls m root = inr (m', root') ->
  (forall lg, In lg ls -> ~ lg_bad lg) /\
  (forall t id, lookup_tag m' t = Some id <->
     (exists lg, In lg ls /\ listed lg t /\ lg_id lg = id) \/
     ((forall lg, In lg ls -> ~ listed lg t) /\ lookup_tag m t = Some id)) /\
  (forall lg t id, In lg ls -> listed lg t -> lookup_tag m t = Some id -> id = lg_id lg) /\
  (forall lg1 lg2 t, In lg1 ls -> In lg2 ls -> listed lg1 t -> listed lg2 t -> lg_id lg1 = lg_id lg2).
Proof.
  induction ls as [|lg rest IH]; intros m root m' root' H; simpl in H.
  - inversion H; subst. repeat split; try (intros; contradiction).
    + intro Hl. right. split; [intros ? []|assumption].
    + intros [[lg [[] _]]|[_ Hl]]; assumption.
  - destruct (lg_is_root lg) eqn:Er.
    + destruct (is_nil (lg_tags lg)) eqn:En; [|discriminate]. cbn [negb] in H.
      destruct (IH _ _ _ _ H) as [H1 [H2 [H3 H4]]].
      assert (Hnl : forall t, ~ listed lg t) by (intros t [Hx _]; congruence).
      split; [|split; [|split]].
      * intros lg' [<-|Hin]; [|auto]. unfold lg_bad. rewrite Er. destruct (lg_tags lg); [congruence|discriminate].
      * intros t id. rewrite H2. split.
        -- intros [[lg' [Hin [Hl Hid]]]|[Hn Hl]]; [left; exists lg'; auto using in_cons|].
           right. split; [|assumption]. intros lg' [<-|Hin]; [apply Hnl|now apply Hn].
        -- intros [[lg' [[<-|Hin] [Hl Hid]]]|[Hn Hl]]; [exfalso; now apply (Hnl t)|left; eauto|].
           right. split; [|assumption]. intros lg' Hin. apply Hn. now right.
      * intros lg' t id [<-|Hin] Hl; [exfalso; now apply (Hnl t)|eauto].
      * intros lg1 lg2 t [<-|Hi1] [<-|Hi2] L1 L2; try (exfalso; now apply (Hnl t)); eauto.
    + destruct (parse_tags (lg_tags lg)) as [e|ts] eqn:Ep; [discriminate|].
      destruct ts as [|t0 ts']; [discriminate|]. set (ts := t0 :: ts') in *.
      destruct (bind_tags (lg_id lg) ts m) as [e|m1] eqn:Eb; [discriminate|].
      destruct (bind_tags_ok _ _ _ _ Eb) as [B1 B2].
      destruct (IH _ _ _ _ H) as [H1 [H2 [H3 H4]]].
      assert (Hl_iff : forall t, listed lg t <-> In t ts).
      { intro t. unfold listed. rewrite Er, Ep. split; [intros [_ [x [E Hx]]]; now inversion E; subst|intro; split; [reflexivity|eauto]]. }
      split; [|split; [|split]].
      * intros lg' [<-|Hin]; [|auto]. unfold lg_bad. rewrite Er, Ep. intros [[e He]|He]; discriminate.
      * intros t id. rewrite H2. rewrite B1. split.
        -- intros [[lg' [Hin [Hl Hid]]]|[Hn Hl]]; [left; exists lg'; auto using in_cons|].
           destruct (contains_bytes t ts) eqn:Ec.
           ++ left. exists lg. split; [now left|]. split; [apply Hl_iff, contains_bytes_in, Ec|congruence].
           ++ right. split; [|assumption]. intros lg' [<-|Hin]; [|now apply Hn].
              rewrite Hl_iff, <- contains_bytes_in. congruence.
        -- intros [[lg' [[<-|Hin] [Hl Hid]]]|[Hn Hl]].
           ++ destruct (classic_listed rest t) as [[lg2 [Hi2 L2]]|Hno].
              ** left. exists lg2. split; [assumption|]. split; [assumption|].
                 apply Hl_iff, contains_bytes_in in Hl. symmetry. rewrite <- Hid.
                 apply (H3 lg2 t (lg_id lg) Hi2 L2). rewrite B1, Hl. reflexivity.
              ** right. split; [assumption|]. apply Hl_iff, contains_bytes_in in Hl. rewrite Hl. congruence.
           ++ left. eauto.
           ++ right. split; [intros lg' Hin; apply Hn; now right|].
              replace (contains_bytes t ts) with false; [assumption|]. symmetry. apply not_true_iff_false.
              rewrite contains_bytes_in, <- Hl_iff. apply Hn. now left.
      * intros lg' t id [<-|Hin] Hl Hm.
        -- apply Hl_iff in Hl. eapply B2; eauto.
        -- destruct (contains_bytes t ts) eqn:Ec.
           ++ assert (Hid' : lg_id lg = lg_id lg') by (apply (H3 lg' t _ Hin Hl); rewrite B1, Ec; reflexivity).
              apply contains_bytes_in in Ec. rewrite <- Hid'. eapply B2; eauto.
           ++ apply (H3 lg' t id Hin Hl). rewrite B1, Ec. assumption.
      * intros lg1 lg2 t [<-|Hi1] [<-|Hi2] L1 L2; eauto.
        -- apply Hl_iff, contains_bytes_in in L1. apply (H3 lg2 t _ Hi2 L2). rewrite B1, L1. reflexivity.
        -- apply Hl_iff, contains_bytes_in in L2. symmetry. apply (H3 lg1 t _ Hi1 L1). rewrite B1, L2. reflexivity.
Qed.

(* failure: some logger is ill-formed on its own, or two different loggers list the same tag string *)
Definition spec_error (ls : list logger_cfg) (m : list (bytes * N)) : Prop :=
  (exists lg, In lg ls /\ lg_bad lg) \/
  (exists lg t, In lg ls /\ listed lg t /\
     ((exists id, lookup_tag m t = Some id /\ id <> lg_id lg) \/
      (exists lg', In lg' ls /\ listed lg' t /\ lg_id lg' <> lg_id lg))).

Theorem refresh_tags_err ls : forall m root e, refresh_tags ls m root = inl e -> spec_error ls m.
Proof.
  induction ls as [|lg rest IH]; intros m root e H; simpl in H; [discriminate|].
  destruct (lg_is_root lg) eqn:Er.
  - destruct (is_nil (lg_tags lg)) eqn:En; cbn [negb] in H.
    + destruct (IH _ _ _ H) as [[lg' [Hin Hb]]|[lg' [t [Hin [Hl Hc]]]]].
      * left. exists lg'. auto using in_cons.
      * right. exists lg', t. split; [now right|]. split; [assumption|].
        destruct Hc as [Hc|[lg2 [Hi2 [L2 Hn]]]]; [now left|right; exists lg2; auto using in_cons].
    + left. exists lg. split; [now left|]. unfold lg_bad. rewrite Er. destruct (lg_tags lg); [discriminate|discriminate].
  - destruct (parse_tags (lg_tags lg)) as [e'|ts] eqn:Ep.
    + left. exists lg. split; [now left|]. unfold lg_bad. rewrite Er, Ep. left. eauto.
    + destruct ts as [|t0 ts'].
      * left. exists lg. split; [now left|]. unfold lg_bad. rewrite Er, Ep. now right.
      * set (ts := t0 :: ts') in *.
        assert (Hl_iff : forall t, listed lg t <-> In t ts).
        { intro t. unfold listed. rewrite Er, Ep. split; [intros [_ [x [E Hx]]]; now inversion E; subst|intro; split; [reflexivity|eauto]]. }
        destruct (bind_tags (lg_id lg) ts m) as [e'|m1] eqn:Eb.
        -- destruct (bind_tags_err _ _ _ _ Eb) as [_ [t [l [Ht [Hn Hl]]]]].
           right. exists lg, t. split; [now left|]. split; [now apply Hl_iff|]. left. exists l. auto.
        -- destruct (bind_tags_ok _ _ _ _ Eb) as [B1 B2].
           destruct (IH _ _ _ H) as [[lg' [Hin Hb]]|[lg' [t [Hin [Hl Hc]]]]].
           ++ left. exists lg'. auto using in_cons.
           ++ right. destruct Hc as [[id [Hm Hne]]|[lg2 [Hi2 [L2 Hn]]]].
              ** rewrite B1 in Hm. destruct (contains_bytes t ts) eqn:Ec.
                 --- inversion Hm; subst id. exists lg', t. split; [now right|]. split; [assumption|]. right.
                     exists lg. split; [now left|]. split; [apply Hl_iff, contains_bytes_in, Ec|assumption].
                 --- exists lg', t. split; [now right|]. split; [assumption|]. left. eauto.
              ** exists lg', t. split; [now right|]. split; [assumption|]. right. exists lg2. auto using in_cons.
Qed.

Theorem refresh_tags_err_iff ls :
  (exists e, refresh_tags ls [] None = inl e) <-> spec_error ls [].
Proof.
  split.
  - intros [e H]. eapply refresh_tags_err; eauto.
  - intro Hs. destruct (refresh_tags ls [] None) as [e|[m' root']] eqn:E; [eauto|]. exfalso.
    destruct (refresh_tags_ok _ _ _ _ _ E) as [H1 [_ [_ H4]]].
    destruct Hs as [[lg [Hin Hb]]|[lg [t [Hin [Hl [[id [Hm _]]|[lg' [Hi' [L' Hn]]]]]]]]].
    + now apply (H1 lg Hin).
    + discriminate.
    + apply Hn. eapply H4; eauto.
Qed.

(* the tag list of one logger *)
Lemma parse_tag_items_spec items :
  match parse_tag_items items with
  | inl e => e = ErrBadWildcard /\ exists it, In it items /\ trim_space it <> [] /\
             mem_byte star (trim_space it) = true /\ has_suffix [Route.us; star] (trim_space it) = false
  | inr ts => ts = filter (fun t => negb (is_nil t)) (map trim_space items) /\
              forall t, In t ts -> mem_byte star t = true -> has_suffix [Route.us; star] t = true
  end.
Proof.
  induction items as [|it rest IH]; cbn [parse_tag_items]; [split; [reflexivity|intros ? []]|].
  cbn [map filter]. destruct (is_nil (trim_space it)) eqn:En; cbn [negb].
  - destruct (parse_tag_items rest) as [e|ts]; [destruct IH as [He [x [Hx Hr]]]; split; [assumption|exists x; auto using in_cons]|assumption].
  - destruct (mem_byte star (trim_space it) && negb (has_suffix [Route.us; star] (trim_space it))) eqn:Eb.
    + apply andb_true_iff in Eb as [E1 E2]. apply negb_true_iff in E2. split; [reflexivity|]. exists it.
      split; [now left|]. split; [destruct (trim_space it); [discriminate|discriminate]|auto].
    + destruct (parse_tag_items rest) as [e|ts].
      * destruct IH as [He [x [Hx Hr]]]. split; [assumption|exists x; auto using in_cons].
      * destruct IH as [E Hw]. split; [now rewrite E|]. intros t [<-|Ht] Hm; [|now apply Hw].
        rewrite Hm in Eb. cbn [andb] in Eb. now apply negb_false_iff in Eb.
Qed.
