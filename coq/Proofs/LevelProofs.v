From LogV Require Import Base.Bytes Model.Level Proofs.BytesLemmas.
Open Scope Z_scope.

Lemma to_upper_idem c : to_upper (to_upper c) = to_upper c.
Proof.
  unfold to_upper, is_lower. destruct ((97 <=? c)%N && (c <=? 122)%N) eqn:E; [|now rewrite E].
  apply andb_true_iff in E as [E1 E2]. apply N.leb_le in E1. apply N.leb_le in E2.
  replace ((97 <=? c - 32)%N) with false by (symmetry; apply N.leb_gt; lia). reflexivity.
Qed.

Lemma to_upper_space c : is_space (to_upper c) = is_space c.
Proof.
  unfold to_upper, is_lower, is_space. destruct ((97 <=? c)%N && (c <=? 122)%N) eqn:E; [|reflexivity].
  apply andb_true_iff in E as [E1 E2]. apply N.leb_le in E1. apply N.leb_le in E2.
  repeat match goal with |- context[(?a <=? ?b)%N] => destruct (N.leb_spec a b) end;
  repeat match goal with |- context[(?a =? ?b)%N] => destruct (N.eqb_spec a b) end; cbn; try reflexivity; lia.
Qed.

Lemma to_upper_tilde c : (to_upper c =? tilde)%N = (c =? tilde)%N.
Proof.
  unfold to_upper, is_lower, tilde. destruct ((97 <=? c)%N && (c <=? 122)%N) eqn:E; [|reflexivity].
  apply andb_true_iff in E as [E1 E2]. apply N.leb_le in E1. apply N.leb_le in E2.
  destruct (N.eqb_spec (c - 32) 126); destruct (N.eqb_spec c 126); try reflexivity; lia.
Qed.

Lemma trim_left_upper s : trim_left (map to_upper s) = map to_upper (trim_left s).
Proof. induction s as [|c r IH]; simpl; [reflexivity|]. rewrite to_upper_space. destruct (is_space c); [exact IH|reflexivity]. Qed.

Lemma trim_space_upper s : trim_space (map to_upper s) = map to_upper (trim_space s).
Proof. unfold trim_space. now rewrite trim_left_upper, <- map_rev, trim_left_upper, <- map_rev. Qed.

Lemma split_upper s : split_on tilde (map to_upper s) = map (map to_upper) (split_on tilde s).
Proof.
  induction s as [|c r IH]; simpl; [reflexivity|]. rewrite to_upper_tilde, IH.
  destruct (c =? tilde)%N; [reflexivity|]. destruct (split_on tilde r); reflexivity.
Qed.

Lemma map_upper_idem s : map to_upper (map to_upper s) = map to_upper s.
Proof. rewrite map_map. apply map_ext. apply to_upper_idem. Qed.

Theorem parse_range_case_insensitive reg s : parse_range reg (map to_upper s) = parse_range reg s.
Proof.
  unfold parse_range. rewrite trim_space_upper. set (t := trim_space s).
  destruct t as [|c r] eqn:Et; [reflexivity|]. cbn [map is_nil].
  change (to_upper c :: map to_upper r) with (map to_upper (c :: r)). rewrite split_upper.
  destruct (split_on tilde (c :: r)) as [|a rest]; [reflexivity|]. cbn [map]. rewrite map_upper_idem.
  destruct (lookup_level reg (map to_upper a)); [|reflexivity].
  destruct rest as [|b [|b2 rest2]]; cbn [map]; try reflexivity. now rewrite map_upper_idem.
Qed.

Theorem parse_range_empty reg s : trim_space s = [] -> parse_range reg s = Some (lvl_none, lvl_max).
Proof. intro H. unfold parse_range. now rewrite H. Qed.

Theorem parse_range_single reg s : trim_space s <> [] -> ~ In tilde (trim_space s) ->
  parse_range reg s = match lookup_level reg (map to_upper (trim_space s)) with Some mn => Some (mn, lvl_max) | None => None end.
Proof.
  intros Hne Hnt. unfold parse_range. destruct (trim_space s) as [|c r] eqn:E; [contradiction|]. cbn [is_nil].
  rewrite split_on_nosep by assumption. reflexivity.
Qed.

Theorem parse_range_pair reg s a b : trim_space s = a ++ tilde :: b -> ~ In tilde a -> ~ In tilde b ->
  parse_range reg s = match lookup_level reg (map to_upper a), lookup_level reg (map to_upper b) with
                      | Some mn, Some mx => Some (mn, mx) | _, _ => None end.
Proof.
  intros E Ha Hb. unfold parse_range. rewrite E.
  destruct (a ++ tilde :: b) as [|c r] eqn:E2; [destruct a; discriminate|]. cbn [is_nil]. rewrite <- E2.
  rewrite split_on_app_sep by assumption. rewrite split_on_nosep by assumption.
  destruct (lookup_level reg (map to_upper a)); [|reflexivity]. reflexivity.
Qed.

(* three or more parts: only the first is looked up, the upper bound stays MAX, and the later
   parts - known level names or not - are never consulted (len(ss) == 2 fails in the code) *)
Theorem parse_range_many reg s a b c : trim_space s = a ++ tilde :: b ++ tilde :: c -> ~ In tilde a -> ~ In tilde b ->
  parse_range reg s = match lookup_level reg (map to_upper a) with Some mn => Some (mn, lvl_max) | None => None end.
Proof.
  intros E Ha Hb. unfold parse_range. rewrite E.
  destruct (a ++ tilde :: b ++ tilde :: c) as [|x r] eqn:E2; [destruct a; discriminate|]. cbn [is_nil]. rewrite <- E2.
  rewrite split_on_app_sep by assumption. rewrite split_on_app_sep by assumption.
  pose proof (split_on_nonempty tilde c) as Hne.
  destruct (split_on tilde c) as [|p ps]; [contradiction|].
  destruct (lookup_level reg (map to_upper a)); reflexivity.
Qed.

(* the four parse_range theorems cover every string: no "~", exactly one, two or more *)
Lemma first_occ (t : N) (l : bytes) : ~ In t l \/ exists a r, l = a ++ t :: r /\ ~ In t a.
Proof.
  induction l as [|x l IH]; [left; intros []|].
  destruct (N.eq_dec x t) as [->|Hne].
  - right. exists [], l. split; [reflexivity|intros []].
  - destruct IH as [H|(a & r & -> & Ha)].
    + left. intros [H1|H1]; [congruence|contradiction].
    + right. exists (x :: a), r. split; [reflexivity|]. intros [H1|H1]; [congruence|contradiction].
Qed.

Theorem range_string_cases (t : bytes) :
  t = [] \/ (t <> [] /\ ~ In tilde t) \/
  (exists a b, t = a ++ tilde :: b /\ ~ In tilde a /\ ~ In tilde b) \/
  (exists a b c, t = a ++ tilde :: b ++ tilde :: c /\ ~ In tilde a /\ ~ In tilde b).
Proof.
  destruct (first_occ tilde t) as [H|(a & r & E & Ha)].
  - destruct t as [|x t']; [left; reflexivity|]. right; left. split; [discriminate|exact H].
  - right; right. destruct (first_occ tilde r) as [Hr|(b & c & Er & Hb)].
    + left. exists a, r. auto.
    + right. subst r. exists a, b, c. auto.
Qed.

(* the generated level table is well formed: distinct names, strictly increasing codes,
   NONE lowest, MAX highest, and it contains the levels the entry points use *)
Definition table_wf_b : bool :=
  let codes := map snd builtin_levels in
  (fix incr (l : list Z) := match l with a :: ((b :: _) as t) => (a <? b) && incr t | _ => true end) codes &&
  (match lookup_level builtin_levels [78;79;78;69]%N with Some c => c =? lvl_none | None => false end) &&
  (match lookup_level builtin_levels [77;65;88]%N with Some c => c =? lvl_max | None => false end) &&
  (match lookup_level builtin_levels [87;65;82;78]%N with Some c => c =? lvl_warn | None => false end) &&
  (lvl_none <? lvl_trace) && (lvl_trace <? lvl_debug) && (lvl_debug <? lvl_info) && (lvl_info <? lvl_warn) &&
  (lvl_warn <? lvl_error) && (lvl_error <? lvl_panic) && (lvl_panic <? lvl_fatal) && (lvl_fatal <? lvl_max) &&
  (fst empty_range =? lvl_none) && (snd empty_range =? lvl_max).

Lemma table_wf : table_wf_b = true.
Proof. vm_compute. reflexivity. Qed.
