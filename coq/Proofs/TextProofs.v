From LogV Require Import Base.Bytes Base.Dec Base.Utf8 Base.JsonStr Base.Json Model.Escape Model.Field Model.Encoder Model.Layout
  Proofs.BytesLemmas Proofs.EscapeProofs Proofs.DecProofs Proofs.JsonProofs Proofs.EncoderProofs Proofs.LayoutProofs.
Open Scope N_scope.

(* ---------------- spec side ---------------- *)
Fixpoint joinb (sep : bytes) (l : list bytes) : bytes :=
  match l with [] => [] | [p] => p | p :: ps => p ++ sep ++ joinb sep ps end.

(* the text a JSON token carries: strings without the surrounding quotes, everything else verbatim *)
Definition unquoted (j : json) : bytes := match j with JStr s => escape s | _ => print_json j end.

Definition entry_text (v : value) : bytes := match v with VArr _ => fst (jflat TUnknown v) | _ => tv v end.

(* key=value tokens a field contributes at top level *)
Definition text_chunks (kx : field) : list bytes :=
  match snd kx with
  | VSplice m => map (fun e => escape (fst e) ++ 61 :: entry_text (any_value (snd e))) (sort_entries m)
  | _ => [escape (fst kx) ++ 61 :: tv (snd kx)]
  end.

(* ---------------- each value carries the same text as its JSON token ---------------- *)
Theorem tv_same_token v : wf_value v = true -> tv v = unquoted (to_json v).
Proof.
  intro H. destruct v as [b|n|n|f|s|r|l|l|m]; cbn [tv to_json scalar_json unquoted print_json]; try reflexivity.
  - destruct f as [t|t]; cbn [float_text unquoted print_json]; [reflexivity|]. cbn [wf_value scalar_b ftok_b] in H. now rewrite nonfinite_plain.
  - destruct r as [t|m]; reflexivity.
  - destruct (jv_spec (VArr l) H TUnknown) as [st [_ E]]. rewrite E. reflexivity.
  - destruct (jv_spec (VObj l) H TUnknown) as [st [_ E]]. rewrite E. reflexivity.
  - discriminate.
Qed.

Theorem entry_same_token g : gval_b g = true -> entry_text (any_value g) = unquoted (to_json_flat (any_value g)).
Proof.
  intro H. pose proof (any_value_flat g H) as Hf.
  destruct (any_value g) as [b|n|n|f|s|r|l|l|m] eqn:E; cbn [entry_text tv to_json_flat scalar_json unquoted print_json flat_b] in *; try reflexivity; try discriminate.
  - destruct f as [t|t]; cbn [float_text unquoted print_json]; [reflexivity|]. cbn [scalar_b ftok_b] in Hf. now rewrite nonfinite_plain.
  - destruct r as [t|m]; reflexivity.
  - rewrite (jflat_arr TUnknown l Hf). reflexivity.
Qed.

(* ---------------- plumbing of the "||" separators ---------------- *)
Lemma joinb_app sep a b : a <> [] -> b <> [] -> joinb sep (a ++ b) = joinb sep a ++ sep ++ joinb sep b.
Proof.
  induction a as [|x a IH]; intros Ha Hb; [contradiction|]. destruct a as [|y a'].
  - cbn [app joinb]. destruct b; [contradiction|reflexivity].
  - cbn [app]. change (joinb sep (x :: y :: a' ++ b)) with (x ++ sep ++ joinb sep ((y :: a') ++ b)).
    rewrite IH by (try discriminate; assumption). change (joinb sep (x :: y :: a')) with (x ++ sep ++ joinb sep (y :: a')).
    rewrite <- !app_assoc. reflexivity.
Qed.

Definition tchunky {A} (f : bool -> A -> bytes * bool) (ps : A -> list bytes) (x : A) : Prop :=
  forall hw, f hw x = (if is_nil (ps x) then [] else (if hw then sep2 else []) ++ joinb sep2 (ps x),
                      hw || negb (is_nil (ps x))).

Lemma thread_b_chunks {A} (f : bool -> A -> bytes * bool) (ps : A -> list bytes) l :
  (forall x, In x l -> tchunky f ps x) ->
  forall hw, thread_b f hw l = (if is_nil (flat_map ps l) then [] else (if hw then sep2 else []) ++ joinb sep2 (flat_map ps l),
                                hw || negb (is_nil (flat_map ps l))).
Proof.
  induction l as [|x l IH]; intros H hw.
  - cbn. now rewrite orb_false_r.
  - cbn [thread_b flat_map]. rewrite (H x (or_introl eq_refl) hw).
    assert (Hl : forall y, In y l -> tchunky f ps y) by (intros y Hy; apply H; now right).
    destruct (ps x) as [|p px] eqn:Ep; cbn [is_nil app negb].
    + rewrite orb_false_r. rewrite (IH Hl hw). reflexivity.
    + rewrite orb_true_r. rewrite (IH Hl true).
      destruct (flat_map ps l) as [|q qs] eqn:Eq; cbn [is_nil negb orb].
      * now rewrite !app_nil_r.
      * change (p :: px ++ q :: qs) with ((p :: px) ++ q :: qs). rewrite joinb_app by discriminate.
        rewrite <- !app_assoc. reflexivity.
Qed.

Lemma t_entry_chunky e : tchunky t_entry (fun e => [escape (fst e) ++ 61 :: entry_text (any_value (snd e))]) e.
Proof.
  intro hw. unfold t_entry, t_key, entry_text. cbn [is_nil joinb negb]. rewrite orb_true_r.
  rewrite <- !app_assoc. reflexivity.
Qed.

Lemma tfield_chunky kx : tchunky tfield text_chunks kx.
Proof.
  intro hw. unfold tfield, text_chunks.
  destruct (snd kx) as [b|n|n|f|s|r|l|l|m] eqn:Ev;
    try (unfold t_key; cbn [is_nil joinb negb]; rewrite orb_true_r; rewrite <- !app_assoc; reflexivity).
  rewrite (thread_b_chunks t_entry (fun e => [escape (fst e) ++ 61 :: entry_text (any_value (snd e))]) (sort_entries m)
             (fun e _ => t_entry_chunky e) hw).
  rewrite flat_map_single. reflexivity.
Qed.

Theorem tfields_spec fs hw :
  tfields hw fs = (if is_nil (flat_map text_chunks fs) then [] else (if hw then sep2 else []) ++ joinb sep2 (flat_map text_chunks fs),
                   hw || negb (is_nil (flat_map text_chunks fs))).
Proof. unfold tfields. apply thread_b_chunks. intros x _. apply tfield_chunky. Qed.

(* TextLayout: header, then the key=value tokens of the context fields followed by the call's fields, joined by "||" *)
Theorem text_layout_spec w e :
  text_layout w e = text_header w e ++ joinb sep2 (flat_map text_chunks (ev_ctx_fields e ++ ev_fields e)) ++ [10].
Proof.
  unfold text_layout. rewrite tfields_spec. rewrite tfields_spec. rewrite flat_map_app.
  destruct (flat_map text_chunks (ev_ctx_fields e)) as [|p ps] eqn:E1; cbn [is_nil negb orb app].
  - destruct (flat_map text_chunks (ev_fields e)) as [|q qs]; cbn [is_nil app]; reflexivity.
  - destruct (flat_map text_chunks (ev_fields e)) as [|q qs] eqn:E2; cbn [is_nil app].
    + now rewrite !app_nil_r.
    + change (p :: ps ++ q :: qs) with ((p :: ps) ++ q :: qs). rewrite joinb_app by discriminate.
      rewrite <- !app_assoc. reflexivity.
Qed.

(* ---------------- no control byte can come from a field ---------------- *)
Definition ge32 (b : N) : bool := 32 <=? b.

Fixpoint json_clean (j : json) : bool :=
  match j with
  | JNum t => forallb ge32 t
  | JRaw t _ => forallb ge32 t
  | JArr l => forallb json_clean l
  | JObj l => forallb (fun kv => json_clean (snd kv)) l
  | _ => true
  end.

Lemma escape_clean s : forallb ge32 (escape s) = true.
Proof. apply forallb_forall. intros x Hx. apply N.leb_le. now apply escape_no_control in Hx. Qed.

Lemma forallb_join_ge sep (l : list bytes) : ge32 sep = true -> (forall p, In p l -> forallb ge32 p = true) -> forallb ge32 (join sep l) = true.
Proof. intros Hs H. apply forallb_join; [assumption|]. apply Forall_forall. exact H. Qed.

Lemma print_clean j : json_clean j = true -> forallb ge32 (print_json j) = true.
Proof.
  remember (jsize j) as n eqn:En. revert j En.
  induction n as [n IH] using lt_wf_ind. intros j En H. subst n.
  destruct j as [|b|t|s|l|l|t j']; cbn [print_json json_clean] in *; try reflexivity; try assumption.
  - destruct b; reflexivity.
  - unfold quote. cbn [forallb]. rewrite forallb_app, escape_clean. reflexivity.
  - cbn [forallb]. rewrite forallb_app. cbn [forallb ge32]. rewrite andb_true_r. change (ge32 91) with true. cbn [andb].
    apply forallb_join_ge; [reflexivity|]. intros p Hp. apply in_map_iff in Hp as [x [<- Hx]].
    rewrite forallb_forall in H. apply (IH (jsize x)); [now apply jsize_in_arr|reflexivity|now apply H].
  - cbn [forallb]. rewrite forallb_app. cbn [forallb ge32]. rewrite andb_true_r. change (ge32 123) with true. cbn [andb].
    apply forallb_join_ge; [reflexivity|]. intros p Hp. apply in_map_iff in Hp as [kv [<- Hx]].
    rewrite forallb_forall in H. rewrite forallb_app. unfold quote. cbn [forallb]. rewrite forallb_app, escape_clean.
    change (ge32 34) with true. change (ge32 58) with true. cbn [forallb andb].
    apply (IH (jsize (snd kv))); [now apply jsize_in_obj|reflexivity|now apply H].
Qed.

Lemma unquoted_clean j : json_clean j = true -> forallb ge32 (unquoted j) = true.
Proof. destruct j; cbn [unquoted]; try apply print_clean. intros _. apply escape_clean. Qed.

(* a key=value token of a well-formed field never contains a byte below 0x20 (so no line break) *)
Theorem text_chunk_clean kx c : wf_field kx = true ->
  forallb (fun kv : bytes * json => json_clean (snd kv)) (field_members kx) = true ->
  In c (text_chunks kx) -> forallb ge32 c = true.
Proof.
  unfold wf_field, text_chunks, field_members. intros Hwf Hcl Hc.
  destruct (snd kx) as [b|n|n|f|s|r|l|l|m] eqn:Ev;
    try (destruct Hc as [<-|[]]; rewrite forallb_app, escape_clean; cbn [forallb andb]; change (ge32 61) with true; cbn [andb];
         rewrite <- Ev, tv_same_token by (rewrite Ev; exact Hwf); apply unquoted_clean;
         cbn [forallb snd] in Hcl; rewrite Ev in *; now apply andb_true_iff in Hcl as [? _]).
  apply in_map_iff in Hc as [e [<- He]]. rewrite forallb_app, escape_clean. cbn [forallb andb]. change (ge32 61) with true. cbn [andb].
  rewrite entry_same_token by (rewrite forallb_forall in Hwf; apply Hwf; now apply in_sort_entries).
  apply unquoted_clean. rewrite forallb_forall in Hcl. apply (Hcl (entry_member e)). now apply in_map.
Qed.

(* the JSON line: no byte below 0x20 before the final line feed *)
Theorem json_line_clean w e : json_clean (JObj (event_members w e)) = true ->
  forallb ge32 (print_json (JObj (event_members w e))) = true.
Proof. apply print_clean. Qed.


(* ---------------- exactly one line ---------------- *)
Lemma ge32_to_upper c : ge32 c = true -> ge32 (to_upper c) = true.
Proof.
  unfold ge32, to_upper, is_lower. intro H. apply N.leb_le in H.
  destruct ((97 <=? c) && (c <=? 122)) eqn:E; [|apply N.leb_le; assumption].
  apply andb_true_iff in E as [E1 E2]. apply N.leb_le in E1. apply N.leb_le. lia.
Qed.

Lemma forallb_map_upper s : forallb ge32 s = true -> forallb ge32 (map to_upper s) = true.
Proof.
  induction s as [|c s IH]; cbn [map forallb]; [reflexivity|]. intro H. apply andb_true_iff in H as [H1 H2].
  rewrite ge32_to_upper by assumption. now apply IH.
Qed.

Lemma all_digits_clean s : all_digits s -> forallb ge32 s = true.
Proof. intro H. unfold all_digits in H. apply forallb_forall. intros x Hx. rewrite Forall_forall in H. specialize (H x Hx). apply N.leb_le. lia. Qed.

Lemma fmt_uint_clean n : forallb ge32 (fmt_uint n) = true.
Proof. destruct (fmt_uint_spec n) as (d & ds & E & Hd & _). rewrite E. now apply all_digits_clean. Qed.

Lemma fmt_int_clean z : forallb ge32 (fmt_int z) = true.
Proof. destruct z; cbn [fmt_int]; [reflexivity|apply fmt_uint_clean|]. cbn [forallb]. rewrite fmt_uint_clean. reflexivity. Qed.

Lemma pad_digit_clean n : ge32 (48 + n mod 10) = true.
Proof. apply N.leb_le. lia. Qed.

Lemma time_str_clean t : forallb ge32 (time_str t) = true.
Proof.
  unfold time_str, pad2, pad3, pad4. cbn [app forallb]. rewrite !pad_digit_clean. reflexivity.
Qed.

Lemma forallb_skipn {A} (f : A -> bool) n (l : list A) : forallb f l = true -> forallb f (skipn n l) = true.
Proof.
  revert l; induction n as [|n IH]; intros l H; [exact H|]. destruct l as [|x l]; [reflexivity|].
  cbn [skipn]. cbn [forallb] in H. apply andb_true_iff in H as [_ H]. now apply IH.
Qed.

Lemma file_line_clean w file line : forallb ge32 file = true -> forallb ge32 (get_file_line w file line) = true.
Proof.
  intro H. unfold get_file_line.
  assert (Hfl : forallb ge32 (file ++ [58] ++ fmt_int line) = true).
  { rewrite !forallb_app, H, fmt_int_clean. reflexivity. }
  destruct (Z.ltb _ _); [|exact Hfl].
  cbn [app forallb]. unfold lastn. rewrite forallb_skipn by exact Hfl. reflexivity.
Qed.

Lemma joinb_clean sep (l : list bytes) : forallb ge32 sep = true -> (forall p, In p l -> forallb ge32 p = true) -> forallb ge32 (joinb sep l) = true.
Proof.
  intros Hs. induction l as [|p ps IH]; intro H; [reflexivity|].
  destruct ps as [|q qs]; cbn [joinb]; [apply H; left; reflexivity|].
  rewrite !forallb_app, Hs. rewrite (H p (or_introl eq_refl)). cbn [andb]. apply IH. intros x Hx. apply H. right. exact Hx.
Qed.

(* the header of a text line is free of control bytes when level name, file name and tag are (they come from the level
   registry, the runtime and the validated tag language) - the context string may be ANY byte string: it is escaped *)
Lemma text_header_clean w e :
  forallb ge32 (ev_level e) = true -> forallb ge32 (ev_file e) = true -> forallb ge32 (ev_tag e) = true ->
  forallb ge32 (text_header w e) = true.
Proof.
  intros Hl Hf Ht. unfold text_header. rewrite !forallb_app.
  rewrite forallb_map_upper by assumption. rewrite time_str_clean. rewrite file_line_clean by assumption. rewrite Ht.
  cbn [forallb]. change (ge32 91) with true. change (ge32 93) with true. change (ge32 32) with true. cbn [andb].
  destruct (is_nil (ev_ctx_string e)); [reflexivity|]. rewrite forallb_app, escape_clean. reflexivity.
Qed.

(* EXACTLY ONE LINE: the text layout's output is a body without any byte below 0x20 (no line feed, no carriage return, no
   other control character) followed by one line feed - whatever the context string, the field keys and the field values are *)
Theorem text_layout_one_line w e :
  forallb ge32 (ev_level e) = true -> forallb ge32 (ev_file e) = true -> forallb ge32 (ev_tag e) = true ->
  wf_event e = true ->
  (forall kx, In kx (ev_ctx_fields e ++ ev_fields e) -> forallb (fun kv : bytes * json => json_clean (snd kv)) (field_members kx) = true) ->
  exists body, text_layout w e = body ++ [10] /\ forallb ge32 body = true.
Proof.
  intros Hl Hf Ht Hwf Hcl. rewrite text_layout_spec.
  exists (text_header w e ++ joinb sep2 (flat_map text_chunks (ev_ctx_fields e ++ ev_fields e))).
  split; [now rewrite <- app_assoc|]. rewrite forallb_app, text_header_clean by assumption. cbn [andb].
  apply joinb_clean; [reflexivity|]. intros c Hc. apply in_flat_map in Hc as (kx & Hkx & Hc).
  apply (text_chunk_clean kx c); [|now apply Hcl|exact Hc].
  unfold wf_event in Hwf. apply andb_true_iff in Hwf as [H1 H2]. rewrite forallb_forall in H1, H2.
  apply in_app_or in Hkx as [Hk|Hk]; [now apply H1|now apply H2].
Qed.
