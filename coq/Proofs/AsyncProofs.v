(* The asynchronous logger as an interleaving transition system: any number of producers, the worker
   and Stop, one rule per atomic channel operation of plugin_logger.go:253-341; invariants over every
   reachable state, i.e. over all schedules. *)
From LogV Require Import Base.Bytes Model.Async.
From Coq Require Import Permutation.
Open Scope nat_scope.

Definition item_dec : forall a b : item, {a = b} + {a <> b}.
Proof. decide equality; apply Nat.eq_dec. Defined.
Definition entry_dec : forall a b : entry, {a = b} + {a <> b}.
Proof. decide equality. apply item_dec. Defined.

(* where a producer is inside Append/Write *)
Inductive ppc :=
| PTry (x : item)          (* at the non-blocking send of Append/Write *)
| PDiscarding (x : item)   (* Discard: select failed, counter not yet incremented *)
| PHandleSend (x : item)   (* DiscardOldest loop: at the send select *)
| PHandleRecv (x : item)   (* DiscardOldest loop: at the receive select *)
| PBlocked (x : item).     (* Block: in the blocking send *)
Definition pc_item (pc : ppc) : item :=
  match pc with PTry x | PDiscarding x | PHandleSend x | PHandleRecv x | PBlocked x => x end.

Inductive sstage := SNo | SSend | SWait | SDone.

Record cstate := {
  c_cap : nat; c_pol : policy;
  c_buf : list entry;
  c_held : option item;
  c_delivered : list item;
  c_dropped : list item;          (* ghost: the items counted in discardCounter (counter = length) *)
  c_pcs : nat -> option ppc;      (* per producer: inside a call or not *)
  c_next : nat -> nat;            (* next sequence number of each producer *)
  c_started : list item;          (* ghost: every enabled submission begun so far *)
  c_stop : sstage;
  c_exited : bool }.

Definition upd {A} (f : nat -> A) (p : nat) (v : A) : nat -> A := fun q => if Nat.eqb q p then v else f q.

Definition quiet (s : cstate) : Prop := forall p, c_pcs s p = None.

Definition mk s buf held del drop pcs next started stop exited :=
  {| c_cap := c_cap s; c_pol := c_pol s; c_buf := buf; c_held := held; c_delivered := del; c_dropped := drop;
     c_pcs := pcs; c_next := next; c_started := started; c_stop := stop; c_exited := exited |}.

Inductive astep : cstate -> cstate -> Prop :=
(* a producer begins Append/Write of its next item (the level is enabled; disabled levels are no-ops) *)
| a_start s p : c_pcs s p = None -> c_stop s = SNo ->
    astep s (mk s (c_buf s) (c_held s) (c_delivered s) (c_dropped s)
                  (upd (c_pcs s) p (Some (PTry (p, c_next s p)))) (upd (c_next s) p (S (c_next s p)))
                  (c_started s ++ [(p, c_next s p)]) (c_stop s) (c_exited s))
(* select { case c.buf <- v: ... } succeeds *)
| a_try_ok s p x : c_pcs s p = Some (PTry x) -> length (c_buf s) < c_cap s ->
    astep s (mk s (c_buf s ++ [Data x]) (c_held s) (c_delivered s) (c_dropped s) (upd (c_pcs s) p None)
                  (c_next s) (c_started s) (c_stop s) (c_exited s))
(* default: onBufferFull *)
| a_try_full s p x : c_pcs s p = Some (PTry x) -> c_cap s <= length (c_buf s) ->
    astep s (mk s (c_buf s) (c_held s) (c_delivered s) (c_dropped s)
                  (upd (c_pcs s) p (Some (match c_pol s with PDiscard => PDiscarding x | PDiscardOldest => PHandleSend x | PBlock => PBlocked x end)))
                  (c_next s) (c_started s) (c_stop s) (c_exited s))
| a_discard s p x : c_pcs s p = Some (PDiscarding x) ->
    astep s (mk s (c_buf s) (c_held s) (c_delivered s) (c_dropped s ++ [x]) (upd (c_pcs s) p None)
                  (c_next s) (c_started s) (c_stop s) (c_exited s))
| a_hs_ok s p x : c_pcs s p = Some (PHandleSend x) -> length (c_buf s) < c_cap s ->
    astep s (mk s (c_buf s ++ [Data x]) (c_held s) (c_delivered s) (c_dropped s) (upd (c_pcs s) p None)
                  (c_next s) (c_started s) (c_stop s) (c_exited s))
| a_hs_full s p x : c_pcs s p = Some (PHandleSend x) -> c_cap s <= length (c_buf s) ->
    astep s (mk s (c_buf s) (c_held s) (c_delivered s) (c_dropped s) (upd (c_pcs s) p (Some (PHandleRecv x)))
                  (c_next s) (c_started s) (c_stop s) (c_exited s))
| a_hr_take s p x y rest : c_pcs s p = Some (PHandleRecv x) -> c_buf s = Data y :: rest ->
    astep s (mk s rest (c_held s) (c_delivered s) (c_dropped s ++ [y]) (upd (c_pcs s) p (Some (PHandleSend x)))
                  (c_next s) (c_started s) (c_stop s) (c_exited s))
| a_hr_empty s p x : c_pcs s p = Some (PHandleRecv x) -> c_buf s = [] ->
    astep s (mk s [] (c_held s) (c_delivered s) (c_dropped s) (upd (c_pcs s) p (Some (PHandleSend x)))
                  (c_next s) (c_started s) (c_stop s) (c_exited s))
| a_blocked_ok s p x : c_pcs s p = Some (PBlocked x) -> length (c_buf s) < c_cap s ->
    astep s (mk s (c_buf s ++ [Data x]) (c_held s) (c_delivered s) (c_dropped s) (upd (c_pcs s) p None)
                  (c_next s) (c_started s) (c_stop s) (c_exited s))
(* the worker: for v := range c.buf *)
| a_w_recv s y rest : c_held s = None -> c_exited s = false -> c_buf s = Data y :: rest ->
    astep s (mk s rest (Some y) (c_delivered s) (c_dropped s) (c_pcs s) (c_next s) (c_started s) (c_stop s) false)
| a_w_marker s rest : c_held s = None -> c_exited s = false -> c_buf s = Marker :: rest ->
    astep s (mk s rest None (c_delivered s) (c_dropped s) (c_pcs s) (c_next s) (c_started s) (c_stop s) true)
| a_w_deliver s y : c_held s = Some y ->
    astep s (mk s (c_buf s) None (c_delivered s ++ [y]) (c_dropped s) (c_pcs s) (c_next s) (c_started s) (c_stop s) (c_exited s))
(* Stop, called while no log call is in progress *)
| a_stop_begin s : c_stop s = SNo -> quiet s ->
    astep s (mk s (c_buf s) (c_held s) (c_delivered s) (c_dropped s) (c_pcs s) (c_next s) (c_started s) SSend (c_exited s))
| a_stop_send s : c_stop s = SSend -> length (c_buf s) < c_cap s ->
    astep s (mk s (c_buf s ++ [Marker]) (c_held s) (c_delivered s) (c_dropped s) (c_pcs s) (c_next s) (c_started s) SWait (c_exited s))
| a_stop_wait s : c_stop s = SWait -> c_exited s = true ->
    astep s (mk s (c_buf s) (c_held s) (c_delivered s) (c_dropped s) (c_pcs s) (c_next s) (c_started s) SDone (c_exited s)).

Inductive reach (s0 : cstate) : cstate -> Prop :=
| reach_refl : reach s0 s0
| reach_step s s' : reach s0 s -> astep s s' -> reach s0 s'.

Definition c_init (cap : nat) (pol : policy) : cstate :=
  {| c_cap := cap; c_pol := pol; c_buf := []; c_held := None; c_delivered := []; c_dropped := [];
     c_pcs := fun _ => None; c_next := fun _ => 0; c_started := []; c_stop := SNo; c_exited := false |}.

(* ---------------- counting ---------------- *)
Definition cnt (x : item) (l : list item) : nat := count_occ item_dec l x.
Definition cntb (x : item) (l : list entry) : nat := count_occ entry_dec l (Data x).
Definition cnt_held (x : item) (h : option item) : nat := match h with Some y => if item_dec y x then 1 else 0 | None => 0 end.
Definition cnt_pc (x : item) (s : cstate) : nat :=
  match c_pcs s (fst x) with Some pc => if item_dec (pc_item pc) x then 1 else 0 | None => 0 end.

Lemma cnt_app x a b : cnt x (a ++ b) = cnt x a + cnt x b.
Proof. unfold cnt. apply count_occ_app. Qed.
Lemma cntb_app x a b : cntb x (a ++ b) = cntb x a + cntb x b.
Proof. unfold cntb. apply count_occ_app. Qed.
Lemma cnt_one x y : cnt x [y] = if item_dec y x then 1 else 0.
Proof. unfold cnt. cbn. destruct (item_dec y x); reflexivity. Qed.
Lemma cntb_data x y : cntb x [Data y] = if item_dec y x then 1 else 0.
Proof.
  unfold cntb. cbn [count_occ]. destruct (entry_dec (Data y) (Data x)) as [E|E]; destruct (item_dec y x) as [E'|E']; try reflexivity.
  - inversion E. contradiction.
  - subst. exfalso. now apply E.
Qed.
Lemma cntb_marker x : cntb x [Marker] = 0.
Proof. unfold cntb. cbn. destruct (entry_dec Marker (Data x)); [discriminate|reflexivity]. Qed.
Lemma cntb_cons_data x y r : cntb x (Data y :: r) = (if item_dec y x then 1 else 0) + cntb x r.
Proof. change (Data y :: r) with ([Data y] ++ r). now rewrite cntb_app, cntb_data. Qed.
Lemma cntb_cons_marker x r : cntb x (Marker :: r) = cntb x r.
Proof. change (Marker :: r) with ([Marker] ++ r). now rewrite cntb_app, cntb_marker. Qed.

(* every producer works on its own items: pc of producer p holds an item (p, _) *)
Definition own_items (s : cstate) : Prop := forall p pc, c_pcs s p = Some pc -> fst (pc_item pc) = p.

(* ---------------- I1: conservation, for every reachable state ---------------- *)
Definition conserved (s : cstate) : Prop :=
  forall x, cnt x (c_started s) = cnt x (c_delivered s) + cntb x (c_buf s) + cnt_held x (c_held s) + cnt_pc x s + cnt x (c_dropped s).

Lemma upd_same {A} (f : nat -> A) p v : upd f p v p = v.
Proof. unfold upd. now rewrite Nat.eqb_refl. Qed.
Lemma upd_other {A} (f : nat -> A) p q v : q <> p -> upd f p v q = f q.
Proof. intro H. unfold upd. destruct (Nat.eqb_spec q p); [contradiction|reflexivity]. Qed.

Lemma cnt_pc_upd s s' p v x :
  c_pcs s' = upd (c_pcs s) p v ->
  cnt_pc x s' = if Nat.eqb (fst x) p then match v with Some pc => if item_dec (pc_item pc) x then 1 else 0 | None => 0 end else cnt_pc x s.
Proof. intro E. unfold cnt_pc. rewrite E. unfold upd. destruct (Nat.eqb (fst x) p); reflexivity. Qed.

Ltac pc_here s p x Hpc Hown :=
  (* the contribution of producer p's current pc to the count of item x *)
  let E := fresh "E" in
  unfold cnt_pc; destruct (Nat.eqb_spec (fst x) p) as [E|E];
  [ rewrite E, Hpc; cbn [pc_item] | ].

Lemma step_own s s' : astep s s' -> own_items s -> own_items s'.
Proof.
  intros H Ho. inversion H; subst; intros q pc Hq; cbn [c_pcs mk] in Hq;
    try (now apply (Ho q pc Hq));
    match type of Hq with
    | upd _ ?p _ _ = _ =>
        unfold upd in Hq; destruct (Nat.eqb_spec q p) as [->|Hne]; [|now apply Ho];
        inversion Hq; subst; cbn [pc_item fst]; try reflexivity;
        try (match goal with Hp : c_pcs s p = Some _ |- _ => apply Ho in Hp; cbn [pc_item] in Hp; exact Hp end)
    end.
  destruct (c_pol s); cbn [pc_item]; match goal with Hp : c_pcs s _ = Some _ |- _ => apply Ho in Hp; exact Hp end.
Qed.

Lemma cnt_pc_at s p pc x : c_pcs s p = Some pc -> fst (pc_item pc) = p ->
  cnt_pc x s = if Nat.eqb (fst x) p then (if item_dec (pc_item pc) x then 1 else 0) else cnt_pc x s.
Proof. intros Hp _. unfold cnt_pc. destruct (Nat.eqb_spec (fst x) p) as [E|E]; [rewrite E, Hp; reflexivity|reflexivity]. Qed.

Lemma cnt_pc_none s p x : c_pcs s p = None -> cnt_pc x s = if Nat.eqb (fst x) p then 0 else cnt_pc x s.
Proof. intro Hp. unfold cnt_pc. destruct (Nat.eqb_spec (fst x) p) as [E|E]; [rewrite E, Hp; reflexivity|reflexivity]. Qed.

Lemma cnt_pc_same s s' x : c_pcs s' = c_pcs s -> cnt_pc x s' = cnt_pc x s.
Proof. intro E. unfold cnt_pc. now rewrite E. Qed.

Ltac fin x p :=
  try match goal with Hp : c_pcs _ p = Some ?pc, Ho : own_items _ |- _ =>
        let Hown := fresh "Hown" in pose proof (Ho _ _ Hp) as Hown; cbn [pc_item] in Hown end;
  destruct (Nat.eqb_spec (fst x) p);
  repeat match goal with
         | |- context[item_dec ?a x] => destruct (item_dec a x)
         | H : context[item_dec ?a x] |- _ => destruct (item_dec a x)
         end;
  subst; cbn [fst] in *; try congruence; try lia.

Lemma step_conserved s s' : astep s s' -> own_items s -> conserved s -> conserved s'.
Proof.
  intros H Ho Hc x. specialize (Hc x). unfold conserved in *.
  inversion H as [s0 p Hp Hst | s0 p y Hp Hl | s0 p y Hp Hl | s0 p y Hp | s0 p y Hp Hl | s0 p y Hp Hl
                 | s0 p y z rest Hp Hb | s0 p y Hp Hb | s0 p y Hp Hl
                 | s0 z rest Hh He Hb | s0 rest Hh He Hb | s0 z Hh | s0 Hst Hq | s0 Hst Hl | s0 Hst He]; subst;
    cbn [c_started c_delivered c_buf c_held c_dropped mk];
    rewrite ?cnt_app, ?cntb_app, ?cnt_one, ?cntb_data, ?cntb_marker.
  - erewrite cnt_pc_upd by reflexivity. rewrite (cnt_pc_none s p x Hp) in Hc. cbn [pc_item].
    fin x p.
  - erewrite cnt_pc_upd by reflexivity. rewrite (cnt_pc_at s p _ x Hp (Ho _ _ Hp)) in Hc. cbn [pc_item] in Hc.
    fin x p.
  - erewrite cnt_pc_upd by reflexivity. rewrite (cnt_pc_at s p _ x Hp (Ho _ _ Hp)) in Hc. cbn [pc_item] in Hc.
    destruct (c_pol s); cbn [pc_item]; fin x p.
  - erewrite cnt_pc_upd by reflexivity. rewrite (cnt_pc_at s p _ x Hp (Ho _ _ Hp)) in Hc. cbn [pc_item] in Hc.
    fin x p.
  - erewrite cnt_pc_upd by reflexivity. rewrite (cnt_pc_at s p _ x Hp (Ho _ _ Hp)) in Hc. cbn [pc_item] in Hc.
    fin x p.
  - erewrite cnt_pc_upd by reflexivity. rewrite (cnt_pc_at s p _ x Hp (Ho _ _ Hp)) in Hc. cbn [pc_item] in *.
    fin x p.
  - erewrite cnt_pc_upd by reflexivity. rewrite (cnt_pc_at s p _ x Hp (Ho _ _ Hp)) in Hc. cbn [pc_item] in *.
    rewrite Hb, cntb_cons_data in Hc. fin x p.
  - erewrite cnt_pc_upd by reflexivity. rewrite (cnt_pc_at s p _ x Hp (Ho _ _ Hp)) in Hc. cbn [pc_item] in *.
    rewrite Hb in Hc. fin x p.
  - erewrite cnt_pc_upd by reflexivity. rewrite (cnt_pc_at s p _ x Hp (Ho _ _ Hp)) in Hc. cbn [pc_item] in Hc.
    fin x p.
  - rewrite Hb, cntb_cons_data, Hh in Hc. cbn [cnt_held] in *. unfold cnt_pc in *; cbn [c_pcs mk] in *. destruct (item_dec z x); lia.
  - rewrite Hb, cntb_cons_marker, Hh in Hc. cbn [cnt_held] in *. unfold cnt_pc in *; cbn [c_pcs mk] in *. lia.
  - rewrite Hh in Hc. cbn [cnt_held] in *. unfold cnt_pc in *; cbn [c_pcs mk] in *. destruct (item_dec z x); lia.
  - unfold cnt_pc in *; cbn [c_pcs mk] in *. lia.
  - unfold cnt_pc in *; cbn [c_pcs mk] in *. lia.
  - unfold cnt_pc in *; cbn [c_pcs mk] in *. lia.
Qed.

Lemma init_conserved cap pol : conserved (c_init cap pol) /\ own_items (c_init cap pol).
Proof. split; [intro x; reflexivity|intros p pc H; discriminate]. Qed.

Theorem reach_conserved cap pol s : reach (c_init cap pol) s -> conserved s /\ own_items s.
Proof.
  induction 1 as [|s s' Hr [Hc Ho] Hs]; [apply init_conserved|].
  split; [now apply (step_conserved s s')|now apply (step_own s s')].
Qed.

(* ---------------- I2: submissions are distinct ---------------- *)
Definition fresh_inv (s : cstate) : Prop :=
  NoDup (c_started s) /\ forall p n, In (p, n) (c_started s) -> n < c_next s p.

Lemma nodup_snoc {A} (l : list A) x : NoDup l -> ~ In x l -> NoDup (l ++ [x]).
Proof.
  induction l as [|a l IH]; intros Hn Hx; cbn [app]; [repeat constructor; intros []|].
  inversion Hn as [|? ? Ha Hl]; subst. constructor.
  - intro Hin. apply in_app_or in Hin as [Hin|[->|[]]]; [contradiction|]. apply Hx. now left.
  - apply IH; [assumption|]. intro; apply Hx; now right.
Qed.

Lemma step_fresh s s' : astep s s' -> fresh_inv s -> fresh_inv s'.
Proof.
  intros H [Hn Hb].
  inversion H as [s0 p Hp Hst | | | | | | | | | | | | | | ]; subst; cbn [c_started c_next mk]; try (split; assumption).
  split.
  - apply nodup_snoc; [assumption|]. intro Hy. apply Hb in Hy. lia.
  - intros q n Hin. apply in_app_or in Hin as [Hin|[E|[]]].
    + specialize (Hb q n Hin). cbn [c_next mk]. destruct (Nat.eq_dec q p) as [->|Hne]; [rewrite upd_same; lia|rewrite upd_other by assumption; assumption].
    + inversion E; subst. cbn [c_next mk]. rewrite upd_same. lia.
Qed.

(* ---------------- I3: the stop marker and the stages of Stop ---------------- *)
Fixpoint data_of (b : list entry) : list item :=
  match b with [] => [] | Data x :: r => x :: data_of r | Marker :: r => data_of r end.
Definition held_list (h : option item) : list item := match h with Some x => [x] | None => [] end.

Definition pc_pol_ok (pol : policy) (pc : ppc) : Prop :=
  match pc with
  | PTry _ => True
  | PDiscarding _ => pol = PDiscard
  | PHandleSend _ | PHandleRecv _ => pol = PDiscardOldest
  | PBlocked _ => pol = PBlock
  end.

(* (a) the pc of a producer is consistent with the policy *)
Definition pcpol_inv (s : cstate) : Prop := forall p pc, c_pcs s p = Some pc -> pc_pol_ok (c_pol s) pc.

Lemma step_pcpol s s' : astep s s' -> pcpol_inv s -> pcpol_inv s'.
Proof.
  intros H Hpp.
  inversion H as [s0 p Hp Hst | s0 p y Hp Hl | s0 p y Hp Hl | s0 p y Hp | s0 p y Hp Hl | s0 p y Hp Hl
                 | s0 p y z rest Hp Hb | s0 p y Hp Hb | s0 p y Hp Hl
                 | s0 z rest Hh He Hb | s0 rest Hh He Hb | s0 z Hh | s0 Hst Hqq | s0 Hst Hl | s0 Hst He]; subst;
    intros q pc Hqp; cbn [c_pcs c_pol mk] in *; try (now apply (Hpp q));
    unfold upd in Hqp; (destruct (Nat.eqb q p); [|now apply (Hpp q)]); inversion Hqp; subst; try exact I;
    try (destruct (c_pol s); reflexivity); exact (Hpp p _ Hp).
Qed.

(* (b) once Stop has begun no producer is inside a call *)
Definition quiet_inv (s : cstate) : Prop := c_stop s <> SNo -> quiet s.

Lemma quiet_no_pc s p pc : quiet s -> c_pcs s p = Some pc -> False.
Proof. intros Hq Hp. rewrite (Hq p) in Hp. discriminate. Qed.

Lemma producer_needs_SNo s p pc : quiet_inv s -> c_pcs s p = Some pc -> c_stop s = SNo.
Proof. intros Hq Hp. destruct (c_stop s) eqn:E; try reflexivity; exfalso; apply (quiet_no_pc s p pc); try assumption; apply Hq; congruence. Qed.

Lemma step_quiet s s' : astep s s' -> quiet_inv s -> quiet_inv s'.
Proof.
  intros H Hq.
  inversion H as [s0 p Hp Hst | s0 p y Hp Hl | s0 p y Hp Hl | s0 p y Hp | s0 p y Hp Hl | s0 p y Hp Hl
                 | s0 p y z rest Hp Hb | s0 p y Hp Hb | s0 p y Hp Hl
                 | s0 z rest Hh He Hb | s0 rest Hh He Hb | s0 z Hh | s0 Hst Hqq | s0 Hst Hl | s0 Hst He]; subst;
    unfold quiet_inv; cbn [c_stop c_pcs mk]; try assumption;
    try (intro Hne; exfalso; apply Hne; first [exact Hst | exact (producer_needs_SNo s p _ Hq Hp)]).
  - intros _. exact Hqq.
  - intros _. apply Hq. congruence.
  - intros _. apply Hq. congruence.
Qed.

(* (c) where the marker is *)
Definition marker_inv (s : cstate) : Prop :=
  (c_stop s = SNo \/ c_stop s = SSend -> ~ In Marker (c_buf s) /\ c_exited s = false) /\
  (c_stop s = SWait -> (c_exited s = false /\ exists d, c_buf s = map Data d ++ [Marker]) \/
                       (c_exited s = true /\ c_buf s = [] /\ c_held s = None)) /\
  (c_stop s = SDone -> c_exited s = true /\ c_buf s = [] /\ c_held s = None).

Lemma not_in_snoc_data (b : list entry) x : ~ In Marker b -> ~ In Marker (b ++ [Data x]).
Proof. intros H Hin. apply in_app_or in Hin as [Hin|[E|[]]]; [contradiction|discriminate]. Qed.

Lemma no_marker_map b : ~ In Marker b -> b = map Data (data_of b).
Proof.
  induction b as [|e b IH]; intro H; [reflexivity|]. destruct e as [x|]; [|exfalso; apply H; now left].
  cbn [data_of map]. f_equal. apply IH. intro; apply H; now right.
Qed.

Lemma step_marker s s' : astep s s' -> quiet_inv s -> marker_inv s -> marker_inv s'.
Proof.
  intros H Hq [Hm [Hw Hd]].
  inversion H as [s0 p Hp Hst | s0 p y Hp Hl | s0 p y Hp Hl | s0 p y Hp | s0 p y Hp Hl | s0 p y Hp Hl
                 | s0 p y z rest Hp Hb | s0 p y Hp Hb | s0 p y Hp Hl
                 | s0 z rest Hh He Hb | s0 rest Hh He Hb | s0 z Hh | s0 Hst Hqq | s0 Hst Hl | s0 Hst He]; subst;
    unfold marker_inv; cbn [c_stop c_buf c_exited c_held mk];
    try (pose proof (producer_needs_SNo s p _ Hq Hp) as Hno);
    try (rename Hst into Hno).
  (* producer steps happen under SNo *)
  1-9: (destruct (Hm (or_introl Hno)) as [Hnm Hex]; split; [|split; intro Hs; congruence]; intros _; split; [|assumption]).
  - assumption.
  - now apply not_in_snoc_data.
  - assumption.
  - assumption.
  - now apply not_in_snoc_data.
  - assumption.
  - intro Hin. apply Hnm. rewrite Hb. now right.
  - intros [].
  - now apply not_in_snoc_data.
  - (* worker receives a data item *)
    split; [|split].
    + intro Hs. destruct (Hm Hs) as [Hnm _]. split; [|reflexivity]. intro Hin. apply Hnm. rewrite Hb. now right.
    + intro Hs. destruct (Hw Hs) as [[_ [d Ed]]|[Ex _]]; [|congruence]. left. split; [reflexivity|].
      rewrite Hb in Ed. destruct d as [|d0 d]; [discriminate|]. inversion Ed; subst. now exists d.
    + intro Hs. destruct (Hd Hs) as [Ex _]. congruence.
  - (* worker receives the marker *)
    split; [|split].
    + intro Hs. destruct (Hm Hs) as [Hnm _]. exfalso. apply Hnm. rewrite Hb. now left.
    + intro Hs. right. destruct (Hw Hs) as [[_ [d Ed]]|[Ex _]]; [|congruence].
      rewrite Hb in Ed. destruct d as [|d0 d]; [|discriminate]. inversion Ed; subst. auto.
    + intro Hs. destruct (Hd Hs) as [Ex _]. congruence.
  - (* worker delivers *)
    split; [|split].
    + intro Hs. exact (Hm Hs).
    + intro Hs. destruct (Hw Hs) as [Hl|[Ex [Eb Ehh]]]; [now left|congruence].
    + intro Hs. destruct (Hd Hs) as [Ex [Eb Ehh]]. congruence.
  - (* Stop begins *)
    split; [|split]; try (intro Hs; discriminate). intros _. apply Hm. now left.
  - (* the marker is enqueued *)
    destruct (Hm (or_intror Hno)) as [Hnm Hex]. split; [|split]; try (intro Hs; discriminate); try (intros [E|E]; discriminate).
    intros _. left. split; [assumption|]. exists (data_of (c_buf s)). f_equal. now apply no_marker_map.
  - (* Stop returns *)
    destruct (Hw Hno) as [[Ex _]|[Ex [Eb Ehh]]]; [congruence|]. split; [|split]; try (intro Hs; discriminate); try (intros [E|E]; discriminate).
    intros _. auto.
Qed.

Definition stage_inv (s : cstate) : Prop := pcpol_inv s /\ quiet_inv s /\ marker_inv s.

Lemma step_stage s s' : astep s s' -> stage_inv s -> stage_inv s'.
Proof. intros H [Ha [Hb Hc]]. split; [now apply (step_pcpol s)|split; [now apply (step_quiet s)|now apply (step_marker s)]]. Qed.

Lemma init_stage cap pol : stage_inv (c_init cap pol).
Proof.
  split; [intros p pc H; discriminate|split; [intro H; exfalso; now apply H|]].
  unfold marker_inv, c_init; cbn. repeat split; try discriminate; tauto.
Qed.

(* ---------------- all invariants together, over every reachable state ---------------- *)
Definition all_inv (s : cstate) : Prop := conserved s /\ own_items s /\ fresh_inv s /\ stage_inv s.

Lemma step_all s s' : astep s s' -> all_inv s -> all_inv s'.
Proof.
  intros H [Hc [Ho [Hf Hs]]]. split; [|split; [|split]].
  - now apply (step_conserved s).
  - now apply (step_own s).
  - now apply (step_fresh s).
  - now apply (step_stage s).
Qed.

Lemma init_all cap pol : all_inv (c_init cap pol).
Proof.
  split; [apply init_conserved|split; [apply init_conserved|split; [|apply init_stage]]].
  split; [constructor|intros p n []].
Qed.

Theorem reach_all cap pol s : reach (c_init cap pol) s -> all_inv s.
Proof. induction 1 as [|s s' Hr IH Hs]; [apply init_all|now apply (step_all s)]. Qed.

(* ---------------- C04: after Stop has returned ---------------- *)
Lemma cnt_in x l : In x l <-> 0 < cnt x l.
Proof. unfold cnt. apply count_occ_In. Qed.

Theorem final_accounting cap pol s : reach (c_init cap pol) s -> c_stop s = SDone ->
  (forall x, cnt x (c_started s) = cnt x (c_delivered s) + cnt x (c_dropped s)) /\
  NoDup (c_delivered s) /\ NoDup (c_dropped s) /\
  (forall x, In x (c_delivered s) -> In x (c_started s) /\ ~ In x (c_dropped s)) /\
  (forall x, In x (c_started s) -> In x (c_delivered s) \/ In x (c_dropped s)) /\
  length (c_delivered s) + length (c_dropped s) = length (c_started s).
Proof.
  intros Hr Hd. destruct (reach_all _ _ _ Hr) as [Hc [Ho [[Hn _] [_ [Hq [_ [_ Hdone]]]]]]].
  destruct (Hdone Hd) as [Hex [Hb Hh]].
  assert (Hq' : quiet s) by (apply Hq; congruence).
  assert (Hcount : forall x, cnt x (c_started s) = cnt x (c_delivered s) + cnt x (c_dropped s)).
  { intro x. rewrite (Hc x), Hb, Hh. unfold cnt_pc. rewrite (Hq' (fst x)). cbn. lia. }
  assert (Hle : forall x, cnt x (c_started s) <= 1).
  { intro x. unfold cnt. destruct (in_dec item_dec x (c_started s)) as [Hi|Hi];
      [rewrite (proj1 (NoDup_count_occ' item_dec _) Hn x Hi); lia|rewrite (proj1 (count_occ_not_In item_dec _ x) Hi); lia]. }
  split; [exact Hcount|]. split; [|split; [|split; [|split]]].
  - apply (NoDup_count_occ item_dec). intro x. specialize (Hcount x). specialize (Hle x). unfold cnt in *. lia.
  - apply (NoDup_count_occ item_dec). intro x. specialize (Hcount x). specialize (Hle x). unfold cnt in *. lia.
  - intros x Hx. apply cnt_in in Hx. specialize (Hcount x). specialize (Hle x). split.
    + apply cnt_in. lia.
    + intro Hy. apply cnt_in in Hy. lia.
  - intros x Hx. apply cnt_in in Hx. specialize (Hcount x).
    destruct (in_dec item_dec x (c_delivered s)) as [Hi|Hi]; [now left|right].
    apply cnt_in. apply (count_occ_not_In item_dec) in Hi. unfold cnt in *. lia.
  - (* lengths: both sides are duplicate-free lists with the same members *)
    assert (Hp : Permutation (c_started s) (c_delivered s ++ c_dropped s)).
    { apply (Permutation_count_occ item_dec). intro x. rewrite count_occ_app. apply Hcount. }
    apply Permutation_length in Hp. rewrite app_length in Hp. lia.
Qed.

(* Block policy: nothing is ever discarded *)
Lemma step_block s s' : astep s s' -> pcpol_inv s -> c_pol s = PBlock -> c_dropped s = [] -> c_dropped s' = [].
Proof.
  intros H Hpp Hb Hd.
  inversion H as [s0 p Hp Hst | s0 p y Hp Hl | s0 p y Hp Hl | s0 p y Hp | s0 p y Hp Hl | s0 p y Hp Hl
                 | s0 p y z rest Hp Hbb | s0 p y Hp Hbb | s0 p y Hp Hl
                 | s0 z rest Hh He Hbb | s0 rest Hh He Hbb | s0 z Hh | s0 Hst Hqq | s0 Hst Hl | s0 Hst He]; subst;
    cbn [c_dropped mk]; try assumption.
  - pose proof (Hpp p _ Hp) as Hx. cbn in Hx. congruence.
  - pose proof (Hpp p _ Hp) as Hx. cbn in Hx. congruence.
Qed.

Lemma step_pol s s' : astep s s' -> c_pol s' = c_pol s /\ c_cap s' = c_cap s.
Proof. intro H. inversion H; subst; split; reflexivity. Qed.

Theorem block_never_discards cap s : reach (c_init cap PBlock) s -> c_dropped s = [] /\ c_pol s = PBlock.
Proof.
  induction 1 as [|s s' Hr [IHd IHp] Hs]; [split; reflexivity|].
  destruct (reach_all _ _ _ Hr) as [_ [_ [_ [Hpp _]]]].
  split; [now apply (step_block s s')|]. destruct (step_pol _ _ Hs) as [E _]. congruence.
Qed.

(* ---------------- C05: Stop flushes everything accepted before it, in order ---------------- *)
Definition pending (s : cstate) : list item := c_delivered s ++ held_list (c_held s) ++ data_of (c_buf s).

Lemma data_of_app a b : data_of (a ++ b) = data_of a ++ data_of b.
Proof. induction a as [|e a IH]; [reflexivity|]. destruct e; cbn [app data_of]; [now rewrite IH|exact IH]. Qed.

Lemma step_pending s s' : astep s s' -> quiet_inv s -> c_stop s <> SNo -> pending s' = pending s.
Proof.
  intros H Hq Hne.
  inversion H as [s0 p Hp Hst | s0 p y Hp Hl | s0 p y Hp Hl | s0 p y Hp | s0 p y Hp Hl | s0 p y Hp Hl
                 | s0 p y z rest Hp Hb | s0 p y Hp Hb | s0 p y Hp Hl
                 | s0 z rest Hh He Hb | s0 rest Hh He Hb | s0 z Hh | s0 Hst Hqq | s0 Hst Hl | s0 Hst He]; subst;
    try (exfalso; apply Hne; first [exact Hst | exact (producer_needs_SNo s p _ Hq Hp)]);
    unfold pending; cbn [c_delivered c_held c_buf mk held_list].
  - rewrite Hh, Hb. reflexivity.
  - rewrite Hh, Hb. reflexivity.
  - rewrite Hh. cbn [held_list app]. now rewrite <- app_assoc.
  - now rewrite data_of_app, app_nil_r.
  - reflexivity.
Qed.

Inductive reach_from (s0 : cstate) : cstate -> Prop :=
| rf_refl : reach_from s0 s0
| rf_step s s' : reach_from s0 s -> astep s s' -> reach_from s0 s'.

Lemma stop_monotone s s' : astep s s' -> c_stop s <> SNo -> c_stop s' <> SNo.
Proof. intros H Hne. inversion H; subst; cbn [c_stop mk]; try assumption; discriminate. Qed.

Lemma reach_from_inv s0 s : stage_inv s0 -> c_stop s0 <> SNo -> reach_from s0 s ->
  stage_inv s /\ c_stop s <> SNo /\ pending s = pending s0.
Proof.
  intros Hinv Hne Hr. induction Hr as [|s s' Hr [IH1 [IH2 IH3]] Hs]; [auto|].
  split; [now apply (step_stage s)|]. split; [now apply (stop_monotone s)|].
  rewrite <- IH3. apply step_pending; [assumption|apply IH1|assumption].
Qed.

(* every execution from a state in which Stop has been called (no log call in progress) that reaches
   "Stop returned" has delivered exactly what was delivered, held or buffered at the call, in order *)
Theorem stop_flushes s0 s : stage_inv s0 -> c_stop s0 <> SNo -> reach_from s0 s -> c_stop s = SDone ->
  c_delivered s = pending s0 /\ c_buf s = [] /\ c_held s = None.
Proof.
  intros Hinv Hne Hr Hd. destruct (reach_from_inv _ _ Hinv Hne Hr) as [[_ [_ [_ [_ Hdone]]]] [_ Hp]].
  destruct (Hdone Hd) as [_ [Hb Hh]]. repeat split; try assumption.
  rewrite <- Hp. unfold pending. rewrite Hb, Hh. cbn. now rewrite app_nil_r.
Qed.

(* ---------------- C05: Stop terminates on every schedule (appender calls return) ---------------- *)
Definition stage_weight (st : sstage) : nat := match st with SNo => 5 | SSend => 4 | SWait => 1 | SDone => 0 end.
Definition mu (s : cstate) : nat := 2 * length (c_buf s) + length (held_list (c_held s)) + stage_weight (c_stop s).

Theorem stop_step_decreases s s' : astep s s' -> quiet_inv s -> c_stop s <> SNo -> mu s' < mu s.
Proof.
  intros H Hq Hne.
  inversion H as [s0 p Hp Hst | s0 p y Hp Hl | s0 p y Hp Hl | s0 p y Hp | s0 p y Hp Hl | s0 p y Hp Hl
                 | s0 p y z rest Hp Hb | s0 p y Hp Hb | s0 p y Hp Hl
                 | s0 z rest Hh He Hb | s0 rest Hh He Hb | s0 z Hh | s0 Hst Hqq | s0 Hst Hl | s0 Hst He]; subst;
    try (exfalso; apply Hne; first [exact Hst | exact (producer_needs_SNo s p _ Hq Hp)]);
    unfold mu; cbn [c_buf c_held c_stop mk held_list length].
  - rewrite Hb, Hh. cbn [length held_list]. lia.
  - rewrite Hb, Hh. cbn [length held_list]. lia.
  - rewrite Hh. cbn [length held_list]. lia.
  - rewrite Hst, app_length. cbn [length stage_weight]. lia.
  - rewrite Hst. cbn [stage_weight]. lia.
Qed.

(* no deadlock: until Stop has returned some step is enabled *)
Theorem stop_progress s : stage_inv s -> 0 < c_cap s -> c_stop s = SSend \/ c_stop s = SWait -> exists s', astep s s'.
Proof.
  intros [_ [_ [Hm [Hw _]]]] Hcap [Hs|Hs].
  - destruct (Hm (or_intror Hs)) as [Hnm Hex].
    destruct (Nat.lt_ge_cases (length (c_buf s)) (c_cap s)) as [Hl|Hl]; [eexists; now apply a_stop_send|].
    destruct (c_held s) as [y|] eqn:Eh; [eexists; now apply (a_w_deliver s y)|].
    destruct (c_buf s) as [|e rest] eqn:Eb; [simpl in Hl; lia|].
    destruct e as [y|]; [eexists; now apply (a_w_recv s y rest)|exfalso; apply Hnm; now left].
  - destruct (Hw Hs) as [[Hex [d Ed]]|[Hex _]]; [|eexists; now apply a_stop_wait].
    destruct (c_held s) as [y|] eqn:Eh; [eexists; now apply (a_w_deliver s y)|].
    destruct d as [|y d]; cbn [map app] in Ed; [eexists; now apply (a_w_marker s [])|eexists; now apply (a_w_recv s y (map Data d ++ [Marker]))].
Qed.

Theorem stop_bound s : c_stop s = SSend -> length (c_buf s) <= c_cap s -> mu s <= 2 * c_cap s + 5.
Proof. intros Hs Hl. unfold mu. rewrite Hs. destruct (c_held s); cbn [held_list length stage_weight]; lia. Qed.

(* ---------------- C06: per-producer FIFO on every schedule ---------------- *)
Definition seqs (p : nat) (l : list item) : list nat := map snd (filter (fun x => Nat.eqb (fst x) p) l).
Definition line (s : cstate) : list item := pending s.
Definition lim (s : cstate) (p : nat) : nat :=
  match c_pcs s p with Some pc => snd (pc_item pc) | None => c_next s p end.

From Coq Require Import Sorting.Sorted.

Definition order_inv (s : cstate) : Prop :=
  forall p, StronglySorted lt (seqs p (line s)) /\ Forall (fun n => n < lim s p) (seqs p (line s)) /\
            match c_pcs s p with Some pc => snd (pc_item pc) < c_next s p | None => True end.

Lemma seqs_app p a b : seqs p (a ++ b) = seqs p a ++ seqs p b.
Proof. unfold seqs. now rewrite filter_app, map_app. Qed.

Lemma sorted_snoc l n : StronglySorted lt l -> Forall (fun m => m < n) l -> StronglySorted lt (l ++ [n]).
Proof.
  induction 1 as [|a l Hs IH Ha]; intro Hf; cbn [app]; [repeat constructor|].
  inversion Hf as [|? ? Han Hfl]; subst. constructor; [now apply IH|].
  apply Forall_app. split; [assumption|]. repeat constructor. assumption.
Qed.

Lemma sorted_app_l (a b : list nat) : StronglySorted lt (a ++ b) -> StronglySorted lt a.
Proof.
  induction a as [|x a IH]; intro H; [constructor|]. cbn [app] in H. inversion H as [|? ? Hs Hf]; subst.
  constructor; [now apply IH|]. apply Forall_app in Hf. tauto.
Qed.

Lemma sorted_remove (a : list nat) x b : StronglySorted lt (a ++ x :: b) -> StronglySorted lt (a ++ b).
Proof.
  induction a as [|y a IH]; cbn [app]; intro H; inversion H as [|? ? Hs Hf]; subst; [assumption|].
  constructor; [now apply IH|]. apply Forall_app in Hf as [Hf1 Hf2]. inversion Hf2; subst. apply Forall_app. split; assumption.
Qed.

Lemma forall_remove {A} (P : A -> Prop) (a : list A) x b : Forall P (a ++ x :: b) -> Forall P (a ++ b).
Proof. intro H. apply Forall_app in H as [H1 H2]. inversion H2; subst. apply Forall_app. split; assumption. Qed.

Lemma pending_snoc s x : pending (mk s (c_buf s ++ [Data x]) (c_held s) (c_delivered s) (c_dropped s) (c_pcs s) (c_next s) (c_started s) (c_stop s) (c_exited s))
  = pending s ++ [x].
Proof. unfold pending. cbn [c_delivered c_held c_buf mk]. rewrite data_of_app. cbn [data_of]. now rewrite <- !app_assoc. Qed.

Lemma step_order s s' : astep s s' -> own_items s -> order_inv s -> order_inv s'.
Proof.
  intros H Ho Hi q. destruct (Hi q) as [Hs [Hf Hl]].
  inversion H as [s0 p Hp Hst | s0 p y Hp Hle | s0 p y Hp Hle | s0 p y Hp | s0 p y Hp Hle | s0 p y Hp Hle
                 | s0 p y z rest Hp Hb | s0 p y Hp Hb | s0 p y Hp Hle
                 | s0 z rest Hh He Hb | s0 rest Hh He Hb | s0 z Hh | s0 Hst Hqq | s0 Hst Hle | s0 Hst He]; subst;
    unfold line, lim in *; cbn [c_pcs c_next mk] in *.
  - (* start: the new item's number is the old limit *)
    assert (El : pending (mk s (c_buf s) (c_held s) (c_delivered s) (c_dropped s) (upd (c_pcs s) p (Some (PTry (p, c_next s p)))) (upd (c_next s) p (S (c_next s p))) (c_started s ++ [(p, c_next s p)]) (c_stop s) (c_exited s)) = pending s) by reflexivity.
    rewrite El. destruct (Nat.eq_dec q p) as [->|Hne].
    + rewrite !upd_same. cbn [pc_item snd]. rewrite Hp in *. repeat split; [assumption|assumption|lia].
    + rewrite !upd_other by assumption. auto.
  - (* enqueue *)
    pose proof (Ho p _ Hp) as Hown. cbn [pc_item] in Hown.
    change (pending _) with (pending (mk s (c_buf s ++ [Data y]) (c_held s) (c_delivered s) (c_dropped s) (c_pcs s) (c_next s) (c_started s) (c_stop s) (c_exited s))).
    rewrite pending_snoc, seqs_app. unfold seqs at 2 4. cbn [filter]. destruct (Nat.eq_dec q p) as [->|Hne].
    + rewrite upd_same. rewrite Hp in *. cbn [pc_item] in *. rewrite Hown, Nat.eqb_refl. cbn [map].
      repeat split; [now apply sorted_snoc|].
      apply Forall_app. split; [eapply Forall_impl; [|exact Hf]; cbn; lia|constructor; [lia|constructor]].
    + rewrite upd_other by assumption. replace (fst y =? q) with false by (symmetry; apply Nat.eqb_neq; congruence).
      cbn [map]. rewrite app_nil_r. auto.
  - (* full: pc changes, same item *)
    destruct (Nat.eq_dec q p) as [->|Hne]; [rewrite upd_same; rewrite Hp in *; destruct (c_pol s); cbn [pc_item] in *; auto|rewrite upd_other by assumption; auto].
  - (* discard: the producer returns *)
    destruct (Nat.eq_dec q p) as [->|Hne]; [|rewrite upd_other by assumption; auto].
    rewrite upd_same. rewrite Hp in *. cbn [pc_item] in *. repeat split; [assumption|]. eapply Forall_impl; [|exact Hf]. cbn. lia.
  - pose proof (Ho p _ Hp) as Hown. cbn [pc_item] in Hown.
    change (pending _) with (pending (mk s (c_buf s ++ [Data y]) (c_held s) (c_delivered s) (c_dropped s) (c_pcs s) (c_next s) (c_started s) (c_stop s) (c_exited s))).
    rewrite pending_snoc, seqs_app. unfold seqs at 2 4. cbn [filter]. destruct (Nat.eq_dec q p) as [->|Hne].
    + rewrite upd_same. rewrite Hp in *. cbn [pc_item] in *. rewrite Hown, Nat.eqb_refl. cbn [map].
      repeat split; [now apply sorted_snoc|].
      apply Forall_app. split; [eapply Forall_impl; [|exact Hf]; cbn; lia|constructor; [lia|constructor]].
    + rewrite upd_other by assumption. replace (fst y =? q) with false by (symmetry; apply Nat.eqb_neq; congruence).
      cbn [map]. rewrite app_nil_r. auto.
  - destruct (Nat.eq_dec q p) as [->|Hne]; [rewrite upd_same; rewrite Hp in *; cbn [pc_item] in *; auto|rewrite upd_other by assumption; auto].
  - (* DiscardOldest removes the head of the buffer *)
    assert (El : exists a b, pending s = a ++ z :: b /\ pending (mk s rest (c_held s) (c_delivered s) (c_dropped s ++ [z]) (upd (c_pcs s) p (Some (PHandleSend y))) (c_next s) (c_started s) (c_stop s) (c_exited s)) = a ++ b).
    { exists (c_delivered s ++ held_list (c_held s)), (data_of rest). unfold pending. cbn [c_delivered c_held c_buf mk]. rewrite Hb. cbn [data_of]. now rewrite <- !app_assoc. }
    destruct El as [a [b [E1 E2]]]. rewrite E2. rewrite E1 in Hs, Hf. rewrite seqs_app in *. unfold seqs in Hs, Hf. cbn [filter] in Hs, Hf.
    assert (Hs' : StronglySorted lt (seqs q a ++ seqs q b) /\ Forall (fun n => n < match c_pcs s q with Some pc => snd (pc_item pc) | None => c_next s q end) (seqs q a ++ seqs q b)).
    { unfold seqs. destruct (fst z =? q); cbn [map] in *; [split; [eapply sorted_remove; eassumption|eapply forall_remove; eassumption]|split; assumption]. }
    destruct Hs' as [Hs1 Hs2].
    destruct (Nat.eq_dec q p) as [->|Hne]; [rewrite upd_same; rewrite Hp in *; cbn [pc_item] in *; auto|rewrite upd_other by assumption; auto].
  - assert (El : pending (mk s [] (c_held s) (c_delivered s) (c_dropped s) (upd (c_pcs s) p (Some (PHandleSend y))) (c_next s) (c_started s) (c_stop s) (c_exited s)) = pending s)
      by (unfold pending; cbn [c_delivered c_held c_buf mk]; now rewrite Hb).
    rewrite El. destruct (Nat.eq_dec q p) as [->|Hne]; [rewrite upd_same; rewrite Hp in *; cbn [pc_item] in *; auto|rewrite upd_other by assumption; auto].
  - pose proof (Ho p _ Hp) as Hown. cbn [pc_item] in Hown.
    change (pending _) with (pending (mk s (c_buf s ++ [Data y]) (c_held s) (c_delivered s) (c_dropped s) (c_pcs s) (c_next s) (c_started s) (c_stop s) (c_exited s))).
    rewrite pending_snoc, seqs_app. unfold seqs at 2 4. cbn [filter]. destruct (Nat.eq_dec q p) as [->|Hne].
    + rewrite upd_same. rewrite Hp in *. cbn [pc_item] in *. rewrite Hown, Nat.eqb_refl. cbn [map].
      repeat split; [now apply sorted_snoc|].
      apply Forall_app. split; [eapply Forall_impl; [|exact Hf]; cbn; lia|constructor; [lia|constructor]].
    + rewrite upd_other by assumption. replace (fst y =? q) with false by (symmetry; apply Nat.eqb_neq; congruence).
      cbn [map]. rewrite app_nil_r. auto.
  - (* worker receive: the line does not change *)
    assert (El : pending (mk s rest (Some z) (c_delivered s) (c_dropped s) (c_pcs s) (c_next s) (c_started s) (c_stop s) false) = pending s)
      by (unfold pending; cbn [c_delivered c_held c_buf mk held_list]; now rewrite Hh, Hb).
    rewrite El. auto.
  - assert (El : pending (mk s rest None (c_delivered s) (c_dropped s) (c_pcs s) (c_next s) (c_started s) (c_stop s) true) = pending s)
      by (unfold pending; cbn [c_delivered c_held c_buf mk held_list]; now rewrite Hh, Hb).
    rewrite El. auto.
  - assert (El : pending (mk s (c_buf s) None (c_delivered s ++ [z]) (c_dropped s) (c_pcs s) (c_next s) (c_started s) (c_stop s) (c_exited s)) = pending s)
      by (unfold pending; cbn [c_delivered c_held c_buf mk held_list]; rewrite Hh; cbn [held_list app]; now rewrite <- app_assoc).
    rewrite El. auto.
  - auto.
  - assert (El : pending (mk s (c_buf s ++ [Marker]) (c_held s) (c_delivered s) (c_dropped s) (c_pcs s) (c_next s) (c_started s) SWait (c_exited s)) = pending s)
      by (unfold pending; cbn [c_delivered c_held c_buf mk]; now rewrite data_of_app, app_nil_r).
    rewrite El. auto.
  - auto.
Qed.

Lemma init_order cap pol : order_inv (c_init cap pol).
Proof. intro p. unfold line, pending, lim, c_init; cbn. repeat split; constructor. Qed.

Theorem reach_order cap pol s : reach (c_init cap pol) s -> order_inv s.
Proof.
  induction 1 as [|s s' Hr IH Hs]; [apply init_order|].
  destruct (reach_all _ _ _ Hr) as [_ [Ho _]]. now apply (step_order s).
Qed.

(* on every schedule, what has been delivered from one producer is in submission order *)
Theorem fifo_per_producer cap pol s p : reach (c_init cap pol) s -> StronglySorted lt (seqs p (c_delivered s)).
Proof.
  intro Hr. destruct (reach_order _ _ _ Hr p) as [Hs _]. unfold line, pending in Hs. rewrite seqs_app in Hs. now apply sorted_app_l in Hs.
Qed.

(* ---------------- C06: the sequential machine driven by the gated harness is a schedule of the system ---------------- *)
Definition R (q : qstate) (c : cstate) : Prop :=
  q_cap q = c_cap c /\ q_pol q = c_pol c /\ q_buf q = c_buf c /\ q_held q = c_held c /\
  q_delivered q = c_delivered c /\ q_discard q = length (c_dropped c) /\ q_stopped q = c_exited c /\
  c_stop c = SNo /\ quiet c /\ q_blocked q = [] /\ ~ In Marker (c_buf c) /\ length (c_buf c) <= c_cap c.

Lemma rf_trans s0 s1 s2 : reach_from s0 s1 -> reach_from s1 s2 -> reach_from s0 s2.
Proof. intros H1 H2. induction H2 as [|s s' _ IH Hs]; [assumption|]. eapply rf_step; eauto. Qed.

Lemma rf_one s s' : astep s s' -> reach_from s s'.
Proof. intro H. eapply rf_step; [apply rf_refl|exact H]. Qed.

Ltac quiet_goal Hq p := let r := fresh "r" in intro r; cbn [c_pcs mk]; unfold upd; destruct (Nat.eqb r p); [reflexivity|]; try apply Hq.

(* a submission that does not block is a sequence of atomic steps of producer p, ending outside the call *)
Theorem submit_refines q c p : R q c -> 0 < c_cap c ->
  let x := (p, c_next c p) in
  snd (submit q x) <> Blocks ->
  exists c', reach_from c c' /\ R (fst (submit q x)) c' /\ c_started c' = c_started c ++ [x].
Proof.
  intros [Hcap [Hpol [Hbuf [Hheld [Hdel [Hdis [Hst [Hno [Hq [Hbl [Hnm Hle]]]]]]]]]]] Hpos x Hout.
  pose proof (a_start c p (Hq p) Hno) as S1. fold x in S1.
  remember (mk c (c_buf c) (c_held c) (c_delivered c) (c_dropped c) (upd (c_pcs c) p (Some (PTry x))) (upd (c_next c) p (S (c_next c p)))
                (c_started c ++ [x]) (c_stop c) (c_exited c)) as c1 eqn:E1.
  assert (Hp1 : c_pcs c1 p = Some (PTry x)) by (subst c1; cbn [c_pcs mk]; apply upd_same).
  assert (F1 : c_buf c1 = c_buf c /\ c_cap c1 = c_cap c /\ c_pol c1 = c_pol c) by (subst c1; auto).
  destruct F1 as [Fb [Fc Fp]].
  unfold submit in *. rewrite Hbuf, Hcap in *.
  destruct (length (c_buf c) <? c_cap c) eqn:El.
  - apply Nat.ltb_lt in El.
    pose proof (a_try_ok c1 p x Hp1) as S2. rewrite Fb, Fc in S2. specialize (S2 El).
    eexists. split; [eapply rf_step; [apply rf_one; exact S1|exact S2]|]. subst c1.
    cbn [fst set_buf c_started mk]. split; [|reflexivity].
    unfold R; cbn [q_cap q_pol q_buf q_held q_delivered q_discard q_stopped q_blocked c_cap c_pol c_buf c_held c_delivered c_dropped c_exited c_stop mk].
    repeat split; try assumption; try congruence.
    + quiet_goal Hq p.
    + now apply not_in_snoc_data.
    + rewrite app_length. cbn [length]. lia.
  - apply Nat.ltb_ge in El. rewrite Hpol in *. destruct (c_pol c) eqn:Ep.
    + cbn [snd] in Hout. congruence.
    + (* Discard *)
      pose proof (a_try_full c1 p x Hp1) as S2. rewrite Fb, Fc, Fp in S2. specialize (S2 El).
      match type of S2 with astep _ ?c2 => remember c2 as c2' eqn:E2 end.
      assert (Hp2 : c_pcs c2' p = Some (PDiscarding x)) by (subst c2'; cbn [c_pcs mk]; apply upd_same).
      pose proof (a_discard c2' p x Hp2) as S3.
      eexists. split; [eapply rf_step; [eapply rf_step; [apply rf_one; exact S1|exact S2]|exact S3]|]. subst c2' c1.
      cbn [fst c_started mk]. split; [|reflexivity].
      unfold R; cbn [q_cap q_pol q_buf q_held q_delivered q_discard q_stopped q_blocked c_cap c_pol c_buf c_held c_delivered c_dropped c_exited c_stop mk].
      repeat split; try assumption; try congruence.
      * rewrite app_length. cbn [length]. lia.
      * intro r; cbn [c_pcs mk]; unfold upd; destruct (Nat.eqb r p); [reflexivity|apply Hq].
    + (* DiscardOldest *)
      destruct (c_buf c) as [|e rest] eqn:Eb; [simpl in El; lia|].
      destruct e as [y|]; [|exfalso; apply Hnm; now left].
      pose proof (a_try_full c1 p x Hp1) as S2. rewrite Fb, Fc, Fp in S2. specialize (S2 El).
      match type of S2 with astep _ ?c2 => remember c2 as c2' eqn:E2 end.
      assert (Hp2 : c_pcs c2' p = Some (PHandleSend x)) by (subst c2'; cbn [c_pcs mk]; apply upd_same).
      assert (F2 : c_buf c2' = Data y :: rest /\ c_cap c2' = c_cap c) by (subst c2' c1; cbn [c_buf c_cap mk]; auto).
      destruct F2 as [F2b F2c].
      pose proof (a_hs_full c2' p x Hp2) as S3. rewrite F2b, F2c in S3. specialize (S3 El).
      match type of S3 with astep _ ?c3 => remember c3 as c3' eqn:E3 end.
      assert (Hp3 : c_pcs c3' p = Some (PHandleRecv x)) by (subst c3'; cbn [c_pcs mk]; apply upd_same).
      assert (F3 : c_buf c3' = Data y :: rest) by (subst c3'; cbn [c_buf mk]; first [reflexivity|exact F2b]).
      pose proof (a_hr_take c3' p x y rest Hp3 F3) as S4.
      match type of S4 with astep _ ?c4 => remember c4 as c4' eqn:E4 end.
      assert (Hp4 : c_pcs c4' p = Some (PHandleSend x)) by (subst c4'; cbn [c_pcs mk]; apply upd_same).
      assert (F4 : c_buf c4' = rest /\ c_cap c4' = c_cap c) by (subst c4' c3'; cbn [c_buf c_cap mk]; auto).
      destruct F4 as [F4b F4c].
      pose proof (a_hs_ok c4' p x Hp4) as S5. rewrite F4b, F4c in S5.
      assert (Hroom : length rest < c_cap c) by (simpl in El, Hle; lia). specialize (S5 Hroom).
      eexists. split; [eapply rf_step; [eapply rf_step; [eapply rf_step; [eapply rf_step; [apply rf_one; exact S1|exact S2]|exact S3]|exact S4]|exact S5]|].
      subst c4' c3' c2' c1. cbn [fst c_started mk]. split; [|reflexivity].
      unfold R; cbn [q_cap q_pol q_buf q_held q_delivered q_discard q_stopped q_blocked c_cap c_pol c_buf c_held c_delivered c_dropped c_exited c_stop mk].
      repeat split; try assumption; try congruence.
      * rewrite app_length. cbn [length]. lia.
      * intro r; cbn [c_pcs mk]; unfold upd; destruct (Nat.eqb r p); [reflexivity|apply Hq].
      * apply not_in_snoc_data. intro; apply Hnm; now right.
      * rewrite app_length. cbn [length]. simpl in Hle. lia.
Qed.

Theorem receive_refines q c : R q c -> q_held q = None -> q_stopped q = false -> q_buf q <> [] ->
  exists c', astep c c' /\ R (worker_receive q) c'.
Proof.
  intros [Hcap [Hpol [Hbuf [Hheld [Hdel [Hdis [Hst [Hno [Hq [Hbl [Hnm Hle]]]]]]]]]]] Hh Hs Hne.
  destruct (q_buf q) as [|e rest] eqn:Eb; [contradiction|]. symmetry in Hbuf.
  destruct e as [y|]; [|exfalso; apply Hnm; rewrite Hbuf; now left].
  assert (Hch : c_held c = None) by congruence. assert (Hce : c_exited c = false) by congruence.
  eexists. split; [apply (a_w_recv c y rest Hch Hce Hbuf)|].
  unfold worker_receive. rewrite Hh, Eb, Hbl.
  unfold R; cbn [q_cap q_pol q_buf q_held q_delivered q_discard q_stopped q_blocked c_cap c_pol c_buf c_held c_delivered c_dropped c_exited c_stop c_pcs mk].
  repeat split; try assumption; try congruence.
  - intro Hin. apply Hnm. rewrite Hbuf. now right.
  - rewrite Hbuf in Hle. simpl in Hle. lia.
Qed.

Theorem deliver_refines q c y : R q c -> q_held q = Some y -> exists c', astep c c' /\ R (worker_deliver q) c'.
Proof.
  intros [Hcap [Hpol [Hbuf [Hheld [Hdel [Hdis [Hst [Hno [Hq [Hbl [Hnm Hle]]]]]]]]]]] Hh.
  assert (Hch : c_held c = Some y) by congruence.
  eexists. split; [apply (a_w_deliver c y Hch)|].
  unfold worker_deliver. rewrite Hh.
  unfold R; cbn [q_cap q_pol q_buf q_held q_delivered q_discard q_stopped q_blocked c_cap c_pol c_buf c_held c_delivered c_dropped c_exited c_stop c_pcs mk].
  repeat split; try assumption; try congruence.
Qed.

Lemma R_init cap pol : R (q_init cap pol) (c_init cap pol).
Proof. unfold R, q_init, c_init, quiet; cbn. repeat split; try reflexivity; try tauto; try lia. Qed.

(* the three overflow rules of the sequential machine, stated directly *)
Theorem submit_policy q x : q_cap q <= length (q_buf q) -> 0 < length (q_buf q) ->
  match q_pol q with
  | PDiscard => q_buf (fst (submit q x)) = q_buf q /\ q_discard (fst (submit q x)) = S (q_discard q) /\ snd (submit q x) = Dropped
  | PDiscardOldest => q_buf (fst (submit q x)) = tl (q_buf q) ++ [Data x] /\ q_discard (fst (submit q x)) = S (q_discard q)
  | PBlock => q_buf (fst (submit q x)) = q_buf q /\ q_discard (fst (submit q x)) = q_discard q /\ snd (submit q x) = Blocks /\
              q_blocked (fst (submit q x)) = q_blocked q ++ [x]
  end.
Proof.
  intros Hfull Hne. unfold submit. replace (length (q_buf q) <? q_cap q) with false by (symmetry; apply Nat.ltb_ge; lia).
  destruct (q_pol q); cbn; auto. destruct (q_buf q); [simpl in Hne; lia|]. cbn. auto.
Qed.

Theorem submit_room q x : length (q_buf q) < q_cap q ->
  q_buf (fst (submit q x)) = q_buf q ++ [Data x] /\ q_discard (fst (submit q x)) = q_discard q /\ snd (submit q x) = Enqueued.
Proof. intro H. unfold submit. replace (length (q_buf q) <? q_cap q) with true by (symmetry; apply Nat.ltb_lt; lia). cbn. auto. Qed.

(* under the two discard policies a producer inside a call can always take its next step, whatever the
   worker is doing (it never waits for the appender) *)
Theorem producer_never_waits s p pc : stage_inv s -> c_pol s <> PBlock -> c_pcs s p = Some pc ->
  exists s', astep s s' /\ c_pcs s' p <> Some pc /\ c_held s' = c_held s /\ c_delivered s' = c_delivered s.
Proof.
  intros [Hpp [Hq [Hm _]]] Hpol Hp.
  pose proof (producer_needs_SNo s p pc Hq Hp) as Hno. destruct (Hm (or_introl Hno)) as [Hnm _].
  pose proof (Hpp p pc Hp) as Hok.
  destruct pc as [x|x|x|x|x]; cbn in Hok.
  - destruct (Nat.lt_ge_cases (length (c_buf s)) (c_cap s)) as [Hl|Hl].
    + eexists. split; [apply (a_try_ok s p x Hp Hl)|]. cbn [c_pcs c_held c_delivered mk]. rewrite upd_same. repeat split; congruence.
    + eexists. split; [apply (a_try_full s p x Hp Hl)|]. cbn [c_pcs c_held c_delivered mk]. rewrite upd_same.
      repeat split; try reflexivity. destruct (c_pol s); congruence.
  - eexists. split; [apply (a_discard s p x Hp)|]. cbn [c_pcs c_held c_delivered mk]. rewrite upd_same. repeat split; congruence.
  - destruct (Nat.lt_ge_cases (length (c_buf s)) (c_cap s)) as [Hl|Hl].
    + eexists. split; [apply (a_hs_ok s p x Hp Hl)|]. cbn [c_pcs c_held c_delivered mk]. rewrite upd_same. repeat split; congruence.
    + eexists. split; [apply (a_hs_full s p x Hp Hl)|]. cbn [c_pcs c_held c_delivered mk]. rewrite upd_same. repeat split; congruence.
  - destruct (c_buf s) as [|e rest] eqn:Eb.
    + eexists. split; [apply (a_hr_empty s p x Hp Eb)|]. cbn [c_pcs c_held c_delivered mk]. rewrite upd_same. repeat split; congruence.
    + destruct e as [y|]; [|exfalso; apply Hnm; now left].
      eexists. split; [apply (a_hr_take s p x y rest Hp Eb)|]. cbn [c_pcs c_held c_delivered mk]. rewrite upd_same. repeat split; congruence.
  - congruence.
Qed.
