(* C15 - facts about the registry regenerated from the running code (Gen/Schema.v): finite, by vm_compute. *)
From Coq Require Import Permutation.
From LogV Require Import Base.Bytes Base.Schema Model.Config Model.ConfigEnv Gen.Params Gen.Schema Proofs.ConfigProofs.

Lemma gen_env_safe : env_safe gen_env = true.
Proof. vm_compute. reflexivity. Qed.

Theorem gen_refresh_never_panics hs m : refresh gen_env hs m <> CPanic.
Proof. apply refresh_never_panics. exact gen_env_safe. Qed.

Theorem gen_new_plugin_never_panics pt n pre m : new_plugin_from_map gen_env pt n pre m <> CPanic.
Proof. apply new_plugin_from_map_never_panics. exact gen_env_safe. Qed.

Theorem gen_all_types_instantiable p : In p top_level_plugins -> exists o, refresh gen_env [] (minimal_cfg p) = COk o.
Proof.
  assert (H : all_instantiable = true) by (vm_compute; reflexivity).
  unfold all_instantiable in H. rewrite forallb_forall in H. intro Hp. specialize (H p Hp).
  destruct (refresh gen_env [] (minimal_cfg p)) as [o| | |]; try discriminate. exists o. reflexivity.
Qed.

Theorem storage_is_a_set s1 s2 k : Permutation s1 s2 -> NoDup (map e_key s1) ->
  st_raw s1 k = st_raw s2 k /\ st_has s1 k = st_has s2 k.
Proof. intros Hp Hnd. split; [apply st_raw_perm; assumption|apply st_has_perm; assumption]. Qed.

Lemma gen_properties_modelled : properties = modelled_properties.
Proof. reflexivity. Qed.
