From LogV Require Import Base.Bytes Model.Sink.
Open Scope nat_scope.

Definition sinv (s : sink) : Prop := user_space s = [] /\ forall l, In l (acked s) -> In l (os_file s).

Lemma sstep_inv s o : sinv s -> sinv (sstep s o).
Proof.
  intros [Hu Ha]. destruct o as [l|l]; cbn [sstep].
  - split; [assumption|]. cbn [acked os_file]. intros x Hx. apply in_or_app. left. now apply Ha.
  - destruct (existsb (N.eqb l) (os_file s ++ user_space s)) eqn:E; [|split; assumption].
    split; [assumption|]. cbn [acked os_file]. intros x Hx. apply in_app_or in Hx as [Hx|[<-|[]]]; [now apply Ha|].
    apply existsb_exists in E as [y [Hy Ey]]. apply N.eqb_eq in Ey. subst y. rewrite Hu, app_nil_r in Hy. exact Hy.
Qed.

Theorem write_through ops : sinv (fold_left sstep ops sink_init).
Proof.
  assert (H : forall s, sinv s -> sinv (fold_left sstep ops s)).
  { induction ops as [|o r IH]; intros s Hs; [assumption|]. cbn [fold_left]. apply IH. now apply sstep_inv. }
  apply H. split; [reflexivity|intros l []].
Qed.

(* for every history and every crash point: every acknowledged line is in the file after the crash *)
Theorem acked_survive_crash ops l : In l (acked (fold_left sstep ops sink_init)) -> In l (crash (fold_left sstep ops sink_init)).
Proof. intro H. destruct (write_through ops) as [_ Ha]. now apply Ha. Qed.
