From LogV Require Import Base.Bytes Base.Dec Base.Utf8 Base.JsonStr Base.Json Model.Escape Model.Field Model.Encoder Model.Layout
  Proofs.BytesLemmas Proofs.EscapeProofs Proofs.DecProofs Proofs.JsonProofs Proofs.EncoderProofs.
Open Scope N_scope.

(* ---------------- number tokens printed by the model are valid JSON numbers ---------------- *)
Lemma digit_numchar d : 48 <= d <= 57 -> is_numchar d = true /\ is_digit d = true.
Proof.
  intro H. unfold is_numchar, is_digit.
  replace (48 <=? d) with true by (symmetry; apply N.leb_le; lia).
  replace (d <=? 57) with true by (symmetry; apply N.leb_le; lia). split; reflexivity.
Qed.

Lemma span_digits_all s : all_digits s -> span is_digit s = (s, []).
Proof.
  induction 1 as [|d s Hd Hs IH]; [reflexivity|]. cbn [span]. destruct (digit_numchar d Hd) as [_ ->]. now rewrite IH.
Qed.

Lemma digits_num_tok d ds : all_digits (d :: ds) -> (ds = [] \/ d <> 48) -> num_tok_b (d :: ds) = true.
Proof.
  intros Hall Hz. unfold num_tok_b. cbn [is_nil negb andb].
  assert (Hnc : forallb is_numchar (d :: ds) = true).
  { apply forallb_forall. intros x Hx. unfold all_digits in Hall. rewrite Forall_forall in Hall. now apply digit_numchar, Hall. }
  rewrite Hnc. cbn [andb]. unfold valid_number.
  inversion Hall as [|? ? Hd Hds]; subst.
  replace (d =? 45) with false by (symmetry; apply N.eqb_neq; lia).
  rewrite (span_digits_all _ Hall). cbn [frac_exp_ok andb].
  destruct Hz as [->|Hz]; [reflexivity|]. replace (d =? 48) with false by (symmetry; now apply N.eqb_neq).
  cbn. now rewrite orb_true_r.
Qed.

Lemma fmt_uint_num n : num_tok_b (fmt_uint n) = true.
Proof.
  destruct (fmt_uint_spec n) as [d [ds [E [Hall [Hpos [Hz _]]]]]]. rewrite E. apply digits_num_tok; [assumption|].
  destruct (N.eq_dec n 0) as [->|Hn]; [left; now destruct (Hz eq_refl)|right; apply Hpos; lia].
Qed.

Lemma fmt_int_num z : num_tok_b (fmt_int z) = true.
Proof.
  destruct z as [|p|p]; cbn [fmt_int]; [reflexivity|apply fmt_uint_num|].
  pose proof (fmt_uint_num (N.pos p)) as H. unfold num_tok_b in *. cbn [is_nil negb andb forallb].
  apply andb_true_iff in H as [H1 H3]. apply andb_true_iff in H1 as [_ H2]. rewrite H2. cbn [andb].
  change (is_numchar 45) with true. cbn [andb]. unfold valid_number in *. change (45 =? 45) with true. cbn iota.
  destruct (fmt_uint_spec (N.pos p)) as [d [ds [E [Hall _]]]]. rewrite E in *. inversion Hall; subst.
  replace (d =? 45) with false in H3 by (symmetry; apply N.eqb_neq; lia). exact H3.
Qed.

(* ---------------- well-formed values denote well-formed JSON ---------------- *)
Lemma num_tok_wf t : num_tok_b t = true -> wf_json (JNum t).
Proof.
  unfold num_tok_b. intro H. apply andb_true_iff in H as [H H3]. apply andb_true_iff in H as [H1 H2].
  constructor; [destruct t; [discriminate|discriminate]|assumption|assumption].
Qed.

Lemma scalar_json_wf v : scalar_b v = true -> wf_json (scalar_json v).
Proof.
  destruct v as [b|n|n|f|s|r|l|l|m]; cbn [scalar_b scalar_json]; intro H; try discriminate.
  - constructor.
  - apply num_tok_wf, fmt_int_num.
  - apply num_tok_wf, fmt_uint_num.
  - destruct f as [t|t]; [now apply num_tok_wf|constructor].
  - constructor.
  - destruct r as [t|m]; [|constructor]. cbn [rtok_b] in H. unfold raw_json.
    destruct (check_raw t) as [j|] eqn:E; [|discriminate]. constructor. now apply check_raw_tok_ok.
Qed.

Lemma flat_json_wf v : flat_b v = true -> wf_json (to_json_flat v).
Proof.
  destruct v as [b|n|n|f|s|r|l|l|m]; cbn [flat_b to_json_flat]; intro H; try (now apply scalar_json_wf); try discriminate.
  constructor. apply Forall_forall. intros j Hj. apply in_map_iff in Hj as [x [<- Hx]]. apply scalar_json_wf.
  rewrite forallb_forall in H. now apply H.
Qed.

Lemma in_sort_entries e m : In e (sort_entries m) -> In e m.
Proof.
  unfold sort_entries. induction m as [|a m IH]; [intros []|]. cbn [fold_right].
  assert (Hi : forall x l, In e (insert_entry x l) -> e = x \/ In e l).
  { clear. intros x l. induction l as [|y l IH]; cbn [insert_entry]; [intros [<-|[]]; now left|].
    destruct (bytes_ltb (fst x) (fst y)); [intros [<-|H]; [now left|now right]|].
    intros [<-|H]; [right; now left|]. destruct (IH H) as [->|H']; [now left|right; now right]. }
  intro H. apply Hi in H as [->|H]; [now left|right; now apply IH].
Qed.

Lemma splice_members_wf m : forallb (fun e => gval_b (snd e)) m = true ->
  Forall (fun kv : bytes * json => wf_json (snd kv)) (map entry_member (sort_entries m)).
Proof.
  intro H. apply Forall_forall. intros kv Hkv. apply in_map_iff in Hkv as [e [<- He]]. cbn [entry_member snd].
  apply flat_json_wf, any_value_flat. rewrite forallb_forall in H. apply H. now apply in_sort_entries.
Qed.

Theorem to_json_wf v : wf_value v = true -> wf_json (to_json v).
Proof.
  remember (vsize v) as n eqn:En. revert v En.
  induction n as [n IH] using lt_wf_ind. intros v En Hwf. subst n.
  destruct v as [b|num|num|f|s|r|l|l|m]; try (now apply scalar_json_wf).
  - cbn [wf_value to_json] in *. constructor. apply Forall_forall. intros j Hj. apply in_map_iff in Hj as [x [<- Hx]].
    rewrite forallb_forall in Hwf. apply (IH (vsize x)); [now apply vsize_in_arr|reflexivity|now apply Hwf].
  - cbn [wf_value to_json] in *. constructor. apply Forall_forall. intros kv Hkv.
    apply in_flat_map in Hkv as [kx [Hx Hkv]]. rewrite forallb_forall in Hwf. specialize (Hwf kx Hx).
    destruct (snd kx) as [b|num|num|f|s|r|l'|l'|m] eqn:Ev;
      try (destruct Hkv as [<-|[]]; cbn [snd]; rewrite <- Ev; apply (IH (vsize (snd kx))); [now apply vsize_in_obj|reflexivity|now rewrite Ev]).
    pose proof (splice_members_wf m Hwf) as Hf. rewrite Forall_forall in Hf. now apply Hf.
  - discriminate.
Qed.

Lemma members_wf fs : forallb wf_field fs = true -> Forall (fun kv : bytes * json => wf_json (snd kv)) (members fs).
Proof.
  intro H. apply Forall_forall. intros kv Hkv. unfold members in Hkv. apply in_flat_map in Hkv as [kx [Hx Hkv]].
  rewrite forallb_forall in H. specialize (H kx Hx). unfold wf_field, field_members in *.
  destruct (snd kx) as [b|num|num|f|s|r|l'|l'|m] eqn:Ev;
    try (destruct Hkv as [<-|[]]; cbn [snd]; rewrite <- Ev; apply to_json_wf; now rewrite Ev).
  pose proof (splice_members_wf m H) as Hf. rewrite Forall_forall in Hf. now apply Hf.
Qed.

(* ---------------- JSON layout ---------------- *)
Definition wf_event (e : event) : bool := forallb wf_field (ev_ctx_fields e) && forallb wf_field (ev_fields e).

Definition event_members (w : Z) (e : event) : list (bytes * json) :=
  members (json_headers w e ++ ev_ctx_fields e ++ ev_fields e).

Lemma headers_wf w e : forallb wf_field (json_headers w e) = true.
Proof. unfold json_headers. destruct (is_nil (ev_ctx_string e)); reflexivity. Qed.

Lemma headers_members_nonempty w e rest : is_nil (members (json_headers w e ++ rest)) = false.
Proof. reflexivity. Qed.

Theorem json_layout_is_printer w e : wf_event e = true ->
  json_layout w e = print_json (JObj (event_members w e)) ++ [10].
Proof.
  unfold wf_event. intro H. apply andb_true_iff in H as [Hc Hf].
  assert (Hall : forallb wf_field (json_headers w e ++ ev_ctx_fields e ++ ev_fields e) = true).
  { rewrite !forallb_app, headers_wf, Hc, Hf. reflexivity. }
  destruct (jfields_spec _ Hall TObjBegin) as [st [_ E]].
  unfold jfields in *. rewrite thread_app in E. unfold json_layout, jfields.
  destruct (thread jfield TObjBegin (json_headers w e)) as [o1 l1].
  rewrite thread_app in E.
  destruct (thread jfield l1 (ev_ctx_fields e)) as [o2 l2].
  destruct (thread jfield l2 (ev_fields e)) as [o3 l3].
  apply (f_equal fst) in E. cbn [fst] in E. rewrite headers_members_nonempty in E.
  change (o1 ++ o2 ++ o3 = join 44 (map print_member (members (json_headers w e ++ ev_ctx_fields e ++ ev_fields e)))) in E.
  rename E into Eo.
  unfold event_members. cbn [print_json].
  change (map (fun kv => quote (fst kv) ++ 58 :: print_json (snd kv))) with (map print_member).
  rewrite <- Eo. cbn [app]. rewrite <- !app_assoc. reflexivity.
Qed.

Theorem json_layout_decodes w e : wf_event e = true ->
  parse_json (json_layout w e) = Some (decode_json (JObj (event_members w e))).
Proof.
  intro H. rewrite json_layout_is_printer by assumption.
  assert (Hwf : wf_json (JObj (event_members w e))).
  { constructor. apply members_wf. unfold wf_event in H. apply andb_true_iff in H as [Hc Hf].
    rewrite !forallb_app, headers_wf, Hc, Hf. reflexivity. }
  destruct (print_parse _ Hwf) as [_ Hp]. unfold parse_json.
  rewrite Hp; [reflexivity| rewrite app_length; simpl; lia | cbn; auto].
Qed.

(* ---------------- FieldsFromMap entries are emitted in ascending key order ---------------- *)
From Coq Require Import Sorting.Sorted Permutation.
From LogV Require Import Proofs.TagProofs.

Definition key_le (a b : bytes * gval) : Prop := bytes_ltb (fst b) (fst a) = false.

Lemma key_le_trans a b c : key_le a b -> key_le b c -> key_le a c.
Proof.
  unfold key_le. intros Hab Hbc. destruct (bytes_ltb (fst c) (fst a)) eqn:E; [|reflexivity]. exfalso.
  destruct (bytes_eqb (fst b) (fst a)) eqn:Eq.
  - apply bytes_eqb_eq in Eq. rewrite Eq in Hbc. congruence.
  - pose proof (bytes_ltb_total _ _ Hab Eq) as Hlt. pose proof (bytes_ltb_trans _ _ _ E Hlt). congruence.
Qed.

Lemma insert_entry_perm e l : Permutation (e :: l) (insert_entry e l).
Proof.
  induction l as [|x t IH]; cbn [insert_entry]; [apply Permutation_refl|].
  destruct (bytes_ltb (fst e) (fst x)); [apply Permutation_refl|].
  eapply perm_trans; [apply perm_swap|]. now apply perm_skip.
Qed.

Lemma sort_entries_perm m : Permutation m (sort_entries m).
Proof.
  unfold sort_entries. induction m as [|a m IH]; cbn [fold_right]; [constructor|].
  eapply perm_trans; [apply perm_skip; exact IH|]. apply insert_entry_perm.
Qed.

Lemma insert_entry_sorted e l : StronglySorted key_le l -> StronglySorted key_le (insert_entry e l).
Proof.
  induction 1 as [|x t Hs IH Hx]; cbn [insert_entry]; [repeat constructor|].
  destruct (bytes_ltb (fst e) (fst x)) eqn:E.
  - constructor; [constructor; assumption|].
    assert (Hex : key_le e x).
    { unfold key_le. destruct (bytes_ltb (fst x) (fst e)) eqn:E2; [|reflexivity].
      pose proof (bytes_ltb_trans _ _ _ E E2) as Hc. now rewrite bytes_ltb_irrefl in Hc. }
    constructor; [assumption|]. rewrite Forall_forall in *. intros y Hy. eapply key_le_trans; [exact Hex|now apply Hx].
  - constructor; [assumption|]. rewrite Forall_forall in *. intros y Hy.
    eapply Permutation_in in Hy; [|apply Permutation_sym, insert_entry_perm].
    destruct Hy as [<-|Hy]; [exact E|now apply Hx].
Qed.

Theorem sort_entries_sorted m : StronglySorted key_le (sort_entries m).
Proof. unfold sort_entries. induction m; cbn [fold_right]; [constructor|now apply insert_entry_sorted]. Qed.

