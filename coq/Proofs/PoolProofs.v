From LogV Require Import Base.Bytes Model.Pool.
Open Scope nat_scope.

Section Own.
  Variable line : nat -> bytes.
  Variable cap_ok : nat -> bool.

  Definition holds (pc : tpc) (b : nat) : Prop := match pc with TFill _ x | THave _ x => x = b | _ => False end.

  (* ownership: a buffer being formatted belongs to exactly one goroutine and is not in the pool *)
  Definition pinv (s : pstate) : Prop :=
    NoDup (p_pool s) /\
    (forall b, In b (p_pool s) -> b < p_next s) /\
    (forall t b, holds (p_thr s t) b -> b < p_next s /\ ~ In b (p_pool s)) /\
    (forall t1 t2 b, t1 <> t2 -> holds (p_thr s t1) b -> ~ holds (p_thr s t2) b) /\
    (forall t e b, p_thr s t = THave e b -> p_heap s b = line e) /\
    (forall t e x, p_thr s t = TOut e (Private x) -> x = line e) /\
    (forall e x, In (e, x) (p_sink s) -> x = line e) /\
    (forall t e bf, p_thr s t <> TOut e (Alias bf)).

  Lemma updf_same {A} (f : nat -> A) k v : updf f k v k = v.
  Proof. unfold updf. now rewrite Nat.eqb_refl. Qed.
  Lemma updf_other {A} (f : nat -> A) k q v : q <> k -> updf f k v q = f q.
  Proof. intro H. unfold updf. destruct (Nat.eqb_spec q k); [contradiction|reflexivity]. Qed.

  Lemma nodup_remove {A} (l1 l2 : list A) b : NoDup (l1 ++ b :: l2) -> NoDup (l1 ++ l2) /\ ~ In b (l1 ++ l2).
  Proof. intro H. split; [now apply NoDup_remove_1 in H|now apply NoDup_remove_2 in H]. Qed.

  Lemma step_pinv s s' : pstep line RetCopy cap_ok s s' -> pinv s -> pinv s'.
  Proof.
    intros H [Hnd [Hlt [Hh [Hex [Hhv [Hout [Hsk Hna]]]]]]].
    inversion H as [s0 t e b l1 l2 Ht Hp | s0 t e Ht | s0 t e b Ht | s0 t e b Ht | s0 t e o Ht]; subst; unfold pinv; cbn [p_heap p_pool p_next p_thr p_sink].
    - (* Get returns a pooled buffer *)
      rewrite Hp in Hnd. destruct (nodup_remove _ _ _ Hnd) as [Hnd' Hnb].
      assert (Hblt : b < p_next s) by (apply Hlt; rewrite Hp; apply in_or_app; right; now left).
      assert (Hsub : forall x, In x (l1 ++ l2) -> In x (p_pool s)) by (intros x Hx; rewrite Hp; apply in_app_or in Hx as [Hx|Hx]; apply in_or_app; [now left|right; now right]).
      split; [assumption|]. split; [intros x Hx; apply Hlt; now apply Hsub|]. split; [|split; [|split; [|split; [|split]]]].
      + intros q x Hq. destruct (Nat.eq_dec q t) as [->|Hne]; [rewrite updf_same in Hq; cbn in Hq; subst x; auto|].
        rewrite updf_other in Hq by assumption. destruct (Hh q x Hq) as [H1 H2]. split; [assumption|]. intro Hx; apply H2; now apply Hsub.
      + intros t1 t2 x Hne H1 H2.
        assert (Hpool : forall q, q <> t -> holds (p_thr s q) x -> x <> b).
        { intros q _ Hq E. subst x. destruct (Hh q b Hq) as [_ Hn]. apply Hn. rewrite Hp. apply in_or_app. right. now left. }
        destruct (Nat.eq_dec t1 t) as [->|N1]; destruct (Nat.eq_dec t2 t) as [->|N2]; try congruence.
        * rewrite updf_same in H1. rewrite updf_other in H2 by assumption. cbn in H1. subst x. now apply (Hpool t2 N2 H2).
        * rewrite updf_same in H2. rewrite updf_other in H1 by assumption. cbn in H2. subst x. now apply (Hpool t1 N1 H1).
        * rewrite updf_other in H1, H2 by assumption. now apply (Hex t1 t2 x).
      + intros q e' x Hq. destruct (Nat.eq_dec q t) as [->|Hne]; [rewrite updf_same in Hq; discriminate|]. rewrite updf_other in Hq by assumption.
        assert (x <> b). { intro E; subst x. assert (Hq' : holds (p_thr s q) b) by (rewrite Hq; reflexivity). destruct (Hh q b Hq') as [_ Hn]. apply Hn. rewrite Hp. apply in_or_app. right. now left. }
        rewrite updf_other by assumption. now apply (Hhv q).
      + intros q e' x Hq. destruct (Nat.eq_dec q t) as [->|Hne]; [rewrite updf_same in Hq; discriminate|]. rewrite updf_other in Hq by assumption. now apply (Hout q).
      + assumption.
      + intros q e' bf Hq. destruct (Nat.eq_dec q t) as [->|Hne]; [rewrite updf_same in Hq; discriminate|]. rewrite updf_other in Hq by assumption. now apply (Hna q e' bf).
    - (* Get returns a fresh buffer *)
      split; [assumption|]. split; [intros x Hx; specialize (Hlt x Hx); lia|]. split; [|split; [|split; [|split; [|split]]]].
      + intros q x Hq. destruct (Nat.eq_dec q t) as [->|Hne].
        * rewrite updf_same in Hq. cbn in Hq. subst x. split; [lia|]. intro Hx. specialize (Hlt _ Hx). lia.
        * rewrite updf_other in Hq by assumption. destruct (Hh q x Hq). split; [lia|assumption].
      + intros t1 t2 x Hne H1 H2.
        destruct (Nat.eq_dec t1 t) as [->|N1]; destruct (Nat.eq_dec t2 t) as [->|N2]; try congruence.
        * rewrite updf_same in H1. rewrite updf_other in H2 by assumption. cbn in H1. subst x. destruct (Hh t2 _ H2). lia.
        * rewrite updf_same in H2. rewrite updf_other in H1 by assumption. cbn in H2. subst x. destruct (Hh t1 _ H1). lia.
        * rewrite updf_other in H1, H2 by assumption. now apply (Hex t1 t2 x).
      + intros q e' x Hq. destruct (Nat.eq_dec q t) as [->|Hne]; [rewrite updf_same in Hq; discriminate|]. rewrite updf_other in Hq by assumption.
        assert (x <> p_next s). { intro E; subst x. assert (Hq' : holds (p_thr s q) (p_next s)) by (rewrite Hq; reflexivity). destruct (Hh q _ Hq'). lia. }
        rewrite updf_other by assumption. now apply (Hhv q).
      + intros q e' x Hq. destruct (Nat.eq_dec q t) as [->|Hne]; [rewrite updf_same in Hq; discriminate|]. rewrite updf_other in Hq by assumption. now apply (Hout q).
      + assumption.
      + intros q e' bf Hq. destruct (Nat.eq_dec q t) as [->|Hne]; [rewrite updf_same in Hq; discriminate|]. rewrite updf_other in Hq by assumption. now apply (Hna q e' bf).
    - (* format into the owned buffer: nobody else's buffer changes *)
      assert (Hb : holds (p_thr s t) b) by (rewrite Ht; reflexivity).
      split; [assumption|]. split; [assumption|]. split; [|split; [|split; [|split; [|split]]]].
      + intros q x Hq. destruct (Nat.eq_dec q t) as [->|Hne]; [rewrite updf_same in Hq; cbn in Hq; subst x; now apply (Hh t)|].
        rewrite updf_other in Hq by assumption. now apply (Hh q).
      + intros t1 t2 x Hne H1 H2.
        destruct (Nat.eq_dec t1 t) as [->|N1]; destruct (Nat.eq_dec t2 t) as [->|N2]; try congruence.
        * rewrite updf_same in H1. rewrite updf_other in H2 by assumption. cbn in H1. subst x. now apply (Hex t t2 b).
        * rewrite updf_same in H2. rewrite updf_other in H1 by assumption. cbn in H2. subst x. now apply (Hex t1 t b).
        * rewrite updf_other in H1, H2 by assumption. now apply (Hex t1 t2 x).
      + intros q e' x Hq. destruct (Nat.eq_dec q t) as [->|Hne].
        * rewrite updf_same in Hq. inversion Hq; subst. now rewrite updf_same.
        * rewrite updf_other in Hq by assumption.
          assert (x <> b). { intro E; subst x. apply (Hex q t b Hne); [rewrite Hq; reflexivity|assumption]. }
          rewrite updf_other by assumption. now apply (Hhv q).
      + intros q e' x Hq. destruct (Nat.eq_dec q t) as [->|Hne]; [rewrite updf_same in Hq; discriminate|]. rewrite updf_other in Hq by assumption. now apply (Hout q).
      + assumption.
      + intros q e' bf Hq. destruct (Nat.eq_dec q t) as [->|Hne]; [rewrite updf_same in Hq; discriminate|]. rewrite updf_other in Hq by assumption. now apply (Hna q e' bf).
    - (* return: copy the bytes, then the deferred PutBuffer *)
      assert (Hb : holds (p_thr s t) b) by (rewrite Ht; reflexivity). destruct (Hh t b Hb) as [Hblt Hbn].
      split; [destruct (cap_ok b); [now constructor|assumption]|].
      split; [intros x Hx; destruct (cap_ok b); [destruct Hx as [<-|Hx]; [assumption|now apply Hlt]|now apply Hlt]|].
      split; [|split; [|split; [|split; [|split]]]].
      + intros q x Hq. destruct (Nat.eq_dec q t) as [->|Hne]; [rewrite updf_same in Hq; destruct Hq|].
        rewrite updf_other in Hq by assumption. destruct (Hh q x Hq) as [H1 H2]. split; [assumption|].
        destruct (cap_ok b); [|assumption]. intros [E|Hx]; [|contradiction]. subst x. now apply (Hex q t b Hne).
      + intros t1 t2 x Hne H1 H2.
        destruct (Nat.eq_dec t1 t) as [->|N1]; [rewrite updf_same in H1; destruct H1|].
        destruct (Nat.eq_dec t2 t) as [->|N2]; [rewrite updf_same in H2; destruct H2|].
        rewrite updf_other in H1, H2 by assumption. now apply (Hex t1 t2 x).
      + intros q e' x Hq. destruct (Nat.eq_dec q t) as [->|Hne]; [rewrite updf_same in Hq; discriminate|]. rewrite updf_other in Hq by assumption. now apply (Hhv q).
      + intros q e' x Hq. destruct (Nat.eq_dec q t) as [->|Hne].
        * rewrite updf_same in Hq. inversion Hq; subst. now apply (Hhv t).
        * rewrite updf_other in Hq by assumption. now apply (Hout q).
      + assumption.
      + intros q e' bf Hq. destruct (Nat.eq_dec q t) as [->|Hne]; [rewrite updf_same in Hq; discriminate|]. rewrite updf_other in Hq by assumption. now apply (Hna q e' bf).
    - (* the sink consumes the bytes *)
      split; [assumption|]. split; [assumption|]. split; [|split; [|split; [|split; [|split]]]].
      + intros q x Hq. destruct (Nat.eq_dec q t) as [->|Hne]; [rewrite updf_same in Hq; destruct Hq|]. rewrite updf_other in Hq by assumption. now apply (Hh q).
      + intros t1 t2 x Hne H1 H2.
        destruct (Nat.eq_dec t1 t) as [->|N1]; [rewrite updf_same in H1; destruct H1|].
        destruct (Nat.eq_dec t2 t) as [->|N2]; [rewrite updf_same in H2; destruct H2|].
        rewrite updf_other in H1, H2 by assumption. now apply (Hex t1 t2 x).
      + intros q e' x Hq. destruct (Nat.eq_dec q t) as [->|Hne]; [rewrite updf_same in Hq; discriminate|]. rewrite updf_other in Hq by assumption. now apply (Hhv q).
      + intros q e' x Hq. destruct (Nat.eq_dec q t) as [->|Hne]; [rewrite updf_same in Hq; discriminate|]. rewrite updf_other in Hq by assumption. now apply (Hout q).
      + intros e' x Hin. apply in_app_or in Hin as [Hin|[E|[]]]; [now apply Hsk|]. inversion E; subst.
        destruct o as [y|bf]; cbn [read]; [now apply (Hout t)|]. exfalso. now apply (Hna t e' bf).
      + intros q e' bf Hq. destruct (Nat.eq_dec q t) as [->|Hne]; [rewrite updf_same in Hq; discriminate|]. rewrite updf_other in Hq by assumption. now apply (Hna q e' bf).
  Qed.

  Lemma start_pinv events : pinv (p_start events).
  Proof.
    unfold pinv, p_start; cbn. split; [constructor|]. split; [intros b []|]. split; [intros t b H; destruct (events t); destruct H|].
    split; [intros t1 t2 b _ H; destruct (events t1); destruct H|]. split; [intros t e b H; destruct (events t); discriminate|].
    split; [intros t e x H; destruct (events t); discriminate|]. split; [intros e x []|]. intros t e bf H. destruct (events t); discriminate.
  Qed.

  (* every schedule of any number of goroutines, any choice of pooled/fresh buffers: each Write call hands the
     sink exactly the line of its own event *)
  Theorem sink_lines_whole events s : preach line RetCopy cap_ok (p_start events) s ->
    forall e x, In (e, x) (p_sink s) -> x = line e.
  Proof.
    intro Hr. assert (Hi : pinv s) by (induction Hr as [|s s' _ IH Hs]; [apply start_pinv|now apply (step_pinv s s')]).
    destruct Hi as [_ [_ [_ [_ [_ [_ [Hsk _]]]]]]]. exact Hsk.
  Qed.
End Own.

(* one sink entry per event whose goroutine has finished, none for the others: with sink_lines_whole, the
   multiset of lines in the sink equals the multiset of events logged *)
Section Count.
  Variable line : nat -> bytes.
  Variable mode : retmode.
  Variable cap_ok : nat -> bool.
  Variable events : nat -> option nat.
  Hypothesis events_inj : forall t1 t2 e, events t1 = Some e -> events t2 = Some e -> t1 = t2.

  Definition ev_of (pc : tpc) : option nat := match pc with TGet e | TFill e _ | THave e _ | TOut e _ => Some e | TDone => None end.
  Definition written (s : pstate) (e : nat) : nat := length (filter (fun ex => Nat.eqb (fst ex) e) (p_sink s)).

  Definition cinv (s : pstate) : Prop :=
    forall t, match events t with
              | Some e => (p_thr s t = TDone /\ written s e = 1) \/ (ev_of (p_thr s t) = Some e /\ written s e = 0)
              | None => p_thr s t = TDone
              end.

  Lemma written_snoc s e e' x : length (filter (fun ex => Nat.eqb (fst ex) e) (p_sink s ++ [(e', x)])) = written s e + (if Nat.eqb e' e then 1 else 0).
  Proof. unfold written. rewrite filter_app, app_length. cbn. destruct (Nat.eqb e' e); reflexivity. Qed.

  Lemma step_cinv s s' : pstep line mode cap_ok s s' -> cinv s -> cinv s'.
  Proof.
    intros H Hc q. specialize (Hc q) as Hq.
    inversion H as [s0 t e b l1 l2 Ht Hp | s0 t e Ht | s0 t e b Ht | s0 t e b Ht | s0 t e o Ht]; subst; cbn [p_thr p_sink];
      try (unfold written in *; cbn [p_sink] in *;
           destruct (Nat.eq_dec q t) as [->|Hne]; [rewrite updf_same; destruct (events t) as [e0|]; [|congruence];
             destruct Hq as [[Hd _]|[He Hw]]; [congruence|right; rewrite Ht in He; cbn in He; split; [exact He|exact Hw]]
           | rewrite updf_other by assumption; exact Hq]).
    (* the sink step *)
    destruct (Nat.eq_dec q t) as [->|Hne].
    - rewrite updf_same. destruct (events t) as [e0|] eqn:Et; [|reflexivity].
      destruct Hq as [[Hd _]|[He Hw]]; [congruence|]. rewrite Ht in He. cbn in He. inversion He; subst e0.
      left. split; [reflexivity|]. unfold written at 1. cbn [p_sink]. rewrite written_snoc, Hw, Nat.eqb_refl. reflexivity.
    - rewrite updf_other by assumption. destruct (events q) as [e0|] eqn:Eq; [|exact Hq].
      assert (Hne' : e <> e0).
      { intro E. subst e0. specialize (Hc t). destruct (events t) as [e1|] eqn:Et; [|congruence].
        destruct Hc as [[Hd _]|[He _]]; [congruence|]. rewrite Ht in He. cbn in He. inversion He; subst e1. apply Hne. now apply (events_inj q t e). }
      unfold written at 1 2. cbn [p_sink]. rewrite !written_snoc. replace (Nat.eqb e e0) with false by (symmetry; now apply Nat.eqb_neq).
      rewrite !Nat.add_0_r. exact Hq.
  Qed.

  Lemma start_cinv : cinv (p_start events).
  Proof. intro t. unfold p_start; cbn. destruct (events t); [right; split; reflexivity|reflexivity]. Qed.

  Theorem one_line_per_finished_event s : preach line mode cap_ok (p_start events) s -> cinv s.
  Proof. induction 1 as [|s s' _ IH Hs]; [apply start_cinv|now apply (step_cinv s s')]. Qed.
End Count.

(* the aliasing shape (before fix d59291c) is refuted: two goroutines, one pooled buffer *)
Definition two_events (t : nat) : option nat := match t with 0 => Some 0 | 1 => Some 1 | _ => None end.
Definition demo_line (e : nat) : bytes := [N.of_nat (65 + e)].

Theorem alias_refuted : exists s, preach demo_line RetAlias (fun _ => true) (p_start two_events) s /\ In (0, demo_line 1) (p_sink s).
Proof.
  eexists. split.
  - (* A: get fresh, fill, return (alias, buffer pooled); B: get the pooled buffer, fill; A: the sink reads B's bytes *)
    eapply pr_step; [eapply pr_step; [eapply pr_step; [eapply pr_step; [eapply pr_step; [eapply pr_step; [apply pr_refl|]|]|]|]|]|].
    + apply (ps_get_fresh _ _ _ _ 0 0). reflexivity.
    + apply (ps_fill _ _ _ _ 0 0 0). reflexivity.
    + apply (ps_return _ _ _ _ 0 0 0). reflexivity.
    + apply (ps_get_pooled _ _ _ _ 1 1 0 [] []); reflexivity.
    + apply (ps_fill _ _ _ _ 1 1 0). reflexivity.
    + apply (ps_sink _ _ _ _ 0 0 (Alias 0)). reflexivity.
  - cbn. left. reflexivity.
Qed.
