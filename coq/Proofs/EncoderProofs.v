From LogV Require Import Base.Bytes Base.Dec Base.Utf8 Base.JsonStr Base.Json Model.Escape Model.Field Model.Encoder
  Proofs.BytesLemmas Proofs.EscapeProofs Proofs.DecProofs Proofs.JsonProofs.
Open Scope N_scope.

(* ---------------- spec side: the JSON value a field value denotes ---------------- *)
Definition raw_json (t : bytes) : json := match check_raw t with Some j => j | None => JNull end.

Definition scalar_json (v : value) : json :=
  match v with
  | VBool b => JBool b
  | VInt num => JNum (fmt_int (int_of_num num))
  | VUint num => JNum (fmt_uint num)
  | VFloat (FFinite t) => JNum t
  | VFloat (FNonFinite t) => JStr t
  | VStr s => JStr s
  | VReflect (RJson t) => JRaw t (raw_json t)
  | VReflect (RErr m) => JStr m
  | _ => JNull
  end.

(* values built by Any: a scalar or an array of scalars *)
Definition to_json_flat (v : value) : json :=
  match v with VArr l => JArr (map scalar_json l) | _ => scalar_json v end.

Definition entry_member (e : bytes * gval) : bytes * json := (fst e, to_json_flat (any_value (snd e))).

Fixpoint to_json (v : value) : json :=
  match v with
  | VArr l => JArr (map to_json l)
  | VObj l => JObj (flat_map (fun kx =>
                 match snd kx with
                 | VSplice m => map entry_member (sort_entries m)
                 | _ => [(fst kx, to_json (snd kx))]
                 end) l)
  | VSplice _ => JNull
  | _ => scalar_json v
  end.

(* members of an object built from a field list (EncodeFields) *)
Definition field_members (kx : field) : list (bytes * json) :=
  match snd kx with
  | VSplice m => map entry_member (sort_entries m)
  | _ => [(fst kx, to_json (snd kx))]
  end.
Definition members (fs : list field) : list (bytes * json) := flat_map field_members fs.

(* ---------------- executable well-formedness (the theorems' hypotheses; checked at run time on every case) ---------------- *)
Definition num_tok_b (t : bytes) : bool := negb (is_nil t) && forallb is_numchar t && valid_number t.
Definition nonfinite_b (t : bytes) : bool :=
  bytes_eqb t [78; 97; 78] || bytes_eqb t [43; 73; 110; 102] || bytes_eqb t [45; 73; 110; 102].
Definition ftok_b (f : ftok) : bool := match f with FFinite t => num_tok_b t | FNonFinite t => nonfinite_b t end.
Definition rtok_b (r : rtok) : bool :=
  match r with RJson t => match check_raw t with Some _ => true | None => false end | RErr _ => true end.
Definition scalar_b (v : value) : bool :=
  match v with
  | VBool _ | VInt _ | VUint _ | VStr _ => true
  | VFloat f => ftok_b f
  | VReflect r => rtok_b r
  | _ => false
  end.
Definition gval_b (g : gval) : bool :=
  match g with
  | GFloat _ f => ftok_b f
  | GFloatPtr _ (Some f) => ftok_b f
  | GFloats _ l => forallb ftok_b l
  | GOther r => rtok_b r
  | _ => true
  end.
Fixpoint wf_value (v : value) : bool :=
  match v with
  | VArr l => forallb wf_value l
  | VObj l => forallb (fun kx => match snd kx with
                                 | VSplice m => forallb (fun e => gval_b (snd e)) m
                                 | _ => wf_value (snd kx)
                                 end) l
  | VSplice _ => false
  | _ => scalar_b v
  end.
Definition wf_field (kx : field) : bool :=
  match snd kx with VSplice m => forallb (fun e => gval_b (snd e)) m | _ => wf_value (snd kx) end.

Definition sepping (st : jtoken) : Prop := sep st = [44].

(* ---------------- list plumbing ---------------- *)
Lemma join_app (a b : list bytes) : a <> [] -> b <> [] -> join 44 (a ++ b) = join 44 a ++ 44 :: join 44 b.
Proof.
  induction a as [|x a IH]; intros Ha Hb; [contradiction|].
  destruct a as [|y a'].
  - cbn [app]. now rewrite join_cons by assumption.
  - cbn [app]. rewrite join_cons by discriminate. rewrite (join_cons 44 x (y :: a')) by discriminate.
    change (y :: a' ++ b) with ((y :: a') ++ b). rewrite IH by (try discriminate; assumption).
    rewrite <- app_assoc. reflexivity.
Qed.

Lemma thread_app {A} (f : jtoken -> A -> bytes * jtoken) a : forall s b,
  thread f s (a ++ b) = let '(o1, s1) := thread f s a in let '(o2, s2) := thread f s1 b in (o1 ++ o2, s2).
Proof.
  induction a as [|x a IH]; intros s b; cbn [app thread].
  - destruct (thread f s b); reflexivity.
  - destruct (f s x) as [o1 l1]. rewrite IH. destruct (thread f l1 a) as [o2 l2]. destruct (thread f l2 b) as [o3 l3].
    now rewrite app_assoc.
Qed.

(* every action either emits nothing and keeps the state, or emits its chunks joined by commas,
   preceded by a comma exactly when something precedes it *)
Definition chunky {A} (f : jtoken -> A -> bytes * jtoken) (ps : A -> list bytes) (x : A) : Prop :=
  forall last, exists st, sepping st /\
    f last x = (if is_nil (ps x) then [] else sep last ++ join 44 (ps x), if is_nil (ps x) then last else st).

Lemma thread_chunks {A} (f : jtoken -> A -> bytes * jtoken) (ps : A -> list bytes) l :
  (forall x, In x l -> chunky f ps x) ->
  forall s0, exists st, sepping st /\
    thread f s0 l = (if is_nil (flat_map ps l) then [] else sep s0 ++ join 44 (flat_map ps l),
                     if is_nil (flat_map ps l) then s0 else st).
Proof.
  induction l as [|x l IH]; intros H s0.
  - exists TValue. split; reflexivity.
  - cbn [thread flat_map]. destruct (H x (or_introl eq_refl) s0) as [st1 [Hs1 E1]]. rewrite E1.
    assert (Hl : forall y, In y l -> chunky f ps y) by (intros y Hy; apply H; now right).
    destruct (ps x) as [|p px] eqn:Ep; cbn [is_nil app].
    + destruct (IH Hl s0) as [st2 [Hs2 E2]]. rewrite E2. exists st2. split; [assumption|]. reflexivity.
    + destruct (IH Hl st1) as [st2 [Hs2 E2]]. rewrite E2.
      destruct (flat_map ps l) as [|q qs] eqn:Eq; cbn [is_nil].
      * exists st1. split; [assumption|]. now rewrite !app_nil_r.
      * exists st2. split; [assumption|]. rewrite Hs1.
        change (p :: px ++ q :: qs) with ((p :: px) ++ q :: qs). rewrite join_app by discriminate.
        rewrite <- !app_assoc. reflexivity.
Qed.

(* ---------------- scalars ---------------- *)
Lemma nonfinite_plain t : nonfinite_b t = true -> escape t = t.
Proof.
  unfold nonfinite_b. intro H. repeat (apply orb_true_iff in H as [H|H]); apply bytes_eqb_eq in H; subst; reflexivity.
Qed.

Lemma scalar_tok_spec v : scalar_b v = true -> scalar_tok v = Some (print_json (scalar_json v)).
Proof.
  destruct v as [b|n|n|f|s|r|l|l|m]; cbn [scalar_b scalar_tok scalar_json print_json]; intro H; try discriminate; try reflexivity.
  - destruct f as [t|t]; cbn [float_json print_json]; [reflexivity|]. cbn [ftok_b] in H. unfold quote. now rewrite nonfinite_plain.
  - destruct r as [t|m]; reflexivity.
Qed.

Lemma jflat_scalar_spec last v : scalar_b v = true ->
  jflat_scalar last v = (sep last ++ print_json (scalar_json v), TValue).
Proof. intro H. unfold jflat_scalar. now rewrite scalar_tok_spec. Qed.

Lemma scalar_chunky : forall x, scalar_b x = true -> chunky jflat_scalar (fun v => [print_json (scalar_json v)]) x.
Proof. intros x Hx last. exists TValue. split; [reflexivity|]. cbn [is_nil join]. now apply jflat_scalar_spec. Qed.

Lemma flat_map_single {A B} (g : A -> B) (l : list A) : flat_map (fun x => [g x]) l = map g l.
Proof. induction l; cbn; [reflexivity|now f_equal]. Qed.

Lemma jflat_arr last l : forallb scalar_b l = true ->
  jflat last (VArr l) = (sep last ++ print_json (JArr (map scalar_json l)), TArrEnd).
Proof.
  intro H. cbn [jflat].
  destruct (thread_chunks jflat_scalar (fun v => [print_json (scalar_json v)]) l) with (s0 := TArrBegin) as [st [_ E]].
  { intros x Hx. apply scalar_chunky. rewrite forallb_forall in H. now apply H. }
  rewrite E. rewrite flat_map_single. cbn [print_json sep app]. rewrite map_map.
  destruct (map (fun x => print_json (scalar_json x)) l) as [|c cs] eqn:Em; cbn [is_nil join app]; reflexivity.
Qed.

Definition flat_b (v : value) : bool := match v with VArr l => forallb scalar_b l | _ => scalar_b v end.

Lemma jflat_spec last v : flat_b v = true ->
  exists st, sepping st /\ jflat last v = (sep last ++ print_json (to_json_flat v), st).
Proof.
  intro H. destruct v as [b|n|n|f|s|r|l|l|m]; cbn [flat_b] in H;
    try (exists TValue; split; [reflexivity|]; cbn [jflat to_json_flat]; now apply jflat_scalar_spec); try discriminate.
  exists TArrEnd. split; [reflexivity|]. cbn [to_json_flat]. now apply jflat_arr.
Qed.

Lemma forallb_map {A B} (p : B -> bool) (g : A -> B) l : forallb p (map g l) = forallb (fun x => p (g x)) l.
Proof. induction l; cbn; [reflexivity|now rewrite IHl]. Qed.

Lemma any_value_flat g : gval_b g = true -> flat_b (any_value g) = true.
Proof.
  destruct g as [ |b|[b|]|l|w z|w [z|]|w l|w n|w [n|]|w l|w f|w [f|]|w l|s|[s|]|l|r]; cbn; intro H; try reflexivity; try assumption;
  rewrite forallb_map; try (now apply forallb_forall); exact H.
Qed.

Lemma entry_chunky e : gval_b (snd e) = true ->
  chunky j_entry (fun e => [print_member (entry_member e)]) e.
Proof.
  intros H last. destruct (jflat_spec TKey (any_value (snd e)) (any_value_flat _ H)) as [st [Hst E]].
  exists st. split; [assumption|]. cbn [is_nil join]. unfold j_entry, j_key. rewrite E. cbn [sep app].
  unfold print_member, entry_member, dq, quote. cbn [fst snd]. rewrite <- !app_assoc. reflexivity.
Qed.

(* ---------------- the JSON encoder is the compact printer ---------------- *)
Fixpoint vsize (v : value) : nat :=
  match v with
  | VArr l => S (fold_right (fun x a => (vsize x + a)%nat) O l)
  | VObj l => S (fold_right (fun kx a => (vsize (snd kx) + a)%nat) O l)
  | _ => 1%nat
  end.

Lemma vsize_in_arr x l : In x l -> (vsize x < vsize (VArr l))%nat.
Proof. cbn [vsize]. induction l as [|a l IH]; [intros []|]. intros [<-|H]; cbn [fold_right]; [lia|]. specialize (IH H). lia. Qed.
Lemma vsize_in_obj kx l : In kx l -> (vsize (snd kx) < vsize (VObj l))%nat.
Proof. cbn [vsize]. induction l as [|a l IH]; [intros []|]. intros [<-|H]; cbn [fold_right]; [lia|]. specialize (IH H). lia. Qed.

Definition is_splice (v : value) : bool := match v with VSplice _ => true | _ => false end.

Definition field_chunks (kx : field) : list bytes := map print_member (field_members kx).

Lemma splice_chunky m : forallb (fun e => gval_b (snd e)) m = true -> forall last, exists st, sepping st /\
  thread j_entry last (sort_entries m) =
    (if is_nil (map print_member (map entry_member (sort_entries m))) then [] else sep last ++ join 44 (map print_member (map entry_member (sort_entries m))),
     if is_nil (map print_member (map entry_member (sort_entries m))) then last else st).
Proof.
  intros H last.
  assert (Hs : forall e, In e (sort_entries m) -> gval_b (snd e) = true).
  { intros e He. rewrite forallb_forall in H. apply H.
    clear -He. unfold sort_entries in He. induction m as [|a m IH]; [destruct He|]. cbn [fold_right] in He.
    assert (Hi : forall x l, In e (insert_entry x l) -> e = x \/ In e l).
    { clear. intros x l. induction l as [|y l IH]; cbn [insert_entry]; [intros [<-|[]]; now left|].
      destruct (bytes_ltb (fst x) (fst y)); [intros [<-|H]; [now left|now right]|].
      intros [<-|H]; [right; now left|]. destruct (IH H) as [->|H']; [now left|right; now right]. }
    apply Hi in He as [->|He]; [now left|right; now apply IH]. }
  destruct (thread_chunks j_entry (fun e => [print_member (entry_member e)]) (sort_entries m)
              (fun e He => entry_chunky e (Hs e He)) last) as [st [Hst E]].
  exists st. split; [assumption|]. rewrite E, flat_map_single, map_map. reflexivity.
Qed.

Theorem jv_spec v : wf_value v = true -> forall last,
  exists st, sepping st /\ jv last v = (sep last ++ print_json (to_json v), st).
Proof.
  remember (vsize v) as n eqn:En. revert v En.
  induction n as [n IH] using lt_wf_ind. intros v En Hwf last. subst n.
  destruct v as [b|num|num|f|s|r|l|l|m];
    try (exists TValue; split; [reflexivity|]; cbn [jv to_json]; now apply jflat_scalar_spec).
  - (* array *)
    cbn [wf_value] in Hwf. cbn [jv to_json print_json].
    destruct (thread_chunks jv (fun x => [print_json (to_json x)]) l) with (s0 := TArrBegin) as [st [_ E]].
    { intros x Hx last'. rewrite forallb_forall in Hwf.
      destruct (IH (vsize x) (vsize_in_arr x l Hx) x eq_refl (Hwf x Hx) last') as [st [Hst E]].
      exists st. split; [assumption|]. cbn [is_nil join]. exact E. }
    rewrite E. rewrite flat_map_single. exists TArrEnd. split; [reflexivity|]. rewrite map_map. cbn [sep app].
    destruct (map (fun x => print_json (to_json x)) l); cbn [is_nil join app]; reflexivity.
  - (* object *)
    cbn [wf_value] in Hwf. cbn [jv to_json print_json].
    match goal with |- context[thread ?f TObjBegin l] => set (fld := f) end.
    destruct (thread_chunks fld field_chunks l) with (s0 := TObjBegin) as [st [_ E]].
    { intros kx Hx last'. rewrite forallb_forall in Hwf. specialize (Hwf kx Hx). unfold fld, field_chunks, field_members.
      destruct (snd kx) as [b|num|num|f|s|r|l'|l'|m] eqn:Ev;
        try (destruct (IH (vsize (snd kx)) (vsize_in_obj kx l Hx) (snd kx) eq_refl ltac:(rewrite Ev; exact Hwf) TKey) as [st [Hst E]];
             exists st; split; [assumption|]; cbn [map is_nil join]; unfold j_key; rewrite Ev in E; rewrite E;
             cbn [sep app]; unfold print_member, dq, quote; cbn [fst snd]; rewrite <- !app_assoc; reflexivity).
      now apply splice_chunky. }
    rewrite E. exists TObjEnd. split; [reflexivity|]. cbn [sep app].
    assert (Hfm : flat_map field_chunks l =
                  map (fun kv => quote (fst kv) ++ 58 :: print_json (snd kv))
                      (flat_map (fun kx => match snd kx with
                                           | VSplice m => map entry_member (sort_entries m)
                                           | _ => [(fst kx, to_json (snd kx))] end) l)).
    { clear. induction l as [|a l IH]; [reflexivity|]. cbn [flat_map]. rewrite map_app, IH. reflexivity. }
    unfold field in *. rewrite Hfm.
    destruct (map _ (flat_map _ l)); cbn [is_nil join app]; reflexivity.
  - discriminate.
Qed.

Lemma jfield_chunky kx : wf_field kx = true -> chunky jfield field_chunks kx.
Proof.
  intros Hwf last. unfold jfield, field_chunks, field_members, wf_field in *.
  destruct (snd kx) as [b|num|num|f|s|r|l'|l'|m] eqn:Ev;
    try (destruct (jv_spec (snd kx) ltac:(rewrite Ev; exact Hwf) TKey) as [st [Hst E]];
         exists st; split; [assumption|]; cbn [map is_nil join]; unfold j_key; rewrite Ev in E; rewrite E;
         cbn [sep app]; unfold print_member, dq, quote; cbn [fst snd]; rewrite <- !app_assoc; reflexivity).
  now apply splice_chunky.
Qed.

Theorem jfields_spec fs : forallb wf_field fs = true -> forall s0, exists st, sepping st /\
  jfields s0 fs = (if is_nil (members fs) then [] else sep s0 ++ join 44 (map print_member (members fs)),
                   if is_nil (members fs) then s0 else st).
Proof.
  intros H s0. unfold jfields.
  destruct (thread_chunks jfield field_chunks fs (fun kx Hx => jfield_chunky kx (proj1 (forallb_forall _ _) H kx Hx)) s0) as [st [Hst E]].
  exists st. split; [assumption|]. rewrite E.
  assert (Hfm : flat_map field_chunks fs = map print_member (members fs)).
  { unfold members, field_chunks. clear. induction fs as [|a l IH]; [reflexivity|]. cbn [flat_map]. now rewrite map_app, IH. }
  rewrite Hfm. destruct (members fs); reflexivity.
Qed.
