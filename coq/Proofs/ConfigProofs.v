(* C15 - proofs about the configuration-resolution model (Model/Config.v). *)
From Coq Require Import Lia ZifyN ZifyNat ZifyBool.
From LogV Require Import Base.Bytes Base.Dec Base.Schema Model.Level Model.Expr Model.Tag Model.Route Model.Config Gen.Params Proofs.BytesLemmas.
Open Scope N_scope.

(* ===================== key spellings ===================== *)
(* a plain byte: not '.', '-', '_' *)
Definition plain (c : N) : bool := negb ((c =? 46) || (c =? 45) || (c =? 95)).
Definition plain_word (w : bytes) : Prop := w <> [] /\ forallb plain w = true.

Definition up_first (w : bytes) : bytes := match w with [] => [] | c :: r => to_upper c :: r end.
Definition low_first (w : bytes) : bytes := match w with [] => [] | c :: r => to_lower c :: r end.

Lemma to_upper_idem c : to_upper (to_upper c) = to_upper c.
Proof. unfold to_upper. destruct (is_lower c) eqn:E1; [|rewrite E1; reflexivity]. destruct (is_lower (c - 32)) eqn:E2; [|reflexivity]. unfold is_lower in *. lia. Qed.
Lemma to_lower_idem c : to_lower (to_lower c) = to_lower c.
Proof. unfold to_lower. destruct (is_upper c) eqn:E1; [|rewrite E1; reflexivity]. destruct (is_upper (c + 32)) eqn:E2; [|reflexivity]. unfold is_upper in *. lia. Qed.
Lemma to_lower_upper_plain c : plain c = true -> plain (to_upper c) = true /\ plain (to_lower c) = true.
Proof. unfold plain, to_upper, to_lower. destruct (is_lower c) eqn:E1; destruct (is_upper c) eqn:E2; unfold is_lower, is_upper in *; lia. Qed.

(* the loop on the tail of a plain word copies it *)
Lemma camel_loop_plain w rest : forallb plain w = true ->
  camel_loop false false (w ++ rest) = w ++ camel_loop false false rest.
Proof.
  induction w as [|c w IH]; intro H; [reflexivity|].
  cbn [forallb] in H. apply andb_true_iff in H as [Hc Hw].
  cbn [app camel_loop]. unfold plain in Hc.
  destruct (c =? 46) eqn:E1; [cbn in Hc; discriminate|].
  destruct ((c =? 45) || (c =? 95)) eqn:E2; [rewrite orb_false_l in Hc; rewrite E2 in Hc; discriminate|].
  now rewrite IH.
Qed.

(* a word after a pending upper-case request: its first letter is upper-cased *)
Lemma camel_loop_upper w rest : plain_word w ->
  camel_loop false true (w ++ rest) = up_first w ++ camel_loop false false rest.
Proof.
  intros [Hne H]. destruct w as [|c w]; [contradiction|].
  cbn [forallb] in H. apply andb_true_iff in H as [Hc Hw].
  cbn [app camel_loop up_first]. unfold plain in Hc.
  destruct (c =? 46) eqn:E1; [cbn in Hc; discriminate|].
  destruct ((c =? 45) || (c =? 95)) eqn:E2; [rewrite orb_false_l in Hc; rewrite E2 in Hc; discriminate|].
  now rewrite camel_loop_plain.
Qed.

(* a word right after a dot: its first letter is lower-cased *)
Lemma camel_loop_lower w rest : plain_word w ->
  camel_loop true false (w ++ rest) = low_first w ++ camel_loop false false rest.
Proof.
  intros [Hne H]. destruct w as [|c w]; [contradiction|].
  cbn [forallb] in H. apply andb_true_iff in H as [Hc Hw].
  cbn [app camel_loop low_first]. unfold plain in Hc.
  destruct (c =? 46) eqn:E1; [cbn in Hc; discriminate|].
  destruct ((c =? 45) || (c =? 95)) eqn:E2; [rewrite orb_false_l in Hc; rewrite E2 in Hc; discriminate|].
  now rewrite camel_loop_plain.
Qed.

(* how a word after the first one of a segment may be written *)
Inductive wform := WCamel | WSep (dash : bool) (upper : bool).
Definition sep_of (dash : bool) : N := if dash then 45 else 95.
Definition render_word (f : wform) (w : bytes) : bytes :=
  match f with
  | WCamel => up_first w
  | WSep d u => sep_of d :: (if u then up_first w else w)
  end.
(* a segment = first word (written with a lower- or upper-case initial) + further words, each in some form *)
Fixpoint render_rest (ws : list (wform * bytes)) : bytes :=
  match ws with [] => [] | (f, w) :: r => render_word f w ++ render_rest r end.
Definition render_seg (pascal : bool) (w0 : bytes) (ws : list (wform * bytes)) : bytes :=
  (if pascal then up_first w0 else w0) ++ render_rest ws.
(* the canonical (camelCase) form *)
Fixpoint canon_rest (ws : list (wform * bytes)) : bytes :=
  match ws with [] => [] | (_, w) :: r => up_first w ++ canon_rest r end.
Definition canon_seg (w0 : bytes) (ws : list (wform * bytes)) : bytes := low_first w0 ++ canon_rest ws.

Lemma up_first_plain w : plain_word w -> plain_word (up_first w).
Proof.
  intros [Hne H]. destruct w as [|c w]; [contradiction|]. split; [discriminate|].
  cbn [up_first forallb] in *. apply andb_true_iff in H as [Hc Hw].
  destruct (to_lower_upper_plain c Hc) as [Hu _]. now rewrite Hu, Hw.
Qed.
Lemma up_first_idem w : up_first (up_first w) = up_first w.
Proof. destruct w; [reflexivity|]. cbn. now rewrite to_upper_idem. Qed.

Lemma camel_loop_word f w rest : plain_word w ->
  camel_loop false false (render_word f w ++ rest) = up_first w ++ camel_loop false false rest.
Proof.
  intro Hw. destruct f as [|d u]; cbn [render_word].
  - pose proof (up_first_plain w Hw) as [_ Hp]. now rewrite camel_loop_plain.
  - cbn [app camel_loop]. replace (sep_of d =? 46) with false by (destruct d; reflexivity).
    replace ((sep_of d =? 45) || (sep_of d =? 95)) with true by (destruct d; reflexivity).
    destruct u.
    + rewrite camel_loop_upper by now apply up_first_plain. now rewrite up_first_idem.
    + now rewrite camel_loop_upper.
Qed.

Lemma camel_loop_rest ws rest : Forall (fun fw => plain_word (snd fw)) ws ->
  camel_loop false false (render_rest ws ++ rest) = canon_rest ws ++ camel_loop false false rest.
Proof.
  induction ws as [|[f w] ws IH]; intro H; [reflexivity|].
  inversion H as [|? ? Hw Hws]; subst. cbn [render_rest canon_rest]. rewrite <- !app_assoc.
  rewrite camel_loop_word by exact Hw. now rewrite IH.
Qed.

(* a dotted key: segments *)
Definition seg := (bool * bytes * list (wform * bytes))%type.
Definition seg_ok (s : seg) : Prop := plain_word (snd (fst s)) /\ Forall (fun fw => plain_word (snd fw)) (snd s).
Definition render_segv (s : seg) : bytes := render_seg (fst (fst s)) (snd (fst s)) (snd s).
Definition canon_segv (s : seg) : bytes := canon_seg (snd (fst s)) (snd s).
Fixpoint render_key (ss : list seg) : bytes :=
  match ss with [] => [] | [s] => render_segv s | s :: r => render_segv s ++ 46 :: render_key r end.
Fixpoint canon_key (ss : list seg) : bytes :=
  match ss with [] => [] | [s] => canon_segv s | s :: r => canon_segv s ++ 46 :: canon_key r end.

Lemma low_first_of_up_c c : to_lower (to_upper c) = to_lower c.
Proof. unfold to_upper. destruct (is_lower c) eqn:E1; [|reflexivity]. unfold to_lower. destruct (is_upper (c - 32)) eqn:E2; destruct (is_upper c) eqn:E3; unfold is_lower, is_upper in *; lia. Qed.
Lemma low_first_of_up w : low_first (up_first w) = low_first w.
Proof. destruct w as [|c w]; [reflexivity|]. cbn [up_first low_first]. rewrite low_first_of_up_c. reflexivity. Qed.

(* after a dot *)
Lemma camel_loop_segs_app ss rest : Forall seg_ok ss -> ss <> [] ->
  camel_loop true false (render_key ss ++ rest) = canon_key ss ++ camel_loop false false rest.
Proof.
  induction ss as [|s ss IH]; intros H Hne; [contradiction|].
  inversion H as [|? ? [Hw0 Hws] Hss]; subst.
  destruct s as [[p w0] ws]. cbn [fst snd] in *.
  assert (Hseg : forall rest, camel_loop true false (render_segv (p, w0, ws) ++ rest)
                              = canon_segv (p, w0, ws) ++ camel_loop false false rest).
  { intro rest0. unfold render_segv, render_seg, canon_segv, canon_seg. cbn [fst snd]. rewrite <- !app_assoc.
    destruct p.
    - rewrite camel_loop_lower by (apply up_first_plain; exact Hw0). rewrite low_first_of_up. rewrite camel_loop_rest by exact Hws. reflexivity.
    - rewrite camel_loop_lower by exact Hw0. rewrite camel_loop_rest by exact Hws. reflexivity. }
  destruct ss as [|s2 ss].
  - cbn [render_key canon_key]. apply Hseg.
  - change (render_key ((p, w0, ws) :: s2 :: ss)) with (render_segv (p, w0, ws) ++ 46 :: render_key (s2 :: ss)).
    change (canon_key ((p, w0, ws) :: s2 :: ss)) with (canon_segv (p, w0, ws) ++ 46 :: canon_key (s2 :: ss)).
    rewrite <- !app_assoc. rewrite Hseg. cbn [app camel_loop]. rewrite N.eqb_refl.
    rewrite IH; [reflexivity | exact Hss | discriminate].
Qed.

Lemma camel_loop_segs ss : Forall seg_ok ss -> ss <> [] ->
  camel_loop true false (render_key ss) = canon_key ss.
Proof.
  intros H Hne. rewrite <- (app_nil_r (render_key ss)). rewrite camel_loop_segs_app by assumption.
  cbn [camel_loop]. apply app_nil_r.
Qed.

(* the first byte of a key is lower-cased exactly like a byte after a dot *)
Lemma to_camel_key_as_loop s : (exists c r, s = c :: r /\ plain c = true) -> to_camel_key s = camel_loop true false s.
Proof.
  intros (c & r & Hs & Hc). subst s. cbn [to_camel_key camel_loop]. unfold plain in Hc.
  destruct (c =? 46) eqn:E1; [cbn in Hc; discriminate|].
  destruct ((c =? 45) || (c =? 95)) eqn:E2; [rewrite orb_false_l in Hc; rewrite E2 in Hc; discriminate|].
  reflexivity.
Qed.

Lemma render_key_head ss : Forall seg_ok ss -> ss <> [] -> exists c r, render_key ss = c :: r /\ plain c = true.
Proof.
  intros H Hne. destruct ss as [|[[p w0] ws] ss]; [contradiction|].
  inversion H as [|? ? [[Hw0ne Hw0] _] _]; subst. cbn [fst snd] in *.
  destruct w0 as [|c w]; [contradiction|]. cbn [forallb] in Hw0. apply andb_true_iff in Hw0 as [Hc _].
  destruct (to_lower_upper_plain c Hc) as [Hu _].
  destruct ss as [|s2 ss]; cbn [render_key]; unfold render_segv, render_seg; cbn [fst snd]; destruct p; cbn [up_first app];
    eexists; eexists; (split; [reflexivity|]); assumption.
Qed.

(* every spelling of a dotted key - each segment with a lower- or upper-case initial, each further word glued on in
   camelCase or after '-' or '_' (with either initial) - is normalised to the same camelCase key *)
Theorem camel_key_spellings ss : Forall seg_ok ss -> ss <> [] -> to_camel_key (render_key ss) = canon_key ss.
Proof.
  intros H Hne. rewrite to_camel_key_as_loop by (apply render_key_head; assumption).
  apply camel_loop_segs; assumption.
Qed.

Corollary camel_key_spelling_independent ss1 ss2 :
  Forall seg_ok ss1 -> Forall seg_ok ss2 -> ss1 <> [] -> canon_key ss1 = canon_key ss2 -> ss2 <> [] ->
  to_camel_key (render_key ss1) = to_camel_key (render_key ss2).
Proof. intros. rewrite !camel_key_spellings by assumption. assumption. Qed.


(* ===================== spellings and inline expressions at the storage level ===================== *)
Definition same_cfg (a b : bytes * bytes) : Prop := to_camel_key (fst a) = to_camel_key (fst b) /\ snd a = snd b.

Lemma expand_entry_same a b : same_cfg a b -> expand_entry a = expand_entry b.
Proof. intros [Hk Hv]. unfold expand_entry. now rewrite Hk, Hv. Qed.

Lemma expand_all_same m1 m2 : Forall2 same_cfg m1 m2 -> expand_all m1 = expand_all m2.
Proof.
  induction 1 as [|a b m1 m2 Hab _ IH]; [reflexivity|].
  cbn [expand_all]. now rewrite (expand_entry_same a b Hab), IH.
Qed.

(* configurations that differ only in the spelling of their keys resolve identically *)
Theorem to_storage_spelling m1 m2 : Forall2 same_cfg m1 m2 -> to_storage m1 = to_storage m2.
Proof. intro H. unfold to_storage. rewrite (expand_all_same m1 m2 H). reflexivity. Qed.

Theorem refresh_spelling E hs m1 m2 : Forall2 same_cfg m1 m2 -> refresh E hs m1 = refresh E hs m2.
Proof. intro H. unfold refresh. rewrite (to_storage_spelling m1 m2 H). reflexivity. Qed.

Theorem new_plugin_spelling E pt n pre m1 m2 : Forall2 same_cfg m1 m2 -> new_plugin_from_map E pt n pre m1 = new_plugin_from_map E pt n pre m2.
Proof. intro H. unfold new_plugin_from_map. rewrite (to_storage_spelling m1 m2 H). reflexivity. Qed.

(* --- inline expressions --- *)
Lemma camel_loop_snoc_bang l u s : camel_loop l u (s ++ [33]) = camel_loop l u s ++ [33].
Proof.
  revert l u; induction s as [|c s IH]; intros l u.
  - destruct l, u; vm_compute; reflexivity.
  - cbn [app camel_loop]. destruct (c =? 46); [rewrite IH; reflexivity|].
    destruct ((c =? 45) || (c =? 95)); [rewrite IH; reflexivity|].
    destruct l; [rewrite IH; reflexivity|]. destruct u; rewrite IH; reflexivity.
Qed.

Lemma to_camel_key_snoc_bang s : to_camel_key (s ++ [33]) = to_camel_key s ++ [33].
Proof. destruct s as [|c s]; [reflexivity|]. cbn [app to_camel_key]. rewrite camel_loop_snoc_bang. reflexivity. Qed.

Lemma drop_prefix_app p s : drop_prefix p (p ++ s) = Some s.
Proof. induction p as [|x p IH]; [reflexivity|]. cbn. now rewrite N.eqb_refl. Qed.

Lemma drop_suffix_snoc s c : drop_suffix [c] (s ++ [c]) = Some s.
Proof. unfold drop_suffix. rewrite rev_app_distr. cbn [rev app]. cbn [drop_prefix]. rewrite N.eqb_refl. cbn. now rewrite rev_involutive. Qed.

Lemma drop_suffix_none s c : last s 0 <> c -> s <> [] -> drop_suffix [c] s = None.
Proof.
  intros Hl Hne. unfold drop_suffix. destruct (rev s) as [|x r] eqn:E.
  - apply (f_equal (@rev N)) in E. rewrite rev_involutive in E. contradiction.
  - cbn [rev app drop_prefix]. destruct (c =? x) eqn:Ecx; [|reflexivity].
    apply N.eqb_eq in Ecx. subst x. exfalso. apply Hl.
    apply (f_equal (@rev N)) in E. rewrite rev_involutive in E. rewrite E. cbn [rev]. now rewrite last_last.
Qed.

(* bytes that camel_loop emits come from the input, case-adjusted *)
Lemma camel_loop_in l u s x : In x (camel_loop l u s) -> exists c, In c s /\ (x = c \/ x = to_lower c \/ x = to_upper c).
Proof.
  revert l u; induction s as [|c s IH]; intros l u H; [contradiction|].
  cbn [camel_loop] in H.
  assert (Hrec : forall l' u', In x (camel_loop l' u' s) -> exists c0, In c0 (c :: s) /\ (x = c0 \/ x = to_lower c0 \/ x = to_upper c0)).
  { intros l' u' H'. destruct (IH l' u' H') as (c0 & Hc0 & Hx). exists c0. split; [now right|exact Hx]. }
  destruct (c =? 46); [destruct H as [H|H]; [exists c; split; [now left|now left]|eauto]|].
  destruct ((c =? 45) || (c =? 95)); [eauto|].
  destruct l; [destruct H as [H|H]; [exists c; split; [now left|right; left; now symmetry]|eauto]|].
  destruct u; (destruct H as [H|H]; [exists c; split; [now left|]|eauto]).
  - right; right; now symmetry.
  - now left.
Qed.

Lemma case_not_bang c : c <> 33 -> to_lower c <> 33 /\ to_upper c <> 33.
Proof. unfold to_lower, to_upper. destruct (is_lower c) eqn:E1; destruct (is_upper c) eqn:E2; unfold is_lower, is_upper in *; lia. Qed.

Lemma to_camel_key_no_bang s : ~ In 33 s -> ~ In 33 (to_camel_key s).
Proof.
  intros Hs H. destruct s as [|c s]; [contradiction|]. cbn [to_camel_key] in H. destruct H as [H|H].
  - destruct (case_not_bang c) as [Hl _]; [intro; subst; apply Hs; now left|]. now apply Hl.
  - destruct (camel_loop_in _ _ _ _ H) as (c0 & Hc0 & Hx).
    assert (c0 <> 33) by (intro; subst; apply Hs; now right).
    destruct (case_not_bang c0 H0) as [Hl Hu]. destruct Hx as [Hx|[Hx|Hx]]; congruence.
Qed.

Lemma last_in (s : bytes) d : s <> [] -> In (last s d) s.
Proof.
  induction s as [|c s IH]; [contradiction|]. intros _. destruct s as [|c2 s]; [now left|].
  right. apply IH. discriminate.
Qed.

Lemma expand_entry_plain k v : ~ In 33 k -> expand_entry (k, v) = Some [(to_camel_key k, v)].
Proof.
  intro Hk. unfold expand_entry. cbn [fst snd].
  destruct (to_camel_key k) as [|c r] eqn:E; [reflexivity|].
  rewrite drop_suffix_none; [reflexivity| |discriminate].
  intro Hl. apply (to_camel_key_no_bang k Hk). rewrite E. rewrite <- Hl. apply last_in. discriminate.
Qed.

(* toCamelKey of a joined key k.k2, for a parent key that does not end in a separator and a sub-key that starts
   with a plain byte *)
Definition parent_ok (k : bytes) : Prop := k <> [] /\ plain (last k 0) = true.
Definition sub_ok (k2 : bytes) : Prop := exists c r, k2 = c :: r /\ plain c = true.

(* a sub-key appended to a parent key with a dot is normalised on its own *)
Theorem to_camel_key_join ss k2 : Forall seg_ok ss -> ss <> [] -> sub_ok k2 ->
  to_camel_key (render_key ss ++ 46 :: k2) = to_camel_key (render_key ss) ++ 46 :: to_camel_key k2.
Proof.
  intros H Hne Hk2.
  destruct (render_key_head ss H Hne) as (c & r & Hr & Hc).
  rewrite (to_camel_key_as_loop (render_key ss ++ 46 :: k2)) by (rewrite Hr; exists c, (r ++ 46 :: k2); split; [reflexivity|exact Hc]).
  rewrite camel_loop_segs_app by assumption. cbn [camel_loop]. rewrite N.eqb_refl.
  rewrite camel_key_spellings by assumption. rewrite (to_camel_key_as_loop k2) by exact Hk2. reflexivity.
Qed.

Lemma expand_all_app a b :
  expand_all (a ++ b) = match expand_all a, expand_all b with Some x, Some y => Some (x ++ y) | _, _ => None end.
Proof.
  induction a as [|kv a IH]; cbn [app expand_all].
  - destruct (expand_all b); reflexivity.
  - rewrite IH. destruct (expand_entry kv) as [e|]; [|destruct (expand_all a); reflexivity].
    destruct (expand_all a) as [x|]; [|reflexivity]. destruct (expand_all b) as [y|]; [|reflexivity].
    rewrite app_assoc. reflexivity.
Qed.

Definition inline_flat (k : bytes) (m : list (bytes * bytes)) : list (bytes * bytes) :=
  map (fun kv => (k ++ 46 :: fst kv, snd kv)) m.
Definition sub_key_ok (k2 : bytes) : Prop := sub_ok k2 /\ ~ In 33 k2.

Lemma expand_inline_flat ss m : Forall seg_ok ss -> ss <> [] -> ~ In 33 (render_key ss) ->
  Forall (fun kv => sub_key_ok (fst kv)) m ->
  expand_all (inline_flat (render_key ss) m)
  = Some (map (fun kv2 => (to_camel_key (render_key ss) ++ 46 :: to_camel_key (fst kv2), snd kv2)) m).
Proof.
  intros H Hne Hb Hm. induction m as [|[k2 v2] m IH]; [reflexivity|].
  inversion Hm as [|? ? [Hs Hn] Hm']; subst. cbn [fst snd] in *.
  cbn [inline_flat map expand_all fst snd]. fold (inline_flat (render_key ss) m). rewrite (IH Hm').
  rewrite expand_entry_plain.
  - rewrite to_camel_key_join by assumption. reflexivity.
  - intro Hin. apply in_app_or in Hin as [Hin|[Hin|Hin]]; [contradiction|discriminate|contradiction].
Qed.

(* a sub-tree written inline as `key!` = expression resolves exactly like the same sub-tree written as flat keys *)
Theorem inline_equiv ss v m pre post :
  Forall seg_ok ss -> ss <> [] -> ~ In 33 (render_key ss) ->
  parse v = POk m -> Forall (fun kv => sub_key_ok (fst kv)) m ->
  expand_all (pre ++ (render_key ss ++ [33], v) :: post) = expand_all (pre ++ inline_flat (render_key ss) m ++ post).
Proof.
  intros H Hne Hb Hp Hm.
  rewrite !expand_all_app. change ((render_key ss ++ [33], v) :: post) with ([(render_key ss ++ [33], v)] ++ post).
  rewrite !expand_all_app. rewrite (expand_inline_flat ss m H Hne Hb Hm).
  cbn [expand_all]. unfold expand_entry at 1. cbn [fst snd]. rewrite to_camel_key_snoc_bang, drop_suffix_snoc, Hp.
  rewrite app_nil_r. reflexivity.
Qed.

Corollary inline_equiv_storage ss v m pre post :
  Forall seg_ok ss -> ss <> [] -> ~ In 33 (render_key ss) ->
  parse v = POk m -> Forall (fun kv => sub_key_ok (fst kv)) m ->
  to_storage (pre ++ (render_key ss ++ [33], v) :: post) = to_storage (pre ++ inline_flat (render_key ss) m ++ post).
Proof. intros. unfold to_storage. rewrite (inline_equiv ss v m pre post) by assumption. reflexivity. Qed.

Corollary inline_equiv_refresh E hs ss v m pre post :
  Forall seg_ok ss -> ss <> [] -> ~ In 33 (render_key ss) ->
  parse v = POk m -> Forall (fun kv => sub_key_ok (fst kv)) m ->
  refresh E hs (pre ++ (render_key ss ++ [33], v) :: post) = refresh E hs (pre ++ inline_flat (render_key ss) m ++ post).
Proof. intros. unfold refresh. rewrite (inline_equiv_storage ss v m pre post) by assumption. reflexivity. Qed.

(* ===================== the storage as a finite map ===================== *)
Fixpoint last_value (kvs : list (bytes * bytes)) (k : bytes) : option bytes :=
  match kvs with
  | [] => None
  | (k', v) :: r => match last_value r k with Some x => Some x | None => if bytes_eqb k' k then Some v else None end
  end.

Lemma st_raw_upsert st k p v k' :
  st_raw (upsert st k p v) k' = if bytes_eqb k k' then Some v else st_raw st k'.
Proof.
  induction st as [|e st IH]; cbn [upsert st_raw e_key e_val].
  - destruct (bytes_eqb k k'); reflexivity.
  - destruct (bytes_eqb (e_key e) k) eqn:Ek.
    + apply bytes_eqb_eq in Ek. cbn [st_raw e_key e_val]. rewrite Ek. destruct (bytes_eqb k k'); reflexivity.
    + cbn [st_raw]. destruct (bytes_eqb (e_key e) k') eqn:Ek'.
      * apply bytes_eqb_eq in Ek'. subst k'. destruct (bytes_eqb k (e_key e)) eqn:E2; [|reflexivity].
        apply bytes_eqb_eq in E2. subst k. rewrite bytes_eqb_refl in Ek. discriminate.
      * exact IH.
Qed.

Lemma st_set_raw st k v st' k' : st_set st k v = Some st' ->
  st_raw st' k' = if bytes_eqb k k' then Some v else st_raw st k'.
Proof.
  unfold st_set. destruct (split_path k) as [p|]; [|discriminate].
  destruct (forallb _ st); [|discriminate]. intro H. inversion H; subst. apply st_raw_upsert.
Qed.

Lemma set_all_raw kvs : forall st st' k, set_all st kvs = Some st' ->
  st_raw st' k = match last_value kvs k with Some v => Some v | None => st_raw st k end.
Proof.
  induction kvs as [|[k0 v0] kvs IH]; intros st st' k H; cbn [set_all last_value] in *.
  - inversion H; reflexivity.
  - destruct (st_set st k0 v0) as [st1|] eqn:E1; [|discriminate].
    rewrite (IH st1 st' k H). destruct (last_value kvs k); [reflexivity|].
    rewrite (st_set_raw st k0 v0 st1 k E1). destruct (bytes_eqb k0 k); reflexivity.
Qed.

(* the value stored under a key is the (last) value the configuration gives it, after normalisation and expansion *)
Theorem to_storage_raw m kvs st k : expand_all m = Some kvs -> to_storage m = Some st -> st_raw st k = last_value kvs k.
Proof.
  intros He Hs. unfold to_storage in Hs. rewrite He in Hs. rewrite (set_all_raw kvs [] st k Hs).
  destruct (last_value kvs k); reflexivity.
Qed.

(* ===================== the attribute law ===================== *)
Lemma ref_shape_long v : has_prefix [36; 123] v && has_suffix [125] v = true -> (length v <? 3)%nat = false.
Proof.
  intro H. apply andb_true_iff in H as [Hp Hs].
  destruct v as [|a v1]; [discriminate|]. destruct v1 as [|b r].
  - cbn [has_prefix] in Hp. rewrite andb_false_r in Hp. discriminate.
  - destruct r as [|c r]; [|reflexivity]. exfalso.
    cbn [has_prefix] in Hp. apply andb_true_iff in Hp as [Ha Hb']. apply andb_true_iff in Hb' as [Hb _].
    apply N.eqb_eq in Ha, Hb. subst a b. vm_compute in Hs. discriminate.
Qed.

Lemma substitute_never_panics st v : substitute st v <> CPanic.
Proof.
  unfold substitute. destruct (has_prefix [36; 123] (go_trim_space v) && has_suffix [125] (go_trim_space v)) eqn:E; [|discriminate].
  rewrite (ref_shape_long _ E). unfold of_opt. destruct (st_raw st _); discriminate.
Qed.

(* what an attribute string resolves to: trimmed; `${key}` replaced by the top-level property `key`; converted *)
Definition is_ref (v : bytes) : bool := has_prefix [36; 123] v && has_suffix [125] v.
Definition ref_key (v : bytes) : bytes := to_camel_key (removelast (skipn 2 v)).
Definition resolve_value (E : env) (kvs : list (bytes * bytes)) (k : akind) (v : bytes) : res pval :=
  let v' := go_trim_space v in
  if is_ref v' then match last_value kvs (ref_key v') with Some x => convert E k x | None => CErr end
  else convert E k v'.

Theorem attribute_law E m st kvs tag k prefix :
  expand_all m = Some kvs -> to_storage m = Some st ->
  tag_first tag <> [] -> tag_first tag <> k_name ->
  inject_attribute E tag k prefix st =
    match last_value kvs (dot_join prefix (to_camel_key (tag_first tag))) with
    | Some v => resolve_value E kvs k v
    | None => match tag_lookup tag k_default with Some d => resolve_value E kvs k d | None => CErr end
    end.
Proof.
  intros He Hs Hne Hnn. unfold inject_attribute.
  destruct (is_nil (tag_first tag)) eqn:En; [destruct (tag_first tag); [contradiction|discriminate]|].
  destruct (bytes_eqb (tag_first tag) k_name) eqn:Ek; [apply bytes_eqb_eq in Ek; contradiction|].
  rewrite (to_storage_raw m kvs st _ He Hs).
  assert (Hres : forall v, bind (substitute st v) (convert E k) = resolve_value E kvs k v).
  { intro v. unfold substitute, resolve_value, is_ref, ref_key.
    destruct (has_prefix [36; 123] (go_trim_space v) && has_suffix [125] (go_trim_space v)) eqn:E1; [|reflexivity].
    rewrite (ref_shape_long _ E1). rewrite (to_storage_raw m kvs st _ He Hs).
    destruct (last_value kvs _); reflexivity. }
  destruct (last_value kvs _) as [v|]; [apply Hres|].
  destruct (tag_lookup tag k_default) as [d|]; [apply Hres|reflexivity].
Qed.

(* the three cases of the property text *)
Corollary attribute_configured E m st kvs tag k prefix v :
  expand_all m = Some kvs -> to_storage m = Some st -> tag_first tag <> [] -> tag_first tag <> k_name ->
  last_value kvs (dot_join prefix (to_camel_key (tag_first tag))) = Some v ->
  inject_attribute E tag k prefix st = resolve_value E kvs k v.
Proof. intros He Hs H1 H2 Hl. rewrite (attribute_law E m st kvs tag k prefix He Hs H1 H2), Hl. reflexivity. Qed.

Corollary attribute_default E m st kvs tag k prefix d :
  expand_all m = Some kvs -> to_storage m = Some st -> tag_first tag <> [] -> tag_first tag <> k_name ->
  last_value kvs (dot_join prefix (to_camel_key (tag_first tag))) = None -> tag_lookup tag k_default = Some d ->
  inject_attribute E tag k prefix st = resolve_value E kvs k d.
Proof. intros He Hs H1 H2 Hl Hd. rewrite (attribute_law E m st kvs tag k prefix He Hs H1 H2), Hl, Hd. reflexivity. Qed.

Corollary attribute_missing E m st kvs tag k prefix :
  expand_all m = Some kvs -> to_storage m = Some st -> tag_first tag <> [] -> tag_first tag <> k_name ->
  last_value kvs (dot_join prefix (to_camel_key (tag_first tag))) = None -> tag_lookup tag k_default = None ->
  inject_attribute E tag k prefix st = CErr.
Proof. intros He Hs H1 H2 Hl Hd. rewrite (attribute_law E m st kvs tag k prefix He Hs H1 H2), Hl, Hd. reflexivity. Qed.

Corollary reference_missing E kvs k v :
  is_ref (go_trim_space v) = true -> last_value kvs (ref_key (go_trim_space v)) = None -> resolve_value E kvs k v = CErr.
Proof. intros Hr Hl. unfold resolve_value. rewrite Hr, Hl. reflexivity. Qed.

(* values that do not convert are errors; integers that convert fit the field (no silent truncation) *)
Lemma parse_int0_range s b z : parse_int0 s b = Some z -> (- Z.of_N (2 ^ (b - 1)) <= z < Z.of_N (2 ^ (b - 1)))%Z.
Proof.
  unfold parse_int0. destruct s as [|c r]; [discriminate|].
  destruct (parse_uint0 _ 64) as [n|]; [|discriminate].
  destruct (c =? 45).
  - destruct (n <=? 2 ^ (b - 1)) eqn:E; [|discriminate]. intro H; inversion H; subst. lia.
  - destruct (n <? 2 ^ (b - 1)) eqn:E; [|discriminate]. intro H; inversion H; subst. lia.
Qed.

Lemma parse_uint0_range s b n : parse_uint0 s b = Some n -> n < 2 ^ b.
Proof.
  unfold parse_uint0. destruct (is_nil s); [discriminate|].
  destruct (match s with 48 :: c1 :: c2 :: r => _ | 48 :: r => _ | _ => _ end) as [base body].
  destruct (digits_val base true body 0) as [m|]; [|discriminate].
  destruct (has_underscore body && negb (underscore_ok s)); [discriminate|].
  destruct (m <? 2 ^ b) eqn:E; [|discriminate]. intro H; inversion H; subst. lia.
Qed.

Theorem convert_int_fits E b v z : convert E (KInt b) v = COk (PVInt z) -> (- Z.of_N (2 ^ (b - 1)) <= z < Z.of_N (2 ^ (b - 1)))%Z.
Proof.
  cbn [convert]. destruct (parse_int0 v b) as [z'|] eqn:E1; [|discriminate].
  intro H; inversion H; subst. eapply parse_int0_range; eassumption.
Qed.
Theorem convert_uint_fits E b v z : convert E (KUint b) v = COk (PVInt z) -> (0 <= z < Z.of_N (2 ^ b))%Z.
Proof.
  cbn [convert]. destruct (parse_uint0 v b) as [n|] eqn:E1; [|discriminate].
  intro H; inversion H; subst. apply parse_uint0_range in E1. lia.
Qed.
Theorem convert_ill_typed E k v : convert E k v <> CPanic /\ convert E k v <> CFuel.
Proof.
  destruct k; cbn [convert];
  repeat match goal with |- context [match ?x with _ => _ end] => destruct x end; split; discriminate.
Qed.

(* ===================== Refresh: what an accepted configuration guarantees ===================== *)
Lemma bind_ok {A B} (r : res A) (f : A -> res B) x : bind r f = COk x -> exists a, r = COk a /\ f a = COk x.
Proof. destruct r; cbn; intro H; try discriminate. eauto. Qed.
Lemma bind_panic {A B} (r : res A) (f : A -> res B) : bind r f = CPanic -> r = CPanic \/ exists a, r = COk a /\ f a = CPanic.
Proof. destruct r; cbn; intro H; try discriminate; eauto. Qed.

Lemma find_plugin_in ps pt n p : find_plugin ps pt n = Some p -> In p ps /\ pl_type p = pt /\ pl_name p = n.
Proof.
  induction ps as [|q ps IH]; cbn [find_plugin]; [discriminate|].
  destruct (bytes_eqb (pl_type q) pt && bytes_eqb (pl_name q) n) eqn:E.
  - intro H; inversion H; subst. apply andb_true_iff in E as [E1 E2]. apply bytes_eqb_eq in E1, E2. repeat split; auto. now left.
  - intro H. destruct (IH H) as (Hi & H1 & H2). repeat split; auto. now right.
Qed.

(* create_all: one successfully created plugin per name, in order *)
Lemma create_all_ok E pt sec names : forall st acc st' l,
  create_all E pt sec names st acc = COk (st', l) ->
  exists l', l = rev acc ++ l' /\
    Forall2 (fun n nv => fst nv = n /\ exists st0 st1, top_plugin E pt sec n st0 = COk (st1, snd nv)) names l'.
Proof.
  induction names as [|n names IH]; intros st acc st' l H; cbn [create_all] in H.
  - inversion H; subst. exists []. rewrite app_nil_r. split; [reflexivity|constructor].
  - apply bind_ok in H as ([st1 v] & Ht & Hr). cbn [fst snd] in Hr.
    destruct (IH _ _ _ _ Hr) as (l' & Hl & Hf). exists ((n, v) :: l'). split.
    + rewrite Hl. cbn [rev]. rewrite <- app_assoc. reflexivity.
    + constructor; [|exact Hf]. split; [reflexivity|]. exists st, st1. exact Ht.
Qed.

Lemma top_plugin_ok E pt sec n st st1 v : top_plugin E pt sec n st = COk (st1, v) ->
  st_has st (dot_join sec n ++ k_type_suffix) = true /\
  exists p, find_plugin (env_plugins E) pt (st_get st (dot_join sec n ++ k_type_suffix) []) = Some p /\
            new_plugin (plugin_fuel E) E p (dot_join sec n) st = COk (st1, v).
Proof.
  unfold top_plugin. destruct (st_has st _) eqn:Eh; cbn [negb]; [|discriminate].
  intro H. apply bind_ok in H as (p & Hp & Hn). split; [reflexivity|].
  unfold of_opt in Hp. destruct (find_plugin _ _ _) as [q|] eqn:Ef; [|discriminate]. inversion Hp; subst. eauto.
Qed.

Lemma new_plugin_ok fuel E p prefix st st1 v : new_plugin fuel E p prefix st = COk (st1, v) ->
  exists f fs, fuel = S f /\ v = PVPlugin (pl_gotype p) fs /\ inject_fields E (new_plugin f E) (pl_schema p) prefix st [] = COk (st1, fs).
Proof.
  destruct fuel as [|f]; cbn [new_plugin]; [discriminate|]. intro H.
  apply bind_ok in H as ([st2 fs] & Hi & Hr). cbn [fst snd] in Hr. inversion Hr; subst. eauto.
Qed.

(* every attribute of an instantiated plugin was resolved successfully: an ill-typed value cannot be swallowed *)
Lemma inject_fields_attrs E np fs : forall prefix st acc st1 out,
  inject_fields E np fs prefix st acc = COk (st1, out) ->
  exists out', out = rev acc ++ out' /\
    forall fname tag k, In (FAttr fname tag k) fs -> exists st0 v, inject_attribute E tag k prefix st0 = COk v /\ In (fname, v) out'.
Proof.
  induction fs as [|f fs IH]; intros prefix st acc st1 out H; cbn [inject_fields] in H.
  - inversion H; subst. exists []. rewrite app_nil_r. split; [reflexivity|]. intros ? ? ? [].
  - destruct f as [fname tag k|fname tag|fname tag|fname tag].
    + apply bind_ok in H as (v & Hv & Hr). destruct (IH _ _ _ _ _ Hr) as (out' & Ho & Hall).
      exists ((fname, v) :: out'). split; [rewrite Ho; cbn [rev]; rewrite <- app_assoc; reflexivity|].
      intros fn tg kk [Hin|Hin].
      * inversion Hin; subst. exists st, v. split; [exact Hv|now left].
      * destruct (Hall _ _ _ Hin) as (st0 & v0 & H1 & H2). exists st0, v0. split; [exact H1|now right].
    + apply bind_ok in H as ([st2 v] & Hv & Hr). cbn [fst snd] in Hr. destruct (IH _ _ _ _ _ Hr) as (out' & Ho & Hall).
      exists ((fname, v) :: out'). split; [rewrite Ho; cbn [rev]; rewrite <- app_assoc; reflexivity|].
      intros fn tg kk [Hin|Hin]; [discriminate|].
      destruct (Hall _ _ _ Hin) as (st0 & v0 & H1 & H2). exists st0, v0. split; [exact H1|now right].
    + apply bind_ok in H as ([st2 v] & Hv & Hr). cbn [fst snd] in Hr. destruct (IH _ _ _ _ _ Hr) as (out' & Ho & Hall).
      exists ((fname, v) :: out'). split; [rewrite Ho; cbn [rev]; rewrite <- app_assoc; reflexivity|].
      intros fn tg kk [Hin|Hin]; [discriminate|].
      destruct (Hall _ _ _ Hin) as (st0 & v0 & H1 & H2). exists st0, v0. split; [exact H1|now right].
    + discriminate.
Qed.

Theorem plugin_attributes_resolved fuel E p prefix st st1 v :
  new_plugin fuel E p prefix st = COk (st1, v) ->
  exists fs, v = PVPlugin (pl_gotype p) fs /\
    forall fname tag k, In (FAttr fname tag k) (pl_schema p) -> exists st0 x, inject_attribute E tag k prefix st0 = COk x /\ In (fname, x) fs.
Proof.
  intro H. apply new_plugin_ok in H as (f & fs & _ & Hv & Hi). exists fs. split; [exact Hv|].
  destruct (inject_fields_attrs _ _ _ _ _ _ _ _ Hi) as (out' & Ho & Hall). cbn [rev app] in Ho. subst out'. exact Hall.
Qed.

(* a schema with an element on a field that is neither an interface nor a slice can never be instantiated *)
Lemma plugin_bad_element fuel E p prefix st fname tag : In (FElemOther fname tag) (pl_schema p) ->
  forall r, new_plugin fuel E p prefix st <> COk r.
Proof.
  intros Hin [st1 v] H. apply new_plugin_ok in H as (f & fs & _ & _ & Hi).
  revert Hin Hi. generalize (@nil (bytes * pval)) as acc. generalize st. generalize (pl_schema p) as sch.
  induction sch as [|d sch IH]; intros st0 acc Hin Hi; [contradiction|].
  cbn [inject_fields] in Hi. destruct Hin as [Hd|Hin].
  - subst d. discriminate.
  - destruct d as [fn tg k|fn tg|fn tg|fn tg]; try discriminate;
      apply bind_ok in Hi as (x & _ & Hr); eapply IH; eauto.
Qed.

(* a required element that is absent, has no default and is not optional *)
Lemma iface_missing_is_error E np tag prefix st :
  tag_first tag <> [] ->
  st_has st (dot_join prefix (to_camel_key (trim_suffix [63] (tag_first tag)))) = false ->
  tag_lookup tag k_default = None -> has_suffix [63] (tag_first tag) = false ->
  inject_iface E np tag prefix st = CErr.
Proof.
  intros Hne Hh Hd Hn. unfold inject_iface.
  destruct (is_nil (tag_first tag)) eqn:En; [destruct (tag_first tag); [contradiction|discriminate]|].
  rewrite Hh, Hd, Hn. reflexivity.
Qed.
Lemma iface_optional_absent E np tag prefix st :
  tag_first tag <> [] ->
  st_has st (dot_join prefix (to_camel_key (trim_suffix [63] (tag_first tag)))) = false ->
  tag_lookup tag k_default = None -> has_suffix [63] (tag_first tag) = true ->
  inject_iface E np tag prefix st = COk (st, PVNil).
Proof.
  intros Hne Hh Hd Hn. unfold inject_iface.
  destruct (is_nil (tag_first tag)) eqn:En; [destruct (tag_first tag); [contradiction|discriminate]|].
  rewrite Hh, Hd, Hn. reflexivity.
Qed.
Lemma slice_missing_is_error E np tag prefix st :
  tag_first tag <> [] ->
  st_has st (dot_join prefix (to_camel_key (trim_suffix [63] (tag_first tag)))) = false ->
  st_has st (idx_key (dot_join prefix (to_camel_key (trim_suffix [63] (tag_first tag)))) 0) = false ->
  tag_lookup tag k_default = None -> has_suffix [63] (tag_first tag) = false ->
  inject_slice E np tag prefix st = CErr.
Proof.
  intros Hne Hh Hh0 Hd Hn. unfold inject_slice.
  destruct (is_nil (tag_first tag)) eqn:En; [destruct (tag_first tag); [contradiction|discriminate]|].
  rewrite Hh, Hh0, Hd, Hn. reflexivity.
Qed.
Lemma iface_unknown_type_is_error E np tag prefix st ty :
  tag_first tag <> [] ->
  st_has st (dot_join prefix (to_camel_key (trim_suffix [63] (tag_first tag)))) = true ->
  st_raw st (dot_join prefix (to_camel_key (trim_suffix [63] (tag_first tag))) ++ k_type_suffix) = Some ty ->
  find_plugin (env_plugins E) (to_camel_key (trim_suffix [63] (tag_first tag))) ty = None ->
  inject_iface E np tag prefix st = CErr.
Proof.
  intros Hne Hh Hr Hf. unfold inject_iface.
  destruct (is_nil (tag_first tag)) eqn:En; [destruct (tag_first tag); [contradiction|discriminate]|].
  rewrite Hh, Hr. cbn [bind]. rewrite Hf. reflexivity.
Qed.

(* the decomposition of a successful Refresh *)
Theorem refresh_ok_inv E hs m o : refresh E hs m = COk o ->
  exists st anames lnames st1 st2,
    to_storage m = Some st /\ sub_keys1 st s_appender = Some anames /\ anames <> [] /\ sub_keys1 st s_logger = Some lnames /\
    create_all E s_appender s_appender anames st [] = COk (st1, o_appenders o) /\
    create_all E s_logger s_logger lnames st1 [] = COk (st2, o_loggers o) /\
    forallb (fun l => refs_resolve (o_appenders o) (snd l)) (o_loggers o) = true /\
    (exists r, refresh_tags (logger_cfgs (o_loggers o) 0) [] None = inr r) /\
    forallb (fun l => start_ok (snd l)) (o_loggers o) = true /\
    forallb (fun h => bytes_eqb h root_logger_name || existsb (fun l => bytes_eqb (fst l) h) (o_loggers o)) hs = true /\
    props_ok st2 = true.
Proof.
  unfold refresh. destruct (to_storage m) as [st|] eqn:Es; [|discriminate].
  destruct (sub_keys1 st s_appender) as [anames|] eqn:Esa; [|discriminate].
  destruct anames as [|a0 anames]; [discriminate|].
  destruct (sub_keys1 st s_logger) as [lnames|] eqn:Esl; [|discriminate].
  intro H. apply bind_ok in H as ([st1 apps] & Ha & H). cbn [fst snd] in H.
  apply bind_ok in H as ([st2 logs] & Hl & H). cbn [fst snd] in H.
  destruct (forallb (fun l => refs_resolve apps (snd l)) logs) eqn:E1; cbn [negb] in H; [|discriminate].
  destruct (refresh_tags (logger_cfgs logs 0) [] None) as [e|r] eqn:E2; [discriminate|].
  destruct (forallb (fun l => start_ok (snd l)) logs) eqn:E3; cbn [negb] in H; [|discriminate].
  destruct (forallb _ hs) eqn:E4; cbn [negb] in H; [|discriminate].
  destruct (props_ok st2) eqn:E5; cbn [negb] in H; [|discriminate].
  inversion H; subst. cbn [o_appenders o_loggers].
  exists st, (a0 :: anames), lnames, st1, st2.
  split; [reflexivity|]. split; [exact Esa|]. split; [discriminate|]. split; [exact Esl|].
  split; [exact Ha|]. split; [exact Hl|]. split; [exact E1|]. split; [exists r; exact E2|].
  split; [exact E3|]. split; [exact E4|exact E5].
Qed.

(* a dangling appender reference makes Refresh fail: in an accepted configuration every reference resolves *)
Theorem refresh_refs_resolve E hs m o : refresh E hs m = COk o ->
  forall l, In l (o_loggers o) -> forall r, In r (refs_of (snd l)) -> exists a, In a (o_appenders o) /\ fst a = r.
Proof.
  intros H l Hl r Hr. destruct (refresh_ok_inv E hs m o H) as (st & an & ln & st1 & st2 & _ & _ & _ & _ & _ & _ & Hrefs & _).
  rewrite forallb_forall in Hrefs. specialize (Hrefs l Hl). unfold refs_resolve in Hrefs.
  rewrite forallb_forall in Hrefs. specialize (Hrefs r Hr). apply existsb_exists in Hrefs as (a & Ha & Heq).
  apply bytes_eqb_eq in Heq. eauto.
Qed.

(* unknown plugin types make Refresh fail: every configured appender and logger is an instance of a registered plugin
   of the right kind, created under its own prefix, with every attribute resolved *)
Theorem refresh_plugins_registered E hs m o : refresh E hs m = COk o ->
  (forall a, In a (o_appenders o) -> exists p st0 st1, In p (env_plugins E) /\ pl_type p = s_appender /\
      new_plugin (plugin_fuel E) E p (dot_join s_appender (fst a)) st0 = COk (st1, snd a)) /\
  (forall l, In l (o_loggers o) -> exists p st0 st1, In p (env_plugins E) /\ pl_type p = s_logger /\
      new_plugin (plugin_fuel E) E p (dot_join s_logger (fst l)) st0 = COk (st1, snd l)).
Proof.
  intro H. destruct (refresh_ok_inv E hs m o H) as (st & an & ln & st1 & st2 & _ & _ & _ & _ & Ha & Hl & _).
  assert (Hgen : forall pt names st0 st' l, create_all E pt pt names st0 [] = COk (st', l) ->
            forall x, In x l -> exists p s0 s1, In p (env_plugins E) /\ pl_type p = pt /\
              new_plugin (plugin_fuel E) E p (dot_join pt (fst x)) s0 = COk (s1, snd x)).
  { intros pt names st0 st' l Hc x Hx. destruct (create_all_ok _ _ _ _ _ _ _ _ Hc) as (l' & Heq & Hf). cbn [rev app] in Heq. subst l'.
    clear Hc. induction Hf as [|n nv names l [Hn (s0 & s1 & Ht)] _ IH]; [contradiction|].
    destruct Hx as [Hx|Hx]; [|exact (IH Hx)]. subst x.
    apply top_plugin_ok in Ht as (_ & p & Hf' & Hn'). apply find_plugin_in in Hf' as (Hin & Hty & _).
    exists p, s0, s1. rewrite Hn. auto. }
  split; intros x Hx; eapply Hgen; eauto.
Qed.

(* an async logger outside the buffer-size window makes Refresh fail *)
Theorem refresh_async_buffer_window E hs m o : refresh E hs m = COk o ->
  forall l z, In l (o_loggers o) -> pgotype (snd l) = s_async_logger -> field_of (pfields (snd l)) s_buffer_size = Some (PVInt z) ->
  (100 <= z <= max_async_buffer)%Z.
Proof.
  intros H l z Hl Hty Hf. destruct (refresh_ok_inv E hs m o H) as (st & an & ln & st1 & st2 & _ & _ & _ & _ & _ & _ & _ & _ & Hs & _).
  rewrite forallb_forall in Hs. specialize (Hs l Hl). unfold start_ok in Hs. rewrite Hf, Hty in Hs.
  change (bytes_eqb s_async_logger s_async_logger) with true in Hs. cbv iota in Hs. lia.
Qed.

(* ===================== totality: no modelled panic site is reachable ===================== *)
(* the one schema-dependent panic site: the `name` pseudo-attribute on a field that is not a string (reflect's SetString) *)
Definition fdecl_safe (f : fdecl) : bool :=
  match f with
  | FAttr _ tag k => negb (bytes_eqb (tag_first tag) k_name) || match k with KString => true | _ => false end
  | _ => true
  end.
Definition env_safe (E : env) : bool := forallb (fun p => forallb fdecl_safe (pl_schema p)) (env_plugins E).

Lemma inject_attribute_no_panic E fn tag k prefix st : fdecl_safe (FAttr fn tag k) = true -> inject_attribute E tag k prefix st <> CPanic.
Proof.
  intro Hs. unfold inject_attribute. destruct (is_nil (tag_first tag)); [discriminate|].
  destruct (bytes_eqb (tag_first tag) k_name) eqn:En.
  - cbn [fdecl_safe] in Hs. rewrite En in Hs. cbn [negb orb] in Hs. destruct k; try discriminate.
  - destruct (match st_raw st _ with Some v => Some v | None => tag_lookup tag k_default end) as [v|]; [|discriminate].
    intro H. apply bind_panic in H as [H|(a & _ & H)].
    + exact (substitute_never_panics st v H).
    + exact (proj1 (convert_ill_typed E k a) H).
Qed.

Section NoPanic.
  Context (E : env) (np : plugin -> bytes -> storage -> res (storage * pval)).
  Hypothesis Hnp : forall p pre st, In p (env_plugins E) -> np p pre st <> CPanic.

  Lemma elem_plugin_in et st key p : elem_plugin E et st key = COk p -> In p (env_plugins E).
  Proof.
    unfold elem_plugin, of_opt. destruct (find_plugin _ _ _) as [q|] eqn:Ef; [|discriminate].
    intro H; inversion H; subst. exact (proj1 (find_plugin_in _ _ _ _ Ef)).
  Qed.
  Lemma elem_plugin_no_panic et st key : elem_plugin E et st key <> CPanic.
  Proof. unfold elem_plugin, of_opt. destruct (find_plugin _ _ _); discriminate. Qed.

  Lemma slice_loop_no_panic n : forall i et ek st acc, slice_loop E np n i et ek st acc <> CPanic.
  Proof.
    induction n as [|n IH]; intros i et ek st acc; cbn [slice_loop]; [discriminate|].
    destruct (negb (st_has st (idx_key ek i))); [discriminate|].
    intro H. apply bind_panic in H as [H|(p & Hp & H)]; [exact (elem_plugin_no_panic _ _ _ H)|].
    apply bind_panic in H as [H|(r & _ & H)]; [exact (Hnp _ _ _ (elem_plugin_in _ _ _ _ Hp) H)|].
    exact (IH _ _ _ _ _ H).
  Qed.

  Lemma set_defaults_no_panic items : forall st ek idx, set_defaults st ek items idx <> CPanic.
  Proof.
    induction items as [|it items IH]; intros st ek idx; cbn [set_defaults]; [discriminate|].
    destruct (is_nil (go_trim_space it)); [apply IH|].
    destruct (st_set st _ _); [apply IH|discriminate].
  Qed.

  Lemma inject_slice_no_panic tag prefix st : inject_slice E np tag prefix st <> CPanic.
  Proof.
    unfold inject_slice. destruct (is_nil (tag_first tag)); [discriminate|].
    intro H. apply bind_panic in H as [H|(o & _ & H)].
    - destruct (negb (st_has st _) && negb (st_has st _)); [|discriminate].
      destruct (tag_lookup tag k_default) as [d|]; [|destruct (has_suffix [63] (tag_first tag)); discriminate].
      apply bind_panic in H as [H|(r & _ & H)]; [exact (set_defaults_no_panic _ _ _ _ H)|].
      destruct (Nat.eqb (snd r) 0); discriminate.
    - destruct o as [st1|]; [|discriminate].
      destruct (st_has st1 (idx_key _ 0)).
      + apply bind_panic in H as [H|(r & _ & H)]; [exact (slice_loop_no_panic _ _ _ _ _ _ H)|discriminate].
      + destruct (st_has st1 _); [|discriminate].
        apply bind_panic in H as [H|(p & Hp & H)]; [exact (elem_plugin_no_panic _ _ _ H)|].
        apply bind_panic in H as [H|(r & _ & H)]; [exact (Hnp _ _ _ (elem_plugin_in _ _ _ _ Hp) H)|discriminate].
  Qed.

  Lemma inject_iface_no_panic tag prefix st : inject_iface E np tag prefix st <> CPanic.
  Proof.
    unfold inject_iface. destruct (is_nil (tag_first tag)); [discriminate|].
    intro H. apply bind_panic in H as [H|(o & _ & H)].
    - destruct (st_has st _).
      + destruct (st_raw st _); discriminate.
      + destruct (tag_lookup tag k_default); [discriminate|]. destruct (has_suffix [63] (tag_first tag)); discriminate.
    - destruct o as [ty|]; [|discriminate].
      apply bind_panic in H as [H|(p & Hp & H)].
      + unfold of_opt in H. destruct (find_plugin _ _ _); discriminate.
      + unfold of_opt in Hp. destruct (find_plugin _ _ _) as [q|] eqn:Ef; [|discriminate]. inversion Hp; subst.
        exact (Hnp _ _ _ (proj1 (find_plugin_in _ _ _ _ Ef)) H).
  Qed.

  Lemma inject_fields_no_panic fs : forallb fdecl_safe fs = true -> forall prefix st acc, inject_fields E np fs prefix st acc <> CPanic.
  Proof.
    induction fs as [|f fs IH]; intros Hs prefix st acc; cbn [inject_fields]; [discriminate|].
    cbn [forallb] in Hs. apply andb_true_iff in Hs as [Hf Hfs].
    destruct f as [fn tag k|fn tag|fn tag|fn tag]; [| | |discriminate]; intro H; apply bind_panic in H as [H|(x & _ & H)].
    - exact (inject_attribute_no_panic E fn tag k prefix st Hf H).
    - exact (IH Hfs _ _ _ H).
    - exact (inject_iface_no_panic _ _ _ H).
    - exact (IH Hfs _ _ _ H).
    - exact (inject_slice_no_panic _ _ _ H).
    - exact (IH Hfs _ _ _ H).
  Qed.
End NoPanic.

Lemma new_plugin_no_panic E : env_safe E = true -> forall fuel p prefix st, In p (env_plugins E) -> new_plugin fuel E p prefix st <> CPanic.
Proof.
  intro Hs. induction fuel as [|f IH]; intros p prefix st Hin; cbn [new_plugin]; [discriminate|].
  intro H. apply bind_panic in H as [H|(r & _ & H)]; [|discriminate].
  unfold env_safe in Hs. rewrite forallb_forall in Hs.
  exact (inject_fields_no_panic E (new_plugin f E) IH (pl_schema p) (Hs p Hin) _ _ _ H).
Qed.

Lemma create_all_no_panic E pt sec : env_safe E = true -> forall names st acc, create_all E pt sec names st acc <> CPanic.
Proof.
  intro Hs. induction names as [|n names IH]; intros st acc; cbn [create_all]; [discriminate|].
  intro H. apply bind_panic in H as [H|(x & _ & H)]; [|exact (IH _ _ H)].
  unfold top_plugin in H. destruct (negb (st_has st _)); [discriminate|].
  apply bind_panic in H as [H|(p & Hp & H)].
  - unfold of_opt in H. destruct (find_plugin _ _ _); discriminate.
  - unfold of_opt in Hp. destruct (find_plugin _ _ _) as [q|] eqn:Ef; [|discriminate]. inversion Hp; subst.
    exact (new_plugin_no_panic E Hs _ _ _ _ (proj1 (find_plugin_in _ _ _ _ Ef)) H).
Qed.

(* for every configuration map, the model of Refresh reaches none of its panic sites *)
Theorem refresh_never_panics E hs m : env_safe E = true -> refresh E hs m <> CPanic.
Proof.
  intro Hs. unfold refresh. destruct (to_storage m) as [st|]; [|discriminate].
  destruct (sub_keys1 st s_appender) as [[|a0 an]|]; try discriminate.
  destruct (sub_keys1 st s_logger) as [ln|]; [|discriminate].
  intro H. apply bind_panic in H as [H|(ra & _ & H)]; [exact (create_all_no_panic E _ _ Hs _ _ _ H)|].
  apply bind_panic in H as [H|(rl & _ & H)]; [exact (create_all_no_panic E _ _ Hs _ _ _ H)|].
  destruct (negb (forallb _ (snd rl))); [discriminate|].
  destruct (refresh_tags _ _ _); [discriminate|].
  destruct (negb (forallb _ (snd rl))); [discriminate|].
  destruct (negb (forallb _ hs)); [discriminate|].
  destruct (negb (props_ok (fst rl))); discriminate.
Qed.

Theorem new_plugin_from_map_never_panics E pt n pre m : env_safe E = true -> new_plugin_from_map E pt n pre m <> CPanic.
Proof.
  intro Hs. unfold new_plugin_from_map. destruct (to_storage m) as [st|]; [|discriminate].
  intro H. apply bind_panic in H as [H|(p & Hp & H)].
  - unfold of_opt in H. destruct (find_plugin _ _ _); discriminate.
  - unfold of_opt in Hp. destruct (find_plugin _ _ _) as [q|] eqn:Ef; [|discriminate]. inversion Hp; subst.
    apply bind_panic in H as [H|(r & _ & H)]; [|discriminate].
    exact (new_plugin_no_panic E Hs _ _ _ _ (proj1 (find_plugin_in _ _ _ _ Ef)) H).
Qed.

(* ===================== Go's map iteration order is irrelevant ===================== *)
From Coq Require Import Permutation.

Lemma pelem_eqb_sym a b : pelem_eqb a b = pelem_eqb b a.
Proof.
  destruct a as [x|x], b as [y|y]; cbn [pelem_eqb]; try reflexivity;
    (destruct (bytes_eqb x y) eqn:E1; destruct (bytes_eqb y x) eqn:E2; try reflexivity;
     [apply bytes_eqb_eq in E1; subst; rewrite bytes_eqb_refl in E2; discriminate
     |apply bytes_eqb_eq in E2; subst; rewrite bytes_eqb_refl in E1; discriminate]).
Qed.
Lemma same_type_sym a b : same_type a b = same_type b a.
Proof. destruct a, b; reflexivity. Qed.
Lemma compat_sym p : forall q, compat p q = compat q p.
Proof.
  induction p as [|a p IH]; intros [|b q]; cbn [compat]; try reflexivity.
  rewrite (pelem_eqb_sym a b). destruct (pelem_eqb b a); [apply IH|apply same_type_sym].
Qed.
Lemma pelem_eqb_refl a : pelem_eqb a a = true.
Proof. destruct a; cbn; apply bytes_eqb_refl. Qed.
Lemma compat_refl p : compat p p = true.
Proof. induction p as [|a p IH]; [reflexivity|]. cbn [compat]. rewrite pelem_eqb_refl. exact IH. Qed.

Definition mk_entry (kv : bytes * bytes) (p : list pelem) : sentry := {| e_key := fst kv; e_path := p; e_val := snd kv |}.

(* what set_all does on keys that are not yet stored and pairwise different: it appends, checking each new path against
   everything stored before *)
Lemma upsert_fresh st k p v : (forall e, In e st -> e_key e <> k) -> upsert st k p v = st ++ [{| e_key := k; e_path := p; e_val := v |}].
Proof.
  induction st as [|e st IH]; intro H; [reflexivity|]. cbn [upsert].
  destruct (bytes_eqb (e_key e) k) eqn:E; [apply bytes_eqb_eq in E; exfalso; apply (H e); [now left|assumption]|].
  cbn [app]. rewrite IH; [reflexivity|]. intros e' He'. apply H. now right.
Qed.

(* the declarative reading of a successful toStorage on pairwise distinct keys *)
Inductive stored : storage -> list (bytes * bytes) -> storage -> Prop :=
| stored_nil st : stored st [] st
| stored_cons st k v p kvs st' :
    split_path k = Some p -> (forall e, In e st -> compat p (e_path e) = true) ->
    stored (st ++ [{| e_key := k; e_path := p; e_val := v |}]) kvs st' -> stored st ((k, v) :: kvs) st'.

Lemma set_all_stored kvs : forall st st', NoDup (map fst kvs) -> (forall e, In e st -> ~ In (e_key e) (map fst kvs)) ->
  (set_all st kvs = Some st' <-> stored st kvs st').
Proof.
  induction kvs as [|[k v] kvs IH]; intros st st' Hnd Hfresh.
  - cbn [set_all]. split; intro H; [inversion H; constructor|inversion H; reflexivity].
  - inversion Hnd as [|? ? Hk Hnd']; subst. cbn [set_all]. unfold st_set.
    assert (Hup : forall p, upsert st k p v = st ++ [{| e_key := k; e_path := p; e_val := v |}]).
    { intro p. apply upsert_fresh. intros e He Heq. apply (Hfresh e He). left. symmetry. exact Heq. }
    assert (Hfresh' : forall p e, In e (st ++ [{| e_key := k; e_path := p; e_val := v |}]) -> ~ In (e_key e) (map fst kvs)).
    { intros p e He. apply in_app_or in He as [He|[He|[]]].
      - intro Hin. apply (Hfresh e He). now right.
      - subst e. cbn [e_key]. exact Hk. }
    split.
    + destruct (split_path k) as [p|] eqn:Es; [|discriminate].
      destruct (forallb (fun e => compat p (e_path e)) st) eqn:Ec; [|discriminate].
      rewrite Hup. intro H. econstructor; [exact Es| |].
      * intros e He. rewrite forallb_forall in Ec. exact (Ec e He).
      * apply (IH _ _ Hnd' (Hfresh' p)). exact H.
    + intro H. inversion H as [|? ? ? p ? ? Es Hc Hr]; subst. rewrite Es.
      replace (forallb (fun e => compat p (e_path e)) st) with true by (symmetry; apply forallb_forall; exact Hc).
      rewrite Hup. apply (IH _ _ Hnd' (Hfresh' p)). exact Hr.
Qed.

(* the order-free characterisation: from the empty storage, success means every key parses and all paths are pairwise
   compatible; the result lists the entries in order *)
Definition all_split (kvs : list (bytes * bytes)) : Prop := forall kv, In kv kvs -> split_path (fst kv) <> None.
Definition path_of (k : bytes) : list pelem := match split_path k with Some p => p | None => [] end.
Definition pairwise_compat (kvs : list (bytes * bytes)) : Prop :=
  forall a b, In a kvs -> In b kvs -> compat (path_of (fst a)) (path_of (fst b)) = true.
Definition entries_of (kvs : list (bytes * bytes)) : storage := map (fun kv => mk_entry kv (path_of (fst kv))) kvs.

Lemma stored_spec kvs : forall st st', stored st kvs st' ->
  st' = st ++ entries_of kvs /\ all_split kvs /\
  (forall a e, In a kvs -> In e st -> compat (path_of (fst a)) (e_path e) = true) /\
  ForallOrdPairs (fun a b => compat (path_of (fst b)) (path_of (fst a)) = true) kvs.
Proof.
  induction 1 as [st|st k v p kvs st' Es Hc Hr IH].
  - rewrite app_nil_r. repeat split; [intros kv []|intros a e []|constructor].
  - destruct IH as (E & Hs & Hce & Hop). repeat split.
    + rewrite E. rewrite <- app_assoc. cbn [app entries_of map mk_entry fst snd]. unfold path_of at 1. rewrite Es. reflexivity.
    + intros kv [Hkv|Hkv]; [subst kv; cbn [fst]; rewrite Es; discriminate|exact (Hs kv Hkv)].
    + intros a e [Ha|Ha] He.
      * subst a. cbn [fst]. unfold path_of. rewrite Es. exact (Hc e He).
      * apply Hce; [assumption|]. apply in_or_app. now left.
    + constructor; [|exact Hop]. apply Forall_forall. intros b Hb. cbn [fst].
      specialize (Hce b {| e_key := k; e_path := p; e_val := v |} Hb). cbn [e_path] in Hce.
      unfold path_of at 2. rewrite Es. apply Hce. apply in_or_app. right. now left.
Qed.

Lemma spec_stored kvs : forall st, all_split kvs ->
  (forall a e, In a kvs -> In e st -> compat (path_of (fst a)) (e_path e) = true) ->
  ForallOrdPairs (fun a b => compat (path_of (fst b)) (path_of (fst a)) = true) kvs ->
  stored st kvs (st ++ entries_of kvs).
Proof.
  induction kvs as [|[k v] kvs IH]; intros st Hs Hce Hop.
  - cbn. rewrite app_nil_r. constructor.
  - inversion Hop as [|? ? Hhd Htl]; subst.
    destruct (split_path k) as [p|] eqn:Es; [|exfalso; apply (Hs (k, v)); [now left|exact Es]].
    assert (Hp : path_of k = p) by (unfold path_of; rewrite Es; reflexivity).
    replace (st ++ entries_of ((k, v) :: kvs)) with ((st ++ [{| e_key := k; e_path := p; e_val := v |}]) ++ entries_of kvs)
      by (rewrite <- app_assoc; cbn [app entries_of map mk_entry fst snd]; rewrite Hp; reflexivity).
    econstructor; [exact Es| |].
    + intros e He. rewrite <- Hp. apply (Hce (k, v) e); [now left|assumption].
    + apply IH.
      * intros kv Hkv. apply Hs. now right.
      * intros a e Ha He. apply in_app_or in He as [He|[He|[]]].
        -- apply Hce; [now right|assumption].
        -- subst e. cbn [e_path]. rewrite <- Hp. rewrite Forall_forall in Hhd. exact (Hhd a Ha).
      * exact Htl.
Qed.

Theorem to_storage_spec kvs st : NoDup (map fst kvs) ->
  (set_all [] kvs = Some st <-> st = entries_of kvs /\ all_split kvs /\ pairwise_compat kvs).
Proof.
  intro Hnd. rewrite (set_all_stored kvs [] st Hnd) by (intros e []). split.
  - intro H. destruct (stored_spec _ _ _ H) as (E & Hs & _ & Hop). split; [exact E|]. split; [exact Hs|].
    intros a b Ha Hb. destruct (ForallOrdPairs_In Hop _ _ Ha Hb) as [Heq|[H1|H1]].
    + subst b. apply compat_refl.
    + rewrite compat_sym. exact H1.
    + exact H1.
  - intros (E & Hs & Hpc). subst st. change (entries_of kvs) with ([] ++ entries_of kvs). apply spec_stored; [exact Hs|intros a e _ []|].
    apply ForallPairs_ForallOrdPairs. intros a b Ha Hb. apply Hpc; assumption.
Qed.

(* hence: whichever order Go's map iteration produces, toStorage succeeds or fails alike, and on success stores the same
   entries (as a permutation) - for maps without two keys of one normalised form *)
Theorem set_all_order_irrelevant kvs1 kvs2 st1 : Permutation kvs1 kvs2 -> NoDup (map fst kvs1) ->
  set_all [] kvs1 = Some st1 -> exists st2, set_all [] kvs2 = Some st2 /\ Permutation st1 st2.
Proof.
  intros Hp Hnd H.
  assert (Hnd2 : NoDup (map fst kvs2)) by (eapply Permutation_NoDup; [apply Permutation_map; exact Hp|exact Hnd]).
  apply (to_storage_spec kvs1 st1 Hnd) in H as (E & Hs & Hpc).
  exists (entries_of kvs2). split.
  - apply (to_storage_spec kvs2 _ Hnd2). split; [reflexivity|]. split.
    + intros kv Hkv. apply Hs. eapply Permutation_in; [apply Permutation_sym; exact Hp|exact Hkv].
    + intros a b Ha Hb. apply Hpc; (eapply Permutation_in; [apply Permutation_sym; exact Hp|assumption]).
  - subst st1. apply Permutation_map. exact Hp.
Qed.

Theorem set_all_failure_order_irrelevant kvs1 kvs2 : Permutation kvs1 kvs2 -> NoDup (map fst kvs1) ->
  set_all [] kvs1 = None -> set_all [] kvs2 = None.
Proof.
  intros Hp Hnd H. destruct (set_all [] kvs2) as [st2|] eqn:E; [|reflexivity].
  assert (Hnd2 : NoDup (map fst kvs2)) by (eapply Permutation_NoDup; [apply Permutation_map; exact Hp|exact Hnd]).
  destruct (set_all_order_irrelevant kvs2 kvs1 st2 (Permutation_sym Hp) Hnd2 E) as (st1 & E1 & _). congruence.
Qed.

Lemma expand_all_perm m1 m2 : Permutation m1 m2 -> forall k1, expand_all m1 = Some k1 ->
  exists k2, expand_all m2 = Some k2 /\ Permutation k1 k2.
Proof.
  induction 1 as [|x l l' Hp IH|x y l|l l' l'' H1 IH1 H2 IH2]; intros k1 H.
  - exists k1. split; [exact H|apply Permutation_refl].
  - cbn [expand_all] in *. destruct (expand_entry x) as [a|]; [|discriminate].
    destruct (expand_all l) as [b|] eqn:Eb; [|discriminate]. inversion H; subst.
    destruct (IH b eq_refl) as (b' & Hb' & Hpb). rewrite Hb'. exists (a ++ b'). split; [reflexivity|]. apply Permutation_app_head. exact Hpb.
  - cbn [expand_all] in *. destruct (expand_entry y) as [a|]; [|discriminate].
    destruct (expand_entry x) as [b|]; [|destruct (expand_all l); discriminate].
    destruct (expand_all l) as [c|]; [|discriminate]. inversion H; subst.
    exists (b ++ a ++ c). split; [reflexivity|]. rewrite !app_assoc. apply Permutation_app_tail. apply Permutation_app_comm.
  - destruct (IH1 k1 H) as (k2 & Hk2 & Hp2). destruct (IH2 k2 Hk2) as (k3 & Hk3 & Hp3).
    exists k3. split; [exact Hk3|]. eapply Permutation_trans; eassumption.
Qed.

(* toStorage on a Go map: the iteration order does not matter (no two keys with one normalised form) *)
Theorem to_storage_order_irrelevant m1 m2 kvs1 st1 : Permutation m1 m2 ->
  expand_all m1 = Some kvs1 -> NoDup (map fst kvs1) -> to_storage m1 = Some st1 ->
  exists st2, to_storage m2 = Some st2 /\ Permutation st1 st2.
Proof.
  intros Hp He Hnd Hs. unfold to_storage in *. rewrite He in Hs.
  destruct (expand_all_perm m1 m2 Hp kvs1 He) as (kvs2 & He2 & Hpk). rewrite He2.
  exact (set_all_order_irrelevant kvs1 kvs2 st1 Hpk Hnd Hs).
Qed.

Theorem to_storage_failure_order_irrelevant m1 m2 kvs1 : Permutation m1 m2 ->
  expand_all m1 = Some kvs1 -> NoDup (map fst kvs1) -> to_storage m1 = None -> to_storage m2 = None.
Proof.
  intros Hp He Hnd Hs. unfold to_storage in *. rewrite He in Hs.
  destruct (expand_all_perm m1 m2 Hp kvs1 He) as (kvs2 & He2 & Hpk). rewrite He2.
  exact (set_all_failure_order_irrelevant kvs1 kvs2 Hpk Hnd Hs).
Qed.

(* the observers Refresh and inject use read a storage as a set of entries *)
Lemma st_has_perm s1 s2 k : Permutation s1 s2 -> st_has s1 k = st_has s2 k.
Proof.
  intro Hp. unfold st_has. destruct (split_path k) as [p|]; [|reflexivity].
  destruct (existsb (fun e => is_prefix p (e_path e)) s1) eqn:E1; symmetry.
  - apply existsb_exists in E1 as (e & He & Hpre). apply existsb_exists. exists e. split; [eapply Permutation_in; eassumption|assumption].
  - destruct (existsb (fun e => is_prefix p (e_path e)) s2) eqn:E2; [|reflexivity].
    apply existsb_exists in E2 as (e & He & Hpre). rewrite <- E1. symmetry. apply existsb_exists. exists e.
    split; [eapply Permutation_in; [apply Permutation_sym; eassumption|assumption]|assumption].
Qed.

Lemma st_raw_in s k v : st_raw s k = Some v -> exists e, In e s /\ e_key e = k /\ e_val e = v.
Proof.
  induction s as [|e s IH]; cbn [st_raw]; [discriminate|].
  destruct (bytes_eqb (e_key e) k) eqn:E.
  - intro H; inversion H; subst. exists e. apply bytes_eqb_eq in E. repeat split; [now left|assumption].
  - intro H. destruct (IH H) as (e' & He' & Hk). exists e'. split; [now right|assumption].
Qed.

Lemma st_raw_unique s : NoDup (map e_key s) -> forall e, In e s -> st_raw s (e_key e) = Some (e_val e).
Proof.
  induction s as [|e0 s IH]; intros Hnd e He; [contradiction|]. inversion Hnd as [|? ? Hn Hnd']; subst. cbn [st_raw].
  destruct He as [He|He].
  - subst e0. rewrite bytes_eqb_refl. reflexivity.
  - destruct (bytes_eqb (e_key e0) (e_key e)) eqn:E.
    + apply bytes_eqb_eq in E. exfalso. apply Hn. rewrite E. apply in_map. assumption.
    + apply IH; assumption.
Qed.

Lemma st_raw_perm s1 s2 k : Permutation s1 s2 -> NoDup (map e_key s1) -> st_raw s1 k = st_raw s2 k.
Proof.
  intros Hp Hnd.
  assert (Hnd2 : NoDup (map e_key s2)) by (eapply Permutation_NoDup; [apply Permutation_map; exact Hp|exact Hnd]).
  destruct (st_raw s1 k) as [v|] eqn:E1.
  - destruct (st_raw_in _ _ _ E1) as (e & He & Hk & Hv). subst k v. symmetry. apply st_raw_unique; [assumption|].
    eapply Permutation_in; eassumption.
  - destruct (st_raw s2 k) as [v|] eqn:E2; [|reflexivity].
    destruct (st_raw_in _ _ _ E2) as (e & He & Hk & Hv). subst k v.
    rewrite (st_raw_unique s1 Hnd e) in E1; [discriminate|]. eapply Permutation_in; [apply Permutation_sym; eassumption|assumption].
Qed.
