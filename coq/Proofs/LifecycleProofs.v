From LogV Require Import Base.Bytes Model.Lifecycle.
Open Scope nat_scope.

(* a bound tag / handle always points at the running configuration; without a live configuration nothing is bound *)
Definition linv (s : lstate) : Prop :=
  (l_init s = true <-> l_running s <> None) /\ l_tag s = l_running s /\ l_handle s = l_running s.

Lemma linv_start : linv l_start.
Proof. unfold linv, l_start; cbn. repeat split; try discriminate; try tauto. Qed.

Lemma linv_step s o : linv s -> linv (fst (lstep s o)).
Proof.
  destruct s as [i t h r]. unfold linv. cbn [l_init l_tag l_handle l_running]. intros [Hi [Ht Hh]]. subst t h.
  destruct o as [c| | | |hi| | | | ]; cbn [lstep l_init]; destruct i; cbn [fst l_init l_tag l_handle l_running];
    repeat split; try reflexivity; try discriminate; try (apply Hi); try tauto; try (intros _; discriminate); try (intro H; exfalso; now apply H).
Qed.

Theorem linv_reachable ops : linv (fst (lrun l_start ops)).
Proof.
  assert (H : forall s, linv s -> linv (fst (lrun s ops))).
  { induction ops as [|o r IH]; intros s Hs; [exact Hs|]. cbn [lrun].
    destruct (lstep s o) as [s1 x] eqn:E. pose proof (linv_step s o Hs) as H1. rewrite E in H1. cbn [fst] in H1.
    specialize (IH s1 H1). destruct (lrun s1 r) as [s2 xs]. exact IH. }
  apply H, linv_start.
Qed.

(* logging in any reachable state goes to the live configuration's sink (unless that configuration's level range drops it)
   or to the console - and to the console, whatever the level, exactly when no configuration is live *)
Theorem log_goes_somewhere ops hi :
  let s := fst (lrun l_start ops) in
  snd (lstep s (OLog hi)) = match l_running s with Some c => if accepts c hi then ToConfig c else Filtered | None => ToConsole end /\
  snd (lstep s OWrite) = match l_running s with Some c => ToConfig c | None => ToConsole end /\
  (l_init s = false -> snd (lstep s (OLog hi)) = ToConsole /\ snd (lstep s OWrite) = ToConsole).
Proof.
  intros s. destruct (linv_reachable ops) as [Hi [Ht Hh]]. fold s in Hi, Ht, Hh.
  cbn [lstep snd]. rewrite Ht, Hh. split; [reflexivity|]. split; [reflexivity|].
  intro Hf. destruct (l_running s) eqn:E; [|split; reflexivity].
  exfalso. assert (l_init s = true) by (apply Hi; discriminate). congruence.
Qed.

Theorem second_refresh_rejected ops c : let s := fst (lrun l_start ops) in
  l_init s = true -> lstep s (ORefresh c) = (s, RefreshErr).
Proof. intros s H. cbn [lstep]. now rewrite H. Qed.

Theorem destroy_idempotent s : fst (lstep (fst (lstep s ODestroy)) ODestroy) = fst (lstep s ODestroy).
Proof. cbn [lstep]. destruct (l_init s) eqn:E; cbn; [reflexivity|now rewrite E]. Qed.

Theorem registration_guard ops o : o = ORegisterTag \/ o = OGetLogger ->
  let s := fst (lrun l_start ops) in
  snd (lstep s o) = (if l_init s then Refused else Registered) /\
  snd (lstep (fst (lstep s ODestroy)) o) = Registered.
Proof.
  intros Ho s. destruct Ho as [-> | ->]; cbn [lstep snd]; (split; [reflexivity|]); destruct (l_init s) eqn:E; cbn; rewrite ?E; reflexivity.
Qed.

Theorem destroy_then_refresh_routes s c :
  let s1 := fst (lstep s ODestroy) in
  lstep s1 (ORefresh c) = ({| l_init := true; l_tag := Some c; l_handle := Some c; l_running := Some c |}, RefreshOk) /\
  snd (lstep (fst (lstep s1 (ORefresh c))) (OLog true)) = ToConfig c /\ snd (lstep (fst (lstep s1 (ORefresh c))) OWrite) = ToConfig c.
Proof. cbn [lstep]. destruct (l_init s) eqn:E; cbn; rewrite ?E; cbn; destruct c; auto. Qed.

Theorem failed_refresh_leaves_no_configuration ops o : o = ORefreshEarly \/ o = ORefreshLate ->
  let s := fst (lrun l_start ops) in
  snd (lstep s o) = RefreshErr /\ (l_init s = false -> fst (lstep s o) = s) /\ (l_init s = true -> fst (lstep s o) = s).
Proof.
  intros Ho s. destruct (linv_reachable ops) as [Hi [Ht Hh]]. fold s in Hi, Ht, Hh.
  destruct Ho as [-> | ->]; cbn [lstep]; [auto|]. destruct (l_init s) eqn:E; cbn [fst snd]; repeat split; try congruence.
  intros _. destruct (l_running s) eqn:Er; [exfalso; assert (Hx : false = true) by (apply Hi; discriminate); discriminate|].
  destruct s; cbn in *; congruence.
Qed.
