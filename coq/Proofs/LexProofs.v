(* C17 - the reference lexer is insensitive to the whitespace layout: re-lexing the token texts, each followed by one
   space, returns the same tokens. The heart is that a token recognised at the head of an input is recognised again when
   the input is cut right after it (maximal munch never needs what follows the token, except to stop). *)
From Coq Require Import Lia List Bool Arith.
From LogV Require Import Base.Bytes Model.Expr.
Import ListNotations.
Open Scope nat_scope.

Notation sp := 32%N.

Section TW.
  Variable p : N -> bool.
  Hypothesis Hsp : p sp = false.

  Lemma tw_len_cut n : forall s r, length (take_while p (firstn n s ++ sp :: r)) = Nat.min n (length (take_while p s)).
  Proof.
    induction n as [|n IH]; intros s r.
    - cbn. rewrite Hsp. reflexivity.
    - destruct s as [|c s]; [cbn; rewrite Hsp; reflexivity|]. cbn [firstn app take_while].
      destruct (p c); [cbn [length]; rewrite IH; reflexivity|reflexivity].
  Qed.

  Lemma tw_cut_eq n : forall s r, length (take_while p s) <= n -> take_while p (firstn n s ++ sp :: r) = take_while p s.
  Proof.
    induction n as [|n IH]; intros s r H.
    - destruct s as [|c s]; [cbn; rewrite Hsp; reflexivity|]. cbn [take_while] in *. destruct (p c); [cbn in H; lia|cbn; rewrite Hsp; reflexivity].
    - destruct s as [|c s]; [cbn; rewrite Hsp; reflexivity|]. cbn [firstn app take_while] in *.
      destruct (p c); [cbn [length] in H; rewrite IH by lia; reflexivity|reflexivity].
  Qed.

  Lemma dw_cut n : forall s r, length (take_while p s) <= n ->
    drop_while p (firstn n s ++ sp :: r) = firstn (n - length (take_while p s)) (drop_while p s) ++ sp :: r.
  Proof.
    induction n as [|n IH]; intros s r H.
    - destruct s as [|c s]; [cbn; rewrite Hsp; reflexivity|]. cbn [take_while drop_while] in *. destruct (p c); [cbn in H; lia|cbn; rewrite Hsp; reflexivity].
    - destruct s as [|c s]; [cbn; rewrite Hsp; reflexivity|]. cbn [firstn app take_while drop_while] in *.
      destruct (p c) eqn:Ec.
      + cbn [length] in *. rewrite IH by lia. reflexivity.
      + cbn [length]. rewrite Nat.sub_0_r. cbn [firstn app]. reflexivity.
  Qed.

  Lemma tw_all : forall s, forallb p (take_while p s) = true.
  Proof. induction s as [|c s IH]; [reflexivity|]. cbn. destruct (p c) eqn:E; [cbn; rewrite E; exact IH|reflexivity]. Qed.

  Lemma tw_app_stop : forall x r, forallb p x = true -> take_while p (x ++ sp :: r) = x.
  Proof. induction x as [|c x IH]; intros r H; cbn in *; [rewrite Hsp; reflexivity|]. apply andb_true_iff in H as [Hc Hx]. rewrite Hc, IH by assumption. reflexivity. Qed.
  Lemma dw_app_stop : forall x r, forallb p x = true -> drop_while p (x ++ sp :: r) = sp :: r.
  Proof. induction x as [|c x IH]; intros r H; cbn in *; [rewrite Hsp; reflexivity|]. apply andb_true_iff in H as [Hc Hx]. rewrite Hc. apply IH. assumption. Qed.

  Lemma tw_dw : forall s, take_while p s ++ drop_while p s = s.
  Proof. induction s as [|c s IH]; [reflexivity|]. cbn. destruct (p c); [cbn; rewrite IH; reflexivity|reflexivity]. Qed.
End TW.

Lemma firstn_skipn_cut {A} (m n : nat) (s : list A) x : m <= n -> m <= length s ->
  skipn m (firstn n s ++ x) = firstn (n - m) (skipn m s) ++ x.
Proof.
  revert n s. induction m as [|m IH]; intros n s Hmn Hms; [rewrite Nat.sub_0_r; reflexivity|].
  destruct n as [|n]; [lia|]. destruct s as [|c s]; [cbn in Hms; lia|]. cbn [firstn app skipn]. cbn in Hms.
  rewrite IH by lia. reflexivity.
Qed.

Lemma digit_sp : is_digit sp = false. Proof. reflexivity. Qed.
Lemma hex_sp : is_hex sp = false. Proof. reflexivity. Qed.
Lemma ident_sp : is_ident_char sp = false. Proof. reflexivity. Qed.

(* ---------- INTEGER ---------- *)
Lemma int_len_cut n s r : int_len s <= n -> int_len (firstn n s ++ sp :: r) = int_len s.
Proof.
  intro H. unfold int_len in *.
  destruct n as [|n].
  - (* nothing kept: the match at the head of s has length 0 *)
    cbn [firstn app]. change (is_sign sp) with false. cbn iota. change (take_while is_digit (sp :: r)) with (@nil N). cbn [length Nat.max].
    symmetry. lia.
  - destruct s as [|c s]; [cbn; reflexivity|]. cbn [firstn app]. cbv beta iota in H.
    assert (Ha : (if is_sign c then match length (take_while is_digit (firstn n s ++ sp :: r)) with O => O | S k => S (S k) end
                  else length (take_while is_digit (c :: firstn n s ++ sp :: r)))
               = (if is_sign c then match length (take_while is_digit s) with O => O | S k => S (S k) end
                  else length (take_while is_digit (c :: s)))).
    { destruct (is_sign c) eqn:Es.
      - rewrite (tw_len_cut is_digit digit_sp n s r).
        destruct (length (take_while is_digit s)) as [|k] eqn:Ek; [rewrite Nat.min_0_r; reflexivity|].
        assert (S k <= n) by lia. rewrite Nat.min_r by lia. reflexivity.
      - change (c :: firstn n s ++ sp :: r) with (firstn (S n) (c :: s) ++ sp :: r).
        rewrite (tw_len_cut is_digit digit_sp (S n) (c :: s) r).
        assert (length (take_while is_digit (c :: s)) <= S n) by lia. rewrite Nat.min_r by lia. reflexivity. }
    assert (Hb : match c :: firstn n s ++ sp :: r with
                 | 48%N :: 120%N :: t => match length (take_while is_hex t) with O => O | S k => S (S (S k)) end
                 | _ => O end
               = match c :: s with
                 | 48%N :: 120%N :: t => match length (take_while is_hex t) with O => O | S k => S (S (S k)) end
                 | _ => O end).
    { destruct (N.eq_dec c 48) as [->|Hc]; [|destruct c as [|pc]; try reflexivity; repeat (destruct pc as [pc|pc|]; try reflexivity); contradiction].
      destruct s as [|c2 s]; [destruct n; reflexivity|].
      destruct n as [|n].
      + (* only "0" kept: the hex alternative of s must have length 0 *)
        cbn [firstn app]. destruct (N.eq_dec c2 120) as [->|Hc2].
        * destruct (length (take_while is_hex s)) as [|k] eqn:Ek; [reflexivity|]. exfalso. lia.
        * destruct c2 as [|pc]; try reflexivity; repeat (destruct pc as [pc|pc|]; try reflexivity); contradiction.
      + cbn [firstn app]. destruct (N.eq_dec c2 120) as [->|Hc2]; [|destruct c2 as [|pc]; try reflexivity; repeat (destruct pc as [pc|pc|]; try reflexivity); contradiction].
        rewrite (tw_len_cut is_hex hex_sp n s r).
        destruct (length (take_while is_hex s)) as [|k] eqn:Ek; [rewrite Nat.min_0_r; reflexivity|].
        assert (S (S (S k)) <= S (S n)).
        { lia. }
        rewrite Nat.min_r by lia. reflexivity. }
    cbn [firstn app] in *. rewrite Ha, Hb. reflexivity.
Qed.

Lemma tw_len_le p (Hp : p sp = false) x r : length (take_while p (x ++ sp :: r)) <= length x.
Proof. induction x as [|c x IH]; cbn; [rewrite Hp; cbn; lia|]. destruct (p c); cbn; lia. Qed.

Lemma int_len_bound x r : int_len (x ++ sp :: r) <= length x.
Proof.
  unfold int_len. destruct x as [|c x]; [cbn; lia|]. cbn [app].
  apply Nat.max_lub.
  - destruct (is_sign c).
    + pose proof (tw_len_le is_digit digit_sp x r). destruct (length (take_while is_digit (x ++ sp :: r))); cbn [length]; lia.
    + change (c :: x ++ sp :: r) with ((c :: x) ++ sp :: r). apply (tw_len_le is_digit digit_sp).
  - destruct (N.eq_dec c 48) as [->|Hc]; [|destruct c as [|pc]; try (cbn; lia); repeat (destruct pc as [pc|pc|]; try (cbn; lia)); contradiction].
    destruct x as [|c2 x]; [cbn; lia|]. cbn [app].
    destruct (N.eq_dec c2 120) as [->|Hc2]; [|destruct c2 as [|pc]; try (cbn; lia); repeat (destruct pc as [pc|pc|]; try (cbn; lia)); contradiction].
    pose proof (tw_len_le is_hex hex_sp x r). destruct (length (take_while is_hex (x ++ sp :: r))); cbn [length]; lia.
Qed.

(* ---------- FLOAT ---------- *)
Definition mant_of (r : bytes) : nat :=
  let d1 := length (take_while is_digit r) in
  let r1 := drop_while is_digit r in
  match d1 with
  | O => match r1 with
         | 46%N :: t => match length (take_while is_digit t) with O => O | S n => S (S n) end
         | _ => O
         end
  | S _ => match r1 with
           | 46%N :: t => match length (take_while is_digit t) with O => d1 | S n => d1 + S (S n) end
           | _ => d1
           end
  end.
Definition fbody (r : bytes) : nat := match mant_of r with O => O | S m => S m + exp_len (skipn (S m) r) end.

Lemma float_len_unfold s :
  float_len s = match s with
                | c :: t => if is_sign c then (match fbody t with O => O | S b => S (S b) end) else fbody s
                | [] => O
                end.
Proof.
  unfold float_len, fbody, mant_of. destruct s as [|c t]; [reflexivity|].
  destruct (is_sign c).
  - destruct (length (take_while is_digit t)) as [|d] eqn:Ed.
    + destruct (drop_while is_digit t) as [|c1 t1]; [reflexivity|].
      destruct (N.eq_dec c1 46) as [->|Hc]; [|destruct c1 as [|pc]; try reflexivity; repeat (destruct pc as [pc|pc|]; try reflexivity); contradiction].
      destruct (length (take_while is_digit t1)); reflexivity.
    + destruct (drop_while is_digit t) as [|c1 t1]; [reflexivity|].
      destruct (N.eq_dec c1 46) as [->|Hc]; [|destruct c1 as [|pc]; try reflexivity; repeat (destruct pc as [pc|pc|]; try reflexivity); contradiction].
      destruct (length (take_while is_digit t1)); [reflexivity|]. rewrite Nat.add_succ_r. reflexivity.
  - destruct (length (take_while is_digit (c :: t))) as [|d] eqn:Ed.
    + destruct (drop_while is_digit (c :: t)) as [|c1 t1]; [reflexivity|].
      destruct (N.eq_dec c1 46) as [->|Hc]; [|destruct c1 as [|pc]; try reflexivity; repeat (destruct pc as [pc|pc|]; try reflexivity); contradiction].
      destruct (length (take_while is_digit t1)); reflexivity.
    + destruct (drop_while is_digit (c :: t)) as [|c1 t1]; [reflexivity|].
      destruct (N.eq_dec c1 46) as [->|Hc]; [|destruct c1 as [|pc]; try reflexivity; repeat (destruct pc as [pc|pc|]; try reflexivity); contradiction].
      destruct (length (take_while is_digit t1)); [reflexivity|]. rewrite Nat.add_succ_r. reflexivity.
Qed.

Lemma exp_len_cut m z r : exp_len z <= m -> exp_len (firstn m z ++ sp :: r) = exp_len z.
Proof.
  intro H. unfold exp_len in *. destruct m as [|m].
  - cbn [firstn app]. change (is_exp sp) with false. cbv iota. destruct z as [|e z']; [reflexivity|].
    destruct (is_exp e); [|reflexivity].
    destruct z' as [|c t]; [reflexivity|]. destruct (is_sign c); destruct (length (take_while is_digit _)); try reflexivity; lia.
  - destruct z as [|e z']; [reflexivity|]. cbn [firstn app]. destruct (is_exp e); [|reflexivity].
    destruct z' as [|c t].
    + rewrite firstn_nil. cbn [app]. change (is_sign sp) with false. cbv iota. change (take_while is_digit (sp :: r)) with (@nil N). reflexivity.
    + destruct m as [|m].
      * (* only the 'e' kept *)
        cbn [firstn app]. change (is_sign sp) with false. cbv iota. change (take_while is_digit (sp :: r)) with (@nil N). cbn [length].
        destruct (is_sign c); destruct (length (take_while is_digit _)); try reflexivity; lia.
      * cbn [firstn app]. destruct (is_sign c).
        -- rewrite (tw_len_cut is_digit digit_sp m t r). destruct (length (take_while is_digit t)) as [|k]; [rewrite Nat.min_0_r; reflexivity|].
           rewrite Nat.min_r by lia. reflexivity.
        -- change (c :: firstn m t ++ sp :: r) with (firstn (S m) (c :: t) ++ sp :: r).
           rewrite (tw_len_cut is_digit digit_sp (S m) (c :: t) r).
           destruct (length (take_while is_digit (c :: t))) as [|k]; [rewrite Nat.min_0_r; reflexivity|].
           rewrite Nat.min_r by lia. reflexivity.
Qed.

Lemma exp_len_bound x r : exp_len (x ++ sp :: r) <= length x.
Proof.
  unfold exp_len. destruct x as [|e x]; [cbn; lia|]. cbn [app]. destruct (is_exp e); [|cbn; lia].
  destruct x as [|c x].
  - cbn [app]. change (is_sign sp) with false. cbv iota. change (take_while is_digit (sp :: r)) with (@nil N). cbn. lia.
  - cbn [app]. destruct (is_sign c).
    + pose proof (tw_len_le is_digit digit_sp x r). destruct (length (take_while is_digit (x ++ sp :: r))); cbn [length]; lia.
    + change (c :: x ++ sp :: r) with ((c :: x) ++ sp :: r). pose proof (tw_len_le is_digit digit_sp (c :: x) r).
      destruct (length (take_while is_digit ((c :: x) ++ sp :: r))); cbn [length] in *; lia.
Qed.

Lemma tw_len_total p (s : bytes) : length (take_while p s) + length (drop_while p s) = length s.
Proof. rewrite <- (tw_dw p s) at 3. rewrite app_length. reflexivity. Qed.

Lemma mant_le_len r0 : mant_of r0 <= length r0.
Proof.
  unfold mant_of. pose proof (tw_len_total is_digit r0) as Ht.
  destruct (length (take_while is_digit r0)) as [|d].
  - destruct (drop_while is_digit r0) as [|c1 t1]; [lia|].
    destruct (N.eq_dec c1 46) as [->|Hc]; [|destruct c1 as [|pc]; try lia; repeat (destruct pc as [pc|pc|]; try lia); contradiction].
    pose proof (tw_len_total is_digit t1). destruct (length (take_while is_digit t1)); cbn [length] in *; lia.
  - destruct (drop_while is_digit r0) as [|c1 t1]; [lia|].
    destruct (N.eq_dec c1 46) as [->|Hc]; [|destruct c1 as [|pc]; try lia; repeat (destruct pc as [pc|pc|]; try lia); contradiction].
    pose proof (tw_len_total is_digit t1). destruct (length (take_while is_digit t1)); cbn [length] in *; lia.
Qed.

Lemma mant_cut m r0 r : mant_of r0 <= m -> mant_of (firstn m r0 ++ sp :: r) = mant_of r0.
Proof.
  intro H. unfold mant_of in *.
  rewrite (tw_len_cut is_digit digit_sp m r0 r).
  destruct (length (take_while is_digit r0)) as [|d] eqn:Ed.
  - rewrite Nat.min_0_r. rewrite (dw_cut is_digit digit_sp m r0 r) by lia. rewrite Ed, Nat.sub_0_r.
    destruct (drop_while is_digit r0) as [|c1 t1]; [destruct m; reflexivity|].
    destruct m as [|m]; [cbn [firstn app]|].
    + destruct (N.eq_dec c1 46) as [->|Hc]; [|destruct c1 as [|pc]; try reflexivity; repeat (destruct pc as [pc|pc|]; try reflexivity); contradiction].
      destruct (length (take_while is_digit t1)); [reflexivity|lia].
    + cbn [firstn app].
      destruct (N.eq_dec c1 46) as [->|Hc]; [|destruct c1 as [|pc]; try reflexivity; repeat (destruct pc as [pc|pc|]; try reflexivity); contradiction].
      rewrite (tw_len_cut is_digit digit_sp m t1 r). destruct (length (take_while is_digit t1)) as [|k]; [rewrite Nat.min_0_r; reflexivity|].
      rewrite Nat.min_r by lia. reflexivity.
  - assert (Hd : S d <= m).
    { destruct (drop_while is_digit r0) as [|c1 t1]; [lia|].
      destruct (N.eq_dec c1 46) as [->|Hc]; [|destruct c1 as [|pc]; try lia; repeat (destruct pc as [pc|pc|]; try lia); contradiction].
      destruct (length (take_while is_digit t1)); lia. }
    rewrite Nat.min_r by lia. rewrite (dw_cut is_digit digit_sp m r0 r) by lia. rewrite Ed.
    destruct (drop_while is_digit r0) as [|c1 t1]; [destruct (m - S d); reflexivity|].
    destruct (m - S d) as [|q] eqn:Eq; cbn [firstn app].
    + destruct (N.eq_dec c1 46) as [->|Hc]; [|destruct c1 as [|pc]; try reflexivity; repeat (destruct pc as [pc|pc|]; try reflexivity); contradiction].
      destruct (length (take_while is_digit t1)); [reflexivity|lia].
    + destruct (N.eq_dec c1 46) as [->|Hc]; [|destruct c1 as [|pc]; try reflexivity; repeat (destruct pc as [pc|pc|]; try reflexivity); contradiction].
      rewrite (tw_len_cut is_digit digit_sp q t1 r). destruct (length (take_while is_digit t1)) as [|k]; [rewrite Nat.min_0_r; reflexivity|].
      rewrite Nat.min_r by lia. reflexivity.
Qed.

Lemma tw_app_sp p (Hp : p sp = false) x r : take_while p (x ++ sp :: r) = take_while p x.
Proof. induction x as [|c x IH]; cbn; [rewrite Hp; reflexivity|]. destruct (p c); [rewrite IH; reflexivity|reflexivity]. Qed.
Lemma dw_app_sp p (Hp : p sp = false) x r : drop_while p (x ++ sp :: r) = drop_while p x ++ sp :: r.
Proof. induction x as [|c x IH]; cbn; [rewrite Hp; reflexivity|]. destruct (p c); [exact IH|reflexivity]. Qed.

Lemma mant_bound x r : mant_of (x ++ sp :: r) <= length x.
Proof.
  unfold mant_of. rewrite (tw_app_sp is_digit digit_sp), (dw_app_sp is_digit digit_sp).
  pose proof (tw_len_total is_digit x) as Ht.
  destruct (length (take_while is_digit x)) as [|d].
  - destruct (drop_while is_digit x) as [|c1 t1]; [cbn; lia|]. cbn [app].
    destruct (N.eq_dec c1 46) as [->|Hc]; [|destruct c1 as [|pc]; try lia; repeat (destruct pc as [pc|pc|]; try lia); contradiction].
    rewrite (tw_app_sp is_digit digit_sp). pose proof (tw_len_total is_digit t1). destruct (length (take_while is_digit t1)); cbn [length] in *; lia.
  - destruct (drop_while is_digit x) as [|c1 t1]; [cbn; lia|]. cbn [app].
    destruct (N.eq_dec c1 46) as [->|Hc]; [|destruct c1 as [|pc]; try lia; repeat (destruct pc as [pc|pc|]; try lia); contradiction].
    rewrite (tw_app_sp is_digit digit_sp). pose proof (tw_len_total is_digit t1). destruct (length (take_while is_digit t1)); cbn [length] in *; lia.
Qed.

Lemma skipn_app_le {A} n (x y : list A) : n <= length x -> skipn n (x ++ y) = skipn n x ++ y.
Proof. revert x; induction n as [|n IH]; intros x H; [reflexivity|]. destruct x; [cbn in H; lia|]. cbn in *. apply IH. lia. Qed.

Lemma fbody_cut m r0 r : fbody r0 <= m -> fbody (firstn m r0 ++ sp :: r) = fbody r0.
Proof.
  intro H. unfold fbody in *. destruct (mant_of r0) as [|k] eqn:Em.
  - rewrite mant_cut by (rewrite Em; lia). rewrite Em. reflexivity.
  - rewrite mant_cut by (rewrite Em; lia). rewrite Em.
    pose proof (mant_le_len r0) as Hl. rewrite Em in Hl.
    rewrite firstn_skipn_cut by lia. rewrite exp_len_cut by lia. reflexivity.
Qed.

Lemma fbody_bound x r : fbody (x ++ sp :: r) <= length x.
Proof.
  unfold fbody. pose proof (mant_bound x r) as Hm. destruct (mant_of (x ++ sp :: r)) as [|k]; [lia|].
  rewrite skipn_app_le by lia. pose proof (exp_len_bound (skipn (S k) x) r) as He. rewrite skipn_length in He. lia.
Qed.

Lemma float_len_cut n s r : float_len s <= n -> float_len (firstn n s ++ sp :: r) = float_len s.
Proof.
  rewrite !float_len_unfold. intro H. destruct s as [|c t].
  - rewrite firstn_nil. cbn [app]. change (is_sign sp) with false. cbv iota. 
    change (sp :: r) with ([] ++ sp :: r). pose proof (fbody_bound [] r). cbn [length] in *. lia.
  - destruct n as [|n].
    + cbn [firstn app]. change (is_sign sp) with false. cbv iota.
      change (sp :: r) with ([] ++ sp :: r). pose proof (fbody_bound [] r) as Hb. cbn [length] in Hb.
      destruct (is_sign c); [destruct (fbody t); lia|lia].
    + cbn [firstn app]. destruct (is_sign c).
      * destruct (fbody t) as [|b] eqn:Eb.
        -- rewrite fbody_cut by (rewrite Eb; lia). rewrite Eb. reflexivity.
        -- rewrite fbody_cut by (rewrite Eb; lia). rewrite Eb. reflexivity.
      * change (c :: firstn n t ++ sp :: r) with (firstn (S n) (c :: t) ++ sp :: r). apply fbody_cut. assumption.
Qed.

Lemma float_len_bound x r : float_len (x ++ sp :: r) <= length x.
Proof.
  rewrite float_len_unfold. destruct x as [|c x]; cbn [app].
  - change (is_sign sp) with false. cbv iota. change (sp :: r) with ([] ++ sp :: r). apply fbody_bound.
  - destruct (is_sign c).
    + pose proof (fbody_bound x r). destruct (fbody (x ++ sp :: r)); cbn [length]; lia.
    + change (c :: x ++ sp :: r) with ((c :: x) ++ sp :: r). apply fbody_bound.
Qed.

(* ---------- STRING ---------- *)
Lemma string_len_cut : forall k r' n y, length r' <= k -> string_len r' = Some n ->
  n <= length r' /\ string_len (firstn n r' ++ y) = Some n.
Proof.
  induction k as [|k IH]; intros r' n y Hk H.
  - destruct r'; [discriminate|cbn in Hk; lia].
  - destruct r' as [|c r1]; [discriminate|]. cbn [string_len] in H.
    destruct (c =? 34)%N eqn:E34.
    + inversion H; subst n. split; [cbn; lia|]. cbn [firstn app string_len]. rewrite E34. reflexivity.
    + destruct (c =? 92)%N eqn:E92.
      * destruct r1 as [|x r2]; [discriminate|]. destruct (is_esc_char x) eqn:Ex; [|discriminate].
        destruct (string_len r2) as [n2|] eqn:E2; [|discriminate]. cbn in H. inversion H; subst n.
        destruct (IH r2 n2 y) as [Hle Hcut]; [cbn in Hk; lia|assumption|].
        split; [cbn; lia|]. cbn [firstn app string_len]. rewrite E34, E92, Ex, Hcut. reflexivity.
      * destruct (string_len r1) as [n1|] eqn:E1; [|discriminate]. cbn in H. inversion H; subst n.
        destruct (IH r1 n1 y) as [Hle Hcut]; [cbn in Hk; lia|assumption|].
        split; [cbn; lia|]. cbn [firstn app string_len]. rewrite E34, E92, Hcut. reflexivity.
Qed.

(* ---------- one token ---------- *)
Definition tok_text (t : token) : bytes :=
  match t with
  | TLBrace => [123%N] | TRBrace => [125%N] | TComma => [44%N] | TEq => [61%N] | TDot => [46%N] | TLBrack => [91%N] | TRBrack => [93%N]
  | TIdent s | TString s | TInt s | TFloat s => s
  end.

Lemma ident_start_char c : is_ident_start c = true -> is_ident_char c = true.
Proof. unfold is_ident_start, is_ident_char. destruct (is_letter c); cbn; [reflexivity|]. intro H. rewrite H. apply orb_true_r. Qed.

Lemma firstn_app_exact {A} (x y : list A) n : length x = n -> firstn n (x ++ y) = x.
Proof. intro H. subst n. rewrite firstn_app, Nat.sub_diag, firstn_all. cbn. apply app_nil_r. Qed.
Lemma skipn_app_exact {A} (x y : list A) n : length x = n -> skipn n (x ++ y) = y.
Proof. intro H. subst n. rewrite skipn_app, Nat.sub_diag, skipn_all. reflexivity. Qed.

Lemma cut_len_exact (L : bytes -> nat) (s r : bytes) :
  (forall n s r, L s <= n -> L (firstn n s ++ sp :: r) = L s) -> (forall x r, L (x ++ sp :: r) <= length x) ->
  length (firstn (L s) s) = L s.
Proof.
  intros Hcut Hb. pose proof (Hcut (L s) s r (le_n _)) as H1. pose proof (Hb (firstn (L s) s) r) as H2.
  pose proof (firstn_le_length (L s) s). lia.
Qed.

(* a token recognised at the head of s is recognised again, alone, when the input is cut right after it *)
Theorem relex_one s t r0 r : lex_one s = Some (t, r0) -> lex_one (tok_text t ++ sp :: r) = Some (t, sp :: r).
Proof.
  unfold lex_one. destruct s as [|c s0]; [discriminate|].
  destruct (c =? 123)%N eqn:E1; [intro H; inversion H; reflexivity|].
  destruct (c =? 125)%N eqn:E2; [intro H; inversion H; reflexivity|].
  destruct (c =? 44)%N eqn:E3; [intro H; inversion H; reflexivity|].
  destruct (c =? 61)%N eqn:E4; [intro H; inversion H; reflexivity|].
  destruct (c =? 91)%N eqn:E5; [intro H; inversion H; reflexivity|].
  destruct (c =? 93)%N eqn:E6; [intro H; inversion H; reflexivity|].
  destruct (is_ident_start c) eqn:Ei.
  - (* IDENT *)
    intro H. inversion H; subst t r0. cbn [tok_text].
    assert (Hc : is_ident_char c = true) by (apply ident_start_char; assumption).
    cbn [take_while]. rewrite Hc. cbn [app]. rewrite E1, E2, E3, E4, E5, E6, Ei.
    change (c :: take_while is_ident_char s0 ++ sp :: r) with ((c :: take_while is_ident_char s0) ++ sp :: r).
    assert (Hall : forallb is_ident_char (c :: take_while is_ident_char s0) = true) by (cbn; rewrite Hc; apply tw_all).
    rewrite (tw_app_stop is_ident_char ident_sp _ r Hall), (dw_app_stop is_ident_char ident_sp _ r Hall). reflexivity.
  - destruct (c =? 34)%N eqn:E7.
    + (* STRING *)
      destruct (string_len s0) as [n|] eqn:Es; [|discriminate]. intro H. inversion H; subst t r0. cbn [tok_text app].
      rewrite E1, E2, E3, E4, E5, E6, Ei, E7.
      destruct (string_len_cut (length s0) s0 n (sp :: r) (le_n _) Es) as [Hle Hcut]. rewrite Hcut.
      assert (Hl : length (firstn n s0) = n) by (rewrite firstn_length; lia).
      rewrite (firstn_app_exact _ _ n Hl), (skipn_app_exact _ _ n Hl). reflexivity.
    + (* '.', INTEGER, FLOAT *)
      set (s := c :: s0). set (li := int_len s). set (lf := float_len s).
      destruct ((c =? 46)%N && (lf <=? 1)) eqn:Ed.
      * intro H. inversion H; subst t r0. cbn [tok_text app]. reflexivity.
      * destruct ((li =? 0) && (lf =? 0)) eqn:Ez; [discriminate|].
        destruct (lf <=? li) eqn:Ele.
        -- (* INTEGER *)
           intro H. inversion H; subst t r0. cbn [tok_text].
           apply Nat.leb_le in Ele.
           assert (Hli : li <> 0). { intro E0. rewrite E0 in *. assert (lf = 0) by lia. rewrite H0 in Ez. discriminate. }
           assert (Hlen : length (firstn li s) = li) by (apply (cut_len_exact int_len s r int_len_cut int_len_bound)).
           assert (Hx : exists x', firstn li s = c :: x').
           { unfold s in *. destruct li; [contradiction|]. cbn [firstn]. eexists; reflexivity. }
           destruct Hx as [x' Hx]. rewrite Hx. cbn [app]. rewrite E1, E2, E3, E4, E5, E6, Ei, E7.
           change (c :: x' ++ sp :: r) with ((c :: x') ++ sp :: r). rewrite <- Hx.
           rewrite (int_len_cut li s r (le_n _)). fold li.
           pose proof (float_len_bound (firstn li s) r) as Hfb. rewrite Hlen in Hfb.
           assert (Hc46 : (c =? 46)%N = false).
           { destruct (c =? 46)%N eqn:E46; [|reflexivity]. apply N.eqb_eq in E46. subst c. exfalso. apply Hli. reflexivity. }
           rewrite Hc46. cbn [andb].
           replace (li =? 0) with false by (symmetry; apply Nat.eqb_neq; assumption). cbn [andb].
           replace (float_len (firstn li s ++ sp :: r) <=? li) with true by (symmetry; apply Nat.leb_le; assumption).
           rewrite (firstn_app_exact _ _ li Hlen), (skipn_app_exact _ _ li Hlen). reflexivity.
        -- (* FLOAT *)
           intro H. inversion H; subst t r0. cbn [tok_text].
           apply Nat.leb_gt in Ele.
           assert (Hlen : length (firstn lf s) = lf) by (apply (cut_len_exact float_len s r float_len_cut float_len_bound)).
           assert (Hx : exists x', firstn lf s = c :: x').
           { unfold s in *. destruct lf; [lia|]. cbn [firstn]. eexists; reflexivity. }
           destruct Hx as [x' Hx]. rewrite Hx. cbn [app]. rewrite E1, E2, E3, E4, E5, E6, Ei, E7.
           change (c :: x' ++ sp :: r) with ((c :: x') ++ sp :: r). rewrite <- Hx.
           rewrite (float_len_cut lf s r (le_n _)). fold lf.
           rewrite (int_len_cut lf s r) by (fold li; lia). fold li.
           rewrite Ed, Ez. replace (lf <=? li) with false by (symmetry; apply Nat.leb_gt; assumption).
           rewrite (firstn_app_exact _ _ lf Hlen), (skipn_app_exact _ _ lf Hlen). reflexivity.
Qed.

(* ---------- whole inputs ---------- *)
From LogV Require Import Proofs.ExprProofs.

Definition render (ts : list token) : bytes := flat_map (fun t => tok_text t ++ [sp]) ts.
Definition lexable (t : token) : Prop := exists s r0, lex_one s = Some (t, r0).

Lemma lex_tokens_lexable : forall f s ts, lex f s = Some ts -> Forall lexable ts.
Proof.
  induction f as [|f IH]; intros s ts H; [discriminate|]. cbn [lex] in H.
  destruct (drop_while is_gws s) as [|c s'] eqn:Ed; [inversion H; constructor|].
  destruct (lex_one (c :: s')) as [[t r]|] eqn:El; [|discriminate].
  destruct (lex f r) as [ts'|] eqn:Er; [|discriminate]. cbn in H. inversion H; subst.
  constructor; [exists (c :: s'), r; exact El|eapply IH; eassumption].
Qed.

Lemma lex_one_head_nonws c s0 t r : lex_one (c :: s0) = Some (t, r) -> is_gws c = false.
Proof.
  intro H. destruct (is_gws c) eqn:E; [|reflexivity]. exfalso.
  unfold is_gws in E. repeat (apply orb_true_iff in E as [E|E]); apply N.eqb_eq in E; subst c; cbn in H; discriminate.
Qed.

Lemma lex_skip_sp f R : lex f (sp :: R) = lex f R.
Proof. destruct f; [reflexivity|]. cbn [lex drop_while]. change (is_gws sp) with true. cbv iota. reflexivity. Qed.

Lemma lex_render ts : Forall lexable ts -> lex (S (length (render ts))) (render ts) = Some ts.
Proof.
  induction 1 as [|t ts (s & r0 & Hl) _ IH]; [reflexivity|].
  cbn [render flat_map]. fold (render ts). rewrite <- app_assoc. cbn [app].
  pose proof (relex_one s t r0 (render ts) Hl) as Hre.
  destruct (tok_text t ++ sp :: render ts) as [|c rest] eqn:Et; [cbn in Hre; discriminate|].
  pose proof (lex_one_head_nonws _ _ _ _ Hre) as Hc.
  cbn [lex drop_while]. rewrite Hc, Hre. rewrite lex_skip_sp.
  rewrite (lex_fuel_irrelevant (length (c :: rest)) (S (length (render ts))) (render ts)).
  - rewrite IH. reflexivity.
  - rewrite <- Et. rewrite app_length. cbn [length]. lia.
  - lia.
Qed.

(* the lexer ignores the whitespace layout: whatever an input lexes to, the token texts written one after the other with
   single spaces lex to the same tokens - so only the token sequence matters to the parser *)
Theorem lex_normalise f s ts : lex f s = Some ts -> lex (S (length (render ts))) (render ts) = Some ts.
Proof. intro H. apply lex_render. eapply lex_tokens_lexable; eassumption. Qed.

(* any amount of further whitespace (spaces, tabs, line breaks) after the separating space is irrelevant too *)
Definition render_with (l : list (token * bytes)) : bytes := flat_map (fun tw => tok_text (fst tw) ++ sp :: snd tw) l.

Lemma dw_ws_app w R : forallb is_gws w = true -> drop_while is_gws (w ++ R) = drop_while is_gws R.
Proof. induction w as [|c w IH]; intro H; [reflexivity|]. cbn in *. apply andb_true_iff in H as [Hc Hw]. rewrite Hc. apply IH. assumption. Qed.

Lemma lex_skip_ws f w R : forallb is_gws w = true -> lex f (w ++ R) = lex f R.
Proof. intro H. destruct f; [reflexivity|]. cbn [lex]. rewrite dw_ws_app by assumption. reflexivity. Qed.

Theorem lex_any_layout l : Forall (fun tw => lexable (fst tw) /\ forallb is_gws (snd tw) = true) l ->
  lex (S (length (render_with l))) (render_with l) = Some (map fst l).
Proof.
  induction 1 as [|[t w] l [(s & r0 & Hl) Hw] _ IH]; [reflexivity|].
  cbn [render_with flat_map fst snd map]. fold (render_with l). rewrite <- app_assoc. cbn [app].
  pose proof (relex_one s t r0 (w ++ render_with l) Hl) as Hre.
  destruct (tok_text t ++ sp :: w ++ render_with l) as [|c rest] eqn:Et; [cbn in Hre; discriminate|].
  pose proof (lex_one_head_nonws _ _ _ _ Hre) as Hc.
  cbn [lex drop_while]. rewrite Hc, Hre. rewrite lex_skip_sp. rewrite lex_skip_ws by assumption.
  rewrite (lex_fuel_irrelevant (length (c :: rest)) (S (length (render_with l))) (render_with l)).
  - rewrite IH. reflexivity.
  - rewrite <- Et. rewrite !app_length. cbn [length]. rewrite app_length. lia.
  - lia.
Qed.
