From LogV Require Import Base.Bytes Model.Tag Proofs.BytesLemmas.
From Coq Require Import Sorting.Sorted Permutation.

(* ---------- Spec: the documented tag language ---------- *)
Definition seg_char (c : N) : bool := is_lower c || is_digit c.
Definition is_seg (s : bytes) : Prop := s <> [] /\ forallb seg_char s = true.

Definition tag_lang (s : bytes) : Prop :=
  (3 <= length s <= 36)%nat /\
  exists lead segs,
    (lead = [] \/ lead = [us]) /\ (1 <= length segs <= 4)%nat /\
    Forall is_seg segs /\ s = lead ++ join us segs.

Lemma seg_char_not_us c : seg_char c = true -> c <> us.
Proof. unfold seg_char, is_lower, is_digit, us. intros H ->. vm_compute in H. discriminate. Qed.

Lemma seg_char_tag_char c : seg_char c = true -> is_tag_char c = true.
Proof. unfold seg_char, is_tag_char. intro H. now rewrite H. Qed.

Lemma tag_char_cases c : is_tag_char c = true -> c = us \/ seg_char c = true.
Proof.
  unfold is_tag_char, seg_char. intro H. apply orb_true_iff in H as [H|H]; [now right|].
  apply N.eqb_eq in H. now left.
Qed.

Lemma seg_no_us p : is_seg p -> ~ In us p.
Proof.
  intros [_ H] Hin. rewrite forallb_forall in H. apply (seg_char_not_us us); [now apply H|reflexivity].
Qed.

Lemma trim_prefix_us_cases s :
  (exists r, s = us :: r /\ trim_prefix [us] s = r) \/
  (trim_prefix [us] s = s /\ (s = [] \/ exists c r, s = c :: r /\ c <> us)).
Proof.
  destruct s as [|c r].
  - right. split; [reflexivity|now left].
  - destruct (N.eq_dec c us) as [->|Hne].
    + left. exists r. split; reflexivity.
    + right. split.
      * unfold trim_prefix. cbn [drop_prefix].
        replace (us =? c) with false by (symmetry; apply N.eqb_neq; congruence). reflexivity.
      * right. exists c, r. split; [reflexivity|assumption].
Qed.

Lemma trim_prefix_not_us c r : c <> us -> trim_prefix [us] (c :: r) = c :: r.
Proof.
  intro H. unfold trim_prefix. cbn [drop_prefix].
  replace (us =? c) with false by (symmetry; apply N.eqb_neq; congruence). reflexivity.
Qed.

Lemma valid_tag_sound s : is_valid_tag s = true -> tag_lang s.
Proof.
  unfold is_valid_tag. intro H.
  destruct ((length s <? 3)%nat || (36 <? length s)%nat) eqn:Hlen; [discriminate|].
  apply orb_false_iff in Hlen as [Hl1 Hl2].
  apply Nat.ltb_ge in Hl1. apply Nat.ltb_ge in Hl2.
  destruct (forallb is_tag_char s) eqn:Hch; [|discriminate]. simpl in H.
  set (t := trim_prefix [us] s) in *.
  destruct ((length (split_on us t) <? 1)%nat || (4 <? length (split_on us t))%nat) eqn:Hn; [discriminate|].
  apply orb_false_iff in Hn as [Hn1 Hn2]. apply Nat.ltb_ge in Hn1. apply Nat.ltb_ge in Hn2.
  apply negb_true_iff in H.
  split; [lia|].
  assert (Hlead : exists lead, (lead = [] \/ lead = [us]) /\ s = lead ++ t).
  { destruct (trim_prefix_us_cases s) as [[r [Es Et]]|[Et _]].
    - exists [us]. split; [now right|]. unfold t. rewrite Et. assumption.
    - exists []. split; [now left|]. unfold t. now rewrite Et. }
  destruct Hlead as [lead [Hlead Es]].
  exists lead, (split_on us t). repeat split; try assumption; try lia.
  - (* every part is a segment *)
    apply Forall_forall. intros p Hp. split.
    + intro; subst p. rewrite <- not_true_iff_false in H. apply H.
      apply existsb_exists. exists []. split; [assumption|reflexivity].
    + apply forallb_forall. intros c Hc.
      assert (Hcs : In c s). { rewrite Es. apply in_or_app. right. eapply split_on_parts_in; eauto. }
      rewrite forallb_forall in Hch. specialize (Hch c Hcs).
      apply tag_char_cases in Hch as [->|Hch]; [|assumption].
      exfalso. pose proof (split_on_parts_nosep us t) as Hns. rewrite Forall_forall in Hns.
      now apply (Hns p Hp).
  - now rewrite join_split.
Qed.

Lemma valid_tag_complete s : tag_lang s -> is_valid_tag s = true.
Proof.
  intros [Hlen [lead [segs [Hlead [Hn [Hsegs Es]]]]]].
  unfold is_valid_tag.
  replace ((length s <? 3)%nat || (36 <? length s)%nat) with false
    by (symmetry; apply orb_false_iff; split; apply Nat.ltb_ge; lia).
  assert (Hne : segs <> []) by (destruct segs; [simpl in Hn; lia|discriminate]).
  assert (Hnous : Forall (fun p => ~ In us p) segs)
    by (eapply Forall_impl; [|exact Hsegs]; intros; now apply seg_no_us).
  assert (Hch : forallb is_tag_char s = true).
  { subst s. rewrite forallb_app. apply andb_true_iff. split.
    - destruct Hlead as [->| ->]; reflexivity.
    - apply forallb_join; [reflexivity|].
      eapply Forall_impl; [|exact Hsegs]. intros p [_ Hp]. apply forallb_forall. intros c Hc.
      rewrite forallb_forall in Hp. apply seg_char_tag_char. now apply Hp. }
  rewrite Hch. simpl.
  assert (Ht : trim_prefix [us] s = join us segs).
  { destruct Hlead as [->| ->]; subst s; cbn [app].
    - (* no leading underscore: first byte is a segment byte *)
      destruct segs as [|p ps]; [contradiction|].
      inversion Hsegs as [|? ? [Hpne Hpc] _]; subst.
      destruct p as [|c r]; [contradiction|].
      assert (c <> us) by (apply seg_char_not_us; simpl in Hpc; now apply andb_true_iff in Hpc as [? _]).
      destruct ps as [|q qs]; [cbn [join]|rewrite join_cons by discriminate; cbn [app]]; now apply trim_prefix_not_us.
    - unfold trim_prefix. simpl. reflexivity. }
  rewrite Ht, split_join by assumption.
  replace ((length segs <? 1)%nat || (4 <? length segs)%nat) with false
    by (symmetry; apply orb_false_iff; split; apply Nat.ltb_ge; lia).
  apply negb_true_iff. apply not_true_iff_false. intro Hex.
  apply existsb_exists in Hex as [p [Hp Hnil]]. rewrite Forall_forall in Hsegs.
  destruct (Hsegs p Hp) as [Hpne _]. destruct p; [contradiction|discriminate].
Qed.

Theorem valid_tag_iff s : is_valid_tag s = true <-> tag_lang s.
Proof. split; [apply valid_tag_sound|apply valid_tag_complete]. Qed.

(* ---------- helpers (app/biz/rpc) ---------- *)
Lemma build_tag_accepted main sub action t :
  is_seg main -> is_seg sub -> (action = [] \/ is_seg action) ->
  build_tag main sub action = Some t -> (length t <= 36)%nat -> is_valid_tag t = true.
Proof.
  intros Hm Hs Ha Hb Hlen. apply valid_tag_complete.
  unfold build_tag in Hb. destruct sub as [|s0 sr]; [destruct Hs as [Hs _]; contradiction|].
  simpl in Hb.
  assert (Hmne : (1 <= length main)%nat) by (destruct Hm as [Hm _]; destruct main; [contradiction|simpl; lia]).
  destruct action as [|a0 ar]; simpl in Hb; inversion Hb; subst t; clear Hb.
  - split; [simpl in *; rewrite app_length in *; simpl in *; lia|].
    exists [us], [main; s0 :: sr]. repeat split; simpl; try lia; auto.
  - destruct Ha as [Ha|Ha]; [discriminate|].
    split; [simpl in *; rewrite !app_length in *; simpl in *; rewrite ?app_length in *; simpl in *; lia|].
    exists [us], [main; s0 :: sr; a0 :: ar]. repeat split; simpl; try lia; auto.
Qed.

(* ---------- registry over histories ---------- *)
Fixpoint run_registry (st : registry) (ops : list bytes) : registry * list reg_out :=
  match ops with
  | [] => (st, [])
  | t :: r => let '(st1, o) := register_tag st t in
              let '(st2, os) := run_registry st1 r in (st2, o :: os)
  end.

Definition init_registry : registry := {| reg_init := false; reg_tags := [] |}.

Lemma in_insert_sorted t x l : In x (insert_sorted t l) <-> x = t \/ In x l.
Proof.
  induction l as [|y r IH]; simpl.
  - intuition.
  - destruct (bytes_eqb t y) eqn:E.
    + apply bytes_eqb_eq in E; subst. simpl. intuition.
    + destruct (bytes_ltb t y); simpl; rewrite ?IH; intuition.
Qed.

(* strict order facts for bytes_ltb *)
Lemma bytes_ltb_irrefl a : bytes_ltb a a = false.
Proof. induction a as [|x a IH]; simpl; [reflexivity|]. rewrite N.ltb_irrefl. assumption. Qed.

Lemma bytes_ltb_trans a b c : bytes_ltb a b = true -> bytes_ltb b c = true -> bytes_ltb a c = true.
Proof.
  revert b c; induction a as [|x a IH]; intros [|y b] [|z c]; simpl; try congruence.
  destruct (x <? y) eqn:Exy; destruct (y <? z) eqn:Eyz; destruct (y <? x) eqn:Eyx; destruct (z <? y) eqn:Ezy;
  destruct (x <? z) eqn:Exz; destruct (z <? x) eqn:Ezx; try congruence;
  rewrite ?N.ltb_lt, ?N.ltb_ge in *; try lia; intros; eauto.
Qed.

Lemma bytes_ltb_total a b : bytes_ltb a b = false -> bytes_eqb a b = false -> bytes_ltb b a = true.
Proof.
  revert b; induction a as [|x a IH]; intros [|y b]; simpl; try congruence.
  destruct (x <? y) eqn:Exy; [congruence|]. destruct (y <? x) eqn:Eyx; [reflexivity|].
  rewrite N.ltb_ge in *. replace (x =? y) with true by (symmetry; apply N.eqb_eq; lia). simpl. apply IH.
Qed.

Definition blt (a b : bytes) : Prop := bytes_ltb a b = true.

Lemma insert_sorted_sorted t l : StronglySorted blt l -> StronglySorted blt (insert_sorted t l).
Proof.
  induction 1 as [|y r Hs IH Hy]; simpl.
  - repeat constructor.
  - destruct (bytes_eqb t y) eqn:E; [constructor; assumption|].
    destruct (bytes_ltb t y) eqn:L.
    + constructor; [constructor; assumption|]. constructor; [exact L|].
      rewrite Forall_forall in *. intros z Hz. eapply bytes_ltb_trans; [exact L|now apply Hy].
    + constructor; [assumption|]. rewrite Forall_forall in *. intros z Hz.
      apply in_insert_sorted in Hz as [->|Hz]; [|now apply Hy].
      apply bytes_ltb_total; [assumption|]. apply bytes_eqb_neq. apply bytes_eqb_neq in E. congruence.
Qed.

Lemma sorted_nodup l : StronglySorted blt l -> NoDup l.
Proof.
  induction 1 as [|y r Hs IH Hy]; constructor; [|assumption].
  intro Hin. rewrite Forall_forall in Hy. specialize (Hy y Hin). unfold blt in Hy.
  now rewrite bytes_ltb_irrefl in Hy.
Qed.

(* the state after any history (starting uninitialised, no Refresh in between) *)
Lemma run_registry_spec ops : forall st st' outs,
  reg_init st = false -> StronglySorted blt (reg_tags st) ->
  run_registry st ops = (st', outs) ->
  reg_init st' = false /\ StronglySorted blt (reg_tags st') /\
  (forall x, In x (reg_tags st') <-> In x (reg_tags st) \/ (In x ops /\ is_valid_tag x = true)) /\
  length outs = length ops /\
  (forall i t, nth_error ops i = Some t ->
     nth_error outs i = Some (if is_valid_tag t then RegOk t else RegPanicInvalid)).
Proof.
  induction ops as [|t r IH]; intros st st' outs Hi Hs Hrun; simpl in Hrun.
  - inversion Hrun; subst. repeat split; auto; try tauto.
    + intros [H|[[] _]]; assumption.
    + intros [|i] t H; discriminate.
  - unfold register_tag in Hrun. rewrite Hi in Hrun.
    destruct (is_valid_tag t) eqn:Hv; simpl in Hrun.
    + destruct (run_registry _ r) as [st2 os] eqn:Hr. inversion Hrun; subst; clear Hrun.
      eapply IH in Hr; [|reflexivity|simpl; now apply insert_sorted_sorted].
      destruct Hr as [H1 [H2 [H3 [H4 H5]]]]. simpl in *. repeat split; auto.
      * rewrite H3. rewrite in_insert_sorted. intros [[->|H]|[H Hx]]; auto.
      * rewrite H3, in_insert_sorted. intros [H|[[<-|H] Hx]]; auto.
      * intros [|i] t' Hn; simpl in *; [inversion Hn; subst; now rewrite Hv|now apply H5].
    + destruct (run_registry st r) as [st2 os] eqn:Hr. inversion Hrun; subst; clear Hrun.
      eapply IH in Hr; [|assumption|assumption].
      destruct Hr as [H1 [H2 [H3 [H4 H5]]]]. simpl in *. repeat split; auto.
      * rewrite H3. intros [H|[H Hx]]; auto.
      * rewrite H3. intros [H|[[<-|H] Hx]]; auto. congruence.
      * intros [|i] t' Hn; simpl in *; [inversion Hn; subst; now rewrite Hv|now apply H5].
Qed.
