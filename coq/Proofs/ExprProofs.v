From LogV Require Import Base.Bytes Base.Utf8 Model.Expr Proofs.BytesLemmas.
Open Scope N_scope.

(* ================= the grammar of Expr.g4 over tokens, as inductive derivations ================= *)
(* fieldAccess tail : ('.' IDENT | '[' INTEGER ']')*   with the text it contributes *)
Inductive PathD : list token -> bytes -> Prop :=
| PD_nil : PathD [] []
| PD_dot s ts acc : PathD ts acc -> PathD (TDot :: TIdent s :: ts) (46 :: s ++ acc)
| PD_idx s ts acc : PathD ts acc -> PathD (TLBrack :: TInt s :: TRBrack :: ts) (91 :: s ++ 93 :: acc).

Inductive ValueD : list token -> evalue -> Prop :=
| VD_ident s : ValueD [TIdent s] (EVIdent s)
| VD_string s : ValueD [TString s] (EVString s)
| VD_int s : ValueD [TInt s] (EVInt s)
| VD_float s : ValueD [TFloat s] (EVFloat s)
| VD_expr ts t : ExprD ts t -> ValueD ts (EVExpr t)
(* expr : IDENT '{' innerExprList? '}' ;  innerExprList : innerExpr (',' innerExpr)* ','? *)
with ExprD : list token -> etree -> Prop :=
| ED_empty ty : ExprD [TIdent ty; TLBrace; TRBrace] (Expr ty [])
| ED_fields ty fts fs (trailing : bool) :
    FieldsD fts fs ->
    ExprD (TIdent ty :: TLBrace :: fts ++ (if trailing then [TComma; TRBrace] else [TRBrace])) (Expr ty fs)
with FieldsD : list token -> list (bytes * evalue) -> Prop :=
| FD_one ts f : FieldD ts f -> FieldsD ts [f]
| FD_cons ts f ts' fs : FieldD ts f -> FieldsD ts' fs -> FieldsD (ts ++ TComma :: ts') (f :: fs)
(* innerExpr : fieldAccess '=' value *)
with FieldD : list token -> (bytes * evalue) -> Prop :=
| FD_mk k pts ptext vts v : PathD pts ptext -> ValueD vts v -> FieldD (TIdent k :: pts ++ TEq :: vts) (k ++ ptext, v).

Scheme ValueD_ind' := Induction for ValueD Sort Prop
with ExprD_ind' := Induction for ExprD Sort Prop
with FieldsD_ind' := Induction for FieldsD Sort Prop
with FieldD_ind' := Induction for FieldD Sort Prop.
Combined Scheme grammar_ind from ValueD_ind', ExprD_ind', FieldsD_ind', FieldD_ind'.

(* ---------- the path loop ---------- *)
Lemma parse_path_spec pts ptext : PathD pts ptext -> forall fuel acc more, (length pts <= fuel)%nat ->
  parse_path fuel acc (pts ++ TEq :: more) = (acc ++ ptext, TEq :: more).
Proof.
  induction 1 as [|s ts a H IH|s ts a H IH]; intros fuel acc more Hf.
  - cbn [app]. destruct fuel; cbn [parse_path]; now rewrite app_nil_r.
  - destruct fuel as [|f]; [simpl in Hf; lia|]. cbn [app parse_path]. rewrite IH by (simpl in Hf; lia).
    rewrite <- app_assoc. reflexivity.
  - destruct fuel as [|f]; [simpl in Hf; lia|]. cbn [app parse_path]. rewrite IH by (simpl in Hf; lia).
    rewrite <- !app_assoc. cbn [app]. rewrite <- app_assoc. reflexivity.
Qed.

Definition closes (tail : list token) : Prop := tail = [TRBrace] \/ tail = [TComma; TRBrace].
Definition after_value (r : list token) : Prop := exists x r', r = x :: r' /\ (x = TRBrace \/ x = TComma).

(* ---------- the parser recognises every derivation ---------- *)
Lemma fields_head ts fs : FieldsD ts fs -> exists k r, ts = TIdent k :: r.
Proof. induction 1 as [ts f Hf|ts f ts' fs0 Hf _ _]; destruct Hf; cbn [app]; eauto. Qed.

Lemma parse_fields_unfold fuel cnt k r0 acc :
  parse_fields (S fuel) cnt (TIdent k :: r0) acc =
    let '(path, r1) := parse_path (length r0) k r0 in
    match r1 with
    | TEq :: r2 =>
        match value_of (parse_expr fuel) r2 with
        | Some (val, r3) =>
            match r3 with
            | TRBrace :: r4 => Some (rev ((path, val) :: acc), r4)
            | TComma :: TRBrace :: r4 => Some (rev ((path, val) :: acc), r4)
            | TComma :: r4 => parse_fields fuel cnt r4 ((path, val) :: acc)
            | _ => None
            end
        | None => None
        end
    | _ => None
    end.
Proof. reflexivity. Qed.

Theorem parser_complete :
  (forall ts v, ValueD ts v -> forall fuel after, (length ts < fuel)%nat -> after_value after ->
      value_of (parse_expr fuel) (ts ++ after) = Some (v, after)) /\
  (forall ts t, ExprD ts t -> forall fuel rest, (length ts < fuel)%nat -> parse_expr fuel (ts ++ rest) = Some (t, rest)) /\
  (forall ts fs, FieldsD ts fs -> forall fuel cnt tail rest acc, closes tail -> (length ts < fuel)%nat ->
      parse_fields fuel cnt (ts ++ tail ++ rest) acc = Some (rev acc ++ fs, rest)) /\
  (forall ts f, FieldD ts f -> forall fuel, (length ts <= fuel)%nat ->
      forall cnt r acc, after_value r ->
      parse_fields (S fuel) cnt (ts ++ r) acc =
        match r with
        | TRBrace :: r4 => Some (rev (f :: acc), r4)
        | TComma :: TRBrace :: r4 => Some (rev (f :: acc), r4)
        | TComma :: r4 => parse_fields fuel cnt r4 (f :: acc)
        | _ => None
        end).
Proof.
  apply grammar_ind.
  - intros s fuel after _ [x [r' [-> [-> | ->]]]]; reflexivity.
  - intros s fuel after _ [x [r' [-> [-> | ->]]]]; reflexivity.
  - intros s fuel after _ [x [r' [-> [-> | ->]]]]; reflexivity.
  - intros s fuel after _ [x [r' [-> [-> | ->]]]]; reflexivity.
  - (* nested expr as a value *)
    intros ts t He IH fuel after Hf Ha.
    assert (Hhd : exists ty r0, ts = TIdent ty :: TLBrace :: r0) by (destruct He; cbn [app]; eauto).
    destruct Hhd as [ty [r0 E]]. unfold value_of. rewrite E. cbn [app].
    change (TIdent ty :: TLBrace :: r0 ++ after) with ((TIdent ty :: TLBrace :: r0) ++ after). rewrite <- E.
    now rewrite (IH fuel after Hf).
  - (* empty expr *)
    intros ty fuel rest Hf. destruct fuel as [|f]; [simpl in Hf; lia|]. reflexivity.
  - (* expr with fields *)
    intros ty fts fs trailing Hd IH fuel rest Hf. destruct fuel as [|f]; [simpl in Hf; lia|].
    cbn [app parse_expr].
    destruct (fields_head _ _ Hd) as [k [r E]].
    specialize (IH f f (if trailing then [TComma; TRBrace] else [TRBrace]) rest []).
    rewrite <- app_assoc. rewrite E in *. cbn [app] in *. rewrite IH.
    + reflexivity.
    + destruct trailing; [now right|now left].
    + simpl in Hf. rewrite app_length in Hf. simpl in Hf. simpl. lia.
  - (* one field *)
    intros ts f Hd IH fuel cnt tail rest acc Hc Hf. destruct fuel as [|fu]; [lia|].
    destruct Hc as [-> | ->].
    + rewrite (IH fu ltac:(lia) cnt ([TRBrace] ++ rest) acc); [reflexivity|]. exists TRBrace, rest. auto.
    + rewrite (IH fu ltac:(lia) cnt ([TComma; TRBrace] ++ rest) acc); [reflexivity|]. exists TComma, (TRBrace :: rest). auto.
  - (* several fields *)
    intros ts f ts' fs Hd IH Hds IHs fuel cnt tail rest acc Hc Hf. destruct fuel as [|fu]; [lia|].
    rewrite app_length in Hf. cbn [length] in Hf.
    rewrite <- app_assoc. cbn [app].
    rewrite (IH fu ltac:(lia) cnt (TComma :: ts' ++ tail ++ rest) acc); [|exists TComma, (ts' ++ tail ++ rest); auto].
    destruct (fields_head _ _ Hds) as [k [r E]]. rewrite E. cbn [app].
    change (TIdent k :: r ++ tail ++ rest) with ((TIdent k :: r) ++ tail ++ rest). rewrite <- E.
    rewrite (IHs fu cnt tail rest (f :: acc) Hc ltac:(lia)). cbn [rev]. rewrite <- app_assoc. reflexivity.
  - (* a field *)
    intros k pts ptext vts v Hp Hv IHv fuel Hf cnt r acc Ha.
    cbn [app length] in *. rewrite app_length in Hf. cbn [length] in Hf.
    rewrite parse_fields_unfold. rewrite <- app_assoc. cbn [app].
    rewrite (parse_path_spec pts ptext Hp) by (rewrite !app_length; simpl; lia).
    rewrite (IHv fuel r ltac:(lia) Ha).
    destruct Ha as [x [r' [-> [-> | ->]]]]; [reflexivity|]. destruct r' as [|y r'']; [reflexivity|]. destruct y; reflexivity.
Qed.

Corollary parse_expr_complete ts t : ExprD ts t -> parse_expr (S (length ts)) ts = Some (t, []).
Proof.
  intro H. destruct parser_complete as [_ [He _]]. specialize (He ts t H (S (length ts)) [] ltac:(lia)).
  now rewrite app_nil_r in He.
Qed.

(* ================= the lexer always makes progress: the result does not depend on the fuel ================= *)
Lemma drop_while_length p (s : bytes) : (length (drop_while p s) <= length s)%nat.
Proof. induction s as [|c r IH]; simpl; [lia|]. destruct (p c); simpl; lia. Qed.

Lemma lex_one_progress s t r : lex_one s = Some (t, r) -> (length r < length s)%nat.
Proof.
  unfold lex_one. destruct s as [|c s']; [discriminate|].
  repeat match goal with |- context[if (?a =? ?b) then Some _ else _] => destruct (a =? b); [intro H; inversion H; subst; simpl; lia|] end.
  destruct (is_ident_start c) eqn:Ei.
  { intro H; inversion H; subst. cbn [drop_while].
    assert (is_ident_char c = true).
    { unfold is_ident_start, is_ident_char in *. apply orb_true_iff in Ei as [Ei| Ei]; rewrite Ei; [reflexivity|now rewrite orb_true_r]. }
    rewrite H0. pose proof (drop_while_length is_ident_char s'). simpl. lia. }
  destruct (c =? 34).
  { destruct (string_len s') as [n|]; [|discriminate]. intro H; inversion H; subst. rewrite skipn_length. simpl. lia. }
  set (li := int_len (c :: s')). set (lf := float_len (c :: s')).
  destruct ((c =? 46) && (lf <=? 1)%nat); [intro H; inversion H; subst; simpl; lia|].
  destruct ((li =? 0)%nat && (lf =? 0)%nat) eqn:Ez; [discriminate|].
  destruct (lf <=? li)%nat eqn:El; intro H; inversion H; subst; rewrite skipn_length; cbn [length].
  - apply Nat.leb_le in El. apply andb_false_iff in Ez as [Ez|Ez]; apply Nat.eqb_neq in Ez; lia.
  - apply Nat.leb_gt in El. lia.
Qed.

Theorem lex_fuel_irrelevant : forall f1 f2 s, (length s < f1)%nat -> (length s < f2)%nat -> lex f1 s = lex f2 s.
Proof.
  induction f1 as [|f1 IH]; intros f2 s H1 H2; [lia|]. destruct f2 as [|f2]; [lia|]. cbn [lex].
  pose proof (drop_while_length is_gws s) as Hd.
  destruct (drop_while is_gws s) as [|c s'] eqn:E; [reflexivity|].
  destruct (lex_one (c :: s')) as [[t r]|] eqn:El; [|reflexivity].
  apply lex_one_progress in El. rewrite (IH f2 r); [reflexivity| |]; simpl in *; lia.
Qed.

(* ================= the map: a later assignment to the same key wins ================= *)
Fixpoint lookup_kv (m : list (bytes * bytes)) (k : bytes) : option bytes :=
  match m with [] => None | (k', v) :: r => if bytes_eqb k' k then Some v else lookup_kv r k end.

Lemma lookup_assign m k v k' : lookup_kv (assign m k v) k' = if bytes_eqb k k' then Some v else lookup_kv m k'.
Proof.
  induction m as [|[a b] m IH]; cbn [assign lookup_kv]; [reflexivity|].
  destruct (bytes_eqb a k) eqn:E.
  - apply bytes_eqb_eq in E; subst. cbn [lookup_kv]. destruct (bytes_eqb k k'); reflexivity.
  - cbn [lookup_kv]. rewrite IH. destruct (bytes_eqb a k') eqn:E2; [|reflexivity].
    apply bytes_eqb_eq in E2; subst. destruct (bytes_eqb k k') eqn:E3; [|reflexivity].
    apply bytes_eqb_eq in E3; subst. rewrite bytes_eqb_refl in E. discriminate.
Qed.

Fixpoint last_assigned (l : list (bytes * bytes)) (k : bytes) (acc : option bytes) : option bytes :=
  match l with [] => acc | (k', v) :: r => last_assigned r k (if bytes_eqb k' k then Some v else acc) end.

Lemma fold_assign_lookup l k : forall m,
  lookup_kv (fold_left (fun m kv => assign m (fst kv) (snd kv)) l m) k = last_assigned l k (lookup_kv m k).
Proof.
  induction l as [|[a b] l IH]; intro m; cbn [fold_left last_assigned]; [reflexivity|].
  rewrite IH. cbn [fst snd]. rewrite lookup_assign. reflexivity.
Qed.

Theorem to_map_last_wins l k : lookup_kv (to_map l) k = last_assigned l k None.
Proof. unfold to_map. now rewrite fold_assign_lookup. Qed.

Lemma assign_keys_nodup m k v : NoDup (map fst m) -> NoDup (map fst (assign m k v)).
Proof.
  induction m as [|[a b] m IH]; cbn [assign map fst]; intro H; [repeat constructor; intros []|].
  inversion H as [|? ? Hn Hd]; subst. destruct (bytes_eqb a k) eqn:E.
  - apply bytes_eqb_eq in E; subst. cbn [map fst]. now constructor.
  - cbn [map fst]. constructor; [|now apply IH].
    intro Hin. apply Hn. clear -Hin E. induction m as [|[c d] m IH]; cbn [assign map fst] in *.
    + destruct Hin as [<-|[]]. now rewrite bytes_eqb_refl in E.
    + destruct (bytes_eqb c k) eqn:E2; cbn [map fst] in *.
      * apply bytes_eqb_eq in E2; subst. destruct Hin as [<-|Hin]; [now rewrite bytes_eqb_refl in E|now right].
      * destruct Hin as [<-|Hin]; [now left|right; now apply IH].
Qed.

Theorem to_map_keys_unique l : NoDup (map fst (to_map l)).
Proof.
  unfold to_map. assert (H : NoDup (map fst (@nil (bytes * bytes)))) by constructor.
  revert H. generalize (@nil (bytes * bytes)). induction l as [|[a b] l IH]; intros m H; cbn [fold_left]; [assumption|].
  apply IH. now apply assign_keys_nodup.
Qed.
