From LogV Require Import Base.Bytes Model.Level Model.Deliver Model.RawWrite Proofs.DeliverProofs Proofs.BytesLemmas.
From Coq Require Import Permutation.
Open Scope nat_scope.

(* every appender of the logger receives the raw bytes exactly once, whatever the references' levels *)
Theorem raw_reaches_every_ref refs : Permutation (map ar_id refs) (write_raw_refs refs).
Proof.
  unfold write_raw_refs, deliver_raw.
  eapply perm_trans; [|apply Permutation_map; apply sort_by_level_spec].
  rewrite map_map. cbn [ar_id set_max]. apply Permutation_refl.
Qed.

(* what was in the caller's buffer at each Write, in call order *)
Fixpoint writes_of (buf : bytes) (ops : list rop) : list bytes :=
  match ops with
  | [] => []
  | RSet c :: r => writes_of c r
  | RWrite :: r => buf :: writes_of buf r
  | RDeliver :: r => writes_of buf r
  end.

Definition snap (e : option bytes) : bytes := match e with Some b => b | None => [] end.

Lemma copy_invariant ops : forall s,
  Forall (fun e => e <> None) (r_queue s) ->
  let s' := fold_left (rstep QCopy) ops s in
  r_out s' ++ map snap (r_queue s') = r_out s ++ map snap (r_queue s) ++ writes_of (r_buf s) ops /\
  Forall (fun e => e <> None) (r_queue s') /\
  r_ret s' = r_ret s ++ map (@length N) (writes_of (r_buf s) ops).
Proof.
  induction ops as [|o ops IH]; intros s Hq; cbn [fold_left writes_of].
  - cbn. rewrite !app_nil_r. auto.
  - destruct o as [c| |].
    + specialize (IH (rstep QCopy s (RSet c)) Hq). cbn [rstep r_buf r_queue r_out r_ret] in IH. exact IH.
    + assert (Hq' : Forall (fun e => e <> None) (r_queue (rstep QCopy s RWrite))).
      { cbn [rstep r_queue]. apply Forall_app. split; [assumption|]. repeat constructor. discriminate. }
      destruct (IH _ Hq') as [H1 [H2 H3]]. cbn [rstep r_buf r_queue r_out r_ret] in *. repeat split; [|assumption|].
      * rewrite H1. rewrite map_app. cbn [map snap]. rewrite <- !app_assoc. reflexivity.
      * rewrite H3. cbn [map]. rewrite <- app_assoc. reflexivity.
    + destruct (r_queue s) as [|e rest] eqn:Eq.
      * assert (Es : rstep QCopy s RDeliver = s) by (cbn [rstep]; now rewrite Eq). rewrite Es. rewrite <- Eq in Hq. specialize (IH s Hq). rewrite Eq in IH. exact IH.
      * inversion Hq as [|? ? He Hr]; subst. destruct e as [b|]; [|contradiction].
        assert (Hq' : Forall (fun e => e <> None) (r_queue (rstep QCopy s RDeliver))) by (cbn [rstep]; rewrite Eq; exact Hr).
        destruct (IH _ Hq') as [H1 [H2 H3]]. cbn [rstep] in *. rewrite Eq in *. cbn [r_buf r_queue r_out r_ret] in *. repeat split; [|assumption|assumption].
        rewrite H1. cbn [map snap]. rewrite <- !app_assoc. reflexivity.
Qed.

Lemma drain_all_spec s : Forall (fun e => e <> None) (r_queue s) ->
  r_out (drain_all s) = r_out s ++ map snap (r_queue s) /\ r_queue (drain_all s) = [].
Proof.
  unfold drain_all. remember (r_queue s) as q eqn:Eq. revert s Eq.
  induction q as [|e q IH]; intros s Eq Hq; cbn [map fold_left].
  - rewrite app_nil_r. auto.
  - inversion Hq as [|? ? He Hr]; subst. destruct e as [b|]; [|contradiction].
    assert (E1 : r_queue (rstep QCopy s RDeliver) = q) by (cbn [rstep]; now rewrite <- Eq).
    destruct (IH (rstep QCopy s RDeliver) (eq_sym E1) Hr) as [H1 H2]. split; [|assumption].
    rewrite H1. cbn [rstep]. rewrite <- Eq. cbn [r_out map snap]. rewrite <- app_assoc. reflexivity.
Qed.

(* with the copying Write: after any history, once the queue is drained each appender has received the
   contents at call time, once each, in call order; and every call reported the full length *)
Theorem async_snapshot ops :
  r_out (drain_all (rrun QCopy ops)) = writes_of [] ops /\
  r_ret (rrun QCopy ops) = map (@length N) (writes_of [] ops).
Proof.
  destruct (copy_invariant ops r_init (Forall_nil _)) as [H1 [H2 H3]]. cbn [r_init r_out r_queue r_buf r_ret map app] in *.
  destruct (drain_all_spec _ H2) as [D1 _]. unfold rrun. rewrite D1, H1. split; [reflexivity|exact H3].
Qed.

(* the aliasing Write (the shape before fix db5a184) does not have this property *)
Theorem alias_refuted : exists ops, r_out (fold_left (rstep QAlias) [RDeliver] (rrun QAlias ops)) <> writes_of [] ops.
Proof. exists [RSet [1%N]; RWrite; RSet [2%N]]. cbn. discriminate. Qed.

Theorem bind_handles_iff handles loggers :
  (exists b, bind_handles handles loggers = Some b) <-> forall h, In h handles -> In h loggers.
Proof.
  induction handles as [|h r IH]; cbn [bind_handles].
  - split; [intros _ h []|intros _; eauto].
  - destruct (contains_bytes h loggers) eqn:E.
    + assert (Hin : In h loggers).
      { clear -E. induction loggers as [|a l IHl]; [discriminate|]. cbn in E. apply orb_true_iff in E as [E|E]; [left; symmetry; now apply bytes_eqb_eq|right; now apply IHl]. }
      split.
      * intros [b Hb]. destruct (bind_handles r loggers) eqn:Er; [|discriminate]. intros x [<-|Hx]; [assumption|]. apply IH; eauto.
      * intro H. destruct (proj2 IH (fun x Hx => H x (or_intror Hx))) as [b Hb]. rewrite Hb. eauto.
    + split; [intros [b Hb]; discriminate|]. intro H. exfalso.
      assert (Hin : In h loggers) by (apply H; now left).
      clear -E Hin. induction loggers as [|a l IHl]; [destruct Hin|]. cbn in E. apply orb_false_iff in E as [E1 E2].
      destruct Hin as [->|Hin]; [now rewrite bytes_eqb_refl in E1|now apply IHl].
Qed.
