From LogV Require Import Base.Bytes Model.Level Model.Deliver.
From Coq Require Import Sorting.Sorted Permutation.
Open Scope Z_scope.

(* ---------- Spec: effective range of a reference ---------- *)
Definition least_opt (l : list Z) : option Z :=
  match l with [] => None | x :: t => Some (fold_left Z.min t x) end.

(* explicit upper bound if there is one; else the least lower bound among the same logger's
   references that is strictly greater than its own; else MAX *)
Definition eff_max (refs : list aref) (r : aref) : Z :=
  if ar_max r =? lvl_max
  then match least_opt (filter (fun x => ar_min r <? x) (map ar_min refs)) with
       | Some m => m
       | None => lvl_max
       end
  else ar_max r.
Definition eff_range (refs : list aref) (r : aref) : lrange := (ar_min r, eff_max refs r).

Lemma fold_min_le t : forall x, fold_left Z.min t x <= x /\ (forall y, In y t -> fold_left Z.min t x <= y) /\
                                (fold_left Z.min t x = x \/ In (fold_left Z.min t x) t).
Proof.
  induction t as [|a t IH]; intro x; simpl.
  - split; [lia|]. split; [intros y []|now left].
  - destruct (IH (Z.min x a)) as [H1 [H2 H3]]. split; [|split].
    + lia.
    + intros y [<-|Hy]; [lia|now apply H2].
    + destruct H3 as [H3|H3]; [|right; now right].
      rewrite H3. destruct (Z.min_spec x a) as [[_ E]|[_ E]]; rewrite E; [now left|right; now left].
Qed.

Lemma least_opt_some l m : least_opt l = Some m <-> In m l /\ forall x, In x l -> m <= x.
Proof.
  destruct l as [|a t]; simpl.
  - split; [discriminate|intros [[] _]].
  - destruct (fold_min_le t a) as [H1 [H2 H3]]. split.
    + intro E. inversion E; subst m. split.
      * destruct H3 as [H3|H3]; [left; now rewrite H3|now right].
      * intros x [<-|Hx]; [assumption|now apply H2].
    + intros [Hin Hle]. f_equal. apply Z.le_antisymm.
      * destruct Hin as [<-|Hin]; [assumption|now apply H2].
      * apply Hle. destruct H3 as [H3|H3]; [left; now rewrite H3|now right].
Qed.

Lemma least_opt_none l : least_opt l = None <-> l = [].
Proof. destruct l; simpl; split; congruence. Qed.

Lemma least_opt_perm l l' : Permutation l l' -> least_opt l = least_opt l'.
Proof.
  intro P. destruct (least_opt l) as [m|] eqn:E.
  - symmetry. apply least_opt_some. apply least_opt_some in E as [Hin Hle]. split.
    + eapply Permutation_in; eauto.
    + intros x Hx. apply Hle. eapply Permutation_in; [apply Permutation_sym; eauto|assumption].
  - apply least_opt_none in E. subst. apply Permutation_nil in P. now subst.
Qed.

Lemma eff_max_perm refs refs' r : Permutation refs refs' -> eff_max refs r = eff_max refs' r.
Proof.
  intro P. unfold eff_max. destruct (ar_max r =? lvl_max); [|reflexivity].
  erewrite least_opt_perm; [reflexivity|].
  (* filter and map preserve permutations *)
  apply Permutation_map with (f := ar_min) in P. revert P. generalize (map ar_min refs) (map ar_min refs').
  induction 1; simpl; auto.
  - destruct (ar_min r <? x); auto.
  - destruct (ar_min r <? x); destruct (ar_min r <? y); auto. apply perm_swap.
  - eapply perm_trans; eauto.
Qed.

(* ---------- sorting ---------- *)
Definition le_min (a b : aref) : Prop := ar_min a <= ar_min b.

Lemma insert_ref_perm r l : Permutation (r :: l) (insert_ref r l).
Proof.
  induction l as [|x t IH]; simpl; [apply Permutation_refl|].
  destruct (ar_min r <? ar_min x); [apply Permutation_refl|].
  eapply perm_trans; [apply perm_swap|]. now apply perm_skip.
Qed.

Lemma sort_refs_perm l : Permutation l (sort_refs l).
Proof.
  induction l as [|r t IH]; simpl; [constructor|].
  eapply perm_trans; [apply perm_skip; exact IH|]. apply insert_ref_perm.
Qed.

Lemma insert_ref_sorted r l : StronglySorted le_min l -> StronglySorted le_min (insert_ref r l).
Proof.
  induction 1 as [|x t Hs IH Hx]; simpl; [repeat constructor|].
  destruct (ar_min r <? ar_min x) eqn:E.
  - apply Z.ltb_lt in E. constructor; [constructor; assumption|].
    constructor; [unfold le_min; lia|]. rewrite Forall_forall in *. intros y Hy. specialize (Hx y Hy). unfold le_min in *. lia.
  - apply Z.ltb_ge in E. constructor; [assumption|]. rewrite Forall_forall in *. intros y Hy.
    eapply Permutation_in in Hy; [|apply Permutation_sym, insert_ref_perm].
    destruct Hy as [<-|Hy]; [unfold le_min; lia|now apply Hx].
Qed.

Lemma sort_refs_sorted l : StronglySorted le_min (sort_refs l).
Proof. induction l; simpl; [constructor|now apply insert_ref_sorted]. Qed.

(* ---------- the chaining loop computes the effective upper bound ---------- *)
Lemma next_greater_sorted m rest : StronglySorted le_min rest ->
  next_greater m rest = least_opt (filter (fun x => m <? x) (map ar_min rest)).
Proof.
  induction 1 as [|x t Hs IH Hx]; simpl; [reflexivity|].
  destruct (m <? ar_min x) eqn:E.
  - symmetry. apply least_opt_some. split; [now left|].
    intros y [<-|Hy]; [lia|]. apply filter_In in Hy as [Hy _]. apply in_map_iff in Hy as [z [<- Hz]].
    rewrite Forall_forall in Hx. apply (Hx z Hz).
  - exact IH.
Qed.

Lemma filter_none_le m (l : list aref) : (forall x, In x l -> ar_min x <= m) ->
  filter (fun x => m <? x) (map ar_min l) = [].
Proof.
  induction l as [|a t IH]; intro H; simpl; [reflexivity|].
  replace (m <? ar_min a) with false by (symmetry; apply Z.ltb_ge; apply H; now left).
  apply IH. intros x Hx. apply H. now right.
Qed.

Lemma chain_spec_gen L : forall pre, StronglySorted le_min (pre ++ L) ->
  chain L = map (fun r => set_max r (eff_max (pre ++ L) r)) L.
Proof.
  induction L as [|r rest IH]; intros pre Hs; [reflexivity|].
  cbn [chain map]. f_equal.
  - (* head *)
    unfold eff_max. destruct (ar_max r =? lvl_max) eqn:Em.
    + assert (Hrest : StronglySorted le_min rest).
      { clear -Hs. induction pre as [|p pre IHp]; simpl in Hs; inversion Hs; subst; auto. }
      assert (Hpre : forall x, In x pre -> ar_min x <= ar_min r).
      { clear -Hs. induction pre as [|p pre IHp]; simpl in *; [intros ? []|].
        inversion Hs as [|? ? Hs' Hall]; subst. intros x [<-|Hx]; [|now apply IHp].
        rewrite Forall_forall in Hall. apply (Hall r). apply in_or_app. right. now left. }
      rewrite map_app, filter_app. cbn [map filter].
      rewrite (filter_none_le (ar_min r) pre Hpre). rewrite Z.ltb_irrefl. cbn [app].
      rewrite <- next_greater_sorted by assumption.
      destruct (next_greater (ar_min r) rest); [reflexivity|].
      destruct r; unfold set_max; simpl in *. apply Z.eqb_eq in Em. now subst.
    + destruct r; reflexivity.
  - (* tail *)
    specialize (IH (pre ++ [r])). rewrite <- app_assoc in IH. apply IH. exact Hs.
Qed.

Theorem sort_by_level_spec refs :
  Permutation (map (fun r => set_max r (eff_max refs r)) refs) (sort_by_level refs).
Proof.
  unfold sort_by_level. rewrite (chain_spec_gen (sort_refs refs) []) by apply sort_refs_sorted.
  cbn [app].
  eapply perm_trans.
  - apply Permutation_map. apply sort_refs_perm.
  - erewrite map_ext; [apply Permutation_refl|]. intro r. cbn beta. f_equal. apply eff_max_perm. apply sort_refs_perm.
Qed.

(* ---------- delivery ---------- *)
Definition deliveries_of (f : aref -> list (N * bool)) (l : list aref) := flat_map f l.

Definition dec : forall x y : N * bool, {x = y} + {x <> y}.
Proof. decide equality; [apply Bool.bool_dec|apply N.eq_dec]. Qed.

Lemma count_flat_map_perm (f : aref -> list (N * bool)) l l' x :
  Permutation l l' ->
  count_occ dec (flat_map f l) x = count_occ dec (flat_map f l') x.
Proof.
  induction 1; simpl; auto; rewrite ?count_occ_app; try lia.
Qed.

Definition b2n (b : bool) : nat := if b then 1%nat else 0%nat.

Lemma count_single_ref (f : aref -> bool) (tag : bool) refs (r : aref) :
  NoDup (map ar_id refs) -> In r refs ->
  count_occ dec (flat_map (fun x => if f x then [(ar_id x, tag)] else []) refs) (ar_id r, tag) = b2n (f r).
Proof.
  induction refs as [|a t IH]; intros Hnd Hin; [destruct Hin|].
  simpl in Hnd. inversion Hnd as [|? ? Hna Hnd']; subst. cbn [flat_map]. rewrite count_occ_app.
  destruct Hin as [->|Hin].
  - assert (Hz : count_occ dec (flat_map (fun x => if f x then [(ar_id x, tag)] else []) t) (ar_id r, tag) = 0%nat).
    { apply count_occ_not_In. intro Hx. apply in_flat_map in Hx as [y [Hy Hx]].
      destruct (f y); [|destruct Hx]. destruct Hx as [E|[]]. inversion E. apply Hna. rewrite <- H0. now apply in_map. }
    rewrite Hz. destruct (f r); cbn [b2n]; [|reflexivity]. rewrite count_occ_cons_eq by reflexivity. reflexivity.
  - rewrite (IH Hnd' Hin).
    assert (ar_id a <> ar_id r) by (intro E; apply Hna; rewrite E; now apply in_map).
    destruct (f a); [|reflexivity]. rewrite count_occ_cons_neq by (intro E; inversion E; congruence). reflexivity.
Qed.

Lemma send_as_filter refs l :
  send_to_appenders refs l = flat_map (fun x => if enable (ar_range x) l then [(ar_id x, false)] else []) refs.
Proof. unfold send_to_appenders. apply flat_map_ext. intro a. destruct (enable (ar_range a) l); reflexivity. Qed.

(* Main theorem for Logger / AsyncLogger built by Refresh *)
Theorem deliver_refs_spec refs lr has_layout l r :
  NoDup (map ar_id refs) -> In r refs ->
  count_occ dec (deliver_refs refs lr has_layout l) (ar_id r, has_layout) =
    b2n (enable lr l && enable (eff_range refs r) l) /\
  count_occ dec (deliver_refs refs lr has_layout l) (ar_id r, negb has_layout) = 0%nat.
Proof.
  intros Hnd Hin. unfold deliver_refs, logger_append.
  destruct (enable lr l); cbn [andb]; [|split; reflexivity].
  set (upd := fun x => set_max x (eff_max refs x)).
  assert (P : Permutation (map upd refs) (sort_by_level refs)) by apply sort_by_level_spec.
  assert (Hnd' : NoDup (map ar_id (map upd refs))) by (rewrite map_map; exact Hnd).
  assert (Hin' : In (upd r) (map upd refs)) by now apply in_map.
  split.
  - destruct has_layout.
    + unfold write_to_appenders. rewrite <- (count_flat_map_perm _ _ _ _ P).
      change (ar_id r) with (ar_id (upd r)). rewrite (count_single_ref (fun x => enable (ar_range x) l) true _ (upd r) Hnd' Hin'). reflexivity.
    + rewrite send_as_filter. rewrite <- (count_flat_map_perm _ _ _ _ P).
      change (ar_id r) with (ar_id (upd r)). rewrite (count_single_ref (fun x => enable (ar_range x) l) false _ (upd r) Hnd' Hin'). reflexivity.
  - apply count_occ_not_In. intro Hx. destruct has_layout; cbn [negb] in Hx.
    + unfold write_to_appenders in Hx. apply in_flat_map in Hx as [y [_ Hy]]. destruct (enable _ _); [destruct Hy as [E|[]]; discriminate|destruct Hy].
    + rewrite send_as_filter in Hx. apply in_flat_map in Hx as [y [_ Hy]]. destruct (enable _ _); [destruct Hy as [E|[]]; discriminate|destruct Hy].
Qed.

(* nothing reaches an appender that is not referenced *)
Theorem deliver_refs_only_refs refs lr has_layout l id tag :
  In (id, tag) (deliver_refs refs lr has_layout l) -> exists r, In r refs /\ ar_id r = id.
Proof.
  unfold deliver_refs, logger_append. destruct (enable lr l); [|intros []].
  intro H. assert (Hy : exists y, In y (sort_by_level refs) /\ ar_id y = id).
  { destruct has_layout; [unfold write_to_appenders in H|rewrite send_as_filter in H];
    apply in_flat_map in H as [y [Hy H]]; destruct (enable _ _); try destruct H as [E|[]]; try destruct H;
    inversion E; eauto. }
  destruct Hy as [y [Hy E]]. eapply Permutation_in in Hy; [|apply Permutation_sym, sort_by_level_spec].
  apply in_map_iff in Hy as [x [Ex Hx]]. exists x. split; [assumption|]. subst y. exact E.
Qed.

(* declaration order (and hence the tie order of Go's unstable sort) is irrelevant *)
Theorem deliver_refs_order_irrelevant refs refs' lr has_layout l x :
  Permutation refs refs' ->
  count_occ dec (deliver_refs refs lr has_layout l) x = count_occ dec (deliver_refs refs' lr has_layout l) x.
Proof.
  intro P. unfold deliver_refs, logger_append. destruct (enable lr l); [|reflexivity].
  assert (Q : Permutation (sort_by_level refs) (sort_by_level refs')).
  { eapply perm_trans; [apply Permutation_sym, sort_by_level_spec|].
    eapply perm_trans; [|apply sort_by_level_spec].
    eapply perm_trans; [apply Permutation_map; exact P|].
    erewrite map_ext; [apply Permutation_refl|]. intro a. cbn beta. f_equal. now apply eff_max_perm. }
  destruct has_layout; [unfold write_to_appenders|rewrite !send_as_filter]; now apply count_flat_map_perm.
Qed.

(* ---------- rolling-file logger ---------- *)
(* file 0 = "<name>" serves [min, WARN) (or [min, MAX) when not separate), file 1 = "<name>.wf" serves
   [WARN, max); the inner logger's own range is the configured one *)
Theorem deliver_rolling_spec lr separate has_layout l :
  deliver_rolling lr separate has_layout l =
    if enable lr l
    then (if separate
          then (if l <? lvl_warn then [(0%N, has_layout)] else [(1%N, has_layout)])
          else (if l <? lvl_max then [(0%N, has_layout)] else []))
    else [].
Proof.
  unfold deliver_rolling, logger_append, rolling_refs. destruct lr as [mn mx].
  destruct (enable (mn, mx) l) eqn:E; [|reflexivity].
  unfold enable in E. cbn [fst snd] in E. apply andb_true_iff in E as [E1 E2].
  destruct separate; destruct has_layout;
    unfold write_to_appenders, send_to_appenders, enable, ar_range; cbn [flat_map ar_min ar_max ar_id fst snd app];
    rewrite ?E1, ?E2; cbn [andb];
    try (destruct (l <? lvl_max); reflexivity);
    destruct (l <? lvl_warn) eqn:E3; destruct (lvl_warn <=? l) eqn:E4; cbn [andb app]; try reflexivity;
    try (apply Z.ltb_lt in E3; apply Z.leb_le in E4; lia); try (apply Z.ltb_ge in E3; apply Z.leb_gt in E4; lia).
Qed.

(* ---------- entry points ---------- *)
Theorem log_via_spec e lr deliver : log_via e lr deliver = if enable lr (entry_level e) then deliver (entry_level e) else [].
Proof. unfold log_via. destruct (enable lr (entry_level e)); reflexivity. Qed.
