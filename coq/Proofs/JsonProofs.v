From LogV Require Import Base.Bytes Base.Utf8 Base.JsonStr Base.Json Model.Escape Proofs.BytesLemmas Proofs.EscapeProofs.
Open Scope N_scope.

(* what may follow a value in compact JSON text / at the end of a log line *)
Definition delim (rest : bytes) : Prop :=
  match rest with [] => True | c :: _ => c = 44 \/ c = 93 \/ c = 125 \/ c = 10 end.

(* a value text starts with a significant character that is not a closing bracket *)
Definition head_ok (t : bytes) : Prop :=
  match t with c :: _ => is_ws c = false /\ c <> 93 /\ c <> 125 | [] => False end.

(* the text tok parses to j in any delimited context, with enough fuel *)
Definition tok_ok (tok : bytes) (j : json) : Prop :=
  head_ok tok /\ forall fuel rest, (S (length tok) <= fuel)%nat -> delim rest -> parse_value fuel (tok ++ rest) = Some (j, rest).

Inductive wf_json : json -> Prop :=
| wf_null : wf_json JNull
| wf_bool b : wf_json (JBool b)
| wf_num tok : tok <> [] -> forallb is_numchar tok = true -> valid_number tok = true -> wf_json (JNum tok)
| wf_str s : wf_json (JStr s)
| wf_arr l : Forall wf_json l -> wf_json (JArr l)
| wf_obj l : Forall (fun kv => wf_json (snd kv)) l -> wf_json (JObj l)
| wf_raw tok j : tok_ok tok j -> wf_json (JRaw tok j).

(* ---------- small facts ---------- *)
Lemma skip_ws_head c r : is_ws c = false -> skip_ws (c :: r) = c :: r.
Proof. intro H. cbn [skip_ws]. now rewrite H. Qed.

Lemma delim_not_numchar rest : delim rest -> match rest with [] => True | c :: _ => is_numchar c = false end.
Proof. destruct rest as [|c r]; [trivial|]. intros [->|[->|[->| ->]]]; reflexivity. Qed.

Lemma delim_not_ws c r : delim (c :: r) -> is_ws c = false \/ c = 10.
Proof. intros [->|[->|[->| ->]]]; auto. Qed.

Lemma span_app (p : N -> bool) a rest :
  forallb p a = true -> match rest with [] => True | c :: _ => p c = false end -> span p (a ++ rest) = (a, rest).
Proof.
  induction a as [|x a IH]; intros Ha Hr; cbn [app].
  - destruct rest as [|c r]; [reflexivity|]. cbn [span]. now rewrite Hr.
  - cbn [forallb] in Ha. apply andb_true_iff in Ha as [Hx Ha]. cbn [span]. rewrite Hx, IH by assumption. reflexivity.
Qed.

(* ---------- strings ---------- *)
Lemma scan_ascii b X : b < 128 ->
  scan_string (escape_ascii b ++ X) =
    match scan_string X with Some (bd, rest) => Some (escape_ascii b ++ bd, rest) | None => None end.
Proof.
  revert b. apply lt128_cases. intros b Hin. cbn in Hin.
  repeat (destruct Hin as [<-|Hin]; [cbn; destruct (scan_string X) as [[? ?]|]; reflexivity|]). destruct Hin.
Qed.

Lemma scan_ufffd X :
  scan_string (ufffd_escape ++ X) =
    match scan_string X with Some (bd, rest) => Some (ufffd_escape ++ bd, rest) | None => None end.
Proof. cbn. destruct (scan_string X) as [[? ?]|]; reflexivity. Qed.

Lemma scan_raw b X : 128 <= b ->
  scan_string (b :: X) = match scan_string X with Some (bd, rest) => Some (b :: bd, rest) | None => None end.
Proof. intro H. cbn [scan_string]. decide_cmp. reflexivity. Qed.

Lemma scan_esc s : forall k rest, Forall (fun x => 128 <= x) (firstn k s) ->
  scan_string (esc k s ++ 34 :: rest) = Some (esc k s, rest).
Proof.
  induction s as [|b r IH]; intros k rest Hk; [destruct k; reflexivity|].
  destruct k as [|k'].
  - cbn [esc]. destruct (b <? 128) eqn:Hb.
    + apply N.ltb_lt in Hb. rewrite <- app_assoc, scan_ascii by assumption. rewrite (IH 0%nat) by constructor. reflexivity.
    + apply N.ltb_ge in Hb. rewrite decode_agree.
      destruct (wf_len (b :: r)) as [|n] eqn:Hw.
      * rewrite <- app_assoc, scan_ufffd. rewrite (IH 0%nat) by constructor. reflexivity.
      * destruct (wf_len_S _ _ _ Hw) as [Hn [Hlen Hall]].
        assert (E : scan_string ((b :: esc n r) ++ 34 :: rest) = Some (b :: esc n r, rest)).
        { cbn [app]. rewrite scan_raw by assumption. rewrite (IH n) by assumption. reflexivity. }
        destruct n as [|[|[|[|n]]]]; try lia; exact E.
  - cbn [esc app]. cbn [firstn] in Hk. inversion Hk as [|? ? Hb Hr]; subst.
    rewrite scan_raw by assumption. rewrite (IH k') by assumption. reflexivity.
Qed.

Lemma parse_string_escape s rest : parse_string (escape s ++ 34 :: rest) = Some (sanitize s, rest).
Proof.
  unfold parse_string, escape. rewrite (scan_esc s 0%nat) by constructor. fold (escape s). now rewrite escape_roundtrip.
Qed.

Lemma pv_quote f r :
  parse_value (S f) (34 :: r) = match parse_string r with Some (d, rest) => Some (JStr d, rest) | None => None end.
Proof. reflexivity. Qed.

Lemma parse_quote fuel s rest : parse_value (S fuel) (quote s ++ rest) = Some (JStr (sanitize s), rest).
Proof.
  unfold quote. cbn [app]. rewrite pv_quote. rewrite <- app_assoc. cbn [app]. now rewrite parse_string_escape.
Qed.

(* ---------- numbers and literals ---------- *)
Lemma numchar_enum c : is_numchar c = true ->
  In c [43; 45; 46; 48; 49; 50; 51; 52; 53; 54; 55; 56; 57; 69; 101].
Proof.
  unfold is_numchar, is_digit. intro H.
  repeat (apply orb_true_iff in H as [H|H]); try (apply N.eqb_eq in H; subst; cbn; tauto).
  apply andb_true_iff in H as [H1 H2]. apply N.leb_le in H1. apply N.leb_le in H2.
  assert (E : c = 48 \/ c = 49 \/ c = 50 \/ c = 51 \/ c = 52 \/ c = 53 \/ c = 54 \/ c = 55 \/ c = 56 \/ c = 57) by lia.
  repeat (destruct E as [E|E]; [subst; cbn; tauto|]). subst; cbn; tauto.
Qed.

Lemma pv_num f c r : is_numchar c = true ->
  parse_value (S f) (c :: r) =
    let '(tok, rest) := span is_numchar (c :: r) in if valid_number tok then Some (JNum tok, rest) else None.
Proof.
  intro H. apply numchar_enum in H. cbn [In] in H.
  repeat (destruct H as [<-|H]; [reflexivity|]). destruct H.
Qed.

Lemma parse_num f tok rest : tok <> [] -> forallb is_numchar tok = true -> valid_number tok = true -> delim rest ->
  parse_value (S f) (tok ++ rest) = Some (JNum tok, rest).
Proof.
  intros Hne Hall Hv Hd. destruct tok as [|c t]; [contradiction|]. cbn [app].
  assert (Hc : is_numchar c = true) by (cbn [forallb] in Hall; now apply andb_true_iff in Hall as [? _]).
  rewrite pv_num by assumption. change (c :: t ++ rest) with ((c :: t) ++ rest).
  rewrite span_app; [|assumption|now apply delim_not_numchar]. now rewrite Hv.
Qed.

Lemma pv_null f rest : parse_value (S f) (lit_null ++ rest) = Some (JNull, rest).
Proof. reflexivity. Qed.
Lemma pv_true f rest : parse_value (S f) (lit_true ++ rest) = Some (JBool true, rest).
Proof. reflexivity. Qed.
Lemma pv_false f rest : parse_value (S f) (lit_false ++ rest) = Some (JBool false, rest).
Proof. reflexivity. Qed.

(* ---------- arrays ---------- *)
Lemma pv_arr f r :
  parse_value (S f) (91 :: r) =
    match skip_ws r with
    | d :: r' => if d =? 93 then Some (JArr [], r')
                 else match parse_elems (parse_value f) (S (length r)) r [] with
                      | Some (es, rest) => Some (JArr es, rest) | None => None end
    | [] => None
    end.
Proof. reflexivity. Qed.

Lemma pv_obj f r :
  parse_value (S f) (123 :: r) =
    match skip_ws r with
    | d :: r' => if d =? 125 then Some (JObj [], r')
                 else match parse_members (parse_value f) (S (length r)) r [] with
                      | Some (ms, rest) => Some (JObj ms, rest) | None => None end
    | [] => None
    end.
Proof. reflexivity. Qed.

Lemma skip_ws_44 r : skip_ws (44 :: r) = 44 :: r. Proof. reflexivity. Qed.
Lemma skip_ws_93 r : skip_ws (93 :: r) = 93 :: r. Proof. reflexivity. Qed.
Lemma skip_ws_125 r : skip_ws (125 :: r) = 125 :: r. Proof. reflexivity. Qed.
Lemma skip_ws_58 r : skip_ws (58 :: r) = 58 :: r. Proof. reflexivity. Qed.
Lemma skip_ws_34 r : skip_ws (34 :: r) = 34 :: r. Proof. reflexivity. Qed.

Lemma parse_elems_spec (pv : bytes -> option (json * bytes)) l : forall acc fuel rest,
  (forall x, In x l -> forall rest', delim rest' -> pv (print_json x ++ rest') = Some (decode_json x, rest')) ->
  l <> [] -> (length l <= fuel)%nat ->
  parse_elems pv fuel (join 44 (map print_json l) ++ 93 :: rest) acc = Some (rev acc ++ map decode_json l, rest).
Proof.
  induction l as [|x l IH]; intros acc fuel rest Hpv Hne Hf; [contradiction|].
  destruct fuel as [|f]; [simpl in Hf; lia|]. cbn [parse_elems].
  destruct l as [|y l'].
  - cbn [map join]. rewrite Hpv; [|now left|right; now left].
    rewrite skip_ws_93. change (93 =? 44) with false. change (93 =? 93) with true. cbn iota.
    cbn [rev map]. reflexivity.
  - cbn [map]. rewrite join_cons by discriminate. rewrite <- app_assoc. cbn [app].
    rewrite Hpv; [|now left|now left].
    rewrite skip_ws_44. change (44 =? 44) with true. cbn iota.
    change (print_json y :: map print_json l') with (map print_json (y :: l')).
    rewrite IH; [|intros z Hz; apply Hpv; now right|discriminate|simpl in *; lia].
    cbn [rev map]. rewrite <- app_assoc. reflexivity.
Qed.

Definition print_member (kv : bytes * json) : bytes := quote (fst kv) ++ 58 :: print_json (snd kv).
Definition decode_member (kv : bytes * json) : bytes * json := (sanitize (fst kv), decode_json (snd kv)).

Lemma parse_members_spec (pv : bytes -> option (json * bytes)) l : forall acc fuel rest,
  (forall kv, In kv l -> forall rest', delim rest' -> pv (print_json (snd kv) ++ rest') = Some (decode_json (snd kv), rest')) ->
  l <> [] -> (length l <= fuel)%nat ->
  parse_members pv fuel (join 44 (map print_member l) ++ 125 :: rest) acc = Some (rev acc ++ map decode_member l, rest).
Proof.
  induction l as [|[k v] l IH]; intros acc fuel rest Hpv Hne Hf; [contradiction|].
  destruct fuel as [|f]; [simpl in Hf; lia|]. cbn [parse_members].
  assert (Hstep : forall tail, delim tail ->
     (skip_ws (print_member (k, v) ++ tail)) = 34 :: escape k ++ 34 :: 58 :: print_json v ++ tail).
  { intros tail _. unfold print_member, quote. cbn [fst snd app]. rewrite <- !app_assoc. reflexivity. }
  destruct l as [|y l'].
  - cbn [map join]. rewrite Hstep by (right; right; now left). change (34 =? 34) with true. cbn iota.
    rewrite parse_string_escape. rewrite skip_ws_58. change (58 =? 58) with true. cbn iota.
    rewrite (Hpv (k, v)); [|now left|right; right; now left]. cbn [snd].
    rewrite skip_ws_125. change (125 =? 44) with false. change (125 =? 125) with true. cbn iota. reflexivity.
  - cbn [map]. rewrite join_cons by discriminate. rewrite <- app_assoc. cbn [app].
    rewrite Hstep by (now left). change (34 =? 34) with true. cbn iota.
    rewrite parse_string_escape. rewrite skip_ws_58. change (58 =? 58) with true. cbn iota.
    rewrite (Hpv (k, v)); [|now left|now left]. cbn [snd].
    rewrite skip_ws_44. change (44 =? 44) with true. cbn iota.
    change (print_member y :: map print_member l') with (map print_member (y :: l')).
    rewrite IH; [|intros z Hz; apply Hpv; now right|discriminate|simpl in *; lia].
    cbn [rev map]. rewrite <- app_assoc. reflexivity.
Qed.

(* ---------- the round trip ---------- *)
Fixpoint jsize (j : json) : nat :=
  match j with
  | JArr l => S (fold_right (fun x a => (jsize x + a)%nat) O l)
  | JObj l => S (fold_right (fun kv a => (jsize (snd kv) + a)%nat) O l)
  | JRaw _ j' => S (jsize j')
  | _ => 1%nat
  end.

Lemma jsize_in_arr x l : In x l -> (jsize x < jsize (JArr l))%nat.
Proof. cbn [jsize]. induction l as [|a l IH]; [intros []|]. intros [<-|H]; cbn [fold_right]; [lia|]. specialize (IH H). lia. Qed.

Lemma jsize_in_obj kv l : In kv l -> (jsize (snd kv) < jsize (JObj l))%nat.
Proof. cbn [jsize]. induction l as [|a l IH]; [intros []|]. intros [<-|H]; cbn [fold_right]; [lia|]. specialize (IH H). lia. Qed.

Lemma length_join_ge {A} (p : A -> bytes) (l : list A) x : In x l -> (length (p x) <= length (join 44 (map p l)))%nat.
Proof.
  induction l as [|a l IH]; [intros []|]. intro H. cbn [map].
  destruct l as [|b l']; [destruct H as [<-|[]]; simpl; lia|].
  rewrite join_cons by discriminate. rewrite app_length. cbn [length].
  destruct H as [<-|H]; [lia|]. specialize (IH H). cbn [map] in *. lia.
Qed.

Lemma head_ok_app t rest : head_ok t -> exists c r, t ++ rest = c :: r /\ is_ws c = false /\ c <> 93 /\ c <> 125.
Proof. destruct t as [|c r]; [intros []|]. intros [H1 [H2 H3]]. exists c, (r ++ rest). auto. Qed.

Lemma join_len_ge {A} (p : A -> bytes) (l : list A) : (forall x, In x l -> p x <> []) ->
  (length l <= length (join 44 (map p l)) + 1)%nat.
Proof.
  induction l as [|a l IH]; intro H; [simpl; lia|].
  destruct l as [|b l']; [simpl; lia|].
  cbn [map]. rewrite join_cons by discriminate. rewrite app_length. cbn [length].
  assert (p a <> []) by (apply H; now left). destruct (p a); [contradiction|].
  specialize (IH (fun x Hx => H x (or_intror Hx))). cbn [map] in IH. simpl in *. lia.
Qed.

Theorem print_parse j : wf_json j -> tok_ok (print_json j) (decode_json j).
Proof.
  remember (jsize j) as n eqn:En. revert j En.
  induction n as [n IH] using lt_wf_ind. intros j En Hwf. subst n.
  destruct j as [|b|tok|s|l|l|tok j'].
  - split; [cbn; repeat split; discriminate|]. intros [|f] rest Hf _; [lia|]. apply pv_null.
  - split; [destruct b; cbn; repeat split; discriminate|]. intros [|f] rest Hf _; [lia|].
    destruct b; [apply pv_true|apply pv_false].
  - inversion Hwf as [| |? Hne Hall Hv| | | |]; subst. split.
    + destruct tok as [|c t]; [contradiction|]. cbn [forallb] in Hall. apply andb_true_iff in Hall as [Hc _].
      apply numchar_enum in Hc. cbn [print_json head_ok]. cbn [In] in Hc.
      repeat (destruct Hc as [<-|Hc]; [repeat split; discriminate|]). destruct Hc.
    + intros [|f] rest Hf Hd; [lia|]. now apply parse_num.
  - split; [cbn; repeat split; discriminate|]. intros [|f] rest Hf _; [lia|]. apply parse_quote.
  - (* array *)
    inversion Hwf as [| | | |? Hall| |]; subst. split; [cbn; repeat split; discriminate|].
    assert (Hch : forall x, In x l -> tok_ok (print_json x) (decode_json x)).
    { intros x Hx. apply (IH (jsize x)); [now apply jsize_in_arr|reflexivity|]. rewrite Forall_forall in Hall. now apply Hall. }
    intros [|f] rest Hf Hd; [lia|]. cbn [print_json decode_json] in *. cbn [app length] in *. rewrite pv_arr.
    destruct l as [|x l'].
    + cbn [map join app]. rewrite skip_ws_93. reflexivity.
    + set (l := x :: l') in *. rewrite <- app_assoc. cbn [app].
      destruct (Hch x (or_introl eq_refl)) as [Hh _].
      assert (Hjoin : exists c r, join 44 (map print_json l) ++ 93 :: rest = c :: r /\ is_ws c = false /\ c <> 93 /\ c <> 125).
      { unfold l. cbn [map]. destruct l' as [|y l2]; [cbn [join]; now apply head_ok_app|].
        rewrite join_cons by discriminate. rewrite <- app_assoc. now apply head_ok_app. }
      destruct Hjoin as [c [r [E [Hws [H93 _]]]]]. rewrite E. rewrite skip_ws_head by assumption.
      replace (c =? 93) with false by (symmetry; now apply N.eqb_neq). rewrite <- E.
      rewrite parse_elems_spec.
      * reflexivity.
      * intros y Hy rest' Hd'. destruct (Hch y Hy) as [_ Hp]. apply Hp; [|assumption].
        pose proof (length_join_ge print_json l y Hy). rewrite app_length in Hf. cbn [length] in Hf. lia.
      * discriminate.
      * rewrite app_length. cbn [length].
        pose proof (join_len_ge print_json l) as Hl.
        assert (forall y, In y l -> print_json y <> []).
        { intros y Hy. destruct (Hch y Hy) as [Hhy _]. destruct (print_json y); [destruct Hhy|discriminate]. }
        specialize (Hl H). lia.
  - (* object *)
    inversion Hwf as [| | | | |? Hall|]; subst. split; [cbn; repeat split; discriminate|].
    assert (Hch : forall kv, In kv l -> tok_ok (print_json (snd kv)) (decode_json (snd kv))).
    { intros kv Hx. apply (IH (jsize (snd kv))); [now apply jsize_in_obj|reflexivity|]. rewrite Forall_forall in Hall. now apply Hall. }
    intros [|f] rest Hf Hd; [lia|]. cbn [print_json decode_json] in *. cbn [app length] in *. rewrite pv_obj.
    change (map (fun kv => quote (fst kv) ++ 58 :: print_json (snd kv)) l) with (map print_member l) in *.
    change (map (fun kv => (sanitize (fst kv), decode_json (snd kv))) l) with (map decode_member l).
    destruct l as [|x l'].
    + cbn [map join app]. rewrite skip_ws_125. reflexivity.
    + set (l := x :: l') in *. rewrite <- app_assoc. cbn [app].
      assert (Hjoin : exists r, join 44 (map print_member l) ++ 125 :: rest = 34 :: r).
      { unfold l. cbn [map]. destruct l' as [|y l2]; [cbn [join]|rewrite join_cons by discriminate; rewrite <- app_assoc];
        unfold print_member at 1, quote; cbn [app]; eexists; reflexivity. }
      destruct Hjoin as [r E]. rewrite E. rewrite skip_ws_34. change (34 =? 125) with false. rewrite <- E.
      rewrite parse_members_spec.
      * reflexivity.
      * intros y Hy rest' Hd'. destruct (Hch y Hy) as [_ Hp]. apply Hp; [|assumption].
        pose proof (length_join_ge print_member l y Hy) as Hl. rewrite app_length in Hf. cbn [length] in Hf.
        unfold print_member in Hl at 1. rewrite app_length in Hl. cbn [length] in Hl. lia.
      * discriminate.
      * rewrite app_length. cbn [length].
        pose proof (join_len_ge print_member l) as Hl.
        assert (forall y, In y l -> print_member y <> []) by (intros y _; unfold print_member, quote; discriminate).
        specialize (Hl H). lia.
  - inversion Hwf as [| | | | | |? ? Hok]; subst. exact Hok.
Qed.

(* ---------- stability of the parser: an executable check establishes tok_ok ---------- *)
Definition ok_tail (rest : bytes) : Prop := match rest with [] => True | c :: _ => is_numchar c = false end.

Definition pv_le (pv pv' : bytes -> option (json * bytes)) : Prop := forall s x, pv s = Some x -> pv' s = Some x.

Lemma parse_elems_mono pv pv' : pv_le pv pv' -> forall fuel fuel' s acc x, (fuel <= fuel')%nat ->
  parse_elems pv fuel s acc = Some x -> parse_elems pv' fuel' s acc = Some x.
Proof.
  intro Hle. induction fuel as [|f IH]; intros fuel' s acc x Hf H; [discriminate|].
  destruct fuel' as [|f']; [lia|]. cbn [parse_elems] in *.
  destruct (pv s) as [[j r]|] eqn:E; [|discriminate]. rewrite (Hle _ _ E).
  destruct (skip_ws r) as [|c r']; [discriminate|].
  destruct (c =? 44); [apply (IH f'); [lia|assumption]|assumption].
Qed.

Lemma parse_members_mono pv pv' : pv_le pv pv' -> forall fuel fuel' s acc x, (fuel <= fuel')%nat ->
  parse_members pv fuel s acc = Some x -> parse_members pv' fuel' s acc = Some x.
Proof.
  intro Hle. induction fuel as [|f IH]; intros fuel' s acc x Hf H; [discriminate|].
  destruct fuel' as [|f']; [lia|]. cbn [parse_members] in *.
  destruct (skip_ws s) as [|q r0]; [discriminate|]. destruct (q =? 34); [|discriminate].
  destruct (parse_string r0) as [[k r1]|]; [|discriminate].
  destruct (skip_ws r1) as [|c r2]; [discriminate|]. destruct (c =? 58); [|discriminate].
  destruct (pv r2) as [[v r3]|] eqn:E; [|discriminate]. rewrite (Hle _ _ E).
  destruct (skip_ws r3) as [|d r4]; [discriminate|].
  destruct (d =? 44); [apply (IH f'); [lia|assumption]|assumption].
Qed.

Lemma parse_value_mono f : forall f', (f <= f')%nat -> pv_le (parse_value f) (parse_value f').
Proof.
  induction f as [|f IH]; intros f' Hf s x H; [discriminate|].
  destruct f' as [|f']; [lia|]. cbn [parse_value] in *.
  destruct (skip_ws s) as [|c r]; [discriminate|].
  assert (Hle : pv_le (parse_value f) (parse_value f')) by (apply IH; lia).
  destruct (c =? 123).
  { destruct (skip_ws r) as [|d r']; [discriminate|]. destruct (d =? 125); [assumption|].
    destruct (parse_members (parse_value f) (S (length r)) r []) as [[ms rest]|] eqn:E; [|discriminate].
    now rewrite (parse_members_mono _ _ Hle _ _ _ _ _ (le_n _) E). }
  destruct (c =? 91).
  { destruct (skip_ws r) as [|d r']; [discriminate|]. destruct (d =? 93); [assumption|].
    destruct (parse_elems (parse_value f) (S (length r)) r []) as [[es rest]|] eqn:E; [|discriminate].
    now rewrite (parse_elems_mono _ _ Hle _ _ _ _ _ (le_n _) E). }
  exact H.
Qed.

Lemma skip_ws_app r rest : skip_ws r <> [] -> skip_ws (r ++ rest) = skip_ws r ++ rest.
Proof.
  induction r as [|c r IH]; [intro H; now contradiction H|]. cbn [skip_ws app]. destruct (is_ws c); [exact IH|reflexivity].
Qed.

Lemma scan_string_app s : forall b r rest, scan_string s = Some (b, r) -> scan_string (s ++ rest) = Some (b, r ++ rest).
Proof.
  induction s as [s IH] using len_ind. intros b r rest H. destruct s as [|c t]; [discriminate|].
  cbn [scan_string app] in *. destruct (c =? 34); [inversion H; reflexivity|].
  destruct (c =? 92).
  - destruct t as [|x t']; [discriminate|]. cbn [app].
    destruct (scan_string t') as [[b' r']|] eqn:E; [|discriminate]. inversion H; subst.
    rewrite (IH t' ltac:(simpl; lia) _ _ rest E). reflexivity.
  - destruct (scan_string t) as [[b' r']|] eqn:E; [|discriminate]. inversion H; subst.
    rewrite (IH t ltac:(simpl; lia) _ _ rest E). reflexivity.
Qed.

Lemma parse_string_app s d r rest : parse_string s = Some (d, r) -> parse_string (s ++ rest) = Some (d, r ++ rest).
Proof.
  unfold parse_string. destruct (scan_string s) as [[b r']|] eqn:E; [|discriminate].
  rewrite (scan_string_app _ _ _ rest E). destruct (unescape b); [|discriminate]. intro H; inversion H; reflexivity.
Qed.

Lemma drop_prefix_app_r p s r rest : drop_prefix p s = Some r -> drop_prefix p (s ++ rest) = Some (r ++ rest).
Proof.
  revert s; induction p as [|x p IH]; intros s H; cbn [drop_prefix] in *; [inversion H; reflexivity|].
  destruct s as [|y s]; [discriminate|]. cbn [app]. destruct (x =? y); [now apply IH|discriminate].
Qed.

Lemma span_app_r (p : N -> bool) s a b rest : span p s = (a, b) -> (b = [] -> match rest with [] => True | c :: _ => p c = false end) ->
  span p (s ++ rest) = (a, b ++ rest).
Proof.
  revert a b; induction s as [|c s IH]; intros a b H Hr; cbn [span app] in *.
  - inversion H; subst. specialize (Hr eq_refl). destruct rest as [|c r]; [reflexivity|]. cbn [span]. now rewrite Hr.
  - destruct (p c).
    + destruct (span p s) as [a' b'] eqn:E. inversion H; subst. rewrite (IH a' b eq_refl Hr). reflexivity.
    + inversion H; subst. reflexivity.
Qed.

Definition stable (pv : bytes -> option (json * bytes)) : Prop :=
  forall s j r rest, pv s = Some (j, r) -> (r = [] -> ok_tail rest) -> pv (s ++ rest) = Some (j, r ++ rest).

Lemma parse_elems_stable pv : stable pv -> forall fuel s acc es r rest,
  parse_elems pv fuel s acc = Some (es, r) -> parse_elems pv fuel (s ++ rest) acc = Some (es, r ++ rest).
Proof.
  intro Hst. induction fuel as [|f IH]; intros s acc es r rest H; [discriminate|]. cbn [parse_elems] in *.
  destruct (pv s) as [[j r1]|] eqn:E; [|discriminate].
  destruct (skip_ws r1) as [|c r'] eqn:Es; [discriminate|].
  assert (Hne : r1 <> []) by (intro; subst; discriminate).
  rewrite (Hst _ _ _ rest E) by (intro; contradiction).
  rewrite skip_ws_app by (rewrite Es; discriminate). rewrite Es. cbn [app].
  destruct (c =? 44); [now apply IH|]. destruct (c =? 93); [inversion H; reflexivity|discriminate].
Qed.

Lemma parse_members_stable pv : stable pv -> forall fuel s acc ms r rest,
  parse_members pv fuel s acc = Some (ms, r) -> parse_members pv fuel (s ++ rest) acc = Some (ms, r ++ rest).
Proof.
  intro Hst. induction fuel as [|f IH]; intros s acc ms r rest H; [discriminate|]. cbn [parse_members] in *.
  destruct (skip_ws s) as [|q r0] eqn:E0; [discriminate|].
  rewrite skip_ws_app by (rewrite E0; discriminate). rewrite E0. cbn [app].
  destruct (q =? 34); [|discriminate].
  destruct (parse_string r0) as [[k r1]|] eqn:Ek; [|discriminate]. rewrite (parse_string_app _ _ _ rest Ek).
  destruct (skip_ws r1) as [|c r2] eqn:E1; [discriminate|].
  rewrite skip_ws_app by (rewrite E1; discriminate). rewrite E1. cbn [app].
  destruct (c =? 58); [|discriminate].
  destruct (pv r2) as [[v r3]|] eqn:Ev; [|discriminate].
  destruct (skip_ws r3) as [|d r4] eqn:E3; [discriminate|].
  rewrite (Hst _ _ _ rest Ev) by (intro; subst; discriminate).
  rewrite skip_ws_app by (rewrite E3; discriminate). rewrite E3. cbn [app].
  destruct (d =? 44); [now apply IH|]. destruct (d =? 125); [inversion H; reflexivity|discriminate].
Qed.

Lemma parse_value_stable f : stable (parse_value f).
Proof.
  induction f as [|f IH]; intros s j r rest H Hr; [discriminate|]. cbn [parse_value] in *.
  destruct (skip_ws s) as [|c t] eqn:Es; [discriminate|].
  rewrite skip_ws_app by (rewrite Es; discriminate). rewrite Es. cbn [app].
  destruct (c =? 123).
  { destruct (skip_ws t) as [|d t'] eqn:Et; [discriminate|].
    rewrite skip_ws_app by (rewrite Et; discriminate). rewrite Et. cbn [app].
    destruct (d =? 125); [inversion H; reflexivity|].
    destruct (parse_members (parse_value f) (S (length t)) t []) as [[ms r']|] eqn:E; [|discriminate]. inversion H; subst.
    assert (E' : parse_members (parse_value f) (S (length (t ++ rest))) t [] = Some (ms, r)).
    { eapply parse_members_mono; [intros ? ? Hx; exact Hx| |exact E]. rewrite app_length. lia. }
    now rewrite (parse_members_stable _ IH _ _ _ _ _ rest E'). }
  destruct (c =? 91).
  { destruct (skip_ws t) as [|d t'] eqn:Et; [discriminate|].
    rewrite skip_ws_app by (rewrite Et; discriminate). rewrite Et. cbn [app].
    destruct (d =? 93); [inversion H; reflexivity|].
    destruct (parse_elems (parse_value f) (S (length t)) t []) as [[es r']|] eqn:E; [|discriminate]. inversion H; subst.
    assert (E' : parse_elems (parse_value f) (S (length (t ++ rest))) t [] = Some (es, r)).
    { eapply parse_elems_mono; [intros ? ? Hx; exact Hx| |exact E]. rewrite app_length. lia. }
    now rewrite (parse_elems_stable _ IH _ _ _ _ _ rest E'). }
  destruct (c =? 34).
  { destruct (parse_string t) as [[d r']|] eqn:E; [|discriminate]. inversion H; subst.
    now rewrite (parse_string_app _ _ _ rest E). }
  unfold expect in *.
  destruct (c =? 110).
  { destruct (drop_prefix lit_null (c :: t)) as [r'|] eqn:E; [|discriminate]. inversion H; subst.
    change (c :: t ++ rest) with ((c :: t) ++ rest). now rewrite (drop_prefix_app_r _ _ _ rest E). }
  destruct (c =? 116).
  { destruct (drop_prefix lit_true (c :: t)) as [r'|] eqn:E; [|discriminate]. inversion H; subst.
    change (c :: t ++ rest) with ((c :: t) ++ rest). now rewrite (drop_prefix_app_r _ _ _ rest E). }
  destruct (c =? 102).
  { destruct (drop_prefix lit_false (c :: t)) as [r'|] eqn:E; [|discriminate]. inversion H; subst.
    change (c :: t ++ rest) with ((c :: t) ++ rest). now rewrite (drop_prefix_app_r _ _ _ rest E). }
  destruct (is_numchar c); [|discriminate].
  destruct (span is_numchar (c :: t)) as [tok r'] eqn:E.
  destruct (valid_number tok) eqn:Ev; [|discriminate]. inversion H; subst.
  change (c :: t ++ rest) with ((c :: t) ++ rest). rewrite (span_app_r _ _ _ _ rest E Hr). now rewrite Ev.
Qed.

(* the executable check the harness runs on every raw (json.Marshal) token *)
Definition check_raw (tok : bytes) : option json :=
  match tok with
  | c :: _ => if is_ws c || (c =? 93) || (c =? 125) then None
              else match parse_value (S (length tok)) tok with Some (j, []) => Some j | _ => None end
  | [] => None
  end.

Theorem check_raw_tok_ok tok j : check_raw tok = Some j -> tok_ok tok j.
Proof.
  unfold check_raw. destruct tok as [|c t]; [discriminate|].
  destruct (is_ws c || (c =? 93) || (c =? 125)) eqn:Eh; [discriminate|].
  apply orb_false_iff in Eh as [Eh E125]. apply orb_false_iff in Eh as [Ews E93].
  destruct (parse_value (S (length (c :: t))) (c :: t)) as [[j' [|? ?]]|] eqn:E; try discriminate.
  intro H; inversion H; subst j'. split.
  - cbn. repeat split; [assumption|now apply N.eqb_neq|now apply N.eqb_neq].
  - intros fuel rest Hf Hd.
    pose proof (parse_value_mono _ _ Hf _ _ E) as E'.
    rewrite (parse_value_stable fuel _ _ _ rest E'); [reflexivity|]. intros _. now apply delim_not_numchar.
Qed.
