From LogV Require Import Base.Bytes Model.Rolling.
From Coq Require Import Permutation.
Open Scope Z_scope.

Definition all_payloads (fs : list rfile) : list N := flat_map f_content fs.
Definition names (fs : list rfile) : list Z := map f_name fs.

Lemma has_file_in fs n : has_file fs n = true <-> In n (names fs).
Proof.
  induction fs as [|f r IH]; cbn; [split; [discriminate|tauto]|].
  rewrite orb_true_iff, IH, Z.eqb_eq. tauto.
Qed.

Lemma create_file_names fs n : names (create_file fs n) = if has_file fs n then names fs else names fs ++ [n].
Proof. unfold create_file. destruct (has_file fs n); [reflexivity|]. unfold names. now rewrite map_app. Qed.

Lemma create_file_payloads fs n : all_payloads (create_file fs n) = all_payloads fs.
Proof. unfold create_file. destruct (has_file fs n); [reflexivity|]. unfold all_payloads. rewrite flat_map_app. cbn. now rewrite app_nil_r. Qed.

Lemma create_file_has fs n : has_file (create_file fs n) n = true.
Proof.
  apply has_file_in. rewrite create_file_names. destruct (has_file fs n) eqn:E; [now apply has_file_in|]. apply in_or_app. right. now left.
Qed.

Lemma create_file_nodup fs n : NoDup (names fs) -> NoDup (names (create_file fs n)).
Proof.
  intro H. rewrite create_file_names. destruct (has_file fs n) eqn:E; [assumption|].
  assert (Hn : ~ In n (names fs)) by (intro Hi; apply has_file_in in Hi; congruence).
  clear E. induction (names fs) as [|a l IH]; cbn; [repeat constructor; intros []|].
  inversion H; subst. constructor.
  - intro Hi. apply in_app_or in Hi as [Hi|[->|[]]]; [contradiction|]. apply Hn. now left.
  - apply IH; [assumption|]. intro; apply Hn; now right.
Qed.

Lemma append_to_names fs n p : names (append_to fs n p) = names fs.
Proof. unfold names. induction fs as [|f r IH]; cbn [append_to map]; [reflexivity|]. destruct (f_name f =? n) eqn:E; cbn [map f_name]; [apply Z.eqb_eq in E; now rewrite E|now rewrite IH]. Qed.

Lemma append_to_payloads fs n p : In n (names fs) -> NoDup (names fs) ->
  Permutation (all_payloads (append_to fs n p)) (all_payloads fs ++ [p]).
Proof.
  induction fs as [|f r IH]; cbn; [intros []|]. intros Hin Hnd. inversion Hnd as [|? ? Hn Hr]; subst.
  destruct (f_name f =? n) eqn:E.
  - cbn. rewrite <- !app_assoc. apply Permutation_app_head. apply Permutation_app_comm.
  - apply Z.eqb_neq in E. destruct Hin as [Hin|Hin]; [contradiction|]. cbn. rewrite <- app_assoc. apply Permutation_app_head. now apply IH.
Qed.

(* content of a file by name *)
Fixpoint content_of (fs : list rfile) (n : Z) : option (list N) :=
  match fs with [] => None | f :: r => if f_name f =? n then Some (f_content f) else content_of r n end.

Definition is_prefix (a b : list N) : Prop := exists c, b = a ++ c.

(* never truncates: every file that exists keeps existing and its content only grows by appends *)
Definition grows (fs fs' : list rfile) : Prop :=
  forall n c, content_of fs n = Some c -> exists c', content_of fs' n = Some c' /\ is_prefix c c'.

Lemma grows_refl fs : grows fs fs.
Proof. intros n c H. exists c. split; [assumption|exists []; now rewrite app_nil_r]. Qed.

Lemma grows_trans a b c : grows a b -> grows b c -> grows a c.
Proof.
  intros H1 H2 n x Hx. destruct (H1 n x Hx) as [y [Hy [d1 E1]]]. destruct (H2 n y Hy) as [z [Hz [d2 E2]]].
  exists z. split; [assumption|]. exists (d1 ++ d2). subst. now rewrite app_assoc.
Qed.

Lemma content_of_app fs g n : content_of (fs ++ [g]) n = match content_of fs n with Some c => Some c | None => if f_name g =? n then Some (f_content g) else None end.
Proof. induction fs as [|f r IH]; cbn; [reflexivity|]. destruct (f_name f =? n); [reflexivity|exact IH]. Qed.

Lemma grows_create fs n : grows fs (create_file fs n).
Proof.
  unfold create_file. destruct (has_file fs n); [apply grows_refl|].
  intros m c H. exists c. rewrite content_of_app, H. split; [reflexivity|exists []; now rewrite app_nil_r].
Qed.

Lemma grows_append fs n p : grows fs (append_to fs n p).
Proof.
  intros m c H. induction fs as [|f r IH]; cbn in *; [discriminate|].
  destruct (f_name f =? n) eqn:En; cbn.
  - destruct (f_name f =? m) eqn:Em.
    + apply Z.eqb_eq in En. apply Z.eqb_eq in Em. inversion H; subst. rewrite Z.eqb_refl. eexists. split; [reflexivity|]. now exists [p].
    + apply Z.eqb_eq in En. subst n. rewrite Em. exists c. split; [assumption|exists []; now rewrite app_nil_r].
  - destruct (f_name f =? m); [exists c; split; [assumption|exists []; now rewrite app_nil_r]|now apply IH].
Qed.

(* ---------------- invariants of every sequential history ---------------- *)
Definition finv (s : fstate) : Prop :=
  NoDup (names (r_fs s)) /\
  (forall n, r_file s = Some n -> In n (names (r_fs s)) /\ n <= r_now s) /\
  0 < r_iv s.

Lemma rotate_inv s : finv s -> finv (rotate s).
Proof.
  intros [Hnd [Hf Hiv]]. unfold rotate. destruct (interval_of (r_iv s) (r_now s) <=? r_curr s); [split; [assumption|split; assumption]|].
  destruct (r_create_ok s); unfold finv; cbn [r_fs r_file r_now r_iv].
  - split; [now apply create_file_nodup|]. split; [|assumption]. intros n E. inversion E; subst. split; [apply has_file_in, create_file_has|lia].
  - auto.
Qed.

Lemma fstep_inv s o : finv s -> finv (fstep s o).
Proof.
  intros Hs. pose proof Hs as [Hnd [Hf Hiv]]. destruct o as [d| |p| |ok]; cbn [fstep].
  - unfold finv; cbn [r_fs r_file r_now r_iv]. split; [assumption|]. split; [|assumption]. intros n E. destruct (Hf n E). split; [assumption|lia].
  - destruct (r_create_ok s); [|assumption]. unfold finv; cbn [r_fs r_file r_now r_iv].
    split; [now apply create_file_nodup|]. split; [|assumption]. intros n E. inversion E; subst. split; [apply has_file_in, create_file_has|lia].
  - pose proof (rotate_inv s Hs) as [Hnd1 [Hf1 Hiv1]]. destruct (r_file (rotate s)) as [n|] eqn:E.
    + unfold finv, set_fs; cbn [r_fs r_file r_now r_iv]. rewrite append_to_names. split; [assumption|]. split; [|assumption]. rewrite E. exact Hf1.
    + unfold finv; cbn [r_fs r_file r_now r_iv]. split; [assumption|]. split; [|assumption]. intros n Hn. discriminate.
  - unfold finv; cbn [r_fs r_file r_now r_iv]. split; [assumption|]. split; [|assumption]. intros n Hn. discriminate.
  - unfold finv; cbn [r_fs r_file r_now r_iv]. auto.
Qed.

Lemma frun_inv ops : forall s, finv s -> finv (frun s ops).
Proof. induction ops as [|o r IH]; intros s H; [assumption|]. cbn [frun fold_left]. apply IH. now apply fstep_inv. Qed.

(* the payloads written, in order *)
Fixpoint writes (ops : list fop) : list N := match ops with [] => [] | FWrite p :: r => p :: writes r | _ :: r => writes r end.

Lemma rotate_payloads s : all_payloads (r_fs (rotate s)) = all_payloads (r_fs s) /\ r_lost (rotate s) = r_lost s /\ grows (r_fs s) (r_fs (rotate s)).
Proof.
  unfold rotate. destruct (interval_of (r_iv s) (r_now s) <=? r_curr s); [repeat split; try reflexivity; apply grows_refl|].
  destruct (r_create_ok s); cbn [r_fs r_lost]; repeat split; try reflexivity; try apply create_file_payloads; try apply grows_create; apply grows_refl.
Qed.

Lemma fstep_payloads s o : finv s ->
  Permutation (all_payloads (r_fs (fstep s o)) ++ r_lost (fstep s o))
              (all_payloads (r_fs s) ++ r_lost s ++ match o with FWrite p => [p] | _ => [] end) /\
  grows (r_fs s) (r_fs (fstep s o)).
Proof.
  intro Hs. destruct o as [d| |p| |ok]; cbn [fstep].
  - cbn [r_fs r_lost]. rewrite app_nil_r. split; [apply Permutation_refl|apply grows_refl].
  - destruct (r_create_ok s); cbn [r_fs r_lost]; rewrite ?create_file_payloads, app_nil_r; (split; [apply Permutation_refl|]); [apply grows_create|apply grows_refl].
  - destruct (rotate_payloads s) as [Hp [Hl Hg]]. pose proof (rotate_inv s Hs) as [Hnd1 [Hf1 _]].
    destruct (r_file (rotate s)) as [n|] eqn:E.
    + unfold set_fs; cbn [r_fs r_lost]. destruct (Hf1 n eq_refl) as [Hin _]. split.
      * eapply perm_trans; [apply Permutation_app_tail; apply append_to_payloads; assumption|].
        rewrite Hp, Hl, <- !app_assoc. apply Permutation_app_head. apply Permutation_app_comm.
      * eapply grows_trans; [exact Hg|apply grows_append].
    + cbn [r_fs r_lost]. rewrite Hp, Hl. split; [apply Permutation_refl|exact Hg].
  - cbn [r_fs r_lost]. rewrite app_nil_r. split; [apply Permutation_refl|apply grows_refl].
  - cbn [r_fs r_lost]. rewrite app_nil_r. split; [apply Permutation_refl|apply grows_refl].
Qed.

(* every history: nothing is lost or duplicated, and nothing is ever truncated *)
Theorem frun_accounting ops : forall s, finv s ->
  Permutation (all_payloads (r_fs (frun s ops)) ++ r_lost (frun s ops)) (all_payloads (r_fs s) ++ r_lost s ++ writes ops) /\
  grows (r_fs s) (r_fs (frun s ops)).
Proof.
  induction ops as [|o r IH]; intros s Hs; cbn [frun fold_left writes].
  - rewrite app_nil_r. split; [apply Permutation_refl|apply grows_refl].
  - destruct (fstep_payloads s o Hs) as [P1 G1]. destruct (IH (fstep s o) (fstep_inv s o Hs)) as [P2 G2].
    split; [|eapply grows_trans; eassumption].
    eapply perm_trans; [exact P2|].
    assert (Hgen : forall extra, Permutation (all_payloads (r_fs (fstep s o)) ++ r_lost (fstep s o)) (all_payloads (r_fs s) ++ r_lost s ++ extra) ->
                   Permutation (all_payloads (r_fs (fstep s o)) ++ r_lost (fstep s o) ++ writes r) (all_payloads (r_fs s) ++ r_lost s ++ extra ++ writes r)).
    { intros extra HP. rewrite !app_assoc. apply Permutation_app_tail. rewrite <- !app_assoc. exact HP. }
    destruct o as [d| |q| |ok]; cbn [writes]; try (apply (Hgen [] P1)). apply (Hgen [q] P1).
Qed.

(* while a file is held, a write is never lost *)
Lemma write_lands s p : finv s -> r_file (rotate s) <> None -> r_lost (fstep s (FWrite p)) = r_lost s.
Proof.
  intros Hs Hf. cbn [fstep]. destruct (r_file (rotate s)) eqn:E; [|contradiction]. unfold set_fs; cbn [r_lost]. apply rotate_payloads.
Qed.

(* the file a write goes to was named at or before the time of the write (not-before-name) *)
Theorem write_target_not_in_future s n : finv s -> r_file (rotate s) = Some n -> n <= r_now s.
Proof. intros Hs E. destruct (rotate_inv s Hs) as [_ [Hf _]]. destruct (Hf n E) as [_ H]. unfold rotate in H. 
  destruct (interval_of (r_iv s) (r_now s) <=? r_curr s); [exact H|]. destruct (r_create_ok s); exact H.
Qed.

(* a write issued after an interval boundary goes to a file created in the new interval *)
Theorem write_after_boundary s : 0 < r_iv s -> r_curr s < interval_of (r_iv s) (r_now s) -> r_create_ok s = true ->
  r_file (rotate s) = Some (r_now s) /\ interval_of (r_iv s) (r_now s) <= r_now s /\ r_curr (rotate s) = interval_of (r_iv s) (r_now s).
Proof.
  intros Hiv Hlt Hok. unfold rotate. replace (interval_of (r_iv s) (r_now s) <=? r_curr s) with false by (symmetry; apply Z.leb_gt; lia).
  rewrite Hok. cbn [r_file r_curr]. repeat split. unfold interval_of. rewrite Z.mul_comm. apply Z.mul_div_le. assumption.
Qed.

(* C19: a failed creation keeps the current file; no retry inside the failed interval; retry at the next boundary *)
Theorem failed_rotation_keeps_file s : r_curr s < interval_of (r_iv s) (r_now s) -> r_create_ok s = false ->
  r_file (rotate s) = r_file s /\ r_fs (rotate s) = r_fs s /\ r_curr (rotate s) = interval_of (r_iv s) (r_now s).
Proof.
  intros Hlt Hok. unfold rotate. replace (interval_of (r_iv s) (r_now s) <=? r_curr s) with false by (symmetry; apply Z.leb_gt; lia).
  rewrite Hok. auto.
Qed.

Theorem no_retry_within_interval s : interval_of (r_iv s) (r_now s) <= r_curr s -> rotate s = s.
Proof. intro H. unfold rotate. now replace (interval_of (r_iv s) (r_now s) <=? r_curr s) with true by (symmetry; apply Z.leb_le; lia). Qed.

(* descriptors *)
Theorem fds_bounded s : (open_fds s <= 2)%nat.
Proof. unfold open_fds. destruct (r_file s), (r_old s); cbn; lia. Qed.
Theorem fds_after_stop s : open_fds (fstep s FStop) = 0%nat.
Proof. reflexivity. Qed.

Lemma init_inv now iv fs : NoDup (names fs) -> 0 < iv -> finv (f_init now iv fs).
Proof. intros H Hi. unfold finv, f_init; cbn. split; [assumption|split; [intros m E; discriminate|assumption]]. Qed.
