package main

import (
	"bufio"
	"bytes"
	"context"
	"fmt"
	"os"
	"strings"
	"time"

	"github.com/go-spring/log"
)

func init() { families["c16"] = runC16 }

// Case: a sequence of letters  A B (Refresh valid sync / async config)  E (Refresh invalid, early failure)  L (Refresh invalid, late failure)
//
//	W (Refresh valid, the tag's logger restricted to WARN and above)  D (Destroy)  g / G (log via tag below WARN / at WARN and above)  w (write via handle)  t (register a tag)  h (obtain a handle)
//
// Observation: one token per operation: ok | err | A | B | console | nowhere | registered | refused | panic(...) | timeout
// The run starts in the state "never refreshed" only for the first case of a process; every case ends with Destroy.
func runC16(cases []string, out *bufio.Writer, _ []string) {
	tag := log.RegisterTag("_c16_probe")
	h := log.GetLogger("h1")
	h2 := log.GetLogger("h2")
	hroot := log.GetLogger("root") // no configuration below defines logger.root: the handle stays on the built-in console logger
	ctx := context.Background()
	cfgs := map[byte]map[string]string{
		'A': {"appender.sinkA.type": "Rec", "logger.h1.type": "Logger", "logger.h1.tags": "_c16_*", "logger.h1.appenderRef.ref": "sinkA",
			"logger.h2.type": "AsyncLogger", "logger.h2.tags": "_c16x_*", "logger.h2.appenderRef.ref": "sinkA"},
		'B': {"appender.sinkB.type": "Rec", "logger.h1.type": "AsyncLogger", "logger.h1.tags": "_c16_*", "logger.h1.appenderRef.ref": "sinkB",
			"logger.h1.bufferFullPolicy": "Block", "logger.h2.type": "Logger", "logger.h2.tags": "_c16x_*", "logger.h2.appenderRef.ref": "sinkB"},
		// like A, but the logger serving the tag takes WARN and above only
		'W': {"appender.sinkW.type": "Rec", "logger.h1.type": "Logger", "logger.h1.tags": "_c16_*", "logger.h1.appenderRef.ref": "sinkW", "logger.h1.level": "warn",
			"logger.h2.type": "AsyncLogger", "logger.h2.tags": "_c16x_*", "logger.h2.appenderRef.ref": "sinkW"},
		'E': {"logger.h1.type": "Logger"}, // no appenders section: fails before the once-guard
		'L': {"appender.sinkL.type": "Rec", "appender.fileL.type": "File", "appender.fileL.fileDir": os.TempDir(), "appender.fileL.fileName": "verif-c16-late.log",
			"logger.other.type": "AsyncLogger", "logger.other.tags": "_c16_*", "logger.other.appenderRef.ref": "sinkL",
			"logger.h2.type": "AsyncLogger", "logger.h2.tags": "_c16x_*", "logger.h2.appenderRef.ref": "sinkL"}, // handle h1 is not configured: fails after Start (h2 may already be bound)
		// a plugin's Start fails: the RollingFile logger (async) cannot create its files in a directory that does not exist
		'M': {"appender.sinkL.type": "Rec", "logger.h1.type": "RollingFile", "logger.h1.tags": "_c16_*", "logger.h1.fileDir": "/var/tmp/verif-c16-no-such-dir/x", "logger.h1.rotation": "h",
			"logger.h1.async": "true", "logger.h2.type": "Logger", "logger.h2.tags": "_c16x_*", "logger.h2.appenderRef.ref": "sinkL"},
		// everything resolves, starts and binds; the very last step (property injection) fails
		'P': {"appender.sinkL.type": "Rec", "logger.h1.type": "AsyncLogger", "logger.h1.tags": "_c16_*", "logger.h1.appenderRef.ref": "sinkL",
			"logger.h2.type": "AsyncLogger", "logger.h2.tags": "_c16x_*", "logger.h2.appenderRef.ref": "sinkL", "enableCaller": "maybe"},
	}
	defer os.Remove(os.TempDir() + "/verif-c16-late.log")
	poisoned := false
	watch := func(f func()) string {
		done := make(chan string, 1)
		go func() {
			if p, v := guard(f); p {
				done <- "panic(" + strings.ReplaceAll(fmt.Sprint(v), " ", "_") + ")"
			} else {
				done <- ""
			}
		}()
		select {
		case r := <-done:
			return r
		case <-time.After(3 * time.Second):
			poisoned = true // a call that never returns leaves the package (and this process) beyond repair
			return "timeout"
		}
	}
	n := 0
	var live byte // the configuration letter of the last successful Refresh, 0 when none is live
	for _, line := range cases {
		live = 0
		if poisoned {
			fmt.Fprintln(out, "#abandoned-after-timeout")
			continue
		}
		var obs []string
		for i := 0; i < len(line); i++ {
			op := line[i]
			switch op {
			case 'A', 'B', 'W', 'E', 'L', 'P', 'M':
				var err error
				if r := watch(func() { err = log.Refresh(cfgs[op]) }); r != "" {
					obs = append(obs, r)
				} else if err != nil {
					obs = append(obs, "err")
				} else {
					obs = append(obs, "ok")
					live = op
				}
			case 'D':
				if r := watch(func() { log.Destroy() }); r != "" {
					obs = append(obs, r)
				} else {
					obs = append(obs, "ok")
				}
				live = 0
			case 'g', 'G', 'w', 'v', 'r':
				n++
				id := fmt.Sprintf("<c16-%d>", n)
				recReset()
				stdout := &syncBuffer{}
				log.Stdout = stdout
				r := watch(func() {
					if op == 'g' { // the entry points below WARN in turn
						switch n % 3 {
						case 0:
							log.Info(ctx, tag, log.Msg(id))
						case 1:
							log.Trace(ctx, tag, func() []log.Field { return []log.Field{log.Msg(id)} })
						default:
							log.Debugf(ctx, tag, "%s", id)
						}
					} else if op == 'G' { // the entry points at WARN and above in turn
						switch n % 4 {
						case 0:
							log.Errorf(ctx, tag, "%s", id)
						case 1:
							log.Warnf(ctx, tag, "%s", id)
						case 2:
							log.Panic(ctx, tag, log.Msg(id))
						default:
							log.Fatalf(ctx, tag, "%s", id)
						}
					} else if op == 'w' {
						fmt.Fprintf(h, "%s\n", id)
					} else if op == 'r' {
						fmt.Fprintf(hroot, "%s\n", id)
					} else {
						fmt.Fprintf(h2, "%s\n", id)
					}
				})
				if r != "" {
					log.Stdout = os.Stdout
					obs = append(obs, r)
					continue
				}
				where := "nowhere"
				// only an asynchronous logger delivers a little later: h1 is asynchronous in B, h2 in A and W; everything else
				// (no live configuration, the root handle, synchronous loggers) has delivered when the call returns
				polls := 1
				viaH1 := op == 'g' || op == 'G' || op == 'w'
				if (live == 'B' && viaH1) || ((live == 'A' || live == 'W') && op == 'v') {
					polls = 400
				}
				for k := 0; k < polls && where == "nowhere"; k++ { // an async logger delivers a little later
					snap := recSnapshot()
					for _, nm := range []string{"sinkA", "sinkB", "sinkL", "sinkW"} {
						for _, it := range snap[nm] {
							if bytes.Contains(it.Data, []byte(id)) {
								where = strings.TrimPrefix(nm, "sink")
							}
						}
					}
					if bytes.Contains(stdout.Bytes(), []byte(id)) {
						where = "console"
					}
					if where == "nowhere" {
						time.Sleep(500 * time.Microsecond)
					}
				}
				log.Stdout = os.Stdout
				obs = append(obs, where)
			case 't':
				if p, _ := guard(func() { log.RegisterTag("_c16_extra") }); p {
					obs = append(obs, "refused")
				} else {
					obs = append(obs, "registered")
				}
			case 'h':
				if p, _ := guard(func() { log.GetLogger("h1") }); p {
					obs = append(obs, "refused")
				} else {
					obs = append(obs, "registered")
				}
			}
		}
		watch(func() { log.Destroy() })
		fmt.Fprintln(out, "#"+strings.Join(obs, " "))
	}
}
