module verifharness

go 1.25

require github.com/go-spring/log v0.0.0

require (
	github.com/antlr4-go/antlr/v4 v4.13.1 // indirect
	github.com/go-spring/stdlib v0.0.5 // indirect
	github.com/spf13/cast v1.10.0 // indirect
	golang.org/x/exp v0.0.0-20240506185415-9bf2ced13842 // indirect
)

replace github.com/go-spring/log => /repo
