// Command implrun runs the real go-spring/log implementation (built from /repo's
// working tree with -tags verif) on line-oriented case files and prints one
// canonical observation line per case.
package main

import (
	"bufio"
	"encoding/hex"
	"fmt"
	"os"
	"strings"
)

type family func(cases []string, out *bufio.Writer, args []string)

var families = map[string]family{}

func main() {
	if len(os.Args) < 4 {
		fmt.Fprintln(os.Stderr, "usage: implrun <family> <cases> <out> [args...]")
		os.Exit(2)
	}
	f, ok := families[os.Args[1]]
	if !ok {
		fmt.Fprintln(os.Stderr, "unknown family", os.Args[1])
		os.Exit(2)
	}
	var cases []string
	if os.Args[2] != "-" {
		data, err := os.ReadFile(os.Args[2])
		if err != nil {
			fmt.Fprintln(os.Stderr, err)
			os.Exit(2)
		}
		for _, l := range strings.Split(string(data), "\n") {
			if l != "" {
				cases = append(cases, l)
			}
		}
	}
	of, err := os.Create(os.Args[3])
	if err != nil {
		fmt.Fprintln(os.Stderr, err)
		os.Exit(2)
	}
	w := bufio.NewWriterSize(of, 1<<20)
	f(cases, w, os.Args[4:])
	w.Flush()
	of.Close()
}

func unhex(s string) string {
	if s == "-" {
		return ""
	}
	b, err := hex.DecodeString(s)
	if err != nil {
		panic("bad hex " + s)
	}
	return string(b)
}

func tohex(s string) string {
	if s == "" {
		return "-"
	}
	return hex.EncodeToString([]byte(s))
}

// guard runs f and reports a recovered panic.
func guard(f func()) (panicked bool, val any) {
	defer func() {
		if r := recover(); r != nil {
			panicked, val = true, r
		}
	}()
	f()
	return
}
