package main

import (
	"bufio"
	"bytes"
	"context"
	"fmt"
	"io"
	"os"
	"path/filepath"
	"strconv"
	"strings"
	"syscall"
	"time"

	"github.com/go-spring/log"
)

func init() { families["c05k"] = runC05Kinds }

func fdsInto(dir string) int {
	ents, err := os.ReadDir("/proc/self/fd")
	if err != nil {
		return -1
	}
	n := 0
	for _, e := range ents {
		if t, err := os.Readlink("/proc/self/fd/" + e.Name()); err == nil && strings.HasPrefix(t, dir+"/") { // files in the directory (not the directory itself: the retention scan lists it)
			n++
			if os.Getenv("C05_FDS") != "" {
				fmt.Fprintln(os.Stderr, "fd", e.Name(), "->", t)
			}
		}
	}
	return n
}

// Case: "<kind> <layout 0|1> <policy> <nEvents> <nRaw> <1: a second (rejected) Refresh precedes the log calls> [<spreadMs: the events are spread over this time, crossing rotation boundaries> [<bufferSize>]]"
//
//	kind: syncfile asyncfile console file rolling rollingsep rollingasync rollingsepasync syncrollingapp
//
// Observation: "<destroy returned 0|1> <ids found in the sinks, in order, comma separated> <fds before destroy> <fds after destroy>"
func runC05Kinds(cases []string, out *bufio.Writer, _ []string) {
	log.RegisterTimeRotation("1s", log.TimeRotation{Interval: time.Second})
	tag := log.RegisterTag("_c05_probe")
	h := log.GetLogger("lg")
	base, _ := os.MkdirTemp("/var/tmp", "verif-c05-")
	defer os.RemoveAll(base)
	ctx := context.Background()
	for n, line := range cases {
		f := strings.Fields(line)
		kind, lay, pol := f[0], f[1] == "1", f[2]
		ne, _ := strconv.Atoi(f[3])
		nr, _ := strconv.Atoi(f[4])
		spread := 0
		if len(f) > 6 {
			spread, _ = strconv.Atoi(f[6])
		}
		dir := filepath.Join(base, strconv.Itoa(n))
		os.Mkdir(dir, 0755)
		cfg := map[string]string{"logger.lg.tags": "_c05_*", "appender.unused.type": "Rec"}
		var fifoData *syncBuffer
		var fifoEOF chan struct{}
		switch kind {
		case "syncfile", "asyncfile":
			cfg["appender.fa.type"] = "File"
			cfg["appender.fa.fileDir"] = dir
			cfg["appender.fa.fileName"] = "a.log"
			cfg["logger.lg.appenderRef.ref"] = "fa"
			if kind == "syncfile" {
				cfg["logger.lg.type"] = "Logger"
			} else {
				cfg["logger.lg.type"] = "AsyncLogger"
				cfg["logger.lg.bufferFullPolicy"] = pol
			}
		case "fifofile": // a File appender whose target is a FIFO with a reader on the other end (fsync fails on it; Close must still happen)
			fifo := filepath.Join(dir, "a.log")
			syscall.Mkfifo(fifo, 0644)
			fifoData = &syncBuffer{}
			fifoEOF = make(chan struct{})
			go func(buf *syncBuffer, eof chan struct{}) {
				defer close(eof)
				r, err := os.OpenFile(fifo, os.O_RDONLY, 0)
				if err != nil {
					return
				}
				defer r.Close()
				io.Copy(buf, r)
			}(fifoData, fifoEOF)
			cfg["appender.fa.type"] = "File"
			cfg["appender.fa.fileDir"] = dir
			cfg["appender.fa.fileName"] = "a.log"
			cfg["logger.lg.appenderRef.ref"] = "fa"
			cfg["logger.lg.type"] = "Logger"
		case "sharedapp": // one file appender referenced by an asynchronous logger (which the events go through) and by four synchronous ones
			cfg["appender.fa.type"] = "File"
			cfg["appender.fa.fileDir"] = dir
			cfg["appender.fa.fileName"] = "a.log"
			cfg["logger.lg.appenderRef.ref"] = "fa"
			cfg["logger.lg.type"] = "AsyncLogger"
			cfg["logger.lg.bufferFullPolicy"] = pol
			cfg["logger.lg.bufferSize"] = "60000" // the burst fits: most of it is still buffered when Destroy is called
			for _, n := range []string{"a1", "a2", "zy", "zz"} { // names on both sides of "lg": whatever order Destroy walks the loggers in
				cfg["logger."+n+".type"], cfg["logger."+n+".tags"], cfg["logger."+n+".appenderRef.ref"] = "Logger", "_c05"+n+"_*", "fa"
			}
		case "syncrollingapp":
			cfg["appender.fa.type"] = "RollingFile"
			cfg["appender.fa.fileDir"] = dir
			cfg["appender.fa.fileName"] = "a.log"
			cfg["appender.fa.rotation"] = "1s"
			cfg["appender.fa.maxAge"] = "24"
			cfg["logger.lg.appenderRef.ref"] = "fa"
			cfg["logger.lg.type"] = "Logger"
		case "console":
			cfg["logger.lg.type"] = "Console"
		case "file":
			cfg["logger.lg.type"] = "File"
			cfg["logger.lg.fileDir"] = dir
			cfg["logger.lg.fileName"] = "a.log"
		default:
			cfg["logger.lg.type"] = "RollingFile"
			cfg["logger.lg.fileDir"] = dir
			cfg["logger.lg.fileName"] = "a.log"
			cfg["logger.lg.rotation"] = "1s"
			cfg["logger.lg.separate"] = strconv.FormatBool(strings.Contains(kind, "sep"))
			cfg["logger.lg.async"] = strconv.FormatBool(strings.Contains(kind, "async"))
			cfg["logger.lg.bufferFullPolicy"] = pol
		}
		if lay {
			cfg["logger.lg.layout.type"] = "JSONLayout"
		}
		if len(f) > 7 && (kind == "asyncfile" || strings.Contains(kind, "rolling") && strings.Contains(kind, "async")) { // an explicit (small) buffer: the burst overflows it
			cfg["logger.lg.bufferSize"] = f[7]
		}
		stdout := &syncBuffer{}
		log.Stdout = stdout
		if err := log.Refresh(cfg); err != nil {
			fmt.Fprintf(out, "refresh-error %v\n", strings.ReplaceAll(err.Error(), "\n", " "))
			continue
		}
		if len(f) > 5 && f[5] == "1" { // a second Refresh while the configuration is live: rejected, and it must leave the live one exactly as it is
			if err := log.Refresh(cfg); err == nil {
				fmt.Fprintln(out, "second-refresh-accepted - 0 0")
				guard(func() { log.Destroy() })
				continue
			}
		}
		logged := make(chan string, 1)
		go func() {
			p, v := guard(func() {
				for i := 0; i < ne; i++ {
					if spread > 0 && ne > 0 {
						time.Sleep(time.Duration(spread/ne) * time.Millisecond)
					}
					if i%2 == 0 {
						log.Info(ctx, tag, log.Msg(fmt.Sprintf("<id:%d>", i)))
					} else {
						log.Errorf(ctx, tag, "<id:%d>", i)
					}
				}
				h.Write(nil) // zero-length raw writes are accepted like any other and change nothing a reader sees
				for i := 0; i < nr; i++ {
					fmt.Fprintf(h, "<id:%d>\n", ne+i)
					if i == 0 {
						h.Write([]byte{})
						h.Write(nil)
					}
				}
			})
			if p {
				logged <- fmt.Sprintf("log-call-panicked:%v", v)
			} else {
				logged <- ""
			}
		}()
		select {
		case msg := <-logged:
			if msg != "" {
				fmt.Fprintln(out, strings.ReplaceAll(msg, " ", "_")+" - 0 0")
				guard(func() { log.Destroy() })
				continue
			}
		case <-time.After(5*time.Second + time.Duration(spread)*time.Millisecond):
			fmt.Fprintln(out, "log-call-blocked - 0 0")
			continue // this process is beyond repair for further cases; the remaining ones will report refresh errors
		}
		before := fdsInto(dir)
		done := make(chan struct{})
		go func() { log.Destroy(); close(done) }()
		ret := "1"
		if !waitSignal(done, 10*time.Second) {
			ret = "0"
		}
		// read the sinks immediately
		var data []byte
		if kind == "console" {
			data = stdout.Bytes()
		} else if kind == "fifofile" {
			if !waitSignal(fifoEOF, 2*time.Second) { // the writer's descriptor is still open somewhere
				ret += "-reader-sees-no-EOF"
			}
			data = fifoData.Bytes()
		} else {
			ents, _ := os.ReadDir(dir)
			for _, e := range ents {
				b, _ := os.ReadFile(filepath.Join(dir, e.Name()))
				data = append(data, b...)
			}
		}
		log.Stdout = os.Stdout
		var ids []string
		for _, l := range bytes.Split(data, []byte("\n")) {
			if id := idOf(l); id != "?" {
				ids = append(ids, id)
			}
		}
		after := fdsInto(dir)
		fmt.Fprintf(out, "%s %s %d %d\n", ret, strings.Join(ids, ","), before, after)
		os.RemoveAll(dir)
	}
}
