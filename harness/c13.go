package main

import (
	"bufio"
	"bytes"
	"fmt"
	"os"
	"path/filepath"
	"runtime"
	"sort"
	"strconv"
	"strings"
	"sync"
	"time"

	"github.com/go-spring/log"
)

func init() { families["c13"] = runC13; families["c13c"] = runC13Concurrent }

func nameToUnix(name string) int64 {
	i := strings.LastIndex(name, ".")
	t, err := time.ParseInLocation("20060102150405", name[i+1:], time.Local)
	if err != nil {
		return -1
	}
	return t.Unix()
}

func listDir(dir, prefix string) string {
	ents, _ := os.ReadDir(dir)
	var parts []string
	for _, e := range ents {
		if !strings.HasPrefix(e.Name(), prefix+".") {
			parts = append(parts, "FOREIGN:"+e.Name())
			continue
		}
		b, _ := os.ReadFile(filepath.Join(dir, e.Name()))
		var ids []string
		for _, l := range bytes.SplitAfter(b, []byte("\n")) {
			if len(l) == 0 {
				continue
			}
			id := idOf(l)
			if !bytes.HasSuffix(l, []byte("\n")) || !lineOK(l) {
				id = "TORN(" + id + ")"
			}
			ids = append(ids, id)
		}
		parts = append(parts, fmt.Sprintf("%d=%s", nameToUnix(e.Name()), strings.Join(ids, ",")))
	}
	sort.Strings(parts)
	return strings.Join(parts, ";")
}

// a line is "<id:N>" + '#'*k + "|k\n": self-validating
func mkLine(id string, size int) []byte {
	pad := strings.Repeat("#", size)
	return []byte(fmt.Sprintf("<id:%s>%s|%d\n", id, pad, size))
}
func lineOK(l []byte) bool {
	s := strings.TrimSuffix(string(l), "\n")
	i, j := strings.Index(s, ">"), strings.LastIndex(s, "|")
	if i < 0 || j < i {
		return false
	}
	n, err := strconv.Atoi(s[j+1:])
	return err == nil && s[i+1:j] == strings.Repeat("#", n) && strings.HasPrefix(s, "<id:")
}

func alignMidSecond() int64 {
	now := time.Now()
	if now.Nanosecond() > 800_000_000 {
		time.Sleep(time.Duration(1_030_000_000-now.Nanosecond()) * time.Nanosecond)
	}
	return time.Now().Unix()
}

// Sequential scenarios, run in parallel (each in its own directory).
// Case: "<intervalSec> <op> ..."  op: pre | S | X | w<id>:<size> | B (wait for the next interval boundary) | P0 / P1 (wait for an even / odd second) | s<ms> | R (directory renamed away) | U (restored)
// Observation: "<trace of op@unixSecond> | <final listing name=ids;...> | <panics/blocked>"
func runC13(cases []string, out *bufio.Writer, _ []string) {
	base, _ := os.MkdirTemp("/var/tmp", "verif-c13-")
	defer os.RemoveAll(base)
	results := make([]string, len(cases))
	var wg sync.WaitGroup
	sem := make(chan struct{}, 48)
	for i, line := range cases {
		wg.Add(1)
		sem <- struct{}{}
		go func(i int, line string) {
			defer func() { <-sem; wg.Done() }()
			results[i] = runC13Case(filepath.Join(base, strconv.Itoa(i)), line)
		}(i, line)
	}
	wg.Wait()
	for _, r := range results {
		fmt.Fprintln(out, r)
	}
}

func runC13Case(dir, line string) string {
	f := strings.Fields(line)
	iv, _ := strconv.Atoi(f[0])
	os.MkdirAll(dir, 0755)
	away := dir + ".away"
	a := &log.RollingFileAppender{FileDir: dir, FileName: "app.log", Rotation: log.TimeRotation{Interval: time.Duration(iv) * time.Second}, MaxAge: 24,
		Layout: rawMsgLayout{}}
	var trace, notes []string
	guardOp := func(name string, fn func()) {
		done := make(chan string, 1)
		go func() {
			if p, v := guard(fn); p {
				done <- fmt.Sprintf("panic(%s:%v)", name, v)
			} else {
				done <- ""
			}
		}()
		select {
		case r := <-done:
			if r != "" {
				notes = append(notes, strings.ReplaceAll(r, " ", "_"))
			}
		case <-time.After(5 * time.Second):
			notes = append(notes, "blocked("+name+")")
		}
	}
	for _, op := range f[1:] {
		switch {
		case op == "pre":
			sec := alignMidSecond()
			name := "app.log." + time.Unix(sec, 0).Format("20060102150405")
			os.WriteFile(filepath.Join(dir, name), mkLine("PRE", 3), 0644)
			trace = append(trace, fmt.Sprintf("pre@%d", sec))
		case op == "S":
			sec := alignMidSecond()
			var err error
			guardOp("Start", func() { err = a.Start() })
			if err != nil {
				trace = append(trace, fmt.Sprintf("Sfail@%d", sec))
			} else {
				trace = append(trace, fmt.Sprintf("S@%d", sec))
			}
		case op == "X":
			sec := alignMidSecond()
			guardOp("Stop", func() { a.Stop() })
			trace = append(trace, fmt.Sprintf("X@%d", sec))
		case op == "P0" || op == "P1": // wait for a second of the given parity (where the next call falls relative to a 2 s interval)
			for {
				sec := alignMidSecond()
				if fmt.Sprint(sec%2) == op[1:] {
					break
				}
				time.Sleep(time.Until(time.Unix(sec+1, 200_000_000)))
			}
		case op == "B":
			now := time.Now()
			next := now.Truncate(time.Duration(iv) * time.Second).Add(time.Duration(iv) * time.Second)
			time.Sleep(time.Until(next) + 40*time.Millisecond)
		case op == "R":
			os.Rename(dir, away)
			trace = append(trace, fmt.Sprintf("R@%d", time.Now().Unix()))
		case op == "U":
			os.Rename(away, dir)
			trace = append(trace, fmt.Sprintf("U@%d", time.Now().Unix()))
		case op[0] == 's':
			ms, _ := strconv.Atoi(op[1:])
			time.Sleep(time.Duration(ms) * time.Millisecond)
		case op[0] == 'a': // Append of an event that was stamped <lag> seconds ago (queued, or a lagging clock hook): a<id>:<size>:<lag>
			p := strings.Split(op[1:], ":")
			size, _ := strconv.Atoi(p[1])
			lag, _ := strconv.Atoi(p[2])
			sec := alignMidSecond()
			e := log.GetEvent()
			e.Level = log.InfoLevel
			e.Time = time.Now().Add(-time.Duration(lag) * time.Second)
			e.Fields = []log.Field{log.Msg(strings.TrimSuffix(string(mkLine(p[0], size)), "\n"))}
			guardOp("Append", func() { a.Append(e) })
			if time.Now().Unix() != sec {
				notes = append(notes, "straddle")
			}
			trace = append(trace, fmt.Sprintf("w%s@%d", p[0], sec))
		case op[0] == 'w':
			p := strings.Split(op[1:], ":")
			size, _ := strconv.Atoi(p[1])
			sec := alignMidSecond()
			guardOp("Write", func() { a.Write(mkLine(p[0], size)) })
			if time.Now().Unix() != sec {
				notes = append(notes, "straddle")
			}
			trace = append(trace, fmt.Sprintf("w%s@%d", p[0], sec))
		}
	}
	guardOp("Stop", func() { a.Stop() })
	if _, err := os.Stat(away); err == nil {
		os.Rename(away, dir)
	}
	time.Sleep(20 * time.Millisecond)
	res := fmt.Sprintf("%s | %s | %s", strings.Join(trace, " "), listDir(dir, "app.log"), strings.Join(notes, ","))
	os.RemoveAll(dir)
	return res
}

// Concurrent writers across real boundaries. Case: "<intervalSec> <writers> <boundaries> <maxSize> <outageFromBoundary> <outageBoundaries>"
// Output: "<id:completedAtUnixSec ...> | <listing> | <notes>"
func runC13Concurrent(cases []string, out *bufio.Writer, _ []string) {
	base, _ := os.MkdirTemp("/var/tmp", "verif-c13c-")
	defer os.RemoveAll(base)
	results := make([]string, len(cases))
	var wg sync.WaitGroup
	for i, line := range cases {
		wg.Add(1)
		go func(i int, line string) {
			defer wg.Done()
			f := strings.Fields(line)
			iv, _ := strconv.Atoi(f[0])
			nw, _ := strconv.Atoi(f[1])
			nb, _ := strconv.Atoi(f[2])
			maxSize, _ := strconv.Atoi(f[3])
			outFrom, _ := strconv.Atoi(f[4])
			outLen, _ := strconv.Atoi(f[5])
			dir := filepath.Join(base, strconv.Itoa(i))
			os.MkdirAll(dir, 0755)
			away := dir + ".away"
			a := &log.RollingFileAppender{FileDir: dir, FileName: "app.log", Rotation: log.TimeRotation{Interval: time.Duration(iv) * time.Second}, MaxAge: 24, Layout: &log.TextLayout{}}
			if err := a.Start(); err != nil {
				results[i] = "start-error"
				return
			}
			start := time.Now()
			first := start.Truncate(time.Duration(iv) * time.Second).Add(time.Duration(iv) * time.Second)
			end := first.Add(time.Duration(nb*iv)*time.Second - 300*time.Millisecond)
			var mu sync.Mutex
			var done []string
			var notes []string
			var wwg sync.WaitGroup
			for w := 0; w < nw; w++ {
				wwg.Add(1)
				go func(w int) {
					defer wwg.Done()
					for n := 0; time.Now().Before(end); n++ {
						id := fmt.Sprintf("%d.%d", w, n)
						size := (w*31 + n*7) % (maxSize + 1)
						if maxSize > 20000 { // large lines (up to 64 KiB and beyond): all writers start their calls on a common 4 ms beat, so that the calls overlap
							size = maxSize - (w*31+n*7)%(maxSize/2)
							time.Sleep(time.Until(time.Now().Truncate(4 * time.Millisecond).Add(4 * time.Millisecond)))
						}
						if p, v := guard(func() { a.Write(mkLine(id, size)) }); p {
							mu.Lock()
							notes = append(notes, fmt.Sprintf("panic(%v)", v))
							mu.Unlock()
							return
						}
						t := time.Now().Unix()
						mu.Lock()
						done = append(done, fmt.Sprintf("%s:%d", id, t))
						mu.Unlock()
						if n%50 == 49 {
							time.Sleep(time.Millisecond)
						}
						if n > 4000 {
							time.Sleep(2 * time.Millisecond)
						}
					}
				}(w)
			}
			if outLen > 0 { // a directory outage spanning boundaries
				go func() {
					time.Sleep(time.Until(first.Add(time.Duration((outFrom-1)*iv)*time.Second + 300*time.Millisecond)))
					os.Rename(dir, away)
					time.Sleep(time.Duration(outLen*iv) * time.Second)
					os.Rename(away, dir)
				}()
			}
			wdone := make(chan struct{})
			go func() { wwg.Wait(); close(wdone) }()
			if !waitSignal(wdone, time.Until(end)+20*time.Second) {
				notes = append(notes, "writers-blocked")
			}
			a.Stop()
			time.Sleep(time.Duration(outLen*iv)*time.Second/4 + 50*time.Millisecond)
			if _, err := os.Stat(away); err == nil {
				os.Rename(away, dir)
			}
			results[i] = fmt.Sprintf("%s | %s | %s", strings.Join(done, " "), listDir(dir, "app.log"), strings.Join(notes, ","))
			os.RemoveAll(dir)
		}(i, line)
	}
	wg.Wait()
	for _, r := range results {
		fmt.Fprintln(out, r)
	}
}

// rawMsgLayout writes the message field of an event as one line (so that appended events look like raw writes in the files).
type rawMsgLayout struct{}

func (rawMsgLayout) ToBytes(e *log.Event) []byte {
	for _, f := range e.Fields {
		if f.Key == log.MsgKey {
			var b bytes.Buffer
			enc := log.NewTextEncoder(&b, "||")
			f.Encode(enc)
			return append(bytes.TrimPrefix(b.Bytes(), []byte(log.MsgKey+"=")), '\n')
		}
	}
	return []byte("\n")
}

func init() { families["c13s"] = runC13StartAtBoundary }

// Appenders started right at an interval boundary. Case: "<rounds> <perRound>": in every round fresh appenders (1 s interval, one directory each)
// are started back to back from just before a boundary B to just after it; at B+250ms one writer writes one line to each, one at a time.
// The line must be in the file named for the interval of the write (B), whichever side of B the Start call fell on - or straddled.
// Observation: "<starts> <starts that straddled a boundary> <wrong> <first wrong ones>"
func runC13StartAtBoundary(cases []string, out *bufio.Writer, _ []string) {
	base, _ := os.MkdirTemp("/var/tmp", "verif-c13s-")
	defer os.RemoveAll(base)
	spinUntil := func(t time.Time) {
		if d := time.Until(t) - 3*time.Millisecond; d > 0 {
			time.Sleep(d)
		}
		for time.Now().Before(t) {
		}
	}
	for n, line := range cases {
		f := strings.Fields(line)
		rounds, _ := strconv.Atoi(f[0])
		per, _ := strconv.Atoi(f[1])
		starts, straddles, wrong := 0, 0, 0
		var first []string
		runtime.LockOSThread()
		for r := 0; r < rounds; r++ {
			type started struct {
				a      *log.RollingFileAppender
				dir    string
				t0, t1 time.Time
			}
			dirs := make([]string, per)
			for i := range dirs {
				dirs[i] = filepath.Join(base, fmt.Sprintf("%d-%d-%d", n, r, i))
				os.MkdirAll(dirs[i], 0755)
			}
			b := time.Now().Truncate(time.Second).Add(time.Second)
			if time.Until(b) < 50*time.Millisecond {
				b = b.Add(time.Second)
			}
			spinUntil(b.Add(-300 * time.Microsecond))
			var as []started
			for i := 0; i < per; i++ {
				a := &log.RollingFileAppender{FileDir: dirs[i], FileName: "app.log", Rotation: log.TimeRotation{Interval: time.Second}, MaxAge: 24}
				t0 := time.Now()
				if err := a.Start(); err != nil {
					continue
				}
				t1 := time.Now()
				as = append(as, started{a, dirs[i], t0, t1})
				if t1.After(b.Add(150 * time.Microsecond)) {
					break
				}
			}
			spinUntil(b.Add(250 * time.Millisecond))
			for i, s := range as {
				starts++
				if s.t0.Before(b) && !s.t1.Before(b) {
					straddles++
				}
				id := fmt.Sprintf("%d.%d", r, i)
				tw := time.Now()
				s.a.Write(mkLine(id, 10))
				twEnd := time.Now() // should this goroutine be descheduled across a second boundary inside the call, either second is right
				s.a.Stop()
				ok := false
				ents, _ := os.ReadDir(s.dir)
				var names []string
				for _, e := range ents {
					data, _ := os.ReadFile(filepath.Join(s.dir, e.Name()))
					if bytes.Contains(data, []byte("<id:"+id+">")) {
						names = append(names, e.Name())
						if u := nameToUnix(e.Name()); u >= tw.Unix() && u <= twEnd.Unix() {
							ok = true
						}
					}
				}
				if !ok || len(names) != 1 {
					wrong++
					if len(first) < 3 {
						first = append(first, fmt.Sprintf("write-at-%s-(start-%s..%s)-in-%s", tw.Format("05.000000"), s.t0.Format("05.000000"), s.t1.Format("05.000000"), strings.Join(names, "+")))
					}
				}
				os.RemoveAll(s.dir)
			}
			for _, d := range dirs {
				os.RemoveAll(d)
			}
		}
		runtime.UnlockOSThread()
		fmt.Fprintf(out, "%d %d %d %s\n", starts, straddles, wrong, strings.Join(first, ","))
	}
}

func init() { families["c19l"] = runC19LongInterval }

// A rotation interval of hours to days whose next boundary happens to be a few seconds away (intervals count from the zero time, so
// such an interval is found by search), and a directory outage across that boundary. Case: "<writers>"
// Observation: "<lines written> <lines found in the directory afterwards> <interval> <notes: panic(..) / writers-blocked>"
func runC19LongInterval(cases []string, out *bufio.Writer, _ []string) {
	base, _ := os.MkdirTemp("/var/tmp", "verif-c19l-")
	defer os.RemoveAll(base)
	for n, line := range cases {
		nw, _ := strconv.Atoi(strings.Fields(line)[0])
		// the boundary: 3..8 s from now, at a second that has a divisor between 2 h and 14 d
		const zeroToUnix = 62135596800
		var interval time.Duration
		var boundary time.Time
		// six consecutive seconds can all lack such a divisor (seen once): look again a second later, for up to two minutes
		for attempt := 0; attempt < 120 && interval == 0; attempt++ {
			for ahead := int64(3); ahead < 9 && interval == 0; ahead++ {
				ts := time.Now().Unix() + ahead + zeroToUnix
				for d := int64(7200 + 37*int64(n)); d < 14*86400; d++ {
					if ts%d == 0 {
						interval, boundary = time.Duration(d)*time.Second, time.Unix(ts-zeroToUnix, 0)
						break
					}
				}
			}
			if interval == 0 {
				time.Sleep(time.Second)
			}
		}
		if interval == 0 {
			fmt.Fprintln(out, "0 0 - no-interval-found")
			continue
		}
		dir := filepath.Join(base, strconv.Itoa(n))
		os.MkdirAll(dir, 0755)
		away := dir + ".away"
		a := &log.RollingFileAppender{FileDir: dir, FileName: "app.log", Rotation: log.TimeRotation{Interval: interval}, MaxAge: 24, Layout: &log.TextLayout{}}
		if err := a.Start(); err != nil {
			fmt.Fprintln(out, "0 0 - start-error")
			continue
		}
		end := boundary.Add(2500 * time.Millisecond)
		var mu sync.Mutex
		var notes []string
		written := 0
		var wwg sync.WaitGroup
		for w := 0; w < nw; w++ {
			wwg.Add(1)
			go func(w int) {
				defer wwg.Done()
				for k := 0; time.Now().Before(end); k++ {
					id := fmt.Sprintf("%d.%d", w, k)
					if p, v := guard(func() { a.Write(mkLine(id, 20)) }); p {
						mu.Lock()
						notes = append(notes, fmt.Sprintf("panic(%v)", strings.ReplaceAll(fmt.Sprint(v), " ", "_")))
						mu.Unlock()
						return
					}
					mu.Lock()
					written++
					mu.Unlock()
					time.Sleep(15 * time.Millisecond)
				}
			}(w)
		}
		go func() { // the directory is away from 1.5 s before the boundary to 1 s after it
			time.Sleep(time.Until(boundary.Add(-1500 * time.Millisecond)))
			os.Rename(dir, away)
			time.Sleep(2500 * time.Millisecond)
			os.Rename(away, dir)
		}()
		wdone := make(chan struct{})
		go func() { wwg.Wait(); close(wdone) }()
		if !waitSignal(wdone, time.Until(end)+15*time.Second) {
			notes = append(notes, "writers-blocked")
		}
		guard(func() { a.Stop() })
		time.Sleep(100 * time.Millisecond)
		if _, err := os.Stat(away); err == nil {
			os.Rename(away, dir)
		}
		found := 0
		ents, _ := os.ReadDir(dir)
		for _, e := range ents {
			b, _ := os.ReadFile(filepath.Join(dir, e.Name()))
			for _, l := range bytes.Split(b, []byte("\n")) {
				if len(l) > 0 && idOf(l) != "?" && lineOK(append(l, '\n')) {
					found++
				}
			}
		}
		mu.Lock()
		fmt.Fprintf(out, "%d %d %s %s\n", written, found, interval, strings.Join(notes, ","))
		mu.Unlock()
		os.RemoveAll(dir)
	}
}
