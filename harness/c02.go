package main

import (
	"bufio"
	"bytes"
	"context"
	"fmt"
	"os"
	"strings"

	"github.com/go-spring/log"
)

func init() { families["c02"] = runC02 }

// First line: "u <tag-hex> ..."  registers the universe of tags (the registry is global and never shrinks).
// Cases:      "c <loggerName-hex>:<tags-hex> ..."   ("root" is the root logger)
// Observation: "err" or, per universe tag in order, the name of the logger that served an Info logged
//              through it ("default" = built-in console logger).
func runC02(cases []string, out *bufio.Writer, _ []string) {
	var tags []*log.Tag
	ctx := context.Background()
	for _, line := range cases {
		f := strings.Fields(line)
		if f[0] == "u" {
			for _, h := range f[1:] {
				tags = append(tags, log.RegisterTag(unhex(h)))
			}
			fmt.Fprintln(out, "u")
			continue
		}
		cfg := map[string]string{}
		var names []string
		for _, spec := range f[1:] {
			p := strings.Split(spec, ":")
			name, tg := unhex(p[0]), unhex(p[1])
			names = append(names, name)
			cfg["appender.ap"+name+".type"] = "Rec"
			cfg["logger."+name+".type"] = "Logger"
			cfg["logger."+name+".appenderRef.ref"] = "ap" + name
			if tg != "" || p[1] != "-" {
				cfg["logger."+name+".tags"] = tg
			}
		}
		if len(names) == 0 {
			cfg["appender.unused.type"] = "Rec"
		}
		recReset()
		stdout := &syncBuffer{}
		log.Stdout = stdout
		var err error
		if pan, v := guard(func() { err = log.Refresh(cfg) }); pan {
			fmt.Fprintf(out, "panic %v\n", v)
			guard(func() { log.Destroy() })
			continue
		}
		if err != nil {
			fmt.Fprintln(out, "err")
			continue
		}
		for i, t := range tags {
			log.Info(ctx, t, log.Msg(fmt.Sprintf("<t%d>", i)))
		}
		log.Destroy()
		log.Stdout = os.Stdout
		snap := recSnapshot()
		var obs []string
		for i := range tags {
			id := []byte(fmt.Sprintf("<t%d>", i))
			var got []string
			for _, n := range names {
				for _, it := range snap["ap"+n] {
					if bytes.Contains(it.Data, id) {
						got = append(got, n)
					}
				}
			}
			if bytes.Contains(stdout.Bytes(), id) {
				got = append(got, "default")
			}
			obs = append(obs, strings.Join(got, "+"))
		}
		fmt.Fprintln(out, strings.Join(obs, " "))
	}
}
