package main

import (
	"bufio"
	"bytes"
	"context"
	"fmt"
	"os"
	"path/filepath"
	"strings"

	"github.com/go-spring/log"
)

func init() { families["c02"] = runC02 }

// First line: "u <tag-hex> ..."  registers the universe of tags (the registry is global and never shrinks).
// Cases:      "c <loggerName-hex>:<tags-hex> ..."   ("root" is the root logger)
// Observation: "err" or, per universe tag in order, the name of the logger that served an Info logged
//              through it ("default" = built-in console logger).
func runC02(cases []string, out *bufio.Writer, _ []string) {
	var tags []*log.Tag
	ctx := context.Background()
	base, _ := os.MkdirTemp("/var/tmp", "verif-c02-")
	defer os.RemoveAll(base)
	for _, line := range cases {
		f := strings.Fields(line)
		if f[0] == "u" {
			for _, h := range f[1:] {
				tags = append(tags, log.RegisterTag(unhex(h)))
			}
			fmt.Fprintln(out, "u")
			continue
		}
		cfg := map[string]string{"appender.unused.type": "Rec"}
		var names []string
		kinds := map[string]string{}
		os.RemoveAll(base)
		for _, spec := range f[1:] {
			p := strings.Split(spec, ":")
			name, tg := unhex(p[0]), unhex(p[1])
			names = append(names, name)
			kind := "L"
			if len(p) > 2 {
				kind = p[2]
			}
			kinds[name] = kind
			switch kind {
			case "F", "R": // the File / RollingFile logger plugins: observed through their own directory
				dir := filepath.Join(base, name)
				os.MkdirAll(dir, 0755)
				cfg["logger."+name+".type"] = map[string]string{"F": "File", "R": "RollingFile"}[kind]
				cfg["logger."+name+".fileDir"], cfg["logger."+name+".fileName"] = dir, "out.log"
				if kind == "R" {
					cfg["logger."+name+".rotation"] = "h"
				}
			case "C": // the Console logger plugin (at most one per case): told apart from the built-in console logger by its JSON layout
				cfg["logger."+name+".type"] = "Console"
				cfg["logger."+name+".layout.type"] = "JSONLayout"
			default:
				cfg["appender.ap"+name+".type"] = "Rec"
				cfg["logger."+name+".type"] = map[string]string{"L": "Logger", "A": "AsyncLogger"}[kind]
				cfg["logger."+name+".appenderRef.ref"] = "ap" + name
			}
			if tg != "" || p[1] != "-" {
				cfg["logger."+name+".tags"] = tg
			}
		}
		recReset()
		stdout := &syncBuffer{}
		log.Stdout = stdout
		var err error
		if pan, v := guard(func() { err = log.Refresh(cfg) }); pan {
			fmt.Fprintf(out, "panic %v\n", v)
			guard(func() { log.Destroy() })
			continue
		}
		if err != nil {
			fmt.Fprintln(out, "err")
			continue
		}
		for i, t := range tags {
			log.Info(ctx, t, log.Msg(fmt.Sprintf("<t%d>", i)))
		}
		log.Destroy()
		log.Stdout = os.Stdout
		snap := recSnapshot()
		fileData := map[string][]byte{}
		for _, n := range names {
			if kinds[n] == "F" || kinds[n] == "R" {
				ents, _ := os.ReadDir(filepath.Join(base, n))
				for _, e := range ents {
					b, _ := os.ReadFile(filepath.Join(base, n, e.Name()))
					fileData[n] = append(fileData[n], b...)
				}
			}
		}
		var obs []string
		for i := range tags {
			id := []byte(fmt.Sprintf("<t%d>", i))
			var got []string
			for _, n := range names {
				switch kinds[n] {
				case "F", "R":
					if bytes.Contains(fileData[n], id) {
						got = append(got, n)
					}
				case "C":
					for _, l := range bytes.Split(stdout.Bytes(), []byte("\n")) {
						if bytes.HasPrefix(l, []byte("{")) && bytes.Contains(l, id) {
							got = append(got, n)
						}
					}
				default:
					for _, it := range snap["ap"+n] {
						if bytes.Contains(it.Data, id) {
							got = append(got, n)
						}
					}
				}
			}
			for _, l := range bytes.Split(stdout.Bytes(), []byte("\n")) {
				if !bytes.HasPrefix(l, []byte("{")) && bytes.Contains(l, id) {
					got = append(got, "default")
				}
			}
			obs = append(obs, strings.Join(got, "+"))
		}
		fmt.Fprintln(out, strings.Join(obs, " "))
	}
}
