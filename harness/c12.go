package main

import (
	"bufio"
	"fmt"
	"io"
	"os"
	"strconv"
	"strings"
	"sync"
	"sync/atomic"
	"time"

	"github.com/go-spring/log"
)

func init() { families["c12"] = runC12 }

// Case: "<kind sync|async|ghost> <policy> <refLevel-hex>,<refLevel-hex>... <op> <op> ..."
//   op: s<hex> (overwrite the caller's single buffer), w (handle.Write(buf)), g (park the appenders), o (let them run),
//       c<writers>.<n> (concurrent writers, each with its own numbered payloads)
// Observation: "err" | "n=<returned lengths> same=<0|1> a0=<hex,hex,...> a1=..."
func runC12(cases []string, out *bufio.Writer, args []string) {
	for _, c := range c01Custom {
		log.RegisterLevel(c.code, c.name)
	}
	hLg, hRoot := log.GetLogger("lg"), log.GetLogger("root")
	h := hLg
	same := "1"
	if log.GetLogger("lg") != hLg || log.GetLogger("root") != hRoot {
		same = "0"
	}
	if len(args) > 0 && args[0] == "ghost" {
		log.GetLogger("ghost") // a handle whose name no configuration declares
	}
	var gateMu sync.Mutex
	gate := make(chan struct{})
	closed := false
	var slow atomic.Bool
	recGate = func(string) {
		gateMu.Lock()
		g, c := gate, closed
		gateMu.Unlock()
		if c {
			<-g
		}
		if slow.Load() {
			time.Sleep(200 * time.Microsecond)
		}
	}
	defer func() { recGate = nil }()
	for _, line := range cases {
		f := strings.Fields(line)
		kind, pol := f[0], f[1]
		refs := strings.Split(f[2], ",")
		// kinds ending in "root": the logger is the one configured under the reserved name "root" and the handle is the one of that name
		lg := "lg"
		h = hLg
		if strings.HasSuffix(kind, "root") {
			lg, h, kind = "root", hRoot, strings.TrimSuffix(kind, "root")
		}
		cfg := map[string]string{"logger." + lg + ".level": "info"}
		cfg["logger.lg.tags"] = "_c12_*"
		if lg == "root" { // the handle "lg" exists in this process, so its name must stay configured
			cfg["logger.lg.type"], cfg["logger.lg.appenderRef.ref"], cfg["appender.other.type"] = "Logger", "other", "Rec"
		}
		if kind == "async" || kind == "async100" {
			cfg["logger."+lg+".type"] = "AsyncLogger"
			cfg["logger."+lg+".bufferFullPolicy"] = pol
			cfg["logger."+lg+".bufferSize"] = "100000"
			if kind == "async100" {
				cfg["logger."+lg+".bufferSize"] = "100"
			}
		} else {
			cfg["logger."+lg+".type"] = "Logger"
		}
		for i, r := range refs {
			cfg[fmt.Sprintf("appender.a%d.type", i)] = "Rec"
			cfg[fmt.Sprintf("logger.%s.appenderRef[%d].ref", lg, i)] = fmt.Sprintf("a%d", i)
			cfg[fmt.Sprintf("logger.%s.appenderRef[%d].level", lg, i)] = unhex(r)
		}
		recReset()
		slow.Store(false)
		if err := log.Refresh(cfg); err != nil {
			if os.Getenv("VERIF_DEBUG") != "" {
				fmt.Fprintln(os.Stderr, "refresh error:", err)
			}
			fmt.Fprintln(out, "err")
			continue
		}
		var buf []byte
		var ns []string
		for _, op := range f[3:] {
			switch op[0] {
			case 's':
				buf = append(buf[:0], unhex(op[1:])...)
			case 'f': // fill: n distinct payloads, each from a fresh buffer
				k, _ := strconv.Atoi(op[1:])
				for i := 0; i < k; i++ {
					h.Write([]byte(fmt.Sprintf("F%d;", i)))
				}
			case 'w':
				type wr struct {
					n   int
					err error
				}
				ch := make(chan wr, 1)
				go func() { n, err := h.Write(buf); ch <- wr{n, err} }()
				var r wr
				select {
				case r = <-ch:
				case <-time.After(40 * time.Millisecond): // parked in a blocking send: let the (slowed down) appenders run
					slow.Store(true)
					gateMu.Lock()
					if closed {
						close(gate)
						closed = false
					}
					gateMu.Unlock()
					r = <-ch
				}
				if r.err != nil {
					ns = append(ns, "error")
				} else {
					ns = append(ns, strconv.Itoa(r.n))
				}
			case 'g':
				gateMu.Lock()
				gate, closed = make(chan struct{}), true
				gateMu.Unlock()
			case 'o':
				gateMu.Lock()
				if closed {
					close(gate)
					closed = false
				}
				gateMu.Unlock()
			case 'c':
				p := strings.Split(op[1:], ".")
				nw, _ := strconv.Atoi(p[0])
				k, _ := strconv.Atoi(p[1])
				var wg sync.WaitGroup
				for w := 0; w < nw; w++ {
					wg.Add(1)
					go func(w int) {
						defer wg.Done()
						var b []byte
						for i := 0; i < k; i++ {
							if w%2 == 1 { // every other writer hands over strings (io.WriteString uses a WriteString method when the handle has one)
								io.WriteString(h, fmt.Sprintf("W%d.%d;", w, i))
								continue
							}
							b = append(b[:0], fmt.Sprintf("W%d.%d;", w, i)...)
							h.Write(b)
						}
					}(w)
				}
				wg.Wait()
			}
		}
		gateMu.Lock()
		if closed {
			close(gate)
			closed = false
		}
		gateMu.Unlock()
		if lg == "root" { // the process has a second handle, bound to another logger: what goes through it must arrive there and only there
			hLg.Write([]byte("THROUGH-THE-OTHER-HANDLE;"))
		}
		done := make(chan struct{})
		go func() { log.Destroy(); close(done) }()
		if !waitSignal(done, 10*time.Second) {
			fmt.Fprintln(out, "destroy-hangs")
			continue
		}
		snap := recSnapshot()
		var parts []string
		for i := range refs {
			var got []string
			for _, it := range snap[fmt.Sprintf("a%d", i)] {
				if it.Kind == 'w' {
					got = append(got, tohex(string(it.Data)))
				} else {
					got = append(got, "EVENT")
				}
			}
			parts = append(parts, fmt.Sprintf("a%d=%s", i, strings.Join(got, ",")))
		}
		sameNow := same
		if lg == "root" {
			o := snap["other"]
			if len(o) != 1 || string(o[0].Data) != "THROUGH-THE-OTHER-HANDLE;" {
				sameNow = "0-second-handle-misrouted"
			}
			for i := range refs {
				for _, it := range snap[fmt.Sprintf("a%d", i)] {
					if string(it.Data) == "THROUGH-THE-OTHER-HANDLE;" {
						sameNow = "0-second-handle-misrouted"
					}
				}
			}
		}
		fmt.Fprintf(out, "n=%s same=%s %s\n", strings.Join(ns, ","), sameNow, strings.Join(parts, " "))
	}
}
