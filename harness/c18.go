package main

import (
	"bufio"
	"fmt"
	"os"
	"strings"

	"github.com/go-spring/log"
)

func init() { families["c18"] = runC18 }

// Cases:  "v <hex>"            -> "1" / "0"            (isValidTag through the verif hook)
//         "r <hex> <hex> ..."  -> per op "ok<same>" or "panic", then "|" and GetAllTags (hex)
//         "b <main> <sub> <action>" -> "panic" or the tag (hex) and whether RegisterTag accepts it
func runC18(cases []string, out *bufio.Writer, _ []string) {
	ptrs := map[string]*log.Tag{}
	for _, c := range cases {
		f := strings.Fields(c)
		switch f[0] {
		case "v":
			if log.VerifIsValidTag(unhex(f[1])) {
				fmt.Fprintln(out, "1")
			} else {
				fmt.Fprintln(out, "0")
			}
		case "r":
			var obs []string
			for _, h := range f[1:] {
				name := unhex(h)
				var t *log.Tag
				before := len(log.GetAllTags())
				p, _ := guard(func() { t = log.RegisterTag(name) })
				if p {
					if len(log.GetAllTags()) != before {
						obs = append(obs, "panic-but-registered")
					} else {
						obs = append(obs, "panic")
					}
					continue
				}
				same := "1"
				if old, ok := ptrs[name]; ok && old != t {
					same = "0"
				}
				if _, ok := ptrs[name]; !ok { // compared with the object handed out at the FIRST registration
					ptrs[name] = t
				}
				obs = append(obs, "ok"+same)
			}
			var tags []string
			for _, t := range log.GetAllTags() {
				tags = append(tags, tohex(t))
			}
			fmt.Fprintln(out, strings.Join(obs, " ")+" | "+strings.Join(tags, " "))
		case "R": // a configuration goes live (the registry is read while it is), a registration is attempted, the configuration is destroyed
			stdout := &syncBuffer{}
			log.Stdout = stdout
			if err := log.Refresh(map[string]string{"appender.a.type": "Console"}); err != nil {
				fmt.Fprintln(out, "refresh-error")
				continue
			}
			n1 := len(log.GetAllTags())
			acc := "accepted-while-live"
			if p, _ := guard(func() { log.RegisterTag(unhex(f[1])) }); p {
				acc = "panic"
			}
			n2 := len(log.GetAllTags())
			log.Destroy()
			log.Stdout = os.Stdout
			var tags []string
			for _, t := range log.GetAllTags() {
				tags = append(tags, tohex(t))
			}
			if n1 != n2 {
				acc += "-and-the-list-changed"
			}
			fmt.Fprintln(out, acc+" | "+strings.Join(tags, " "))
		case "b":
			var tag string
			p, _ := guard(func() { tag = log.BuildTag(unhex(f[1]), unhex(f[2]), unhex(f[3])) })
			if p {
				fmt.Fprintln(out, "panic")
				continue
			}
			acc := "1"
			reg := func() { log.RegisterTag(tag) }
			switch unhex(f[1]) { // the typed helpers are the way such names get registered: same language, same registry
			case "app":
				reg = func() { log.RegisterAppTag(unhex(f[2]), unhex(f[3])) }
			case "biz":
				reg = func() { log.RegisterBizTag(unhex(f[2]), unhex(f[3])) }
			case "rpc":
				reg = func() { log.RegisterRPCTag(unhex(f[2]), unhex(f[3])) }
			}
			if p2, _ := guard(reg); p2 {
				acc = "0"
			}
			if acc == "1" { // what the registry then lists must be the assembled name
				found := false
				for _, t := range log.GetAllTags() {
					found = found || t == tag
				}
				if !found {
					acc = "1-but-not-listed"
				}
			}
			fmt.Fprintln(out, tohex(tag)+" "+acc)
		}
	}
}
