package main

import (
	"bufio"
	"errors"
	"fmt"
	"io"
	"os"
	"path/filepath"
	"strings"
	"time"

	"github.com/go-spring/log"
)

func init() { families["c19x"] = runC19Sinks }

type failingWriter struct{}

type writerFunc func([]byte) (int, error)

func (f writerFunc) Write(b []byte) (int, error) { return f(b) }

func (failingWriter) Write([]byte) (int, error) { return 0, errors.New("sink failed") }

// I/O failures of any appender never surface as a panic or a blocked call.
// Case: one scenario name; observation: "<outcome per step>"
func runC19Sinks(cases []string, out *bufio.Writer, _ []string) {
	base, _ := os.MkdirTemp("/var/tmp", "verif-c19x-")
	defer os.RemoveAll(base)
	ev := func(id string) *log.Event {
		e := log.GetEvent()
		e.Level = log.InfoLevel
		e.Fields = []log.Field{log.Msg(id)}
		return e
	}
	step := func(f func()) string {
		done := make(chan string, 1)
		go func() {
			if p, v := guard(f); p {
				done <- "panic(" + strings.ReplaceAll(fmt.Sprint(v), " ", "_") + ")"
			} else {
				done <- "ok"
			}
		}()
		select {
		case r := <-done:
			return r
		case <-time.After(3 * time.Second):
			return "blocked"
		}
	}
	for n, c := range cases {
		dir := filepath.Join(base, fmt.Sprint(n))
		var obs []string
		switch c {
		case "file-missing-dir":
			a := &log.FileAppender{Layout: &log.TextLayout{}, FileDir: filepath.Join(dir, "nope"), FileName: "a.log"}
			var err error
			obs = append(obs, step(func() { err = a.Start() }))
			if err == nil {
				obs = append(obs, "start-should-fail")
			}
			obs = append(obs, step(func() { a.Append(ev("x")) }), step(func() { a.Write([]byte("y\n")) }), step(func() { a.Stop() }), step(func() { a.Stop() }))
		case "file-closed":
			os.MkdirAll(dir, 0755)
			a := &log.FileAppender{Layout: &log.JSONLayout{}, FileDir: dir, FileName: "a.log"}
			obs = append(obs, step(func() { a.Start() }), step(func() { a.Append(ev("x")) }), step(func() { a.Stop() }),
				step(func() { a.Append(ev("after-stop")) }), step(func() { a.Write([]byte("z\n")) }), step(func() { a.Stop() }))
		case "file-unlinked-dir":
			os.MkdirAll(dir, 0755)
			a := &log.FileAppender{Layout: &log.TextLayout{}, FileDir: dir, FileName: "a.log"}
			obs = append(obs, step(func() { a.Start() }))
			os.RemoveAll(dir)
			obs = append(obs, step(func() { a.Append(ev("x")) }), step(func() { a.Stop() }))
		case "console-failing", "console-short-0", "console-zero-nil", "console-partial-short", "console-partial-err", "console-full-err":
			// every way an io.Writer can fail: no progress with an error / with io.ErrShortWrite / with nil, partial progress, full length plus an error
			log.Stdout = map[string]io.Writer{
				"console-failing":       failingWriter{},
				"console-short-0":       writerFunc(func(b []byte) (int, error) { return 0, io.ErrShortWrite }),
				"console-zero-nil":      writerFunc(func(b []byte) (int, error) { return 0, nil }),
				"console-partial-short": writerFunc(func(b []byte) (int, error) { return len(b) / 2, io.ErrShortWrite }),
				"console-partial-err":   writerFunc(func(b []byte) (int, error) { return len(b) / 2, errors.New("disk full") }),
				"console-full-err":      writerFunc(func(b []byte) (int, error) { return len(b), errors.New("late error") }),
			}[c]
			a := &log.ConsoleAppender{Layout: &log.TextLayout{}}
			l := &log.ConsoleLogger{LoggerBase: log.LoggerBase{Level: log.LevelRange{MinLevel: log.NoneLevel, MaxLevel: log.MaxLevel}}, ConsoleAppender: log.ConsoleAppender{Layout: &log.JSONLayout{}}}
			obs = append(obs, step(func() { a.Start() }), step(func() { a.Append(ev("x")) }), step(func() { a.Write([]byte("y")) }), step(func() { a.Write(nil) }), step(func() { a.Stop() }),
				step(func() { l.Append(ev("z")) }), step(func() { l.Write([]byte("raw")) }))
			log.Stdout = os.Stdout
		case "rolling-missing-dir":
			a := &log.RollingFileAppender{Layout: &log.TextLayout{}, FileDir: filepath.Join(dir, "nope"), FileName: "a.log", Rotation: log.TimeRotation{Interval: time.Second}, MaxAge: 1}
			var err error
			obs = append(obs, step(func() { err = a.Start() }))
			if err == nil {
				obs = append(obs, "start-should-fail")
			}
			obs = append(obs, step(func() { a.Append(ev("x")) }), step(func() { a.Write([]byte("y\n")) }), step(func() { a.Stop() }), step(func() { a.Stop() }))
		case "rolling-stopped":
			os.MkdirAll(dir, 0755)
			a := &log.RollingFileAppender{Layout: &log.TextLayout{}, FileDir: dir, FileName: "a.log", Rotation: log.TimeRotation{Interval: time.Second}, MaxAge: 1}
			obs = append(obs, step(func() { a.Start() }), step(func() { a.Write([]byte("y\n")) }), step(func() { a.Stop() }), step(func() { a.Write([]byte("z\n")) }),
				step(func() { a.Stop() }))
		}
		fmt.Fprintln(out, strings.Join(obs, " "))
	}
}
