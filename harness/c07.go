package main

import (
	"bufio"
	"encoding/hex"
	"encoding/json"
	"errors"
	"fmt"
	"math"
	"strconv"
	"strings"
	"time"

	"github.com/go-spring/log"
)

func init() { families["c07"] = runC07 }

// token cursor over a space-separated case line; builds the "resolved" token list on the way
type cur struct {
	t   []string
	i   int
	res []string
}

func (c *cur) next() string {
	s := c.t[c.i]
	c.i++
	c.res = append(c.res, s)
	return s
}
func (c *cur) int() int       { n, _ := strconv.Atoi(c.next()); return n }
func (c *cur) str() string    { return unhex(c.next()) }
func (c *cur) z() int64       { n, _ := strconv.ParseInt(c.next(), 10, 64); return n }
func (c *cur) n() uint64      { n, _ := strconv.ParseUint(c.next(), 10, 64); return n }
func (c *cur) boolean() bool  { return c.next() == "1" }
func (c *cur) float() float64 { // <bits-hex>:<f|x>:<tok-hex>
	p := strings.Split(c.next(), ":")
	b, _ := strconv.ParseUint(p[0], 16, 64)
	return math.Float64frombits(b)
}

func mkInt(w int, key string, z int64) log.Field {
	switch w {
	case 8:
		return log.Int(key, int8(z))
	case 16:
		return log.Int(key, int16(z))
	case 32:
		return log.Int(key, int32(z))
	case 64:
		return log.Int(key, int64(z))
	}
	return log.Int(key, int(z))
}
func mkIntPtr(w int, key string, nilp bool, z int64) log.Field {
	switch w {
	case 8:
		if nilp {
			return log.IntPtr[int8](key, nil)
		}
		v := int8(z)
		return log.IntPtr(key, &v)
	case 16:
		if nilp {
			return log.IntPtr[int16](key, nil)
		}
		v := int16(z)
		return log.IntPtr(key, &v)
	case 32:
		if nilp {
			return log.IntPtr[int32](key, nil)
		}
		v := int32(z)
		return log.IntPtr(key, &v)
	case 64:
		if nilp {
			return log.IntPtr[int64](key, nil)
		}
		v := int64(z)
		return log.IntPtr(key, &v)
	}
	if nilp {
		return log.IntPtr[int](key, nil)
	}
	v := int(z)
	return log.IntPtr(key, &v)
}
func conv[T any, S any](in []S, f func(S) T) []T {
	out := make([]T, len(in))
	for i, v := range in {
		out[i] = f(v)
	}
	return out
}
func mkInts(w int, key string, zs []int64) log.Field {
	switch w {
	case 8:
		return log.Ints(key, conv(zs, func(z int64) int8 { return int8(z) }))
	case 16:
		return log.Ints(key, conv(zs, func(z int64) int16 { return int16(z) }))
	case 32:
		return log.Ints(key, conv(zs, func(z int64) int32 { return int32(z) }))
	case 64:
		return log.Ints(key, zs)
	}
	return log.Ints(key, conv(zs, func(z int64) int { return int(z) }))
}
func mkUint(w int, key string, n uint64) log.Field {
	switch w {
	case 8:
		return log.Uint(key, uint8(n))
	case 16:
		return log.Uint(key, uint16(n))
	case 32:
		return log.Uint(key, uint32(n))
	case 64:
		return log.Uint(key, uint64(n))
	}
	return log.Uint(key, uint(n))
}
func mkUintPtr(w int, key string, nilp bool, n uint64) log.Field {
	switch w {
	case 8:
		if nilp {
			return log.UintPtr[uint8](key, nil)
		}
		v := uint8(n)
		return log.UintPtr(key, &v)
	case 16:
		if nilp {
			return log.UintPtr[uint16](key, nil)
		}
		v := uint16(n)
		return log.UintPtr(key, &v)
	case 32:
		if nilp {
			return log.UintPtr[uint32](key, nil)
		}
		v := uint32(n)
		return log.UintPtr(key, &v)
	case 64:
		if nilp {
			return log.UintPtr[uint64](key, nil)
		}
		v := n
		return log.UintPtr(key, &v)
	}
	if nilp {
		return log.UintPtr[uint](key, nil)
	}
	v := uint(n)
	return log.UintPtr(key, &v)
}
func mkUints(w int, key string, ns []uint64) log.Field {
	switch w {
	case 8:
		return log.Uints(key, conv(ns, func(z uint64) uint8 { return uint8(z) }))
	case 16:
		return log.Uints(key, conv(ns, func(z uint64) uint16 { return uint16(z) }))
	case 32:
		return log.Uints(key, conv(ns, func(z uint64) uint32 { return uint32(z) }))
	case 64:
		return log.Uints(key, ns)
	}
	return log.Uints(key, conv(ns, func(z uint64) uint { return uint(z) }))
}

type probeStruct struct {
	A int
	B string
}

// badMarshaler cannot be marshalled; the error text is arbitrary.
type badMarshaler struct{ msg string }

func (b badMarshaler) MarshalJSON() ([]byte, error) { return nil, errors.New(b.msg) }

// defined types over basic kinds, with and without marshalling methods of their own: what such a value logs as is decided by
// encoding/json (MarshalJSON, then MarshalText, then the kind), not by the kind alone
type defInt int64
type defUint uint32
type defStr string
type defBool bool
type textInt int
type textStr string
type jsonStr string

func (t textInt) MarshalText() ([]byte, error) { return []byte("st-" + strconv.Itoa(int(t))), nil }
func (t textStr) MarshalText() ([]byte, error) { return []byte("<" + strings.ToUpper(string(t)) + ">"), nil }
func (t jsonStr) MarshalJSON() ([]byte, error) {
	b, _ := json.Marshal(string(t))
	return []byte(`{"v":` + string(b) + `}`), nil
}

// rval builds a Go value for Reflect/Any-other, appends its resolution (json.Marshal text or error) to res.
func (c *cur) rval() any {
	start := len(c.res)
	v := c.rvalRaw()
	c.res = c.res[:start]
	b, err := json.Marshal(v)
	if err != nil {
		c.res = append(c.res, "rx", tohex(err.Error()))
	} else {
		c.res = append(c.res, "rt", tohex(string(b)))
	}
	return v
}
func (c *cur) rvalRaw() any {
	switch k := c.next(); k {
	case "rn":
		return nil
	case "rb":
		return c.boolean()
	case "ri":
		return c.z()
	case "rs":
		return c.str()
	case "rl":
		n := c.int()
		l := make([]any, n)
		for i := range l {
			l[i] = c.rvalRaw()
		}
		return l
	case "rm":
		n := c.int()
		m := map[string]any{}
		for i := 0; i < n; i++ {
			k := c.str()
			m[k] = c.rvalRaw()
		}
		return m
	case "rc":
		return make(chan int)
	case "rbm":
		return badMarshaler{c.str()}
	case "rdi":
		return defInt(c.z())
	case "rdu":
		return defUint(c.z())
	case "rds":
		return defStr(c.str())
	case "rdb":
		return defBool(c.boolean())
	case "rti":
		return textInt(c.z())
	case "rts":
		return textStr(c.str())
	case "rjs":
		return jsonStr(c.str())
	case "rjn":
		return json.Number(c.str())
	case "rrm":
		return json.RawMessage(c.str())
	case "rf":
		return func() {}
	case "rst":
		return probeStruct{A: int(c.z()), B: c.str()}
	case "re":
		return errors.New(c.str())
	case "rt", "rx": // already resolved (replay of a resolved case): reproduce via RawMessage / failing marshaler
		s := c.str()
		if k == "rt" {
			return json.RawMessage(s)
		}
		return make(chan int)
	}
	panic("bad rval")
}

func (c *cur) gval() any {
	switch k := c.next(); k {
	case "nil":
		return nil
	case "b":
		return c.boolean()
	case "bp":
		if t := c.next(); t != "n" {
			v := t == "1"
			return &v
		}
		return (*bool)(nil)
	case "bs":
		n := c.int()
		l := make([]bool, n)
		for i := range l {
			l[i] = c.boolean()
		}
		return l
	case "i", "ip", "is":
		w := c.int()
		switch k {
		case "i":
			z := c.z()
			switch w {
			case 8:
				return int8(z)
			case 16:
				return int16(z)
			case 32:
				return int32(z)
			case 64:
				return int64(z)
			}
			return int(z)
		case "ip":
			t := c.next()
			z, _ := strconv.ParseInt(t, 10, 64)
			nilp := t == "n"
			switch w {
			case 8:
				if nilp {
					return (*int8)(nil)
				}
				v := int8(z)
				return &v
			case 16:
				if nilp {
					return (*int16)(nil)
				}
				v := int16(z)
				return &v
			case 32:
				if nilp {
					return (*int32)(nil)
				}
				v := int32(z)
				return &v
			case 64:
				if nilp {
					return (*int64)(nil)
				}
				v := int64(z)
				return &v
			}
			if nilp {
				return (*int)(nil)
			}
			v := int(z)
			return &v
		default:
			n := c.int()
			zs := make([]int64, n)
			for i := range zs {
				zs[i] = c.z()
			}
			switch w {
			case 8:
				return conv(zs, func(z int64) int8 { return int8(z) })
			case 16:
				return conv(zs, func(z int64) int16 { return int16(z) })
			case 32:
				return conv(zs, func(z int64) int32 { return int32(z) })
			case 64:
				return zs
			}
			return conv(zs, func(z int64) int { return int(z) })
		}
	case "u", "up", "us":
		w := c.int()
		switch k {
		case "u":
			z := c.n()
			switch w {
			case 8:
				return uint8(z)
			case 16:
				return uint16(z)
			case 32:
				return uint32(z)
			case 64:
				return uint64(z)
			}
			return uint(z)
		case "up":
			t := c.next()
			z, _ := strconv.ParseUint(t, 10, 64)
			nilp := t == "n"
			switch w {
			case 8:
				if nilp {
					return (*uint8)(nil)
				}
				v := uint8(z)
				return &v
			case 16:
				if nilp {
					return (*uint16)(nil)
				}
				v := uint16(z)
				return &v
			case 32:
				if nilp {
					return (*uint32)(nil)
				}
				v := uint32(z)
				return &v
			case 64:
				if nilp {
					return (*uint64)(nil)
				}
				v := z
				return &v
			}
			if nilp {
				return (*uint)(nil)
			}
			v := uint(z)
			return &v
		default:
			n := c.int()
			zs := make([]uint64, n)
			for i := range zs {
				zs[i] = c.n()
			}
			switch w {
			case 8:
				return conv(zs, func(z uint64) uint8 { return uint8(z) })
			case 16:
				return conv(zs, func(z uint64) uint16 { return uint16(z) })
			case 32:
				return conv(zs, func(z uint64) uint32 { return uint32(z) })
			case 64:
				return zs
			}
			return conv(zs, func(z uint64) uint { return uint(z) })
		}
	case "f":
		w := c.int()
		v := c.float()
		if w == 32 {
			return float32(v)
		}
		return v
	case "fp":
		w := c.int()
		if c.t[c.i] == "n" {
			c.next()
			if w == 32 {
				return (*float32)(nil)
			}
			return (*float64)(nil)
		}
		v := c.float()
		if w == 32 {
			x := float32(v)
			return &x
		}
		return &v
	case "fs":
		w := c.int()
		n := c.int()
		vs := make([]float64, n)
		for i := range vs {
			vs[i] = c.float()
		}
		if w == 32 {
			return conv(vs, func(v float64) float32 { return float32(v) })
		}
		return vs
	case "s":
		return c.str()
	case "sp":
		if t := c.next(); t != "n" {
			v := unhex(t)
			return &v
		}
		return (*string)(nil)
	case "ss":
		n := c.int()
		l := make([]string, n)
		for i := range l {
			l[i] = c.str()
		}
		return l
	case "o":
		return c.rval()
	}
	panic("bad gval")
}

// replayArray is a custom ArrayValue that replays a list of encoder calls.
type replayArray []func(enc log.Encoder)

func (r replayArray) EncodeArray(enc log.Encoder) {
	for _, f := range r {
		f(enc)
	}
}

func (c *cur) elem() func(enc log.Encoder) {
	switch k := c.next(); k {
	case "eb":
		v := c.boolean()
		return func(e log.Encoder) { e.AppendBool(v) }
	case "ei":
		v := c.z()
		return func(e log.Encoder) { e.AppendInt64(v) }
	case "eu":
		v := c.n()
		return func(e log.Encoder) { e.AppendUint64(v) }
	case "ef":
		v := c.float()
		return func(e log.Encoder) { e.AppendFloat64(v) }
	case "es":
		v := c.str()
		return func(e log.Encoder) { e.AppendString(v) }
	case "ea":
		n := c.int()
		var fs []func(log.Encoder)
		for i := 0; i < n; i++ {
			fs = append(fs, c.elem())
		}
		return func(e log.Encoder) {
			e.AppendArrayBegin()
			for _, f := range fs {
				f(e)
			}
			e.AppendArrayEnd()
		}
	case "eo":
		n := c.int()
		var ks []string
		var fs []func(log.Encoder)
		for i := 0; i < n; i++ {
			ks = append(ks, c.str())
			fs = append(fs, c.elem())
		}
		return func(e log.Encoder) {
			e.AppendObjectBegin()
			for i, f := range fs {
				e.AppendKey(ks[i])
				f(e)
			}
			e.AppendObjectEnd()
		}
	}
	panic("bad elem")
}

func (c *cur) fields() []log.Field {
	n := c.int()
	var fs []log.Field
	for i := 0; i < n; i++ {
		fs = append(fs, c.field())
	}
	return fs
}

func (c *cur) field() log.Field {
	switch k := c.next(); k {
	case "B":
		key := c.str()
		return log.Bool(key, c.boolean())
	case "BP":
		key := c.str()
		if t := c.next(); t != "n" {
			v := t == "1"
			return log.BoolPtr(key, &v)
		}
		return log.BoolPtr(key, nil)
	case "BS":
		key := c.str()
		n := c.int()
		l := make([]bool, n)
		for i := range l {
			l[i] = c.boolean()
		}
		return log.Bools(key, l)
	case "I":
		w := c.int()
		key := c.str()
		return mkInt(w, key, c.z())
	case "IP":
		w := c.int()
		key := c.str()
		t := c.next()
		z, _ := strconv.ParseInt(t, 10, 64)
		return mkIntPtr(w, key, t == "n", z)
	case "IS":
		w := c.int()
		key := c.str()
		n := c.int()
		zs := make([]int64, n)
		for i := range zs {
			zs[i] = c.z()
		}
		return mkInts(w, key, zs)
	case "U":
		w := c.int()
		key := c.str()
		return mkUint(w, key, c.n())
	case "UP":
		w := c.int()
		key := c.str()
		t := c.next()
		z, _ := strconv.ParseUint(t, 10, 64)
		return mkUintPtr(w, key, t == "n", z)
	case "US":
		w := c.int()
		key := c.str()
		n := c.int()
		zs := make([]uint64, n)
		for i := range zs {
			zs[i] = c.n()
		}
		return mkUints(w, key, zs)
	case "F":
		w := c.int()
		key := c.str()
		v := c.float()
		if w == 32 {
			return log.Float(key, float32(v))
		}
		return log.Float(key, v)
	case "FP":
		w := c.int()
		key := c.str()
		if c.t[c.i] == "n" {
			c.next()
			if w == 32 {
				return log.FloatPtr[float32](key, nil)
			}
			return log.FloatPtr[float64](key, nil)
		}
		v := c.float()
		if w == 32 {
			x := float32(v)
			return log.FloatPtr(key, &x)
		}
		return log.FloatPtr(key, &v)
	case "FS":
		w := c.int()
		key := c.str()
		n := c.int()
		vs := make([]float64, n)
		for i := range vs {
			vs[i] = c.float()
		}
		if w == 32 {
			return log.Floats(key, conv(vs, func(v float64) float32 { return float32(v) }))
		}
		return log.Floats(key, vs)
	case "S":
		key := c.str()
		return log.String(key, c.str())
	case "SP":
		key := c.str()
		if t := c.next(); t != "n" {
			v := unhex(t)
			return log.StringPtr(key, &v)
		}
		return log.StringPtr(key, nil)
	case "SS":
		key := c.str()
		n := c.int()
		l := make([]string, n)
		for i := range l {
			l[i] = c.str()
		}
		return log.Strings(key, l)
	case "NIL":
		return log.Nil(c.str())
	case "R":
		key := c.str()
		return log.Reflect(key, c.rval())
	case "ANY":
		key := c.str()
		return log.Any(key, c.gval())
	case "O":
		key := c.str()
		return log.Object(key, c.fields()...)
	case "ARR":
		key := c.str()
		n := c.int()
		var r replayArray
		for i := 0; i < n; i++ {
			r = append(r, c.elem())
		}
		return log.Array(key, r)
	case "MAP":
		n := c.int()
		m := map[string]any{}
		for i := 0; i < n; i++ {
			k := c.str()
			m[k] = c.gval()
		}
		return log.FieldsFromMap(m)
	case "MSG":
		return log.Msg(c.str())
	case "MSGF":
		return log.Msgf("%s", c.str())
	}
	panic("bad field token")
}

var c07Levels = map[string]log.Level{}

// Case: EV <level> <Y> <M> <D> <h> <m> <s> <ms> <zoneOffsetMin> <file-hex> <line> <W> <tag-hex> <ctx-hex> <nctx> field* <nfields> field*
// Output: <resolved case> | <json-hex or PANIC> | <text-hex or PANIC>
func runC07(cases []string, out *bufio.Writer, _ []string) {
	for _, l := range []log.Level{log.NoneLevel, log.TraceLevel, log.DebugLevel, log.InfoLevel, log.WarnLevel, log.ErrorLevel, log.PanicLevel, log.FatalLevel, log.MaxLevel} {
		c07Levels[l.Name()] = l
	}
	for _, c := range c01Custom {
		c07Levels[c.name] = log.RegisterLevel(c.code, c.name)
	}
	for _, line := range cases {
		c := &cur{t: strings.Fields(line)}
		var ev log.Event
		var w int
		pan, pv := guard(func() {
			c.next() // EV
			ev.Level = c07Levels[c.next()]
			Y, M, D, h, m, s, ms, off := c.int(), c.int(), c.int(), c.int(), c.int(), c.int(), c.int(), c.int()
			ev.Time = time.Date(Y, time.Month(M), D, h, m, s, ms*1000000, time.FixedZone("z", off*60))
			ev.File = c.str()
			ev.Line = int(c.z())
			w = int(c.z())
			ev.Tag = c.str()
			ev.CtxString = c.str()
			ev.CtxFields = c.fields()
			ev.Fields = c.fields()
		})
		if pan {
			fmt.Fprintf(out, "HARNESS-PANIC %v\n", pv)
			continue
		}
		run := func(lay log.Layout) string {
			var b []byte
			if p, v := guard(func() { b = lay.ToBytes(&ev) }); p {
				return "PANIC:" + hex.EncodeToString([]byte(fmt.Sprint(v)))
			}
			return tohex(string(b))
		}
		js := run(&log.JSONLayout{BaseLayout: log.BaseLayout{FileLineLength: w}})
		tx := run(&log.TextLayout{BaseLayout: log.BaseLayout{FileLineLength: w}})
		fmt.Fprintf(out, "%s | %s | %s\n", strings.Join(c.res, " "), js, tx)
	}
}
