// Code generated for the C11 harness; DO NOT EDIT.
// Call sites far down a source file (//line directives, as generated code carries them): line numbers at and beyond 2^16, 2^24, 2^30-ish,
// and file names that are not the compiled file. mark() and the library see the same positions.
package main

import "github.com/go-spring/log"

//line c11_sites_far.go:65533
func c11far00(s *site) { s.mark(); log.Info(s.ctx, s.tag, log.Msg(s.id)) }
func c11far01(s *site) { s.mark(); log.Warnf(s.ctx, s.tag, "%s", s.id) }
func c11far02(s *site) { s.mark(); log.Error(s.ctx, s.tag, log.Msg(s.id)) }
func c11far03(s *site) { s.mark(); log.Debug(s.ctx, s.tag, lazyMsg(s)) }
func c11far04(s *site) { s.mark(); log.Record(s.ctx, log.InfoLevel, s.tag, 1, log.Msg(s.id)) }

//line c11_sites_far.go:131070
func c11far05(s *site) { s.mark(); log.Info(s.ctx, s.tag, log.Msg(s.id)) }
func c11far06(s *site) { s.mark(); log.Warnf(s.ctx, s.tag, "%s", s.id) }
func c11far07(s *site) { s.mark(); log.Error(s.ctx, s.tag, log.Msg(s.id)) }
func c11far08(s *site) { s.mark(); log.Debug(s.ctx, s.tag, lazyMsg(s)) }
func c11far09(s *site) { s.mark(); log.Record(s.ctx, log.InfoLevel, s.tag, 1, log.Msg(s.id)) }

//line c11_far_generated.y:16777214
func c11far10(s *site) { s.mark(); log.Info(s.ctx, s.tag, log.Msg(s.id)) }
func c11far11(s *site) { s.mark(); log.Warnf(s.ctx, s.tag, "%s", s.id) }
func c11far12(s *site) { s.mark(); log.Error(s.ctx, s.tag, log.Msg(s.id)) }
func c11far13(s *site) { s.mark(); log.Debug(s.ctx, s.tag, lazyMsg(s)) }
func c11far14(s *site) { s.mark(); log.Record(s.ctx, log.InfoLevel, s.tag, 1, log.Msg(s.id)) }

//line /generated/dir with blank/far.go:1000000000
func c11far15(s *site) { s.mark(); log.Info(s.ctx, s.tag, log.Msg(s.id)) }
func c11far16(s *site) { s.mark(); log.Warnf(s.ctx, s.tag, "%s", s.id) }
func c11far17(s *site) { s.mark(); log.Error(s.ctx, s.tag, log.Msg(s.id)) }
func c11far18(s *site) { s.mark(); log.Debug(s.ctx, s.tag, lazyMsg(s)) }
func c11far19(s *site) { s.mark(); log.Record(s.ctx, log.InfoLevel, s.tag, 1, log.Msg(s.id)) }

//line c11_sites_far.go:70000
func c11far20(s *site) { s.mark(); log.Info(s.ctx, s.tag, log.Msg(s.id)) }
func c11far21(s *site) { s.mark(); log.Warnf(s.ctx, s.tag, "%s", s.id) }
func c11far22(s *site) { s.mark(); log.Error(s.ctx, s.tag, log.Msg(s.id)) }
func c11far23(s *site) { s.mark(); log.Debug(s.ctx, s.tag, lazyMsg(s)) }
func c11far24(s *site) { s.mark(); log.Record(s.ctx, log.InfoLevel, s.tag, 1, log.Msg(s.id)) }

//line c11_sites_far.go:900
func init() {
	c11ManySites = append(c11ManySites, c11far00, c11far01, c11far02, c11far03, c11far04, c11far05, c11far06, c11far07, c11far08, c11far09, c11far10, c11far11, c11far12, c11far13, c11far14, c11far15, c11far16, c11far17, c11far18, c11far19, c11far20, c11far21, c11far22, c11far23, c11far24)
}
