package main

import (
	"bufio"
	"fmt"
	"sort"
	"strings"
	"time"

	"github.com/go-spring/log/expr"
)

func init() { families["c17"] = runC17 }

// Case: "p <hex>"  ->  "nil" | "err" | "panic" | "timeout" | "both" | sorted "key:value" pairs (hex), space-separated
func runC17(cases []string, out *bufio.Writer, _ []string) {
	for _, c := range cases {
		f := strings.Fields(c)
		in := unhex(f[1])
		type res struct {
			m   map[string]string
			err error
			pan bool
		}
		ch := make(chan res, 1)
		go func() {
			var r res
			r.pan, _ = guard(func() { r.m, r.err = expr.Parse(in) })
			ch <- r
		}()
		var r res
		select {
		case r = <-ch:
		case <-time.After(20 * time.Second):
			fmt.Fprintln(out, "timeout")
			continue
		}
		switch {
		case r.pan:
			fmt.Fprintln(out, "panic")
		case r.err != nil && r.m != nil:
			fmt.Fprintln(out, "both")
		case r.err != nil:
			fmt.Fprintln(out, "err")
		case r.m == nil:
			fmt.Fprintln(out, "nil")
		default:
			var kv []string
			for k, v := range r.m {
				kv = append(kv, tohex(k)+":"+tohex(v))
			}
			sort.Strings(kv)
			fmt.Fprintln(out, "ok "+strings.Join(kv, " "))
		}
	}
}
