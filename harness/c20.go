package main

import (
	"bufio"
	"bytes"
	"context"
	"fmt"
	"io"
	"os"
	"os/exec"
	"path/filepath"
	"strconv"
	"strings"
	"sync"
	"syscall"
	"time"

	"github.com/go-spring/log"
)

func init() { families["c20"] = runC20; families["c20child"] = runC20Child }

// Child: logs numbered lines through a synchronous logger and acknowledges every returned call on fd 3.
// args: <kind file|rolling|console|file-ll|rollinglogger> <layout 0|1> <goroutines> <dir> <exitAfter (0 = run until killed)> <durationMs> [<maxAge hours|-> <padding bytes> <bufferCap>]   (the time zone comes from TZ)
func runC20Child(_ []string, _ *bufio.Writer, args []string) {
	kind, lay, dir := args[0], args[1] == "1", args[3]
	// "<kind>-re": the target is given by a RELATIVE path and the configuration is the process's second one (Refresh, a few lines, Destroy, Refresh again)
	reconf := strings.HasSuffix(kind, "-re")
	if reconf {
		kind = strings.TrimSuffix(kind, "-re")
		os.Chdir(filepath.Dir(dir))
		dir = "./" + filepath.Base(dir)
	}
	ng, _ := strconv.Atoi(args[2])
	exitAfter, _ := strconv.Atoi(args[4])
	durMs, _ := strconv.Atoi(args[5])
	log.RegisterTimeRotation("1s", log.TimeRotation{Interval: time.Second})
	tag := log.RegisterTag("_c20_probe")
	ack := os.NewFile(3, "ack")
	cfg := map[string]string{"logger.lg.type": "Logger", "logger.lg.tags": "_c20_*", "logger.lg.appenderRef.ref": "a"}
	switch kind {
	case "file":
		cfg["appender.a.type"], cfg["appender.a.fileDir"], cfg["appender.a.fileName"] = "File", dir, "a.log"
	case "rolling":
		cfg["appender.a.type"], cfg["appender.a.fileDir"], cfg["appender.a.fileName"] = "RollingFile", dir, "a.log"
		cfg["appender.a.rotation"], cfg["appender.a.maxAge"] = "1s", "24"
		if len(args) > 6 && args[6] != "-" {
			cfg["appender.a.maxAge"] = args[6]
		}
	case "file-ll": // the layout is declared on the LOGGER and the reference has a lower bound: the logger formats, the reference filters bytes by level
		cfg["appender.a.type"], cfg["appender.a.fileDir"], cfg["appender.a.fileName"] = "File", dir, "a.log"
		cfg["logger.lg.appenderRef.level"] = "info"
		cfg["logger.lg.layout.type"] = map[bool]string{false: "TextLayout", true: "JSONLayout"}[lay]
	case "filelogger": // the File LOGGER plugin (logger and appender in one)
		delete(cfg, "logger.lg.appenderRef.ref")
		cfg["appender.a.type"] = "Discard"
		cfg["logger.lg.type"], cfg["logger.lg.fileDir"], cfg["logger.lg.fileName"] = "File", dir, "a.log"
		cfg["logger.lg.layout.type"] = map[bool]string{false: "TextLayout", true: "JSONLayout"}[lay]
	case "consolelogger": // the Console LOGGER plugin
		delete(cfg, "logger.lg.appenderRef.ref")
		cfg["appender.a.type"] = "Discard"
		cfg["logger.lg.type"] = "Console"
		cfg["logger.lg.layout.type"] = map[bool]string{false: "TextLayout", true: "JSONLayout"}[lay]
	case "rollinglogger": // the RollingFile LOGGER plugin with its own layout, a lower bound and the warning split
		delete(cfg, "logger.lg.appenderRef.ref")
		cfg["appender.a.type"] = "Discard"
		cfg["logger.lg.type"], cfg["logger.lg.fileDir"], cfg["logger.lg.fileName"] = "RollingFile", dir, "a.log"
		cfg["logger.lg.rotation"], cfg["logger.lg.level"], cfg["logger.lg.separate"] = "1s", "info", "true"
		cfg["logger.lg.layout.type"] = map[bool]string{false: "TextLayout", true: "JSONLayout"}[lay]
	case "file2", "rolling2": // two loggers (one per tag), each with its own appender, both appenders on the SAME file
		typ := map[string]string{"file2": "File", "rolling2": "RollingFile"}[kind]
		for _, a := range []string{"a", "b"} {
			cfg["appender."+a+".type"], cfg["appender."+a+".fileDir"], cfg["appender."+a+".fileName"] = typ, dir, "a.log"
			if kind == "rolling2" {
				cfg["appender."+a+".rotation"], cfg["appender."+a+".maxAge"] = "1s", "24"
			}
			if lay {
				cfg["appender."+a+".layout.type"] = "JSONLayout"
			}
		}
		cfg["logger.lg2.type"], cfg["logger.lg2.tags"], cfg["logger.lg2.appenderRef.ref"] = "Logger", "_c20b_*", "b"
	case "filelogger2": // two File LOGGER plugins on the same file
		delete(cfg, "logger.lg.appenderRef.ref")
		cfg["appender.a.type"] = "Discard"
		for lg, tags := range map[string]string{"lg": "_c20_*", "lg2": "_c20b_*"} {
			cfg["logger."+lg+".type"], cfg["logger."+lg+".fileDir"], cfg["logger."+lg+".fileName"], cfg["logger."+lg+".tags"] = "File", dir, "a.log", tags
			cfg["logger."+lg+".layout.type"] = map[bool]string{false: "TextLayout", true: "JSONLayout"}[lay]
		}
	default:
		cfg["appender.a.type"] = "Console"
	}
	tags := []*log.Tag{tag, tag}
	if strings.HasSuffix(kind, "2") {
		tags[1] = log.RegisterTag("_c20b_probe")
	}
	pad := 0
	if len(args) > 8 {
		pad, _ = strconv.Atoi(args[7])
		cfg["bufferCap"] = args[8]
	}
	if lay && kind != "file-ll" && kind != "rollinglogger" && kind != "filelogger" && kind != "consolelogger" && kind != "filelogger2" {
		cfg["appender.a.layout.type"] = "JSONLayout"
	}
	if err := log.Refresh(cfg); err != nil {
		fmt.Fprintln(ack, "refresh-error", err)
		os.Exit(3)
	}
	ctx := context.Background()
	if reconf {
		for i := 0; i < 3; i++ {
			log.Infof(ctx, tag, "<id:first.%d>|0", i)
			fmt.Fprintf(ack, "first.%d\n", i)
		}
		log.Destroy()
		if err := log.Refresh(cfg); err != nil {
			fmt.Fprintln(ack, "refresh-error", err)
			os.Exit(3)
		}
	}
	var mu sync.Mutex
	total := 0
	end := time.Now().Add(time.Duration(durMs) * time.Millisecond)
	var wg sync.WaitGroup
	for g := 0; g < ng; g++ {
		wg.Add(1)
		go func(g int) {
			defer wg.Done()
			for n := 0; time.Now().Before(end); n++ {
				id := fmt.Sprintf("%d.%d", g, n)
				log.Infof(ctx, tags[(g+n)%2], "<id:%s>%s|%d", id, strings.Repeat("#", pad+(g+n)%7), pad+(g+n)%7) // self-validating: the padding length is written after it
				mu.Lock()
				fmt.Fprintln(ack, id) // the call has returned: acknowledge it (unbuffered write on the pipe)
				total++
				if exitAfter > 0 && total >= exitAfter {
					os.Exit(0) // immediately after an acknowledged call, without Destroy
				}
				mu.Unlock()
				if n%20 == 19 {
					time.Sleep(time.Millisecond)
				}
			}
		}(g)
	}
	wg.Wait()
	os.Exit(0)
}

// Case: "<kind> <layout> <goroutines> <mode kill|exit> <k acknowledgements before the crash> <durationMs> [<TZ|-> <maxAge hours|-> [<padding bytes> <bufferCap>]]"
// Observation: "acked=<n> complete=<n> missing=<ids>"
func runC20(cases []string, out *bufio.Writer, _ []string) {
	base, _ := os.MkdirTemp("/var/tmp", "verif-c20-")
	defer os.RemoveAll(base)
	self, _ := os.Executable()
	results := make([]string, len(cases))
	var wg sync.WaitGroup
	sem := make(chan struct{}, 12)
	for i, line := range cases {
		wg.Add(1)
		sem <- struct{}{}
		go func(i int, line string) {
			defer func() { <-sem; wg.Done() }()
			f := strings.Fields(line)
			kind, mode := f[0], f[3]
			k, _ := strconv.Atoi(f[4])
			dir := filepath.Join(base, strconv.Itoa(i))
			os.MkdirAll(dir, 0755)
			exitAfter := "0"
			if mode == "exit" {
				exitAfter = f[4]
			}
			stall := kind == "console-stall" // the console is a pipe whose reader does nothing for 1.5 s
			if stall {
				kind = "console"
			}
			cargs := []string{"c20child", "-", os.DevNull, kind, f[1], f[2], dir, exitAfter, f[5]}
			if len(f) > 7 {
				cargs = append(cargs, f[7:]...)
			}
			cmd := exec.Command(self, cargs...)
			if len(f) > 6 && f[6] != "-" { // the retention scan started by every rotation runs in the process's time zone
				cmd.Env = append(os.Environ(), "TZ="+f[6])
			}
			pr, pw, _ := os.Pipe()
			cmd.ExtraFiles = []*os.File{pw}
			stdoutFile := filepath.Join(dir, "stdout.txt")
			so, _ := os.Create(stdoutFile)
			cmd.Stdout = so
			var stallDone chan struct{}
			var stallW *os.File
			if stall {
				sr, sw, _ := os.Pipe()
				cmd.Stdout, stallW = sw, sw
				stallDone = make(chan struct{})
				go func() {
					defer close(stallDone)
					time.Sleep(1500 * time.Millisecond)
					io.Copy(so, sr)
					sr.Close()
				}()
			}
			cmd.Stderr = nil
			if err := cmd.Start(); err != nil {
				results[i] = "spawn-error"
				return
			}
			pw.Close()
			if stallW != nil {
				stallW.Close()
			}
			var acked []string
			sc := bufio.NewScanner(pr)
			killed := false
			for sc.Scan() {
				acked = append(acked, sc.Text())
				if mode == "kill" && !killed && len(acked) >= k {
					cmd.Process.Signal(syscall.SIGKILL)
					killed = true
				}
			}
			cmd.Wait()
			if stallDone != nil {
				<-stallDone
			}
			so.Close()
			// read the target
			var data []byte
			ents, _ := os.ReadDir(dir)
			for _, e := range ents {
				if kind != "console" && kind != "consolelogger" && e.Name() == "stdout.txt" {
					continue
				}
				b, _ := os.ReadFile(filepath.Join(dir, e.Name()))
				data = append(data, b...)
			}
			complete := map[string]bool{}
			for _, l := range bytes.SplitAfter(data, []byte("\n")) {
				if bytes.HasSuffix(l, []byte("\n")) {
					if id := idOf(l); id != "?" && c20LineWhole(l) {
						complete[id] = true
					}
				}
			}
			var missing []string
			for _, a := range acked {
				if strings.HasPrefix(a, "refresh-error") {
					missing = append(missing, strings.ReplaceAll(a, " ", "_"))
					continue
				}
				if !complete[a] {
					missing = append(missing, a)
				}
			}
			if len(missing) > 8 {
				missing = append(missing[:8], fmt.Sprintf("...(%d)", len(missing)))
			}
			results[i] = fmt.Sprintf("acked=%d complete=%d missing=%s", len(acked), len(complete), strings.Join(missing, ","))
			os.RemoveAll(dir)
		}(i, line)
	}
	wg.Wait()
	for _, r := range results {
		fmt.Fprintln(out, r)
	}
}

// c20LineWhole checks the self-validating payload "<id:..>####|<count>": the padding is all '#' and as long as announced.
func c20LineWhole(l []byte) bool {
	i := bytes.Index(l, []byte("<id:"))
	j := bytes.IndexByte(l[i:], '>')
	rest := l[i+j+1:]
	k := bytes.IndexByte(rest, '|')
	if k < 0 || len(bytes.Trim(rest[:k], "#")) != 0 {
		return false
	}
	n, d := 0, 0
	for _, c := range rest[k+1:] {
		if c < '0' || c > '9' {
			break
		}
		n, d = n*10+int(c-'0'), d+1
	}
	return d > 0 && n == k
}
