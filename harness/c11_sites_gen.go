// Code generated for the C11 harness (py: inline generator in the commit that added it); DO NOT EDIT.
// 1500 distinct call sites, one per line: more than any bounded frame cache is likely to hold.
package main

import "github.com/go-spring/log"

func c11site0000(s *site) { s.mark(); log.Info(s.ctx, s.tag, log.Msg(s.id)) }
func c11site0001(s *site) { s.mark(); log.Warnf(s.ctx, s.tag, "%s", s.id) }
func c11site0002(s *site) { s.mark(); log.Error(s.ctx, s.tag, log.Msg(s.id)) }
func c11site0003(s *site) { s.mark(); log.Debug(s.ctx, s.tag, lazyMsg(s)) }
func c11site0004(s *site) { s.mark(); log.Record(s.ctx, log.InfoLevel, s.tag, 1, log.Msg(s.id)) }
func c11site0005(s *site) { s.mark(); log.Info(s.ctx, s.tag, log.Msg(s.id)) }
func c11site0006(s *site) { s.mark(); log.Warnf(s.ctx, s.tag, "%s", s.id) }
func c11site0007(s *site) { s.mark(); log.Error(s.ctx, s.tag, log.Msg(s.id)) }
func c11site0008(s *site) { s.mark(); log.Debug(s.ctx, s.tag, lazyMsg(s)) }
func c11site0009(s *site) { s.mark(); log.Record(s.ctx, log.InfoLevel, s.tag, 1, log.Msg(s.id)) }
func c11site0010(s *site) { s.mark(); log.Info(s.ctx, s.tag, log.Msg(s.id)) }
func c11site0011(s *site) { s.mark(); log.Warnf(s.ctx, s.tag, "%s", s.id) }
func c11site0012(s *site) { s.mark(); log.Error(s.ctx, s.tag, log.Msg(s.id)) }
func c11site0013(s *site) { s.mark(); log.Debug(s.ctx, s.tag, lazyMsg(s)) }
func c11site0014(s *site) { s.mark(); log.Record(s.ctx, log.InfoLevel, s.tag, 1, log.Msg(s.id)) }
func c11site0015(s *site) { s.mark(); log.Info(s.ctx, s.tag, log.Msg(s.id)) }
func c11site0016(s *site) { s.mark(); log.Warnf(s.ctx, s.tag, "%s", s.id) }
func c11site0017(s *site) { s.mark(); log.Error(s.ctx, s.tag, log.Msg(s.id)) }
func c11site0018(s *site) { s.mark(); log.Debug(s.ctx, s.tag, lazyMsg(s)) }
func c11site0019(s *site) { s.mark(); log.Record(s.ctx, log.InfoLevel, s.tag, 1, log.Msg(s.id)) }
func c11site0020(s *site) { s.mark(); log.Info(s.ctx, s.tag, log.Msg(s.id)) }
func c11site0021(s *site) { s.mark(); log.Warnf(s.ctx, s.tag, "%s", s.id) }
func c11site0022(s *site) { s.mark(); log.Error(s.ctx, s.tag, log.Msg(s.id)) }
func c11site0023(s *site) { s.mark(); log.Debug(s.ctx, s.tag, lazyMsg(s)) }
func c11site0024(s *site) { s.mark(); log.Record(s.ctx, log.InfoLevel, s.tag, 1, log.Msg(s.id)) }
func c11site0025(s *site) { s.mark(); log.Info(s.ctx, s.tag, log.Msg(s.id)) }
func c11site0026(s *site) { s.mark(); log.Warnf(s.ctx, s.tag, "%s", s.id) }
func c11site0027(s *site) { s.mark(); log.Error(s.ctx, s.tag, log.Msg(s.id)) }
func c11site0028(s *site) { s.mark(); log.Debug(s.ctx, s.tag, lazyMsg(s)) }
func c11site0029(s *site) { s.mark(); log.Record(s.ctx, log.InfoLevel, s.tag, 1, log.Msg(s.id)) }
func c11site0030(s *site) { s.mark(); log.Info(s.ctx, s.tag, log.Msg(s.id)) }
func c11site0031(s *site) { s.mark(); log.Warnf(s.ctx, s.tag, "%s", s.id) }
func c11site0032(s *site) { s.mark(); log.Error(s.ctx, s.tag, log.Msg(s.id)) }
func c11site0033(s *site) { s.mark(); log.Debug(s.ctx, s.tag, lazyMsg(s)) }
func c11site0034(s *site) { s.mark(); log.Record(s.ctx, log.InfoLevel, s.tag, 1, log.Msg(s.id)) }
func c11site0035(s *site) { s.mark(); log.Info(s.ctx, s.tag, log.Msg(s.id)) }
func c11site0036(s *site) { s.mark(); log.Warnf(s.ctx, s.tag, "%s", s.id) }
func c11site0037(s *site) { s.mark(); log.Error(s.ctx, s.tag, log.Msg(s.id)) }
func c11site0038(s *site) { s.mark(); log.Debug(s.ctx, s.tag, lazyMsg(s)) }
func c11site0039(s *site) { s.mark(); log.Record(s.ctx, log.InfoLevel, s.tag, 1, log.Msg(s.id)) }
func c11site0040(s *site) { s.mark(); log.Info(s.ctx, s.tag, log.Msg(s.id)) }
func c11site0041(s *site) { s.mark(); log.Warnf(s.ctx, s.tag, "%s", s.id) }
func c11site0042(s *site) { s.mark(); log.Error(s.ctx, s.tag, log.Msg(s.id)) }
func c11site0043(s *site) { s.mark(); log.Debug(s.ctx, s.tag, lazyMsg(s)) }
func c11site0044(s *site) { s.mark(); log.Record(s.ctx, log.InfoLevel, s.tag, 1, log.Msg(s.id)) }
func c11site0045(s *site) { s.mark(); log.Info(s.ctx, s.tag, log.Msg(s.id)) }
func c11site0046(s *site) { s.mark(); log.Warnf(s.ctx, s.tag, "%s", s.id) }
func c11site0047(s *site) { s.mark(); log.Error(s.ctx, s.tag, log.Msg(s.id)) }
func c11site0048(s *site) { s.mark(); log.Debug(s.ctx, s.tag, lazyMsg(s)) }
func c11site0049(s *site) { s.mark(); log.Record(s.ctx, log.InfoLevel, s.tag, 1, log.Msg(s.id)) }
func c11site0050(s *site) { s.mark(); log.Info(s.ctx, s.tag, log.Msg(s.id)) }
func c11site0051(s *site) { s.mark(); log.Warnf(s.ctx, s.tag, "%s", s.id) }
func c11site0052(s *site) { s.mark(); log.Error(s.ctx, s.tag, log.Msg(s.id)) }
func c11site0053(s *site) { s.mark(); log.Debug(s.ctx, s.tag, lazyMsg(s)) }
func c11site0054(s *site) { s.mark(); log.Record(s.ctx, log.InfoLevel, s.tag, 1, log.Msg(s.id)) }
func c11site0055(s *site) { s.mark(); log.Info(s.ctx, s.tag, log.Msg(s.id)) }
func c11site0056(s *site) { s.mark(); log.Warnf(s.ctx, s.tag, "%s", s.id) }
func c11site0057(s *site) { s.mark(); log.Error(s.ctx, s.tag, log.Msg(s.id)) }
func c11site0058(s *site) { s.mark(); log.Debug(s.ctx, s.tag, lazyMsg(s)) }
func c11site0059(s *site) { s.mark(); log.Record(s.ctx, log.InfoLevel, s.tag, 1, log.Msg(s.id)) }
func c11site0060(s *site) { s.mark(); log.Info(s.ctx, s.tag, log.Msg(s.id)) }
func c11site0061(s *site) { s.mark(); log.Warnf(s.ctx, s.tag, "%s", s.id) }
func c11site0062(s *site) { s.mark(); log.Error(s.ctx, s.tag, log.Msg(s.id)) }
func c11site0063(s *site) { s.mark(); log.Debug(s.ctx, s.tag, lazyMsg(s)) }
func c11site0064(s *site) { s.mark(); log.Record(s.ctx, log.InfoLevel, s.tag, 1, log.Msg(s.id)) }
func c11site0065(s *site) { s.mark(); log.Info(s.ctx, s.tag, log.Msg(s.id)) }
func c11site0066(s *site) { s.mark(); log.Warnf(s.ctx, s.tag, "%s", s.id) }
func c11site0067(s *site) { s.mark(); log.Error(s.ctx, s.tag, log.Msg(s.id)) }
func c11site0068(s *site) { s.mark(); log.Debug(s.ctx, s.tag, lazyMsg(s)) }
func c11site0069(s *site) { s.mark(); log.Record(s.ctx, log.InfoLevel, s.tag, 1, log.Msg(s.id)) }
func c11site0070(s *site) { s.mark(); log.Info(s.ctx, s.tag, log.Msg(s.id)) }
func c11site0071(s *site) { s.mark(); log.Warnf(s.ctx, s.tag, "%s", s.id) }
func c11site0072(s *site) { s.mark(); log.Error(s.ctx, s.tag, log.Msg(s.id)) }
func c11site0073(s *site) { s.mark(); log.Debug(s.ctx, s.tag, lazyMsg(s)) }
func c11site0074(s *site) { s.mark(); log.Record(s.ctx, log.InfoLevel, s.tag, 1, log.Msg(s.id)) }
func c11site0075(s *site) { s.mark(); log.Info(s.ctx, s.tag, log.Msg(s.id)) }
func c11site0076(s *site) { s.mark(); log.Warnf(s.ctx, s.tag, "%s", s.id) }
func c11site0077(s *site) { s.mark(); log.Error(s.ctx, s.tag, log.Msg(s.id)) }
func c11site0078(s *site) { s.mark(); log.Debug(s.ctx, s.tag, lazyMsg(s)) }
func c11site0079(s *site) { s.mark(); log.Record(s.ctx, log.InfoLevel, s.tag, 1, log.Msg(s.id)) }
func c11site0080(s *site) { s.mark(); log.Info(s.ctx, s.tag, log.Msg(s.id)) }
func c11site0081(s *site) { s.mark(); log.Warnf(s.ctx, s.tag, "%s", s.id) }
func c11site0082(s *site) { s.mark(); log.Error(s.ctx, s.tag, log.Msg(s.id)) }
func c11site0083(s *site) { s.mark(); log.Debug(s.ctx, s.tag, lazyMsg(s)) }
func c11site0084(s *site) { s.mark(); log.Record(s.ctx, log.InfoLevel, s.tag, 1, log.Msg(s.id)) }
func c11site0085(s *site) { s.mark(); log.Info(s.ctx, s.tag, log.Msg(s.id)) }
func c11site0086(s *site) { s.mark(); log.Warnf(s.ctx, s.tag, "%s", s.id) }
func c11site0087(s *site) { s.mark(); log.Error(s.ctx, s.tag, log.Msg(s.id)) }
func c11site0088(s *site) { s.mark(); log.Debug(s.ctx, s.tag, lazyMsg(s)) }
func c11site0089(s *site) { s.mark(); log.Record(s.ctx, log.InfoLevel, s.tag, 1, log.Msg(s.id)) }
func c11site0090(s *site) { s.mark(); log.Info(s.ctx, s.tag, log.Msg(s.id)) }
func c11site0091(s *site) { s.mark(); log.Warnf(s.ctx, s.tag, "%s", s.id) }
func c11site0092(s *site) { s.mark(); log.Error(s.ctx, s.tag, log.Msg(s.id)) }
func c11site0093(s *site) { s.mark(); log.Debug(s.ctx, s.tag, lazyMsg(s)) }
func c11site0094(s *site) { s.mark(); log.Record(s.ctx, log.InfoLevel, s.tag, 1, log.Msg(s.id)) }
func c11site0095(s *site) { s.mark(); log.Info(s.ctx, s.tag, log.Msg(s.id)) }
func c11site0096(s *site) { s.mark(); log.Warnf(s.ctx, s.tag, "%s", s.id) }
func c11site0097(s *site) { s.mark(); log.Error(s.ctx, s.tag, log.Msg(s.id)) }
func c11site0098(s *site) { s.mark(); log.Debug(s.ctx, s.tag, lazyMsg(s)) }
func c11site0099(s *site) { s.mark(); log.Record(s.ctx, log.InfoLevel, s.tag, 1, log.Msg(s.id)) }
func c11site0100(s *site) { s.mark(); log.Info(s.ctx, s.tag, log.Msg(s.id)) }
func c11site0101(s *site) { s.mark(); log.Warnf(s.ctx, s.tag, "%s", s.id) }
func c11site0102(s *site) { s.mark(); log.Error(s.ctx, s.tag, log.Msg(s.id)) }
func c11site0103(s *site) { s.mark(); log.Debug(s.ctx, s.tag, lazyMsg(s)) }
func c11site0104(s *site) { s.mark(); log.Record(s.ctx, log.InfoLevel, s.tag, 1, log.Msg(s.id)) }
func c11site0105(s *site) { s.mark(); log.Info(s.ctx, s.tag, log.Msg(s.id)) }
func c11site0106(s *site) { s.mark(); log.Warnf(s.ctx, s.tag, "%s", s.id) }
func c11site0107(s *site) { s.mark(); log.Error(s.ctx, s.tag, log.Msg(s.id)) }
func c11site0108(s *site) { s.mark(); log.Debug(s.ctx, s.tag, lazyMsg(s)) }
func c11site0109(s *site) { s.mark(); log.Record(s.ctx, log.InfoLevel, s.tag, 1, log.Msg(s.id)) }
func c11site0110(s *site) { s.mark(); log.Info(s.ctx, s.tag, log.Msg(s.id)) }
func c11site0111(s *site) { s.mark(); log.Warnf(s.ctx, s.tag, "%s", s.id) }
func c11site0112(s *site) { s.mark(); log.Error(s.ctx, s.tag, log.Msg(s.id)) }
func c11site0113(s *site) { s.mark(); log.Debug(s.ctx, s.tag, lazyMsg(s)) }
func c11site0114(s *site) { s.mark(); log.Record(s.ctx, log.InfoLevel, s.tag, 1, log.Msg(s.id)) }
func c11site0115(s *site) { s.mark(); log.Info(s.ctx, s.tag, log.Msg(s.id)) }
func c11site0116(s *site) { s.mark(); log.Warnf(s.ctx, s.tag, "%s", s.id) }
func c11site0117(s *site) { s.mark(); log.Error(s.ctx, s.tag, log.Msg(s.id)) }
func c11site0118(s *site) { s.mark(); log.Debug(s.ctx, s.tag, lazyMsg(s)) }
func c11site0119(s *site) { s.mark(); log.Record(s.ctx, log.InfoLevel, s.tag, 1, log.Msg(s.id)) }
func c11site0120(s *site) { s.mark(); log.Info(s.ctx, s.tag, log.Msg(s.id)) }
func c11site0121(s *site) { s.mark(); log.Warnf(s.ctx, s.tag, "%s", s.id) }
func c11site0122(s *site) { s.mark(); log.Error(s.ctx, s.tag, log.Msg(s.id)) }
func c11site0123(s *site) { s.mark(); log.Debug(s.ctx, s.tag, lazyMsg(s)) }
func c11site0124(s *site) { s.mark(); log.Record(s.ctx, log.InfoLevel, s.tag, 1, log.Msg(s.id)) }
func c11site0125(s *site) { s.mark(); log.Info(s.ctx, s.tag, log.Msg(s.id)) }
func c11site0126(s *site) { s.mark(); log.Warnf(s.ctx, s.tag, "%s", s.id) }
func c11site0127(s *site) { s.mark(); log.Error(s.ctx, s.tag, log.Msg(s.id)) }
func c11site0128(s *site) { s.mark(); log.Debug(s.ctx, s.tag, lazyMsg(s)) }
func c11site0129(s *site) { s.mark(); log.Record(s.ctx, log.InfoLevel, s.tag, 1, log.Msg(s.id)) }
func c11site0130(s *site) { s.mark(); log.Info(s.ctx, s.tag, log.Msg(s.id)) }
func c11site0131(s *site) { s.mark(); log.Warnf(s.ctx, s.tag, "%s", s.id) }
func c11site0132(s *site) { s.mark(); log.Error(s.ctx, s.tag, log.Msg(s.id)) }
func c11site0133(s *site) { s.mark(); log.Debug(s.ctx, s.tag, lazyMsg(s)) }
func c11site0134(s *site) { s.mark(); log.Record(s.ctx, log.InfoLevel, s.tag, 1, log.Msg(s.id)) }
func c11site0135(s *site) { s.mark(); log.Info(s.ctx, s.tag, log.Msg(s.id)) }
func c11site0136(s *site) { s.mark(); log.Warnf(s.ctx, s.tag, "%s", s.id) }
func c11site0137(s *site) { s.mark(); log.Error(s.ctx, s.tag, log.Msg(s.id)) }
func c11site0138(s *site) { s.mark(); log.Debug(s.ctx, s.tag, lazyMsg(s)) }
func c11site0139(s *site) { s.mark(); log.Record(s.ctx, log.InfoLevel, s.tag, 1, log.Msg(s.id)) }
func c11site0140(s *site) { s.mark(); log.Info(s.ctx, s.tag, log.Msg(s.id)) }
func c11site0141(s *site) { s.mark(); log.Warnf(s.ctx, s.tag, "%s", s.id) }
func c11site0142(s *site) { s.mark(); log.Error(s.ctx, s.tag, log.Msg(s.id)) }
func c11site0143(s *site) { s.mark(); log.Debug(s.ctx, s.tag, lazyMsg(s)) }
func c11site0144(s *site) { s.mark(); log.Record(s.ctx, log.InfoLevel, s.tag, 1, log.Msg(s.id)) }
func c11site0145(s *site) { s.mark(); log.Info(s.ctx, s.tag, log.Msg(s.id)) }
func c11site0146(s *site) { s.mark(); log.Warnf(s.ctx, s.tag, "%s", s.id) }
func c11site0147(s *site) { s.mark(); log.Error(s.ctx, s.tag, log.Msg(s.id)) }
func c11site0148(s *site) { s.mark(); log.Debug(s.ctx, s.tag, lazyMsg(s)) }
func c11site0149(s *site) { s.mark(); log.Record(s.ctx, log.InfoLevel, s.tag, 1, log.Msg(s.id)) }
func c11site0150(s *site) { s.mark(); log.Info(s.ctx, s.tag, log.Msg(s.id)) }
func c11site0151(s *site) { s.mark(); log.Warnf(s.ctx, s.tag, "%s", s.id) }
func c11site0152(s *site) { s.mark(); log.Error(s.ctx, s.tag, log.Msg(s.id)) }
func c11site0153(s *site) { s.mark(); log.Debug(s.ctx, s.tag, lazyMsg(s)) }
func c11site0154(s *site) { s.mark(); log.Record(s.ctx, log.InfoLevel, s.tag, 1, log.Msg(s.id)) }
func c11site0155(s *site) { s.mark(); log.Info(s.ctx, s.tag, log.Msg(s.id)) }
func c11site0156(s *site) { s.mark(); log.Warnf(s.ctx, s.tag, "%s", s.id) }
func c11site0157(s *site) { s.mark(); log.Error(s.ctx, s.tag, log.Msg(s.id)) }
func c11site0158(s *site) { s.mark(); log.Debug(s.ctx, s.tag, lazyMsg(s)) }
func c11site0159(s *site) { s.mark(); log.Record(s.ctx, log.InfoLevel, s.tag, 1, log.Msg(s.id)) }
func c11site0160(s *site) { s.mark(); log.Info(s.ctx, s.tag, log.Msg(s.id)) }
func c11site0161(s *site) { s.mark(); log.Warnf(s.ctx, s.tag, "%s", s.id) }
func c11site0162(s *site) { s.mark(); log.Error(s.ctx, s.tag, log.Msg(s.id)) }
func c11site0163(s *site) { s.mark(); log.Debug(s.ctx, s.tag, lazyMsg(s)) }
func c11site0164(s *site) { s.mark(); log.Record(s.ctx, log.InfoLevel, s.tag, 1, log.Msg(s.id)) }
func c11site0165(s *site) { s.mark(); log.Info(s.ctx, s.tag, log.Msg(s.id)) }
func c11site0166(s *site) { s.mark(); log.Warnf(s.ctx, s.tag, "%s", s.id) }
func c11site0167(s *site) { s.mark(); log.Error(s.ctx, s.tag, log.Msg(s.id)) }
func c11site0168(s *site) { s.mark(); log.Debug(s.ctx, s.tag, lazyMsg(s)) }
func c11site0169(s *site) { s.mark(); log.Record(s.ctx, log.InfoLevel, s.tag, 1, log.Msg(s.id)) }
func c11site0170(s *site) { s.mark(); log.Info(s.ctx, s.tag, log.Msg(s.id)) }
func c11site0171(s *site) { s.mark(); log.Warnf(s.ctx, s.tag, "%s", s.id) }
func c11site0172(s *site) { s.mark(); log.Error(s.ctx, s.tag, log.Msg(s.id)) }
func c11site0173(s *site) { s.mark(); log.Debug(s.ctx, s.tag, lazyMsg(s)) }
func c11site0174(s *site) { s.mark(); log.Record(s.ctx, log.InfoLevel, s.tag, 1, log.Msg(s.id)) }
func c11site0175(s *site) { s.mark(); log.Info(s.ctx, s.tag, log.Msg(s.id)) }
func c11site0176(s *site) { s.mark(); log.Warnf(s.ctx, s.tag, "%s", s.id) }
func c11site0177(s *site) { s.mark(); log.Error(s.ctx, s.tag, log.Msg(s.id)) }
func c11site0178(s *site) { s.mark(); log.Debug(s.ctx, s.tag, lazyMsg(s)) }
func c11site0179(s *site) { s.mark(); log.Record(s.ctx, log.InfoLevel, s.tag, 1, log.Msg(s.id)) }
func c11site0180(s *site) { s.mark(); log.Info(s.ctx, s.tag, log.Msg(s.id)) }
func c11site0181(s *site) { s.mark(); log.Warnf(s.ctx, s.tag, "%s", s.id) }
func c11site0182(s *site) { s.mark(); log.Error(s.ctx, s.tag, log.Msg(s.id)) }
func c11site0183(s *site) { s.mark(); log.Debug(s.ctx, s.tag, lazyMsg(s)) }
func c11site0184(s *site) { s.mark(); log.Record(s.ctx, log.InfoLevel, s.tag, 1, log.Msg(s.id)) }
func c11site0185(s *site) { s.mark(); log.Info(s.ctx, s.tag, log.Msg(s.id)) }
func c11site0186(s *site) { s.mark(); log.Warnf(s.ctx, s.tag, "%s", s.id) }
func c11site0187(s *site) { s.mark(); log.Error(s.ctx, s.tag, log.Msg(s.id)) }
func c11site0188(s *site) { s.mark(); log.Debug(s.ctx, s.tag, lazyMsg(s)) }
func c11site0189(s *site) { s.mark(); log.Record(s.ctx, log.InfoLevel, s.tag, 1, log.Msg(s.id)) }
func c11site0190(s *site) { s.mark(); log.Info(s.ctx, s.tag, log.Msg(s.id)) }
func c11site0191(s *site) { s.mark(); log.Warnf(s.ctx, s.tag, "%s", s.id) }
func c11site0192(s *site) { s.mark(); log.Error(s.ctx, s.tag, log.Msg(s.id)) }
func c11site0193(s *site) { s.mark(); log.Debug(s.ctx, s.tag, lazyMsg(s)) }
func c11site0194(s *site) { s.mark(); log.Record(s.ctx, log.InfoLevel, s.tag, 1, log.Msg(s.id)) }
func c11site0195(s *site) { s.mark(); log.Info(s.ctx, s.tag, log.Msg(s.id)) }
func c11site0196(s *site) { s.mark(); log.Warnf(s.ctx, s.tag, "%s", s.id) }
func c11site0197(s *site) { s.mark(); log.Error(s.ctx, s.tag, log.Msg(s.id)) }
func c11site0198(s *site) { s.mark(); log.Debug(s.ctx, s.tag, lazyMsg(s)) }
func c11site0199(s *site) { s.mark(); log.Record(s.ctx, log.InfoLevel, s.tag, 1, log.Msg(s.id)) }
func c11site0200(s *site) { s.mark(); log.Info(s.ctx, s.tag, log.Msg(s.id)) }
func c11site0201(s *site) { s.mark(); log.Warnf(s.ctx, s.tag, "%s", s.id) }
func c11site0202(s *site) { s.mark(); log.Error(s.ctx, s.tag, log.Msg(s.id)) }
func c11site0203(s *site) { s.mark(); log.Debug(s.ctx, s.tag, lazyMsg(s)) }
func c11site0204(s *site) { s.mark(); log.Record(s.ctx, log.InfoLevel, s.tag, 1, log.Msg(s.id)) }
func c11site0205(s *site) { s.mark(); log.Info(s.ctx, s.tag, log.Msg(s.id)) }
func c11site0206(s *site) { s.mark(); log.Warnf(s.ctx, s.tag, "%s", s.id) }
func c11site0207(s *site) { s.mark(); log.Error(s.ctx, s.tag, log.Msg(s.id)) }
func c11site0208(s *site) { s.mark(); log.Debug(s.ctx, s.tag, lazyMsg(s)) }
func c11site0209(s *site) { s.mark(); log.Record(s.ctx, log.InfoLevel, s.tag, 1, log.Msg(s.id)) }
func c11site0210(s *site) { s.mark(); log.Info(s.ctx, s.tag, log.Msg(s.id)) }
func c11site0211(s *site) { s.mark(); log.Warnf(s.ctx, s.tag, "%s", s.id) }
func c11site0212(s *site) { s.mark(); log.Error(s.ctx, s.tag, log.Msg(s.id)) }
func c11site0213(s *site) { s.mark(); log.Debug(s.ctx, s.tag, lazyMsg(s)) }
func c11site0214(s *site) { s.mark(); log.Record(s.ctx, log.InfoLevel, s.tag, 1, log.Msg(s.id)) }
func c11site0215(s *site) { s.mark(); log.Info(s.ctx, s.tag, log.Msg(s.id)) }
func c11site0216(s *site) { s.mark(); log.Warnf(s.ctx, s.tag, "%s", s.id) }
func c11site0217(s *site) { s.mark(); log.Error(s.ctx, s.tag, log.Msg(s.id)) }
func c11site0218(s *site) { s.mark(); log.Debug(s.ctx, s.tag, lazyMsg(s)) }
func c11site0219(s *site) { s.mark(); log.Record(s.ctx, log.InfoLevel, s.tag, 1, log.Msg(s.id)) }
func c11site0220(s *site) { s.mark(); log.Info(s.ctx, s.tag, log.Msg(s.id)) }
func c11site0221(s *site) { s.mark(); log.Warnf(s.ctx, s.tag, "%s", s.id) }
func c11site0222(s *site) { s.mark(); log.Error(s.ctx, s.tag, log.Msg(s.id)) }
func c11site0223(s *site) { s.mark(); log.Debug(s.ctx, s.tag, lazyMsg(s)) }
func c11site0224(s *site) { s.mark(); log.Record(s.ctx, log.InfoLevel, s.tag, 1, log.Msg(s.id)) }
func c11site0225(s *site) { s.mark(); log.Info(s.ctx, s.tag, log.Msg(s.id)) }
func c11site0226(s *site) { s.mark(); log.Warnf(s.ctx, s.tag, "%s", s.id) }
func c11site0227(s *site) { s.mark(); log.Error(s.ctx, s.tag, log.Msg(s.id)) }
func c11site0228(s *site) { s.mark(); log.Debug(s.ctx, s.tag, lazyMsg(s)) }
func c11site0229(s *site) { s.mark(); log.Record(s.ctx, log.InfoLevel, s.tag, 1, log.Msg(s.id)) }
func c11site0230(s *site) { s.mark(); log.Info(s.ctx, s.tag, log.Msg(s.id)) }
func c11site0231(s *site) { s.mark(); log.Warnf(s.ctx, s.tag, "%s", s.id) }
func c11site0232(s *site) { s.mark(); log.Error(s.ctx, s.tag, log.Msg(s.id)) }
func c11site0233(s *site) { s.mark(); log.Debug(s.ctx, s.tag, lazyMsg(s)) }
func c11site0234(s *site) { s.mark(); log.Record(s.ctx, log.InfoLevel, s.tag, 1, log.Msg(s.id)) }
func c11site0235(s *site) { s.mark(); log.Info(s.ctx, s.tag, log.Msg(s.id)) }
func c11site0236(s *site) { s.mark(); log.Warnf(s.ctx, s.tag, "%s", s.id) }
func c11site0237(s *site) { s.mark(); log.Error(s.ctx, s.tag, log.Msg(s.id)) }
func c11site0238(s *site) { s.mark(); log.Debug(s.ctx, s.tag, lazyMsg(s)) }
func c11site0239(s *site) { s.mark(); log.Record(s.ctx, log.InfoLevel, s.tag, 1, log.Msg(s.id)) }
func c11site0240(s *site) { s.mark(); log.Info(s.ctx, s.tag, log.Msg(s.id)) }
func c11site0241(s *site) { s.mark(); log.Warnf(s.ctx, s.tag, "%s", s.id) }
func c11site0242(s *site) { s.mark(); log.Error(s.ctx, s.tag, log.Msg(s.id)) }
func c11site0243(s *site) { s.mark(); log.Debug(s.ctx, s.tag, lazyMsg(s)) }
func c11site0244(s *site) { s.mark(); log.Record(s.ctx, log.InfoLevel, s.tag, 1, log.Msg(s.id)) }
func c11site0245(s *site) { s.mark(); log.Info(s.ctx, s.tag, log.Msg(s.id)) }
func c11site0246(s *site) { s.mark(); log.Warnf(s.ctx, s.tag, "%s", s.id) }
func c11site0247(s *site) { s.mark(); log.Error(s.ctx, s.tag, log.Msg(s.id)) }
func c11site0248(s *site) { s.mark(); log.Debug(s.ctx, s.tag, lazyMsg(s)) }
func c11site0249(s *site) { s.mark(); log.Record(s.ctx, log.InfoLevel, s.tag, 1, log.Msg(s.id)) }
func c11site0250(s *site) { s.mark(); log.Info(s.ctx, s.tag, log.Msg(s.id)) }
func c11site0251(s *site) { s.mark(); log.Warnf(s.ctx, s.tag, "%s", s.id) }
func c11site0252(s *site) { s.mark(); log.Error(s.ctx, s.tag, log.Msg(s.id)) }
func c11site0253(s *site) { s.mark(); log.Debug(s.ctx, s.tag, lazyMsg(s)) }
func c11site0254(s *site) { s.mark(); log.Record(s.ctx, log.InfoLevel, s.tag, 1, log.Msg(s.id)) }
func c11site0255(s *site) { s.mark(); log.Info(s.ctx, s.tag, log.Msg(s.id)) }
func c11site0256(s *site) { s.mark(); log.Warnf(s.ctx, s.tag, "%s", s.id) }
func c11site0257(s *site) { s.mark(); log.Error(s.ctx, s.tag, log.Msg(s.id)) }
func c11site0258(s *site) { s.mark(); log.Debug(s.ctx, s.tag, lazyMsg(s)) }
func c11site0259(s *site) { s.mark(); log.Record(s.ctx, log.InfoLevel, s.tag, 1, log.Msg(s.id)) }
func c11site0260(s *site) { s.mark(); log.Info(s.ctx, s.tag, log.Msg(s.id)) }
func c11site0261(s *site) { s.mark(); log.Warnf(s.ctx, s.tag, "%s", s.id) }
func c11site0262(s *site) { s.mark(); log.Error(s.ctx, s.tag, log.Msg(s.id)) }
func c11site0263(s *site) { s.mark(); log.Debug(s.ctx, s.tag, lazyMsg(s)) }
func c11site0264(s *site) { s.mark(); log.Record(s.ctx, log.InfoLevel, s.tag, 1, log.Msg(s.id)) }
func c11site0265(s *site) { s.mark(); log.Info(s.ctx, s.tag, log.Msg(s.id)) }
func c11site0266(s *site) { s.mark(); log.Warnf(s.ctx, s.tag, "%s", s.id) }
func c11site0267(s *site) { s.mark(); log.Error(s.ctx, s.tag, log.Msg(s.id)) }
func c11site0268(s *site) { s.mark(); log.Debug(s.ctx, s.tag, lazyMsg(s)) }
func c11site0269(s *site) { s.mark(); log.Record(s.ctx, log.InfoLevel, s.tag, 1, log.Msg(s.id)) }
func c11site0270(s *site) { s.mark(); log.Info(s.ctx, s.tag, log.Msg(s.id)) }
func c11site0271(s *site) { s.mark(); log.Warnf(s.ctx, s.tag, "%s", s.id) }
func c11site0272(s *site) { s.mark(); log.Error(s.ctx, s.tag, log.Msg(s.id)) }
func c11site0273(s *site) { s.mark(); log.Debug(s.ctx, s.tag, lazyMsg(s)) }
func c11site0274(s *site) { s.mark(); log.Record(s.ctx, log.InfoLevel, s.tag, 1, log.Msg(s.id)) }
func c11site0275(s *site) { s.mark(); log.Info(s.ctx, s.tag, log.Msg(s.id)) }
func c11site0276(s *site) { s.mark(); log.Warnf(s.ctx, s.tag, "%s", s.id) }
func c11site0277(s *site) { s.mark(); log.Error(s.ctx, s.tag, log.Msg(s.id)) }
func c11site0278(s *site) { s.mark(); log.Debug(s.ctx, s.tag, lazyMsg(s)) }
func c11site0279(s *site) { s.mark(); log.Record(s.ctx, log.InfoLevel, s.tag, 1, log.Msg(s.id)) }
func c11site0280(s *site) { s.mark(); log.Info(s.ctx, s.tag, log.Msg(s.id)) }
func c11site0281(s *site) { s.mark(); log.Warnf(s.ctx, s.tag, "%s", s.id) }
func c11site0282(s *site) { s.mark(); log.Error(s.ctx, s.tag, log.Msg(s.id)) }
func c11site0283(s *site) { s.mark(); log.Debug(s.ctx, s.tag, lazyMsg(s)) }
func c11site0284(s *site) { s.mark(); log.Record(s.ctx, log.InfoLevel, s.tag, 1, log.Msg(s.id)) }
func c11site0285(s *site) { s.mark(); log.Info(s.ctx, s.tag, log.Msg(s.id)) }
func c11site0286(s *site) { s.mark(); log.Warnf(s.ctx, s.tag, "%s", s.id) }
func c11site0287(s *site) { s.mark(); log.Error(s.ctx, s.tag, log.Msg(s.id)) }
func c11site0288(s *site) { s.mark(); log.Debug(s.ctx, s.tag, lazyMsg(s)) }
func c11site0289(s *site) { s.mark(); log.Record(s.ctx, log.InfoLevel, s.tag, 1, log.Msg(s.id)) }
func c11site0290(s *site) { s.mark(); log.Info(s.ctx, s.tag, log.Msg(s.id)) }
func c11site0291(s *site) { s.mark(); log.Warnf(s.ctx, s.tag, "%s", s.id) }
func c11site0292(s *site) { s.mark(); log.Error(s.ctx, s.tag, log.Msg(s.id)) }
func c11site0293(s *site) { s.mark(); log.Debug(s.ctx, s.tag, lazyMsg(s)) }
func c11site0294(s *site) { s.mark(); log.Record(s.ctx, log.InfoLevel, s.tag, 1, log.Msg(s.id)) }
func c11site0295(s *site) { s.mark(); log.Info(s.ctx, s.tag, log.Msg(s.id)) }
func c11site0296(s *site) { s.mark(); log.Warnf(s.ctx, s.tag, "%s", s.id) }
func c11site0297(s *site) { s.mark(); log.Error(s.ctx, s.tag, log.Msg(s.id)) }
func c11site0298(s *site) { s.mark(); log.Debug(s.ctx, s.tag, lazyMsg(s)) }
func c11site0299(s *site) { s.mark(); log.Record(s.ctx, log.InfoLevel, s.tag, 1, log.Msg(s.id)) }
func c11site0300(s *site) { s.mark(); log.Info(s.ctx, s.tag, log.Msg(s.id)) }
func c11site0301(s *site) { s.mark(); log.Warnf(s.ctx, s.tag, "%s", s.id) }
func c11site0302(s *site) { s.mark(); log.Error(s.ctx, s.tag, log.Msg(s.id)) }
func c11site0303(s *site) { s.mark(); log.Debug(s.ctx, s.tag, lazyMsg(s)) }
func c11site0304(s *site) { s.mark(); log.Record(s.ctx, log.InfoLevel, s.tag, 1, log.Msg(s.id)) }
func c11site0305(s *site) { s.mark(); log.Info(s.ctx, s.tag, log.Msg(s.id)) }
func c11site0306(s *site) { s.mark(); log.Warnf(s.ctx, s.tag, "%s", s.id) }
func c11site0307(s *site) { s.mark(); log.Error(s.ctx, s.tag, log.Msg(s.id)) }
func c11site0308(s *site) { s.mark(); log.Debug(s.ctx, s.tag, lazyMsg(s)) }
func c11site0309(s *site) { s.mark(); log.Record(s.ctx, log.InfoLevel, s.tag, 1, log.Msg(s.id)) }
func c11site0310(s *site) { s.mark(); log.Info(s.ctx, s.tag, log.Msg(s.id)) }
func c11site0311(s *site) { s.mark(); log.Warnf(s.ctx, s.tag, "%s", s.id) }
func c11site0312(s *site) { s.mark(); log.Error(s.ctx, s.tag, log.Msg(s.id)) }
func c11site0313(s *site) { s.mark(); log.Debug(s.ctx, s.tag, lazyMsg(s)) }
func c11site0314(s *site) { s.mark(); log.Record(s.ctx, log.InfoLevel, s.tag, 1, log.Msg(s.id)) }
func c11site0315(s *site) { s.mark(); log.Info(s.ctx, s.tag, log.Msg(s.id)) }
func c11site0316(s *site) { s.mark(); log.Warnf(s.ctx, s.tag, "%s", s.id) }
func c11site0317(s *site) { s.mark(); log.Error(s.ctx, s.tag, log.Msg(s.id)) }
func c11site0318(s *site) { s.mark(); log.Debug(s.ctx, s.tag, lazyMsg(s)) }
func c11site0319(s *site) { s.mark(); log.Record(s.ctx, log.InfoLevel, s.tag, 1, log.Msg(s.id)) }
func c11site0320(s *site) { s.mark(); log.Info(s.ctx, s.tag, log.Msg(s.id)) }
func c11site0321(s *site) { s.mark(); log.Warnf(s.ctx, s.tag, "%s", s.id) }
func c11site0322(s *site) { s.mark(); log.Error(s.ctx, s.tag, log.Msg(s.id)) }
func c11site0323(s *site) { s.mark(); log.Debug(s.ctx, s.tag, lazyMsg(s)) }
func c11site0324(s *site) { s.mark(); log.Record(s.ctx, log.InfoLevel, s.tag, 1, log.Msg(s.id)) }
func c11site0325(s *site) { s.mark(); log.Info(s.ctx, s.tag, log.Msg(s.id)) }
func c11site0326(s *site) { s.mark(); log.Warnf(s.ctx, s.tag, "%s", s.id) }
func c11site0327(s *site) { s.mark(); log.Error(s.ctx, s.tag, log.Msg(s.id)) }
func c11site0328(s *site) { s.mark(); log.Debug(s.ctx, s.tag, lazyMsg(s)) }
func c11site0329(s *site) { s.mark(); log.Record(s.ctx, log.InfoLevel, s.tag, 1, log.Msg(s.id)) }
func c11site0330(s *site) { s.mark(); log.Info(s.ctx, s.tag, log.Msg(s.id)) }
func c11site0331(s *site) { s.mark(); log.Warnf(s.ctx, s.tag, "%s", s.id) }
func c11site0332(s *site) { s.mark(); log.Error(s.ctx, s.tag, log.Msg(s.id)) }
func c11site0333(s *site) { s.mark(); log.Debug(s.ctx, s.tag, lazyMsg(s)) }
func c11site0334(s *site) { s.mark(); log.Record(s.ctx, log.InfoLevel, s.tag, 1, log.Msg(s.id)) }
func c11site0335(s *site) { s.mark(); log.Info(s.ctx, s.tag, log.Msg(s.id)) }
func c11site0336(s *site) { s.mark(); log.Warnf(s.ctx, s.tag, "%s", s.id) }
func c11site0337(s *site) { s.mark(); log.Error(s.ctx, s.tag, log.Msg(s.id)) }
func c11site0338(s *site) { s.mark(); log.Debug(s.ctx, s.tag, lazyMsg(s)) }
func c11site0339(s *site) { s.mark(); log.Record(s.ctx, log.InfoLevel, s.tag, 1, log.Msg(s.id)) }
func c11site0340(s *site) { s.mark(); log.Info(s.ctx, s.tag, log.Msg(s.id)) }
func c11site0341(s *site) { s.mark(); log.Warnf(s.ctx, s.tag, "%s", s.id) }
func c11site0342(s *site) { s.mark(); log.Error(s.ctx, s.tag, log.Msg(s.id)) }
func c11site0343(s *site) { s.mark(); log.Debug(s.ctx, s.tag, lazyMsg(s)) }
func c11site0344(s *site) { s.mark(); log.Record(s.ctx, log.InfoLevel, s.tag, 1, log.Msg(s.id)) }
func c11site0345(s *site) { s.mark(); log.Info(s.ctx, s.tag, log.Msg(s.id)) }
func c11site0346(s *site) { s.mark(); log.Warnf(s.ctx, s.tag, "%s", s.id) }
func c11site0347(s *site) { s.mark(); log.Error(s.ctx, s.tag, log.Msg(s.id)) }
func c11site0348(s *site) { s.mark(); log.Debug(s.ctx, s.tag, lazyMsg(s)) }
func c11site0349(s *site) { s.mark(); log.Record(s.ctx, log.InfoLevel, s.tag, 1, log.Msg(s.id)) }
func c11site0350(s *site) { s.mark(); log.Info(s.ctx, s.tag, log.Msg(s.id)) }
func c11site0351(s *site) { s.mark(); log.Warnf(s.ctx, s.tag, "%s", s.id) }
func c11site0352(s *site) { s.mark(); log.Error(s.ctx, s.tag, log.Msg(s.id)) }
func c11site0353(s *site) { s.mark(); log.Debug(s.ctx, s.tag, lazyMsg(s)) }
func c11site0354(s *site) { s.mark(); log.Record(s.ctx, log.InfoLevel, s.tag, 1, log.Msg(s.id)) }
func c11site0355(s *site) { s.mark(); log.Info(s.ctx, s.tag, log.Msg(s.id)) }
func c11site0356(s *site) { s.mark(); log.Warnf(s.ctx, s.tag, "%s", s.id) }
func c11site0357(s *site) { s.mark(); log.Error(s.ctx, s.tag, log.Msg(s.id)) }
func c11site0358(s *site) { s.mark(); log.Debug(s.ctx, s.tag, lazyMsg(s)) }
func c11site0359(s *site) { s.mark(); log.Record(s.ctx, log.InfoLevel, s.tag, 1, log.Msg(s.id)) }
func c11site0360(s *site) { s.mark(); log.Info(s.ctx, s.tag, log.Msg(s.id)) }
func c11site0361(s *site) { s.mark(); log.Warnf(s.ctx, s.tag, "%s", s.id) }
func c11site0362(s *site) { s.mark(); log.Error(s.ctx, s.tag, log.Msg(s.id)) }
func c11site0363(s *site) { s.mark(); log.Debug(s.ctx, s.tag, lazyMsg(s)) }
func c11site0364(s *site) { s.mark(); log.Record(s.ctx, log.InfoLevel, s.tag, 1, log.Msg(s.id)) }
func c11site0365(s *site) { s.mark(); log.Info(s.ctx, s.tag, log.Msg(s.id)) }
func c11site0366(s *site) { s.mark(); log.Warnf(s.ctx, s.tag, "%s", s.id) }
func c11site0367(s *site) { s.mark(); log.Error(s.ctx, s.tag, log.Msg(s.id)) }
func c11site0368(s *site) { s.mark(); log.Debug(s.ctx, s.tag, lazyMsg(s)) }
func c11site0369(s *site) { s.mark(); log.Record(s.ctx, log.InfoLevel, s.tag, 1, log.Msg(s.id)) }
func c11site0370(s *site) { s.mark(); log.Info(s.ctx, s.tag, log.Msg(s.id)) }
func c11site0371(s *site) { s.mark(); log.Warnf(s.ctx, s.tag, "%s", s.id) }
func c11site0372(s *site) { s.mark(); log.Error(s.ctx, s.tag, log.Msg(s.id)) }
func c11site0373(s *site) { s.mark(); log.Debug(s.ctx, s.tag, lazyMsg(s)) }
func c11site0374(s *site) { s.mark(); log.Record(s.ctx, log.InfoLevel, s.tag, 1, log.Msg(s.id)) }
func c11site0375(s *site) { s.mark(); log.Info(s.ctx, s.tag, log.Msg(s.id)) }
func c11site0376(s *site) { s.mark(); log.Warnf(s.ctx, s.tag, "%s", s.id) }
func c11site0377(s *site) { s.mark(); log.Error(s.ctx, s.tag, log.Msg(s.id)) }
func c11site0378(s *site) { s.mark(); log.Debug(s.ctx, s.tag, lazyMsg(s)) }
func c11site0379(s *site) { s.mark(); log.Record(s.ctx, log.InfoLevel, s.tag, 1, log.Msg(s.id)) }
func c11site0380(s *site) { s.mark(); log.Info(s.ctx, s.tag, log.Msg(s.id)) }
func c11site0381(s *site) { s.mark(); log.Warnf(s.ctx, s.tag, "%s", s.id) }
func c11site0382(s *site) { s.mark(); log.Error(s.ctx, s.tag, log.Msg(s.id)) }
func c11site0383(s *site) { s.mark(); log.Debug(s.ctx, s.tag, lazyMsg(s)) }
func c11site0384(s *site) { s.mark(); log.Record(s.ctx, log.InfoLevel, s.tag, 1, log.Msg(s.id)) }
func c11site0385(s *site) { s.mark(); log.Info(s.ctx, s.tag, log.Msg(s.id)) }
func c11site0386(s *site) { s.mark(); log.Warnf(s.ctx, s.tag, "%s", s.id) }
func c11site0387(s *site) { s.mark(); log.Error(s.ctx, s.tag, log.Msg(s.id)) }
func c11site0388(s *site) { s.mark(); log.Debug(s.ctx, s.tag, lazyMsg(s)) }
func c11site0389(s *site) { s.mark(); log.Record(s.ctx, log.InfoLevel, s.tag, 1, log.Msg(s.id)) }
func c11site0390(s *site) { s.mark(); log.Info(s.ctx, s.tag, log.Msg(s.id)) }
func c11site0391(s *site) { s.mark(); log.Warnf(s.ctx, s.tag, "%s", s.id) }
func c11site0392(s *site) { s.mark(); log.Error(s.ctx, s.tag, log.Msg(s.id)) }
func c11site0393(s *site) { s.mark(); log.Debug(s.ctx, s.tag, lazyMsg(s)) }
func c11site0394(s *site) { s.mark(); log.Record(s.ctx, log.InfoLevel, s.tag, 1, log.Msg(s.id)) }
func c11site0395(s *site) { s.mark(); log.Info(s.ctx, s.tag, log.Msg(s.id)) }
func c11site0396(s *site) { s.mark(); log.Warnf(s.ctx, s.tag, "%s", s.id) }
func c11site0397(s *site) { s.mark(); log.Error(s.ctx, s.tag, log.Msg(s.id)) }
func c11site0398(s *site) { s.mark(); log.Debug(s.ctx, s.tag, lazyMsg(s)) }
func c11site0399(s *site) { s.mark(); log.Record(s.ctx, log.InfoLevel, s.tag, 1, log.Msg(s.id)) }
func c11site0400(s *site) { s.mark(); log.Info(s.ctx, s.tag, log.Msg(s.id)) }
func c11site0401(s *site) { s.mark(); log.Warnf(s.ctx, s.tag, "%s", s.id) }
func c11site0402(s *site) { s.mark(); log.Error(s.ctx, s.tag, log.Msg(s.id)) }
func c11site0403(s *site) { s.mark(); log.Debug(s.ctx, s.tag, lazyMsg(s)) }
func c11site0404(s *site) { s.mark(); log.Record(s.ctx, log.InfoLevel, s.tag, 1, log.Msg(s.id)) }
func c11site0405(s *site) { s.mark(); log.Info(s.ctx, s.tag, log.Msg(s.id)) }
func c11site0406(s *site) { s.mark(); log.Warnf(s.ctx, s.tag, "%s", s.id) }
func c11site0407(s *site) { s.mark(); log.Error(s.ctx, s.tag, log.Msg(s.id)) }
func c11site0408(s *site) { s.mark(); log.Debug(s.ctx, s.tag, lazyMsg(s)) }
func c11site0409(s *site) { s.mark(); log.Record(s.ctx, log.InfoLevel, s.tag, 1, log.Msg(s.id)) }
func c11site0410(s *site) { s.mark(); log.Info(s.ctx, s.tag, log.Msg(s.id)) }
func c11site0411(s *site) { s.mark(); log.Warnf(s.ctx, s.tag, "%s", s.id) }
func c11site0412(s *site) { s.mark(); log.Error(s.ctx, s.tag, log.Msg(s.id)) }
func c11site0413(s *site) { s.mark(); log.Debug(s.ctx, s.tag, lazyMsg(s)) }
func c11site0414(s *site) { s.mark(); log.Record(s.ctx, log.InfoLevel, s.tag, 1, log.Msg(s.id)) }
func c11site0415(s *site) { s.mark(); log.Info(s.ctx, s.tag, log.Msg(s.id)) }
func c11site0416(s *site) { s.mark(); log.Warnf(s.ctx, s.tag, "%s", s.id) }
func c11site0417(s *site) { s.mark(); log.Error(s.ctx, s.tag, log.Msg(s.id)) }
func c11site0418(s *site) { s.mark(); log.Debug(s.ctx, s.tag, lazyMsg(s)) }
func c11site0419(s *site) { s.mark(); log.Record(s.ctx, log.InfoLevel, s.tag, 1, log.Msg(s.id)) }
func c11site0420(s *site) { s.mark(); log.Info(s.ctx, s.tag, log.Msg(s.id)) }
func c11site0421(s *site) { s.mark(); log.Warnf(s.ctx, s.tag, "%s", s.id) }
func c11site0422(s *site) { s.mark(); log.Error(s.ctx, s.tag, log.Msg(s.id)) }
func c11site0423(s *site) { s.mark(); log.Debug(s.ctx, s.tag, lazyMsg(s)) }
func c11site0424(s *site) { s.mark(); log.Record(s.ctx, log.InfoLevel, s.tag, 1, log.Msg(s.id)) }
func c11site0425(s *site) { s.mark(); log.Info(s.ctx, s.tag, log.Msg(s.id)) }
func c11site0426(s *site) { s.mark(); log.Warnf(s.ctx, s.tag, "%s", s.id) }
func c11site0427(s *site) { s.mark(); log.Error(s.ctx, s.tag, log.Msg(s.id)) }
func c11site0428(s *site) { s.mark(); log.Debug(s.ctx, s.tag, lazyMsg(s)) }
func c11site0429(s *site) { s.mark(); log.Record(s.ctx, log.InfoLevel, s.tag, 1, log.Msg(s.id)) }
func c11site0430(s *site) { s.mark(); log.Info(s.ctx, s.tag, log.Msg(s.id)) }
func c11site0431(s *site) { s.mark(); log.Warnf(s.ctx, s.tag, "%s", s.id) }
func c11site0432(s *site) { s.mark(); log.Error(s.ctx, s.tag, log.Msg(s.id)) }
func c11site0433(s *site) { s.mark(); log.Debug(s.ctx, s.tag, lazyMsg(s)) }
func c11site0434(s *site) { s.mark(); log.Record(s.ctx, log.InfoLevel, s.tag, 1, log.Msg(s.id)) }
func c11site0435(s *site) { s.mark(); log.Info(s.ctx, s.tag, log.Msg(s.id)) }
func c11site0436(s *site) { s.mark(); log.Warnf(s.ctx, s.tag, "%s", s.id) }
func c11site0437(s *site) { s.mark(); log.Error(s.ctx, s.tag, log.Msg(s.id)) }
func c11site0438(s *site) { s.mark(); log.Debug(s.ctx, s.tag, lazyMsg(s)) }
func c11site0439(s *site) { s.mark(); log.Record(s.ctx, log.InfoLevel, s.tag, 1, log.Msg(s.id)) }
func c11site0440(s *site) { s.mark(); log.Info(s.ctx, s.tag, log.Msg(s.id)) }
func c11site0441(s *site) { s.mark(); log.Warnf(s.ctx, s.tag, "%s", s.id) }
func c11site0442(s *site) { s.mark(); log.Error(s.ctx, s.tag, log.Msg(s.id)) }
func c11site0443(s *site) { s.mark(); log.Debug(s.ctx, s.tag, lazyMsg(s)) }
func c11site0444(s *site) { s.mark(); log.Record(s.ctx, log.InfoLevel, s.tag, 1, log.Msg(s.id)) }
func c11site0445(s *site) { s.mark(); log.Info(s.ctx, s.tag, log.Msg(s.id)) }
func c11site0446(s *site) { s.mark(); log.Warnf(s.ctx, s.tag, "%s", s.id) }
func c11site0447(s *site) { s.mark(); log.Error(s.ctx, s.tag, log.Msg(s.id)) }
func c11site0448(s *site) { s.mark(); log.Debug(s.ctx, s.tag, lazyMsg(s)) }
func c11site0449(s *site) { s.mark(); log.Record(s.ctx, log.InfoLevel, s.tag, 1, log.Msg(s.id)) }
func c11site0450(s *site) { s.mark(); log.Info(s.ctx, s.tag, log.Msg(s.id)) }
func c11site0451(s *site) { s.mark(); log.Warnf(s.ctx, s.tag, "%s", s.id) }
func c11site0452(s *site) { s.mark(); log.Error(s.ctx, s.tag, log.Msg(s.id)) }
func c11site0453(s *site) { s.mark(); log.Debug(s.ctx, s.tag, lazyMsg(s)) }
func c11site0454(s *site) { s.mark(); log.Record(s.ctx, log.InfoLevel, s.tag, 1, log.Msg(s.id)) }
func c11site0455(s *site) { s.mark(); log.Info(s.ctx, s.tag, log.Msg(s.id)) }
func c11site0456(s *site) { s.mark(); log.Warnf(s.ctx, s.tag, "%s", s.id) }
func c11site0457(s *site) { s.mark(); log.Error(s.ctx, s.tag, log.Msg(s.id)) }
func c11site0458(s *site) { s.mark(); log.Debug(s.ctx, s.tag, lazyMsg(s)) }
func c11site0459(s *site) { s.mark(); log.Record(s.ctx, log.InfoLevel, s.tag, 1, log.Msg(s.id)) }
func c11site0460(s *site) { s.mark(); log.Info(s.ctx, s.tag, log.Msg(s.id)) }
func c11site0461(s *site) { s.mark(); log.Warnf(s.ctx, s.tag, "%s", s.id) }
func c11site0462(s *site) { s.mark(); log.Error(s.ctx, s.tag, log.Msg(s.id)) }
func c11site0463(s *site) { s.mark(); log.Debug(s.ctx, s.tag, lazyMsg(s)) }
func c11site0464(s *site) { s.mark(); log.Record(s.ctx, log.InfoLevel, s.tag, 1, log.Msg(s.id)) }
func c11site0465(s *site) { s.mark(); log.Info(s.ctx, s.tag, log.Msg(s.id)) }
func c11site0466(s *site) { s.mark(); log.Warnf(s.ctx, s.tag, "%s", s.id) }
func c11site0467(s *site) { s.mark(); log.Error(s.ctx, s.tag, log.Msg(s.id)) }
func c11site0468(s *site) { s.mark(); log.Debug(s.ctx, s.tag, lazyMsg(s)) }
func c11site0469(s *site) { s.mark(); log.Record(s.ctx, log.InfoLevel, s.tag, 1, log.Msg(s.id)) }
func c11site0470(s *site) { s.mark(); log.Info(s.ctx, s.tag, log.Msg(s.id)) }
func c11site0471(s *site) { s.mark(); log.Warnf(s.ctx, s.tag, "%s", s.id) }
func c11site0472(s *site) { s.mark(); log.Error(s.ctx, s.tag, log.Msg(s.id)) }
func c11site0473(s *site) { s.mark(); log.Debug(s.ctx, s.tag, lazyMsg(s)) }
func c11site0474(s *site) { s.mark(); log.Record(s.ctx, log.InfoLevel, s.tag, 1, log.Msg(s.id)) }
func c11site0475(s *site) { s.mark(); log.Info(s.ctx, s.tag, log.Msg(s.id)) }
func c11site0476(s *site) { s.mark(); log.Warnf(s.ctx, s.tag, "%s", s.id) }
func c11site0477(s *site) { s.mark(); log.Error(s.ctx, s.tag, log.Msg(s.id)) }
func c11site0478(s *site) { s.mark(); log.Debug(s.ctx, s.tag, lazyMsg(s)) }
func c11site0479(s *site) { s.mark(); log.Record(s.ctx, log.InfoLevel, s.tag, 1, log.Msg(s.id)) }
func c11site0480(s *site) { s.mark(); log.Info(s.ctx, s.tag, log.Msg(s.id)) }
func c11site0481(s *site) { s.mark(); log.Warnf(s.ctx, s.tag, "%s", s.id) }
func c11site0482(s *site) { s.mark(); log.Error(s.ctx, s.tag, log.Msg(s.id)) }
func c11site0483(s *site) { s.mark(); log.Debug(s.ctx, s.tag, lazyMsg(s)) }
func c11site0484(s *site) { s.mark(); log.Record(s.ctx, log.InfoLevel, s.tag, 1, log.Msg(s.id)) }
func c11site0485(s *site) { s.mark(); log.Info(s.ctx, s.tag, log.Msg(s.id)) }
func c11site0486(s *site) { s.mark(); log.Warnf(s.ctx, s.tag, "%s", s.id) }
func c11site0487(s *site) { s.mark(); log.Error(s.ctx, s.tag, log.Msg(s.id)) }
func c11site0488(s *site) { s.mark(); log.Debug(s.ctx, s.tag, lazyMsg(s)) }
func c11site0489(s *site) { s.mark(); log.Record(s.ctx, log.InfoLevel, s.tag, 1, log.Msg(s.id)) }
func c11site0490(s *site) { s.mark(); log.Info(s.ctx, s.tag, log.Msg(s.id)) }
func c11site0491(s *site) { s.mark(); log.Warnf(s.ctx, s.tag, "%s", s.id) }
func c11site0492(s *site) { s.mark(); log.Error(s.ctx, s.tag, log.Msg(s.id)) }
func c11site0493(s *site) { s.mark(); log.Debug(s.ctx, s.tag, lazyMsg(s)) }
func c11site0494(s *site) { s.mark(); log.Record(s.ctx, log.InfoLevel, s.tag, 1, log.Msg(s.id)) }
func c11site0495(s *site) { s.mark(); log.Info(s.ctx, s.tag, log.Msg(s.id)) }
func c11site0496(s *site) { s.mark(); log.Warnf(s.ctx, s.tag, "%s", s.id) }
func c11site0497(s *site) { s.mark(); log.Error(s.ctx, s.tag, log.Msg(s.id)) }
func c11site0498(s *site) { s.mark(); log.Debug(s.ctx, s.tag, lazyMsg(s)) }
func c11site0499(s *site) { s.mark(); log.Record(s.ctx, log.InfoLevel, s.tag, 1, log.Msg(s.id)) }
func c11site0500(s *site) { s.mark(); log.Info(s.ctx, s.tag, log.Msg(s.id)) }
func c11site0501(s *site) { s.mark(); log.Warnf(s.ctx, s.tag, "%s", s.id) }
func c11site0502(s *site) { s.mark(); log.Error(s.ctx, s.tag, log.Msg(s.id)) }
func c11site0503(s *site) { s.mark(); log.Debug(s.ctx, s.tag, lazyMsg(s)) }
func c11site0504(s *site) { s.mark(); log.Record(s.ctx, log.InfoLevel, s.tag, 1, log.Msg(s.id)) }
func c11site0505(s *site) { s.mark(); log.Info(s.ctx, s.tag, log.Msg(s.id)) }
func c11site0506(s *site) { s.mark(); log.Warnf(s.ctx, s.tag, "%s", s.id) }
func c11site0507(s *site) { s.mark(); log.Error(s.ctx, s.tag, log.Msg(s.id)) }
func c11site0508(s *site) { s.mark(); log.Debug(s.ctx, s.tag, lazyMsg(s)) }
func c11site0509(s *site) { s.mark(); log.Record(s.ctx, log.InfoLevel, s.tag, 1, log.Msg(s.id)) }
func c11site0510(s *site) { s.mark(); log.Info(s.ctx, s.tag, log.Msg(s.id)) }
func c11site0511(s *site) { s.mark(); log.Warnf(s.ctx, s.tag, "%s", s.id) }
func c11site0512(s *site) { s.mark(); log.Error(s.ctx, s.tag, log.Msg(s.id)) }
func c11site0513(s *site) { s.mark(); log.Debug(s.ctx, s.tag, lazyMsg(s)) }
func c11site0514(s *site) { s.mark(); log.Record(s.ctx, log.InfoLevel, s.tag, 1, log.Msg(s.id)) }
func c11site0515(s *site) { s.mark(); log.Info(s.ctx, s.tag, log.Msg(s.id)) }
func c11site0516(s *site) { s.mark(); log.Warnf(s.ctx, s.tag, "%s", s.id) }
func c11site0517(s *site) { s.mark(); log.Error(s.ctx, s.tag, log.Msg(s.id)) }
func c11site0518(s *site) { s.mark(); log.Debug(s.ctx, s.tag, lazyMsg(s)) }
func c11site0519(s *site) { s.mark(); log.Record(s.ctx, log.InfoLevel, s.tag, 1, log.Msg(s.id)) }
func c11site0520(s *site) { s.mark(); log.Info(s.ctx, s.tag, log.Msg(s.id)) }
func c11site0521(s *site) { s.mark(); log.Warnf(s.ctx, s.tag, "%s", s.id) }
func c11site0522(s *site) { s.mark(); log.Error(s.ctx, s.tag, log.Msg(s.id)) }
func c11site0523(s *site) { s.mark(); log.Debug(s.ctx, s.tag, lazyMsg(s)) }
func c11site0524(s *site) { s.mark(); log.Record(s.ctx, log.InfoLevel, s.tag, 1, log.Msg(s.id)) }
func c11site0525(s *site) { s.mark(); log.Info(s.ctx, s.tag, log.Msg(s.id)) }
func c11site0526(s *site) { s.mark(); log.Warnf(s.ctx, s.tag, "%s", s.id) }
func c11site0527(s *site) { s.mark(); log.Error(s.ctx, s.tag, log.Msg(s.id)) }
func c11site0528(s *site) { s.mark(); log.Debug(s.ctx, s.tag, lazyMsg(s)) }
func c11site0529(s *site) { s.mark(); log.Record(s.ctx, log.InfoLevel, s.tag, 1, log.Msg(s.id)) }
func c11site0530(s *site) { s.mark(); log.Info(s.ctx, s.tag, log.Msg(s.id)) }
func c11site0531(s *site) { s.mark(); log.Warnf(s.ctx, s.tag, "%s", s.id) }
func c11site0532(s *site) { s.mark(); log.Error(s.ctx, s.tag, log.Msg(s.id)) }
func c11site0533(s *site) { s.mark(); log.Debug(s.ctx, s.tag, lazyMsg(s)) }
func c11site0534(s *site) { s.mark(); log.Record(s.ctx, log.InfoLevel, s.tag, 1, log.Msg(s.id)) }
func c11site0535(s *site) { s.mark(); log.Info(s.ctx, s.tag, log.Msg(s.id)) }
func c11site0536(s *site) { s.mark(); log.Warnf(s.ctx, s.tag, "%s", s.id) }
func c11site0537(s *site) { s.mark(); log.Error(s.ctx, s.tag, log.Msg(s.id)) }
func c11site0538(s *site) { s.mark(); log.Debug(s.ctx, s.tag, lazyMsg(s)) }
func c11site0539(s *site) { s.mark(); log.Record(s.ctx, log.InfoLevel, s.tag, 1, log.Msg(s.id)) }
func c11site0540(s *site) { s.mark(); log.Info(s.ctx, s.tag, log.Msg(s.id)) }
func c11site0541(s *site) { s.mark(); log.Warnf(s.ctx, s.tag, "%s", s.id) }
func c11site0542(s *site) { s.mark(); log.Error(s.ctx, s.tag, log.Msg(s.id)) }
func c11site0543(s *site) { s.mark(); log.Debug(s.ctx, s.tag, lazyMsg(s)) }
func c11site0544(s *site) { s.mark(); log.Record(s.ctx, log.InfoLevel, s.tag, 1, log.Msg(s.id)) }
func c11site0545(s *site) { s.mark(); log.Info(s.ctx, s.tag, log.Msg(s.id)) }
func c11site0546(s *site) { s.mark(); log.Warnf(s.ctx, s.tag, "%s", s.id) }
func c11site0547(s *site) { s.mark(); log.Error(s.ctx, s.tag, log.Msg(s.id)) }
func c11site0548(s *site) { s.mark(); log.Debug(s.ctx, s.tag, lazyMsg(s)) }
func c11site0549(s *site) { s.mark(); log.Record(s.ctx, log.InfoLevel, s.tag, 1, log.Msg(s.id)) }
func c11site0550(s *site) { s.mark(); log.Info(s.ctx, s.tag, log.Msg(s.id)) }
func c11site0551(s *site) { s.mark(); log.Warnf(s.ctx, s.tag, "%s", s.id) }
func c11site0552(s *site) { s.mark(); log.Error(s.ctx, s.tag, log.Msg(s.id)) }
func c11site0553(s *site) { s.mark(); log.Debug(s.ctx, s.tag, lazyMsg(s)) }
func c11site0554(s *site) { s.mark(); log.Record(s.ctx, log.InfoLevel, s.tag, 1, log.Msg(s.id)) }
func c11site0555(s *site) { s.mark(); log.Info(s.ctx, s.tag, log.Msg(s.id)) }
func c11site0556(s *site) { s.mark(); log.Warnf(s.ctx, s.tag, "%s", s.id) }
func c11site0557(s *site) { s.mark(); log.Error(s.ctx, s.tag, log.Msg(s.id)) }
func c11site0558(s *site) { s.mark(); log.Debug(s.ctx, s.tag, lazyMsg(s)) }
func c11site0559(s *site) { s.mark(); log.Record(s.ctx, log.InfoLevel, s.tag, 1, log.Msg(s.id)) }
func c11site0560(s *site) { s.mark(); log.Info(s.ctx, s.tag, log.Msg(s.id)) }
func c11site0561(s *site) { s.mark(); log.Warnf(s.ctx, s.tag, "%s", s.id) }
func c11site0562(s *site) { s.mark(); log.Error(s.ctx, s.tag, log.Msg(s.id)) }
func c11site0563(s *site) { s.mark(); log.Debug(s.ctx, s.tag, lazyMsg(s)) }
func c11site0564(s *site) { s.mark(); log.Record(s.ctx, log.InfoLevel, s.tag, 1, log.Msg(s.id)) }
func c11site0565(s *site) { s.mark(); log.Info(s.ctx, s.tag, log.Msg(s.id)) }
func c11site0566(s *site) { s.mark(); log.Warnf(s.ctx, s.tag, "%s", s.id) }
func c11site0567(s *site) { s.mark(); log.Error(s.ctx, s.tag, log.Msg(s.id)) }
func c11site0568(s *site) { s.mark(); log.Debug(s.ctx, s.tag, lazyMsg(s)) }
func c11site0569(s *site) { s.mark(); log.Record(s.ctx, log.InfoLevel, s.tag, 1, log.Msg(s.id)) }
func c11site0570(s *site) { s.mark(); log.Info(s.ctx, s.tag, log.Msg(s.id)) }
func c11site0571(s *site) { s.mark(); log.Warnf(s.ctx, s.tag, "%s", s.id) }
func c11site0572(s *site) { s.mark(); log.Error(s.ctx, s.tag, log.Msg(s.id)) }
func c11site0573(s *site) { s.mark(); log.Debug(s.ctx, s.tag, lazyMsg(s)) }
func c11site0574(s *site) { s.mark(); log.Record(s.ctx, log.InfoLevel, s.tag, 1, log.Msg(s.id)) }
func c11site0575(s *site) { s.mark(); log.Info(s.ctx, s.tag, log.Msg(s.id)) }
func c11site0576(s *site) { s.mark(); log.Warnf(s.ctx, s.tag, "%s", s.id) }
func c11site0577(s *site) { s.mark(); log.Error(s.ctx, s.tag, log.Msg(s.id)) }
func c11site0578(s *site) { s.mark(); log.Debug(s.ctx, s.tag, lazyMsg(s)) }
func c11site0579(s *site) { s.mark(); log.Record(s.ctx, log.InfoLevel, s.tag, 1, log.Msg(s.id)) }
func c11site0580(s *site) { s.mark(); log.Info(s.ctx, s.tag, log.Msg(s.id)) }
func c11site0581(s *site) { s.mark(); log.Warnf(s.ctx, s.tag, "%s", s.id) }
func c11site0582(s *site) { s.mark(); log.Error(s.ctx, s.tag, log.Msg(s.id)) }
func c11site0583(s *site) { s.mark(); log.Debug(s.ctx, s.tag, lazyMsg(s)) }
func c11site0584(s *site) { s.mark(); log.Record(s.ctx, log.InfoLevel, s.tag, 1, log.Msg(s.id)) }
func c11site0585(s *site) { s.mark(); log.Info(s.ctx, s.tag, log.Msg(s.id)) }
func c11site0586(s *site) { s.mark(); log.Warnf(s.ctx, s.tag, "%s", s.id) }
func c11site0587(s *site) { s.mark(); log.Error(s.ctx, s.tag, log.Msg(s.id)) }
func c11site0588(s *site) { s.mark(); log.Debug(s.ctx, s.tag, lazyMsg(s)) }
func c11site0589(s *site) { s.mark(); log.Record(s.ctx, log.InfoLevel, s.tag, 1, log.Msg(s.id)) }
func c11site0590(s *site) { s.mark(); log.Info(s.ctx, s.tag, log.Msg(s.id)) }
func c11site0591(s *site) { s.mark(); log.Warnf(s.ctx, s.tag, "%s", s.id) }
func c11site0592(s *site) { s.mark(); log.Error(s.ctx, s.tag, log.Msg(s.id)) }
func c11site0593(s *site) { s.mark(); log.Debug(s.ctx, s.tag, lazyMsg(s)) }
func c11site0594(s *site) { s.mark(); log.Record(s.ctx, log.InfoLevel, s.tag, 1, log.Msg(s.id)) }
func c11site0595(s *site) { s.mark(); log.Info(s.ctx, s.tag, log.Msg(s.id)) }
func c11site0596(s *site) { s.mark(); log.Warnf(s.ctx, s.tag, "%s", s.id) }
func c11site0597(s *site) { s.mark(); log.Error(s.ctx, s.tag, log.Msg(s.id)) }
func c11site0598(s *site) { s.mark(); log.Debug(s.ctx, s.tag, lazyMsg(s)) }
func c11site0599(s *site) { s.mark(); log.Record(s.ctx, log.InfoLevel, s.tag, 1, log.Msg(s.id)) }
func c11site0600(s *site) { s.mark(); log.Info(s.ctx, s.tag, log.Msg(s.id)) }
func c11site0601(s *site) { s.mark(); log.Warnf(s.ctx, s.tag, "%s", s.id) }
func c11site0602(s *site) { s.mark(); log.Error(s.ctx, s.tag, log.Msg(s.id)) }
func c11site0603(s *site) { s.mark(); log.Debug(s.ctx, s.tag, lazyMsg(s)) }
func c11site0604(s *site) { s.mark(); log.Record(s.ctx, log.InfoLevel, s.tag, 1, log.Msg(s.id)) }
func c11site0605(s *site) { s.mark(); log.Info(s.ctx, s.tag, log.Msg(s.id)) }
func c11site0606(s *site) { s.mark(); log.Warnf(s.ctx, s.tag, "%s", s.id) }
func c11site0607(s *site) { s.mark(); log.Error(s.ctx, s.tag, log.Msg(s.id)) }
func c11site0608(s *site) { s.mark(); log.Debug(s.ctx, s.tag, lazyMsg(s)) }
func c11site0609(s *site) { s.mark(); log.Record(s.ctx, log.InfoLevel, s.tag, 1, log.Msg(s.id)) }
func c11site0610(s *site) { s.mark(); log.Info(s.ctx, s.tag, log.Msg(s.id)) }
func c11site0611(s *site) { s.mark(); log.Warnf(s.ctx, s.tag, "%s", s.id) }
func c11site0612(s *site) { s.mark(); log.Error(s.ctx, s.tag, log.Msg(s.id)) }
func c11site0613(s *site) { s.mark(); log.Debug(s.ctx, s.tag, lazyMsg(s)) }
func c11site0614(s *site) { s.mark(); log.Record(s.ctx, log.InfoLevel, s.tag, 1, log.Msg(s.id)) }
func c11site0615(s *site) { s.mark(); log.Info(s.ctx, s.tag, log.Msg(s.id)) }
func c11site0616(s *site) { s.mark(); log.Warnf(s.ctx, s.tag, "%s", s.id) }
func c11site0617(s *site) { s.mark(); log.Error(s.ctx, s.tag, log.Msg(s.id)) }
func c11site0618(s *site) { s.mark(); log.Debug(s.ctx, s.tag, lazyMsg(s)) }
func c11site0619(s *site) { s.mark(); log.Record(s.ctx, log.InfoLevel, s.tag, 1, log.Msg(s.id)) }
func c11site0620(s *site) { s.mark(); log.Info(s.ctx, s.tag, log.Msg(s.id)) }
func c11site0621(s *site) { s.mark(); log.Warnf(s.ctx, s.tag, "%s", s.id) }
func c11site0622(s *site) { s.mark(); log.Error(s.ctx, s.tag, log.Msg(s.id)) }
func c11site0623(s *site) { s.mark(); log.Debug(s.ctx, s.tag, lazyMsg(s)) }
func c11site0624(s *site) { s.mark(); log.Record(s.ctx, log.InfoLevel, s.tag, 1, log.Msg(s.id)) }
func c11site0625(s *site) { s.mark(); log.Info(s.ctx, s.tag, log.Msg(s.id)) }
func c11site0626(s *site) { s.mark(); log.Warnf(s.ctx, s.tag, "%s", s.id) }
func c11site0627(s *site) { s.mark(); log.Error(s.ctx, s.tag, log.Msg(s.id)) }
func c11site0628(s *site) { s.mark(); log.Debug(s.ctx, s.tag, lazyMsg(s)) }
func c11site0629(s *site) { s.mark(); log.Record(s.ctx, log.InfoLevel, s.tag, 1, log.Msg(s.id)) }
func c11site0630(s *site) { s.mark(); log.Info(s.ctx, s.tag, log.Msg(s.id)) }
func c11site0631(s *site) { s.mark(); log.Warnf(s.ctx, s.tag, "%s", s.id) }
func c11site0632(s *site) { s.mark(); log.Error(s.ctx, s.tag, log.Msg(s.id)) }
func c11site0633(s *site) { s.mark(); log.Debug(s.ctx, s.tag, lazyMsg(s)) }
func c11site0634(s *site) { s.mark(); log.Record(s.ctx, log.InfoLevel, s.tag, 1, log.Msg(s.id)) }
func c11site0635(s *site) { s.mark(); log.Info(s.ctx, s.tag, log.Msg(s.id)) }
func c11site0636(s *site) { s.mark(); log.Warnf(s.ctx, s.tag, "%s", s.id) }
func c11site0637(s *site) { s.mark(); log.Error(s.ctx, s.tag, log.Msg(s.id)) }
func c11site0638(s *site) { s.mark(); log.Debug(s.ctx, s.tag, lazyMsg(s)) }
func c11site0639(s *site) { s.mark(); log.Record(s.ctx, log.InfoLevel, s.tag, 1, log.Msg(s.id)) }
func c11site0640(s *site) { s.mark(); log.Info(s.ctx, s.tag, log.Msg(s.id)) }
func c11site0641(s *site) { s.mark(); log.Warnf(s.ctx, s.tag, "%s", s.id) }
func c11site0642(s *site) { s.mark(); log.Error(s.ctx, s.tag, log.Msg(s.id)) }
func c11site0643(s *site) { s.mark(); log.Debug(s.ctx, s.tag, lazyMsg(s)) }
func c11site0644(s *site) { s.mark(); log.Record(s.ctx, log.InfoLevel, s.tag, 1, log.Msg(s.id)) }
func c11site0645(s *site) { s.mark(); log.Info(s.ctx, s.tag, log.Msg(s.id)) }
func c11site0646(s *site) { s.mark(); log.Warnf(s.ctx, s.tag, "%s", s.id) }
func c11site0647(s *site) { s.mark(); log.Error(s.ctx, s.tag, log.Msg(s.id)) }
func c11site0648(s *site) { s.mark(); log.Debug(s.ctx, s.tag, lazyMsg(s)) }
func c11site0649(s *site) { s.mark(); log.Record(s.ctx, log.InfoLevel, s.tag, 1, log.Msg(s.id)) }
func c11site0650(s *site) { s.mark(); log.Info(s.ctx, s.tag, log.Msg(s.id)) }
func c11site0651(s *site) { s.mark(); log.Warnf(s.ctx, s.tag, "%s", s.id) }
func c11site0652(s *site) { s.mark(); log.Error(s.ctx, s.tag, log.Msg(s.id)) }
func c11site0653(s *site) { s.mark(); log.Debug(s.ctx, s.tag, lazyMsg(s)) }
func c11site0654(s *site) { s.mark(); log.Record(s.ctx, log.InfoLevel, s.tag, 1, log.Msg(s.id)) }
func c11site0655(s *site) { s.mark(); log.Info(s.ctx, s.tag, log.Msg(s.id)) }
func c11site0656(s *site) { s.mark(); log.Warnf(s.ctx, s.tag, "%s", s.id) }
func c11site0657(s *site) { s.mark(); log.Error(s.ctx, s.tag, log.Msg(s.id)) }
func c11site0658(s *site) { s.mark(); log.Debug(s.ctx, s.tag, lazyMsg(s)) }
func c11site0659(s *site) { s.mark(); log.Record(s.ctx, log.InfoLevel, s.tag, 1, log.Msg(s.id)) }
func c11site0660(s *site) { s.mark(); log.Info(s.ctx, s.tag, log.Msg(s.id)) }
func c11site0661(s *site) { s.mark(); log.Warnf(s.ctx, s.tag, "%s", s.id) }
func c11site0662(s *site) { s.mark(); log.Error(s.ctx, s.tag, log.Msg(s.id)) }
func c11site0663(s *site) { s.mark(); log.Debug(s.ctx, s.tag, lazyMsg(s)) }
func c11site0664(s *site) { s.mark(); log.Record(s.ctx, log.InfoLevel, s.tag, 1, log.Msg(s.id)) }
func c11site0665(s *site) { s.mark(); log.Info(s.ctx, s.tag, log.Msg(s.id)) }
func c11site0666(s *site) { s.mark(); log.Warnf(s.ctx, s.tag, "%s", s.id) }
func c11site0667(s *site) { s.mark(); log.Error(s.ctx, s.tag, log.Msg(s.id)) }
func c11site0668(s *site) { s.mark(); log.Debug(s.ctx, s.tag, lazyMsg(s)) }
func c11site0669(s *site) { s.mark(); log.Record(s.ctx, log.InfoLevel, s.tag, 1, log.Msg(s.id)) }
func c11site0670(s *site) { s.mark(); log.Info(s.ctx, s.tag, log.Msg(s.id)) }
func c11site0671(s *site) { s.mark(); log.Warnf(s.ctx, s.tag, "%s", s.id) }
func c11site0672(s *site) { s.mark(); log.Error(s.ctx, s.tag, log.Msg(s.id)) }
func c11site0673(s *site) { s.mark(); log.Debug(s.ctx, s.tag, lazyMsg(s)) }
func c11site0674(s *site) { s.mark(); log.Record(s.ctx, log.InfoLevel, s.tag, 1, log.Msg(s.id)) }
func c11site0675(s *site) { s.mark(); log.Info(s.ctx, s.tag, log.Msg(s.id)) }
func c11site0676(s *site) { s.mark(); log.Warnf(s.ctx, s.tag, "%s", s.id) }
func c11site0677(s *site) { s.mark(); log.Error(s.ctx, s.tag, log.Msg(s.id)) }
func c11site0678(s *site) { s.mark(); log.Debug(s.ctx, s.tag, lazyMsg(s)) }
func c11site0679(s *site) { s.mark(); log.Record(s.ctx, log.InfoLevel, s.tag, 1, log.Msg(s.id)) }
func c11site0680(s *site) { s.mark(); log.Info(s.ctx, s.tag, log.Msg(s.id)) }
func c11site0681(s *site) { s.mark(); log.Warnf(s.ctx, s.tag, "%s", s.id) }
func c11site0682(s *site) { s.mark(); log.Error(s.ctx, s.tag, log.Msg(s.id)) }
func c11site0683(s *site) { s.mark(); log.Debug(s.ctx, s.tag, lazyMsg(s)) }
func c11site0684(s *site) { s.mark(); log.Record(s.ctx, log.InfoLevel, s.tag, 1, log.Msg(s.id)) }
func c11site0685(s *site) { s.mark(); log.Info(s.ctx, s.tag, log.Msg(s.id)) }
func c11site0686(s *site) { s.mark(); log.Warnf(s.ctx, s.tag, "%s", s.id) }
func c11site0687(s *site) { s.mark(); log.Error(s.ctx, s.tag, log.Msg(s.id)) }
func c11site0688(s *site) { s.mark(); log.Debug(s.ctx, s.tag, lazyMsg(s)) }
func c11site0689(s *site) { s.mark(); log.Record(s.ctx, log.InfoLevel, s.tag, 1, log.Msg(s.id)) }
func c11site0690(s *site) { s.mark(); log.Info(s.ctx, s.tag, log.Msg(s.id)) }
func c11site0691(s *site) { s.mark(); log.Warnf(s.ctx, s.tag, "%s", s.id) }
func c11site0692(s *site) { s.mark(); log.Error(s.ctx, s.tag, log.Msg(s.id)) }
func c11site0693(s *site) { s.mark(); log.Debug(s.ctx, s.tag, lazyMsg(s)) }
func c11site0694(s *site) { s.mark(); log.Record(s.ctx, log.InfoLevel, s.tag, 1, log.Msg(s.id)) }
func c11site0695(s *site) { s.mark(); log.Info(s.ctx, s.tag, log.Msg(s.id)) }
func c11site0696(s *site) { s.mark(); log.Warnf(s.ctx, s.tag, "%s", s.id) }
func c11site0697(s *site) { s.mark(); log.Error(s.ctx, s.tag, log.Msg(s.id)) }
func c11site0698(s *site) { s.mark(); log.Debug(s.ctx, s.tag, lazyMsg(s)) }
func c11site0699(s *site) { s.mark(); log.Record(s.ctx, log.InfoLevel, s.tag, 1, log.Msg(s.id)) }
func c11site0700(s *site) { s.mark(); log.Info(s.ctx, s.tag, log.Msg(s.id)) }
func c11site0701(s *site) { s.mark(); log.Warnf(s.ctx, s.tag, "%s", s.id) }
func c11site0702(s *site) { s.mark(); log.Error(s.ctx, s.tag, log.Msg(s.id)) }
func c11site0703(s *site) { s.mark(); log.Debug(s.ctx, s.tag, lazyMsg(s)) }
func c11site0704(s *site) { s.mark(); log.Record(s.ctx, log.InfoLevel, s.tag, 1, log.Msg(s.id)) }
func c11site0705(s *site) { s.mark(); log.Info(s.ctx, s.tag, log.Msg(s.id)) }
func c11site0706(s *site) { s.mark(); log.Warnf(s.ctx, s.tag, "%s", s.id) }
func c11site0707(s *site) { s.mark(); log.Error(s.ctx, s.tag, log.Msg(s.id)) }
func c11site0708(s *site) { s.mark(); log.Debug(s.ctx, s.tag, lazyMsg(s)) }
func c11site0709(s *site) { s.mark(); log.Record(s.ctx, log.InfoLevel, s.tag, 1, log.Msg(s.id)) }
func c11site0710(s *site) { s.mark(); log.Info(s.ctx, s.tag, log.Msg(s.id)) }
func c11site0711(s *site) { s.mark(); log.Warnf(s.ctx, s.tag, "%s", s.id) }
func c11site0712(s *site) { s.mark(); log.Error(s.ctx, s.tag, log.Msg(s.id)) }
func c11site0713(s *site) { s.mark(); log.Debug(s.ctx, s.tag, lazyMsg(s)) }
func c11site0714(s *site) { s.mark(); log.Record(s.ctx, log.InfoLevel, s.tag, 1, log.Msg(s.id)) }
func c11site0715(s *site) { s.mark(); log.Info(s.ctx, s.tag, log.Msg(s.id)) }
func c11site0716(s *site) { s.mark(); log.Warnf(s.ctx, s.tag, "%s", s.id) }
func c11site0717(s *site) { s.mark(); log.Error(s.ctx, s.tag, log.Msg(s.id)) }
func c11site0718(s *site) { s.mark(); log.Debug(s.ctx, s.tag, lazyMsg(s)) }
func c11site0719(s *site) { s.mark(); log.Record(s.ctx, log.InfoLevel, s.tag, 1, log.Msg(s.id)) }
func c11site0720(s *site) { s.mark(); log.Info(s.ctx, s.tag, log.Msg(s.id)) }
func c11site0721(s *site) { s.mark(); log.Warnf(s.ctx, s.tag, "%s", s.id) }
func c11site0722(s *site) { s.mark(); log.Error(s.ctx, s.tag, log.Msg(s.id)) }
func c11site0723(s *site) { s.mark(); log.Debug(s.ctx, s.tag, lazyMsg(s)) }
func c11site0724(s *site) { s.mark(); log.Record(s.ctx, log.InfoLevel, s.tag, 1, log.Msg(s.id)) }
func c11site0725(s *site) { s.mark(); log.Info(s.ctx, s.tag, log.Msg(s.id)) }
func c11site0726(s *site) { s.mark(); log.Warnf(s.ctx, s.tag, "%s", s.id) }
func c11site0727(s *site) { s.mark(); log.Error(s.ctx, s.tag, log.Msg(s.id)) }
func c11site0728(s *site) { s.mark(); log.Debug(s.ctx, s.tag, lazyMsg(s)) }
func c11site0729(s *site) { s.mark(); log.Record(s.ctx, log.InfoLevel, s.tag, 1, log.Msg(s.id)) }
func c11site0730(s *site) { s.mark(); log.Info(s.ctx, s.tag, log.Msg(s.id)) }
func c11site0731(s *site) { s.mark(); log.Warnf(s.ctx, s.tag, "%s", s.id) }
func c11site0732(s *site) { s.mark(); log.Error(s.ctx, s.tag, log.Msg(s.id)) }
func c11site0733(s *site) { s.mark(); log.Debug(s.ctx, s.tag, lazyMsg(s)) }
func c11site0734(s *site) { s.mark(); log.Record(s.ctx, log.InfoLevel, s.tag, 1, log.Msg(s.id)) }
func c11site0735(s *site) { s.mark(); log.Info(s.ctx, s.tag, log.Msg(s.id)) }
func c11site0736(s *site) { s.mark(); log.Warnf(s.ctx, s.tag, "%s", s.id) }
func c11site0737(s *site) { s.mark(); log.Error(s.ctx, s.tag, log.Msg(s.id)) }
func c11site0738(s *site) { s.mark(); log.Debug(s.ctx, s.tag, lazyMsg(s)) }
func c11site0739(s *site) { s.mark(); log.Record(s.ctx, log.InfoLevel, s.tag, 1, log.Msg(s.id)) }
func c11site0740(s *site) { s.mark(); log.Info(s.ctx, s.tag, log.Msg(s.id)) }
func c11site0741(s *site) { s.mark(); log.Warnf(s.ctx, s.tag, "%s", s.id) }
func c11site0742(s *site) { s.mark(); log.Error(s.ctx, s.tag, log.Msg(s.id)) }
func c11site0743(s *site) { s.mark(); log.Debug(s.ctx, s.tag, lazyMsg(s)) }
func c11site0744(s *site) { s.mark(); log.Record(s.ctx, log.InfoLevel, s.tag, 1, log.Msg(s.id)) }
func c11site0745(s *site) { s.mark(); log.Info(s.ctx, s.tag, log.Msg(s.id)) }
func c11site0746(s *site) { s.mark(); log.Warnf(s.ctx, s.tag, "%s", s.id) }
func c11site0747(s *site) { s.mark(); log.Error(s.ctx, s.tag, log.Msg(s.id)) }
func c11site0748(s *site) { s.mark(); log.Debug(s.ctx, s.tag, lazyMsg(s)) }
func c11site0749(s *site) { s.mark(); log.Record(s.ctx, log.InfoLevel, s.tag, 1, log.Msg(s.id)) }
func c11site0750(s *site) { s.mark(); log.Info(s.ctx, s.tag, log.Msg(s.id)) }
func c11site0751(s *site) { s.mark(); log.Warnf(s.ctx, s.tag, "%s", s.id) }
func c11site0752(s *site) { s.mark(); log.Error(s.ctx, s.tag, log.Msg(s.id)) }
func c11site0753(s *site) { s.mark(); log.Debug(s.ctx, s.tag, lazyMsg(s)) }
func c11site0754(s *site) { s.mark(); log.Record(s.ctx, log.InfoLevel, s.tag, 1, log.Msg(s.id)) }
func c11site0755(s *site) { s.mark(); log.Info(s.ctx, s.tag, log.Msg(s.id)) }
func c11site0756(s *site) { s.mark(); log.Warnf(s.ctx, s.tag, "%s", s.id) }
func c11site0757(s *site) { s.mark(); log.Error(s.ctx, s.tag, log.Msg(s.id)) }
func c11site0758(s *site) { s.mark(); log.Debug(s.ctx, s.tag, lazyMsg(s)) }
func c11site0759(s *site) { s.mark(); log.Record(s.ctx, log.InfoLevel, s.tag, 1, log.Msg(s.id)) }
func c11site0760(s *site) { s.mark(); log.Info(s.ctx, s.tag, log.Msg(s.id)) }
func c11site0761(s *site) { s.mark(); log.Warnf(s.ctx, s.tag, "%s", s.id) }
func c11site0762(s *site) { s.mark(); log.Error(s.ctx, s.tag, log.Msg(s.id)) }
func c11site0763(s *site) { s.mark(); log.Debug(s.ctx, s.tag, lazyMsg(s)) }
func c11site0764(s *site) { s.mark(); log.Record(s.ctx, log.InfoLevel, s.tag, 1, log.Msg(s.id)) }
func c11site0765(s *site) { s.mark(); log.Info(s.ctx, s.tag, log.Msg(s.id)) }
func c11site0766(s *site) { s.mark(); log.Warnf(s.ctx, s.tag, "%s", s.id) }
func c11site0767(s *site) { s.mark(); log.Error(s.ctx, s.tag, log.Msg(s.id)) }
func c11site0768(s *site) { s.mark(); log.Debug(s.ctx, s.tag, lazyMsg(s)) }
func c11site0769(s *site) { s.mark(); log.Record(s.ctx, log.InfoLevel, s.tag, 1, log.Msg(s.id)) }
func c11site0770(s *site) { s.mark(); log.Info(s.ctx, s.tag, log.Msg(s.id)) }
func c11site0771(s *site) { s.mark(); log.Warnf(s.ctx, s.tag, "%s", s.id) }
func c11site0772(s *site) { s.mark(); log.Error(s.ctx, s.tag, log.Msg(s.id)) }
func c11site0773(s *site) { s.mark(); log.Debug(s.ctx, s.tag, lazyMsg(s)) }
func c11site0774(s *site) { s.mark(); log.Record(s.ctx, log.InfoLevel, s.tag, 1, log.Msg(s.id)) }
func c11site0775(s *site) { s.mark(); log.Info(s.ctx, s.tag, log.Msg(s.id)) }
func c11site0776(s *site) { s.mark(); log.Warnf(s.ctx, s.tag, "%s", s.id) }
func c11site0777(s *site) { s.mark(); log.Error(s.ctx, s.tag, log.Msg(s.id)) }
func c11site0778(s *site) { s.mark(); log.Debug(s.ctx, s.tag, lazyMsg(s)) }
func c11site0779(s *site) { s.mark(); log.Record(s.ctx, log.InfoLevel, s.tag, 1, log.Msg(s.id)) }
func c11site0780(s *site) { s.mark(); log.Info(s.ctx, s.tag, log.Msg(s.id)) }
func c11site0781(s *site) { s.mark(); log.Warnf(s.ctx, s.tag, "%s", s.id) }
func c11site0782(s *site) { s.mark(); log.Error(s.ctx, s.tag, log.Msg(s.id)) }
func c11site0783(s *site) { s.mark(); log.Debug(s.ctx, s.tag, lazyMsg(s)) }
func c11site0784(s *site) { s.mark(); log.Record(s.ctx, log.InfoLevel, s.tag, 1, log.Msg(s.id)) }
func c11site0785(s *site) { s.mark(); log.Info(s.ctx, s.tag, log.Msg(s.id)) }
func c11site0786(s *site) { s.mark(); log.Warnf(s.ctx, s.tag, "%s", s.id) }
func c11site0787(s *site) { s.mark(); log.Error(s.ctx, s.tag, log.Msg(s.id)) }
func c11site0788(s *site) { s.mark(); log.Debug(s.ctx, s.tag, lazyMsg(s)) }
func c11site0789(s *site) { s.mark(); log.Record(s.ctx, log.InfoLevel, s.tag, 1, log.Msg(s.id)) }
func c11site0790(s *site) { s.mark(); log.Info(s.ctx, s.tag, log.Msg(s.id)) }
func c11site0791(s *site) { s.mark(); log.Warnf(s.ctx, s.tag, "%s", s.id) }
func c11site0792(s *site) { s.mark(); log.Error(s.ctx, s.tag, log.Msg(s.id)) }
func c11site0793(s *site) { s.mark(); log.Debug(s.ctx, s.tag, lazyMsg(s)) }
func c11site0794(s *site) { s.mark(); log.Record(s.ctx, log.InfoLevel, s.tag, 1, log.Msg(s.id)) }
func c11site0795(s *site) { s.mark(); log.Info(s.ctx, s.tag, log.Msg(s.id)) }
func c11site0796(s *site) { s.mark(); log.Warnf(s.ctx, s.tag, "%s", s.id) }
func c11site0797(s *site) { s.mark(); log.Error(s.ctx, s.tag, log.Msg(s.id)) }
func c11site0798(s *site) { s.mark(); log.Debug(s.ctx, s.tag, lazyMsg(s)) }
func c11site0799(s *site) { s.mark(); log.Record(s.ctx, log.InfoLevel, s.tag, 1, log.Msg(s.id)) }
func c11site0800(s *site) { s.mark(); log.Info(s.ctx, s.tag, log.Msg(s.id)) }
func c11site0801(s *site) { s.mark(); log.Warnf(s.ctx, s.tag, "%s", s.id) }
func c11site0802(s *site) { s.mark(); log.Error(s.ctx, s.tag, log.Msg(s.id)) }
func c11site0803(s *site) { s.mark(); log.Debug(s.ctx, s.tag, lazyMsg(s)) }
func c11site0804(s *site) { s.mark(); log.Record(s.ctx, log.InfoLevel, s.tag, 1, log.Msg(s.id)) }
func c11site0805(s *site) { s.mark(); log.Info(s.ctx, s.tag, log.Msg(s.id)) }
func c11site0806(s *site) { s.mark(); log.Warnf(s.ctx, s.tag, "%s", s.id) }
func c11site0807(s *site) { s.mark(); log.Error(s.ctx, s.tag, log.Msg(s.id)) }
func c11site0808(s *site) { s.mark(); log.Debug(s.ctx, s.tag, lazyMsg(s)) }
func c11site0809(s *site) { s.mark(); log.Record(s.ctx, log.InfoLevel, s.tag, 1, log.Msg(s.id)) }
func c11site0810(s *site) { s.mark(); log.Info(s.ctx, s.tag, log.Msg(s.id)) }
func c11site0811(s *site) { s.mark(); log.Warnf(s.ctx, s.tag, "%s", s.id) }
func c11site0812(s *site) { s.mark(); log.Error(s.ctx, s.tag, log.Msg(s.id)) }
func c11site0813(s *site) { s.mark(); log.Debug(s.ctx, s.tag, lazyMsg(s)) }
func c11site0814(s *site) { s.mark(); log.Record(s.ctx, log.InfoLevel, s.tag, 1, log.Msg(s.id)) }
func c11site0815(s *site) { s.mark(); log.Info(s.ctx, s.tag, log.Msg(s.id)) }
func c11site0816(s *site) { s.mark(); log.Warnf(s.ctx, s.tag, "%s", s.id) }
func c11site0817(s *site) { s.mark(); log.Error(s.ctx, s.tag, log.Msg(s.id)) }
func c11site0818(s *site) { s.mark(); log.Debug(s.ctx, s.tag, lazyMsg(s)) }
func c11site0819(s *site) { s.mark(); log.Record(s.ctx, log.InfoLevel, s.tag, 1, log.Msg(s.id)) }
func c11site0820(s *site) { s.mark(); log.Info(s.ctx, s.tag, log.Msg(s.id)) }
func c11site0821(s *site) { s.mark(); log.Warnf(s.ctx, s.tag, "%s", s.id) }
func c11site0822(s *site) { s.mark(); log.Error(s.ctx, s.tag, log.Msg(s.id)) }
func c11site0823(s *site) { s.mark(); log.Debug(s.ctx, s.tag, lazyMsg(s)) }
func c11site0824(s *site) { s.mark(); log.Record(s.ctx, log.InfoLevel, s.tag, 1, log.Msg(s.id)) }
func c11site0825(s *site) { s.mark(); log.Info(s.ctx, s.tag, log.Msg(s.id)) }
func c11site0826(s *site) { s.mark(); log.Warnf(s.ctx, s.tag, "%s", s.id) }
func c11site0827(s *site) { s.mark(); log.Error(s.ctx, s.tag, log.Msg(s.id)) }
func c11site0828(s *site) { s.mark(); log.Debug(s.ctx, s.tag, lazyMsg(s)) }
func c11site0829(s *site) { s.mark(); log.Record(s.ctx, log.InfoLevel, s.tag, 1, log.Msg(s.id)) }
func c11site0830(s *site) { s.mark(); log.Info(s.ctx, s.tag, log.Msg(s.id)) }
func c11site0831(s *site) { s.mark(); log.Warnf(s.ctx, s.tag, "%s", s.id) }
func c11site0832(s *site) { s.mark(); log.Error(s.ctx, s.tag, log.Msg(s.id)) }
func c11site0833(s *site) { s.mark(); log.Debug(s.ctx, s.tag, lazyMsg(s)) }
func c11site0834(s *site) { s.mark(); log.Record(s.ctx, log.InfoLevel, s.tag, 1, log.Msg(s.id)) }
func c11site0835(s *site) { s.mark(); log.Info(s.ctx, s.tag, log.Msg(s.id)) }
func c11site0836(s *site) { s.mark(); log.Warnf(s.ctx, s.tag, "%s", s.id) }
func c11site0837(s *site) { s.mark(); log.Error(s.ctx, s.tag, log.Msg(s.id)) }
func c11site0838(s *site) { s.mark(); log.Debug(s.ctx, s.tag, lazyMsg(s)) }
func c11site0839(s *site) { s.mark(); log.Record(s.ctx, log.InfoLevel, s.tag, 1, log.Msg(s.id)) }
func c11site0840(s *site) { s.mark(); log.Info(s.ctx, s.tag, log.Msg(s.id)) }
func c11site0841(s *site) { s.mark(); log.Warnf(s.ctx, s.tag, "%s", s.id) }
func c11site0842(s *site) { s.mark(); log.Error(s.ctx, s.tag, log.Msg(s.id)) }
func c11site0843(s *site) { s.mark(); log.Debug(s.ctx, s.tag, lazyMsg(s)) }
func c11site0844(s *site) { s.mark(); log.Record(s.ctx, log.InfoLevel, s.tag, 1, log.Msg(s.id)) }
func c11site0845(s *site) { s.mark(); log.Info(s.ctx, s.tag, log.Msg(s.id)) }
func c11site0846(s *site) { s.mark(); log.Warnf(s.ctx, s.tag, "%s", s.id) }
func c11site0847(s *site) { s.mark(); log.Error(s.ctx, s.tag, log.Msg(s.id)) }
func c11site0848(s *site) { s.mark(); log.Debug(s.ctx, s.tag, lazyMsg(s)) }
func c11site0849(s *site) { s.mark(); log.Record(s.ctx, log.InfoLevel, s.tag, 1, log.Msg(s.id)) }
func c11site0850(s *site) { s.mark(); log.Info(s.ctx, s.tag, log.Msg(s.id)) }
func c11site0851(s *site) { s.mark(); log.Warnf(s.ctx, s.tag, "%s", s.id) }
func c11site0852(s *site) { s.mark(); log.Error(s.ctx, s.tag, log.Msg(s.id)) }
func c11site0853(s *site) { s.mark(); log.Debug(s.ctx, s.tag, lazyMsg(s)) }
func c11site0854(s *site) { s.mark(); log.Record(s.ctx, log.InfoLevel, s.tag, 1, log.Msg(s.id)) }
func c11site0855(s *site) { s.mark(); log.Info(s.ctx, s.tag, log.Msg(s.id)) }
func c11site0856(s *site) { s.mark(); log.Warnf(s.ctx, s.tag, "%s", s.id) }
func c11site0857(s *site) { s.mark(); log.Error(s.ctx, s.tag, log.Msg(s.id)) }
func c11site0858(s *site) { s.mark(); log.Debug(s.ctx, s.tag, lazyMsg(s)) }
func c11site0859(s *site) { s.mark(); log.Record(s.ctx, log.InfoLevel, s.tag, 1, log.Msg(s.id)) }
func c11site0860(s *site) { s.mark(); log.Info(s.ctx, s.tag, log.Msg(s.id)) }
func c11site0861(s *site) { s.mark(); log.Warnf(s.ctx, s.tag, "%s", s.id) }
func c11site0862(s *site) { s.mark(); log.Error(s.ctx, s.tag, log.Msg(s.id)) }
func c11site0863(s *site) { s.mark(); log.Debug(s.ctx, s.tag, lazyMsg(s)) }
func c11site0864(s *site) { s.mark(); log.Record(s.ctx, log.InfoLevel, s.tag, 1, log.Msg(s.id)) }
func c11site0865(s *site) { s.mark(); log.Info(s.ctx, s.tag, log.Msg(s.id)) }
func c11site0866(s *site) { s.mark(); log.Warnf(s.ctx, s.tag, "%s", s.id) }
func c11site0867(s *site) { s.mark(); log.Error(s.ctx, s.tag, log.Msg(s.id)) }
func c11site0868(s *site) { s.mark(); log.Debug(s.ctx, s.tag, lazyMsg(s)) }
func c11site0869(s *site) { s.mark(); log.Record(s.ctx, log.InfoLevel, s.tag, 1, log.Msg(s.id)) }
func c11site0870(s *site) { s.mark(); log.Info(s.ctx, s.tag, log.Msg(s.id)) }
func c11site0871(s *site) { s.mark(); log.Warnf(s.ctx, s.tag, "%s", s.id) }
func c11site0872(s *site) { s.mark(); log.Error(s.ctx, s.tag, log.Msg(s.id)) }
func c11site0873(s *site) { s.mark(); log.Debug(s.ctx, s.tag, lazyMsg(s)) }
func c11site0874(s *site) { s.mark(); log.Record(s.ctx, log.InfoLevel, s.tag, 1, log.Msg(s.id)) }
func c11site0875(s *site) { s.mark(); log.Info(s.ctx, s.tag, log.Msg(s.id)) }
func c11site0876(s *site) { s.mark(); log.Warnf(s.ctx, s.tag, "%s", s.id) }
func c11site0877(s *site) { s.mark(); log.Error(s.ctx, s.tag, log.Msg(s.id)) }
func c11site0878(s *site) { s.mark(); log.Debug(s.ctx, s.tag, lazyMsg(s)) }
func c11site0879(s *site) { s.mark(); log.Record(s.ctx, log.InfoLevel, s.tag, 1, log.Msg(s.id)) }
func c11site0880(s *site) { s.mark(); log.Info(s.ctx, s.tag, log.Msg(s.id)) }
func c11site0881(s *site) { s.mark(); log.Warnf(s.ctx, s.tag, "%s", s.id) }
func c11site0882(s *site) { s.mark(); log.Error(s.ctx, s.tag, log.Msg(s.id)) }
func c11site0883(s *site) { s.mark(); log.Debug(s.ctx, s.tag, lazyMsg(s)) }
func c11site0884(s *site) { s.mark(); log.Record(s.ctx, log.InfoLevel, s.tag, 1, log.Msg(s.id)) }
func c11site0885(s *site) { s.mark(); log.Info(s.ctx, s.tag, log.Msg(s.id)) }
func c11site0886(s *site) { s.mark(); log.Warnf(s.ctx, s.tag, "%s", s.id) }
func c11site0887(s *site) { s.mark(); log.Error(s.ctx, s.tag, log.Msg(s.id)) }
func c11site0888(s *site) { s.mark(); log.Debug(s.ctx, s.tag, lazyMsg(s)) }
func c11site0889(s *site) { s.mark(); log.Record(s.ctx, log.InfoLevel, s.tag, 1, log.Msg(s.id)) }
func c11site0890(s *site) { s.mark(); log.Info(s.ctx, s.tag, log.Msg(s.id)) }
func c11site0891(s *site) { s.mark(); log.Warnf(s.ctx, s.tag, "%s", s.id) }
func c11site0892(s *site) { s.mark(); log.Error(s.ctx, s.tag, log.Msg(s.id)) }
func c11site0893(s *site) { s.mark(); log.Debug(s.ctx, s.tag, lazyMsg(s)) }
func c11site0894(s *site) { s.mark(); log.Record(s.ctx, log.InfoLevel, s.tag, 1, log.Msg(s.id)) }
func c11site0895(s *site) { s.mark(); log.Info(s.ctx, s.tag, log.Msg(s.id)) }
func c11site0896(s *site) { s.mark(); log.Warnf(s.ctx, s.tag, "%s", s.id) }
func c11site0897(s *site) { s.mark(); log.Error(s.ctx, s.tag, log.Msg(s.id)) }
func c11site0898(s *site) { s.mark(); log.Debug(s.ctx, s.tag, lazyMsg(s)) }
func c11site0899(s *site) { s.mark(); log.Record(s.ctx, log.InfoLevel, s.tag, 1, log.Msg(s.id)) }
func c11site0900(s *site) { s.mark(); log.Info(s.ctx, s.tag, log.Msg(s.id)) }
func c11site0901(s *site) { s.mark(); log.Warnf(s.ctx, s.tag, "%s", s.id) }
func c11site0902(s *site) { s.mark(); log.Error(s.ctx, s.tag, log.Msg(s.id)) }
func c11site0903(s *site) { s.mark(); log.Debug(s.ctx, s.tag, lazyMsg(s)) }
func c11site0904(s *site) { s.mark(); log.Record(s.ctx, log.InfoLevel, s.tag, 1, log.Msg(s.id)) }
func c11site0905(s *site) { s.mark(); log.Info(s.ctx, s.tag, log.Msg(s.id)) }
func c11site0906(s *site) { s.mark(); log.Warnf(s.ctx, s.tag, "%s", s.id) }
func c11site0907(s *site) { s.mark(); log.Error(s.ctx, s.tag, log.Msg(s.id)) }
func c11site0908(s *site) { s.mark(); log.Debug(s.ctx, s.tag, lazyMsg(s)) }
func c11site0909(s *site) { s.mark(); log.Record(s.ctx, log.InfoLevel, s.tag, 1, log.Msg(s.id)) }
func c11site0910(s *site) { s.mark(); log.Info(s.ctx, s.tag, log.Msg(s.id)) }
func c11site0911(s *site) { s.mark(); log.Warnf(s.ctx, s.tag, "%s", s.id) }
func c11site0912(s *site) { s.mark(); log.Error(s.ctx, s.tag, log.Msg(s.id)) }
func c11site0913(s *site) { s.mark(); log.Debug(s.ctx, s.tag, lazyMsg(s)) }
func c11site0914(s *site) { s.mark(); log.Record(s.ctx, log.InfoLevel, s.tag, 1, log.Msg(s.id)) }
func c11site0915(s *site) { s.mark(); log.Info(s.ctx, s.tag, log.Msg(s.id)) }
func c11site0916(s *site) { s.mark(); log.Warnf(s.ctx, s.tag, "%s", s.id) }
func c11site0917(s *site) { s.mark(); log.Error(s.ctx, s.tag, log.Msg(s.id)) }
func c11site0918(s *site) { s.mark(); log.Debug(s.ctx, s.tag, lazyMsg(s)) }
func c11site0919(s *site) { s.mark(); log.Record(s.ctx, log.InfoLevel, s.tag, 1, log.Msg(s.id)) }
func c11site0920(s *site) { s.mark(); log.Info(s.ctx, s.tag, log.Msg(s.id)) }
func c11site0921(s *site) { s.mark(); log.Warnf(s.ctx, s.tag, "%s", s.id) }
func c11site0922(s *site) { s.mark(); log.Error(s.ctx, s.tag, log.Msg(s.id)) }
func c11site0923(s *site) { s.mark(); log.Debug(s.ctx, s.tag, lazyMsg(s)) }
func c11site0924(s *site) { s.mark(); log.Record(s.ctx, log.InfoLevel, s.tag, 1, log.Msg(s.id)) }
func c11site0925(s *site) { s.mark(); log.Info(s.ctx, s.tag, log.Msg(s.id)) }
func c11site0926(s *site) { s.mark(); log.Warnf(s.ctx, s.tag, "%s", s.id) }
func c11site0927(s *site) { s.mark(); log.Error(s.ctx, s.tag, log.Msg(s.id)) }
func c11site0928(s *site) { s.mark(); log.Debug(s.ctx, s.tag, lazyMsg(s)) }
func c11site0929(s *site) { s.mark(); log.Record(s.ctx, log.InfoLevel, s.tag, 1, log.Msg(s.id)) }
func c11site0930(s *site) { s.mark(); log.Info(s.ctx, s.tag, log.Msg(s.id)) }
func c11site0931(s *site) { s.mark(); log.Warnf(s.ctx, s.tag, "%s", s.id) }
func c11site0932(s *site) { s.mark(); log.Error(s.ctx, s.tag, log.Msg(s.id)) }
func c11site0933(s *site) { s.mark(); log.Debug(s.ctx, s.tag, lazyMsg(s)) }
func c11site0934(s *site) { s.mark(); log.Record(s.ctx, log.InfoLevel, s.tag, 1, log.Msg(s.id)) }
func c11site0935(s *site) { s.mark(); log.Info(s.ctx, s.tag, log.Msg(s.id)) }
func c11site0936(s *site) { s.mark(); log.Warnf(s.ctx, s.tag, "%s", s.id) }
func c11site0937(s *site) { s.mark(); log.Error(s.ctx, s.tag, log.Msg(s.id)) }
func c11site0938(s *site) { s.mark(); log.Debug(s.ctx, s.tag, lazyMsg(s)) }
func c11site0939(s *site) { s.mark(); log.Record(s.ctx, log.InfoLevel, s.tag, 1, log.Msg(s.id)) }
func c11site0940(s *site) { s.mark(); log.Info(s.ctx, s.tag, log.Msg(s.id)) }
func c11site0941(s *site) { s.mark(); log.Warnf(s.ctx, s.tag, "%s", s.id) }
func c11site0942(s *site) { s.mark(); log.Error(s.ctx, s.tag, log.Msg(s.id)) }
func c11site0943(s *site) { s.mark(); log.Debug(s.ctx, s.tag, lazyMsg(s)) }
func c11site0944(s *site) { s.mark(); log.Record(s.ctx, log.InfoLevel, s.tag, 1, log.Msg(s.id)) }
func c11site0945(s *site) { s.mark(); log.Info(s.ctx, s.tag, log.Msg(s.id)) }
func c11site0946(s *site) { s.mark(); log.Warnf(s.ctx, s.tag, "%s", s.id) }
func c11site0947(s *site) { s.mark(); log.Error(s.ctx, s.tag, log.Msg(s.id)) }
func c11site0948(s *site) { s.mark(); log.Debug(s.ctx, s.tag, lazyMsg(s)) }
func c11site0949(s *site) { s.mark(); log.Record(s.ctx, log.InfoLevel, s.tag, 1, log.Msg(s.id)) }
func c11site0950(s *site) { s.mark(); log.Info(s.ctx, s.tag, log.Msg(s.id)) }
func c11site0951(s *site) { s.mark(); log.Warnf(s.ctx, s.tag, "%s", s.id) }
func c11site0952(s *site) { s.mark(); log.Error(s.ctx, s.tag, log.Msg(s.id)) }
func c11site0953(s *site) { s.mark(); log.Debug(s.ctx, s.tag, lazyMsg(s)) }
func c11site0954(s *site) { s.mark(); log.Record(s.ctx, log.InfoLevel, s.tag, 1, log.Msg(s.id)) }
func c11site0955(s *site) { s.mark(); log.Info(s.ctx, s.tag, log.Msg(s.id)) }
func c11site0956(s *site) { s.mark(); log.Warnf(s.ctx, s.tag, "%s", s.id) }
func c11site0957(s *site) { s.mark(); log.Error(s.ctx, s.tag, log.Msg(s.id)) }
func c11site0958(s *site) { s.mark(); log.Debug(s.ctx, s.tag, lazyMsg(s)) }
func c11site0959(s *site) { s.mark(); log.Record(s.ctx, log.InfoLevel, s.tag, 1, log.Msg(s.id)) }
func c11site0960(s *site) { s.mark(); log.Info(s.ctx, s.tag, log.Msg(s.id)) }
func c11site0961(s *site) { s.mark(); log.Warnf(s.ctx, s.tag, "%s", s.id) }
func c11site0962(s *site) { s.mark(); log.Error(s.ctx, s.tag, log.Msg(s.id)) }
func c11site0963(s *site) { s.mark(); log.Debug(s.ctx, s.tag, lazyMsg(s)) }
func c11site0964(s *site) { s.mark(); log.Record(s.ctx, log.InfoLevel, s.tag, 1, log.Msg(s.id)) }
func c11site0965(s *site) { s.mark(); log.Info(s.ctx, s.tag, log.Msg(s.id)) }
func c11site0966(s *site) { s.mark(); log.Warnf(s.ctx, s.tag, "%s", s.id) }
func c11site0967(s *site) { s.mark(); log.Error(s.ctx, s.tag, log.Msg(s.id)) }
func c11site0968(s *site) { s.mark(); log.Debug(s.ctx, s.tag, lazyMsg(s)) }
func c11site0969(s *site) { s.mark(); log.Record(s.ctx, log.InfoLevel, s.tag, 1, log.Msg(s.id)) }
func c11site0970(s *site) { s.mark(); log.Info(s.ctx, s.tag, log.Msg(s.id)) }
func c11site0971(s *site) { s.mark(); log.Warnf(s.ctx, s.tag, "%s", s.id) }
func c11site0972(s *site) { s.mark(); log.Error(s.ctx, s.tag, log.Msg(s.id)) }
func c11site0973(s *site) { s.mark(); log.Debug(s.ctx, s.tag, lazyMsg(s)) }
func c11site0974(s *site) { s.mark(); log.Record(s.ctx, log.InfoLevel, s.tag, 1, log.Msg(s.id)) }
func c11site0975(s *site) { s.mark(); log.Info(s.ctx, s.tag, log.Msg(s.id)) }
func c11site0976(s *site) { s.mark(); log.Warnf(s.ctx, s.tag, "%s", s.id) }
func c11site0977(s *site) { s.mark(); log.Error(s.ctx, s.tag, log.Msg(s.id)) }
func c11site0978(s *site) { s.mark(); log.Debug(s.ctx, s.tag, lazyMsg(s)) }
func c11site0979(s *site) { s.mark(); log.Record(s.ctx, log.InfoLevel, s.tag, 1, log.Msg(s.id)) }
func c11site0980(s *site) { s.mark(); log.Info(s.ctx, s.tag, log.Msg(s.id)) }
func c11site0981(s *site) { s.mark(); log.Warnf(s.ctx, s.tag, "%s", s.id) }
func c11site0982(s *site) { s.mark(); log.Error(s.ctx, s.tag, log.Msg(s.id)) }
func c11site0983(s *site) { s.mark(); log.Debug(s.ctx, s.tag, lazyMsg(s)) }
func c11site0984(s *site) { s.mark(); log.Record(s.ctx, log.InfoLevel, s.tag, 1, log.Msg(s.id)) }
func c11site0985(s *site) { s.mark(); log.Info(s.ctx, s.tag, log.Msg(s.id)) }
func c11site0986(s *site) { s.mark(); log.Warnf(s.ctx, s.tag, "%s", s.id) }
func c11site0987(s *site) { s.mark(); log.Error(s.ctx, s.tag, log.Msg(s.id)) }
func c11site0988(s *site) { s.mark(); log.Debug(s.ctx, s.tag, lazyMsg(s)) }
func c11site0989(s *site) { s.mark(); log.Record(s.ctx, log.InfoLevel, s.tag, 1, log.Msg(s.id)) }
func c11site0990(s *site) { s.mark(); log.Info(s.ctx, s.tag, log.Msg(s.id)) }
func c11site0991(s *site) { s.mark(); log.Warnf(s.ctx, s.tag, "%s", s.id) }
func c11site0992(s *site) { s.mark(); log.Error(s.ctx, s.tag, log.Msg(s.id)) }
func c11site0993(s *site) { s.mark(); log.Debug(s.ctx, s.tag, lazyMsg(s)) }
func c11site0994(s *site) { s.mark(); log.Record(s.ctx, log.InfoLevel, s.tag, 1, log.Msg(s.id)) }
func c11site0995(s *site) { s.mark(); log.Info(s.ctx, s.tag, log.Msg(s.id)) }
func c11site0996(s *site) { s.mark(); log.Warnf(s.ctx, s.tag, "%s", s.id) }
func c11site0997(s *site) { s.mark(); log.Error(s.ctx, s.tag, log.Msg(s.id)) }
func c11site0998(s *site) { s.mark(); log.Debug(s.ctx, s.tag, lazyMsg(s)) }
func c11site0999(s *site) { s.mark(); log.Record(s.ctx, log.InfoLevel, s.tag, 1, log.Msg(s.id)) }
func c11site1000(s *site) { s.mark(); log.Info(s.ctx, s.tag, log.Msg(s.id)) }
func c11site1001(s *site) { s.mark(); log.Warnf(s.ctx, s.tag, "%s", s.id) }
func c11site1002(s *site) { s.mark(); log.Error(s.ctx, s.tag, log.Msg(s.id)) }
func c11site1003(s *site) { s.mark(); log.Debug(s.ctx, s.tag, lazyMsg(s)) }
func c11site1004(s *site) { s.mark(); log.Record(s.ctx, log.InfoLevel, s.tag, 1, log.Msg(s.id)) }
func c11site1005(s *site) { s.mark(); log.Info(s.ctx, s.tag, log.Msg(s.id)) }
func c11site1006(s *site) { s.mark(); log.Warnf(s.ctx, s.tag, "%s", s.id) }
func c11site1007(s *site) { s.mark(); log.Error(s.ctx, s.tag, log.Msg(s.id)) }
func c11site1008(s *site) { s.mark(); log.Debug(s.ctx, s.tag, lazyMsg(s)) }
func c11site1009(s *site) { s.mark(); log.Record(s.ctx, log.InfoLevel, s.tag, 1, log.Msg(s.id)) }
func c11site1010(s *site) { s.mark(); log.Info(s.ctx, s.tag, log.Msg(s.id)) }
func c11site1011(s *site) { s.mark(); log.Warnf(s.ctx, s.tag, "%s", s.id) }
func c11site1012(s *site) { s.mark(); log.Error(s.ctx, s.tag, log.Msg(s.id)) }
func c11site1013(s *site) { s.mark(); log.Debug(s.ctx, s.tag, lazyMsg(s)) }
func c11site1014(s *site) { s.mark(); log.Record(s.ctx, log.InfoLevel, s.tag, 1, log.Msg(s.id)) }
func c11site1015(s *site) { s.mark(); log.Info(s.ctx, s.tag, log.Msg(s.id)) }
func c11site1016(s *site) { s.mark(); log.Warnf(s.ctx, s.tag, "%s", s.id) }
func c11site1017(s *site) { s.mark(); log.Error(s.ctx, s.tag, log.Msg(s.id)) }
func c11site1018(s *site) { s.mark(); log.Debug(s.ctx, s.tag, lazyMsg(s)) }
func c11site1019(s *site) { s.mark(); log.Record(s.ctx, log.InfoLevel, s.tag, 1, log.Msg(s.id)) }
func c11site1020(s *site) { s.mark(); log.Info(s.ctx, s.tag, log.Msg(s.id)) }
func c11site1021(s *site) { s.mark(); log.Warnf(s.ctx, s.tag, "%s", s.id) }
func c11site1022(s *site) { s.mark(); log.Error(s.ctx, s.tag, log.Msg(s.id)) }
func c11site1023(s *site) { s.mark(); log.Debug(s.ctx, s.tag, lazyMsg(s)) }
func c11site1024(s *site) { s.mark(); log.Record(s.ctx, log.InfoLevel, s.tag, 1, log.Msg(s.id)) }
func c11site1025(s *site) { s.mark(); log.Info(s.ctx, s.tag, log.Msg(s.id)) }
func c11site1026(s *site) { s.mark(); log.Warnf(s.ctx, s.tag, "%s", s.id) }
func c11site1027(s *site) { s.mark(); log.Error(s.ctx, s.tag, log.Msg(s.id)) }
func c11site1028(s *site) { s.mark(); log.Debug(s.ctx, s.tag, lazyMsg(s)) }
func c11site1029(s *site) { s.mark(); log.Record(s.ctx, log.InfoLevel, s.tag, 1, log.Msg(s.id)) }
func c11site1030(s *site) { s.mark(); log.Info(s.ctx, s.tag, log.Msg(s.id)) }
func c11site1031(s *site) { s.mark(); log.Warnf(s.ctx, s.tag, "%s", s.id) }
func c11site1032(s *site) { s.mark(); log.Error(s.ctx, s.tag, log.Msg(s.id)) }
func c11site1033(s *site) { s.mark(); log.Debug(s.ctx, s.tag, lazyMsg(s)) }
func c11site1034(s *site) { s.mark(); log.Record(s.ctx, log.InfoLevel, s.tag, 1, log.Msg(s.id)) }
func c11site1035(s *site) { s.mark(); log.Info(s.ctx, s.tag, log.Msg(s.id)) }
func c11site1036(s *site) { s.mark(); log.Warnf(s.ctx, s.tag, "%s", s.id) }
func c11site1037(s *site) { s.mark(); log.Error(s.ctx, s.tag, log.Msg(s.id)) }
func c11site1038(s *site) { s.mark(); log.Debug(s.ctx, s.tag, lazyMsg(s)) }
func c11site1039(s *site) { s.mark(); log.Record(s.ctx, log.InfoLevel, s.tag, 1, log.Msg(s.id)) }
func c11site1040(s *site) { s.mark(); log.Info(s.ctx, s.tag, log.Msg(s.id)) }
func c11site1041(s *site) { s.mark(); log.Warnf(s.ctx, s.tag, "%s", s.id) }
func c11site1042(s *site) { s.mark(); log.Error(s.ctx, s.tag, log.Msg(s.id)) }
func c11site1043(s *site) { s.mark(); log.Debug(s.ctx, s.tag, lazyMsg(s)) }
func c11site1044(s *site) { s.mark(); log.Record(s.ctx, log.InfoLevel, s.tag, 1, log.Msg(s.id)) }
func c11site1045(s *site) { s.mark(); log.Info(s.ctx, s.tag, log.Msg(s.id)) }
func c11site1046(s *site) { s.mark(); log.Warnf(s.ctx, s.tag, "%s", s.id) }
func c11site1047(s *site) { s.mark(); log.Error(s.ctx, s.tag, log.Msg(s.id)) }
func c11site1048(s *site) { s.mark(); log.Debug(s.ctx, s.tag, lazyMsg(s)) }
func c11site1049(s *site) { s.mark(); log.Record(s.ctx, log.InfoLevel, s.tag, 1, log.Msg(s.id)) }
func c11site1050(s *site) { s.mark(); log.Info(s.ctx, s.tag, log.Msg(s.id)) }
func c11site1051(s *site) { s.mark(); log.Warnf(s.ctx, s.tag, "%s", s.id) }
func c11site1052(s *site) { s.mark(); log.Error(s.ctx, s.tag, log.Msg(s.id)) }
func c11site1053(s *site) { s.mark(); log.Debug(s.ctx, s.tag, lazyMsg(s)) }
func c11site1054(s *site) { s.mark(); log.Record(s.ctx, log.InfoLevel, s.tag, 1, log.Msg(s.id)) }
func c11site1055(s *site) { s.mark(); log.Info(s.ctx, s.tag, log.Msg(s.id)) }
func c11site1056(s *site) { s.mark(); log.Warnf(s.ctx, s.tag, "%s", s.id) }
func c11site1057(s *site) { s.mark(); log.Error(s.ctx, s.tag, log.Msg(s.id)) }
func c11site1058(s *site) { s.mark(); log.Debug(s.ctx, s.tag, lazyMsg(s)) }
func c11site1059(s *site) { s.mark(); log.Record(s.ctx, log.InfoLevel, s.tag, 1, log.Msg(s.id)) }
func c11site1060(s *site) { s.mark(); log.Info(s.ctx, s.tag, log.Msg(s.id)) }
func c11site1061(s *site) { s.mark(); log.Warnf(s.ctx, s.tag, "%s", s.id) }
func c11site1062(s *site) { s.mark(); log.Error(s.ctx, s.tag, log.Msg(s.id)) }
func c11site1063(s *site) { s.mark(); log.Debug(s.ctx, s.tag, lazyMsg(s)) }
func c11site1064(s *site) { s.mark(); log.Record(s.ctx, log.InfoLevel, s.tag, 1, log.Msg(s.id)) }
func c11site1065(s *site) { s.mark(); log.Info(s.ctx, s.tag, log.Msg(s.id)) }
func c11site1066(s *site) { s.mark(); log.Warnf(s.ctx, s.tag, "%s", s.id) }
func c11site1067(s *site) { s.mark(); log.Error(s.ctx, s.tag, log.Msg(s.id)) }
func c11site1068(s *site) { s.mark(); log.Debug(s.ctx, s.tag, lazyMsg(s)) }
func c11site1069(s *site) { s.mark(); log.Record(s.ctx, log.InfoLevel, s.tag, 1, log.Msg(s.id)) }
func c11site1070(s *site) { s.mark(); log.Info(s.ctx, s.tag, log.Msg(s.id)) }
func c11site1071(s *site) { s.mark(); log.Warnf(s.ctx, s.tag, "%s", s.id) }
func c11site1072(s *site) { s.mark(); log.Error(s.ctx, s.tag, log.Msg(s.id)) }
func c11site1073(s *site) { s.mark(); log.Debug(s.ctx, s.tag, lazyMsg(s)) }
func c11site1074(s *site) { s.mark(); log.Record(s.ctx, log.InfoLevel, s.tag, 1, log.Msg(s.id)) }
func c11site1075(s *site) { s.mark(); log.Info(s.ctx, s.tag, log.Msg(s.id)) }
func c11site1076(s *site) { s.mark(); log.Warnf(s.ctx, s.tag, "%s", s.id) }
func c11site1077(s *site) { s.mark(); log.Error(s.ctx, s.tag, log.Msg(s.id)) }
func c11site1078(s *site) { s.mark(); log.Debug(s.ctx, s.tag, lazyMsg(s)) }
func c11site1079(s *site) { s.mark(); log.Record(s.ctx, log.InfoLevel, s.tag, 1, log.Msg(s.id)) }
func c11site1080(s *site) { s.mark(); log.Info(s.ctx, s.tag, log.Msg(s.id)) }
func c11site1081(s *site) { s.mark(); log.Warnf(s.ctx, s.tag, "%s", s.id) }
func c11site1082(s *site) { s.mark(); log.Error(s.ctx, s.tag, log.Msg(s.id)) }
func c11site1083(s *site) { s.mark(); log.Debug(s.ctx, s.tag, lazyMsg(s)) }
func c11site1084(s *site) { s.mark(); log.Record(s.ctx, log.InfoLevel, s.tag, 1, log.Msg(s.id)) }
func c11site1085(s *site) { s.mark(); log.Info(s.ctx, s.tag, log.Msg(s.id)) }
func c11site1086(s *site) { s.mark(); log.Warnf(s.ctx, s.tag, "%s", s.id) }
func c11site1087(s *site) { s.mark(); log.Error(s.ctx, s.tag, log.Msg(s.id)) }
func c11site1088(s *site) { s.mark(); log.Debug(s.ctx, s.tag, lazyMsg(s)) }
func c11site1089(s *site) { s.mark(); log.Record(s.ctx, log.InfoLevel, s.tag, 1, log.Msg(s.id)) }
func c11site1090(s *site) { s.mark(); log.Info(s.ctx, s.tag, log.Msg(s.id)) }
func c11site1091(s *site) { s.mark(); log.Warnf(s.ctx, s.tag, "%s", s.id) }
func c11site1092(s *site) { s.mark(); log.Error(s.ctx, s.tag, log.Msg(s.id)) }
func c11site1093(s *site) { s.mark(); log.Debug(s.ctx, s.tag, lazyMsg(s)) }
func c11site1094(s *site) { s.mark(); log.Record(s.ctx, log.InfoLevel, s.tag, 1, log.Msg(s.id)) }
func c11site1095(s *site) { s.mark(); log.Info(s.ctx, s.tag, log.Msg(s.id)) }
func c11site1096(s *site) { s.mark(); log.Warnf(s.ctx, s.tag, "%s", s.id) }
func c11site1097(s *site) { s.mark(); log.Error(s.ctx, s.tag, log.Msg(s.id)) }
func c11site1098(s *site) { s.mark(); log.Debug(s.ctx, s.tag, lazyMsg(s)) }
func c11site1099(s *site) { s.mark(); log.Record(s.ctx, log.InfoLevel, s.tag, 1, log.Msg(s.id)) }
func c11site1100(s *site) { s.mark(); log.Info(s.ctx, s.tag, log.Msg(s.id)) }
func c11site1101(s *site) { s.mark(); log.Warnf(s.ctx, s.tag, "%s", s.id) }
func c11site1102(s *site) { s.mark(); log.Error(s.ctx, s.tag, log.Msg(s.id)) }
func c11site1103(s *site) { s.mark(); log.Debug(s.ctx, s.tag, lazyMsg(s)) }
func c11site1104(s *site) { s.mark(); log.Record(s.ctx, log.InfoLevel, s.tag, 1, log.Msg(s.id)) }
func c11site1105(s *site) { s.mark(); log.Info(s.ctx, s.tag, log.Msg(s.id)) }
func c11site1106(s *site) { s.mark(); log.Warnf(s.ctx, s.tag, "%s", s.id) }
func c11site1107(s *site) { s.mark(); log.Error(s.ctx, s.tag, log.Msg(s.id)) }
func c11site1108(s *site) { s.mark(); log.Debug(s.ctx, s.tag, lazyMsg(s)) }
func c11site1109(s *site) { s.mark(); log.Record(s.ctx, log.InfoLevel, s.tag, 1, log.Msg(s.id)) }
func c11site1110(s *site) { s.mark(); log.Info(s.ctx, s.tag, log.Msg(s.id)) }
func c11site1111(s *site) { s.mark(); log.Warnf(s.ctx, s.tag, "%s", s.id) }
func c11site1112(s *site) { s.mark(); log.Error(s.ctx, s.tag, log.Msg(s.id)) }
func c11site1113(s *site) { s.mark(); log.Debug(s.ctx, s.tag, lazyMsg(s)) }
func c11site1114(s *site) { s.mark(); log.Record(s.ctx, log.InfoLevel, s.tag, 1, log.Msg(s.id)) }
func c11site1115(s *site) { s.mark(); log.Info(s.ctx, s.tag, log.Msg(s.id)) }
func c11site1116(s *site) { s.mark(); log.Warnf(s.ctx, s.tag, "%s", s.id) }
func c11site1117(s *site) { s.mark(); log.Error(s.ctx, s.tag, log.Msg(s.id)) }
func c11site1118(s *site) { s.mark(); log.Debug(s.ctx, s.tag, lazyMsg(s)) }
func c11site1119(s *site) { s.mark(); log.Record(s.ctx, log.InfoLevel, s.tag, 1, log.Msg(s.id)) }
func c11site1120(s *site) { s.mark(); log.Info(s.ctx, s.tag, log.Msg(s.id)) }
func c11site1121(s *site) { s.mark(); log.Warnf(s.ctx, s.tag, "%s", s.id) }
func c11site1122(s *site) { s.mark(); log.Error(s.ctx, s.tag, log.Msg(s.id)) }
func c11site1123(s *site) { s.mark(); log.Debug(s.ctx, s.tag, lazyMsg(s)) }
func c11site1124(s *site) { s.mark(); log.Record(s.ctx, log.InfoLevel, s.tag, 1, log.Msg(s.id)) }
func c11site1125(s *site) { s.mark(); log.Info(s.ctx, s.tag, log.Msg(s.id)) }
func c11site1126(s *site) { s.mark(); log.Warnf(s.ctx, s.tag, "%s", s.id) }
func c11site1127(s *site) { s.mark(); log.Error(s.ctx, s.tag, log.Msg(s.id)) }
func c11site1128(s *site) { s.mark(); log.Debug(s.ctx, s.tag, lazyMsg(s)) }
func c11site1129(s *site) { s.mark(); log.Record(s.ctx, log.InfoLevel, s.tag, 1, log.Msg(s.id)) }
func c11site1130(s *site) { s.mark(); log.Info(s.ctx, s.tag, log.Msg(s.id)) }
func c11site1131(s *site) { s.mark(); log.Warnf(s.ctx, s.tag, "%s", s.id) }
func c11site1132(s *site) { s.mark(); log.Error(s.ctx, s.tag, log.Msg(s.id)) }
func c11site1133(s *site) { s.mark(); log.Debug(s.ctx, s.tag, lazyMsg(s)) }
func c11site1134(s *site) { s.mark(); log.Record(s.ctx, log.InfoLevel, s.tag, 1, log.Msg(s.id)) }
func c11site1135(s *site) { s.mark(); log.Info(s.ctx, s.tag, log.Msg(s.id)) }
func c11site1136(s *site) { s.mark(); log.Warnf(s.ctx, s.tag, "%s", s.id) }
func c11site1137(s *site) { s.mark(); log.Error(s.ctx, s.tag, log.Msg(s.id)) }
func c11site1138(s *site) { s.mark(); log.Debug(s.ctx, s.tag, lazyMsg(s)) }
func c11site1139(s *site) { s.mark(); log.Record(s.ctx, log.InfoLevel, s.tag, 1, log.Msg(s.id)) }
func c11site1140(s *site) { s.mark(); log.Info(s.ctx, s.tag, log.Msg(s.id)) }
func c11site1141(s *site) { s.mark(); log.Warnf(s.ctx, s.tag, "%s", s.id) }
func c11site1142(s *site) { s.mark(); log.Error(s.ctx, s.tag, log.Msg(s.id)) }
func c11site1143(s *site) { s.mark(); log.Debug(s.ctx, s.tag, lazyMsg(s)) }
func c11site1144(s *site) { s.mark(); log.Record(s.ctx, log.InfoLevel, s.tag, 1, log.Msg(s.id)) }
func c11site1145(s *site) { s.mark(); log.Info(s.ctx, s.tag, log.Msg(s.id)) }
func c11site1146(s *site) { s.mark(); log.Warnf(s.ctx, s.tag, "%s", s.id) }
func c11site1147(s *site) { s.mark(); log.Error(s.ctx, s.tag, log.Msg(s.id)) }
func c11site1148(s *site) { s.mark(); log.Debug(s.ctx, s.tag, lazyMsg(s)) }
func c11site1149(s *site) { s.mark(); log.Record(s.ctx, log.InfoLevel, s.tag, 1, log.Msg(s.id)) }
func c11site1150(s *site) { s.mark(); log.Info(s.ctx, s.tag, log.Msg(s.id)) }
func c11site1151(s *site) { s.mark(); log.Warnf(s.ctx, s.tag, "%s", s.id) }
func c11site1152(s *site) { s.mark(); log.Error(s.ctx, s.tag, log.Msg(s.id)) }
func c11site1153(s *site) { s.mark(); log.Debug(s.ctx, s.tag, lazyMsg(s)) }
func c11site1154(s *site) { s.mark(); log.Record(s.ctx, log.InfoLevel, s.tag, 1, log.Msg(s.id)) }
func c11site1155(s *site) { s.mark(); log.Info(s.ctx, s.tag, log.Msg(s.id)) }
func c11site1156(s *site) { s.mark(); log.Warnf(s.ctx, s.tag, "%s", s.id) }
func c11site1157(s *site) { s.mark(); log.Error(s.ctx, s.tag, log.Msg(s.id)) }
func c11site1158(s *site) { s.mark(); log.Debug(s.ctx, s.tag, lazyMsg(s)) }
func c11site1159(s *site) { s.mark(); log.Record(s.ctx, log.InfoLevel, s.tag, 1, log.Msg(s.id)) }
func c11site1160(s *site) { s.mark(); log.Info(s.ctx, s.tag, log.Msg(s.id)) }
func c11site1161(s *site) { s.mark(); log.Warnf(s.ctx, s.tag, "%s", s.id) }
func c11site1162(s *site) { s.mark(); log.Error(s.ctx, s.tag, log.Msg(s.id)) }
func c11site1163(s *site) { s.mark(); log.Debug(s.ctx, s.tag, lazyMsg(s)) }
func c11site1164(s *site) { s.mark(); log.Record(s.ctx, log.InfoLevel, s.tag, 1, log.Msg(s.id)) }
func c11site1165(s *site) { s.mark(); log.Info(s.ctx, s.tag, log.Msg(s.id)) }
func c11site1166(s *site) { s.mark(); log.Warnf(s.ctx, s.tag, "%s", s.id) }
func c11site1167(s *site) { s.mark(); log.Error(s.ctx, s.tag, log.Msg(s.id)) }
func c11site1168(s *site) { s.mark(); log.Debug(s.ctx, s.tag, lazyMsg(s)) }
func c11site1169(s *site) { s.mark(); log.Record(s.ctx, log.InfoLevel, s.tag, 1, log.Msg(s.id)) }
func c11site1170(s *site) { s.mark(); log.Info(s.ctx, s.tag, log.Msg(s.id)) }
func c11site1171(s *site) { s.mark(); log.Warnf(s.ctx, s.tag, "%s", s.id) }
func c11site1172(s *site) { s.mark(); log.Error(s.ctx, s.tag, log.Msg(s.id)) }
func c11site1173(s *site) { s.mark(); log.Debug(s.ctx, s.tag, lazyMsg(s)) }
func c11site1174(s *site) { s.mark(); log.Record(s.ctx, log.InfoLevel, s.tag, 1, log.Msg(s.id)) }
func c11site1175(s *site) { s.mark(); log.Info(s.ctx, s.tag, log.Msg(s.id)) }
func c11site1176(s *site) { s.mark(); log.Warnf(s.ctx, s.tag, "%s", s.id) }
func c11site1177(s *site) { s.mark(); log.Error(s.ctx, s.tag, log.Msg(s.id)) }
func c11site1178(s *site) { s.mark(); log.Debug(s.ctx, s.tag, lazyMsg(s)) }
func c11site1179(s *site) { s.mark(); log.Record(s.ctx, log.InfoLevel, s.tag, 1, log.Msg(s.id)) }
func c11site1180(s *site) { s.mark(); log.Info(s.ctx, s.tag, log.Msg(s.id)) }
func c11site1181(s *site) { s.mark(); log.Warnf(s.ctx, s.tag, "%s", s.id) }
func c11site1182(s *site) { s.mark(); log.Error(s.ctx, s.tag, log.Msg(s.id)) }
func c11site1183(s *site) { s.mark(); log.Debug(s.ctx, s.tag, lazyMsg(s)) }
func c11site1184(s *site) { s.mark(); log.Record(s.ctx, log.InfoLevel, s.tag, 1, log.Msg(s.id)) }
func c11site1185(s *site) { s.mark(); log.Info(s.ctx, s.tag, log.Msg(s.id)) }
func c11site1186(s *site) { s.mark(); log.Warnf(s.ctx, s.tag, "%s", s.id) }
func c11site1187(s *site) { s.mark(); log.Error(s.ctx, s.tag, log.Msg(s.id)) }
func c11site1188(s *site) { s.mark(); log.Debug(s.ctx, s.tag, lazyMsg(s)) }
func c11site1189(s *site) { s.mark(); log.Record(s.ctx, log.InfoLevel, s.tag, 1, log.Msg(s.id)) }
func c11site1190(s *site) { s.mark(); log.Info(s.ctx, s.tag, log.Msg(s.id)) }
func c11site1191(s *site) { s.mark(); log.Warnf(s.ctx, s.tag, "%s", s.id) }
func c11site1192(s *site) { s.mark(); log.Error(s.ctx, s.tag, log.Msg(s.id)) }
func c11site1193(s *site) { s.mark(); log.Debug(s.ctx, s.tag, lazyMsg(s)) }
func c11site1194(s *site) { s.mark(); log.Record(s.ctx, log.InfoLevel, s.tag, 1, log.Msg(s.id)) }
func c11site1195(s *site) { s.mark(); log.Info(s.ctx, s.tag, log.Msg(s.id)) }
func c11site1196(s *site) { s.mark(); log.Warnf(s.ctx, s.tag, "%s", s.id) }
func c11site1197(s *site) { s.mark(); log.Error(s.ctx, s.tag, log.Msg(s.id)) }
func c11site1198(s *site) { s.mark(); log.Debug(s.ctx, s.tag, lazyMsg(s)) }
func c11site1199(s *site) { s.mark(); log.Record(s.ctx, log.InfoLevel, s.tag, 1, log.Msg(s.id)) }
func c11site1200(s *site) { s.mark(); log.Info(s.ctx, s.tag, log.Msg(s.id)) }
func c11site1201(s *site) { s.mark(); log.Warnf(s.ctx, s.tag, "%s", s.id) }
func c11site1202(s *site) { s.mark(); log.Error(s.ctx, s.tag, log.Msg(s.id)) }
func c11site1203(s *site) { s.mark(); log.Debug(s.ctx, s.tag, lazyMsg(s)) }
func c11site1204(s *site) { s.mark(); log.Record(s.ctx, log.InfoLevel, s.tag, 1, log.Msg(s.id)) }
func c11site1205(s *site) { s.mark(); log.Info(s.ctx, s.tag, log.Msg(s.id)) }
func c11site1206(s *site) { s.mark(); log.Warnf(s.ctx, s.tag, "%s", s.id) }
func c11site1207(s *site) { s.mark(); log.Error(s.ctx, s.tag, log.Msg(s.id)) }
func c11site1208(s *site) { s.mark(); log.Debug(s.ctx, s.tag, lazyMsg(s)) }
func c11site1209(s *site) { s.mark(); log.Record(s.ctx, log.InfoLevel, s.tag, 1, log.Msg(s.id)) }
func c11site1210(s *site) { s.mark(); log.Info(s.ctx, s.tag, log.Msg(s.id)) }
func c11site1211(s *site) { s.mark(); log.Warnf(s.ctx, s.tag, "%s", s.id) }
func c11site1212(s *site) { s.mark(); log.Error(s.ctx, s.tag, log.Msg(s.id)) }
func c11site1213(s *site) { s.mark(); log.Debug(s.ctx, s.tag, lazyMsg(s)) }
func c11site1214(s *site) { s.mark(); log.Record(s.ctx, log.InfoLevel, s.tag, 1, log.Msg(s.id)) }
func c11site1215(s *site) { s.mark(); log.Info(s.ctx, s.tag, log.Msg(s.id)) }
func c11site1216(s *site) { s.mark(); log.Warnf(s.ctx, s.tag, "%s", s.id) }
func c11site1217(s *site) { s.mark(); log.Error(s.ctx, s.tag, log.Msg(s.id)) }
func c11site1218(s *site) { s.mark(); log.Debug(s.ctx, s.tag, lazyMsg(s)) }
func c11site1219(s *site) { s.mark(); log.Record(s.ctx, log.InfoLevel, s.tag, 1, log.Msg(s.id)) }
func c11site1220(s *site) { s.mark(); log.Info(s.ctx, s.tag, log.Msg(s.id)) }
func c11site1221(s *site) { s.mark(); log.Warnf(s.ctx, s.tag, "%s", s.id) }
func c11site1222(s *site) { s.mark(); log.Error(s.ctx, s.tag, log.Msg(s.id)) }
func c11site1223(s *site) { s.mark(); log.Debug(s.ctx, s.tag, lazyMsg(s)) }
func c11site1224(s *site) { s.mark(); log.Record(s.ctx, log.InfoLevel, s.tag, 1, log.Msg(s.id)) }
func c11site1225(s *site) { s.mark(); log.Info(s.ctx, s.tag, log.Msg(s.id)) }
func c11site1226(s *site) { s.mark(); log.Warnf(s.ctx, s.tag, "%s", s.id) }
func c11site1227(s *site) { s.mark(); log.Error(s.ctx, s.tag, log.Msg(s.id)) }
func c11site1228(s *site) { s.mark(); log.Debug(s.ctx, s.tag, lazyMsg(s)) }
func c11site1229(s *site) { s.mark(); log.Record(s.ctx, log.InfoLevel, s.tag, 1, log.Msg(s.id)) }
func c11site1230(s *site) { s.mark(); log.Info(s.ctx, s.tag, log.Msg(s.id)) }
func c11site1231(s *site) { s.mark(); log.Warnf(s.ctx, s.tag, "%s", s.id) }
func c11site1232(s *site) { s.mark(); log.Error(s.ctx, s.tag, log.Msg(s.id)) }
func c11site1233(s *site) { s.mark(); log.Debug(s.ctx, s.tag, lazyMsg(s)) }
func c11site1234(s *site) { s.mark(); log.Record(s.ctx, log.InfoLevel, s.tag, 1, log.Msg(s.id)) }
func c11site1235(s *site) { s.mark(); log.Info(s.ctx, s.tag, log.Msg(s.id)) }
func c11site1236(s *site) { s.mark(); log.Warnf(s.ctx, s.tag, "%s", s.id) }
func c11site1237(s *site) { s.mark(); log.Error(s.ctx, s.tag, log.Msg(s.id)) }
func c11site1238(s *site) { s.mark(); log.Debug(s.ctx, s.tag, lazyMsg(s)) }
func c11site1239(s *site) { s.mark(); log.Record(s.ctx, log.InfoLevel, s.tag, 1, log.Msg(s.id)) }
func c11site1240(s *site) { s.mark(); log.Info(s.ctx, s.tag, log.Msg(s.id)) }
func c11site1241(s *site) { s.mark(); log.Warnf(s.ctx, s.tag, "%s", s.id) }
func c11site1242(s *site) { s.mark(); log.Error(s.ctx, s.tag, log.Msg(s.id)) }
func c11site1243(s *site) { s.mark(); log.Debug(s.ctx, s.tag, lazyMsg(s)) }
func c11site1244(s *site) { s.mark(); log.Record(s.ctx, log.InfoLevel, s.tag, 1, log.Msg(s.id)) }
func c11site1245(s *site) { s.mark(); log.Info(s.ctx, s.tag, log.Msg(s.id)) }
func c11site1246(s *site) { s.mark(); log.Warnf(s.ctx, s.tag, "%s", s.id) }
func c11site1247(s *site) { s.mark(); log.Error(s.ctx, s.tag, log.Msg(s.id)) }
func c11site1248(s *site) { s.mark(); log.Debug(s.ctx, s.tag, lazyMsg(s)) }
func c11site1249(s *site) { s.mark(); log.Record(s.ctx, log.InfoLevel, s.tag, 1, log.Msg(s.id)) }
func c11site1250(s *site) { s.mark(); log.Info(s.ctx, s.tag, log.Msg(s.id)) }
func c11site1251(s *site) { s.mark(); log.Warnf(s.ctx, s.tag, "%s", s.id) }
func c11site1252(s *site) { s.mark(); log.Error(s.ctx, s.tag, log.Msg(s.id)) }
func c11site1253(s *site) { s.mark(); log.Debug(s.ctx, s.tag, lazyMsg(s)) }
func c11site1254(s *site) { s.mark(); log.Record(s.ctx, log.InfoLevel, s.tag, 1, log.Msg(s.id)) }
func c11site1255(s *site) { s.mark(); log.Info(s.ctx, s.tag, log.Msg(s.id)) }
func c11site1256(s *site) { s.mark(); log.Warnf(s.ctx, s.tag, "%s", s.id) }
func c11site1257(s *site) { s.mark(); log.Error(s.ctx, s.tag, log.Msg(s.id)) }
func c11site1258(s *site) { s.mark(); log.Debug(s.ctx, s.tag, lazyMsg(s)) }
func c11site1259(s *site) { s.mark(); log.Record(s.ctx, log.InfoLevel, s.tag, 1, log.Msg(s.id)) }
func c11site1260(s *site) { s.mark(); log.Info(s.ctx, s.tag, log.Msg(s.id)) }
func c11site1261(s *site) { s.mark(); log.Warnf(s.ctx, s.tag, "%s", s.id) }
func c11site1262(s *site) { s.mark(); log.Error(s.ctx, s.tag, log.Msg(s.id)) }
func c11site1263(s *site) { s.mark(); log.Debug(s.ctx, s.tag, lazyMsg(s)) }
func c11site1264(s *site) { s.mark(); log.Record(s.ctx, log.InfoLevel, s.tag, 1, log.Msg(s.id)) }
func c11site1265(s *site) { s.mark(); log.Info(s.ctx, s.tag, log.Msg(s.id)) }
func c11site1266(s *site) { s.mark(); log.Warnf(s.ctx, s.tag, "%s", s.id) }
func c11site1267(s *site) { s.mark(); log.Error(s.ctx, s.tag, log.Msg(s.id)) }
func c11site1268(s *site) { s.mark(); log.Debug(s.ctx, s.tag, lazyMsg(s)) }
func c11site1269(s *site) { s.mark(); log.Record(s.ctx, log.InfoLevel, s.tag, 1, log.Msg(s.id)) }
func c11site1270(s *site) { s.mark(); log.Info(s.ctx, s.tag, log.Msg(s.id)) }
func c11site1271(s *site) { s.mark(); log.Warnf(s.ctx, s.tag, "%s", s.id) }
func c11site1272(s *site) { s.mark(); log.Error(s.ctx, s.tag, log.Msg(s.id)) }
func c11site1273(s *site) { s.mark(); log.Debug(s.ctx, s.tag, lazyMsg(s)) }
func c11site1274(s *site) { s.mark(); log.Record(s.ctx, log.InfoLevel, s.tag, 1, log.Msg(s.id)) }
func c11site1275(s *site) { s.mark(); log.Info(s.ctx, s.tag, log.Msg(s.id)) }
func c11site1276(s *site) { s.mark(); log.Warnf(s.ctx, s.tag, "%s", s.id) }
func c11site1277(s *site) { s.mark(); log.Error(s.ctx, s.tag, log.Msg(s.id)) }
func c11site1278(s *site) { s.mark(); log.Debug(s.ctx, s.tag, lazyMsg(s)) }
func c11site1279(s *site) { s.mark(); log.Record(s.ctx, log.InfoLevel, s.tag, 1, log.Msg(s.id)) }
func c11site1280(s *site) { s.mark(); log.Info(s.ctx, s.tag, log.Msg(s.id)) }
func c11site1281(s *site) { s.mark(); log.Warnf(s.ctx, s.tag, "%s", s.id) }
func c11site1282(s *site) { s.mark(); log.Error(s.ctx, s.tag, log.Msg(s.id)) }
func c11site1283(s *site) { s.mark(); log.Debug(s.ctx, s.tag, lazyMsg(s)) }
func c11site1284(s *site) { s.mark(); log.Record(s.ctx, log.InfoLevel, s.tag, 1, log.Msg(s.id)) }
func c11site1285(s *site) { s.mark(); log.Info(s.ctx, s.tag, log.Msg(s.id)) }
func c11site1286(s *site) { s.mark(); log.Warnf(s.ctx, s.tag, "%s", s.id) }
func c11site1287(s *site) { s.mark(); log.Error(s.ctx, s.tag, log.Msg(s.id)) }
func c11site1288(s *site) { s.mark(); log.Debug(s.ctx, s.tag, lazyMsg(s)) }
func c11site1289(s *site) { s.mark(); log.Record(s.ctx, log.InfoLevel, s.tag, 1, log.Msg(s.id)) }
func c11site1290(s *site) { s.mark(); log.Info(s.ctx, s.tag, log.Msg(s.id)) }
func c11site1291(s *site) { s.mark(); log.Warnf(s.ctx, s.tag, "%s", s.id) }
func c11site1292(s *site) { s.mark(); log.Error(s.ctx, s.tag, log.Msg(s.id)) }
func c11site1293(s *site) { s.mark(); log.Debug(s.ctx, s.tag, lazyMsg(s)) }
func c11site1294(s *site) { s.mark(); log.Record(s.ctx, log.InfoLevel, s.tag, 1, log.Msg(s.id)) }
func c11site1295(s *site) { s.mark(); log.Info(s.ctx, s.tag, log.Msg(s.id)) }
func c11site1296(s *site) { s.mark(); log.Warnf(s.ctx, s.tag, "%s", s.id) }
func c11site1297(s *site) { s.mark(); log.Error(s.ctx, s.tag, log.Msg(s.id)) }
func c11site1298(s *site) { s.mark(); log.Debug(s.ctx, s.tag, lazyMsg(s)) }
func c11site1299(s *site) { s.mark(); log.Record(s.ctx, log.InfoLevel, s.tag, 1, log.Msg(s.id)) }
func c11site1300(s *site) { s.mark(); log.Info(s.ctx, s.tag, log.Msg(s.id)) }
func c11site1301(s *site) { s.mark(); log.Warnf(s.ctx, s.tag, "%s", s.id) }
func c11site1302(s *site) { s.mark(); log.Error(s.ctx, s.tag, log.Msg(s.id)) }
func c11site1303(s *site) { s.mark(); log.Debug(s.ctx, s.tag, lazyMsg(s)) }
func c11site1304(s *site) { s.mark(); log.Record(s.ctx, log.InfoLevel, s.tag, 1, log.Msg(s.id)) }
func c11site1305(s *site) { s.mark(); log.Info(s.ctx, s.tag, log.Msg(s.id)) }
func c11site1306(s *site) { s.mark(); log.Warnf(s.ctx, s.tag, "%s", s.id) }
func c11site1307(s *site) { s.mark(); log.Error(s.ctx, s.tag, log.Msg(s.id)) }
func c11site1308(s *site) { s.mark(); log.Debug(s.ctx, s.tag, lazyMsg(s)) }
func c11site1309(s *site) { s.mark(); log.Record(s.ctx, log.InfoLevel, s.tag, 1, log.Msg(s.id)) }
func c11site1310(s *site) { s.mark(); log.Info(s.ctx, s.tag, log.Msg(s.id)) }
func c11site1311(s *site) { s.mark(); log.Warnf(s.ctx, s.tag, "%s", s.id) }
func c11site1312(s *site) { s.mark(); log.Error(s.ctx, s.tag, log.Msg(s.id)) }
func c11site1313(s *site) { s.mark(); log.Debug(s.ctx, s.tag, lazyMsg(s)) }
func c11site1314(s *site) { s.mark(); log.Record(s.ctx, log.InfoLevel, s.tag, 1, log.Msg(s.id)) }
func c11site1315(s *site) { s.mark(); log.Info(s.ctx, s.tag, log.Msg(s.id)) }
func c11site1316(s *site) { s.mark(); log.Warnf(s.ctx, s.tag, "%s", s.id) }
func c11site1317(s *site) { s.mark(); log.Error(s.ctx, s.tag, log.Msg(s.id)) }
func c11site1318(s *site) { s.mark(); log.Debug(s.ctx, s.tag, lazyMsg(s)) }
func c11site1319(s *site) { s.mark(); log.Record(s.ctx, log.InfoLevel, s.tag, 1, log.Msg(s.id)) }
func c11site1320(s *site) { s.mark(); log.Info(s.ctx, s.tag, log.Msg(s.id)) }
func c11site1321(s *site) { s.mark(); log.Warnf(s.ctx, s.tag, "%s", s.id) }
func c11site1322(s *site) { s.mark(); log.Error(s.ctx, s.tag, log.Msg(s.id)) }
func c11site1323(s *site) { s.mark(); log.Debug(s.ctx, s.tag, lazyMsg(s)) }
func c11site1324(s *site) { s.mark(); log.Record(s.ctx, log.InfoLevel, s.tag, 1, log.Msg(s.id)) }
func c11site1325(s *site) { s.mark(); log.Info(s.ctx, s.tag, log.Msg(s.id)) }
func c11site1326(s *site) { s.mark(); log.Warnf(s.ctx, s.tag, "%s", s.id) }
func c11site1327(s *site) { s.mark(); log.Error(s.ctx, s.tag, log.Msg(s.id)) }
func c11site1328(s *site) { s.mark(); log.Debug(s.ctx, s.tag, lazyMsg(s)) }
func c11site1329(s *site) { s.mark(); log.Record(s.ctx, log.InfoLevel, s.tag, 1, log.Msg(s.id)) }
func c11site1330(s *site) { s.mark(); log.Info(s.ctx, s.tag, log.Msg(s.id)) }
func c11site1331(s *site) { s.mark(); log.Warnf(s.ctx, s.tag, "%s", s.id) }
func c11site1332(s *site) { s.mark(); log.Error(s.ctx, s.tag, log.Msg(s.id)) }
func c11site1333(s *site) { s.mark(); log.Debug(s.ctx, s.tag, lazyMsg(s)) }
func c11site1334(s *site) { s.mark(); log.Record(s.ctx, log.InfoLevel, s.tag, 1, log.Msg(s.id)) }
func c11site1335(s *site) { s.mark(); log.Info(s.ctx, s.tag, log.Msg(s.id)) }
func c11site1336(s *site) { s.mark(); log.Warnf(s.ctx, s.tag, "%s", s.id) }
func c11site1337(s *site) { s.mark(); log.Error(s.ctx, s.tag, log.Msg(s.id)) }
func c11site1338(s *site) { s.mark(); log.Debug(s.ctx, s.tag, lazyMsg(s)) }
func c11site1339(s *site) { s.mark(); log.Record(s.ctx, log.InfoLevel, s.tag, 1, log.Msg(s.id)) }
func c11site1340(s *site) { s.mark(); log.Info(s.ctx, s.tag, log.Msg(s.id)) }
func c11site1341(s *site) { s.mark(); log.Warnf(s.ctx, s.tag, "%s", s.id) }
func c11site1342(s *site) { s.mark(); log.Error(s.ctx, s.tag, log.Msg(s.id)) }
func c11site1343(s *site) { s.mark(); log.Debug(s.ctx, s.tag, lazyMsg(s)) }
func c11site1344(s *site) { s.mark(); log.Record(s.ctx, log.InfoLevel, s.tag, 1, log.Msg(s.id)) }
func c11site1345(s *site) { s.mark(); log.Info(s.ctx, s.tag, log.Msg(s.id)) }
func c11site1346(s *site) { s.mark(); log.Warnf(s.ctx, s.tag, "%s", s.id) }
func c11site1347(s *site) { s.mark(); log.Error(s.ctx, s.tag, log.Msg(s.id)) }
func c11site1348(s *site) { s.mark(); log.Debug(s.ctx, s.tag, lazyMsg(s)) }
func c11site1349(s *site) { s.mark(); log.Record(s.ctx, log.InfoLevel, s.tag, 1, log.Msg(s.id)) }
func c11site1350(s *site) { s.mark(); log.Info(s.ctx, s.tag, log.Msg(s.id)) }
func c11site1351(s *site) { s.mark(); log.Warnf(s.ctx, s.tag, "%s", s.id) }
func c11site1352(s *site) { s.mark(); log.Error(s.ctx, s.tag, log.Msg(s.id)) }
func c11site1353(s *site) { s.mark(); log.Debug(s.ctx, s.tag, lazyMsg(s)) }
func c11site1354(s *site) { s.mark(); log.Record(s.ctx, log.InfoLevel, s.tag, 1, log.Msg(s.id)) }
func c11site1355(s *site) { s.mark(); log.Info(s.ctx, s.tag, log.Msg(s.id)) }
func c11site1356(s *site) { s.mark(); log.Warnf(s.ctx, s.tag, "%s", s.id) }
func c11site1357(s *site) { s.mark(); log.Error(s.ctx, s.tag, log.Msg(s.id)) }
func c11site1358(s *site) { s.mark(); log.Debug(s.ctx, s.tag, lazyMsg(s)) }
func c11site1359(s *site) { s.mark(); log.Record(s.ctx, log.InfoLevel, s.tag, 1, log.Msg(s.id)) }
func c11site1360(s *site) { s.mark(); log.Info(s.ctx, s.tag, log.Msg(s.id)) }
func c11site1361(s *site) { s.mark(); log.Warnf(s.ctx, s.tag, "%s", s.id) }
func c11site1362(s *site) { s.mark(); log.Error(s.ctx, s.tag, log.Msg(s.id)) }
func c11site1363(s *site) { s.mark(); log.Debug(s.ctx, s.tag, lazyMsg(s)) }
func c11site1364(s *site) { s.mark(); log.Record(s.ctx, log.InfoLevel, s.tag, 1, log.Msg(s.id)) }
func c11site1365(s *site) { s.mark(); log.Info(s.ctx, s.tag, log.Msg(s.id)) }
func c11site1366(s *site) { s.mark(); log.Warnf(s.ctx, s.tag, "%s", s.id) }
func c11site1367(s *site) { s.mark(); log.Error(s.ctx, s.tag, log.Msg(s.id)) }
func c11site1368(s *site) { s.mark(); log.Debug(s.ctx, s.tag, lazyMsg(s)) }
func c11site1369(s *site) { s.mark(); log.Record(s.ctx, log.InfoLevel, s.tag, 1, log.Msg(s.id)) }
func c11site1370(s *site) { s.mark(); log.Info(s.ctx, s.tag, log.Msg(s.id)) }
func c11site1371(s *site) { s.mark(); log.Warnf(s.ctx, s.tag, "%s", s.id) }
func c11site1372(s *site) { s.mark(); log.Error(s.ctx, s.tag, log.Msg(s.id)) }
func c11site1373(s *site) { s.mark(); log.Debug(s.ctx, s.tag, lazyMsg(s)) }
func c11site1374(s *site) { s.mark(); log.Record(s.ctx, log.InfoLevel, s.tag, 1, log.Msg(s.id)) }
func c11site1375(s *site) { s.mark(); log.Info(s.ctx, s.tag, log.Msg(s.id)) }
func c11site1376(s *site) { s.mark(); log.Warnf(s.ctx, s.tag, "%s", s.id) }
func c11site1377(s *site) { s.mark(); log.Error(s.ctx, s.tag, log.Msg(s.id)) }
func c11site1378(s *site) { s.mark(); log.Debug(s.ctx, s.tag, lazyMsg(s)) }
func c11site1379(s *site) { s.mark(); log.Record(s.ctx, log.InfoLevel, s.tag, 1, log.Msg(s.id)) }
func c11site1380(s *site) { s.mark(); log.Info(s.ctx, s.tag, log.Msg(s.id)) }
func c11site1381(s *site) { s.mark(); log.Warnf(s.ctx, s.tag, "%s", s.id) }
func c11site1382(s *site) { s.mark(); log.Error(s.ctx, s.tag, log.Msg(s.id)) }
func c11site1383(s *site) { s.mark(); log.Debug(s.ctx, s.tag, lazyMsg(s)) }
func c11site1384(s *site) { s.mark(); log.Record(s.ctx, log.InfoLevel, s.tag, 1, log.Msg(s.id)) }
func c11site1385(s *site) { s.mark(); log.Info(s.ctx, s.tag, log.Msg(s.id)) }
func c11site1386(s *site) { s.mark(); log.Warnf(s.ctx, s.tag, "%s", s.id) }
func c11site1387(s *site) { s.mark(); log.Error(s.ctx, s.tag, log.Msg(s.id)) }
func c11site1388(s *site) { s.mark(); log.Debug(s.ctx, s.tag, lazyMsg(s)) }
func c11site1389(s *site) { s.mark(); log.Record(s.ctx, log.InfoLevel, s.tag, 1, log.Msg(s.id)) }
func c11site1390(s *site) { s.mark(); log.Info(s.ctx, s.tag, log.Msg(s.id)) }
func c11site1391(s *site) { s.mark(); log.Warnf(s.ctx, s.tag, "%s", s.id) }
func c11site1392(s *site) { s.mark(); log.Error(s.ctx, s.tag, log.Msg(s.id)) }
func c11site1393(s *site) { s.mark(); log.Debug(s.ctx, s.tag, lazyMsg(s)) }
func c11site1394(s *site) { s.mark(); log.Record(s.ctx, log.InfoLevel, s.tag, 1, log.Msg(s.id)) }
func c11site1395(s *site) { s.mark(); log.Info(s.ctx, s.tag, log.Msg(s.id)) }
func c11site1396(s *site) { s.mark(); log.Warnf(s.ctx, s.tag, "%s", s.id) }
func c11site1397(s *site) { s.mark(); log.Error(s.ctx, s.tag, log.Msg(s.id)) }
func c11site1398(s *site) { s.mark(); log.Debug(s.ctx, s.tag, lazyMsg(s)) }
func c11site1399(s *site) { s.mark(); log.Record(s.ctx, log.InfoLevel, s.tag, 1, log.Msg(s.id)) }
func c11site1400(s *site) { s.mark(); log.Info(s.ctx, s.tag, log.Msg(s.id)) }
func c11site1401(s *site) { s.mark(); log.Warnf(s.ctx, s.tag, "%s", s.id) }
func c11site1402(s *site) { s.mark(); log.Error(s.ctx, s.tag, log.Msg(s.id)) }
func c11site1403(s *site) { s.mark(); log.Debug(s.ctx, s.tag, lazyMsg(s)) }
func c11site1404(s *site) { s.mark(); log.Record(s.ctx, log.InfoLevel, s.tag, 1, log.Msg(s.id)) }
func c11site1405(s *site) { s.mark(); log.Info(s.ctx, s.tag, log.Msg(s.id)) }
func c11site1406(s *site) { s.mark(); log.Warnf(s.ctx, s.tag, "%s", s.id) }
func c11site1407(s *site) { s.mark(); log.Error(s.ctx, s.tag, log.Msg(s.id)) }
func c11site1408(s *site) { s.mark(); log.Debug(s.ctx, s.tag, lazyMsg(s)) }
func c11site1409(s *site) { s.mark(); log.Record(s.ctx, log.InfoLevel, s.tag, 1, log.Msg(s.id)) }
func c11site1410(s *site) { s.mark(); log.Info(s.ctx, s.tag, log.Msg(s.id)) }
func c11site1411(s *site) { s.mark(); log.Warnf(s.ctx, s.tag, "%s", s.id) }
func c11site1412(s *site) { s.mark(); log.Error(s.ctx, s.tag, log.Msg(s.id)) }
func c11site1413(s *site) { s.mark(); log.Debug(s.ctx, s.tag, lazyMsg(s)) }
func c11site1414(s *site) { s.mark(); log.Record(s.ctx, log.InfoLevel, s.tag, 1, log.Msg(s.id)) }
func c11site1415(s *site) { s.mark(); log.Info(s.ctx, s.tag, log.Msg(s.id)) }
func c11site1416(s *site) { s.mark(); log.Warnf(s.ctx, s.tag, "%s", s.id) }
func c11site1417(s *site) { s.mark(); log.Error(s.ctx, s.tag, log.Msg(s.id)) }
func c11site1418(s *site) { s.mark(); log.Debug(s.ctx, s.tag, lazyMsg(s)) }
func c11site1419(s *site) { s.mark(); log.Record(s.ctx, log.InfoLevel, s.tag, 1, log.Msg(s.id)) }
func c11site1420(s *site) { s.mark(); log.Info(s.ctx, s.tag, log.Msg(s.id)) }
func c11site1421(s *site) { s.mark(); log.Warnf(s.ctx, s.tag, "%s", s.id) }
func c11site1422(s *site) { s.mark(); log.Error(s.ctx, s.tag, log.Msg(s.id)) }
func c11site1423(s *site) { s.mark(); log.Debug(s.ctx, s.tag, lazyMsg(s)) }
func c11site1424(s *site) { s.mark(); log.Record(s.ctx, log.InfoLevel, s.tag, 1, log.Msg(s.id)) }
func c11site1425(s *site) { s.mark(); log.Info(s.ctx, s.tag, log.Msg(s.id)) }
func c11site1426(s *site) { s.mark(); log.Warnf(s.ctx, s.tag, "%s", s.id) }
func c11site1427(s *site) { s.mark(); log.Error(s.ctx, s.tag, log.Msg(s.id)) }
func c11site1428(s *site) { s.mark(); log.Debug(s.ctx, s.tag, lazyMsg(s)) }
func c11site1429(s *site) { s.mark(); log.Record(s.ctx, log.InfoLevel, s.tag, 1, log.Msg(s.id)) }
func c11site1430(s *site) { s.mark(); log.Info(s.ctx, s.tag, log.Msg(s.id)) }
func c11site1431(s *site) { s.mark(); log.Warnf(s.ctx, s.tag, "%s", s.id) }
func c11site1432(s *site) { s.mark(); log.Error(s.ctx, s.tag, log.Msg(s.id)) }
func c11site1433(s *site) { s.mark(); log.Debug(s.ctx, s.tag, lazyMsg(s)) }
func c11site1434(s *site) { s.mark(); log.Record(s.ctx, log.InfoLevel, s.tag, 1, log.Msg(s.id)) }
func c11site1435(s *site) { s.mark(); log.Info(s.ctx, s.tag, log.Msg(s.id)) }
func c11site1436(s *site) { s.mark(); log.Warnf(s.ctx, s.tag, "%s", s.id) }
func c11site1437(s *site) { s.mark(); log.Error(s.ctx, s.tag, log.Msg(s.id)) }
func c11site1438(s *site) { s.mark(); log.Debug(s.ctx, s.tag, lazyMsg(s)) }
func c11site1439(s *site) { s.mark(); log.Record(s.ctx, log.InfoLevel, s.tag, 1, log.Msg(s.id)) }
func c11site1440(s *site) { s.mark(); log.Info(s.ctx, s.tag, log.Msg(s.id)) }
func c11site1441(s *site) { s.mark(); log.Warnf(s.ctx, s.tag, "%s", s.id) }
func c11site1442(s *site) { s.mark(); log.Error(s.ctx, s.tag, log.Msg(s.id)) }
func c11site1443(s *site) { s.mark(); log.Debug(s.ctx, s.tag, lazyMsg(s)) }
func c11site1444(s *site) { s.mark(); log.Record(s.ctx, log.InfoLevel, s.tag, 1, log.Msg(s.id)) }
func c11site1445(s *site) { s.mark(); log.Info(s.ctx, s.tag, log.Msg(s.id)) }
func c11site1446(s *site) { s.mark(); log.Warnf(s.ctx, s.tag, "%s", s.id) }
func c11site1447(s *site) { s.mark(); log.Error(s.ctx, s.tag, log.Msg(s.id)) }
func c11site1448(s *site) { s.mark(); log.Debug(s.ctx, s.tag, lazyMsg(s)) }
func c11site1449(s *site) { s.mark(); log.Record(s.ctx, log.InfoLevel, s.tag, 1, log.Msg(s.id)) }
func c11site1450(s *site) { s.mark(); log.Info(s.ctx, s.tag, log.Msg(s.id)) }
func c11site1451(s *site) { s.mark(); log.Warnf(s.ctx, s.tag, "%s", s.id) }
func c11site1452(s *site) { s.mark(); log.Error(s.ctx, s.tag, log.Msg(s.id)) }
func c11site1453(s *site) { s.mark(); log.Debug(s.ctx, s.tag, lazyMsg(s)) }
func c11site1454(s *site) { s.mark(); log.Record(s.ctx, log.InfoLevel, s.tag, 1, log.Msg(s.id)) }
func c11site1455(s *site) { s.mark(); log.Info(s.ctx, s.tag, log.Msg(s.id)) }
func c11site1456(s *site) { s.mark(); log.Warnf(s.ctx, s.tag, "%s", s.id) }
func c11site1457(s *site) { s.mark(); log.Error(s.ctx, s.tag, log.Msg(s.id)) }
func c11site1458(s *site) { s.mark(); log.Debug(s.ctx, s.tag, lazyMsg(s)) }
func c11site1459(s *site) { s.mark(); log.Record(s.ctx, log.InfoLevel, s.tag, 1, log.Msg(s.id)) }
func c11site1460(s *site) { s.mark(); log.Info(s.ctx, s.tag, log.Msg(s.id)) }
func c11site1461(s *site) { s.mark(); log.Warnf(s.ctx, s.tag, "%s", s.id) }
func c11site1462(s *site) { s.mark(); log.Error(s.ctx, s.tag, log.Msg(s.id)) }
func c11site1463(s *site) { s.mark(); log.Debug(s.ctx, s.tag, lazyMsg(s)) }
func c11site1464(s *site) { s.mark(); log.Record(s.ctx, log.InfoLevel, s.tag, 1, log.Msg(s.id)) }
func c11site1465(s *site) { s.mark(); log.Info(s.ctx, s.tag, log.Msg(s.id)) }
func c11site1466(s *site) { s.mark(); log.Warnf(s.ctx, s.tag, "%s", s.id) }
func c11site1467(s *site) { s.mark(); log.Error(s.ctx, s.tag, log.Msg(s.id)) }
func c11site1468(s *site) { s.mark(); log.Debug(s.ctx, s.tag, lazyMsg(s)) }
func c11site1469(s *site) { s.mark(); log.Record(s.ctx, log.InfoLevel, s.tag, 1, log.Msg(s.id)) }
func c11site1470(s *site) { s.mark(); log.Info(s.ctx, s.tag, log.Msg(s.id)) }
func c11site1471(s *site) { s.mark(); log.Warnf(s.ctx, s.tag, "%s", s.id) }
func c11site1472(s *site) { s.mark(); log.Error(s.ctx, s.tag, log.Msg(s.id)) }
func c11site1473(s *site) { s.mark(); log.Debug(s.ctx, s.tag, lazyMsg(s)) }
func c11site1474(s *site) { s.mark(); log.Record(s.ctx, log.InfoLevel, s.tag, 1, log.Msg(s.id)) }
func c11site1475(s *site) { s.mark(); log.Info(s.ctx, s.tag, log.Msg(s.id)) }
func c11site1476(s *site) { s.mark(); log.Warnf(s.ctx, s.tag, "%s", s.id) }
func c11site1477(s *site) { s.mark(); log.Error(s.ctx, s.tag, log.Msg(s.id)) }
func c11site1478(s *site) { s.mark(); log.Debug(s.ctx, s.tag, lazyMsg(s)) }
func c11site1479(s *site) { s.mark(); log.Record(s.ctx, log.InfoLevel, s.tag, 1, log.Msg(s.id)) }
func c11site1480(s *site) { s.mark(); log.Info(s.ctx, s.tag, log.Msg(s.id)) }
func c11site1481(s *site) { s.mark(); log.Warnf(s.ctx, s.tag, "%s", s.id) }
func c11site1482(s *site) { s.mark(); log.Error(s.ctx, s.tag, log.Msg(s.id)) }
func c11site1483(s *site) { s.mark(); log.Debug(s.ctx, s.tag, lazyMsg(s)) }
func c11site1484(s *site) { s.mark(); log.Record(s.ctx, log.InfoLevel, s.tag, 1, log.Msg(s.id)) }
func c11site1485(s *site) { s.mark(); log.Info(s.ctx, s.tag, log.Msg(s.id)) }
func c11site1486(s *site) { s.mark(); log.Warnf(s.ctx, s.tag, "%s", s.id) }
func c11site1487(s *site) { s.mark(); log.Error(s.ctx, s.tag, log.Msg(s.id)) }
func c11site1488(s *site) { s.mark(); log.Debug(s.ctx, s.tag, lazyMsg(s)) }
func c11site1489(s *site) { s.mark(); log.Record(s.ctx, log.InfoLevel, s.tag, 1, log.Msg(s.id)) }
func c11site1490(s *site) { s.mark(); log.Info(s.ctx, s.tag, log.Msg(s.id)) }
func c11site1491(s *site) { s.mark(); log.Warnf(s.ctx, s.tag, "%s", s.id) }
func c11site1492(s *site) { s.mark(); log.Error(s.ctx, s.tag, log.Msg(s.id)) }
func c11site1493(s *site) { s.mark(); log.Debug(s.ctx, s.tag, lazyMsg(s)) }
func c11site1494(s *site) { s.mark(); log.Record(s.ctx, log.InfoLevel, s.tag, 1, log.Msg(s.id)) }
func c11site1495(s *site) { s.mark(); log.Info(s.ctx, s.tag, log.Msg(s.id)) }
func c11site1496(s *site) { s.mark(); log.Warnf(s.ctx, s.tag, "%s", s.id) }
func c11site1497(s *site) { s.mark(); log.Error(s.ctx, s.tag, log.Msg(s.id)) }
func c11site1498(s *site) { s.mark(); log.Debug(s.ctx, s.tag, lazyMsg(s)) }
func c11site1499(s *site) { s.mark(); log.Record(s.ctx, log.InfoLevel, s.tag, 1, log.Msg(s.id)) }

var c11ManySites = []func(*site){
	c11site0000, c11site0001, c11site0002, c11site0003, c11site0004, c11site0005, c11site0006, c11site0007, c11site0008, c11site0009,
	c11site0010, c11site0011, c11site0012, c11site0013, c11site0014, c11site0015, c11site0016, c11site0017, c11site0018, c11site0019,
	c11site0020, c11site0021, c11site0022, c11site0023, c11site0024, c11site0025, c11site0026, c11site0027, c11site0028, c11site0029,
	c11site0030, c11site0031, c11site0032, c11site0033, c11site0034, c11site0035, c11site0036, c11site0037, c11site0038, c11site0039,
	c11site0040, c11site0041, c11site0042, c11site0043, c11site0044, c11site0045, c11site0046, c11site0047, c11site0048, c11site0049,
	c11site0050, c11site0051, c11site0052, c11site0053, c11site0054, c11site0055, c11site0056, c11site0057, c11site0058, c11site0059,
	c11site0060, c11site0061, c11site0062, c11site0063, c11site0064, c11site0065, c11site0066, c11site0067, c11site0068, c11site0069,
	c11site0070, c11site0071, c11site0072, c11site0073, c11site0074, c11site0075, c11site0076, c11site0077, c11site0078, c11site0079,
	c11site0080, c11site0081, c11site0082, c11site0083, c11site0084, c11site0085, c11site0086, c11site0087, c11site0088, c11site0089,
	c11site0090, c11site0091, c11site0092, c11site0093, c11site0094, c11site0095, c11site0096, c11site0097, c11site0098, c11site0099,
	c11site0100, c11site0101, c11site0102, c11site0103, c11site0104, c11site0105, c11site0106, c11site0107, c11site0108, c11site0109,
	c11site0110, c11site0111, c11site0112, c11site0113, c11site0114, c11site0115, c11site0116, c11site0117, c11site0118, c11site0119,
	c11site0120, c11site0121, c11site0122, c11site0123, c11site0124, c11site0125, c11site0126, c11site0127, c11site0128, c11site0129,
	c11site0130, c11site0131, c11site0132, c11site0133, c11site0134, c11site0135, c11site0136, c11site0137, c11site0138, c11site0139,
	c11site0140, c11site0141, c11site0142, c11site0143, c11site0144, c11site0145, c11site0146, c11site0147, c11site0148, c11site0149,
	c11site0150, c11site0151, c11site0152, c11site0153, c11site0154, c11site0155, c11site0156, c11site0157, c11site0158, c11site0159,
	c11site0160, c11site0161, c11site0162, c11site0163, c11site0164, c11site0165, c11site0166, c11site0167, c11site0168, c11site0169,
	c11site0170, c11site0171, c11site0172, c11site0173, c11site0174, c11site0175, c11site0176, c11site0177, c11site0178, c11site0179,
	c11site0180, c11site0181, c11site0182, c11site0183, c11site0184, c11site0185, c11site0186, c11site0187, c11site0188, c11site0189,
	c11site0190, c11site0191, c11site0192, c11site0193, c11site0194, c11site0195, c11site0196, c11site0197, c11site0198, c11site0199,
	c11site0200, c11site0201, c11site0202, c11site0203, c11site0204, c11site0205, c11site0206, c11site0207, c11site0208, c11site0209,
	c11site0210, c11site0211, c11site0212, c11site0213, c11site0214, c11site0215, c11site0216, c11site0217, c11site0218, c11site0219,
	c11site0220, c11site0221, c11site0222, c11site0223, c11site0224, c11site0225, c11site0226, c11site0227, c11site0228, c11site0229,
	c11site0230, c11site0231, c11site0232, c11site0233, c11site0234, c11site0235, c11site0236, c11site0237, c11site0238, c11site0239,
	c11site0240, c11site0241, c11site0242, c11site0243, c11site0244, c11site0245, c11site0246, c11site0247, c11site0248, c11site0249,
	c11site0250, c11site0251, c11site0252, c11site0253, c11site0254, c11site0255, c11site0256, c11site0257, c11site0258, c11site0259,
	c11site0260, c11site0261, c11site0262, c11site0263, c11site0264, c11site0265, c11site0266, c11site0267, c11site0268, c11site0269,
	c11site0270, c11site0271, c11site0272, c11site0273, c11site0274, c11site0275, c11site0276, c11site0277, c11site0278, c11site0279,
	c11site0280, c11site0281, c11site0282, c11site0283, c11site0284, c11site0285, c11site0286, c11site0287, c11site0288, c11site0289,
	c11site0290, c11site0291, c11site0292, c11site0293, c11site0294, c11site0295, c11site0296, c11site0297, c11site0298, c11site0299,
	c11site0300, c11site0301, c11site0302, c11site0303, c11site0304, c11site0305, c11site0306, c11site0307, c11site0308, c11site0309,
	c11site0310, c11site0311, c11site0312, c11site0313, c11site0314, c11site0315, c11site0316, c11site0317, c11site0318, c11site0319,
	c11site0320, c11site0321, c11site0322, c11site0323, c11site0324, c11site0325, c11site0326, c11site0327, c11site0328, c11site0329,
	c11site0330, c11site0331, c11site0332, c11site0333, c11site0334, c11site0335, c11site0336, c11site0337, c11site0338, c11site0339,
	c11site0340, c11site0341, c11site0342, c11site0343, c11site0344, c11site0345, c11site0346, c11site0347, c11site0348, c11site0349,
	c11site0350, c11site0351, c11site0352, c11site0353, c11site0354, c11site0355, c11site0356, c11site0357, c11site0358, c11site0359,
	c11site0360, c11site0361, c11site0362, c11site0363, c11site0364, c11site0365, c11site0366, c11site0367, c11site0368, c11site0369,
	c11site0370, c11site0371, c11site0372, c11site0373, c11site0374, c11site0375, c11site0376, c11site0377, c11site0378, c11site0379,
	c11site0380, c11site0381, c11site0382, c11site0383, c11site0384, c11site0385, c11site0386, c11site0387, c11site0388, c11site0389,
	c11site0390, c11site0391, c11site0392, c11site0393, c11site0394, c11site0395, c11site0396, c11site0397, c11site0398, c11site0399,
	c11site0400, c11site0401, c11site0402, c11site0403, c11site0404, c11site0405, c11site0406, c11site0407, c11site0408, c11site0409,
	c11site0410, c11site0411, c11site0412, c11site0413, c11site0414, c11site0415, c11site0416, c11site0417, c11site0418, c11site0419,
	c11site0420, c11site0421, c11site0422, c11site0423, c11site0424, c11site0425, c11site0426, c11site0427, c11site0428, c11site0429,
	c11site0430, c11site0431, c11site0432, c11site0433, c11site0434, c11site0435, c11site0436, c11site0437, c11site0438, c11site0439,
	c11site0440, c11site0441, c11site0442, c11site0443, c11site0444, c11site0445, c11site0446, c11site0447, c11site0448, c11site0449,
	c11site0450, c11site0451, c11site0452, c11site0453, c11site0454, c11site0455, c11site0456, c11site0457, c11site0458, c11site0459,
	c11site0460, c11site0461, c11site0462, c11site0463, c11site0464, c11site0465, c11site0466, c11site0467, c11site0468, c11site0469,
	c11site0470, c11site0471, c11site0472, c11site0473, c11site0474, c11site0475, c11site0476, c11site0477, c11site0478, c11site0479,
	c11site0480, c11site0481, c11site0482, c11site0483, c11site0484, c11site0485, c11site0486, c11site0487, c11site0488, c11site0489,
	c11site0490, c11site0491, c11site0492, c11site0493, c11site0494, c11site0495, c11site0496, c11site0497, c11site0498, c11site0499,
	c11site0500, c11site0501, c11site0502, c11site0503, c11site0504, c11site0505, c11site0506, c11site0507, c11site0508, c11site0509,
	c11site0510, c11site0511, c11site0512, c11site0513, c11site0514, c11site0515, c11site0516, c11site0517, c11site0518, c11site0519,
	c11site0520, c11site0521, c11site0522, c11site0523, c11site0524, c11site0525, c11site0526, c11site0527, c11site0528, c11site0529,
	c11site0530, c11site0531, c11site0532, c11site0533, c11site0534, c11site0535, c11site0536, c11site0537, c11site0538, c11site0539,
	c11site0540, c11site0541, c11site0542, c11site0543, c11site0544, c11site0545, c11site0546, c11site0547, c11site0548, c11site0549,
	c11site0550, c11site0551, c11site0552, c11site0553, c11site0554, c11site0555, c11site0556, c11site0557, c11site0558, c11site0559,
	c11site0560, c11site0561, c11site0562, c11site0563, c11site0564, c11site0565, c11site0566, c11site0567, c11site0568, c11site0569,
	c11site0570, c11site0571, c11site0572, c11site0573, c11site0574, c11site0575, c11site0576, c11site0577, c11site0578, c11site0579,
	c11site0580, c11site0581, c11site0582, c11site0583, c11site0584, c11site0585, c11site0586, c11site0587, c11site0588, c11site0589,
	c11site0590, c11site0591, c11site0592, c11site0593, c11site0594, c11site0595, c11site0596, c11site0597, c11site0598, c11site0599,
	c11site0600, c11site0601, c11site0602, c11site0603, c11site0604, c11site0605, c11site0606, c11site0607, c11site0608, c11site0609,
	c11site0610, c11site0611, c11site0612, c11site0613, c11site0614, c11site0615, c11site0616, c11site0617, c11site0618, c11site0619,
	c11site0620, c11site0621, c11site0622, c11site0623, c11site0624, c11site0625, c11site0626, c11site0627, c11site0628, c11site0629,
	c11site0630, c11site0631, c11site0632, c11site0633, c11site0634, c11site0635, c11site0636, c11site0637, c11site0638, c11site0639,
	c11site0640, c11site0641, c11site0642, c11site0643, c11site0644, c11site0645, c11site0646, c11site0647, c11site0648, c11site0649,
	c11site0650, c11site0651, c11site0652, c11site0653, c11site0654, c11site0655, c11site0656, c11site0657, c11site0658, c11site0659,
	c11site0660, c11site0661, c11site0662, c11site0663, c11site0664, c11site0665, c11site0666, c11site0667, c11site0668, c11site0669,
	c11site0670, c11site0671, c11site0672, c11site0673, c11site0674, c11site0675, c11site0676, c11site0677, c11site0678, c11site0679,
	c11site0680, c11site0681, c11site0682, c11site0683, c11site0684, c11site0685, c11site0686, c11site0687, c11site0688, c11site0689,
	c11site0690, c11site0691, c11site0692, c11site0693, c11site0694, c11site0695, c11site0696, c11site0697, c11site0698, c11site0699,
	c11site0700, c11site0701, c11site0702, c11site0703, c11site0704, c11site0705, c11site0706, c11site0707, c11site0708, c11site0709,
	c11site0710, c11site0711, c11site0712, c11site0713, c11site0714, c11site0715, c11site0716, c11site0717, c11site0718, c11site0719,
	c11site0720, c11site0721, c11site0722, c11site0723, c11site0724, c11site0725, c11site0726, c11site0727, c11site0728, c11site0729,
	c11site0730, c11site0731, c11site0732, c11site0733, c11site0734, c11site0735, c11site0736, c11site0737, c11site0738, c11site0739,
	c11site0740, c11site0741, c11site0742, c11site0743, c11site0744, c11site0745, c11site0746, c11site0747, c11site0748, c11site0749,
	c11site0750, c11site0751, c11site0752, c11site0753, c11site0754, c11site0755, c11site0756, c11site0757, c11site0758, c11site0759,
	c11site0760, c11site0761, c11site0762, c11site0763, c11site0764, c11site0765, c11site0766, c11site0767, c11site0768, c11site0769,
	c11site0770, c11site0771, c11site0772, c11site0773, c11site0774, c11site0775, c11site0776, c11site0777, c11site0778, c11site0779,
	c11site0780, c11site0781, c11site0782, c11site0783, c11site0784, c11site0785, c11site0786, c11site0787, c11site0788, c11site0789,
	c11site0790, c11site0791, c11site0792, c11site0793, c11site0794, c11site0795, c11site0796, c11site0797, c11site0798, c11site0799,
	c11site0800, c11site0801, c11site0802, c11site0803, c11site0804, c11site0805, c11site0806, c11site0807, c11site0808, c11site0809,
	c11site0810, c11site0811, c11site0812, c11site0813, c11site0814, c11site0815, c11site0816, c11site0817, c11site0818, c11site0819,
	c11site0820, c11site0821, c11site0822, c11site0823, c11site0824, c11site0825, c11site0826, c11site0827, c11site0828, c11site0829,
	c11site0830, c11site0831, c11site0832, c11site0833, c11site0834, c11site0835, c11site0836, c11site0837, c11site0838, c11site0839,
	c11site0840, c11site0841, c11site0842, c11site0843, c11site0844, c11site0845, c11site0846, c11site0847, c11site0848, c11site0849,
	c11site0850, c11site0851, c11site0852, c11site0853, c11site0854, c11site0855, c11site0856, c11site0857, c11site0858, c11site0859,
	c11site0860, c11site0861, c11site0862, c11site0863, c11site0864, c11site0865, c11site0866, c11site0867, c11site0868, c11site0869,
	c11site0870, c11site0871, c11site0872, c11site0873, c11site0874, c11site0875, c11site0876, c11site0877, c11site0878, c11site0879,
	c11site0880, c11site0881, c11site0882, c11site0883, c11site0884, c11site0885, c11site0886, c11site0887, c11site0888, c11site0889,
	c11site0890, c11site0891, c11site0892, c11site0893, c11site0894, c11site0895, c11site0896, c11site0897, c11site0898, c11site0899,
	c11site0900, c11site0901, c11site0902, c11site0903, c11site0904, c11site0905, c11site0906, c11site0907, c11site0908, c11site0909,
	c11site0910, c11site0911, c11site0912, c11site0913, c11site0914, c11site0915, c11site0916, c11site0917, c11site0918, c11site0919,
	c11site0920, c11site0921, c11site0922, c11site0923, c11site0924, c11site0925, c11site0926, c11site0927, c11site0928, c11site0929,
	c11site0930, c11site0931, c11site0932, c11site0933, c11site0934, c11site0935, c11site0936, c11site0937, c11site0938, c11site0939,
	c11site0940, c11site0941, c11site0942, c11site0943, c11site0944, c11site0945, c11site0946, c11site0947, c11site0948, c11site0949,
	c11site0950, c11site0951, c11site0952, c11site0953, c11site0954, c11site0955, c11site0956, c11site0957, c11site0958, c11site0959,
	c11site0960, c11site0961, c11site0962, c11site0963, c11site0964, c11site0965, c11site0966, c11site0967, c11site0968, c11site0969,
	c11site0970, c11site0971, c11site0972, c11site0973, c11site0974, c11site0975, c11site0976, c11site0977, c11site0978, c11site0979,
	c11site0980, c11site0981, c11site0982, c11site0983, c11site0984, c11site0985, c11site0986, c11site0987, c11site0988, c11site0989,
	c11site0990, c11site0991, c11site0992, c11site0993, c11site0994, c11site0995, c11site0996, c11site0997, c11site0998, c11site0999,
	c11site1000, c11site1001, c11site1002, c11site1003, c11site1004, c11site1005, c11site1006, c11site1007, c11site1008, c11site1009,
	c11site1010, c11site1011, c11site1012, c11site1013, c11site1014, c11site1015, c11site1016, c11site1017, c11site1018, c11site1019,
	c11site1020, c11site1021, c11site1022, c11site1023, c11site1024, c11site1025, c11site1026, c11site1027, c11site1028, c11site1029,
	c11site1030, c11site1031, c11site1032, c11site1033, c11site1034, c11site1035, c11site1036, c11site1037, c11site1038, c11site1039,
	c11site1040, c11site1041, c11site1042, c11site1043, c11site1044, c11site1045, c11site1046, c11site1047, c11site1048, c11site1049,
	c11site1050, c11site1051, c11site1052, c11site1053, c11site1054, c11site1055, c11site1056, c11site1057, c11site1058, c11site1059,
	c11site1060, c11site1061, c11site1062, c11site1063, c11site1064, c11site1065, c11site1066, c11site1067, c11site1068, c11site1069,
	c11site1070, c11site1071, c11site1072, c11site1073, c11site1074, c11site1075, c11site1076, c11site1077, c11site1078, c11site1079,
	c11site1080, c11site1081, c11site1082, c11site1083, c11site1084, c11site1085, c11site1086, c11site1087, c11site1088, c11site1089,
	c11site1090, c11site1091, c11site1092, c11site1093, c11site1094, c11site1095, c11site1096, c11site1097, c11site1098, c11site1099,
	c11site1100, c11site1101, c11site1102, c11site1103, c11site1104, c11site1105, c11site1106, c11site1107, c11site1108, c11site1109,
	c11site1110, c11site1111, c11site1112, c11site1113, c11site1114, c11site1115, c11site1116, c11site1117, c11site1118, c11site1119,
	c11site1120, c11site1121, c11site1122, c11site1123, c11site1124, c11site1125, c11site1126, c11site1127, c11site1128, c11site1129,
	c11site1130, c11site1131, c11site1132, c11site1133, c11site1134, c11site1135, c11site1136, c11site1137, c11site1138, c11site1139,
	c11site1140, c11site1141, c11site1142, c11site1143, c11site1144, c11site1145, c11site1146, c11site1147, c11site1148, c11site1149,
	c11site1150, c11site1151, c11site1152, c11site1153, c11site1154, c11site1155, c11site1156, c11site1157, c11site1158, c11site1159,
	c11site1160, c11site1161, c11site1162, c11site1163, c11site1164, c11site1165, c11site1166, c11site1167, c11site1168, c11site1169,
	c11site1170, c11site1171, c11site1172, c11site1173, c11site1174, c11site1175, c11site1176, c11site1177, c11site1178, c11site1179,
	c11site1180, c11site1181, c11site1182, c11site1183, c11site1184, c11site1185, c11site1186, c11site1187, c11site1188, c11site1189,
	c11site1190, c11site1191, c11site1192, c11site1193, c11site1194, c11site1195, c11site1196, c11site1197, c11site1198, c11site1199,
	c11site1200, c11site1201, c11site1202, c11site1203, c11site1204, c11site1205, c11site1206, c11site1207, c11site1208, c11site1209,
	c11site1210, c11site1211, c11site1212, c11site1213, c11site1214, c11site1215, c11site1216, c11site1217, c11site1218, c11site1219,
	c11site1220, c11site1221, c11site1222, c11site1223, c11site1224, c11site1225, c11site1226, c11site1227, c11site1228, c11site1229,
	c11site1230, c11site1231, c11site1232, c11site1233, c11site1234, c11site1235, c11site1236, c11site1237, c11site1238, c11site1239,
	c11site1240, c11site1241, c11site1242, c11site1243, c11site1244, c11site1245, c11site1246, c11site1247, c11site1248, c11site1249,
	c11site1250, c11site1251, c11site1252, c11site1253, c11site1254, c11site1255, c11site1256, c11site1257, c11site1258, c11site1259,
	c11site1260, c11site1261, c11site1262, c11site1263, c11site1264, c11site1265, c11site1266, c11site1267, c11site1268, c11site1269,
	c11site1270, c11site1271, c11site1272, c11site1273, c11site1274, c11site1275, c11site1276, c11site1277, c11site1278, c11site1279,
	c11site1280, c11site1281, c11site1282, c11site1283, c11site1284, c11site1285, c11site1286, c11site1287, c11site1288, c11site1289,
	c11site1290, c11site1291, c11site1292, c11site1293, c11site1294, c11site1295, c11site1296, c11site1297, c11site1298, c11site1299,
	c11site1300, c11site1301, c11site1302, c11site1303, c11site1304, c11site1305, c11site1306, c11site1307, c11site1308, c11site1309,
	c11site1310, c11site1311, c11site1312, c11site1313, c11site1314, c11site1315, c11site1316, c11site1317, c11site1318, c11site1319,
	c11site1320, c11site1321, c11site1322, c11site1323, c11site1324, c11site1325, c11site1326, c11site1327, c11site1328, c11site1329,
	c11site1330, c11site1331, c11site1332, c11site1333, c11site1334, c11site1335, c11site1336, c11site1337, c11site1338, c11site1339,
	c11site1340, c11site1341, c11site1342, c11site1343, c11site1344, c11site1345, c11site1346, c11site1347, c11site1348, c11site1349,
	c11site1350, c11site1351, c11site1352, c11site1353, c11site1354, c11site1355, c11site1356, c11site1357, c11site1358, c11site1359,
	c11site1360, c11site1361, c11site1362, c11site1363, c11site1364, c11site1365, c11site1366, c11site1367, c11site1368, c11site1369,
	c11site1370, c11site1371, c11site1372, c11site1373, c11site1374, c11site1375, c11site1376, c11site1377, c11site1378, c11site1379,
	c11site1380, c11site1381, c11site1382, c11site1383, c11site1384, c11site1385, c11site1386, c11site1387, c11site1388, c11site1389,
	c11site1390, c11site1391, c11site1392, c11site1393, c11site1394, c11site1395, c11site1396, c11site1397, c11site1398, c11site1399,
	c11site1400, c11site1401, c11site1402, c11site1403, c11site1404, c11site1405, c11site1406, c11site1407, c11site1408, c11site1409,
	c11site1410, c11site1411, c11site1412, c11site1413, c11site1414, c11site1415, c11site1416, c11site1417, c11site1418, c11site1419,
	c11site1420, c11site1421, c11site1422, c11site1423, c11site1424, c11site1425, c11site1426, c11site1427, c11site1428, c11site1429,
	c11site1430, c11site1431, c11site1432, c11site1433, c11site1434, c11site1435, c11site1436, c11site1437, c11site1438, c11site1439,
	c11site1440, c11site1441, c11site1442, c11site1443, c11site1444, c11site1445, c11site1446, c11site1447, c11site1448, c11site1449,
	c11site1450, c11site1451, c11site1452, c11site1453, c11site1454, c11site1455, c11site1456, c11site1457, c11site1458, c11site1459,
	c11site1460, c11site1461, c11site1462, c11site1463, c11site1464, c11site1465, c11site1466, c11site1467, c11site1468, c11site1469,
	c11site1470, c11site1471, c11site1472, c11site1473, c11site1474, c11site1475, c11site1476, c11site1477, c11site1478, c11site1479,
	c11site1480, c11site1481, c11site1482, c11site1483, c11site1484, c11site1485, c11site1486, c11site1487, c11site1488, c11site1489,
	c11site1490, c11site1491, c11site1492, c11site1493, c11site1494, c11site1495, c11site1496, c11site1497, c11site1498, c11site1499,
}
