package main

import (
	"bytes"
	"sync"

	"github.com/go-spring/log"
)

// RecAppender is a recording appender registered through the public plugin registry ("Rec").
// It keeps, per appender name, what it received: formatted events (tag 'e') and raw bytes ('w').
type RecAppender struct {
	log.AppenderBase
	layout log.JSONLayout
}

type recItem struct {
	Kind byte // 'e' event, 'w' raw write
	Data []byte
}

var (
	recMu    sync.Mutex
	recStore = map[string][]recItem{}
	recGate  func(name string) // optional hook called inside Append/Write before recording (gated tests)
)

func init() { log.RegisterPlugin[RecAppender]("Rec", log.PluginTypeAppender) }

func (r *RecAppender) Start() error { return nil }
func (r *RecAppender) Stop()        {}
func (r *RecAppender) Append(e *log.Event) {
	if g := recGate; g != nil {
		g(r.Name)
	}
	b := r.layout.ToBytes(e)
	recMu.Lock()
	recStore[r.Name] = append(recStore[r.Name], recItem{'e', bytes.Clone(b)})
	recMu.Unlock()
}
func (r *RecAppender) Write(b []byte) {
	if g := recGate; g != nil {
		g(r.Name)
	}
	recMu.Lock()
	recStore[r.Name] = append(recStore[r.Name], recItem{'w', bytes.Clone(b)})
	recMu.Unlock()
}

func recReset() {
	recMu.Lock()
	recStore = map[string][]recItem{}
	recMu.Unlock()
}

func recSnapshot() map[string][]recItem {
	recMu.Lock()
	defer recMu.Unlock()
	m := map[string][]recItem{}
	for k, v := range recStore {
		m[k] = append([]recItem(nil), v...)
	}
	return m
}

// syncBuffer is a goroutine-safe bytes.Buffer used to replace log.Stdout.
type syncBuffer struct {
	mu  sync.Mutex
	buf bytes.Buffer
}

func (s *syncBuffer) Write(b []byte) (int, error) {
	s.mu.Lock()
	defer s.mu.Unlock()
	return s.buf.Write(b)
}
func (s *syncBuffer) Bytes() []byte {
	s.mu.Lock()
	defer s.mu.Unlock()
	return bytes.Clone(s.buf.Bytes())
}
