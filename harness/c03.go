package main

import (
	"bufio"
	"bytes"
	"context"
	"fmt"
	"io"
	"os"
	"path/filepath"
	"runtime"
	"sort"
	"strconv"
	"strings"
	"sync"
	"sync/atomic"
	"time"

	"github.com/go-spring/log"
)

func init() { families["c03"] = runC03; families["c03p"] = runC03Probe }

// slowSink copies what it is given in small chunks, yielding in between, under its own lock (one Write = one line).
type slowSink struct {
	mu     sync.Mutex
	buf    bytes.Buffer
	writes int
	chunk  int
}

func (s *slowSink) Write(b []byte) (int, error) {
	s.mu.Lock()
	defer s.mu.Unlock()
	s.writes++
	for i := 0; i < len(b); i += s.chunk {
		j := i + s.chunk
		if j > len(b) {
			j = len(b)
		}
		s.buf.Write(b[i:j])
		runtime.Gosched()
	}
	return len(b), nil
}

// c03Fields: a message, a scalar, and values that the text layout renders through its nested JSON encoder (arrays, objects)
func c03Fields(g, n, size int) []log.Field {
	return []log.Field{log.Msg(c03Payload(g, n, size)), log.Int("g", g), log.Ints("seq", []int{g, n, g + n}),
		log.Object("o", log.Int("n", n), log.Strings("s", []string{"a", fmt.Sprint(g)})), log.Ints("empty", []int{})}
}

func c03Payload(g, n, size int) string {
	return fmt.Sprintf("<id:%d.%d>%s|%d", g, n, strings.Repeat(string(rune('a'+(g+n)%26)), size), size)
}

// Ownership probe (deterministic, one goroutine). Case: "<layout text|json> <size1> <size2> <bufferCapBytes>"
// Observation: "<first result unchanged after the second ToBytes 0|1> <slices overlap 0|1>"
func runC03Probe(cases []string, out *bufio.Writer, _ []string) {
	for _, line := range cases {
		f := strings.Fields(line)
		s1, _ := strconv.Atoi(f[1])
		s2, _ := strconv.Atoi(f[2])
		bc, _ := strconv.Atoi(f[3])
		log.BufferCap.Store(int32(bc))
		var lay log.Layout = &log.TextLayout{BaseLayout: log.BaseLayout{FileLineLength: 48}}
		if f[0] == "json" {
			lay = &log.JSONLayout{BaseLayout: log.BaseLayout{FileLineLength: 48}}
		}
		e1 := &log.Event{Level: log.InfoLevel, Tag: "_t", Fields: []log.Field{log.Msg(c03Payload(1, 1, s1))}}
		e2 := &log.Event{Level: log.ErrorLevel, Tag: "_u", Fields: []log.Field{log.Msg(c03Payload(2, 2, s2))}}
		b1 := lay.ToBytes(e1)
		snap := bytes.Clone(b1)
		b2 := lay.ToBytes(e2)
		same, overlap := "1", "0"
		if !bytes.Equal(b1, snap) {
			same = "0"
		}
		if len(b1) > 0 && len(b2) > 0 && &b1[0] == &b2[0] {
			overlap = "1"
		}
		fmt.Fprintln(out, same, overlap)
	}
	log.BufferCap.Store(10 * 1024)
}

type c03SiteT struct {
	file string
	line int
}

var c03Site atomic.Value

// c03Log is the one statement all goroutines log from; it records where that statement is
//
//go:noinline
func c03Log(ctx context.Context, tag *log.Tag, fs []log.Field) {
	_, f, l, _ := runtime.Caller(0)
	c03Site.Store(c03SiteT{f, l + 2}) // the log statement two lines below the Caller call
	log.Info(ctx, tag, fs...)
}

type c03TimeKey struct{}

// c03Time is the time event (g,i) is stamped with: seconds, milliseconds and zone all differ between goroutines and between consecutive events.
func c03Time(g, i int) time.Time {
	loc := time.FixedZone("", (g%5-2)*1800)
	ms := g*7919 + i*613
	if i%4 != 3 { // three quarters of the events fall into three adjacent seconds (events in flight together share a second or differ by one)
		ms = ((g+i)%3)*1000 + ms%1000
	}
	return time.Date(2025, 6, 1, 0, 0, 0, 0, time.UTC).Add(time.Duration(ms) * time.Millisecond).In(loc)
}

// Concurrent runs. Case: "<sink console|file|rolling> <layout text|json> <goroutines> <eventsPerGoroutine> <bufferCap e.g. 4KB> <sizeLo> <sizeHi> <chunk> [<ctx 0|1>]"
// ctx=1: a FieldsFromContext hook hands every call the SAME slice of context fields, with spare capacity (request-scoped fields kept in one place).
// Observation: "<writes> <lines> <bad>" where bad lists lines that are not byte-identical to their event formatted alone / duplicates / missing
func runC03(cases []string, out *bufio.Writer, _ []string) {
	log.RegisterTimeRotation("1s", log.TimeRotation{Interval: time.Second})
	tag := log.RegisterTag("_c03_probe")
	tag2 := log.RegisterTag("_c03b_probe")
	// every event carries its own time (through the TimeNow hook): different seconds, milliseconds and zones among the events in flight together
	log.TimeNow = func(ctx context.Context) time.Time {
		if t, ok := ctx.Value(c03TimeKey{}).(time.Time); ok {
			return t
		}
		return time.Date(2025, 6, 1, 0, 0, 0, 0, time.UTC)
	}
	defer func() { log.TimeNow = nil }()
	base, _ := os.MkdirTemp("/var/tmp", "verif-c03-")
	defer os.RemoveAll(base)
	ctx := context.Background()
	for n, line := range cases {
		f := strings.Fields(line)
		sink, layout := f[0], f[1]
		ng, _ := strconv.Atoi(f[2])
		ne, _ := strconv.Atoi(f[3])
		lo, _ := strconv.Atoi(f[5])
		hi, _ := strconv.Atoi(f[6])
		chunk, _ := strconv.Atoi(f[7])
		dir := filepath.Join(base, strconv.Itoa(n))
		os.Mkdir(dir, 0755)
		layName := map[string]string{"text": "TextLayout", "json": "JSONLayout"}[layout]
		cfg := map[string]string{"logger.lg.type": "Logger", "logger.lg.tags": "_c03_*", "logger.lg.appenderRef.ref": "a", "appender.a.layout.type": layName,
			"enableCaller": "false", "bufferCap": f[4]}
		switch sink {
		case "file2": // two loggers (one per tag), each with its own File appender, both appenders on the SAME file
			for _, a := range []string{"a", "b"} {
				cfg["appender."+a+".type"], cfg["appender."+a+".fileDir"], cfg["appender."+a+".fileName"] = "File", dir, "a.log"
				cfg["appender."+a+".layout.type"] = layName
			}
			cfg["logger.lg2.type"], cfg["logger.lg2.tags"], cfg["logger.lg2.appenderRef.ref"] = "Logger", "_c03b_*", "b"
		case "dual": // two appenders behind one logger, each with its own layout and its own file:line width; the caller location is on
			cfg["appender.a.type"], cfg["appender.a.layout.type"], cfg["appender.a.layout.fileLineLength"] = "Console", "TextLayout", "48"
			cfg["appender.b.type"], cfg["appender.b.fileDir"], cfg["appender.b.fileName"] = "File", dir, "a.log"
			cfg["appender.b.layout.type"], cfg["appender.b.layout.fileLineLength"] = "JSONLayout", "20"
			delete(cfg, "logger.lg.appenderRef.ref")
			cfg["logger.lg.appenderRef[0].ref"], cfg["logger.lg.appenderRef[1].ref"] = "a", "b"
			cfg["enableCaller"] = "true"
		case "console", "pipe":
			cfg["appender.a.type"] = "Console"
		case "file":
			cfg["appender.a.type"], cfg["appender.a.fileDir"], cfg["appender.a.fileName"] = "File", dir, "a.log"
		default:
			cfg["appender.a.type"], cfg["appender.a.fileDir"], cfg["appender.a.fileName"] = "RollingFile", dir, "a.log"
			cfg["appender.a.rotation"], cfg["appender.a.maxAge"] = "1s", "24"
		}
		ss := &slowSink{chunk: chunk}
		log.Stdout = ss
		// sink "pipe": the console is a real pipe (an *os.File that supports deadlines) whose reader stalls for 2.2 s three times while the pipe is full, taking 40 KB in between
		var pipeW *os.File
		var pipeData bytes.Buffer
		pipeDone := make(chan struct{})
		if sink == "pipe" {
			r, w, err := os.Pipe()
			if err != nil {
				fmt.Fprintln(out, "pipe-error")
				continue
			}
			pipeW = w
			log.Stdout = w
			go func() {
				defer close(pipeDone)
				buf := make([]byte, 32*1024)
				for i := 0; i < 3; i++ { // three stalls of 2.2 s, 40 KB consumed in between
					time.Sleep(2200 * time.Millisecond)
					n, _ := io.ReadFull(r, buf[:20*1024])
					pipeData.Write(buf[:n])
					n, _ = io.ReadFull(r, buf[:20*1024])
					pipeData.Write(buf[:n])
				}
				for {
					n, err := r.Read(buf)
					pipeData.Write(buf[:n])
					if err != nil {
						r.Close()
						return
					}
				}
			}()
		}
		withCtx := len(f) > 8 && f[8] == "1"
		sharedCtx := make([]log.Field, 2, 16)
		sharedCtx[0], sharedCtx[1] = log.String("req", "r-1"), log.Int("tenant", 42)
		log.FieldsFromContext = nil
		if withCtx {
			log.FieldsFromContext = func(context.Context) []log.Field { return sharedCtx[:2] }
		}
		if err := log.Refresh(cfg); err != nil {
			fmt.Fprintln(out, "refresh-error", strings.ReplaceAll(err.Error(), "\n", " "))
			continue
		}
		size := func(g, i int) int { return lo + (g*131+i*17)%(hi-lo+1) }
		var wg sync.WaitGroup
		for g := 0; g < ng; g++ {
			wg.Add(1)
			go func(g int) {
				defer wg.Done()
				for i := 0; i < ne; i++ {
					tg := tag
					if sink == "file2" && g%2 == 1 {
						tg = tag2
					}
					c03Log(context.WithValue(ctx, c03TimeKey{}, c03Time(g, i)), tg, c03Fields(g, i, size(g, i)))
					if sink == "rolling" && i%8 == 7 { // stretch the run over at least one real rotation boundary (1 s interval)
						time.Sleep(time.Duration(1300*8/ne) * time.Millisecond)
					}
				}
			}(g)
		}
		wg.Wait()
		log.Destroy()
		log.Stdout = os.Stdout
		log.FieldsFromContext = nil
		var data []byte
		writes := -1
		if sink == "pipe" {
			pipeW.Close()
			<-pipeDone
			data = pipeData.Bytes()
		} else if sink == "console" || sink == "dual" {
			data, writes = ss.buf.Bytes(), ss.writes
		} else {
			ents, _ := os.ReadDir(dir)
			for _, e := range ents {
				b, _ := os.ReadFile(filepath.Join(dir, e.Name()))
				data = append(data, b...)
			}
		}
		// expected: each event formatted alone
		var lay log.Layout = &log.TextLayout{BaseLayout: log.BaseLayout{FileLineLength: 48}}
		if layout == "json" {
			lay = &log.JSONLayout{BaseLayout: log.BaseLayout{FileLineLength: 48}}
		}
		siteFile, siteLine := "", 0
		if sink == "dual" {
			st, _ := c03Site.Load().(c03SiteT)
			siteFile, siteLine = st.file, st.line
			lay = &log.TextLayout{BaseLayout: log.BaseLayout{FileLineLength: 48}}
		}
		var bad []string
		nl := 0
		want := map[string]int{}
		compare := func(data []byte, lay log.Layout) {
			for g := 0; g < ng; g++ {
				for i := 0; i < ne; i++ {
					ev := &log.Event{Level: log.InfoLevel, Time: c03Time(g, i), File: siteFile, Line: siteLine, Tag: "_c03_probe",
						Fields: c03Fields(g, i, size(g, i))}
					if sink == "file2" && g%2 == 1 {
						ev.Tag = "_c03b_probe"
					}
					if withCtx {
						ev.CtxFields = []log.Field{log.String("req", "r-1"), log.Int("tenant", 42)}
					}
					want[string(bytes.Clone(lay.ToBytes(ev)))]++
				}
			}
			for _, l := range bytes.SplitAfter(data, []byte("\n")) {
				if len(l) == 0 {
					continue
				}
				nl++
				if want[string(l)] > 0 {
					want[string(l)]--
				} else {
					bad = append(bad, "foreign-or-torn-or-duplicate("+idOf(l)+")")
					if os.Getenv("C03_DEBUG") != "" {
						fmt.Fprintf(os.Stderr, "GOT  %q\n", l)
						for w := range want {
							fmt.Fprintf(os.Stderr, "WANT %q\n", w)
							break
						}
					}
				}
			}
		}
		compare(data, lay)
		if sink == "dual" { // the file:line text of every line, computed here from the documented rule (not by the library's own code)
			fl := fmt.Sprintf("%s:%d", siteFile, siteLine)
			cut := func(w int) string {
				if len(fl) <= w {
					return fl
				}
				return "..." + fl[len(fl)-(w-3):]
			}
			for _, l := range bytes.Split(data, []byte("\n")) {
				if len(l) > 0 && !bytes.Contains(l, []byte("]["+cut(48)+"] ")) {
					bad = append(bad, "console-line-with-another-layouts-file-line("+idOf(l)+")")
				}
			}
		}
		if sink == "dual" { // the second sink: its own layout, its own width
			var fdata []byte
			ents, _ := os.ReadDir(dir)
			for _, e := range ents {
				b, _ := os.ReadFile(filepath.Join(dir, e.Name()))
				fdata = append(fdata, b...)
			}
			compare(fdata, &log.JSONLayout{BaseLayout: log.BaseLayout{FileLineLength: 20}})
			fl := fmt.Sprintf("%s:%d", siteFile, siteLine)
			want20 := fl
			if len(fl) > 20 {
				want20 = "..." + fl[len(fl)-17:]
			}
			for _, l := range bytes.Split(fdata, []byte("\n")) {
				if len(l) > 0 && !bytes.Contains(l, []byte(`"fileLine":"`+want20+`"`)) {
					bad = append(bad, "file-line-with-another-layouts-file-line("+idOf(l)+")")
				}
			}
		}
		missing := 0
		for _, c := range want {
			missing += c
		}
		if missing > 0 {
			bad = append(bad, fmt.Sprintf("missing=%d", missing))
		}
		if writes >= 0 && writes != ng*ne {
			bad = append(bad, fmt.Sprintf("sink-writes=%d", writes))
		}
		sort.Strings(bad)
		if len(bad) > 6 {
			bad = append(bad[:6], fmt.Sprintf("...(%d)", len(bad)))
		}
		total := ng * ne
		if sink == "dual" {
			total *= 2
		}
		fmt.Fprintf(out, "%d %d %s\n", total, nl, strings.Join(bad, ","))
		os.RemoveAll(dir)
	}
	guard(func() {
		log.Refresh(map[string]string{"appender.a.type": "Console", "enableCaller": "true", "bufferCap": "10KB"})
		log.Destroy()
	})
}
