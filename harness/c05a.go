package main

import (
	"bufio"
	"fmt"
	"os"
	"path/filepath"
	"strconv"
	"strings"
	"time"

	"github.com/go-spring/log"
)

func init() { families["c05a"] = runC05Appenders }

// Appenders built directly, stopped once or twice, stopped without having been started, started again after a stop.
// Case: "<kind file|rolling|console> <script>"  script letters: S Start, w write the next numbered line, X Stop
// Observation: "<outcome per letter: ok | err | panic(..)> | <ids readable from the target, in order> | <descriptors into the directory at the end>"
func runC05Appenders(cases []string, out *bufio.Writer, _ []string) {
	base, _ := os.MkdirTemp("/var/tmp", "verif-c05a-")
	defer os.RemoveAll(base)
	for n, line := range cases {
		f := strings.Fields(line)
		kind, script := f[0], f[1]
		dir := filepath.Join(base, strconv.Itoa(n))
		os.Mkdir(dir, 0755)
		stdout := &syncBuffer{}
		log.Stdout = stdout
		var a log.Appender
		switch kind {
		case "file":
			a = &log.FileAppender{Layout: &log.TextLayout{}, FileDir: dir, FileName: "a.log"}
		case "rolling":
			a = &log.RollingFileAppender{Layout: &log.TextLayout{}, FileDir: dir, FileName: "a.log", Rotation: log.TimeRotation{Interval: time.Hour}, MaxAge: 24}
		default:
			a = &log.ConsoleAppender{Layout: &log.TextLayout{}}
		}
		var outs []string
		id := 0
		for i := 0; i < len(script); i++ {
			var err error
			p, v := guard(func() {
				switch script[i] {
				case 'S':
					err = a.Start()
				case 'w':
					a.Write([]byte(fmt.Sprintf("<id:%d>\n", id)))
					id++
				case 'X':
					a.Stop()
				}
			})
			switch {
			case p:
				outs = append(outs, "panic("+strings.ReplaceAll(fmt.Sprint(v), " ", "_")+")")
			case err != nil:
				outs = append(outs, "err")
			default:
				outs = append(outs, "ok")
			}
		}
		var data []byte
		if kind == "console" {
			data = stdout.Bytes()
		} else {
			ents, _ := os.ReadDir(dir)
			for _, e := range ents {
				b, _ := os.ReadFile(filepath.Join(dir, e.Name()))
				data = append(data, b...)
			}
		}
		log.Stdout = os.Stdout
		var ids []string
		for _, l := range strings.Split(string(data), "\n") {
			if x := idOf([]byte(l)); x != "?" {
				ids = append(ids, x)
			}
		}
		fmt.Fprintf(out, "%s | %s | %d\n", strings.Join(outs, ","), strings.Join(ids, ","), fdsInto(dir))
		os.RemoveAll(dir)
	}
}
