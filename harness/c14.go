package main

import (
	"bufio"
	"fmt"
	"os"
	"path/filepath"
	"sort"
	"strconv"
	"strings"
	"time"

	"github.com/go-spring/log"
)

func init() { families["c14"] = runC14 }

// Case: "<fileName-hex> <maxAge> <name-hex>:<kind>:<offsetSeconds> ..."
//   kind 0 regular file, 1 directory, 2 symlink to a regular file outside the directory,
//   3 directory that itself contains an expired regular file named like one of this appender's own files (and a nested one below)
// Observation: sorted hex names of the survivors.
func runC14(cases []string, out *bufio.Writer, _ []string) {
	base, err := os.MkdirTemp("/var/tmp", "verif-c14-")
	if err != nil {
		panic(err)
	}
	defer os.RemoveAll(base)
	target := filepath.Join(base, "symlink-target")
	os.WriteFile(target, []byte("x"), 0644)
	for n, c := range cases {
		f := strings.Fields(c)
		dir := filepath.Join(base, strconv.Itoa(n))
		os.Mkdir(dir, 0755)
		age, _ := strconv.Atoi(f[1])
		now := time.Now()
		var inners []string
		for _, e := range f[2:] {
			p := strings.Split(e, ":")
			name := unhex(p[0])
			off, _ := strconv.Atoi(p[2])
			path := filepath.Join(dir, name)
			mt := now.Add(time.Duration(off) * time.Second)
			switch p[1] {
			case "0":
				if err := os.WriteFile(path, []byte("x"), 0644); err != nil {
					panic(err)
				}
				os.Chtimes(path, mt, mt)
			case "1":
				os.Mkdir(path, 0755)
				os.Chtimes(path, mt, mt)
			case "2":
				os.Symlink(target, path)
			case "3":
				os.MkdirAll(filepath.Join(path, "deeper"), 0755)
				old := now.Add(-800 * time.Hour)
				for _, inner := range []string{filepath.Join(path, unhex(f[0])+".20200101000000"), filepath.Join(path, "deeper", unhex(f[0])+".20190101000000")} {
					os.WriteFile(inner, []byte("x"), 0644)
					os.Chtimes(inner, old, old)
					inners = append(inners, inner)
				}
				os.Chtimes(path, mt, mt)
			}
		}
		a := &log.RollingFileAppender{FileDir: dir, FileName: unhex(f[0]), MaxAge: int32(age)}
		pan, v := guard(func() { a.VerifClearExpired() })
		if pan {
			fmt.Fprintf(out, "panic %v\n", v)
			continue
		}
		ents, _ := os.ReadDir(dir)
		var names []string
		for _, e := range ents {
			names = append(names, tohex(e.Name()))
		}
		sort.Strings(names)
		for _, inner := range inners { // files below the log directory are not this appender's
			if _, err := os.Stat(inner); err != nil {
				names = append(names, "DELETED-BELOW:"+tohex(strings.TrimPrefix(inner, dir)))
			}
		}
		fmt.Fprintln(out, strings.Join(names, " "))
		os.RemoveAll(dir)
	}
}
