package main

import (
	"bufio"
	"fmt"
	"os"
	"path/filepath"
	"sort"
	"strconv"
	"strings"
	"sync"
	"time"

	"github.com/go-spring/log"
)

func init() { families["c14"] = runC14 }

// Case: "<fileName-hex> <maxAge> <name-hex>:<kind>:<offsetSeconds> ... [ |<seconds after the first pass> <name-hex>:<kind>:<offsetSeconds> ... ]..."
//   every "|<s>" is a cleanup pass of the SAME appender followed by a wait until <s> seconds after the case began; the entries after it are
//   written / touched / created before the next pass; a final pass ends the case
//   kind 0 regular file, 1 directory, 2 symlink to a (fresh) regular file outside the directory, 4 symlink to a regular file outside whose mtime is the given one,
//   3 directory that itself contains an expired regular file named like one of this appender's own files (and a nested one below)
// Observation: sorted hex names of the survivors.
func runC14(cases []string, out *bufio.Writer, _ []string) {
	base, err := os.MkdirTemp("/var/tmp", "verif-c14-")
	if err != nil {
		panic(err)
	}
	defer os.RemoveAll(base)
	target := filepath.Join(base, "symlink-target")
	os.WriteFile(target, []byte("x"), 0644)
	results := make([]string, len(cases))
	var wg sync.WaitGroup
	sem := make(chan struct{}, 8)
	for n, c := range cases {
		wg.Add(1)
		go func(n int, c string) { // cases with waits between their passes run side by side
			defer wg.Done()
			sem <- struct{}{}
			defer func() { <-sem }()
			results[n] = c14Case(base, target, n, c)
		}(n, c)
	}
	wg.Wait()
	for _, r := range results {
		fmt.Fprintln(out, r)
	}
}

// one case: the passes of one appender object, the entries of each phase written / touched / created before its pass
func c14Case(base, target string, n int, c string) string {
	f := strings.Fields(c)
	dir := filepath.Join(base, strconv.Itoa(n))
	os.Mkdir(dir, 0755)
	defer os.RemoveAll(dir)
	age, _ := strconv.Atoi(f[1])
	now := time.Now()
	var inners []string
	a := &log.RollingFileAppender{FileDir: dir, FileName: unhex(f[0]), MaxAge: int32(age)}
	put := func(e string) {
		p := strings.Split(e, ":")
		name := unhex(p[0])
		off, _ := strconv.Atoi(p[2])
		path := filepath.Join(dir, name)
		mt := now.Add(time.Duration(off) * time.Second)
		switch p[1] {
		case "0":
			if err := os.WriteFile(path, []byte("x"), 0644); err != nil {
				panic(err)
			}
			os.Chtimes(path, mt, mt)
		case "1":
			os.Mkdir(path, 0755)
			os.Chtimes(path, mt, mt)
		case "2":
			os.Symlink(target, path)
		case "4": // a symbolic link whose TARGET (a regular file elsewhere) has the given modification time
			tdir := filepath.Join(base, "targets")
			os.MkdirAll(tdir, 0755)
			tp := filepath.Join(tdir, fmt.Sprintf("%d-%s", n, p[0]))
			os.WriteFile(tp, []byte("archived"), 0644)
			os.Chtimes(tp, mt, mt)
			os.Remove(path)
			os.Symlink(tp, path)
			inners = append(inners, tp) // the archived file itself must survive as well
		case "3":
			os.MkdirAll(filepath.Join(path, "deeper"), 0755)
			old := now.Add(-800 * time.Hour)
			for _, inner := range []string{filepath.Join(path, unhex(f[0])+".20200101000000"), filepath.Join(path, "deeper", unhex(f[0])+".20190101000000")} {
				os.WriteFile(inner, []byte("x"), 0644)
				os.Chtimes(inner, old, old)
				inners = append(inners, inner)
			}
			os.Chtimes(path, mt, mt)
		}
	}
	for _, e := range f[2:] {
		if e[0] != '|' {
			put(e)
			continue
		}
		if pan, v := guard(func() { a.VerifClearExpired() }); pan {
			return fmt.Sprintf("panic %v", v)
		}
		at, _ := strconv.Atoi(e[1:]) // the next pass happens this many seconds after the first one
		time.Sleep(time.Until(now.Add(time.Duration(at) * time.Second)))
	}
	if pan, v := guard(func() { a.VerifClearExpired() }); pan {
		return fmt.Sprintf("panic %v", v)
	}
	ents, _ := os.ReadDir(dir)
	var names []string
	for _, e := range ents {
		names = append(names, tohex(e.Name()))
	}
	sort.Strings(names)
	for _, inner := range inners { // files below the log directory are not this appender's
		if _, err := os.Stat(inner); err != nil {
			names = append(names, "DELETED-BELOW:"+tohex(strings.TrimPrefix(inner, dir)))
		}
	}
	return strings.Join(names, " ")
}
