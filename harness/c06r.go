package main

import (
	"bufio"
	"bytes"
	"context"
	"fmt"
	"os"
	"sort"
	"strconv"
	"strings"
	"sync/atomic"
	"time"

	"github.com/go-spring/log"
)

func init() {
	families["c06r"] = runC06Rolling
	log.RegisterPlugin[GateLayout]("GateLayout", log.PluginTypeLayout)
}

// GateLayout parks the goroutine that formats an event (for an async logger with its own layout: the worker) until released.
type GateLayout struct{}

var (
	gateLayoutOpen    atomic.Bool
	gateLayoutArrived = make(chan struct{}, 1<<16)
	gateLayoutRelease = make(chan struct{}, 1<<16)
)

func (GateLayout) ToBytes(e *log.Event) []byte {
	var id string
	for _, f := range e.Fields {
		if f.Key == log.MsgKey {
			var b bytes.Buffer
			enc := log.NewTextEncoder(&b, "||")
			enc.AppendEncoderBegin()
			f.Encode(enc)
			enc.AppendEncoderEnd()
			id = b.String()
		}
	}
	if !gateLayoutOpen.Load() {
		gateLayoutArrived <- struct{}{}
		<-gateLayoutRelease
	}
	return []byte(id + "\n")
}

// The overflow policy of an async logger obtained through the RollingFile logger plugin (async=true), with the worker stalled
// inside the logger's layout. Case: "<policy> <extra submissions> <separate 0|1>"
// Observation: "<all calls returned 0|1> | <ids found in the files after release and Destroy, in file order>"
func runC06Rolling(cases []string, out *bufio.Writer, _ []string) {
	base, _ := os.MkdirTemp("/var/tmp", "verif-c06r-")
	defer os.RemoveAll(base)
	tag := log.RegisterTag("_c06r_probe")
	ctx := context.Background()
	for n, line := range cases {
		f := strings.Fields(line)
		extra, _ := strconv.Atoi(f[1])
		dir := base + "/" + strconv.Itoa(n)
		os.Mkdir(dir, 0755)
		gateLayoutOpen.Store(false)
		for len(gateLayoutArrived) > 0 {
			<-gateLayoutArrived
		}
		for len(gateLayoutRelease) > 0 {
			<-gateLayoutRelease
		}
		cfg := map[string]string{"appender.c.type": "Console", "logger.lg.type": "RollingFile", "logger.lg.tags": "_c06r_*", "logger.lg.fileDir": dir, "logger.lg.fileName": "r.log",
			"logger.lg.rotation": "h", "logger.lg.async": "true", "logger.lg.bufferSize": "100", "logger.lg.bufferFullPolicy": f[0], "logger.lg.layout.type": "GateLayout",
			"logger.lg.separate": map[string]string{"0": "false", "1": "true"}[f[2]]}
		if err := log.Refresh(cfg); err != nil {
			fmt.Fprintln(out, "refresh-error", strings.ReplaceAll(err.Error(), "\n", " "))
			continue
		}
		submit := func(id string) { log.Info(ctx, tag, log.Msg("<id:"+id+">")) }
		submit("h.0")
		waitSignal(gateLayoutArrived, 3*time.Second) // the worker is parked formatting h.0
		for i := 1; i <= 100; i++ {
			submit(fmt.Sprintf("b.%d", i)) // fills the buffer
		}
		done := make(chan struct{})
		go func() {
			for i := 1; i <= extra; i++ {
				submit(fmt.Sprintf("x.%d", i))
			}
			close(done)
		}()
		ret := "1"
		if !waitSignal(done, 2*time.Second) {
			ret = "0"
		}
		gateLayoutOpen.Store(true)
		for i := 0; i < 300; i++ {
			gateLayoutRelease <- struct{}{}
		}
		waitSignal(done, 5*time.Second)
		dd := make(chan struct{})
		go func() { log.Destroy(); close(dd) }()
		if !waitSignal(dd, 10*time.Second) {
			ret += " destroy-hangs"
		}
		var ids []string
		ents, _ := os.ReadDir(dir)
		var names []string
		for _, e := range ents {
			names = append(names, e.Name())
		}
		sort.Strings(names)
		for _, nm := range names {
			b, _ := os.ReadFile(dir + "/" + nm)
			for _, l := range bytes.Split(b, []byte("\n")) {
				if len(l) > 0 {
					ids = append(ids, idOf(l))
				}
			}
		}
		fmt.Fprintf(out, "%s | %s\n", ret, strings.Join(ids, ","))
		os.RemoveAll(dir)
	}
}
