package main

import (
	"bufio"
	"context"
	"encoding/json"
	"fmt"
	"reflect"
	"runtime"
	"runtime/debug"
	"strconv"
	"strings"
	"sync"

	"github.com/go-spring/log"
)

func init() { families["c11"] = runC11 }

// LocAppender records file:line per message id.
type LocAppender struct {
	log.AppenderBase
}

var (
	locMu  sync.Mutex
	locGot = map[string]string{}
	locLay = log.JSONLayout{BaseLayout: log.BaseLayout{FileLineLength: 100000}}
)

func init()                         { log.RegisterPlugin[LocAppender]("Loc", log.PluginTypeAppender) }
func (a *LocAppender) Start() error { return nil }
func (a *LocAppender) Stop()        {}
func (a *LocAppender) Write([]byte) {}
func (a *LocAppender) Append(e *log.Event) {
	var m map[string]any
	if json.Unmarshal(locLay.ToBytes(e), &m) == nil {
		locMu.Lock()
		locGot[fmt.Sprint(m["msg"])] = fmt.Sprintf("%s:%d", e.File, e.Line)
		locMu.Unlock()
	}
}

type site struct {
	ctx  context.Context
	tag  *log.Tag
	id   string
	want string
}

// mark records the location of the statement that called it (the log call is on the same source line)
func (s *site) mark() { _, f, l, _ := runtime.Caller(1); s.want = fmt.Sprintf("%s:%d", f, l) }

type entryFn func(s *site)

// lazyMsg keeps the Trace/Debug entries on one source line (mark and the log call must share a line; gofmt splits nested literals)
func lazyMsg(s *site) func() []log.Field {
	return func() []log.Field { return []log.Field{log.Msg(s.id)} }
}

// the 15 entry points, each called on the same line as mark()
var c11Entries = []struct {
	name string
	call entryFn
}{
	{"Trace", func(s *site) { s.mark(); log.Trace(s.ctx, s.tag, lazyMsg(s)) }},
	{"Tracef", func(s *site) { s.mark(); log.Tracef(s.ctx, s.tag, "%s", s.id) }},
	{"Tracef/plain", func(s *site) { s.mark(); log.Tracef(s.ctx, s.tag, s.id) }}, // a message without verbs and without arguments
	{"Debugf/plain", func(s *site) { s.mark(); log.Debugf(s.ctx, s.tag, s.id) }}, // a message without verbs and without arguments
	{"Infof/plain", func(s *site) { s.mark(); log.Infof(s.ctx, s.tag, s.id) }},   // a message without verbs and without arguments
	{"Warnf/plain", func(s *site) { s.mark(); log.Warnf(s.ctx, s.tag, s.id) }},   // a message without verbs and without arguments
	{"Errorf/plain", func(s *site) { s.mark(); log.Errorf(s.ctx, s.tag, s.id) }}, // a message without verbs and without arguments
	{"Panicf/plain", func(s *site) { s.mark(); log.Panicf(s.ctx, s.tag, s.id) }}, // a message without verbs and without arguments
	{"Fatalf/plain", func(s *site) { s.mark(); log.Fatalf(s.ctx, s.tag, s.id) }}, // a message without verbs and without arguments
	{"Debug", func(s *site) { s.mark(); log.Debug(s.ctx, s.tag, lazyMsg(s)) }},
	{"Debugf", func(s *site) { s.mark(); log.Debugf(s.ctx, s.tag, "%s", s.id) }},
	{"Info", func(s *site) { s.mark(); log.Info(s.ctx, s.tag, log.Msg(s.id)) }},
	{"Infof", func(s *site) { s.mark(); log.Infof(s.ctx, s.tag, "%s", s.id) }},
	{"Warn", func(s *site) { s.mark(); log.Warn(s.ctx, s.tag, log.Msg(s.id)) }},
	{"Warnf", func(s *site) { s.mark(); log.Warnf(s.ctx, s.tag, "%s", s.id) }},
	{"Error", func(s *site) { s.mark(); log.Error(s.ctx, s.tag, log.Msg(s.id)) }},
	{"Errorf", func(s *site) { s.mark(); log.Errorf(s.ctx, s.tag, "%s", s.id) }},
	{"Panic", func(s *site) { s.mark(); log.Panic(s.ctx, s.tag, log.Msg(s.id)) }},
	{"Panicf", func(s *site) { s.mark(); log.Panicf(s.ctx, s.tag, "%s", s.id) }},
	{"Fatal", func(s *site) { s.mark(); log.Fatal(s.ctx, s.tag, log.Msg(s.id)) }},
	{"Fatalf", func(s *site) { s.mark(); log.Fatalf(s.ctx, s.tag, "%s", s.id) }},
	{"Record1", func(s *site) { s.mark(); log.Record(s.ctx, log.InfoLevel, s.tag, 1, log.Msg(s.id)) }},
}

// call shapes
func inlinable(s *site)           { s.mark(); log.Infof(s.ctx, s.tag, "%s", s.id) }
func generic[T any](s *site, _ T) { s.mark(); log.Info(s.ctx, s.tag, log.Msg(s.id)) }
func wrapSkip2(s *site)           { log.Record(s.ctx, log.WarnLevel, s.tag, 2, log.Msg(s.id)) }
func wrapSkip3Inner(s *site)      { log.Record(s.ctx, log.ErrorLevel, s.tag, 3, log.Msg(s.id)) }
func wrapSkip3(s *site)           { wrapSkip3Inner(s) }

// c11Deep calls f at the bottom of n nested calls of itself
//
//go:noinline
func c11Deep(n int, f func()) {
	if n == 0 {
		f()
		return
	}
	c11Deep(n-1, f)
}

// c11DeepRecord logs with the given skip; the expected location is what the runtime reports for the same frame (skip 1 = this function's caller)
func c11DeepRecord(s *site, skip int) {
	_, file, line, _ := runtime.Caller(skip)
	s.want = fmt.Sprintf("%s:%d", file, line)
	log.Record(s.ctx, log.WarnLevel, s.tag, skip+1, log.Msg(s.id))
}

//go:noinline
func notInlined(s *site) { s.mark(); log.Errorf(s.ctx, s.tag, "%s", s.id) }

type recv struct{}

func (recv) method(s *site) { s.mark(); log.Warn(s.ctx, s.tag, log.Msg(s.id)) }

var c11Shapes = []struct {
	name string
	run  func(s *site, call entryFn)
}{
	{"plain", func(s *site, call entryFn) { call(s) }},
	{"closure", func(s *site, call entryFn) { func() { call(s) }() }},
	{"deferred", func(s *site, call entryFn) { func() { defer func() { call(s) }() }() }},
	{"goroutine", func(s *site, call entryFn) {
		var wg sync.WaitGroup
		wg.Add(1)
		go func() { defer wg.Done(); call(s) }()
		wg.Wait()
	}},
}

var c11Extra = []struct {
	name string
	run  func(s *site)
}{
	{"inlinable-helper", func(s *site) { inlinable(s) }},
	{"generic-helper", func(s *site) { generic(s, 42) }},
	{"noinline-helper", func(s *site) { notInlined(s) }},
	{"method-value", func(s *site) { f := recv{}.method; f(s) }},
	{"record-skip2", func(s *site) { s.mark(); wrapSkip2(s) }},
	{"record-skip3", func(s *site) { s.mark(); wrapSkip3(s) }},
	{"record-skip2-closure", func(s *site) { func() { s.mark(); wrapSkip2(s) }() }},
	// skip 0 selects Record's own frame: a statement inside the body of log.Record (located through the function's entry, not hard-coded)
	{"record-skip0", func(s *site) {
		log.Record(s.ctx, log.WarnLevel, s.tag, 0, log.Msg(s.id))
		fn := runtime.FuncForPC(reflect.ValueOf(log.Record).Pointer())
		file, entry := fn.FileLine(fn.Entry())
		locMu.Lock()
		got := locGot[s.id]
		locMu.Unlock()
		s.want = "a statement of log.Record in " + file
		if i := strings.LastIndex(got, ":"); i > 0 && got[:i] == file {
			if l, err := strconv.Atoi(got[i+1:]); err == nil && l >= entry && l <= entry+20 {
				s.want = got
			}
		}
	}},
	// large skips on a stack that really is that deep: 300 nested calls, Record's skip selecting a frame 101 / 150 / 299 levels up
	{"record-skip101-deep", func(s *site) { c11Deep(300, func() { c11DeepRecord(s, 101) }) }},
	{"record-skip150-deep", func(s *site) { c11Deep(300, func() { c11DeepRecord(s, 150) }) }},
	{"record-skip299-deep", func(s *site) { c11Deep(300, func() { c11DeepRecord(s, 299) }) }},
	// a skip beyond the bottom of the stack selects no frame: the location is empty, in both modes
	{"record-skip-beyond-stack", func(s *site) { s.want = ":0"; log.Record(s.ctx, log.WarnLevel, s.tag, 200, log.Msg(s.id)) }},
	{"record-skip-huge", func(s *site) { s.want = ":0"; log.Record(s.ctx, log.WarnLevel, s.tag, 1<<40, log.Msg(s.id)) }},
	// the last record of a case carries a real location: whatever the next case (possibly with the lookup off) recycles is not blank
	{"last-located", func(s *site) { notInlined(s) }},
}

// Case: "<enableCaller 0|1> <fastCaller 0|1> <repeat>"
// Observation: one token per (shape x entry point x repetition): "<name>=ok" or "<name>=got<file:line>,want<file:line>"
func runC11(cases []string, out *bufio.Writer, _ []string) {
	// no garbage collection and a single P in this (small) family: recycled events and buffers then really are the ones an earlier
	// configuration used (sync.Pool keeps them per P and drops them at a collection)
	defer debug.SetGCPercent(debug.SetGCPercent(-1))
	defer runtime.GOMAXPROCS(runtime.GOMAXPROCS(1))
	tag := log.RegisterTag("_c11_probe")
	ctx := context.Background()
	for _, line := range cases {
		f := strings.Fields(line)
		cfg := map[string]string{"appender.a.type": "Loc", "logger.lg.type": "Logger", "logger.lg.tags": "_c11_*", "logger.lg.level": "trace",
			"logger.lg.appenderRef.ref": "a", "enableCaller": map[string]string{"0": "false", "1": "true"}[f[0]],
			"fastCaller": map[string]string{"0": "false", "1": "true"}[f[1]]}
		if err := log.Refresh(cfg); err != nil {
			fmt.Fprintln(out, "err")
			continue
		}
		rep := 1
		fmt.Sscan(f[2], &rep)
		var toks []string
		n := 0
		check := func(name string, run func(s *site)) {
			for r := 0; r < rep; r++ { // the same call site repeatedly: cache hits in fast mode
				n++
				s := &site{ctx: ctx, tag: tag, id: fmt.Sprintf("m%d", n)}
				run(s)
				locMu.Lock()
				got := locGot[s.id]
				locMu.Unlock()
				want := s.want
				if f[0] == "0" {
					want = ":0"
				}
				if got == want {
					toks = append(toks, name+"=ok")
				} else {
					toks = append(toks, fmt.Sprintf("%s=got[%s]want[%s]", name, got, want))
				}
			}
		}
		for _, sh := range c11Shapes {
			for _, e := range c11Entries {
				check(sh.name+"/"+e.name, func(s *site) { sh.run(s, e.call) })
			}
		}
		for _, x := range c11Extra {
			check(x.name, x.run)
		}
		log.Destroy()
		fmt.Fprintln(out, strings.Join(toks, " "))
	}
	guard(func() {
		log.Refresh(map[string]string{"appender.a.type": "Loc", "enableCaller": "true", "fastCaller": "false"})
		log.Destroy()
	})
}

func init() { families["c11c"] = runC11Concurrent }

// Concurrent callers. Case: "<fastCaller 0|1> <goroutines> <iterations>": every goroutine logs from its own statements (the 15 entry points,
// round robin) after a common start barrier. Observation: "<calls> <wrong> <first wrong sites>"
func runC11Concurrent(cases []string, out *bufio.Writer, _ []string) {
	tag := log.RegisterTag("_c11_probe")
	ctx := context.Background()
	for _, line := range cases {
		f := strings.Fields(line)
		var ng, iters int
		fmt.Sscan(f[1], &ng)
		fmt.Sscan(f[2], &iters)
		cfg := map[string]string{"appender.a.type": "Loc", "logger.lg.type": "Logger", "logger.lg.tags": "_c11_*", "logger.lg.level": "trace",
			"logger.lg.appenderRef.ref": "a", "enableCaller": "true", "fastCaller": map[string]string{"0": "false", "1": "true"}[f[0]]}
		if err := log.Refresh(cfg); err != nil {
			fmt.Fprintln(out, "err")
			continue
		}
		locMu.Lock()
		locGot = map[string]string{}
		locMu.Unlock()
		sites := make([][]*site, ng)
		start := make(chan struct{})
		var wg sync.WaitGroup
		for g := 0; g < ng; g++ {
			wg.Add(1)
			go func(g int) {
				defer wg.Done()
				<-start
				for i := 0; i < iters; i++ {
					s := &site{ctx: ctx, tag: tag, id: fmt.Sprintf("c%d.%d", g, i)}
					c11Entries[(g+i/64)%len(c11Entries)].call(s)
					sites[g] = append(sites[g], s)
				}
			}(g)
		}
		close(start)
		wg.Wait()
		log.Destroy()
		total, wrong := 0, 0
		var first []string
		locMu.Lock()
		for g := range sites {
			for _, s := range sites[g] {
				total++
				if got := locGot[s.id]; got != s.want {
					wrong++
					if len(first) < 3 {
						first = append(first, fmt.Sprintf("%s:got[%s]want[%s]", s.id, got, s.want))
					}
				}
			}
		}
		locGot = map[string]string{}
		locMu.Unlock()
		fmt.Fprintf(out, "%d %d %s\n", total, wrong, strings.Join(first, ","))
	}
	guard(func() {
		log.Refresh(map[string]string{"appender.a.type": "Loc", "enableCaller": "true", "fastCaller": "false"})
		log.Destroy()
	})
}

func init() { families["c11s"] = runC11ManySites }

// Many distinct call sites. Case: "<fastCaller 0|1> <passes>": each of the generated sites logs once per pass, in order; locations are
// checked after every pass (a later pass revisits sites whose frames were resolved - and possibly cached - long before).
// Observation: "<calls> <wrong> <first wrong sites>"
func runC11ManySites(cases []string, out *bufio.Writer, _ []string) {
	tag := log.RegisterTag("_c11_probe")
	ctx := context.Background()
	for _, line := range cases {
		f := strings.Fields(line)
		passes := 1
		fmt.Sscan(f[1], &passes)
		cfg := map[string]string{"appender.a.type": "Loc", "logger.lg.type": "Logger", "logger.lg.tags": "_c11_*", "logger.lg.level": "trace",
			"logger.lg.appenderRef.ref": "a", "enableCaller": "true", "fastCaller": map[string]string{"0": "false", "1": "true"}[f[0]]}
		if err := log.Refresh(cfg); err != nil {
			fmt.Fprintln(out, "err")
			continue
		}
		locMu.Lock()
		locGot = map[string]string{}
		locMu.Unlock()
		total, wrong := 0, 0
		var first []string
		for p := 0; p < passes; p++ {
			for i, fn := range c11ManySites {
				s := &site{ctx: ctx, tag: tag, id: fmt.Sprintf("s%d.%d", p, i)}
				fn(s)
				locMu.Lock()
				got := locGot[s.id]
				locMu.Unlock()
				total++
				if got != s.want {
					wrong++
					if len(first) < 3 {
						first = append(first, fmt.Sprintf("%s:got[%s]want[%s]", s.id, got, s.want))
					}
				}
			}
		}
		log.Destroy()
		locMu.Lock()
		locGot = map[string]string{}
		locMu.Unlock()
		fmt.Fprintf(out, "%d %d %s\n", total, wrong, strings.Join(first, ","))
	}
	guard(func() {
		log.Refresh(map[string]string{"appender.a.type": "Loc", "enableCaller": "true", "fastCaller": "false"})
		log.Destroy()
	})
}
