package main

import (
	"bufio"
	"bytes"
	"fmt"
	"strconv"
	"strings"
	"sync"
	"sync/atomic"
	"time"

	"github.com/go-spring/log"
)

func init() {
	families["c04"] = runC04
	families["c04c"] = runC04Concurrent
	families["c06w"] = runC06Stalled
}

// gateAppender parks the caller inside Append/Write until released; it signals arrivals and
// records what it received, in order.
type gateAppender struct {
	log.AppenderBase
	layout  log.JSONLayout
	mu      sync.Mutex
	got     []string
	arrived chan struct{}
	release chan struct{}
	open    atomic.Bool // when set, nothing parks
	delay   time.Duration
}

func newGate() *gateAppender {
	return &gateAppender{arrived: make(chan struct{}, 1<<16), release: make(chan struct{}, 1<<16)}
}
func (g *gateAppender) Start() error { return nil }
func (g *gateAppender) Stop()        {}
func (g *gateAppender) pass(id string) {
	if !g.open.Load() {
		g.arrived <- struct{}{}
		<-g.release
	}
	if g.delay > 0 {
		time.Sleep(g.delay)
	}
	g.mu.Lock()
	g.got = append(g.got, id)
	g.mu.Unlock()
}
func idOf(b []byte) string {
	i := bytes.Index(b, []byte("<id:"))
	if i < 0 {
		return "?"
	}
	j := bytes.IndexByte(b[i:], '>')
	return string(b[i+4 : i+j])
}
func (g *gateAppender) Append(e *log.Event) { g.pass("e" + idOf(g.layout.ToBytes(e))) }
func (g *gateAppender) Write(b []byte) {
	if len(b) == 0 {
		g.pass("z")
		return
	}
	if len(b) > 0 && b[0] == '{' { // an event formatted by the logger's own layout
		g.pass("e" + idOf(b))
		return
	}
	g.pass("w" + idOf(b))
}
func (g *gateAppender) snapshot() []string {
	g.mu.Lock()
	defer g.mu.Unlock()
	return append([]string(nil), g.got...)
}

// c04Degraded: a call that cannot block did not return within seconds; later calls of this process are classified after the short wait only
var c04Degraded atomic.Bool

func waitSignal(ch chan struct{}, d time.Duration) bool {
	select {
	case <-ch:
		return true
	case <-time.After(d):
		return false
	}
}

func parsePolicy(s string) log.BufferFullPolicy {
	p, err := log.ParseBufferFullPolicy(s)
	if err != nil {
		panic(err)
	}
	return p
}

// the logger's own range has a lower AND an upper bound: events below (kind d) and at or above it (kind u) are not enabled
var allLevels = log.LevelRange{MinLevel: log.InfoLevel, MaxLevel: log.PanicLevel}

// Policy suffixes: "+L" gives the logger its own layout and the appender reference the range [INFO, MAX) (the worker then
// formats the event itself and hands bytes to the reference's level filter); "+U" gives the logger's own range an upper bound,
// [INFO, PANIC): events at PANIC/FATAL are then not enabled (kind u), otherwise they are ordinary enabled events.
var c04UpperBounded sync.Map

func newAsync(cap int, pol string, g log.Appender) *log.AsyncLogger {
	base, _, _ := strings.Cut(pol, "+")
	withLayout, ub := strings.Contains(pol, "+L"), strings.Contains(pol, "+U")
	l := &log.AsyncLogger{
		LoggerBase:       log.LoggerBase{Name: "lg", Level: log.LevelRange{MinLevel: log.InfoLevel, MaxLevel: log.MaxLevel}},
		AppenderRefs:     log.AppenderRefs{AppenderRefs: []*log.AppenderRef{{Appender: g, Level: log.LevelRange{MinLevel: log.NoneLevel, MaxLevel: log.MaxLevel}}}},
		BufferSize:       cap,
		BufferFullPolicy: parsePolicy(base),
	}
	if ub {
		l.Level = allLevels
		c04UpperBounded.Store(l, true)
	}
	if withLayout {
		l.Layout = &log.JSONLayout{}
		l.AppenderRefs.AppenderRefs[0].Level = log.LevelRange{MinLevel: log.InfoLevel, MaxLevel: log.MaxLevel}
	}
	return l
}

func submitTo(l log.Logger, kind byte, id string) {
	switch kind {
	case 'z': // a zero-length raw write (nil and empty alternate): one delivery like any other
		if len(id)%2 == 0 {
			l.Write(nil)
		} else {
			l.Write([]byte{})
		}
	case 'e':
		e := log.GetEvent()
		levels := []log.Level{log.InfoLevel, log.WarnLevel, log.ErrorLevel, log.PanicLevel, log.FatalLevel}
		if _, ub := c04UpperBounded.Load(l); ub {
			levels = levels[:3]
		}
		h := 0
		for i := 0; i < len(id); i++ {
			h = h*31 + int(id[i])
		}
		e.Level = levels[h%len(levels)] // every enabled level, the highest ones included
		e.Fields = []log.Field{log.Msg("<id:" + id + ">")}
		l.Append(e)
	case 'd': // disabled level: below the logger's range
		e := log.GetEvent()
		e.Level = log.DebugLevel
		e.Fields = []log.Field{log.Msg("<id:" + id + ">")}
		l.Append(e)
	case 'u': // disabled level: at or above the (exclusive) upper bound of the logger's range
		e := log.GetEvent()
		e.Level = []log.Level{log.PanicLevel, log.FatalLevel}[len(id)%2]
		e.Fields = []log.Field{log.Msg("<id:" + id + ">")}
		l.Append(e)
	default:
		// the caller owns its buffer again as soon as Write returns: it is overwritten at once
		buf := []byte("<id:" + id + ">")
		l.Write(buf)
		for i := range buf {
			buf[i] = '#'
		}
	}
}

// Case: "<cap> <policy> <op> <op> ..."   op = e<p>.<n> | w<p>.<n> | d<p>.<n> (submit event / raw / disabled event), T (let the
// worker hand over the item it holds), X (Stop).   Deterministic: the worker is parked inside the appender.
// Observation per op, joined by ';':  <delivered ids comma-separated>|<discard counter>|<buffer length>|<r: call returned, b: blocked>
func runC04(cases []string, out *bufio.Writer, _ []string) {
	results := make([]string, len(cases))
	var wg sync.WaitGroup
	sem := make(chan struct{}, 8)
	for i, line := range cases {
		wg.Add(1)
		sem <- struct{}{}
		go func(i int, line string) {
			defer func() { <-sem; wg.Done() }()
			results[i] = runC04Case(line)
		}(i, line)
	}
	wg.Wait()
	for _, r := range results {
		fmt.Fprintln(out, r)
	}
}

func runC04Case(line string) string {
	{
		f := strings.Fields(line)
		cap, _ := strconv.Atoi(f[0])
		g := newGate()
		l := newAsync(cap, f[1], g)
		if err := l.Start(); err != nil {
			return "start-error"
		}
		holding := false
		var blocked []chan struct{}
		var obs []string
		stopped := false
		fail := ""
		for _, op := range f[2:] {
			flag := "r"
			switch {
			case op == "T":
				if holding {
					n := l.VerifBufLen()
					nb := len(blocked)
					before := len(g.snapshot())
					g.release <- struct{}{}
					for i := 0; i < 2000 && len(g.snapshot()) == before; i++ {
						time.Sleep(100 * time.Microsecond)
					}
					if n > 0 {
						if !waitSignal(g.arrived, 3*time.Second) {
							fail = "worker-did-not-take-next"
						}
						holding = true
						if nb > 0 { // a parked sender completes once the worker has made room
							if !waitSignal(blocked[0], 3*time.Second) {
								fail = "blocked-call-not-released"
							}
							blocked = blocked[1:]
						}
					} else {
						holding = false
					}
				}
			case op == "X":
				done := make(chan struct{})
				full := l.VerifBufLen() >= cap
				go func() { l.Stop(); close(done) }()
				if holding { // the worker is parked mid-append with an accepted item: Stop must not return before that item is delivered
					if waitSignal(done, 60*time.Millisecond) {
						fail = "stop-returned-while-an-accepted-item-was-still-being-delivered"
					}
				} else if full { // let Stop reach its (blocking) send of the marker while the worker is still parked
					time.Sleep(40 * time.Millisecond)
				}
				g.open.Store(true)
				for i := 0; i < cap+8; i++ { // wake a parked worker (extra tokens are harmless)
					g.release <- struct{}{}
				}
				if !waitSignal(done, 10*time.Second) {
					flag = "b"
					fail = "stop-did-not-return"
				}
				stopped = true
				holding = false
			default:
				kind, id := op[0], op[1:]
				done := make(chan struct{}, 1)
				go func() { submitTo(l, kind, id); done <- struct{}{} }()
				returned := waitSignal(done, 80*time.Millisecond)
				if !returned && !c04Degraded.Load() && (l.VerifBufLen() < cap || !strings.HasPrefix(f[1], "Block")) {
					// with room in the buffer, or under a discarding policy, no submission waits for anything: on a loaded machine
					// the call is merely slow. (The worker stays parked, so a call that does wait is still found - once.)
					returned = waitSignal(done, 3*time.Second)
					if !returned {
						c04Degraded.Store(true)
					}
				}
				if !returned {
					flag = "b"
					blocked = append(blocked, done)
				} else if kind != 'd' && kind != 'u' && !holding {
					if !waitSignal(g.arrived, 3*time.Second) {
						fail = "worker-did-not-take"
					}
					holding = true
				}
			}
			bl := 0
			if !stopped {
				bl = l.VerifBufLen()
			}
			obs = append(obs, fmt.Sprintf("%s|%d|%d|%s", strings.Join(g.snapshot(), ","), l.GetDiscardCounter(), bl, flag))
			if fail != "" {
				obs = append(obs, "FAIL:"+fail)
				break
			}
		}
		if !stopped { // clean up: let everything through
			g.open.Store(true)
			for i := 0; i < cap+len(f)+8; i++ {
				g.release <- struct{}{}
			}
			done := make(chan struct{})
			go func() { l.Stop(); close(done) }()
			waitSignal(done, 5*time.Second)
		}
		return "#" + strings.Join(obs, ";")
	}
}

// Concurrent runs. Case: "<cap> <policy> <producers> <itemsPerProducer> <appenderDelayMicros> <rawEvery> <disabledEvery>"
// Output: "<counter> | <delivered ids in order> | <stopOk>"
func runC04Concurrent(cases []string, out *bufio.Writer, _ []string) {
	for _, line := range cases {
		f := strings.Fields(line)
		cap, _ := strconv.Atoi(f[0])
		np, _ := strconv.Atoi(f[2])
		ni, _ := strconv.Atoi(f[3])
		delay, _ := strconv.Atoi(f[4])
		rawEvery, _ := strconv.Atoi(f[5])
		disEvery, _ := strconv.Atoi(f[6])
		g := newGate()
		g.open.Store(true)
		g.delay = time.Duration(delay) * time.Microsecond
		l := newAsync(cap, f[1], g)
		if err := l.Start(); err != nil {
			fmt.Fprintln(out, "start-error")
			continue
		}
		var wg sync.WaitGroup
		start := make(chan struct{}) // all producers are released together so that they really overlap
		for p := 0; p < np; p++ {
			wg.Add(1)
			go func(p int) {
				defer wg.Done()
				<-start
				for n := 0; n < ni; n++ {
					kind := byte('e')
					if rawEvery > 0 && n%rawEvery == rawEvery-1 {
						kind = 'w'
					}
					if disEvery > 0 && n%disEvery == disEvery-1 {
						kind = 'd'
						if strings.Contains(f[1], "+U") && (n/disEvery)%2 == 1 {
							kind = 'u'
						}
					}
					submitTo(l, kind, fmt.Sprintf("%d.%d", p, n))
				}
			}(p)
		}
		close(start)
		wdone := make(chan struct{})
		go func() { wg.Wait(); close(wdone) }()
		ok := "1"
		if !waitSignal(wdone, 60*time.Second) {
			ok = "producers-hang"
		} else {
			sdone := make(chan struct{})
			go func() { l.Stop(); close(sdone) }()
			if !waitSignal(sdone, 60*time.Second) {
				ok = "stop-hangs"
			}
		}
		fmt.Fprintf(out, "%d | %s | %s\n", l.GetDiscardCounter(), strings.Join(g.snapshot(), ","), ok)
	}
}

// Stalled appender. Case: "<cap> <policy> <producers> <itemsPerProducer>": the worker is parked inside the appender, the buffer is
// filled, then the producers run concurrently. Under Discard / DiscardOldest every call must return although nothing is consumed.
// Output: "<all returned 0|1> <counter> | <delivered after the gate is opened and Stop returned>"
func runC06Stalled(cases []string, out *bufio.Writer, _ []string) {
	for _, line := range cases {
		f := strings.Fields(line)
		cap, _ := strconv.Atoi(f[0])
		np, _ := strconv.Atoi(f[2])
		ni, _ := strconv.Atoi(f[3])
		g := newGate()
		l := newAsync(cap, f[1], g)
		if err := l.Start(); err != nil {
			fmt.Fprintln(out, "start-error")
			continue
		}
		submitTo(l, 'e', "99.0")
		waitSignal(g.arrived, 3*time.Second) // the worker is parked holding 99.0
		for i := 1; i <= cap; i++ {
			submitTo(l, 'e', fmt.Sprintf("99.%d", i))
		}
		var wg sync.WaitGroup
		start := make(chan struct{}) // all producers are released together so that they really overlap
		for p := 0; p < np; p++ {
			wg.Add(1)
			go func(p int) {
				defer wg.Done()
				<-start
				for n := 0; n < ni; n++ {
					kind := byte('e')
					if n%3 == 2 {
						kind = 'w'
					}
					submitTo(l, kind, fmt.Sprintf("%d.%d", p, n))
				}
			}(p)
		}
		close(start)
		wdone := make(chan struct{})
		go func() { wg.Wait(); close(wdone) }()
		ret := "1"
		if !waitSignal(wdone, 8*time.Second) {
			ret = "0"
		}
		counter := l.GetDiscardCounter()
		g.open.Store(true)
		for i := 0; i < cap+8; i++ {
			g.release <- struct{}{}
		}
		if ret == "1" {
			sdone := make(chan struct{})
			go func() { l.Stop(); close(sdone) }()
			if !waitSignal(sdone, 10*time.Second) {
				ret = "stop-hangs"
			}
		}
		fmt.Fprintf(out, "%s %d | %s\n", ret, counter, strings.Join(g.snapshot(), ","))
	}
}
