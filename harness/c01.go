package main

import (
	"bufio"
	"bytes"
	"context"
	"fmt"
	"os"
	"path/filepath"
	"sort"
	"strconv"
	"strings"

	"github.com/go-spring/log"
)

func init() { families["c01"] = runC01 }

// custom levels registered by the harness (also known to the model driver and the generator)
var c01Custom = []struct {
	name string
	code int32
}{{"VERBOSE", 50}, {"NOTICE", 450}, {"ABOVE", 1500}, {"BELOW", -7}, {"ALL", -2147483648}, {"OFF", 2147483647}} // the extremes of the code type included: differences of codes do not fit the type

var c01Tag *log.Tag

func c01ProbeCodes() []int32 {
	base := []log.Level{log.NoneLevel, log.TraceLevel, log.DebugLevel, log.InfoLevel, log.WarnLevel, log.ErrorLevel,
		log.PanicLevel, log.FatalLevel, log.MaxLevel}
	var codes []int32
	for _, l := range base {
		codes = append(codes, l.Code())
	}
	for _, c := range c01Custom {
		codes = append(codes, c.code)
	}
	seen := map[int32]bool{}
	var out []int32
	for _, c := range codes {
		for _, d := range []int64{-1, 0, 1} {
			v := int64(c) + d
			if v < -2147483648 || v > 2147483647 { // not a level code
				continue
			}
			if !seen[int32(v)] {
				seen[int32(v)] = true
				out = append(out, int32(v))
			}
		}
	}
	sort.Slice(out, func(i, j int) bool { return out[i] < out[j] })
	return out
}

// Case: "<kind> <loggerLevel-hex> <layout 0|1> <refLevel-hex>,<refLevel-hex>,..."   (refs may be "-" for non-ref kinds)
//   kind: sync async console file rolling rollingsep rollingasync rollingsepasync
// Observation: "err" or one token per probe "p<i>=<deliveries>", deliveries = sorted "<id><e|w>" (ref kinds) or "<id>".
func runC01(cases []string, out *bufio.Writer, _ []string) {
	c01Tag = log.RegisterTag("_c01_probe")
	for _, c := range c01Custom {
		log.RegisterLevel(c.code, c.name)
	}
	codes := c01ProbeCodes()
	probeLevels := map[int32]log.Level{}
	for _, c := range codes {
		probeLevels[c] = log.RegisterLevel(c, fmt.Sprintf("P%d", c)) // names P<code> are never used in configurations
	}
	// restore the canonical entries that share a code with a probe level
	for _, l := range []log.Level{log.NoneLevel, log.TraceLevel, log.DebugLevel, log.InfoLevel, log.WarnLevel, log.ErrorLevel, log.PanicLevel, log.FatalLevel, log.MaxLevel} {
		probeLevels[l.Code()] = l
	}
	base, _ := os.MkdirTemp("/var/tmp", "verif-c01-")
	defer os.RemoveAll(base)
	ctx := context.Background()
	for n, line := range cases {
		f := strings.Fields(line)
		kind, lv, lay := f[0], unhex(f[1]), f[2] == "1"
		var refs []string
		if f[3] != "none" {
			for _, r := range strings.Split(f[3], ",") {
				refs = append(refs, unhex(r))
			}
		}
		dir := filepath.Join(base, strconv.Itoa(n))
		os.Mkdir(dir, 0755)
		cfg := map[string]string{"appender.unused.type": "Rec", "logger.lg.tags": "_c01_*", "logger.lg.level": lv}
		switch kind {
		case "sync", "async":
			cfg["logger.lg.type"] = map[string]string{"sync": "Logger", "async": "AsyncLogger"}[kind]
			for i, r := range refs {
				cfg[fmt.Sprintf("appender.a%d.type", i)] = "Rec"
				cfg[fmt.Sprintf("logger.lg.appenderRef[%d].ref", i)] = fmt.Sprintf("a%d", i)
				cfg[fmt.Sprintf("logger.lg.appenderRef[%d].level", i)] = r
			}
		case "console":
			cfg["logger.lg.type"] = "Console"
		case "file":
			cfg["logger.lg.type"] = "File"
			cfg["logger.lg.fileDir"] = dir
			cfg["logger.lg.fileName"] = "f.log"
		default: // rolling*
			cfg["logger.lg.type"] = "RollingFile"
			cfg["logger.lg.fileDir"] = dir
			cfg["logger.lg.fileName"] = "r.log"
			cfg["logger.lg.rotation"] = "h"
			cfg["logger.lg.separate"] = strconv.FormatBool(strings.Contains(kind, "sep"))
			cfg["logger.lg.async"] = strconv.FormatBool(strings.Contains(kind, "async"))
		}
		if lay {
			cfg["logger.lg.layout.type"] = "JSONLayout"
		}
		recReset()
		stdout := &syncBuffer{}
		log.Stdout = stdout
		var err error
		pan, pv := guard(func() { err = log.Refresh(cfg) })
		if pan {
			fmt.Fprintf(out, "panic-in-refresh %v\n", pv)
			guard(func() { log.Destroy() })
			continue
		}
		if err != nil {
			fmt.Fprintln(out, "err")
			continue
		}
		var ids []string
		probe := func(f func(id string)) {
			id := fmt.Sprintf("<p%d>", len(ids))
			ids = append(ids, id)
			if p, v := guard(func() { f(id) }); p {
				ids[len(ids)-1] = fmt.Sprintf("PANIC(%v)", v)
			}
		}
		for _, c := range codes {
			lvl := probeLevels[c]
			probe(func(id string) { log.Record(ctx, lvl, c01Tag, 1, log.Msg(id)) })
		}
		probe(func(id string) { log.Trace(ctx, c01Tag, func() []log.Field { return []log.Field{log.Msg(id)} }) })
		probe(func(id string) { log.Tracef(ctx, c01Tag, "%s", id) })
		probe(func(id string) { log.Debug(ctx, c01Tag, func() []log.Field { return []log.Field{log.Msg(id)} }) })
		probe(func(id string) { log.Debugf(ctx, c01Tag, "%s", id) })
		probe(func(id string) { log.Info(ctx, c01Tag, log.Msg(id)) })
		probe(func(id string) { log.Infof(ctx, c01Tag, "%s", id) })
		probe(func(id string) { log.Warn(ctx, c01Tag, log.Msg(id)) })
		probe(func(id string) { log.Warnf(ctx, c01Tag, "%s", id) })
		probe(func(id string) { log.Error(ctx, c01Tag, log.Msg(id)) })
		probe(func(id string) { log.Errorf(ctx, c01Tag, "%s", id) })
		probe(func(id string) { log.Panic(ctx, c01Tag, log.Msg(id)) })
		probe(func(id string) { log.Panicf(ctx, c01Tag, "%s", id) })
		probe(func(id string) { log.Fatal(ctx, c01Tag, log.Msg(id)) })
		probe(func(id string) { log.Fatalf(ctx, c01Tag, "%s", id) })
		if p, v := guard(func() { log.Destroy() }); p {
			fmt.Fprintf(out, "panic-in-destroy %v\n", v)
			continue
		}
		log.Stdout = os.Stdout
		// collect: sink name -> content
		type sink struct {
			id   string
			data [][]byte
			tags []byte
		}
		var sinks []sink
		switch kind {
		case "sync", "async":
			snap := recSnapshot()
			for i := range refs {
				var s sink
				s.id = strconv.Itoa(i)
				for _, it := range snap[fmt.Sprintf("a%d", i)] {
					s.data = append(s.data, it.Data)
					s.tags = append(s.tags, it.Kind)
				}
				sinks = append(sinks, s)
			}
		case "console":
			sinks = append(sinks, sink{id: "0", data: bytes.SplitAfter(stdout.Bytes(), []byte("\n"))})
		case "file":
			b, _ := os.ReadFile(filepath.Join(dir, "f.log"))
			sinks = append(sinks, sink{id: "0", data: bytes.SplitAfter(b, []byte("\n"))})
		default:
			ents, _ := os.ReadDir(dir)
			var s0, s1 sink
			s0.id, s1.id = "0", "1"
			for _, e := range ents {
				b, _ := os.ReadFile(filepath.Join(dir, e.Name()))
				if strings.HasPrefix(e.Name(), "r.log.wf.") {
					s1.data = append(s1.data, bytes.SplitAfter(b, []byte("\n"))...)
				} else {
					s0.data = append(s0.data, bytes.SplitAfter(b, []byte("\n"))...)
				}
			}
			sinks = append(sinks, s0, s1)
		}
		var toks []string
		for i, id := range ids {
			if strings.HasPrefix(id, "PANIC") {
				toks = append(toks, fmt.Sprintf("p%d=%s", i, id))
				continue
			}
			var got []string
			for _, s := range sinks {
				for k, d := range s.data {
					if bytes.Contains(d, []byte(id)) {
						t := s.id
						if s.tags != nil {
							t += string(s.tags[k])
						}
						got = append(got, t)
					}
				}
			}
			sort.Strings(got)
			toks = append(toks, fmt.Sprintf("p%d=%s", i, strings.Join(got, ",")))
		}
		fmt.Fprintln(out, strings.Join(toks, " "))
		os.RemoveAll(dir)
	}
}
