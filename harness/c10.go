package main

import (
	"bufio"
	"bytes"
	"context"
	"fmt"
	"os"
	"strings"
	"sync/atomic"
	"time"

	"github.com/go-spring/log"
)

func init() { families["c10"] = runC10 }

type ctxKey struct{}

// Case: "<kind none|sync|async> <loggerLevel-hex> <refLevel-hex> <hooks: 3 bits time,string,fields>"
type ctxBox struct{ ctx context.Context }

// how many context fields the hook returns for call n
func c10CtxFieldCount(n int64) int { return []int{1, 8, 9, 33, 2, 16, 17}[n%7] }

// For each of the 15 entry points (+ Record at every probe level of C01) one call with its own context.
// Observation: "err" or per call "<gen> <time calls:ctx ok> <string calls:ctx ok> <fields calls:ctx ok> <event seen 0|1> <content ok 0|1|->"
func runC10(cases []string, out *bufio.Writer, _ []string) {
	for _, c := range c01Custom {
		log.RegisterLevel(c.code, c.name)
	}
	codes := c01ProbeCodes()
	probeLevels := map[int32]log.Level{}
	for _, c := range codes {
		probeLevels[c] = log.RegisterLevel(c, fmt.Sprintf("P%d", c))
	}
	for _, l := range []log.Level{log.NoneLevel, log.TraceLevel, log.DebugLevel, log.InfoLevel, log.WarnLevel, log.ErrorLevel, log.PanicLevel, log.FatalLevel, log.MaxLevel} {
		probeLevels[l.Code()] = l
	}
	tag := log.RegisterTag("_c10_probe")
	c10Dir, _ := os.MkdirTemp("/var/tmp", "verif-c10-")
	defer os.RemoveAll(c10Dir)
	for _, line := range cases {
		f := strings.Fields(line)
		kind, lv, rl, hooks := f[0], unhex(f[1]), unhex(f[2]), f[3]
		var nTime, nStr, nFld, ctxBad atomic.Int64
		var curCtx atomic.Int64
		var curObj atomic.Value // the caller's context of the call in progress
		check := func(ctx context.Context) {
			if c, _ := curObj.Load().(ctxBox); c.ctx != ctx {
				ctxBad.Add(1)
			}
		}
		log.TimeNow, log.StringFromContext, log.FieldsFromContext = nil, nil, nil
		if hooks[0] == '1' {
			log.TimeNow = func(ctx context.Context) time.Time {
				nTime.Add(1)
				check(ctx)
				if curCtx.Load()%5 == 0 { // the hook's time is the record's time whatever it is, the zero time included
					return time.Time{}
				}
				return time.Date(2001, 2, 3, 4, 5, 6, 7000000, time.UTC)
			}
		}
		if hooks[1] == '1' {
			log.StringFromContext = func(ctx context.Context) string {
				nStr.Add(1)
				check(ctx)
				return fmt.Sprintf("cs%d", curCtx.Load())
			}
		}
		if hooks[2] == '1' {
			log.FieldsFromContext = func(ctx context.Context) []log.Field {
				nFld.Add(1)
				check(ctx)
				fs := []log.Field{log.Int("ctxfield", curCtx.Load())}
				for j := 1; j < c10CtxFieldCount(curCtx.Load()); j++ { // any number of context fields, beyond any inline capacity
					fs = append(fs, log.Int(fmt.Sprintf("cx%dz", j), int64(j)))
				}
				if curCtx.Load()%3 == 0 { // a context field under the very key one of the call's own fields uses: both are part of the record
					fs = append(fs, log.String("msg", fmt.Sprintf("ctxmsg%dz", curCtx.Load())))
				}
				return fs
			}
		}
		recReset()
		stdout := &syncBuffer{}
		log.Stdout = stdout
		if kind != "none" {
			cfg := map[string]string{"appender.a.type": "Rec", "logger.lg.tags": "_c10_*", "logger.lg.level": lv,
				"logger.lg.appenderRef.ref": "a", "logger.lg.appenderRef.level": rl}
			cfg["logger.lg.type"] = map[string]string{"sync": "Logger", "async": "AsyncLogger", "syncr": "Logger", "asyncr": "AsyncLogger"}[kind]
			if strings.HasSuffix(kind, "r") { // a second reference to a rolling-file appender (an appender that looks at the clock itself)
				delete(cfg, "logger.lg.appenderRef.ref")
				delete(cfg, "logger.lg.appenderRef.level")
				cfg["appender.r.type"], cfg["appender.r.fileDir"], cfg["appender.r.fileName"] = "RollingFile", c10Dir, "c10.log"
				cfg["appender.r.rotation"], cfg["appender.r.maxAge"] = "h", "1"
				cfg["logger.lg.appenderRef[0].ref"], cfg["logger.lg.appenderRef[0].level"] = "a", rl
				cfg["logger.lg.appenderRef[1].ref"], cfg["logger.lg.appenderRef[1].level"] = "r", rl
			}
			if err := log.Refresh(cfg); err != nil {
				fmt.Fprintln(out, "err")
				log.Stdout = os.Stdout
				continue
			}
		}
		type res struct{ gen, t, s, fl, bad int64 }
		var results []res
		var ids []string
		call := func(f func(ctx context.Context, id string, gen *int64)) {
			n := int64(len(ids) + 1)
			curCtx.Store(n)
			// arbitrary contexts: a derived one, the two root contexts, an already cancelled one, and nil
			var ctx context.Context
			switch n % 5 {
			case 4: // no context at all: the hooks get what the caller passed, nil included
				ctx = nil
			case 0:
				ctx = context.Background()
			case 1:
				ctx = context.WithValue(context.Background(), ctxKey{}, n)
			case 2:
				ctx = context.TODO()
			default:
				c, cancel := context.WithCancel(context.WithValue(context.Background(), ctxKey{}, n))
				cancel()
				ctx = c
			}
			curObj.Store(ctxBox{ctx})
			id := fmt.Sprintf("<p%d>", n)
			ids = append(ids, id)
			t0, s0, f0, b0 := nTime.Load(), nStr.Load(), nFld.Load(), ctxBad.Load()
			var gen int64
			f(ctx, id, &gen)
			results = append(results, res{gen, nTime.Load() - t0, nStr.Load() - s0, nFld.Load() - f0, ctxBad.Load() - b0})
		}
		lazy := func(id string, gen *int64) func() []log.Field {
			return func() []log.Field { *gen++; return []log.Field{log.Msg(id)} }
		}
		call(func(ctx context.Context, id string, g *int64) { log.Trace(ctx, tag, lazy(id, g)) })
		call(func(ctx context.Context, id string, g *int64) { log.Tracef(ctx, tag, "%s", id) })
		call(func(ctx context.Context, id string, g *int64) { log.Debug(ctx, tag, lazy(id, g)) })
		call(func(ctx context.Context, id string, g *int64) { log.Debugf(ctx, tag, "%s", id) })
		call(func(ctx context.Context, id string, g *int64) { log.Info(ctx, tag, log.Msg(id)) })
		call(func(ctx context.Context, id string, g *int64) { log.Infof(ctx, tag, "%s", id) })
		call(func(ctx context.Context, id string, g *int64) { log.Warn(ctx, tag, log.Msg(id)) })
		call(func(ctx context.Context, id string, g *int64) { log.Warnf(ctx, tag, "%s", id) })
		call(func(ctx context.Context, id string, g *int64) { log.Error(ctx, tag, log.Msg(id)) })
		call(func(ctx context.Context, id string, g *int64) { log.Errorf(ctx, tag, "%s", id) })
		call(func(ctx context.Context, id string, g *int64) { log.Panic(ctx, tag, log.Msg(id)) })
		call(func(ctx context.Context, id string, g *int64) { log.Panicf(ctx, tag, "%s", id) })
		call(func(ctx context.Context, id string, g *int64) { log.Fatal(ctx, tag, log.Msg(id)) })
		call(func(ctx context.Context, id string, g *int64) { log.Fatalf(ctx, tag, "%s", id) })
		for _, c := range codes {
			lvl := probeLevels[c]
			call(func(ctx context.Context, id string, g *int64) { log.Record(ctx, lvl, tag, 1, log.Msg(id)) })
		}
		if kind != "none" {
			log.Destroy()
		}
		log.Stdout = os.Stdout
		var lines [][]byte
		if kind == "none" {
			lines = bytes.Split(stdout.Bytes(), []byte("\n"))
		} else {
			for _, it := range recSnapshot()["a"] {
				lines = append(lines, it.Data)
			}
		}
		var toks []string
		for i, id := range ids {
			r := results[i]
			seen, content := "0", "-"
			for _, l := range lines {
				if !bytes.Contains(l, []byte(id)) {
					continue
				}
				seen = "1"
				content = "1"
				s := string(l)
				wantTime := "2001-02-03T04:05:06.007"
				if (i+1)%5 == 0 {
					wantTime = "0001-01-01T00:00:00.000"
				}
				if hooks[0] == '1' && !strings.Contains(s, wantTime) {
					content = "0"
				}
				if hooks[1] == '1' && !strings.Contains(s, fmt.Sprintf("cs%d", i+1)) {
					content = "0"
				}
				if hooks[2] == '1' {
					a, b := strings.Index(s, "ctxfield"), strings.Index(s, id)
					if a < 0 || a > b {
						content = "0"
					}
					for j := 1; j < c10CtxFieldCount(int64(i+1)); j++ { // every context field, in order, ahead of the call's own fields
						p := strings.Index(s, fmt.Sprintf("cx%dz", j))
						if p < a || p > b {
							content = "0"
						}
						a = p
					}
					if (i+1)%3 == 0 {
						if p := strings.Index(s, fmt.Sprintf("ctxmsg%dz", i+1)); p < a || p > b {
							content = "0"
						}
					}
				}
			}
			toks = append(toks, fmt.Sprintf("%d,%d,%d,%d,%d,%s,%s", r.gen, r.t, r.s, r.fl, r.bad, seen, content))
		}
		fmt.Fprintln(out, strings.Join(toks, " "))
	}
	log.TimeNow, log.StringFromContext, log.FieldsFromContext = nil, nil, nil
}

func init() { families["c10c"] = runC10Concurrent }

type c10Who struct{}

// A second goroutine logs while another one is still inside one of its hooks. Case: "<kind none|sync|async>"
// Observation: "<calls of B> <time-hook calls for B> <string-hook calls for B> <fields-hook calls for B> <records of B carrying B's context string and field> <A's record seen 0|1>"
func runC10Concurrent(cases []string, out *bufio.Writer, _ []string) {
	tag := log.RegisterTag("_c10c_probe")
	for _, kind := range cases {
		kind = strings.TrimSpace(kind)
		release := make(chan struct{})
		entered := make(chan struct{}, 1)
		var nT, nS, nF atomic.Int64
		who := func(ctx context.Context) string {
			if ctx == nil {
				return ""
			}
			w, _ := ctx.Value(c10Who{}).(string)
			return w
		}
		log.TimeNow = func(ctx context.Context) time.Time {
			if who(ctx) == "B" {
				nT.Add(1)
			}
			return time.Date(2001, 2, 3, 4, 5, 6, 7000000, time.UTC)
		}
		log.StringFromContext = func(ctx context.Context) string {
			switch who(ctx) {
			case "A": // parked inside its hook until the other goroutine is done
				entered <- struct{}{}
				<-release
				return "cs-A"
			case "B":
				nS.Add(1)
				return "cs-B"
			}
			return ""
		}
		log.FieldsFromContext = func(ctx context.Context) []log.Field {
			if who(ctx) == "B" {
				nF.Add(1)
			}
			return []log.Field{log.String("who", "ctx-of-"+who(ctx))}
		}
		recReset()
		stdout := &syncBuffer{}
		log.Stdout = stdout
		if kind != "none" {
			cfg := map[string]string{"appender.a.type": "Rec", "logger.lg.tags": "_c10c_*", "logger.lg.level": "trace", "logger.lg.appenderRef.ref": "a",
				"logger.lg.type": map[string]string{"sync": "Logger", "async": "AsyncLogger"}[kind]}
			if err := log.Refresh(cfg); err != nil {
				fmt.Fprintln(out, "err")
				continue
			}
		}
		ctxA := context.WithValue(context.Background(), c10Who{}, "A")
		ctxB := context.WithValue(context.Background(), c10Who{}, "B")
		aDone := make(chan struct{})
		go func() { log.Info(ctxA, tag, log.Msg("<A>")); close(aDone) }()
		waitSignal(entered, 3*time.Second)
		calls := 0
		bDone := make(chan struct{})
		go func() {
			defer close(bDone)
			log.Info(ctxB, tag, log.Msg("<B0>"))
			log.Warnf(ctxB, tag, "%s", "<B1>")
			log.Error(ctxB, tag, log.Msg("<B2>"))
			log.Debug(ctxB, tag, func() []log.Field { return []log.Field{log.Msg("<B3>")} })
			log.Record(ctxB, log.InfoLevel, tag, 1, log.Msg("<B4>"))
			log.Fatalf(ctxB, tag, "%s", "<B5>")
		}()
		if waitSignal(bDone, 5*time.Second) {
			calls = 6
		}
		close(release)
		waitSignal(aDone, 5*time.Second)
		if kind != "none" {
			log.Destroy()
		}
		log.Stdout = os.Stdout
		var lines [][]byte
		if kind == "none" {
			lines = bytes.Split(stdout.Bytes(), []byte("\n"))
		} else {
			for _, it := range recSnapshot()["a"] {
				lines = append(lines, it.Data)
			}
		}
		withCtx, seenA := 0, 0
		for _, l := range lines {
			if bytes.Contains(l, []byte("<B")) && bytes.Contains(l, []byte("cs-B")) && bytes.Contains(l, []byte("ctx-of-B")) && bytes.Contains(l, []byte("2001-02-03T04:05:06.007")) {
				withCtx++
			}
			if bytes.Contains(l, []byte("<A>")) && bytes.Contains(l, []byte("cs-A")) {
				seenA = 1
			}
		}
		fmt.Fprintf(out, "%d %d %d %d %d %d\n", calls, nT.Load(), nS.Load(), nF.Load(), withCtx, seenA)
	}
	log.TimeNow, log.StringFromContext, log.FieldsFromContext = nil, nil, nil
}
