package main

import (
	"bufio"
	"bytes"
	"crypto/md5"
	"encoding/hex"
	"encoding/json"
	"fmt"
	"runtime"
	"strconv"
	"strings"
	"sync"
	"unicode/utf8"

	"github.com/go-spring/log"
)

func init() { families["c09"] = runC09 }

// boundary alphabet used at positions 2.. of the windows (UTF-8 class edges, controls, quote, backslash)
var c09Alpha = []byte{0x00, 0x01, 0x08, 0x09, 0x0a, 0x0d, 0x1f, 0x20, 0x22, 0x2f, 0x5c, 0x61, 0x7e, 0x7f,
	0x80, 0x8f, 0x90, 0x9f, 0xa0, 0xbf, 0xc0, 0xc1, 0xc2, 0xdf, 0xe0, 0xe1, 0xec, 0xed, 0xee, 0xef,
	0xf0, 0xf1, 0xf3, 0xf4, 0xf5, 0xff, 0xbd, 0xbe, 0x30, 0x39, 0x41, 0x66, 0x75, 0x6e, 0x5b, 0x5d, 0x1b, 0x7b}

// escapeImpl: the escaped form of s as a string value (WriteLogString). The same string used as a field KEY of the JSON
// encoder, of the text encoder and as a JSON string VALUE must come out identically; if one of those paths differs the result
// is prefixed with a marker (which no model output ever contains), so every stream below also covers those paths.
func escapeImpl(s string) []byte {
	var buf bytes.Buffer
	log.WriteLogString(&buf, s)
	v := buf.Bytes()
	var kb bytes.Buffer
	je := log.NewJSONEncoder(&kb)
	je.AppendEncoderBegin()
	je.AppendKey(s)
	if k := kb.Bytes(); len(k) < 4 || !bytes.Equal(k[2:len(k)-2], v) {
		return append([]byte("JSON-KEY-PATH-DIFFERS:"), k...)
	}
	kb.Reset()
	je = log.NewJSONEncoder(&kb)
	je.AppendEncoderBegin()
	je.AppendKey("k")
	je.AppendString(s)
	if k := kb.Bytes(); len(k) < 7 || !bytes.Equal(k[6:len(k)-1], v) {
		return append([]byte("JSON-VALUE-PATH-DIFFERS:"), k...)
	}
	kb.Reset()
	te := log.NewTextEncoder(&kb, "||")
	te.AppendEncoderBegin()
	te.AppendKey(s)
	if k := kb.Bytes(); len(k) < 1 || !bytes.Equal(k[:len(k)-1], v) {
		return append([]byte("TEXT-KEY-PATH-DIFFERS:"), k...)
	}
	return v
}

// enumerate all strings: first byte fixed, remaining len-1 bytes over alphabet (full=all 256 values)
func c09Window(n int, first byte, full bool, f func(s []byte)) {
	alpha := c09Alpha
	if full {
		alpha = make([]byte, 256)
		for i := range alpha {
			alpha[i] = byte(i)
		}
	}
	s := make([]byte, n)
	if n == 0 {
		f(s)
		return
	}
	s[0] = first
	var rec func(i int)
	rec = func(i int) {
		if i == n {
			f(s)
			return
		}
		for _, b := range alpha {
			s[i] = b
			rec(i + 1)
		}
	}
	rec(1)
}

// independent Go-side oracle for the property (not the model): valid JSON string that decodes to the
// input with each invalid byte replaced by U+FFFD, valid UTF-8, no byte < 0x20.
func c09Oracle(in string, out []byte) string {
	for _, b := range out {
		if b < 0x20 {
			return "raw-control"
		}
	}
	if !utf8.Valid(out) {
		return "invalid-utf8"
	}
	var dec string
	if err := json.Unmarshal([]byte("\""+string(out)+"\""), &dec); err != nil {
		return "not-a-json-string"
	}
	var want strings.Builder
	for i := 0; i < len(in); {
		r, sz := utf8.DecodeRuneInString(in[i:])
		if r == utf8.RuneError && sz == 1 {
			want.WriteString("�")
			i++
			continue
		}
		want.WriteString(in[i : i+sz])
		i += sz
	}
	if dec != want.String() {
		return "decodes-differently"
	}
	return "ok"
}

func runC09(cases []string, out *bufio.Writer, _ []string) {
	for _, c := range cases {
		f := strings.Fields(c)
		switch f[0] {
		case "e":
			fmt.Fprintln(out, tohex(string(escapeImpl(unhex(f[1])))))
		case "win": // win <len> <first> <full:0|1>
			n, _ := strconv.Atoi(f[1])
			first, _ := strconv.Atoi(f[2])
			h := md5.New()
			c09Window(n, byte(first), f[3] == "1", func(s []byte) {
				h.Write(escapeImpl(string(s)))
				h.Write([]byte{'\n'})
			})
			fmt.Fprintln(out, hex.EncodeToString(h.Sum(nil)))
		case "gooracle": // gooracle <len> <first> <full>: Go-side oracle over a window, in parallel over second byte
			n, _ := strconv.Atoi(f[1])
			first, _ := strconv.Atoi(f[2])
			bad, badIn := 0, ""
			c09Window(n, byte(first), f[3] == "1", func(s []byte) {
				if v := c09Oracle(string(s), escapeImpl(string(s))); v != "ok" {
					if bad == 0 {
						badIn = hex.EncodeToString(s) + ":" + v
					}
					bad++
				}
			})
			fmt.Fprintf(out, "%d %s\n", bad, badIn)
		case "sweep4": // all 2^32 4-byte strings against the Go-side oracle, parallel over the first byte
			var mu sync.Mutex
			total, bad, badIn := 0, 0, ""
			var wg sync.WaitGroup
			sem := make(chan struct{}, runtime.NumCPU())
			for first := 0; first < 256; first++ {
				wg.Add(1)
				sem <- struct{}{}
				go func(first int) {
					defer func() { <-sem; wg.Done() }()
					n, b, bi := 0, 0, ""
					c09Window(4, byte(first), true, func(s []byte) {
						n++
						if v := c09Oracle(string(s), escapeImpl(string(s))); v != "ok" {
							if b == 0 {
								bi = hex.EncodeToString(s) + ":" + v
							}
							b++
						}
					})
					mu.Lock()
					total += n
					bad += b
					if badIn == "" {
						badIn = bi
					}
					mu.Unlock()
				}(first)
			}
			wg.Wait()
			fmt.Fprintf(out, "%d %d %s\n", total, bad, badIn)
		}
	}
}
