open Model
open Main_common

let run (line : string) : string =
  let ops = List.filter_map (fun ch ->
    match ch with
    | 'A' -> Some (ORefresh CfgA) | 'B' -> Some (ORefresh CfgB) | 'W' -> Some (ORefresh CfgW) | 'E' -> Some ORefreshEarly | 'L' -> Some ORefreshLate | 'P' -> Some ORefreshLate | 'M' -> Some ORefreshLate
    | 'D' -> Some ODestroy | 'g' -> Some (OLog false) | 'G' -> Some (OLog true) | 'w' -> Some OWrite | 'r' -> Some OWriteRoot | 'v' -> Some OWrite (* second handle: same binding rule *) | 't' -> Some ORegisterTag | 'h' -> Some OGetLogger
    | _ -> None) (List.init (String.length line) (String.get line)) in
  let (_, outs) = lrun l_start ops in
  "#" ^ String.concat " " (List.map (function
    | RefreshOk -> "ok" | RefreshErr -> "err" | Done -> "ok" | ToConfig CfgA -> "A" | ToConfig CfgB -> "B" | ToConfig CfgW -> "W" | Filtered -> "nowhere"
    | ToConsole -> "console" | Registered -> "registered" | Refused -> "refused") outs)

let () = Hashtbl.replace families "c16" run
