open Model
open Main_common

let alpha = List.map n_of_int [0x00;0x01;0x08;0x09;0x0a;0x0d;0x1f;0x20;0x22;0x2f;0x5c;0x61;0x7e;0x7f;
  0x80;0x8f;0x90;0x9f;0xa0;0xbf;0xc0;0xc1;0xc2;0xdf;0xe0;0xe1;0xec;0xed;0xee;0xef;
  0xf0;0xf1;0xf3;0xf4;0xf5;0xff;0xbd;0xbe;0x30;0x39;0x41;0x66;0x75;0x6e;0x5b;0x5d;0x1b;0x7b]
let all256 = List.init 256 n_of_int

let window (n : int) (first : int) (full : bool) (f : n list -> unit) : unit =
  let al = if full then all256 else alpha in
  if n = 0 then f [] else
  let rec go k acc = if k = 0 then f (n_of_int first :: List.rev acc) else List.iter (fun b -> go (k - 1) (b :: acc)) al in
  (* positions 2..n vary fastest at the END like the Go nested loops *)
  go (n - 1) []

(* verified spec-side oracle applied to an implementation output *)
let oracle (inp : n list) (out : n list) : string =
  if List.exists (fun b -> int_of_n b < 32) out then "raw-control"
  else if not (bytes_eqb (sanitize out) out) then "invalid-utf8"
  else match unescape out with
    | None -> "not-a-json-string"
    | Some d -> if bytes_eqb d (sanitize inp) then "ok" else "decodes-differently"

let run (line : string) : string =
  match fields line with
  | "e" :: h :: _ -> hex_of_bytes (escape (bytes_of_hex h))
  | "win" :: n :: first :: full :: _ ->
      let buf = Buffer.create (1 lsl 20) in
      window (int_of_string n) (int_of_string first) (full = "1") (fun s ->
        List.iter (fun b -> Buffer.add_char buf (Char.chr (int_of_n b))) (escape s);
        Buffer.add_char buf '\n');
      Digest.to_hex (Digest.string (Buffer.contents buf))
  | "o" :: hin :: hout :: _ -> oracle (bytes_of_hex hin) (bytes_of_hex hout)
  | _ -> "?"

let () = Hashtbl.replace families "c09" run
