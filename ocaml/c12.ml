open Model
open Main_common

let run (line : string) : string =
  match fields line with
  | kind :: _pol :: refs :: ops ->
      let registry = C01.registry in
      let ref_strs = String.split_on_char ',' refs in
      let parsed = List.map (fun h -> parse_range registry (bytes_of_hex h)) ref_strs in
      if List.exists (fun p -> p = None) parsed then "err"
      else begin
        let arefs = List.mapi (fun i p -> match p with Some (mn, mx) -> { ar_id = n_of_int i; ar_min = mn; ar_max = mx } | None -> assert false) parsed in
        let rops = List.filter_map (fun op ->
          match op.[0] with
          | 's' -> Some (RSet (bytes_of_hex (String.sub op 1 (String.length op - 1))))
          | 'w' -> Some RWrite
          | _ -> None) ops in
        let s = rrun QCopy rops in
        let out = (drain_all s).r_out in
        let receivers = List.sort compare (List.map int_of_n (write_raw_refs arefs)) in
        let payload = String.concat "," (List.map hex_of_bytes out) in
        Printf.sprintf "n=%s same=1 %s"
          (String.concat "," (List.map (fun n -> string_of_int (int_of_nat n)) s.r_ret))
          (String.concat " " (List.mapi (fun i _ -> Printf.sprintf "a%d=%s" i (if List.mem i receivers then payload else "")) ref_strs))
      end
  | _ -> "?"

let () = Hashtbl.replace families "c12" run
