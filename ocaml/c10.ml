open Model
open Main_common

let run (line : string) : string =
  match fields line with
  | kind :: lv :: rl :: hooks :: _ ->
      let registry = C01.registry in
      let lr = if kind = "none" then Some (lvl_none, lvl_max) else parse_range registry (bytes_of_hex lv) in
      let rr = if kind = "none" then Some (lvl_none, lvl_max) else parse_range registry (bytes_of_hex rl) in
      (match lr, rr with
       | Some lr, Some rr ->
           let hs = { hk_time = hooks.[0] = '1'; hk_string = hooks.[1] = '1'; hk_fields = hooks.[2] = '1' } in
           let entries = C01.entries @ List.map (fun c -> ERecord (z_of_int c)) C01.probe_codes in
           String.concat " " (List.map (fun e ->
             let (trace, emitted) = log_call lr hs e in
             let count c = List.length (List.filter (fun x -> x = c) trace) in
             (* the appender reference applies its own range (chained to MAX: single reference) *)
             let delivered = emitted && enable rr (entry_level e) in
             Printf.sprintf "%d,%d,%d,%d,0,%s,%s" (count CGen) (count CTime) (count CCtxString) (count CCtxFields)
               (if delivered then "1" else "0") (if delivered then "1" else "-")) entries)
       | _ -> "err")
  | _ -> "?"

let () = Hashtbl.replace families "c10" run
