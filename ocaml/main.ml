open Main_common
(* usage: modelrun <family> <cases> <out> *)
let () =
  let fam = Sys.argv.(1) in
  let f = try Hashtbl.find families fam with Not_found -> (prerr_endline ("unknown family " ^ fam); exit 2) in
  let ic = open_in Sys.argv.(2) in
  let oc = open_out Sys.argv.(3) in
  (try
    while true do
      let l = input_line ic in
      if l <> "" then (output_string oc (f l); output_char oc '\n')
    done
  with End_of_file -> ());
  close_in ic; close_out oc
