open Model
open Main_common

let universe : n list list ref = ref []

let run (line : string) : string =
  match fields line with
  | "u" :: hs -> universe := !universe @ List.map bytes_of_hex hs; "u"
  | "c" :: specs ->
      let parsed = List.mapi (fun i spec ->
        match String.split_on_char ':' spec with
        | [n; t] | [n; t; _] (* third component: the logger kind, irrelevant to routing *) -> (i, string_of_bytes (bytes_of_hex n), bytes_of_hex t)
        | _ -> failwith "bad spec") specs in
      let ls = List.map (fun (i, name, tg) ->
        { lg_id = n_of_int i; lg_is_root = (name = "root"); lg_tags = trim_space tg (* injectAttribute trims the value *) }) parsed in
      (match refresh_tags ls [] None with
       | Inl _ -> "err"
       | Inr (m, root) ->
           let name_of id = let (_, n, _) = List.find (fun (i, _, _) -> i = int_of_n id) parsed in n in
           String.concat " " (List.map (fun t ->
             match route m t with
             | Some id -> name_of id
             | None -> (match root with Some id -> name_of id | None -> "default")) !universe))
  | _ -> "?"

let () = Hashtbl.replace families "c02" run
