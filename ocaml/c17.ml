open Model
open Main_common

let run (line : string) : string =
  match fields line with
  | "p" :: h :: _ ->
      (match parse (bytes_of_hex h) with
       | PNil -> "nil"
       | PErr -> "err"
       | POk m ->
           let kv = List.map (fun (k, v) -> hex_of_bytes k ^ ":" ^ hex_of_bytes v) m in
           String.trim ("ok " ^ String.concat " " (List.sort compare kv)))
  | _ -> "?"

let () = Hashtbl.replace families "c17" run
