(* modelrun: runs the extracted Gallina models on line-oriented case files. *)
open Model

let rec pos_of_int (n : int) : positive =
  if n = 1 then XH else if n land 1 = 0 then XO (pos_of_int (n lsr 1)) else XI (pos_of_int (n lsr 1))
let n_of_int (n : int) : n = if n = 0 then N0 else Npos (pos_of_int n)
let rec int_of_pos = function XH -> 1 | XO p -> 2 * int_of_pos p | XI p -> 2 * int_of_pos p + 1
let int_of_n = function N0 -> 0 | Npos p -> int_of_pos p
let rec nat_of_int n = if n <= 0 then O else S (nat_of_int (n - 1))
let rec int_of_nat = function O -> 0 | S n -> 1 + int_of_nat n
let z_of_int (i : int) : z = if i = 0 then Z0 else if i > 0 then Zpos (pos_of_int i) else Zneg (pos_of_int (-i))
let int_of_z = function Z0 -> 0 | Zpos p -> int_of_pos p | Zneg p -> - (int_of_pos p)
(* arbitrary-size decimal -> Z, for 64-bit values that do not fit OCaml's 63-bit int *)
let z_of_string (s : string) : z =
  let neg = String.length s > 0 && s.[0] = '-' in
  let s' = if neg || (String.length s > 0 && s.[0] = '+') then String.sub s 1 (String.length s - 1) else s in
  let ten = Zpos (pos_of_int 10) in
  let acc = ref Z0 in
  String.iter (fun c -> acc := Z.add (Z.mul !acc ten) (z_of_int (Char.code c - 48))) s';
  if neg then Z.opp !acc else !acc
let n_of_string (s : string) : n = Z.to_N (z_of_string s)

let bytes_of_hex (h : string) : n list =
  if h = "-" then [] else
  let len = String.length h / 2 in
  List.init len (fun i -> n_of_int (int_of_string ("0x" ^ String.sub h (2 * i) 2)))
let hex_of_bytes (b : n list) : string =
  if b = [] then "-" else String.concat "" (List.map (fun x -> Printf.sprintf "%02x" (int_of_n x)) b)
let string_of_bytes (b : n list) : string =
  let buf = Buffer.create 16 in List.iter (fun x -> Buffer.add_char buf (Char.chr (int_of_n x))) b; Buffer.contents buf

let bytes_of_string (s : string) : n list = List.init (String.length s) (fun i -> n_of_int (Char.code s.[i]))
let fields_of (l : string) : string list = List.filter (fun s -> s <> "") (String.split_on_char ' ' l)
let fields (l : string) : string list = List.filter (fun s -> s <> "") (String.split_on_char ' ' l)

let families : (string, (string -> string)) Hashtbl.t = Hashtbl.create 16
