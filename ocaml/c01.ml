open Model
open Main_common

let custom = [("VERBOSE", 50); ("NOTICE", 450); ("ABOVE", 1500); ("BELOW", -7); ("ALL", -2147483648); ("OFF", 2147483647)]
let registry = builtin_levels @ List.map (fun (n, c) -> (bytes_of_string n, z_of_int c)) custom

let probe_codes : int list =
  let codes = List.map (fun (_, c) -> int_of_z c) builtin_levels @ List.map snd custom in
  let all = List.concat_map (fun c -> [c - 1; c; c + 1]) codes in
  List.sort_uniq compare (List.filter (fun c -> c >= -2147483648 && c <= 2147483647) all)

let entries = [ETrace; ETracef; EDebug; EDebugf; EInfo; EInfof; EWarn; EWarnf; EError; EErrorf; EPanic; EPanicf; EFatal; EFatalf]

let run (line : string) : string =
  match fields line with
  | kind :: lv :: lay :: refs :: _ ->
      let has_layout = lay = "1" in
      (match parse_range registry (bytes_of_hex lv) with
       | None -> "err"
       | Some lr ->
           let ref_strs = if refs = "none" then [] else String.split_on_char ',' refs in
           let parsed = List.map (fun h -> parse_range registry (bytes_of_hex h)) ref_strs in
           if (kind = "sync" || kind = "async") && List.exists (fun p -> p = None) parsed then "err"
           else begin
             let arefs = List.mapi (fun i p -> match p with Some (mn, mx) -> { ar_id = n_of_int i; ar_min = mn; ar_max = mx } | None -> assert false)
                           (if kind = "sync" || kind = "async" then parsed else []) in
             let deliver (l : z) : (n * bool) list =
               match kind with
               | "sync" | "async" -> deliver_refs arefs lr has_layout l
               | "console" | "file" -> deliver_simple lr l
               | _ -> deliver_rolling lr (kind = "rollingsep" || kind = "rollingsepasync") has_layout l in
             let show (ds : (n * bool) list) : string =
               let toks = List.map (fun (id, w) ->
                 string_of_int (int_of_n id) ^ (if kind = "sync" || kind = "async" then (if w then "w" else "e") else "")) ds in
               String.concat "," (List.sort compare toks) in
             let probes = List.map (fun c -> ERecord (z_of_int c)) probe_codes @ entries in
             String.concat " " (List.mapi (fun i e -> Printf.sprintf "p%d=%s" i (show (log_via e lr deliver))) probes)
           end)
  | _ -> "?"

let () = Hashtbl.replace families "c01" run
