open Model
open Main_common

(* registry state persists across "r" lines, like the Go process's tagRegistry *)
let reg = ref { reg_init = false; reg_tags = [] }

let run (line : string) : string =
  match fields line with
  | "v" :: h :: _ -> if is_valid_tag (bytes_of_hex h) then "1" else "0"
  | "r" :: hs ->
      let obs = List.map (fun h ->
        let (st, o) = register_tag !reg (bytes_of_hex h) in
        reg := st;
        match o with RegOk _ -> "ok1" | RegPanicInit -> "panic" | RegPanicInvalid -> "panic") hs in
      String.concat " " obs ^ " | " ^ String.concat " " (List.map hex_of_bytes (all_tags !reg))
  | "R" :: h :: _ ->
      (* Refresh: init = true; a registration while live panics; Destroy: init = false *)
      let live = { reg_init = true; reg_tags = !reg.reg_tags } in
      let (_, o) = register_tag live (bytes_of_hex h) in
      (match o with RegOk _ -> "accepted-while-live" | _ -> "panic") ^ " | " ^ String.concat " " (List.map hex_of_bytes (all_tags !reg))
  | "b" :: m :: s :: a :: _ ->
      (match build_tag (bytes_of_hex m) (bytes_of_hex s) (bytes_of_hex a) with
       | None -> "panic"
       | Some t ->
           let (st, o) = register_tag !reg t in
           reg := st;
           hex_of_bytes t ^ " " ^ (match o with RegOk _ -> "1" | _ -> "0"))
  | _ -> "?"

let () = Hashtbl.replace families "c18" run
