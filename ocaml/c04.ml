open Model
open Main_common

let strip_l s = match String.index_opt s '+' with Some i -> String.sub s 0 i | None -> s
let pol_of s = match strip_l s with "Block" -> PBlock | "Discard" -> PDiscard | "DiscardOldest" -> PDiscardOldest | s -> failwith ("policy " ^ s)

let run (line : string) : string =
  match fields line with
  | cap :: pol :: ops ->
      let kinds : (int * int, char) Hashtbl.t = Hashtbl.create 64 in
      let q = ref (q_init (nat_of_int (int_of_string cap)) (pol_of pol)) in
      let show_item (p, n) =
        let p = int_of_nat p and n = int_of_nat n in
        let k = (try Hashtbl.find kinds (p, n) with Not_found -> '?') in
        if k = 'z' then "z" else Printf.sprintf "%c%d.%d" k p n in
      let auto_receive () =
        (* the real worker takes the next item as soon as it is free *)
        if (!q).q_held = None && not (!q).q_stopped && (!q).q_buf <> [] then q := aseq_step !q OReceive in
      let obs = ref [] in
      List.iter (fun op ->
        let flag = ref "r" in
        (match op with
         | "T" -> if (!q).q_held <> None then (q := aseq_step !q ODeliver; auto_receive ())
         | "X" -> q := aseq_step !q OStop
         | _ ->
             let kind = op.[0] in
             (match String.split_on_char '.' (String.sub op 1 (String.length op - 1)) with
              | [p; n] ->
                  let p = int_of_string p and n = int_of_string n in
                  if kind <> 'd' && kind <> 'u' then begin
                    Hashtbl.replace kinds (p, n) kind;
                    let (q', out) = submit !q (nat_of_int p, nat_of_int n) in
                    q := q';
                    (match out with Blocks -> flag := "b" | _ -> ());
                    auto_receive ()
                  end
              | _ -> failwith "bad op"));
        obs := Printf.sprintf "%s|%d|%d|%s" (String.concat "," (List.map show_item (!q).q_delivered))
                 (int_of_nat (!q).q_discard) (List.length (!q).q_buf) !flag :: !obs) ops;
      "#" ^ String.concat ";" (List.rev !obs)
  | _ -> "?"

let () = Hashtbl.replace families "c04" run
