open Model
open Main_common

(* token cursor *)
type cur = { t : string array; mutable i : int }
let next c = let s = c.t.(c.i) in c.i <- c.i + 1; s
let peek c = c.t.(c.i)
let cint c = int_of_string (next c)
let cstr c = bytes_of_hex (next c)
let cz c = z_of_string (next c)
let cn c = n_of_string (next c)
let cbool c = next c = "1"
let cfloat c : ftok =
  match String.split_on_char ':' (next c) with
  | [_; "f"; tok] -> FFinite (bytes_of_hex tok)
  | [_; "x"; tok] -> FNonFinite (bytes_of_hex tok)
  | _ -> failwith "bad float token"
let rec times n f = if n <= 0 then [] else let x = f () in x :: times (n - 1) f

let rval c : rtok =
  match next c with
  | "rt" -> RJson (cstr c)
  | "rx" -> RErr (cstr c)
  | k -> failwith ("unresolved rval " ^ k)

let gval c : gval =
  match next c with
  | "nil" -> GNil
  | "b" -> GBool (cbool c)
  | "bp" -> (match next c with "n" -> GBoolPtr None | t -> GBoolPtr (Some (t = "1")))
  | "bs" -> let n = cint c in GBools (times n (fun () -> cbool c))
  | "i" -> let w = cint c in GInt (n_of_int w, cz c)
  | "ip" -> let w = cint c in (match next c with "n" -> GIntPtr (n_of_int w, None) | t -> GIntPtr (n_of_int w, Some (z_of_string t)))
  | "is" -> let w = cint c in let n = cint c in GInts (n_of_int w, times n (fun () -> cz c))
  | "u" -> let w = cint c in GUint (n_of_int w, cn c)
  | "up" -> let w = cint c in (match next c with "n" -> GUintPtr (n_of_int w, None) | t -> GUintPtr (n_of_int w, Some (n_of_string t)))
  | "us" -> let w = cint c in let n = cint c in GUints (n_of_int w, times n (fun () -> cn c))
  | "f" -> let w = cint c in GFloat (n_of_int w, cfloat c)
  | "fp" -> let w = cint c in if peek c = "n" then (ignore (next c); GFloatPtr (n_of_int w, None)) else GFloatPtr (n_of_int w, Some (cfloat c))
  | "fs" -> let w = cint c in let n = cint c in GFloats (n_of_int w, times n (fun () -> cfloat c))
  | "s" -> GString (cstr c)
  | "sp" -> (match next c with "n" -> GStringPtr None | t -> GStringPtr (Some (bytes_of_hex t)))
  | "ss" -> let n = cint c in GStrings (times n (fun () -> cstr c))
  | "o" -> GOther (rval c)
  | k -> failwith ("bad gval " ^ k)

let rec elem c : value =
  match next c with
  | "eb" -> VBool (cbool c)
  | "ei" -> VInt (num_of_int (cz c))
  | "eu" -> VUint (cn c)
  | "ef" -> VFloat (cfloat c)
  | "es" -> VStr (cstr c)
  | "ea" -> let n = cint c in VArr (times n (fun () -> elem c))
  | "eo" -> let n = cint c in VObj (times n (fun () -> let k = cstr c in (k, elem c)))
  | k -> failwith ("bad elem " ^ k)

let rec fields c : (n list * value) list = let n = cint c in times n (fun () -> field c)
and field c : n list * value =
  match next c with
  | "B" -> let k = cstr c in f_bool k (cbool c)
  | "BP" -> let k = cstr c in (match next c with "n" -> f_any k (GBoolPtr None) | t -> f_any k (GBoolPtr (Some (t = "1"))))
  | "BS" -> let k = cstr c in let n = cint c in f_any k (GBools (times n (fun () -> cbool c)))
  | "I" -> let _ = cint c in let k = cstr c in f_int k (cz c)
  | "IP" -> let w = cint c in let k = cstr c in (match next c with "n" -> f_any k (GIntPtr (n_of_int w, None)) | t -> f_any k (GIntPtr (n_of_int w, Some (z_of_string t))))
  | "IS" -> let w = cint c in let k = cstr c in let n = cint c in f_any k (GInts (n_of_int w, times n (fun () -> cz c)))
  | "U" -> let _ = cint c in let k = cstr c in f_uint k (cn c)
  | "UP" -> let w = cint c in let k = cstr c in (match next c with "n" -> f_any k (GUintPtr (n_of_int w, None)) | t -> f_any k (GUintPtr (n_of_int w, Some (n_of_string t))))
  | "US" -> let w = cint c in let k = cstr c in let n = cint c in f_any k (GUints (n_of_int w, times n (fun () -> cn c)))
  | "F" -> let _ = cint c in let k = cstr c in f_float k (cfloat c)
  | "FP" -> let w = cint c in let k = cstr c in
            if peek c = "n" then (ignore (next c); f_any k (GFloatPtr (n_of_int w, None))) else f_any k (GFloatPtr (n_of_int w, Some (cfloat c)))
  | "FS" -> let w = cint c in let k = cstr c in let n = cint c in f_any k (GFloats (n_of_int w, times n (fun () -> cfloat c)))
  | "S" -> let k = cstr c in f_string k (cstr c)
  | "SP" -> let k = cstr c in (match next c with "n" -> f_any k (GStringPtr None) | t -> f_any k (GStringPtr (Some (bytes_of_hex t))))
  | "SS" -> let k = cstr c in let n = cint c in f_any k (GStrings (times n (fun () -> cstr c)))
  | "NIL" -> f_nil (cstr c)
  | "R" -> let k = cstr c in f_reflect k (rval c)
  | "ANY" -> let k = cstr c in f_any k (gval c)
  | "O" -> let k = cstr c in f_object k (fields c)
  | "ARR" -> let k = cstr c in let n = cint c in f_array k (times n (fun () -> elem c))
  | "MAP" -> let n = cint c in f_from_map (times n (fun () -> let k = cstr c in (k, gval c)))
  | "MSG" | "MSGF" -> f_string msg_key (cstr c)
  | k -> failwith ("bad field " ^ k)

let parse_event (line : string) : z * event =
  let c = { t = Array.of_list (fields_of line); i = 0 } in
  ignore (next c);
  let level = bytes_of_string (next c) in
  let y = cint c in let mo = cint c in let d = cint c in let h = cint c in let mi = cint c in let s = cint c in let ms = cint c in
  let _off = cint c in
  let file = cstr c in let line_no = cz c in let w = cz c in let tag = cstr c in let ctx = cstr c in
  let cf = fields c in let fs = fields c in
  (w, { ev_level = level;
        ev_time = { t_year = n_of_int y; t_month = n_of_int mo; t_day = n_of_int d; t_hour = n_of_int h; t_min = n_of_int mi; t_sec = n_of_int s; t_ms = n_of_int ms };
        ev_file = file; ev_line = line_no; ev_tag = tag; ev_ctx_string = ctx; ev_ctx_fields = cf; ev_fields = fs })

let run (line : string) : string =
  let (w, ev) = parse_event line in
  hex_of_bytes (json_layout w ev) ^ " | " ^ hex_of_bytes (text_layout w ev) ^ " | " ^ (if wf_event ev then "1" else "0")

(* spec-side oracle on an implementation output: "<resolved case> | <impl json hex>" *)
let oracle (line : string) : string =
  match String.split_on_char '|' line with
  | [case; out] ->
      let (w, ev) = parse_event case in
      let out = bytes_of_hex (String.trim out) in
      if not (wf_event ev) then "outside-hypotheses"
      else (match parse_json out with
            | None -> "not-one-json-value"
            | Some j ->
                let want = decode_json (JObj (event_members w ev)) in
                if j <> want then "decodes-differently"
                else (match List.rev out with
                      | nl :: body -> if int_of_n nl <> 10 then "no-final-newline"
                                      else if json_clean (JObj (event_members w ev)) && List.exists (fun b -> int_of_n b < 32) body then "control-byte-in-line"
                                      else "ok"
                      | [] -> "empty"))
  | _ -> "?"

let () = Hashtbl.replace families "c07" run; Hashtbl.replace families "c07o" oracle
