open Model
open Main_common

(* Case: "<iv> <t0> <op@sec> ..." (the trace observed on the implementation); output: final listing "name=ids;..." + " | lost=<ids>" *)
let run (line : string) : string =
  match fields line with
  | iv :: t0 :: ops ->
      let ids : (int, string) Hashtbl.t = Hashtbl.create 16 in
      let idn = ref 0 in
      let id_of s = incr idn; Hashtbl.replace ids !idn s; n_of_int !idn in
      let s = ref (f_init (z_of_string t0) (z_of_string iv) []) in
      let now = ref (int_of_string t0) in
      List.iter (fun op ->
        match String.split_on_char '@' op with
        | [name; sec] ->
            let sec = int_of_string sec in
            if sec > !now then (s := fstep !s (FTick (z_of_int (sec - !now))); now := sec);
            (match name with
             | "pre" -> s := { !s with r_fs = !s.r_fs @ [{ f_name = z_of_int sec; f_content = [id_of "PRE"] }] }
             | "S" -> s := fstep !s FStart
             | "Sfail" -> ()
             | "X" -> s := fstep !s FStop
             | "R" -> s := fstep !s (FSetCreate false)
             | "U" -> s := fstep !s (FSetCreate true)
             | w -> s := fstep !s (FWrite (id_of (String.sub w 1 (String.length w - 1)))))
        | _ -> ()) ops;
      let show l = String.concat "," (List.map (fun n -> Hashtbl.find ids (int_of_n n)) l) in
      let files = List.sort compare (List.map (fun f -> Printf.sprintf "%d=%s" (int_of_z f.f_name) (show f.f_content)) !s.r_fs) in
      String.concat ";" files ^ " | lost=" ^ show !s.r_lost
  | _ -> "?"

let () = Hashtbl.replace families "c13" run
