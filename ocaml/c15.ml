(* C15: configuration resolution *)
open Model
open Main_common

let env15 = gen_env

let rec string_of_z (z : z) : string =
  (* decimal rendering through the model's own fmt_int *)
  string_of_bytes (fmt_int z)

let pairs_of (fs : string list) : (n list * n list) list =
  let fs = List.filter (fun s -> s <> "@") fs in
  List.map (fun kv -> let i = String.index kv ':' in
    (bytes_of_hex (String.sub kv 0 i), bytes_of_hex (String.sub kv (i + 1) (String.length kv - i - 1)))) fs

let rec dump (refs_only : bool) (v : pval) : string =
  match v with
  | PVStr s -> "s:" ^ hex_of_bytes s
  | PVBool b -> if b then "b:true" else "b:false"
  | PVInt z -> "i:" ^ string_of_z z
  | PVRange (lo, hi) -> "r:" ^ string_of_z lo ^ "~" ^ string_of_z hi
  | PVPolicy p -> "p:" ^ string_of_z p
  | PVRot i -> "t:" ^ string_of_z i
  | PVNil -> "nil"
  | PVSlice l -> "[" ^ String.concat ";" (List.map (dump refs_only) l) ^ "]"
  | PVPlugin (ty, fs) ->
      string_of_bytes ty ^ "{" ^ String.concat "," (List.map (fun (n, x) ->
        let name = string_of_bytes n in
        if refs_only && name = "AppenderRefs" then
          let refs = match x with
            | PVSlice l -> List.map (fun r -> match r with
                | PVPlugin (_, rf) -> (match field_of rf s_ref with Some (PVStr s) -> hex_of_bytes s | _ -> "?")
                | _ -> "?") l
            | _ -> [] in
          name ^ "=refs(" ^ String.concat ";" (List.sort compare refs) ^ ")"
        else name ^ "=" ^ dump refs_only x) fs) ^ "}"

(* two keys with the same normalised form: the Go result depends on map iteration order - outside the property *)
let ambiguous (m : (n list * n list) list) : bool =
  match expand_all m with
  | None -> false
  | Some kvs -> let ks = List.map fst kvs in List.length (List.sort_uniq compare ks) <> List.length ks
let guard_amb (m : (n list * n list) list) (f : unit -> string) : string = if ambiguous m then "ambiguous" else f ()

let () = Hashtbl.replace families "c15k" (fun l -> hex_of_bytes (to_camel_key (bytes_of_hex (String.trim l))))

let () = Hashtbl.replace families "c15s" (fun l ->
  guard_amb (pairs_of (fields l)) @@ fun () ->
  match to_storage (pairs_of (fields l)) with
  | None -> "err"
  | Some st ->
      let kv = List.filter_map (fun e -> if is_marker e.e_val then None else Some (hex_of_bytes e.e_key ^ ":" ^ hex_of_bytes e.e_val)) st in
      String.concat " " ("ok" :: List.sort compare kv))

let () = Hashtbl.replace families "c15p" (fun l ->
  match fields l with
  | pt :: name :: prefix :: rest ->
      guard_amb (pairs_of rest) @@ fun () ->
      (match new_plugin_from_map env15 (bytes_of_hex pt) (bytes_of_hex name) (bytes_of_hex prefix) (pairs_of rest) with
       | COk v -> "ok " ^ dump false v
       | CErr -> "err"
       | CPanic -> "panic (model)"
       | CFuel -> "out-of-fuel (model)")
  | _ -> "bad-case")

let c15_handles : n list list ref = ref []
let () = Hashtbl.replace families "c15r" (fun l ->
  guard_amb (pairs_of (fields l)) @@ fun () ->
  match refresh env15 !c15_handles (pairs_of (fields l)) with
  | COk o ->
      let f (n, v) = hex_of_bytes n ^ "=" ^ dump true v in
      String.concat " " (["ok"; "A"] @ List.sort compare (List.map f o.o_appenders) @ ["L"] @ List.sort compare (List.map f o.o_loggers))
  | CErr -> "err"
  | CPanic -> "panic (model)"
  | CFuel -> "out-of-fuel (model)")
(* same, with the handle "audit" registered *)
let () = Hashtbl.replace families "c15rh" (fun l ->
  c15_handles := [bytes_of_string "audit"];
  let r = (Hashtbl.find families "c15r") l in
  c15_handles := []; r)

(* the minimal configuration of the i-th registered logger / appender type, as a case line for c15r *)
let () = Hashtbl.replace families "c15min" (fun l ->
  let i = int_of_string (String.trim l) in
  match List.nth_opt top_level_plugins i with
  | None -> "end"
  | Some p -> String.concat " " (List.map (fun (k, v) -> hex_of_bytes k ^ ":" ^ hex_of_bytes v) (minimal_cfg p)))
