open Model
open Main_common

(* "<fileName-hex> <maxAge> <entry>... [ |<seconds since the first pass> <entry>... ]..." : several cleanup passes of one appender, entries
   written / touched / created before each; entry = <name-hex>:<kind>:<mtime offset from the first pass, seconds> *)
let entry e =
  match String.split_on_char ':' e with
  | [n; k; off] -> { de_name = bytes_of_hex n; de_kind = n_of_int (let k = int_of_string k in if k = 3 then 1 else if k = 4 then 2 else k) (* 3 = a directory with files inside: a directory; 4 = a symbolic link to a regular file whose own mtime is the given one: not a regular file *); de_mtime = z_of_int (int_of_string off) }
  | _ -> failwith "bad entry"

let run (line : string) : string =
  match fields line with
  | fn :: age :: ents ->
      let phases = ref [] and cur = ref [] and now = ref 0 in
      List.iter (fun t ->
        if String.length t > 0 && t.[0] = '|' then begin
          phases := { ph_now = z_of_int !now; ph_set = List.rev !cur } :: !phases;
          cur := []; now := int_of_string (String.sub t 1 (String.length t - 1))
        end else cur := entry t :: !cur) ents;
      phases := { ph_now = z_of_int !now; ph_set = List.rev !cur } :: !phases;
      let surv = run_phases (bytes_of_hex fn) (z_of_int (int_of_string age)) [] (List.rev !phases) in
      String.concat " " (List.sort compare (List.map (fun e -> hex_of_bytes e.de_name) surv))
  | _ -> "?"

let () = Hashtbl.replace families "c14" run
