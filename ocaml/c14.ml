open Model
open Main_common

let run (line : string) : string =
  match fields line with
  | fn :: age :: ents ->
      let dir = List.map (fun e ->
        match String.split_on_char ':' e with
        | [n; k; off] -> { de_name = bytes_of_hex n; de_kind = n_of_int (let k = int_of_string k in if k = 3 then 1 else k) (* 3 = a directory with files inside: a directory *); de_mtime = z_of_int (int_of_string off) }
        | _ -> failwith "bad entry") ents in
      let surv = clear_expired (bytes_of_hex fn) (z_of_int (int_of_string age)) Z0 dir in
      String.concat " " (List.sort compare (List.map (fun e -> hex_of_bytes e.de_name) surv))
  | _ -> "?"

let () = Hashtbl.replace families "c14" run
