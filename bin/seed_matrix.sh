#!/bin/bash
# For every confirmed seeded change under /verif/seeded/<id>/: apply it to /repo's working tree, run every claimed quick
# check, record which checks report a violation, undo the change. Writes /verif/seeded/MATRIX.json. Evidence files are
# restored from git afterwards (they must come from clean-tree runs). usage: bin/seed_matrix.sh [ids...]
cd /verif
if [ -n "$(git -C /repo status --porcelain)" ]; then echo "/repo working tree is not clean"; exit 2; fi
ids=${@:-$(ls seeded | grep '^C')}
checks=$(python3 -c "import json;print(' '.join(c['property_id'] for c in json.load(open('MANIFEST.json'))['checks']))")
out=/var/tmp/verif-matrix.$$; mkdir -p $out
for s in $ids; do
  git -C /repo apply /verif/seeded/$s/patch.diff || { echo "$s: patch does not apply"; continue; }
  for c in $checks; do
    bin/check $c --tier quick > $out/$s.$c.log 2>&1; echo "$s $c $?" >> $out/results.txt
  done
  git -C /repo checkout -- . && git -C /repo clean -fdq
  echo "$s: caught by: $(grep "^$s " $out/results.txt | awk '$3!=0{print $2}' | tr '\n' ' ')"
done
python3 - $out/results.txt <<'PY'
import json,sys,os
m={}
for l in open(sys.argv[1]):
    s,c,rc=l.split()
    m.setdefault(s,{'caught_by':[],'not_caught_by':[]})['caught_by' if rc!='0' else 'not_caught_by'].append(c)
p='/verif/seeded/MATRIX.json'
old=json.load(open(p)) if os.path.exists(p) else {}
old.update(m)
json.dump(old,open(p,'w'),indent=1,sort_keys=True)
PY
rm -rf $out
git -C /verif checkout -- evidence 2>/dev/null
echo done
