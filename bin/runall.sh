#!/bin/bash
# Runs every claimed quick check on the current /repo tree (used before committing evidence).
cd "$(dirname "$0")/.."
if [ -n "$(git -C /repo status --porcelain)" ]; then echo "WARNING: /repo working tree is not clean"; fi
rc=0
for id in $(python3 -c "import json;print(' '.join(c['property_id'] for c in json.load(open('MANIFEST.json'))['checks']))"); do
  bin/check $id --tier ${1:-quick} | tail -3 || rc=1
done
exit $rc
