#!/bin/bash
# Extracts the models to OCaml and builds build/modelrun.
set -e
V=${VERIF_ROOT:-$(cd "$(dirname "$0")/.." && pwd)}
mkdir -p $V/build/ocaml && cd $V/build/ocaml
rm -f model.ml model.mli
timeout 600 coqc -Q $V/coq LogV $V/coq/Extract/Extract.v -o $V/build/ocaml/Extract.vo > extract.log 2>&1 || { cat extract.log; exit 1; }
cp $V/ocaml/*.ml .
FILES="model.mli model.ml main_common.ml c01.ml $(cd $V/ocaml && ls c*.ml | grep -v "^c01.ml" | sort | tr '\n' ' ') main.ml"
timeout 600 ocamlfind ocamlopt -O3 -w -a -unboxed-types 2>/dev/null $FILES -o $V/build/modelrun || timeout 600 ocamlfind ocamlopt -w -a $FILES -o $V/build/modelrun
