#!/bin/bash
# Applies every stored seeded change (seeded/<id>[-rN]/patch.diff) to /repo in turn and runs the quick check of ITS property.
# Prints one line per change; exits 1 if any change is not caught. Evidence files are restored from git afterwards.
# usage: seed_own.sh [Cxx ...]   (default: all properties)
cd "$(dirname "$0")/.."
if [ -n "$(git -C /repo status --porcelain)" ]; then echo "/repo working tree is not clean"; exit 2; fi
rc=0
for d in $(ls seeded | grep '^C' | sort); do
  id=${d%%-*}
  if [ $# -gt 0 ] && ! echo " $* " | grep -q " $id "; then continue; fi
  git -C /repo apply $PWD/seeded/$d/patch.diff || { echo "$d: patch does not apply"; rc=1; continue; }
  if bin/check $id --tier quick > /var/tmp/seed_own.log 2>&1; then echo "$d: NOT CAUGHT"; rc=1; else echo "$d: caught ($(grep -c '^VIOLATION' /var/tmp/seed_own.log) violation lines)"; fi
  git -C /repo checkout -- . && git -C /repo clean -fdq
done
rm -f /var/tmp/seed_own.log
git checkout -- evidence 2>/dev/null
exit $rc
