#!/bin/bash
# Runs go-spring/log's pinned test suite with the `verif` build tag OFF and
# compares the result with /root/.vp/BASELINE.json (158 stable passes).
set -u
export GOFLAGS=-mod=mod GOPROXY=off GOSUMDB=off GOTOOLCHAIN=local
GO=${VERIF_GO:-go1.26}
out=$(mktemp /var/tmp/verif-baseline.XXXXXX)
trap 'rm -f "$out"' EXIT
(cd ${REPO_DIR:-/repo} && $GO test -json -vet=off -count=1 -timeout 25m ./... > "$out" 2>/dev/null)
python3 - "$out" <<'PY'
import json,sys
base=json.load(open('/root/.vp/BASELINE.json'))
want=set(base['stable_pass'])
res={}
for l in open(sys.argv[1]):
    try: e=json.loads(l)
    except Exception: continue
    if e.get('Test') and e.get('Action') in('pass','fail','skip'):
        res[e['Package']+'::'+e['Test']]=e['Action']
missing=[t for t in sorted(want) if res.get(t)!='pass']
print("baseline: %d/%d stable tests pass"%(len(want)-len(missing),len(want)))
for t in missing: print("  NOT PASSING:",t,res.get(t))
sys.exit(1 if missing else 0)
PY
