#!/bin/bash
# usage: confirm_seed.sh <Cxx> <outdir-of-agent> [<name under /verif/seeded, default Cxx>]   -- confirms a seeded change in a scratch worktree and stores it under /verif/seeded/<id>/
set -u
id=$1; src=${2:-/tmp/wt-out/$id}; dst=${3:-$id}
export GOFLAGS=-mod=mod GOPROXY=off GOSUMDB=off GOTOOLCHAIN=local
wt=/tmp/wtc/$id
rm -rf $wt; git -C /repo worktree prune; mkdir -p /tmp/wtc
git -C /repo worktree add --detach $wt HEAD -q || exit 2
log=/tmp/wtc/$id.log; : > $log
run_demo() { (cd $src/demo && timeout 900 bash ./run.sh $wt) >> $log 2>&1; echo $?; }
echo "== demo on unchanged tree" >> $log
d0=$(run_demo)
git -C $wt apply $src/patch.diff >> $log 2>&1 || { echo "patch does not apply" >> $log; }
echo "== build + baseline with change" >> $log
(cd $wt && go1.26 build ./... && go1.26 build -tags verif ./...) >> $log 2>&1; b=$?
REPO_DIR=$wt /verif/bin/baseline_off.sh >> $log 2>&1; t=$?
echo "== demo with change" >> $log
d1=$(run_demo)
git -C /repo worktree remove --force $wt
echo "$id: demo_unchanged_exit=$d0 build=$b baseline=$t demo_changed_exit=$d1"
if [ "$d0" = 0 ] && [ "$b" = 0 ] && [ "$t" = 0 ] && [ "$d1" != 0 ]; then
  mkdir -p /verif/seeded/$dst && rm -rf /verif/seeded/$dst/demo && cp -r $src/demo /verif/seeded/$dst/demo && cp $src/patch.diff /verif/seeded/$dst/patch.diff
  python3 - "$id" "$src" "$d0" "$b" "$t" "$d1" "$dst" <<'PY'
import json,sys
id,src,d0,b,t,d1,dst=sys.argv[1:]
try: m=json.load(open(src+'/meta.json'))
except Exception as e: m={'property':id,'summary':'(meta.json unreadable: %s)'%e}
m['confirmed_by_main']={'demo_on_unchanged_tree_exit':int(d0),'build_with_change_exit':int(b),'baseline_158_with_change_exit':int(t),'demo_with_change_exit':int(d1),
  'how':'bin/confirm_seed.sh in a scratch worktree of /repo HEAD (fix commits + hook commit), removed afterwards'}
json.dump(m,open('/verif/seeded/%s/meta.json'%dst,'w'),indent=1)
PY
  echo "$id: CONFIRMED and stored"
else
  echo "$id: NOT confirmed (see $log)"
fi
