#!/bin/bash
# Builds the framework from files on disk only (offline).
set -e
cd "$(dirname "$0")/.."
exec python3 bin/check --setup
